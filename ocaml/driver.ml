(* Trusted glue: s-expression reader/printer over the extracted sexp type.
   Reads one case per line on stdin, prints one verdict per line on stdout. *)
module M = Model
module S = Stdlib.String

let ascii_of_char c =
  let n = Char.code c in
  let b i = (n lsr i) land 1 = 1 in
  M.Ascii (b 0, b 1, b 2, b 3, b 4, b 5, b 6, b 7)

let char_of_ascii (M.Ascii (a, b, c, d, e, f, g, h)) =
  let v x i = if x then 1 lsl i else 0 in
  Char.chr (v a 0 + v b 1 + v c 2 + v d 3 + v e 4 + v f 5 + v g 6 + v h 7)

let coq_string (s : Stdlib.String.t) : M.string =
  let r = ref M.EmptyString in
  for i = S.length s - 1 downto 0 do
    r := M.String (ascii_of_char s.[i], !r)
  done;
  !r

let ocaml_string (s : M.string) : Stdlib.String.t =
  let b = Buffer.create 16 in
  let rec go = function
    | M.EmptyString -> ()
    | M.String (a, r) -> Buffer.add_char b (char_of_ascii a); go r
  in
  go s; Buffer.contents b

let parse (s : Stdlib.String.t) : M.sexp =
  let n = S.length s in
  let pos = ref 0 in
  let rec skip () = if !pos < n && (s.[!pos] = ' ' || s.[!pos] = '\t') then (incr pos; skip ()) in
  let rec item () =
    skip ();
    if !pos >= n then failwith "eof"
    else if s.[!pos] = '(' then begin
      incr pos;
      let items = ref [] in
      let rec loop () =
        skip ();
        if !pos >= n then failwith "unclosed"
        else if s.[!pos] = ')' then incr pos
        else (items := item () :: !items; loop ())
      in
      loop (); M.L (List.rev !items)
    end else begin
      let st = !pos in
      while !pos < n && not (s.[!pos] = ' ' || s.[!pos] = '(' || s.[!pos] = ')' || s.[!pos] = '\t') do incr pos done;
      M.A (coq_string (S.sub s st (!pos - st)))
    end
  in
  item ()

let rec print b = function
  | M.A s -> Buffer.add_string b (ocaml_string s)
  | M.L l ->
    Buffer.add_char b '(';
    List.iteri (fun i x -> if i > 0 then Buffer.add_char b ' '; print b x) l;
    Buffer.add_char b ')'

let () =
  try
    while true do
      let line = input_line stdin in
      let b = Buffer.create 256 in
      (try print b (M.check_case (parse line))
       with Failure m -> Buffer.add_string b ("(? decode-error " ^ m ^ ")")
          | Stack_overflow -> Buffer.add_string b "(? decode-error stack-overflow)");
      print_endline (Buffer.contents b)
    done
  with End_of_file -> ()
