#!/usr/bin/env python3
"""translator/gen.py <repo> <outdir>: regenerate Generated/*.v from the source on every run.
Works on fixed syntactic forms and fails closed (non-zero exit) when a form is not found.
Files are rewritten only when their content changes (keeps make's timestamps quiet)."""
import os
import re
import sys


def die(msg):
    print("translator: " + msg)
    sys.exit(1)


def read(repo, rel):
    p = os.path.join(repo, rel)
    if not os.path.exists(p):
        die(f"missing source file {rel}")
    return open(p, encoding="utf-8").read()


def coq_str(s):
    return '"' + s.replace('"', '""') + '"'


def write_if_changed(path, content):
    if os.path.exists(path) and open(path, encoding="utf-8").read() == content:
        return
    with open(path, "w", encoding="utf-8") as f:
        f.write(content)


def main():
    repo, out = sys.argv[1], sys.argv[2]
    os.makedirs(out, exist_ok=True)
    gens = []
    for name, fn in sorted(GENERATORS.items()):
        content = fn(repo)
        write_if_changed(os.path.join(out, name + ".v"), content)
        gens.append(name)
    print("translator: generated " + ", ".join(gens))


HEADER = "(* GENERATED from /repo by translator/gen.py on every run. Do not edit. *)\nFrom Coq Require Import List String ZArith.\nImport ListNotations.\nOpen Scope string_scope.\n\n"


def rust_functions(src):
    """yield (name, body_text) for every `fn name` in a Rust source text (brace matching, string/comment aware enough for this crate)"""
    for m in re.finditer(r"\bfn\s+([A-Za-z0-9_]+)\s*(?:<[^>{;]*>)?\s*\(", src):
        name = m.group(1)
        i = src.find("{", m.end())
        semi = src.find(";", m.end())
        if i < 0 or (0 <= semi < i):
            continue
        depth, j = 0, i
        n = len(src)
        while j < n:
            c = src[j]
            if c == '"':
                j += 1
                while j < n and src[j] != '"':
                    if src[j] == "\\":
                        j += 1
                    j += 1
            elif src.startswith("//", j):
                j = src.find("\n", j)
                if j < 0:
                    break
            elif c == "'" and j + 2 < n and (src[j + 2] == "'" or (src[j + 1] == "\\" and src.find("'", j + 2) - j <= 4)):
                j = src.find("'", j + 2)
            elif c == "{":
                depth += 1
            elif c == "}":
                depth -= 1
                if depth == 0:
                    yield name, src[i:j + 1]
                    break
            j += 1


def all_rs(repo):
    res = []
    for root, _, files in os.walk(os.path.join(repo, "src")):
        for f in files:
            if f.endswith(".rs"):
                p = os.path.join(root, f)
                res.append((os.path.relpath(p, repo), open(p, encoding="utf-8").read()))
    return sorted(res)


def strip_tests(src):
    m = re.search(r"#\[cfg\(test\)\]\s*(?:pub(?:\([a-z]+\))?\s+)?mod\s", src)
    return src if not m else src[:m.start()]


def gen_encode_sites(repo):
    """every non-test function that parses an i32, hashes with SHA-256, or calls the encoder"""
    rows = []
    for rel, src in all_rs(repo):
        if rel == "src/verif.rs":
            continue
        src = strip_tests(src)
        for name, body in rust_functions(src):
            inner = body[1:]
            kinds = []
            if re.search(r"parse::<\s*i32\s*>", inner):
                kinds.append("parses_i32")
            if re.search(r"SHA256::digest|Sha256::|sha2::", inner):
                kinds.append("hashes")
            if re.search(r"\bencode_credential_attribute\s*\(", inner) and name != "encode_credential_attribute":
                kinds.append("calls_encode")
            if re.search(r"\.add_raw\s*\(", inner):
                kinds.append("calls_add_raw")
            for k in kinds:
                rows.append((rel, name, k))
    if not any(r[1] == "encode_credential_attribute" for r in rows):
        die("encode_credential_attribute not found")
    body = HEADER + "Definition gen_encode_sites : list (string * string * string) :=\n  [ "
    body += ";\n    ".join(f"({coq_str(a)}, {coq_str(b)}, {coq_str(c)})" for a, b, c in sorted(set(rows)))
    body += " ].\n"
    return body


def gen_consts(repo):
    cred = read(repo, "src/data_types/credential.rs")
    m = re.search(r"QUALIFIABLE_TAGS\s*:\s*\[[^\]]*\]\s*=\s*\[(.*?)\];", cred, re.S)
    if not m:
        die("QUALIFIABLE_TAGS not found")
    tags = re.findall(r'"([^"]*)"', m.group(1))
    schema = read(repo, "src/data_types/schema.rs")
    m = re.search(r"MAX_ATTRIBUTES_COUNT\s*:\s*usize\s*=\s*(\d+)\s*;", schema)
    if not m:
        die("MAX_ATTRIBUTES_COUNT not found")
    max_attrs = m.group(1)
    val = read(repo, "src/utils/validation.rs")
    regs = {}
    for name in ["URI_IDENTIFIER", "LEGACY_DID_IDENTIFIER", "LEGACY_SCHEMA_IDENTIFIER", "LEGACY_CRED_DEF_IDENTIFIER", "LEGACY_REV_REG_DEF_IDENTIFIER"]:
        m = re.search(r"pub static " + name + r"\s*:\s*Lazy<Regex>\s*=\s*Lazy::new\(\|\|\s*\{?\s*Regex::new\(\s*(r?)\"((?:[^\"\\]|\\.)*)\"\s*\)", val, re.S)
        if not m:
            die(f"regex {name} not found")
        raw, text = m.group(1), m.group(2)
        if not raw:
            text = text.replace("\\\\", "\\")   # ordinary literal: unescape backslashes (none of the five uses other escapes)
        regs[name] = text
    tails = read(repo, "src/services/tails.rs")
    m = re.search(r"const\s+TAILS_BLOB_TAG_SZ\s*:\s*u8\s*=\s*(\d+)\s*;", tails)
    if not m:
        die("TAILS_BLOB_TAG_SZ not found")
    tag_sz = m.group(1)
    m = re.search(r"let\s+version\s*=\s*&\[([^\]]*)\]\s*;", tails)
    if not m:
        die("tails version tag literal not found")
    ver = [re.sub(r"u8$", "", x.strip()) for x in m.group(1).split(",") if x.strip()]
    if not all(v.isdigit() for v in ver):
        die("tails version tag literal not understood")
    if "read(\n                TAIL_SIZE,\n                TAIL_SIZE * tail_id as usize + TAILS_BLOB_TAG_SZ as usize," not in tails.replace("\r", ""):
        die("access_tail offset expression not found")
    rn = [b for (n, b) in rust_functions(tails) if n == "rename"]
    if len(rn) != 1:
        die("TempFile::rename not found")
    rn = rn[0]
    i_ren = rn.find("std::fs::rename")
    if i_ren < 0:
        die("std::fs::rename not found in TempFile::rename")
    defuse = [rn.find(x) for x in ("ManuallyDrop::new", "mem::forget", "forget(")]
    defuse = [d for d in defuse if d >= 0]
    if not defuse:
        die("no drop-guard defusing found in TempFile::rename")
    disarm_before = min(defuse) < i_ren
    # ---- object store shape (C18)
    obj = read(repo, "src/ffi/object.rs")
    mac = read(repo, "src/utils/macros.rs")
    fns = {}
    for fname, fbody in rust_functions(obj):
        fns.setdefault(fname, fbody)      # the first definition: impl ObjectHandle
    for need in ("create", "load", "remove"):
        if need not in fns:
            die(f"ObjectHandle::{need} not found in ffi/object.rs")
    counter_ok = re.search(r"\$counter\.fetch_add\(\s*1\s*,\s*std::sync::atomic::Ordering::SeqCst\s*\)\s*\+\s*1", mac) is not None
    cr = fns["create"]
    i_next, i_lock, i_ins = cr.find("Self::next()"), cr.find(".lock()"), cr.find(".insert(handle")
    create_ok = 0 <= i_next < i_lock < i_ins
    ld = fns["load"]
    load_ok = 0 <= ld.find(".lock()") < ld.find(".get(&self)") < ld.find(".cloned()")
    rm = fns["remove"]
    remove_ok = 0 <= rm.find(".lock()") < rm.find(".remove(&self)")
    # the list of handles is resolved entry by entry with the single-handle load (and touches the store in no other way)
    m_list = re.search(r"impl AnoncredsObjectList \{(.*?)\n\}", obj, re.S)
    list_body = m_list.group(1) if m_list else ""
    list_load_ok = re.search(r"handles\s*\.iter\(\)\s*\.map\(\|h\| ObjectHandle::load\(\*h\)\)\s*\.collect::<Result<_>>\(\)\?", list_body) is not None and "FFI_OBJECTS" not in list_body
    single_lock = len(re.findall(r"pub static FFI_OBJECTS\s*:\s*Lazy<Mutex<BTreeMap<ObjectHandle,\s*AnoncredsObject>>>", obj)) == 1 and obj.count("FFI_OBJECTS") == 1 + obj.count("FFI_OBJECTS\n            .lock()") + obj.count("FFI_OBJECTS\n                    .lock()")
    body = HEADER
    b = lambda x: "true" if x else "false"
    body += f"Definition gen_store_counter_fetch_add_seqcst : bool := {b(counter_ok)}.\n"
    body += f"Definition gen_store_create_next_then_locked_insert : bool := {b(create_ok)}.\n"
    body += f"Definition gen_store_load_locked_get_cloned : bool := {b(load_ok)}.\n"
    body += f"Definition gen_store_remove_locked_remove : bool := {b(remove_ok)}.\n"
    body += f"Definition gen_store_single_lock : bool := {b(single_lock)}.\n"
    body += f"Definition gen_store_list_load_entrywise : bool := {b(list_load_ok)}.\n"
    body += f"Definition gen_tails_blob_tag_sz : Z := {tag_sz}%Z.\n"
    body += "Definition gen_tails_version : list Z := [" + "; ".join(v + "%Z" for v in ver) + "].\n"
    body += f"Definition gen_tails_disarm_before_rename : bool := {'true' if disarm_before else 'false'}.\n"
    body += "Definition gen_qualifiable_tags : list string := [" + "; ".join(coq_str(t) for t in tags) + "].\n"
    body += f"Definition gen_max_attributes_count : Z := {max_attrs}%Z.\n"
    for name, text in regs.items():
        body += f"Definition gen_regex_{name.lower()} : string := {coq_str(text)}.\n"
    return body


def gen_ffi(repo):
    """the exported C functions: out-pointers, which of them are null-checked, whether the body runs inside catch_error;
    plus the marshalling rules the C17 model states (timestamp of a credential entry, optional handles, error codes)"""
    rows = []
    ffi_dir = os.path.join(repo, "src", "ffi")
    if not os.path.isdir(ffi_dir):
        die("src/ffi not found")
    macro_src = read(repo, "src/ffi/object.rs")
    m = re.search(r"macro_rules! impl_anoncreds_object_from_json \{(.*?)\n\}\n", macro_src, re.S)
    if not m:
        die("impl_anoncreds_object_from_json macro not found")
    macro_checked = "check_useful_c_ptr!(result_p)" in m.group(1)
    macro_wrapped = "catch_error(" in m.group(1)
    files = []
    for root, _, fs in os.walk(ffi_dir):
        for f in sorted(fs):
            if f.endswith(".rs"):
                files.append(os.path.join(root, f))
    for path in sorted(files):
        src = open(path, encoding="utf-8").read()
        for mm in re.finditer(r'pub extern "C" fn (\w+)\s*\(([^)]*)\)([^{]*)\{', src, re.S):
            name, args = mm.group(1), mm.group(2)
            if name.startswith("$"):
                continue
            j = src.find("#[no_mangle]", mm.end())
            body = src[mm.end(): j if j > 0 else len(src)]
            outs = [a.strip().split(":")[0].strip() for a in args.split(",") if "*mut" in a]
            checked = sorted(set(re.findall(r"check_useful_c_ptr!\((\w+)\)", body)) | set(re.findall(r"if (\w+)\.is_null\(\)", body)))
            wrapped = ("catch_error(" in body) or ("with_abort_on_panic" in body) or name in ("anoncreds_object_free", "anoncreds_version", "anoncreds_get_current_error", "anoncreds_set_default_logger")
            rows.append((name, outs, [c for c in checked if c in outs], wrapped))
        for mm in re.finditer(r"impl_anoncreds_object_from_json!\(\s*[\w:]+\s*,\s*(\w+)\s*\)", src):
            rows.append((mm.group(1), ["result_p"], ["result_p"] if macro_checked else [], macro_wrapped))
    if len(rows) < 40:
        die(f"only {len(rows)} exported functions found")
    pres = read(repo, "src/ffi/presentation.rs")
    mm = re.search(r"let timestamp = if (self\.timestamp\s*[<>=!]+\s*-?\d+)\s*\{\s*None", pres)
    if not mm:
        die("FfiCredentialEntry::load timestamp rule not found")
    ts_rule = re.sub(r"\s+", " ", mm.group(1))
    obj = read(repo, "src/ffi/object.rs")
    fns = {}
    for fname, fbody in rust_functions(obj):
        fns.setdefault(fname, fbody)
    ol = fns.get("opt_load")
    if ol is None:
        die("ObjectHandle::opt_load not found")
    zero_none = re.search(r"if self\.0 == 0\s*\{\s*Ok\(None\)", ol) is not None
    miss_err = "Invalid object handle" in ol and ".ok_or_else" in ol
    rsl = [b for (n, b) in rust_functions(pres) if n == "_rev_status_list"]
    if len(rsl) != 1:
        die("_rev_status_list not found")
    type_err = ".refs()?" in rsl[0] and ".ok()" not in rsl[0]
    err = read(repo, "src/ffi/error.rs")
    mm = re.search(r"pub enum ErrorCode \{(.*?)\}", err, re.S)
    if not mm:
        die("ErrorCode enum not found")
    codes = re.findall(r"(\w+)\s*=\s*(\d+)", mm.group(1))
    lens = sum(1 for x in ("cred_defs.len() != cred_def_ids.len()", "schemas.len() != schema_ids.len()", "rev_reg_defs.len() != rev_reg_def_ids.len()", "self_attest_names.len() != self_attest_values.len()") if x in pres)
    body = HEADER
    body += "Definition gen_ffi_functions : list (string * list string * list string * bool) :=\n  [ "
    body += ";\n    ".join("({}, [{}], [{}], {})".format(coq_str(n), "; ".join(coq_str(o) for o in outs), "; ".join(coq_str(c) for c in chk), "true" if w else "false") for (n, outs, chk, w) in sorted(rows))
    body += " ].\n"
    body += f"Definition gen_ffi_entry_timestamp_none_when : string := {coq_str(ts_rule)}.\n"
    body += f"Definition gen_ffi_opt_load_zero_is_none : bool := {'true' if zero_none else 'false'}.\n"
    body += f"Definition gen_ffi_opt_load_miss_is_error : bool := {'true' if miss_err else 'false'}.\n"
    body += f"Definition gen_ffi_status_list_type_error_propagated : bool := {'true' if type_err else 'false'}.\n"
    rev = read(repo, "src/ffi/revocation.rs")
    crd = read(repo, "src/ffi/credential.rs")
    try_sites = len(re.findall(r"max_cred_num\s*\.try_into\(\)", rev)) + len(re.findall(r"rev_reg_index\s*\.try_into\(\)", rev)) + len(re.findall(r"\.reg_idx\s*\.try_into\(\)", crd))
    for name in ("max_cred_num", "rev_reg_index", "reg_idx"):
        if re.search(name + r"\s+as\s+u(32|64|size)", rev + crd):
            try_sites = -1
    ts_sites = len(re.findall(r"let timestamp = if timestamp <= 0 \{\s*None\s*\} else \{\s*Some\(timestamp as u64\)", rev))
    body += f"Definition gen_ffi_u32_try_into_sites : Z := {try_sites}%Z.\n"
    body += f"Definition gen_ffi_timestamp_none_sites : Z := {ts_sites}%Z.\n"
    body += f"Definition gen_ffi_length_checks : Z := {lens}%Z.\n"
    body += "Definition gen_ffi_error_codes : list (string * Z) := [" + "; ".join(f"({coq_str(n)}, {v}%Z)" for n, v in codes) + "].\n"
    return body


GENERATORS = {
    "Ffi": gen_ffi,
    "Consts": gen_consts,
    "EncodeSites": gen_encode_sites,
}

if __name__ == "__main__":
    main()
