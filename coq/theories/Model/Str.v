(* String-level primitives of the Rust code:
   - str::parse::<i32>  (core::num, checked left-to-right loop)
   - i32::to_string
   - attr_common_view   (services/helpers.rs): remove ' ' then to_lowercase (ASCII part modelled)
   Strings are UTF-8 byte strings. *)
From Coq Require Import List String Ascii ZArith NArith Bool DecimalString.
Import ListNotations.
Open Scope string_scope.
Open Scope Z_scope.

Definition i32_min : Z := -2147483648.
Definition i32_max : Z := 2147483647.
Definition in_i32 (z : Z) : bool := (i32_min <=? z) && (z <=? i32_max).

Definition digit_of (a : ascii) : option Z :=
  let n := Z.of_N (N_of_ascii a) in
  if (48 <=? n) && (n <=? 57) then Some (n - 48) else None.

(* Rust: checked_mul(10) then checked_add / checked_sub, left to right *)
Fixpoint i32_loop (neg : bool) (acc : Z) (s : string) : option Z :=
  match s with
  | EmptyString => Some acc
  | String a r =>
      match digit_of a with
      | None => None
      | Some d =>
          let m := acc * 10 in
          if in_i32 m then
            let n := if neg then m - d else m + d in
            if in_i32 n then i32_loop neg n r else None
          else None
      end
  end.

Definition parse_i32 (s : string) : option Z :=
  match s with
  | EmptyString => None
  | String a r =>
      if Ascii.eqb a "+"%char then (match r with EmptyString => None | _ => i32_loop false 0 r end)
      else if Ascii.eqb a "-"%char then (match r with EmptyString => None | _ => i32_loop true 0 r end)
      else i32_loop false 0 s
  end.

(* decimal printing *)
Definition dec_of_N (n : N) : string := NilZero.string_of_uint (N.to_uint n).
Definition z_to_string (z : Z) : string :=
  if z <? 0 then String "-"%char (dec_of_N (Z.to_N (- z))) else dec_of_N (Z.to_N z).

(* declarative side of an i32 literal *)
Fixpoint all_digits (s : string) : bool :=
  match s with
  | EmptyString => true
  | String a r => match digit_of a with Some _ => all_digits r | None => false end
  end.
Fixpoint value_from (acc : Z) (s : string) : Z :=
  match s with
  | EmptyString => acc
  | String a r => value_from (acc * 10 + match digit_of a with Some d => d | None => 0 end) r
  end.
Definition value (s : string) : Z := value_from 0 s.

Definition i32_literal (s : string) : option Z :=
  match s with
  | EmptyString => None
  | String a r =>
      let '(neg, ds) := if Ascii.eqb a "+"%char then (false, r)
                        else if Ascii.eqb a "-"%char then (true, r) else (false, s) in
      match ds with
      | EmptyString => None
      | _ => if all_digits ds
             then let v := if neg then - value ds else value ds in
                  if in_i32 v then Some v else None
             else None
      end
  end.

(* attr_common_view: ASCII model. Non-ASCII bytes are kept (the harness draws
   names from ASCII plus caseless non-ASCII code points). *)
Definition lower_ascii (a : ascii) : ascii :=
  let n := N_of_ascii a in
  if (65 <=? n)%N && (n <=? 90)%N then ascii_of_N (n + 32) else a.
Fixpoint cv (s : string) : string :=
  match s with
  | EmptyString => EmptyString
  | String a r => if Ascii.eqb a " "%char then cv r else String (lower_ascii a) (cv r)
  end.

Infix "=s?" := String.eqb (at level 70) : string_scope.
