(* Revocation states (C10): services/prover.rs create_or_update_revocation_state /
   create_revocation_state_with_witness over the witness algebra of the CL crate
   (Witness::new, Witness::update, the issuer-side witness of _new_non_revocation_credential).
   Group elements as in Model/RevList.v: G = Z -> Z, [e k] = g'^(gamma^k); a witness for index i
   lives on exponents n+1-j+i. A non-revocation proof made with witness w for index i verifies
   against accumulator A exactly when  w + e(n+1) = shift_i A  (the pairing equation of the CL
   scheme, with the tail e(n+1) never published). *)
From Coq Require Import List ZArith Bool.
From AV Require Import Model.RevList.
Import ListNotations.
Open Scope Z_scope.

Definition shift (i : Z) (g : G) : G := fun x => g (x - i).
Definition wvalid (n i : Z) (A w : G) : Prop := forall x, w x + e (n + 1) x = A (x - i).
(* only published tails were used *)
Definition computable (n : Z) (w : G) : Prop := w (n + 1) = 0.

Definition revoked_at (b : list bool) (j : Z) : bool := match nthZ b j with Some true => true | _ => false end.

(* from scratch: Witness::new(idx, n, issuance_by_default = true, delta) where delta.revoked = the
   set bits of the list (0-based list positions read as crate indices) *)
Definition scratch_set (n i : Z) (b : list bool) : list Z :=
  filter (fun j => negb (j =? i) && negb (revoked_at b j)) (rangeZ 1 (Z.to_nat n)).
Definition scratch_wit (n i : Z) (b : list bool) : G := gsum (fun j => n + 1 - j + i) (scratch_set n i b).

(* incrementally: create_index_deltas over old XOR new, classified by the NEW list; Witness::update skips j = i *)
Definition delta_issued (old new : list bool) : list Z :=
  filter (fun j => match nthZ old j, nthZ new j with Some o, Some w => xorb o w && negb w | _, _ => false end)
         (rangeZ 0 (List.length new)).
Definition delta_revoked (old new : list bool) : list Z :=
  filter (fun j => match nthZ old j, nthZ new j with Some o, Some w => xorb o w && w | _, _ => false end)
         (rangeZ 0 (List.length new)).
Definition inc_wit (n i : Z) (old new : list bool) (w : G) : G :=
  gsub (gadd w (gsum (fun j => n + 1 - j + i) (filter (fun j => negb (j =? i)) (delta_issued old new))))
       (gsum (fun j => n + 1 - j + i) (filter (fun j => negb (j =? i)) (delta_revoked old new))).

(* the witness the issuer hands out with the credential: valid for the accumulator the credential embeds *)
Definition issuer_wit (n i : Z) (a_issue : G) : G := gsub (shift i a_issue) (e (n + 1)).

(* the accumulator of a list of a registry in the given issuance mode (C09: acc_invariant) *)
Definition list_acc (n : Z) (by_default : bool) (b : list bool) : G := gadd (acc_of_bits b) (mode_offset n by_default).

(* executable validity on the exponents a registry of size n can touch *)
Definition wvalid_b (n i : Z) (A w : G) : bool :=
  forallb (fun x => w x + e (n + 1) x =? A (x - i)) (rangeZ (- n - 3) (Z.to_nat (4 * n + 10))).
Definition weq_b (n : Z) (w1 w2 : G) : bool :=
  forallb (fun x => w1 x =? w2 x) (rangeZ (- n - 3) (Z.to_nat (4 * n + 10))).
