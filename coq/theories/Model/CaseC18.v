(* C18 case checker: is a recorded concurrent history of the object store linearizable against
   the sequential map (Model/Store.v spec_step)?  Operations on different handles commute in the
   specification, so the history is linearizable iff (1) created handles are non-zero and pairwise
   distinct and (2) the sub-history of every handle is: there are a creation point c inside the
   creating call and a removal point r (or none) such that every call can be given a point inside
   its own interval at which the specification returns what the call returned.
   Times are the harness's global clock doubled, so that candidate points (odd) never coincide with
   call boundaries (even).
   (R <threads> <finished|crashed> (event ...)) — see harness/src/c18.rs *)
From Coq Require Import List String ZArith Bool.
From AV Require Import Model.Sexp.
Import ListNotations.
Open Scope string_scope.
Open Scope list_scope.
Open Scope Z_scope.

Inductive okind := KGet | KName | KUse | KOpt | KRes.
Inductive event :=
| ECreate (inv res : Z) (ty content : Z) (h : option Z)
| EUse (k : okind) (inv res : Z) (h : Z) (r : option Z)          (* Some x: ok with content / type / new handle *)
| EFree (inv res : Z) (h : Z).

Definition dec_event (e : sexp) : option event :=
  match e with
  | L [A "c"; _; i; r; ty; c; A "e"] =>
      match dec_Z i, dec_Z r, dec_Z ty, dec_Z c with Some i', Some r', Some t, Some c' => Some (ECreate (2 * i') (2 * r') t c' None) | _, _, _, _ => None end
  | L [A "c"; _; i; r; ty; c; h] =>
      match dec_Z i, dec_Z r, dec_Z ty, dec_Z c, dec_Z h with
      | Some i', Some r', Some t, Some c', Some h' => Some (ECreate (2 * i') (2 * r') t c' (Some h')) | _, _, _, _, _ => None end
  | L [A k; _; i; r; h; res] =>
      let kind := if String.eqb k "g" then Some KGet else if String.eqb k "n" then Some KName else if String.eqb k "u" then Some KUse
                  else if String.eqb k "o" then Some KOpt else if String.eqb k "r" then Some KRes else None in
      match kind, dec_Z i, dec_Z r, dec_Z h, res with
      | Some kd, Some i', Some r', Some h', A "e" => Some (EUse kd (2 * i') (2 * r') h' None)
      | Some kd, Some i', Some r', Some h', L [A "ok"; x] => option_map (fun x' => EUse kd (2 * i') (2 * r') h' (Some x')) (dec_Z x)
      | _, _, _, _, _ => None end
  | L [A "f"; _; i; r; h] =>
      match dec_Z i, dec_Z r, dec_Z h with Some i', Some r', Some h' => Some (EFree (2 * i') (2 * r') h') | _, _, _ => None end
  | _ => None
  end.

(* creations: explicit ones, and the objects made by successful typed uses (a status list, content "derived") *)
Definition creations (evs : list event) : list (Z * (Z * Z * Z * Z)) :=   (* handle, (inv, res, type, content) *)
  flat_map (fun e => match e with
                     | ECreate i r ty c (Some h) => [(h, (i, r, ty, c))]
                     | EUse KUse i r _ (Some nh) => [(nh, (i, r, 1, 500))]
                     | EUse KOpt i r _ (Some nh) => [(nh, (i, r, 2, 600))]
                     | _ => [] end) evs.
Fixpoint nodupZ (l : list Z) : bool := match l with [] => true | x :: r => negb (existsb (Z.eqb x) r) && nodupZ r end.

Definition times_of (evs : list event) (h : Z) : list Z :=
  flat_map (fun e => match e with
                     | ECreate i r _ _ (Some h') => if h' =? h then [i; r] else []
                     | EUse _ i r h' _ => if h' =? h then [i; r] else []
                     | EFree i r h' => if h' =? h then [i; r] else []
                     | _ => [] end) evs
  ++ flat_map (fun e => match e with
                        | EUse KUse i r _ (Some nh) | EUse KOpt i r _ (Some nh) => if nh =? h then [i; r] else []
                        | _ => [] end) evs.

(* one call on handle h, given creation point c, removal point r (None: never removed) and what was created *)
Definition call_ok (ty content : Z) (c : Z) (r : option Z) (e : event) : bool :=
  let before i := i <? c in                                   (* the call can take effect before the creation *)
  let after res := match r with Some r' => r' <? res | None => false end in
  let during i res := Z.max i c <? match r with Some r' => Z.min res r' | None => res end in
  match e with
  | EUse KGet i res _ (Some x) =>
      (* the exported document is the stored one; for objects made by a call (content 500 / 600) only the type is known *)
      let type_of c := if c =? 500 then 1 else if c =? 600 then 2 else c / 10 in
      during i res && (if (content =? 500) || (content =? 600) then type_of x =? ty else x =? content)
  | EUse KName i res _ (Some x) => during i res && (x =? ty)
  | EUse KUse i res _ (Some _) => during i res && (ty =? 1)
  | EUse KUse i res _ None => if ty =? 1 then before i || after res else true      (* a wrong-typed handle is an error at any time *)
  | EUse KOpt i res _ (Some _) => during i res && (ty =? 2)                        (* optional argument, supplied: a revocation state *)
  | EUse KOpt i res _ None => if ty =? 2 then before i || after res else true
  (* first entry of a LIST of handles (status lists): the list is resolved entry by entry; result 0 = every entry
     resolved to a status list; any other result (a panic inside the call, say) is never right *)
  | EUse KRes i res _ (Some x) => during i res && (ty =? 1) && (x =? 0)
  | EUse KRes i res _ None => if ty =? 1 then before i || after res else true
  | EUse _ i res _ None => before i || after res
  | EFree i res _ => true
  | ECreate _ _ _ _ _ => true
  end.
(* the frees: either none takes effect (all before the creation), or r lies inside one of them and
   every other free can be placed before c or not before r *)
Definition frees_ok (c : Z) (r : option Z) (frees : list (Z * Z)) : bool :=
  match r with
  | None => forallb (fun f => fst f <? c) frees
  | Some r' => (c <? r') && existsb (fun f => (fst f <? r') && (r' <? snd f)) frees
               && forallb (fun f => (fst f <? c) || (r' <? snd f)) frees
  end.

Definition handle_ok (evs : list event) (h : Z) : bool :=
  let mine := filter (fun e => match e with
                               | EUse _ _ _ h' _ => h' =? h
                               | EFree _ _ h' => h' =? h
                               | _ => false end) evs in
  let frees := flat_map (fun e => match e with EFree i r _ => [(i, r)] | _ => [] end) mine in
  match find (fun x => fst x =? h) (creations evs) with
  | None => forallb (fun e => match e with EUse _ _ _ _ (Some _) => false | _ => true end) mine    (* never issued: always an error *)
  | Some (_, (ci, cr, ty, content)) =>
      let cands := map (fun t => t + 1) (times_of evs h) ++ map (fun t => t - 1) (times_of evs h) in
      existsb (fun c => (ci <? c) && (c <? cr) &&
                 existsb (fun r => frees_ok c r frees && forallb (call_ok ty content c r) mine)
                         (None :: map Some cands)) cands
  end.

Definition handles_of (evs : list event) : list Z :=
  flat_map (fun e => match e with
                     | ECreate _ _ _ _ (Some h) => [h]
                     | EUse KUse _ _ h (Some nh) | EUse KOpt _ _ h (Some nh) => [h; nh]
                     | EUse _ _ _ h _ => [h]
                     | EFree _ _ h => [h]
                     | _ => [] end) evs.
Fixpoint dedupZ (l : list Z) : list Z := match l with [] => [] | x :: r => if existsb (Z.eqb x) r then dedupZ r else x :: dedupZ r end.

(* the optional argument not supplied (0): the call goes through *)
Definition opt_zero_ok (evs : list event) : bool :=
  forallb (fun e => match e with EUse KOpt _ _ 0 None => false | _ => true end) evs.
Definition history_ok (evs : list event) : bool :=
  let cs := map fst (creations evs) in
  opt_zero_ok evs &&
  nodupZ cs && forallb (fun h => negb (h =? 0)) cs
  && forallb (fun e => match e with ECreate _ _ _ _ None => false | _ => true end) evs       (* creating from a valid document succeeds *)
  && forallb (handle_ok evs) (filter (fun h => negb (h =? 0)) (dedupZ (handles_of evs)))
  && forallb (fun e => match e with EUse KOpt _ _ 0 _ => true | EUse _ _ _ 0 (Some _) => false | _ => true end) evs.

Definition check_C18 (args : list sexp) : list sexp :=
  match args with
  | [A "R"; n; A fin; evs] =>
      match dec_Z n, dec_list dec_event evs with
      | Some n', Some evs' =>
          [A (if String.eqb fin "finished" && history_ok evs' then "ok" else "bad");
           A (String.append "threads:" (match n' with 2 => "2" | 3 => "3" | 4 => "4" | _ => "n" end));
           A (if existsb (fun e => match e with EFree _ _ _ => true | _ => false end) evs' then "with-frees" else "no-frees")]
      | _, _ => [A "decode-error"] end
  | _ => [A "decode-error"]
  end.
