(* services/w3c/verifier.rs verify_presentation (DESIGN.md Appendix A.3). *)
From Coq Require Import List String Ascii ZArith NArith Bool.
From AV Require Import Model.Str Model.Encode Model.Query Model.VTypes Model.Interval Model.Eval Model.CL Model.VerifierLegacy.
Import ListNotations.
Open Scope string_scope.
Open Scope list_scope.
Open Scope Z_scope.

(* CredentialAttributeValue::to_string *)
Definition value_to_string (v : attr_value) : string :=
  match v with VStr s => s | VNum z => z_to_string z | VBool b => if b then "true" else "false" end.

Section W3C.
  Context (cfg : vcfg).

  (* W3CCredential::get_case_insensitive_attribute / get_attribute / get_predicate *)
  Definition get_ci (c : w3c_cred) (name : string) : option (string * attr_value) :=
    find (fun kv => String.eqb (cv (fst kv)) (cv name)) (wc_subject c).
  Definition get_attribute (c : w3c_cred) (name : string) : option (string * attr_value) :=
    match get_ci c name with Some (k, VBool _) => None | x => x end.
  Definition get_predicate (c : w3c_cred) (name : string) : option string :=
    match get_ci c name with Some (k, VBool _) => Some k | _ => None end.

  (* check_credential_restrictions *)
  Definition cred_restrictions (cx : ctx) (c : w3c_cred) (id : identifier) (q : option query) : res unit :=
    match q with
    | None => ROk tt
    | Some q =>
        f <- gather_filter cfg cx id ;;
        let m := flat_map (fun '(k, v) => match v with
                                          | VBool _ => []
                                          | _ => [((if f_w3c_norm_keys cfg then cv k else k), Some (value_to_string v))] end)
                          (wc_subject c) in
        guard (eval cfg (rev m) f q)
    end.
  (* check_credential_non_revoked_interval *)
  Definition cred_interval (R : request) (cx : ctx) (id : identifier) (sp : subproof) (local : option interval) : res unit :=
    if f_gate_on_creddef cfg then
      match assoc (id_creddef id) (cx_creddefs cx) with
      | None => RErr
      | Some cd => interval_check cfg R cx cd local id sp
      end
    else
      match id_revreg id with
      | None => ROk tt
      | Some rid =>
          match requested_interval (Some rid) local (rq_nr R) (cx_override cx) with
          | None => ROk tt
          | Some iv => t <- of_opt (id_ts id) ;; guard (is_valid iv t)
          end
      end.
  Definition cred_conditions (R : request) (cx : ctx) (c : w3c_cred) (id : identifier) (sp : subproof) (q : option query) (local : option interval) : bool :=
    is_ok (_ <- cred_restrictions cx c id q ;; cred_interval R cx id sp local).

  Notation wcase := (w3c_cred * (identifier * subproof))%type.

  (* check_requested_attribute: first loop (revealed), second loop (schema holds the attribute) *)
  Fixpoint find_revealed (R : request) (cx : ctx) (name : string) (q : option query) (nr : option interval) (cs : list wcase) : bool :=
    match cs with
    | [] => false
    | (c, (id, sp)) :: r =>
        match get_attribute c name with
        | Some (k, v) =>
            if is_ok (verify_value k sp (encode (value_to_string v))) && cred_conditions R cx c id sp q nr then true
            else find_revealed R cx name q nr r
        | None => find_revealed R cx name q nr r
        end
    end.
  Fixpoint find_unrevealed (R : request) (cx : ctx) (name : string) (q : option query) (nr : option interval) (cs : list wcase) : res unit :=
    match cs with
    | [] => RErr
    | (c, (id, sp)) :: r =>
        sc <- of_opt (assoc (id_schema id) (cx_schemas cx)) ;;            (* a missing schema aborts the whole check *)
        if existsb (fun a => String.eqb (cv a) (cv name)) (sc_attrs sc)
           && (negb (f_w3c_strict_subject cfg) || negb (mem (cv name) (keys (sp_revealed sp))))
           && cred_conditions R cx c id sp q nr then ROk tt
        else find_unrevealed R cx name q nr r
    end.
  Definition check_attribute (R : request) (cx : ctx) (cs : list wcase) (name : string) (q : option query) (nr : option interval) : res unit :=
    if find_revealed R cx name q nr cs then ROk tt else find_unrevealed R cx name q nr cs.

  Fixpoint check_predicate (R : request) (cx : ctx) (pi : pred_info) (cs : list wcase) : res unit :=
    match cs with
    | [] => RErr
    | (c, (id, sp)) :: r =>
        match get_predicate c (pi_name pi) with
        | Some k =>
            if existsb (fun p => pred_eqb p ((if f_w3c_pred_cv cfg then cv k else k), pi_type pi, pi_value pi)) (sp_preds sp)
               && cred_conditions R cx c id sp (pi_restr pi) (pi_nr pi) then ROk tt
            else check_predicate R cx pi r
        | None => check_predicate R cx pi r
        end
    end.

  (* fix of C03: every String/Number subject entry is a value the sub-proof reveals, and every
     revealed value of the sub-proof is shown in the subject *)
  Definition subject_matches (c : w3c_cred) (sp : subproof) : bool :=
    forallb (fun '(k, v) => match v with
                            | VBool _ => true
                            | _ => match assoc (cv k) (sp_revealed sp) with
                                   | Some e => String.eqb e (encode (value_to_string v))
                                   | None => false end
                            end) (wc_subject c)
    && forallb (fun '(n, _) => match get_attribute c n with Some _ => true | None => false end) (sp_revealed sp).

  Definition check_request_data (R : request) (cx : ctx) (cs : list wcase) : res unit :=
    _ <- iter (fun '(_, ai) =>
          _ <- match ai_name ai with Some n => check_attribute R cx cs n (ai_restr ai) (ai_nr ai) | None => ROk tt end ;;
          match ai_names ai with Some ns => iter (fun n => check_attribute R cx cs n (ai_restr ai) (ai_nr ai)) ns | None => ROk tt end)
          (rq_attrs R) ;;
    _ <- iter (fun '(_, pi) => check_predicate R cx pi cs) (rq_preds R) ;;
    iter (fun '(c, (id, sp)) =>
          cd <- of_opt (assoc (id_creddef id) (cx_creddefs cx)) ;;
          _ <- guard (String.eqb (cd_issuer cd) (wc_issuer c)) ;;
          _ <- guard (String.eqb (wc_method c) (id_creddef id)) ;;
          guard (negb (f_w3c_strict_subject cfg) || subject_matches c sp)) cs.

  Definition verify_w3c (R : request) (P : w3c_pres) (cx : ctx) : outcome :=
    let r :=
      _ <- guard (wp_shape_ok P) ;;
      cs <- mapR (fun c => pv <- of_opt (wc_pv c) ;; ROk (c, pv)) (wp_creds P) ;;
      _ <- check_request_data R cx cs ;;
      a <- of_opt (wp_agg P) ;;
      regmap <- build_regmap cx ;;
      subs <- mapR (fun '(_, (id, sp)) => add_sub_proof cfg cx regmap sp id) cs ;;
      ROk (subs, a) in
    match r with
    | RErr => Err | RPanic => Panic
    | ROk (subs, a) => cl_verify (f_common_link cfg) subs a (rq_nonce R)
    end.
End W3C.
