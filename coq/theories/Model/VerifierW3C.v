(* services/w3c/verifier.rs verify_presentation (DESIGN.md Appendix A.3). *)
From Coq Require Import List String Ascii ZArith NArith Bool.
From AV Require Import Model.Str Model.Encode Model.Query Model.VTypes Model.Interval Model.Eval Model.CL Model.VerifierLegacy.
Import ListNotations.
Open Scope string_scope.
Open Scope list_scope.
Open Scope Z_scope.

(* CredentialAttributeValue::to_string *)
Definition value_to_string (v : attr_value) : string :=
  match v with VStr s => s | VNum z => z_to_string z | VBool b => if b then "true" else "false" end.

Section W3C.
  Context (cfg : vcfg).

  (* W3CCredential::get_case_insensitive_attribute / get_attribute / get_predicate *)
  Definition get_ci (c : w3c_cred) (name : string) : option (string * attr_value) :=
    find (fun kv => String.eqb (cv (fst kv)) (cv name)) (wc_subject c).
  Definition get_attribute (c : w3c_cred) (name : string) : option (string * attr_value) :=
    match get_ci c name with Some (k, VBool _) => None | x => x end.
  Definition get_predicate (c : w3c_cred) (name : string) : option string :=
    match get_ci c name with Some (k, VBool _) => Some k | _ => None end.

  (* check_credential_restrictions *)
  Definition cred_restrictions (cx : ctx) (c : w3c_cred) (id : identifier) (q : option query) : res unit :=
    match q with
    | None => ROk tt
    | Some q =>
        f <- gather_filter cfg cx id ;;
        let m := flat_map (fun '(k, v) => match v with
                                          | VBool _ => []
                                          | _ => [(tagkey cfg k, Some (value_to_string v))] end)
                          (wc_subject c) in
        guard (eval cfg (rev m) f q)
    end.
  (* check_credential_non_revoked_interval: Ok true = an interval applies to this credential *)
  Definition cred_interval (R : request) (cx : ctx) (id : identifier) (local : option interval) : res bool :=
    if f_gate_on_creddef cfg then
      match assoc (id_creddef id) (cx_creddefs cx) with
      | None => RErr
      | Some cd => interval_check cfg R cx cd local id
      end
    else
      match id_revreg id with
      | None => ROk false
      | Some rid =>
          match requested_interval (Some rid) local (rq_nr R) (cx_override cx) with
          | None => ROk false
          | Some iv => t <- of_opt (id_ts id) ;; _ <- guard (is_valid iv t) ;; ROk false
          end
      end.
  (* check_credential_conditions: None = not met; Some b = met, b = non-revocation proof required *)
  Definition cred_conditions (R : request) (cx : ctx) (c : w3c_cred) (id : identifier) (q : option query) (local : option interval) : option bool :=
    match (_ <- cred_restrictions cx c id q ;; cred_interval R cx id local) with
    | ROk b => Some b
    | _ => None
    end.

  Notation wcase := (w3c_cred * (identifier * subproof))%type.
  Definition need (i : Z) (b : bool) : list Z := if b then [i] else [].

  (* a candidate that meets the conditions: in the strict pass it must also carry the non-revocation
     proof the conditions call for (fix: such a credential serves a request only as a last resort) *)
  Definition has_nrp (sp : subproof) : bool := match sp_nrp sp with Some _ => true | None => false end.
  Definition usable (strict : bool) (b : bool) (sp : subproof) : bool := negb strict || negb b || has_nrp sp.

  (* check_requested_attribute: first loop (revealed), second loop (schema holds the attribute);
     the result lists the position of the serving credential if it must carry a non-revocation proof *)
  Fixpoint find_revealed (strict : bool) (R : request) (cx : ctx) (name : string) (q : option query) (nr : option interval) (i : Z) (cs : list wcase) : option (list Z) :=
    match cs with
    | [] => None
    | (c, (id, sp)) :: r =>
        match get_attribute c name with
        | Some (k, v) =>
            if is_ok (verify_value k sp (encode (value_to_string v))) then
              match cred_conditions R cx c id q nr with
              | Some b => if usable strict b sp then Some (need i b) else find_revealed strict R cx name q nr (i + 1) r
              | None => find_revealed strict R cx name q nr (i + 1) r
              end
            else find_revealed strict R cx name q nr (i + 1) r
        | None => find_revealed strict R cx name q nr (i + 1) r
        end
    end.
  (* ROk None = no credential found; RErr = a missing schema aborts the whole check *)
  Fixpoint find_unrevealed (strict : bool) (R : request) (cx : ctx) (name : string) (q : option query) (nr : option interval) (i : Z) (cs : list wcase) : res (option (list Z)) :=
    match cs with
    | [] => ROk None
    | (c, (id, sp)) :: r =>
        sc <- of_opt (assoc (id_schema id) (cx_schemas cx)) ;;
        if existsb (fun a => String.eqb (cv a) (cv name)) (sc_attrs sc) then
          match cred_conditions R cx c id q nr with
          | Some b => if usable strict b sp then ROk (Some (need i b)) else find_unrevealed strict R cx name q nr (i + 1) r
          | None => find_unrevealed strict R cx name q nr (i + 1) r
          end
        else find_unrevealed strict R cx name q nr (i + 1) r
    end.
  Definition check_attribute (R : request) (cx : ctx) (cs : list wcase) (name : string) (q : option query) (nr : option interval) : res (list Z) :=
    let strict := f_w3c_nrp_search cfg in
    match find_revealed strict R cx name q nr 0 cs with
    | Some l => ROk l
    | None =>
        u <- find_unrevealed strict R cx name q nr 0 cs ;;
        match u with
        | Some l => ROk l
        | None =>
            if strict then
              match find_revealed false R cx name q nr 0 cs with
              | Some l => ROk l
              | None => u2 <- find_unrevealed false R cx name q nr 0 cs ;; of_opt u2
              end
            else RErr
        end
    end.

  Fixpoint find_predicate (strict : bool) (R : request) (cx : ctx) (pi : pred_info) (i : Z) (cs : list wcase) : option (list Z) :=
    match cs with
    | [] => None
    | (c, (id, sp)) :: r =>
        match get_predicate c (pi_name pi) with
        | Some k =>
            if existsb (fun p => pred_eqb p ((if f_w3c_pred_cv cfg then cv k else k), pi_type pi, pi_value pi)) (sp_preds sp) then
              match cred_conditions R cx c id (pi_restr pi) (pi_nr pi) with
              | Some b => if usable strict b sp then Some (need i b) else find_predicate strict R cx pi (i + 1) r
              | None => find_predicate strict R cx pi (i + 1) r
              end
            else find_predicate strict R cx pi (i + 1) r
        | None => find_predicate strict R cx pi (i + 1) r
        end
    end.
  Definition check_predicate (R : request) (cx : ctx) (pi : pred_info) (cs : list wcase) : res (list Z) :=
    let strict := f_w3c_nrp_search cfg in
    match find_predicate strict R cx pi 0 cs with
    | Some l => ROk l
    | None => if strict then of_opt (find_predicate false R cx pi 0 cs) else RErr
    end.

  (* verify_credential_subject (fix of C03): every String/Number subject entry is the value the
     sub-proof reveals, and every revealed value of the sub-proof is shown in the subject *)
  Definition subject_matches (c : w3c_cred) (sp : subproof) : bool :=
    forallb (fun '(k, v) => match v with
                            | VBool _ => true
                            | _ => is_ok (verify_value k sp (encode (value_to_string v)))
                            end) (wc_subject c)
    && forallb (fun '(n, _) => match get_attribute c n with Some _ => true | None => false end) (sp_revealed sp).

  Definition check_request_data (R : request) (cx : ctx) (cs : list wcase) : res (list Z) :=
    na <- mapR (fun '(_, ai) =>
          l1 <- match ai_name ai with Some n => check_attribute R cx cs n (ai_restr ai) (ai_nr ai) | None => ROk [] end ;;
          l2 <- match ai_names ai with
                | Some ns => ls <- mapR (fun n => check_attribute R cx cs n (ai_restr ai) (ai_nr ai)) ns ;; ROk (List.concat ls)
                | None => ROk [] end ;;
          ROk (l1 ++ l2))
          (rq_attrs R) ;;
    np <- mapR (fun '(_, pi) => check_predicate R cx pi cs) (rq_preds R) ;;
    _ <- iter (fun '(c, (id, sp)) =>
          cd <- of_opt (assoc (id_creddef id) (cx_creddefs cx)) ;;
          _ <- guard (String.eqb (cd_issuer cd) (wc_issuer c)) ;;
          guard (String.eqb (wc_method c) (id_creddef id))) cs ;;
    ROk (List.concat na ++ List.concat np).

  Fixpoint add_all (cx : ctx) (regmap : option (list (string * Z * N))) (needs : list Z) (i : Z) (cs : list wcase) : res (list cl_sub) :=
    match cs with
    | [] => ROk []
    | (_, (id, sp)) :: r =>
        _ <- require_nrp cfg (existsb (Z.eqb i) needs) sp ;;
        x <- add_sub_proof cfg cx regmap sp id ;;
        xs <- add_all cx regmap needs (i + 1) r ;;
        ROk (x :: xs)
    end.

  Definition verify_w3c (R : request) (P : w3c_pres) (cx : ctx) : outcome :=
    let r :=
      _ <- guard (wp_shape_ok P) ;;
      cs <- mapR (fun c => pv <- of_opt (wc_pv c) ;; ROk (c, pv)) (wp_creds P) ;;
      needs <- check_request_data R cx cs ;;
      _ <- guard (negb (f_w3c_strict_subject cfg) || forallb (fun '(c, (_, sp)) => subject_matches c sp) cs) ;;
      a <- of_opt (wp_agg P) ;;
      regmap <- build_regmap cx ;;
      subs <- add_all cx regmap needs 0 cs ;;
      ROk (subs, a) in
    match r with
    | RErr => Err | RPanic => Panic
    | ROk (subs, a) => cl_verify (f_common_link cfg) subs a (rq_nonce R)
    end.
End W3C.
