(* C16 case checker.
   P-cases: (P <json> (ok <query> <printed json> <roundtrip bool>) | (err) | (panic))
   V-cases: (V <v1 bool> <query> (valid|invalid <carried-same bool> <request-roundtrip bool>) | (deser-err)) *)
From Coq Require Import List String Bool.
From AV Require Import Model.Sexp Model.Json Model.Query Model.QueryValidate.
Import ListNotations.
Open Scope string_scope.

Inductive parse_outcome :=
| POk (q : query) (printed : jv) (rt : bool)
| PErr
| PPanic.

Definition dec_parse_outcome (e : sexp) : option parse_outcome :=
  match e with
  | L [A "ok"; q; j; rt] =>
      match dec_query q, dec_json j, dec_bool rt with
      | Some q', Some j', Some rt' => Some (POk q' j' rt')
      | _, _, _ => None
      end
  | L [A "err"] => Some PErr
  | L [A "panic"] => Some PPanic
  | _ => None
  end.

(* the property on one parse case: the implementation's outcome is the specified one *)
Definition ok_C16_parse (j : jv) (o : parse_outcome) : bool :=
  match parse_restriction j, o with
  | Some q, POk q' printed rt => query_eqb q q' && jv_eqb (tv q) printed && rt
  | None, PErr => true
  | _, _ => false
  end.

Inductive validate_outcome := VValid (same rt : bool) | VInvalid (same rt : bool) | VDeserErr.
Definition dec_validate_outcome (e : sexp) : option validate_outcome :=
  match e with
  | L [A "valid"; s; r] => match dec_bool s, dec_bool r with Some s', Some r' => Some (VValid s' r') | _, _ => None end
  | L [A "invalid"; s; r] => match dec_bool s, dec_bool r with Some s', Some r' => Some (VInvalid s' r') | _, _ => None end
  | L [A "deser-err"] => Some VDeserErr
  | _ => None
  end.

Definition ok_C16_validate (v1 : bool) (q : query) (o : validate_outcome) : bool :=
  match o with
  | VValid same rt => validate_query v1 q && same && rt
  | VInvalid same rt => negb (validate_query v1 q) && same && rt
  | VDeserErr => false
  end.

Definition check_C16 (args : list sexp) : list sexp :=
  match args with
  | [A "P"; j; o] =>
      match dec_json j, dec_parse_outcome o with
      | Some j', Some o' =>
          [A (if ok_C16_parse j' o' then "ok" else "bad");
           A (match parse_restriction j' with
              | Some (And []) => "parse:unrestricted"
              | Some _ => match j' with JArr _ => "parse:legacy-list" | _ => "parse:ok" end
              | None => match j' with JObj _ | JArr _ => "parse:rejected" | _ => "trivial" end
              end)]
      | _, _ => [A "decode-error"]
      end
  | [A "V"; v1; q; o] =>
      match dec_bool v1, dec_query q, dec_validate_outcome o with
      | Some v1', Some q', Some o' =>
          [A (if ok_C16_validate v1' q' o' then "ok" else "bad");
           A (if validate_query v1' q' then "validate:accepted"
              else "validate:refused-qualified")]
      | _, _, _ => [A "decode-error"]
      end
  | _ => [A "decode-error"]
  end.
