(* utils/validation.rs: the five identifier regular expressions as structured recognisers over
   UTF-8 byte strings, and identifier validation (data_types/macros.rs).
   Rust-regex facts used: `^`/`$` match only at the ends of the text (no multi-line mode),
   `.` is any character but '\n', `[^:]` is any character but ':' (it includes '\n').
   All literal characters are ASCII, so on valid UTF-8 the byte-level reading is exact. *)
From Coq Require Import List String Ascii NArith Bool.
Import ListNotations.
Open Scope string_scope.

Definition in_range (a : ascii) (lo hi : N) : bool :=
  let n := N_of_ascii a in (lo <=? n)%N && (n <=? hi)%N.
Definition is_lower a := in_range a 97 122.
Definition is_upper a := in_range a 65 90.
Definition is_alpha a := is_lower a || is_upper a.
Definition is_digit a := in_range a 48 57.
Definition is_alnum a := is_alpha a || is_digit a.
(* [1-9A-HJ-NP-Za-km-z] *)
Definition is_b58 a :=
  in_range a 49 57 || in_range a 65 72 || in_range a 74 78 || in_range a 80 90
  || in_range a 97 107 || in_range a 109 122.
(* [a-zA-Z0-9\+\-\.] *)
Definition is_scheme_char a :=
  is_alnum a || Ascii.eqb a "+"%char || Ascii.eqb a "-"%char || Ascii.eqb a "."%char.
(* [0-9.] *)
Definition is_version_char a := is_digit a || Ascii.eqb a "."%char.

Fixpoint all_chars (p : ascii -> bool) (s : string) : bool :=
  match s with EmptyString => true | String a r => p a && all_chars p r end.
Definition nonempty (s : string) : bool := match s with EmptyString => false | _ => true end.
Definition no_newline (s : string) : bool := all_chars (fun a => negb (Ascii.eqb a "010"%char)) s.

(* ^[a-zA-Z][a-zA-Z0-9\+\-\.]*:.+$ *)
Fixpoint uri_tail (s : string) : bool :=
  match s with
  | EmptyString => false
  | String a r =>
      if Ascii.eqb a ":"%char then nonempty r && no_newline r
      else if is_scheme_char a then uri_tail r else false
  end.
Definition is_uri (s : string) : bool :=
  match s with
  | EmptyString => false
  | String a r => is_alpha a && uri_tail r
  end.

Definition len_21_22 (s : string) : bool :=
  let n := String.length s in Nat.eqb n 21 || Nat.eqb n 22.
(* ^[1-9A-HJ-NP-Za-km-z]{21,22}$ *)
Definition is_legacy_did (s : string) : bool := all_chars is_b58 s && len_21_22 s.
(* [a-zA-Z0-9]{21,22} *)
Definition is_alnum_did (s : string) : bool := all_chars is_alnum s && len_21_22 s.
(* [1-9][0-9]* *)
Definition is_seq_no (s : string) : bool :=
  match s with
  | EmptyString => false
  | String a r => in_range a 49 57 && all_chars is_digit r
  end.
(* [0-9.]+ *)
Definition is_version (s : string) : bool := nonempty s && all_chars is_version_char s.

(* fields between colons; no field contains ':' *)
Definition is_colon (a : ascii) : bool := Ascii.eqb a ":"%char.
Fixpoint split_colon (s : string) : list string :=
  match s with
  | EmptyString => [EmptyString]
  | String a r =>
      if is_colon a then EmptyString :: split_colon r
      else match split_colon r with
           | h :: t => String a h :: t
           | [] => [String a EmptyString]
           end
  end.

(* ^B58{21,22}:2:[^:]+:[0-9.]+$ *)
Definition is_legacy_schema_id (s : string) : bool :=
  match split_colon s with
  | [did; two; name; ver] => is_legacy_did did && (two =? "2") && nonempty name && is_version ver
  | _ => false
  end.

(* ^B58{21,22}:3:CL:(([1-9][0-9]* )|([a-zA-Z0-9]{21,22}:2:[^:]+:[0-9.]+)):([^:]+)?$ *)
Definition is_legacy_cred_def_id (s : string) : bool :=
  match split_colon s with
  | [did; three; cl; seq; _tag] =>
      is_legacy_did did && (three =? "3") && (cl =? "CL") && is_seq_no seq
  | [did; three; cl; sdid; two; name; ver; _tag] =>
      is_legacy_did did && (three =? "3") && (cl =? "CL")
      && is_alnum_did sdid && (two =? "2") && nonempty name && is_version ver
  | _ => false
  end.

(* ^B58{21,22}:4:B58{21,22}:3:CL:(( seq )|(alnum{21,22}:2:[^:]+:[0-9.]+)):([^:]+):CL_ACCUM:([^:]+)?$ *)
Definition is_legacy_rev_reg_id (s : string) : bool :=
  match split_colon s with
  | [did; four; did2; three; cl; seq; tag; acc; _tag2] =>
      is_legacy_did did && (four =? "4") && is_legacy_did did2 && (three =? "3") && (cl =? "CL")
      && is_seq_no seq && nonempty tag && (acc =? "CL_ACCUM")
  | [did; four; did2; three; cl; sdid; two; name; ver; tag; acc; _tag2] =>
      is_legacy_did did && (four =? "4") && is_legacy_did did2 && (three =? "3") && (cl =? "CL")
      && is_alnum_did sdid && (two =? "2") && nonempty name && is_version ver
      && nonempty tag && (acc =? "CL_ACCUM")
  | _ => false
  end.

Inductive id_kind := KIssuer | KSchema | KCredDef | KRevReg.

(* impl_anoncreds_object_identifier!: Validatable::validate *)
Definition validate_id (k : id_kind) (s : string) : bool :=
  is_uri s ||
  match k with
  | KIssuer => is_legacy_did s
  | KSchema => is_legacy_schema_id s
  | KCredDef => is_legacy_cred_def_id s
  | KRevReg => is_legacy_rev_reg_id s
  end.

(* data_types/schema.rs: AttributeNames::validate (distinct, non-empty, at most MAX_ATTRIBUTES_COUNT) *)
Definition max_attributes_count : nat := 125.
Fixpoint nodupb (l : list string) : bool :=
  match l with
  | [] => true
  | x :: r => negb (existsb (String.eqb x) r) && nodupb r
  end.
Definition attr_names_valid (l : list string) : bool :=
  nodupb l && negb (Nat.eqb (List.length l) 0) && Nat.leb (List.length l) max_attributes_count.

(* data_types/schema.rs: Schema::validate = issuer id + attribute names *)
Definition schema_valid (issuer : string) (attrs : list string) : bool :=
  validate_id KIssuer issuer && attr_names_valid attrs.

(* data_types/cred_request.rs: CredentialRequest::validate *)
Definition cred_request_valid (entropy prover_did : option string) (cred_def_id : string) : bool :=
  validate_id KCredDef cred_def_id &&
  match entropy with
  | Some _ => match prover_did with Some _ => false | None => true end
  | None =>
      if is_legacy_cred_def_id cred_def_id then
        match prover_did with
        | Some d => is_uri d || is_legacy_did d
        | None => false
        end
      else false
  end.
