(* The marshalling rules of the C ABI (C17): src/ffi/*.rs.
   - every exported function null-checks every result pointer before anything else and runs
     its body inside catch_error (a panic becomes code Unexpected)
   - a credential entry's timestamp is an i32: negative = absent
   - an optional handle is 0 = absent; any other value must be live
   - handle lists travel with id lists of the same length
   The table of exported functions is regenerated from the source (Generated/Ffi.v). *)
From Coq Require Import List String ZArith Bool.
From AV Require Import Model.VTypes Model.Store Model.Encode.
Import ListNotations.
Open Scope string_scope.

Definition ffi_row := (string * list string * list string * bool)%type.
Definition row_outs_checked (r : ffi_row) : bool := let '(_, outs, checked, _) := r in subset outs checked.
Definition row_wrapped (r : ffi_row) : bool := let '(_, _, _, w) := r in w.
Definition all_outs_checked (t : list ffi_row) : bool := forallb row_outs_checked t.
Definition all_wrapped (t : list ffi_row) : bool := forallb row_wrapped t.

(* the prologue every exported function shares: what comes back for a malformed call *)
Inductive ffi_out (A : Type) := FOk (a : A) | FErr (code : Z).
Arguments FOk {A} a. Arguments FErr {A} code.
Definition code_input : Z := 1.
Definition prologue {A} (null_result_pointer lengths_ok handles_ok : bool) (body : ffi_out A) : ffi_out A :=
  if null_result_pointer then FErr code_input
  else if negb lengths_ok then FErr code_input
  else if negb handles_ok then FErr code_input
  else body.

(* FfiCredentialEntry::load: the timestamp *)
Definition entry_timestamp (t : Z) : option Z := if (t <? 0)%Z then None else Some t.
(* how a native optional timestamp is passed through the C ABI *)
Definition c_timestamp (o : option Z) : Z := match o with Some t => t | None => (-1)%Z end.

(* ObjectHandle::opt_load over the store of Model/Store.v: None = error *)
Definition opt_load (m : list (nat * obj)) (h : nat) : option (option obj) :=
  if Nat.eqb h 0%nat then Some None
  else match lookup m h with Some o => Some (Some o) | None => None end.
(* ObjectHandle::load + cast_ref *)
Definition load_typed (m : list (nat * obj)) (h ty : nat) : option obj :=
  match lookup m h with Some o => if Nat.eqb (oty o) ty then Some o else None | None => None end.
(* AnoncredsObjectList::load + refs: every handle live and of the type *)
Definition load_list (m : list (nat * obj)) (hs : list nat) (ty : nat) : option (list obj) :=
  fold_right (fun h acc => match load_typed m h ty, acc with Some o, Some l => Some (o :: l) | _, _ => None end) (Some []) hs.

(* _encoded_credential_values: names, raw values and OPTIONAL encoded values are three index-aligned lists *)
Fixpoint enc_values (names raws : list string) (encs : list (option string)) : list (string * (string * string)) :=
  match names, raws with
  | n :: ns, r :: rs => (n, (r, match hd None encs with Some e => e | None => encode r end)) :: enc_values ns rs (tl encs)
  | _, _ => []
  end.
Definition enc_values_call (names raws : list string) (encs : list (option string)) : option (list (string * (string * string))) :=
  match names with
  | [] => None
  | _ => if Nat.eqb (List.length names) (List.length raws) then Some (enc_values names raws encs) else None
  end.
(* FfiList<i32> of registry indices: `as u32` *)
Definition index_cast (i : Z) : Z := (i mod 4294967296)%Z.
(* _nonrevoke_interval_override: grouped by registry; a later entry for the same (registry, requested bound) replaces an earlier one *)
Definition ovr_find (l : list (string * Z * Z)) (rid : string) (req : Z) : option Z :=
  option_map snd (find (fun e : string * Z * Z => String.eqb (fst (fst e)) rid && Z.eqb (snd (fst e)) req) (rev l)).
(* 64-bit sizes and indices handed to a 32-bit unsigned parameter (`try_into`: max_cred_num, rev_reg_index, reg_idx):
   refused outside 0 .. 2^32-1, never wrapped *)
Definition index_try (i : Z) : option Z := if ((0 <=? i) && (i <? 4294967296))%Z then Some i else None.
(* a timestamp argument of the status-list functions: 0 or negative means that none is supplied *)
Definition ts_arg (t : Z) : option Z := if (t <=? 0)%Z then None else Some t.
(* the timestamp of an updated status list: the one supplied, else the one the list had *)
Definition ts_after (old : option Z) (arg : Z) : option Z := match ts_arg arg with Some t => Some t | None => old end.
