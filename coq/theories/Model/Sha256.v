(* Executable FIPS 180-4 SHA-256 on byte lists (bytes are N < 256). *)
From Coq Require Import List NArith String Ascii.
Import ListNotations.
Open Scope N_scope.

Definition m32 : N := 4294967295.
Definition w32 (x : N) : N := N.land x m32.
Definition add32 (x y : N) : N := w32 (x + y).
Definition rotr (n x : N) : N := N.lor (N.shiftr x n) (w32 (N.shiftl x (32 - n))).
Definition shr (n x : N) : N := N.shiftr x n.
Definition not32 (x : N) : N := N.lxor x m32.
Definition ch (x y z : N) := N.lxor (N.land x y) (N.land (not32 x) z).
Definition maj (x y z : N) := N.lxor (N.lxor (N.land x y) (N.land x z)) (N.land y z).
Definition bsig0 x := N.lxor (N.lxor (rotr 2 x) (rotr 13 x)) (rotr 22 x).
Definition bsig1 x := N.lxor (N.lxor (rotr 6 x) (rotr 11 x)) (rotr 25 x).
Definition ssig0 x := N.lxor (N.lxor (rotr 7 x) (rotr 18 x)) (shr 3 x).
Definition ssig1 x := N.lxor (N.lxor (rotr 17 x) (rotr 19 x)) (shr 10 x).

Definition K : list N := [1116352408; 1899447441; 3049323471; 3921009573; 961987163; 1508970993; 2453635748; 2870763221; 3624381080; 310598401; 607225278; 1426881987; 1925078388; 2162078206; 2614888103; 3248222580; 3835390401; 4022224774; 264347078; 604807628; 770255983; 1249150122; 1555081692; 1996064986; 2554220882; 2821834349; 2952996808; 3210313671; 3336571891; 3584528711; 113926993; 338241895; 666307205; 773529912; 1294757372; 1396182291; 1695183700; 1986661051; 2177026350; 2456956037; 2730485921; 2820302411; 3259730800; 3345764771; 3516065817; 3600352804; 4094571909; 275423344; 430227734; 506948616; 659060556; 883997877; 958139571; 1322822218; 1537002063; 1747873779; 1955562222; 2024104815; 2227730452; 2361852424; 2428436474; 2756734187; 3204031479; 3329325298].
Definition H0 : list N := [1779033703; 3144134277; 1013904242; 2773480762; 1359893119; 2600822924; 528734635; 1541459225].

(* message schedule, newest word first *)
Fixpoint extend (n : nat) (w : list N) : list N :=
  match n with
  | O => w
  | S n' =>
      let x := add32 (add32 (ssig1 (nth 1 w 0)) (nth 6 w 0)) (add32 (ssig0 (nth 14 w 0)) (nth 15 w 0)) in
      extend n' (x :: w)
  end.

Definition round (s : list N) (kw : N * N) : list N :=
  match s with
  | [a; b; c; d; e; f; g; h] =>
      let t1 := add32 (add32 (add32 h (bsig1 e)) (add32 (ch e f g) (fst kw))) (snd kw) in
      let t2 := add32 (bsig0 a) (maj a b c) in
      [add32 t1 t2; a; b; c; add32 d t1; e; f; g]
  | _ => s
  end.

Definition compress (h : list N) (block : list N) (* 16 words, oldest first *) : list N :=
  let w := rev (extend 48 (rev block)) in
  let s := fold_left round (combine K w) h in
  map (fun p => add32 (fst p) (snd p)) (combine h s).

Fixpoint words (bs : list N) : list N :=
  match bs with
  | a :: b :: c :: d :: r => (a * 16777216 + b * 65536 + c * 256 + d) :: words r
  | _ => []
  end.

Fixpoint chunks (fuel : nat) (ws : list N) : list (list N) :=
  match fuel with
  | O => []
  | S f => match ws with [] => [] | _ => firstn 16 ws :: chunks f (skipn 16 ws) end
  end.

Definition be_bytes (k : nat) (x : N) : list N :=   (* k bytes, big endian *)
  map (fun i => N.land (N.shiftr x (8 * N.of_nat i)) 255) (rev (seq 0 k)).

Definition pad (msg : list N) : list N :=
  let l := N.of_nat (List.length msg) in
  let zeros := N.to_nat ((119 - (l mod 64)) mod 64) in   (* l + 1 + zeros + 8 = 0 mod 64 *)
  msg ++ [128] ++ repeat 0 zeros ++ be_bytes 8 (8 * l).

Definition sha256_words (msg : list N) : list N :=
  let ws := words (pad msg) in
  fold_left compress (chunks (S (List.length ws)) ws) H0.

Definition sha256 (msg : list N) : list N := flat_map (be_bytes 4) (sha256_words msg).

Definition bytes_of_string (s : string) : list N := map N_of_ascii (list_ascii_of_string s).
Definition string_of_bytes (bs : list N) : string := string_of_list_ascii (map ascii_of_N bs).
Definition be_nat (bs : list N) : N := fold_left (fun a b => 256 * a + b) bs 0.
