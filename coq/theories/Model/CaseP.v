(* Prover cases (C04 C07):
   (P <L|W> <request> <ctx> <link> <selection> <self-attested> <implementation result> <leaks> <secrets> <verify outcome opt> <expect honest>) *)
From Coq Require Import List String Ascii ZArith NArith Bool.
From AV Require Import Model.Sexp Model.Query Model.VTypes Model.Interval Model.VerifierLegacy Model.VDecode Model.VCfg Model.VProps Model.CaseV
  Model.Prover Model.PProps.
Import ListNotations.
Open Scope string_scope.

Definition dec_hcred (e : sexp) : option hcred :=
  match e with
  | L [s; c; r; i; vals; subj; src] =>
      match dec_str s, dec_str c, dec_opt dec_str r, dec_str i,
            dec_list (dec_pair dec_str (dec_pair dec_str dec_str)) vals,
            dec_list (dec_pair dec_str dec_attr_value) subj, dec_source src with
      | Some s', Some c', Some r', Some i', Some v', Some sj', Some src' =>
          Some {| hc_schema := s'; hc_creddef := c'; hc_revreg := r'; hc_issuer := i'; hc_values := v'; hc_subject := sj'; hc_src := src' |}
      | _, _, _, _, _, _, _ => None end
  | _ => None
  end.
Definition dec_present (e : sexp) : option present :=
  match e with
  | L [c; ts; st; attrs; preds] =>
      match dec_hcred c, dec_opt dec_Z ts, dec_opt dec_nrp st, dec_list (dec_pair dec_str dec_bool) attrs, dec_list dec_str preds with
      | Some c', Some ts', Some st', Some a', Some p' => Some {| pr_cred := c'; pr_ts := ts'; pr_state := st'; pr_attrs := a'; pr_preds := p' |}
      | _, _, _, _, _ => None end
  | _ => None
  end.

Inductive pimpl := IOk (o : pout) | IErr | IPanic.
Definition dec_pimpl (fmt e : sexp) : option pimpl :=
  match e with
  | L [A "err"] => Some IErr
  | L [A "panic"] => Some IPanic
  | L [A "ok"; p] =>
      match fmt with
      | A "L" => option_map (fun x => IOk (PLegacy x)) (dec_presentation p)
      | A "W" => option_map (fun x => IOk (PW3C x)) (dec_w3c_pres p)
      | _ => None end
  | _ => None
  end.

(* ---- equality of what the model builds and what the library built (maps compared as maps) ---- *)
Section MapEq.
  Context {V : Type} (veq : V -> V -> bool).
  Definition map_le (a b : list (string * V)) : bool :=
    forallb (fun '(k, v) => match assoc k b with Some v' => veq v v' | None => false end) a.
  Definition map_eqb (a b : list (string * V)) : bool := map_le a b && map_le b a && Nat.eqb (List.length a) (List.length b).
End MapEq.
Definition oeqb {T} (eq : T -> T -> bool) (a b : option T) : bool :=
  match a, b with Some x, Some y => eq x y | None, None => true | _, _ => false end.
Definition source_eqb (a b : source) : bool :=
  N.eqb (src_key a) (src_key b) && set_eqb (src_attrs a) (src_attrs b) && map_eqb String.eqb (src_values a) (src_values b)
  && N.eqb (src_cred_link a) (src_cred_link b) && N.eqb (src_used_link a) (src_used_link b) && Z.eqb (src_pos a) (src_pos b)
  && Bool.eqb (src_altered a) (src_altered b).
Definition nrp_eqb (a b : nrp) : bool := N.eqb (nrp_regkey a) (nrp_regkey b) && N.eqb (nrp_acc a) (nrp_acc b) && Bool.eqb (nrp_valid a) (nrp_valid b).
Definition subproof_eqb (a b : subproof) : bool :=
  map_eqb String.eqb (sp_revealed a) (sp_revealed b)
  && forallb (fun p => existsb (pred_eqb p) (sp_preds b)) (sp_preds a) && forallb (fun p => existsb (pred_eqb p) (sp_preds a)) (sp_preds b)
  && oeqb nrp_eqb (sp_nrp a) (sp_nrp b) && source_eqb (sp_src a) (sp_src b).
Definition agg_eqb (a b : agg) : bool :=
  N.eqb (ag_nonce a) (ag_nonce b) && Z.eqb (ag_count a) (ag_count b) && Bool.eqb (ag_altered a) (ag_altered b) && Bool.eqb (ag_common a) (ag_common b).
Definition ident_eqb (a b : identifier) : bool :=
  String.eqb (id_schema a) (id_schema b) && String.eqb (id_creddef a) (id_creddef b)
  && oeqb String.eqb (id_revreg a) (id_revreg b) && oeqb Z.eqb (id_ts a) (id_ts b).
Fixpoint list_eqb {T} (eq : T -> T -> bool) (a b : list T) : bool :=
  match a, b with [], [] => true | x :: r, y :: s => eq x y && list_eqb eq r s | _, _ => false end.
Definition pair_ss_eqb (a b : string * string) : bool := String.eqb (fst a) (fst b) && String.eqb (snd a) (snd b).
Definition rp_eqb (a b : req_proof) : bool :=
  map_eqb (fun x y => Z.eqb (fst (fst x)) (fst (fst y)) && String.eqb (snd (fst x)) (snd (fst y)) && String.eqb (snd x) (snd y)) (rp_revealed a) (rp_revealed b)
  && map_eqb (fun x y => Z.eqb (fst x) (fst y) && map_eqb pair_ss_eqb (snd x) (snd y)) (rp_groups a) (rp_groups b)
  && map_eqb String.eqb (rp_self a) (rp_self b) && map_eqb Z.eqb (rp_unrev a) (rp_unrev b) && map_eqb Z.eqb (rp_preds a) (rp_preds b).
Definition attr_value_eqb (a b : attr_value) : bool :=
  match a, b with VStr x, VStr y => String.eqb x y | VNum x, VNum y => Z.eqb x y | VBool x, VBool y => Bool.eqb x y | _, _ => false end.
Definition wcred_eqb (a b : w3c_cred) : bool :=
  String.eqb (wc_issuer a) (wc_issuer b) && map_eqb attr_value_eqb (wc_subject a) (wc_subject b) && String.eqb (wc_method a) (wc_method b)
  && oeqb (fun x y => ident_eqb (fst x) (fst y) && subproof_eqb (snd x) (snd y)) (wc_pv a) (wc_pv b).
Definition pout_eqb (a b : pout) : bool :=
  match a, b with
  | PLegacy x, PLegacy y => list_eqb subproof_eqb (p_proofs x) (p_proofs y) && agg_eqb (p_agg x) (p_agg y)
                            && rp_eqb (p_rp x) (p_rp y) && list_eqb ident_eqb (p_ids x) (p_ids y)
  | PW3C x, PW3C y => Bool.eqb (wp_shape_ok x) (wp_shape_ok y) && list_eqb wcred_eqb (wp_creds x) (wp_creds y) && oeqb agg_eqb (wp_agg x) (wp_agg y)
  | _, _ => false
  end.

Definition model_create (legacy : bool) (c : pcase) : pimpl :=
  if legacy then
    match create_legacy pcfg_current (pc_req c) (pc_cx c) (pc_link c) (pc_sel c) (pc_self c) with
    | ROk P => IOk (PLegacy P) | RErr => IErr | RPanic => IPanic end
  else
    match create_w3c pcfg_current (pc_req c) (pc_cx c) (pc_link c) (pc_sel c) with
    | ROk P => IOk (PW3C P) | RErr => IErr | RPanic => IPanic end.
Definition pimpl_rel (a b : pimpl) : bool :=
  match a, b with IOk x, IOk y => pout_eqb x y | IErr, IErr => true | IPanic, IPanic => true | _, _ => false end.
Definition pimpl_tag (a : pimpl) : string := match a with IOk _ => "ok" | IErr => "err" | IPanic => "panic" end.

Definition dec_leak (e : sexp) : option (Z * string) := dec_pair dec_Z dec_str e.

(* known finding (C04/C14): inside a W3C presentation the CL sub-proof travels as msgpack, where
   the dependency writes big numbers as unsigned bytes; a REVEALED attribute whose encoded value is
   negative loses its sign and the presentation is rejected. The class: the selection reveals an
   attribute with a negative encoded value. *)
Definition is_negative (e : string) : bool := match e with String a _ => Ascii.eqb a "-"%char | _ => false end.
Definition reveals_negative (c : pcase) : bool :=
  existsb (fun p =>
    existsb (fun '(r, reveal) =>
      (reveal : bool) && match assoc r (rq_attrs (pc_req c)) with
                         | Some ai => existsb (fun n => match find_value (pr_cred p) n with Some (_, e) => is_negative e | None => false end) (names_of ai)
                         | None => false end) (pr_attrs p)) (nonempty (pc_sel c)).

Definition check_P (p : string) (args : list sexp) : list sexp :=
  match args with
  | [A "P"; fmt; r; cx; link; sel; self; impl; leaks; secrets; vo; expect] =>
      match dec_request r, dec_ctx cx, dec_N link, dec_list dec_present sel, dec_list (dec_pair dec_str dec_str) self,
            dec_pimpl fmt impl, dec_list dec_leak leaks, dec_list dec_str secrets, dec_opt dec_outcome vo, dec_bool expect with
      | Some r', Some cx', Some link', Some sel', Some self', Some impl', Some leaks', Some secrets', Some vo', Some expect' =>
          let c := {| pc_req := r'; pc_cx := cx'; pc_link := link'; pc_sel := sel'; pc_self := self' |} in
          let legacy := match fmt with A "L" => true | _ => false end in
          let m := model_create legacy c in
          let created := match impl' with IOk _ => true | _ => false end in
          let honest := if legacy then honest_legacy cfg_current c else honest_w3c cfg_current pcfg_current c in
          let mflow := if legacy then flow_legacy cfg_current pcfg_current c else flow_w3c cfg_current pcfg_current c in
          let okv :=
            if p =? "C07" then
              match impl' with
              | IOk o => ok_C07 c o leaks' secrets'
              | IErr => true
              | IPanic => true end
            else ok_C04 honest created vo' in
          let relv := pimpl_rel impl' m
                      && match vo', mflow with
                         | Some o, Some o' => Bool.eqb (is_accept o) (is_accept o')
                         | None, _ => true
                         | Some _, None => false end
                      && (negb expect' || honest) in
          let known_neg := negb legacy && reveals_negative c in
          [A (if okv then (if relv || known_neg then "ok" else "rel") else if known_neg && (p =? "C04") then "known:w3c-negative-revealed" else "bad");
           A ("impl:" ++ pimpl_tag impl'); A ("model:" ++ pimpl_tag m);
           A ("verify:" ++ match vo' with Some o => outcome_tag o | None => "none" end);
           A ("honest:" ++ (if honest then "t" else "f") ++ (if expect' then "/expected" else ""));
           A (if legacy then "fmt:legacy" else "fmt:w3c");
           (* the case lies in the class for which the end-to-end statement is a theorem (C04_legacy_plain) *)
           A (if legacy && (plain_b c || rev_b c) then (if plain_b c then "class:theorem-covers" else "class:theorem-covers-rev")
              else if negb legacy && honest && subjects_plain c && is_ok (build_regmap (pc_cx c)) then "class:theorem-covers-w3c" else "class:correspondence-only")]
      | _, _, _, _, _, _, _, _, _, _ => [A "decode-error"]
      end
  | _ => [A "decode-error"]
  end.
