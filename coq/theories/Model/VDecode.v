(* Decoders of the abstract verification case (DESIGN.md Appendix B). Total; None on any shape error. *)
From Coq Require Import List String Ascii ZArith NArith Bool.
From AV Require Import Model.Sexp Model.Query Model.VTypes.
Import ListNotations.
Open Scope string_scope.

Definition dec_interval (e : sexp) : option interval :=
  match e with
  | L [f; t] => match dec_opt dec_Z f, dec_opt dec_Z t with Some f', Some t' => Some {| ifrom := f'; ito := t' |} | _, _ => None end
  | _ => None
  end.
Definition dec_ptype (e : sexp) : option ptype :=
  match e with A "ge" => Some GE | A "le" => Some LE | A "gt" => Some GT | A "lt" => Some LT | _ => None end.
Definition dec_attr_info (e : sexp) : option attr_info :=
  match e with
  | L [n; ns; q; nr] =>
      match dec_opt dec_str n, dec_opt (dec_list dec_str) ns, dec_opt dec_query q, dec_opt dec_interval nr with
      | Some n', Some ns', Some q', Some nr' => Some {| ai_name := n'; ai_names := ns'; ai_restr := q'; ai_nr := nr' |}
      | _, _, _, _ => None end
  | _ => None
  end.
Definition dec_pred_info (e : sexp) : option pred_info :=
  match e with
  | L [n; t; v; q; nr] =>
      match dec_str n, dec_ptype t, dec_Z v, dec_opt dec_query q, dec_opt dec_interval nr with
      | Some n', Some t', Some v', Some q', Some nr' => Some {| pi_name := n'; pi_type := t'; pi_value := v'; pi_restr := q'; pi_nr := nr' |}
      | _, _, _, _, _ => None end
  | _ => None
  end.
Definition dec_request (e : sexp) : option request :=
  match e with
  | L [nonce; attrs; preds; nr] =>
      match dec_N nonce, dec_list (dec_pair dec_str dec_attr_info) attrs, dec_list (dec_pair dec_str dec_pred_info) preds, dec_opt dec_interval nr with
      | Some n', Some a', Some p', Some nr' => Some {| rq_nonce := n'; rq_attrs := a'; rq_preds := p'; rq_nr := nr' |}
      | _, _, _, _ => None end
  | _ => None
  end.
Definition dec_source (e : sexp) : option source :=
  match e with
  | L [k; attrs; vals; cl; ul; pos; alt] =>
      match dec_N k, dec_list dec_str attrs, dec_list (dec_pair dec_str dec_str) vals, dec_N cl, dec_N ul, dec_Z pos, dec_bool alt with
      | Some k', Some a', Some v', Some cl', Some ul', Some p', Some alt' =>
          Some {| src_key := k'; src_attrs := a'; src_values := v'; src_cred_link := cl'; src_used_link := ul'; src_pos := p'; src_altered := alt' |}
      | _, _, _, _, _, _, _ => None end
  | _ => None
  end.
Definition dec_nrp (e : sexp) : option nrp :=
  match e with
  | L [k; a; v] => match dec_N k, dec_N a, dec_bool v with Some k', Some a', Some v' => Some {| nrp_regkey := k'; nrp_acc := a'; nrp_valid := v' |} | _, _, _ => None end
  | _ => None
  end.
Definition dec_pred3 (e : sexp) : option (string * ptype * Z) :=
  match e with
  | L [n; t; v] => match dec_str n, dec_ptype t, dec_Z v with Some n', Some t', Some v' => Some (n', t', v') | _, _, _ => None end
  | _ => None
  end.
Definition dec_subproof (e : sexp) : option subproof :=
  match e with
  | L [rv; ps; n; s] =>
      match dec_list (dec_pair dec_str dec_str) rv, dec_list dec_pred3 ps, dec_opt dec_nrp n, dec_source s with
      | Some rv', Some ps', Some n', Some s' => Some {| sp_revealed := rv'; sp_preds := ps'; sp_nrp := n'; sp_src := s' |}
      | _, _, _, _ => None end
  | _ => None
  end.
Definition dec_agg (e : sexp) : option agg :=
  match e with
  | L [n; c; a; m] => match dec_N n, dec_Z c, dec_bool a, dec_bool m with
                      | Some n', Some c', Some a', Some m' => Some {| ag_nonce := n'; ag_count := c'; ag_altered := a'; ag_common := m' |}
                      | _, _, _, _ => None end
  | _ => None
  end.
Definition dec_identifier (e : sexp) : option identifier :=
  match e with
  | L [s; c; r; t] => match dec_str s, dec_str c, dec_opt dec_str r, dec_opt dec_Z t with
                      | Some s', Some c', Some r', Some t' => Some {| id_schema := s'; id_creddef := c'; id_revreg := r'; id_ts := t' |}
                      | _, _, _, _ => None end
  | _ => None
  end.
Definition dec_triple {T U V} (d1 : sexp -> option T) (d2 : sexp -> option U) (d3 : sexp -> option V) (e : sexp) : option (T * U * V) :=
  match e with
  | L [a; b; c] => match d1 a, d2 b, d3 c with Some x, Some y, Some z => Some (x, y, z) | _, _, _ => None end
  | _ => None
  end.
Definition dec_req_proof (e : sexp) : option req_proof :=
  match e with
  | L [rv; gr; sa; un; pr] =>
      match dec_list (dec_pair dec_str (dec_triple dec_Z dec_str dec_str)) rv,
            dec_list (dec_pair dec_str (dec_pair dec_Z (dec_list (dec_pair dec_str (dec_pair dec_str dec_str))))) gr,
            dec_list (dec_pair dec_str dec_str) sa,
            dec_list (dec_pair dec_str dec_Z) un,
            dec_list (dec_pair dec_str dec_Z) pr with
      | Some rv', Some gr', Some sa', Some un', Some pr' =>
          Some {| rp_revealed := rv'; rp_groups := gr'; rp_self := sa'; rp_unrev := un'; rp_preds := pr' |}
      | _, _, _, _, _ => None end
  | _ => None
  end.
Definition dec_presentation (e : sexp) : option presentation :=
  match e with
  | L [ps; a; rp; ids] =>
      match dec_list dec_subproof ps, dec_agg a, dec_req_proof rp, dec_list dec_identifier ids with
      | Some ps', Some a', Some rp', Some ids' => Some {| p_proofs := ps'; p_agg := a'; p_rp := rp'; p_ids := ids' |}
      | _, _, _, _ => None end
  | _ => None
  end.
Definition dec_attr_value (e : sexp) : option attr_value :=
  match e with
  | L [A "s"; s] => option_map VStr (dec_str s)
  | L [A "n"; z] => option_map VNum (dec_Z z)
  | L [A "b"; b] => option_map VBool (dec_bool b)
  | _ => None
  end.
Definition dec_w3c_cred (e : sexp) : option w3c_cred :=
  match e with
  | L [i; subj; m; pv] =>
      match dec_str i, dec_list (dec_pair dec_str dec_attr_value) subj, dec_str m, dec_opt (dec_pair dec_identifier dec_subproof) pv with
      | Some i', Some s', Some m', Some pv' => Some {| wc_issuer := i'; wc_subject := s'; wc_method := m'; wc_pv := pv' |}
      | _, _, _, _ => None end
  | _ => None
  end.
Definition dec_w3c_pres (e : sexp) : option w3c_pres :=
  match e with
  | L [ok; cs; a] =>
      match dec_bool ok, dec_list dec_w3c_cred cs, dec_opt dec_agg a with
      | Some ok', Some cs', Some a' => Some {| wp_shape_ok := ok'; wp_creds := cs'; wp_agg := a' |}
      | _, _, _ => None end
  | _ => None
  end.
Definition dec_schema (e : sexp) : option schema :=
  match e with
  | L [n; v; i; a] => match dec_str n, dec_str v, dec_str i, dec_list dec_str a with
                      | Some n', Some v', Some i', Some a' => Some {| sc_name := n'; sc_version := v'; sc_issuer := i'; sc_attrs := a' |}
                      | _, _, _, _ => None end
  | _ => None
  end.
Definition dec_creddef (e : sexp) : option creddef :=
  match e with
  | L [s; i; k; r] => match dec_str s, dec_str i, dec_N k, dec_opt dec_N r with
                      | Some s', Some i', Some k', Some r' => Some {| cd_schema_id := s'; cd_issuer := i'; cd_key := k'; cd_revkey := r' |}
                      | _, _, _, _ => None end
  | _ => None
  end.
Definition dec_ctx (e : sexp) : option ctx :=
  match e with
  | L [ss; cs; rd; ls; ov] =>
      match dec_list (dec_pair dec_str dec_schema) ss, dec_list (dec_pair dec_str dec_creddef) cs,
            dec_opt (dec_list (dec_pair dec_str dec_N)) rd,
            dec_opt (dec_list (dec_triple (dec_opt dec_str) (dec_opt dec_Z) (dec_opt dec_N))) ls,
            dec_opt (dec_list (dec_pair dec_str (dec_list (dec_pair dec_Z dec_Z)))) ov with
      | Some ss', Some cs', Some rd', Some ls', Some ov' =>
          Some {| cx_schemas := ss'; cx_creddefs := cs'; cx_regdefs := rd'; cx_lists := ls'; cx_override := ov' |}
      | _, _, _, _, _ => None end
  | _ => None
  end.
Definition dec_outcome (e : sexp) : option outcome :=
  match e with A "accept" => Some Accept | A "reject" => Some Reject | A "err" => Some Err | A "panic" => Some Panic | _ => None end.
