(* C17 case checker: (A what equal) faithfulness ; (B test kind rc message handle-message) malformed arguments *)
From Coq Require Import List String Ascii ZArith Bool.
From AV Require Import Model.Sexp Model.Str Model.Encode Model.Ffi.
Import ListNotations.
Open Scope string_scope.

(* a malformed call must come back with a non-zero code (a number, i.e. no crash) and a retrievable message *)
Definition is_error_code (rc : string) : bool :=
  negb (String.eqb rc "0") && negb (String.eqb rc "") && all_digits rc.

Definition dec_triple (e : sexp) : option (string * (string * string)) :=
  match e with
  | L [n; r; v] => match dec_str n, dec_str r, dec_str v with Some n', Some r', Some v' => Some (n', (r', v')) | _, _, _ => None end
  | _ => None end.
Definition triple_eqb (a b : string * (string * string)) : bool :=
  String.eqb (fst a) (fst b) && String.eqb (fst (snd a)) (fst (snd b)) && String.eqb (snd (snd a)) (snd (snd b)).
Definition values_agree_set (a b : list (string * (string * string))) : bool :=
  forallb (fun x => existsb (triple_eqb x) b) a && forallb (fun x => existsb (triple_eqb x) a) b && Nat.eqb (List.length a) (List.length b).
(* (E names raws encs impl): issuance through the C ABI; impl = (ok ((name raw encoded) ...)) | (err) *)
Definition check_E (names raws encs impl : sexp) : list sexp :=
  match dec_list dec_str names, dec_list dec_str raws, dec_list (dec_opt dec_str) encs with
  | Some ns, Some rs, Some es =>
      let m := enc_values_call ns rs es in
      match impl, m with
      | L [A "ok"; vs], Some exp =>
          match dec_list dec_triple vs with
          | Some got => [A (if values_agree_set got exp then "ok" else "bad"); A "enc-values:ok"]
          | None => [A "decode-error"] end
      | L [A "err"], None => [A "ok"; A "enc-values:refused"]
      | L [A "ok"; _], None => [A "bad"; A "enc-values:accepted-but-refused-by-rule"]
      | L [A "err"], Some _ => [A "bad"; A "enc-values:refused-but-valid"]
      | _, _ => [A "decode-error"] end
  | _, _, _ => [A "decode-error"] end.

Definition check_C17 (args : list sexp) : list sexp :=
  match args with
  | [A "A"; what; eq] =>
      match dec_str what, dec_bool eq with
      | Some w, Some e => [A (if e then "ok" else "bad"); A "faithful"]
      | _, _ => [A "decode-error"] end
  | [A "E"; names; raws; encs; impl] => check_E names raws encs impl
  (* (X site i impl): a 64-bit size / index through the C ABI; impl = (ok j) - accepted, the object shows j - | (err) *)
  | [A "X"; site; i; impl] =>
      match dec_str site, dec_Z i with
      | Some _, Some i' =>
          match impl, index_try i' with
          | L [A "ok"; j], Some e => match dec_Z j with Some j' => [A (if Z.eqb j' e then "ok" else "bad"); A "index:accepted"] | None => [A "decode-error"] end
          | L [A "err"], None => [A "ok"; A "index:refused"]
          | L [A "ok"; _], None => [A "bad"; A "index:accepted-out-of-range"]
          | L [A "err"], Some _ => [A "ok"; A "index:refused-in-range"]      (* the function may refuse a value that fits for reasons of its own *)
          | _, _ => [A "decode-error"] end
      | _, _ => [A "decode-error"] end
  (* (T old arg new): the timestamp of a status list before an update through the C ABI, the argument, the timestamp after *)
  | [A "T"; old; arg; new] =>
      match dec_opt dec_Z old, dec_Z arg, dec_opt dec_Z new with
      | Some o, Some a, Some n =>
          let same := match ts_after o a, n with Some x, Some y => Z.eqb x y | None, None => true | _, _ => false end in
          [A (if same then "ok" else "bad"); A "timestamp-argument"]
      | _, _, _ => [A "decode-error"] end
  | [A "B"; test; kind; rc; msg; hmsg] =>
      match dec_str test, dec_str kind, dec_str rc, dec_bool msg, dec_bool hmsg with
      | Some t, Some k, Some rc', Some m, Some hm =>
          [A (if is_error_code rc' && m && hm then "ok" else "bad"); A ("malformed:" ++ k); A ("rc:" ++ rc')]
      | _, _, _, _, _ => [A "decode-error"] end
  | _ => [A "decode-error"]
  end.
