(* C17 case checker: (A what equal) faithfulness ; (B test kind rc message handle-message) malformed arguments *)
From Coq Require Import List String Ascii ZArith Bool.
From AV Require Import Model.Sexp Model.Str.
Import ListNotations.
Open Scope string_scope.

(* a malformed call must come back with a non-zero code (a number, i.e. no crash) and a retrievable message *)
Definition is_error_code (rc : string) : bool :=
  negb (String.eqb rc "0") && negb (String.eqb rc "") && all_digits rc.

Definition check_C17 (args : list sexp) : list sexp :=
  match args with
  | [A "A"; what; eq] =>
      match dec_str what, dec_bool eq with
      | Some w, Some e => [A (if e then "ok" else "bad"); A "faithful"]
      | _, _ => [A "decode-error"] end
  | [A "B"; test; kind; rc; msg; hmsg] =>
      match dec_str test, dec_str kind, dec_str rc, dec_bool msg, dec_bool hmsg with
      | Some t, Some k, Some rc', Some m, Some hm =>
          [A (if is_error_code rc' && m && hm then "ok" else "bad"); A ("malformed:" ++ k); A ("rc:" ++ rc')]
      | _, _, _, _, _ => [A "decode-error"] end
  | _ => [A "decode-error"]
  end.
