(* services/verifier.rs: the WQL restriction evaluator process_operator / process_filter /
   precess_filed / is_attr_internal_tag / check_internal_tag_revealed_value / is_attr_operator,
   over a Filter built by gather_filter_info. *)
From Coq Require Import List String Ascii ZArith Bool.
From AV Require Import Model.Str Model.Query Model.Ident Model.VTypes.
Import ListNotations.
Open Scope string_scope.

Record filter := { f_schema_id : string; f_schema_issuer : string; f_schema_name : string;
                   f_schema_version : string; f_issuer : string; f_cred_def_id : string }.

(* precess_filed: the *_did tags additionally require the CREDENTIAL's value to be a legacy DID *)
Definition field (is_did_tag : bool) (value tagv : string) : bool :=
  (negb is_did_tag || is_legacy_did value) && (value =? tagv).

(* INTERNAL_TAG_MATCHER = ^attr::([^:]+)::(value|marker)$ : (name, is_marker) *)
Fixpoint split2 (s : string) : option (string * string) :=   (* split at the first "::" *)
  match s with
  | EmptyString => None
  | String ":" (String ":" r) => Some (EmptyString, r)
  | String a r => match split2 r with Some (x, y) => Some (String a x, y) | None => None end
  end.
Definition no_colon_b (s : string) : bool := all_chars (fun a => negb (Ascii.eqb a ":"%char)) s.
Definition internal_tag (tag : string) : option (string * bool) :=
  match split2 tag with
  | Some (pre, rest) =>
      if pre =? "attr" then
        match split2 rest with
        | Some (name, kind) =>
            if nonempty name && no_colon_b name then
              (if kind =? "value" then Some (name, false) else if kind =? "marker" then Some (name, true) else None)
            else None
        | None => None
        end
      else None
  | None => None
  end.
Fixpoint ends_with (suf s : string) : bool :=
  (s =? suf) || match s with EmptyString => false | String _ r => ends_with suf r end.
Definition is_attr_operator (tag : string) : bool := String.prefix "attr::" tag && ends_with "::marker" tag.

(* names in the value map and in attr::<name>::* tags are compared normalised once repaired *)
Definition tagkey (cfg : vcfg) (n : string) : string := if f_w3c_norm_keys cfg then cv n else n.

Definition process_filter (cfg : vcfg) (m : list (string * option string)) (tag tagv : string) (f : filter) : bool :=
  if tag =? "schema_id" then field false (f_schema_id f) tagv
  else if tag =? "schema_issuer_did" then field true (f_schema_issuer f) tagv
  else if tag =? "schema_issuer_id" then field false (f_schema_issuer f) tagv
  else if tag =? "schema_name" then field false (f_schema_name f) tagv
  else if tag =? "schema_version" then field false (f_schema_version f) tagv
  else if tag =? "cred_def_id" then field false (f_cred_def_id f) tagv
  else if tag =? "issuer_did" then field true (f_issuer f) tagv
  else if tag =? "issuer_id" then field false (f_issuer f) tagv
  else match internal_tag tag with
       | Some (name, is_marker) =>
           match assoc (tagkey cfg name) m with
           | Some (Some revealed) => if f_marker cfg && is_marker then true else revealed =? tagv
           | Some None => true
           | None => is_attr_operator tag
           end
       | None => is_attr_operator tag
       end.

Section AllAny.
  Context {A : Type} (p : A -> bool).
  Fixpoint allb (l : list A) := match l with [] => true | x :: r => p x && allb r end.
  Fixpoint anyb (l : list A) := match l with [] => false | x :: r => p x || anyb r end.
End AllAny.

(* process_operator: Ok = true *)
Fixpoint eval (cfg : vcfg) (m : list (string * option string)) (f : filter) (q : query) : bool :=
  match q with
  | Eq k v => process_filter cfg m k v f
  | Neq k v => negb (process_filter cfg m k v f)
  | QIn k vs => anyb (fun v => process_filter cfg m k v f) vs
  | And l => allb (eval cfg m f) l
  | Or l => anyb (eval cfg m f) l
  | Not q => negb (eval cfg m f q)
  | _ => false
  end.

(* Query::get_name: every tag name a query mentions *)
Fixpoint names (q : query) : list string :=
  match q with
  | And l | Or l => flat_map names l
  | Not q => names q
  | Exist ks => ks
  | Eq k _ | Neq k _ | Gt k _ | Gte k _ | Lt k _ | Lte k _ | Like k _ | QIn k _ => [k]
  end.
