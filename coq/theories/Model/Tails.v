(* services/tails.rs: tails file layout, TailsFileReader::access_tail offset arithmetic, and
   TailsFileWriter::write as a step machine over a tiny file-system state (temp file, final
   file, BufWriter buffer, hasher input, TempFile drop guard) with error / abort injection.
   utils/base58.rs (bs58, bitcoin alphabet) for the file name. *)
From Coq Require Import List NArith Arith Bool String Ascii.
From AV Require Import Model.Sha256.
Import ListNotations.

Notation bytes := (list N) (only parsing).
Local Open Scope nat_scope.

(* ---------- base58 ---------- *)
Definition b58_alphabet : string := "123456789ABCDEFGHJKLMNPQRSTUVWXYZabcdefghijkmnopqrstuvwxyz".
Definition b58_char (d : N) : ascii :=
  match String.get (N.to_nat d) b58_alphabet with Some a => a | None => "?"%char end.
Fixpoint b58_digits (fuel : nat) (n : N) (acc : list N) : list N :=
  match fuel with
  | O => acc
  | S f => if (n =? 0)%N then acc else b58_digits f (n / 58)%N ((n mod 58)%N :: acc)
  end.
Fixpoint leading_zeros (bs : list N) : nat :=
  match bs with
  | b :: r => if (b =? 0)%N then S (leading_zeros r) else O
  | [] => O
  end.
Definition b58_encode (bs : list N) : string :=
  string_of_list_ascii
    (repeat "1"%char (leading_zeros bs) ++ map b58_char (b58_digits (2 * List.length bs + 2) (be_nat bs) [])).

(* ---------- layout and reader ---------- *)
Definition tail_size : nat := 128.                (* Tail::BYTES_REPR_SIZE *)
Definition version_tag : list N := [0; 2]%N.       (* TAILS_BLOB_TAG_SZ = 2 *)
Definition content (tails : list (list N)) : list N := version_tag ++ List.concat tails.
(* access_tail: read TAIL_SIZE bytes at TAIL_SIZE * k + TAILS_BLOB_TAG_SZ; read_exact fails past
   the end. The index is a u32: offsets are computed in N, only an in-range offset becomes a nat. *)
Definition read_tail (k : N) (c : list N) : option (list N) :=
  let off := (N.of_nat tail_size * k + N.of_nat (List.length version_tag))%N in
  if (off + N.of_nat tail_size <=? N.of_nat (List.length c))%N
  then Some (firstn tail_size (skipn (N.to_nat off) c)) else None.

(* ---------- writer ---------- *)
Inductive step := Create | Write (chunk : list N) | Flush | Rename.
Inductive fault := NoFault | ErrorAt (k : nat) | AbortAt (k : nat).

Record st := { tmp : option (list N);             (* bytes that reached the temp file *)
               buf : list N;                      (* BufWriter buffer (lost on abort) *)
               hashed : list N;                   (* what the hasher has seen *)
               final : option (list N * list N);  (* (hasher input that names the file, content) *)
               guard : bool }.                    (* TempFile drop guard armed *)
Definition init : st := {| tmp := None; buf := []; hashed := []; final := None; guard := false |}.

(* Is the TempFile drop guard defused BEFORE std::fs::rename is attempted?
   true  = `ManuallyDrop::new(self)` first (the code before fix commit "fix: remove tails temp file when rename fails": a failing rename leaves the temp file);
   false = rename first, forget the guard only on success. *)
Definition disarm_before_rename : bool := false.

Definition buf_capacity : nat := 8192.            (* std BufWriter default *)

Section Writer.
  Context (cap : nat) (disarm : bool).

  Definition ok_step (s : st) (x : step) : st :=
    match x with
    | Create => {| tmp := Some []; buf := []; hashed := []; final := final s; guard := true |}
    | Write c =>
        let '(disk, b) :=
          if Nat.leb (List.length (buf s) + List.length c) cap then (tmp s, buf s ++ c)
          else if Nat.ltb (List.length c) cap then (option_map (fun d => d ++ buf s) (tmp s), c)
          else (option_map (fun d => d ++ buf s ++ c) (tmp s), []) in
        {| tmp := disk; buf := b; hashed := hashed s ++ c; final := final s; guard := guard s |}
    | Flush => {| tmp := option_map (fun d => d ++ buf s) (tmp s); buf := []; hashed := hashed s; final := final s; guard := guard s |}
    | Rename => {| tmp := None; buf := []; hashed := hashed s;
                   final := match tmp s with Some d => Some (hashed s, d) | None => final s end; guard := false |}
    end.

  (* what `?` and Drop do when step x fails with an error *)
  Definition err_step (s : st) (x : step) : st :=
    let armed := match x with Rename => negb disarm | Create => false | _ => guard s end in
    {| tmp := if armed then None else (match x with Create => None | _ => tmp s end);
       buf := []; hashed := hashed s; final := final s; guard := false |}.

  Fixpoint run (s : st) (prog : list step) (k : nat) (f : fault) : st :=
    match prog with
    | [] => s
    | x :: r =>
        match f with
        | ErrorAt j => if Nat.eqb j k then err_step s x else run (ok_step s x) r (S k) f
        | AbortAt j => if Nat.eqb j k then {| tmp := tmp s; buf := []; hashed := hashed s; final := final s; guard := false |}
                       else run (ok_step s x) r (S k) f
        | NoFault => run (ok_step s x) r (S k) f
        end
    end.

  Definition program (ver : list N) (tails : list (list N)) : list step :=
    Create :: Write ver :: map Write tails ++ [Flush; Rename].
End Writer.

Definition write_tails (tails : list (list N)) (f : fault) : st :=
  run buf_capacity disarm_before_rename init (program version_tag tails) 0 f.
Definition file_name (hash_input : list N) : string := b58_encode (sha256 hash_input).
(* does the fault index hit one of the program's steps? *)
Definition fault_fires (tails : list (list N)) (f : fault) : bool :=
  match f with NoFault => false | ErrorAt j | AbortAt j => Nat.ltb j (List.length tails + 4) end.
