(* The hand-written (de)serialisers of the wire formats (C15): data_types/nonce.rs Nonce,
   data_types/rev_status_list.rs serde_revocation_list, data_types/pres_request.rs
   PresentationRequest (the "ver" tag), data_types/w3c/proof.rs DataIntegrityProofValue (the
   proof-kind tag), data_types/w3c/format.rs base64_msgpack (the multibase header). The WQL codec
   is Model/Query.v (C16). Everything else is serde-derived and executed, not modelled. *)
From Coq Require Import List String Ascii ZArith Bool.
From AV Require Import Model.Str Model.Json.
Import ListNotations.
Open Scope string_scope.

(* ---- Nonce: a non-empty string of ASCII digits, kept verbatim ---- *)
Definition nonce_valid (s : string) : bool := negb (String.eqb s "") && all_digits s.
Definition nonce_ser (s : string) : jv := JStr s.
(* strings, and non-negative integers (visit_u64 / visit_i64 / visit_u128 print the number);
   the byte-array form is not modelled: None' *)
Inductive dres (A : Type) := DOk (a : A) | DErr | DUnmodelled.
Arguments DOk {A} a. Arguments DErr {A}. Arguments DUnmodelled {A}.
Definition nonce_de (j : jv) : dres string :=
  match j with
  | JStr s => if nonce_valid s then DOk s else DErr
  | JNum z => if (0 <=? z)%Z then DOk (z_to_string z) else DErr
  | JArr _ => DUnmodelled
  | _ => DErr
  end.

(* ---- revocation list: a JSON array of 0 / 1 ---- *)
Definition bits_ser (b : list bool) : jv := JArr (map (fun x => JNum (if x : bool then 1 else 0)%Z) b).
Fixpoint bits_de_list (l : list jv) : option (list bool) :=
  match l with
  | [] => Some []
  | JNum z :: r => if (z =? 0)%Z then option_map (cons false) (bits_de_list r)
                   else if (z =? 1)%Z then option_map (cons true) (bits_de_list r) else None
  | _ => None
  end.
Definition bits_de (j : jv) : option (list bool) := match j with JArr l => bits_de_list l | _ => None end.

(* ---- presentation request: the version tag next to the payload fields ---- *)
Fixpoint jassoc (k : string) (m : list (string * jv)) : option jv :=
  match m with [] => None | (a, v) :: r => if String.eqb a k then Some v else jassoc k r end.
Definition ver_string (v2 : bool) : string := if v2 then "2.0" else "1.0".
(* serialisation inserts / overwrites "ver" in the payload object *)
Definition ver_ser (v2 : bool) (payload : list (string * jv)) : jv :=
  JObj (("ver", JStr (ver_string v2)) :: filter (fun kv => negb (String.eqb (fst kv) "ver")) payload).
Definition ver_de (j : jv) : option bool :=
  match j with
  | JObj m => match jassoc "ver" m with
              | None | Some JNull => Some false
              | Some (JStr s) => if String.eqb s "1.0" then Some false else if String.eqb s "2.0" then Some true else None
              | Some _ => None end
  | _ => None
  end.

(* ---- W3C proof values: [kind, payload], nothing after ---- *)
Inductive pkind := KSignature | KCredPresentation | KPresentation.
Definition pkind_tag (k : pkind) : Z := match k with KSignature => 1 | KCredPresentation => 2 | KPresentation => 3 end%Z.
Definition pvalue_ser (k : pkind) (payload : jv) : jv := JArr [JNum (pkind_tag k); payload].
Definition pvalue_de (j : jv) : option (pkind * jv) :=
  match j with
  | JArr [JNum t; p] => if (t =? 1)%Z then Some (KSignature, p) else if (t =? 2)%Z then Some (KCredPresentation, p)
                        else if (t =? 3)%Z then Some (KPresentation, p) else None
  | _ => None
  end.

(* ---- multibase: header 'u' then base64url of the msgpack bytes; the two inner codecs are oracles ---- *)
Section Multibase.
  Context {bytes : Type} (b64e : bytes -> string) (b64d : string -> option bytes).
  Definition multibase_ser (b : bytes) : string := String "u" (b64e b).
  Definition multibase_de (s : string) : option bytes :=
    match s with String a r => if Ascii.eqb a "u" then b64d r else None | EmptyString => None end.
End Multibase.
