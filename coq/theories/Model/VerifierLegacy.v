(* services/verifier.rs verify_presentation, stage by stage (DESIGN.md Appendix A.2), with the
   helpers of services/helpers.rs it uses. The flags of [vcfg] select, per repaired defect,
   between the behaviour before and after the corresponding fix commit. *)
From Coq Require Import List String Ascii ZArith NArith Bool.
From AV Require Import Model.Str Model.Encode Model.Query Model.VTypes Model.Interval Model.Eval Model.CL.
Import ListNotations.
Open Scope string_scope.
Open Scope list_scope.
Open Scope Z_scope.

Section Legacy.
  Context (cfg : vcfg).

  (* get_proof_identifier *)
  Definition get_ident (P : presentation) (i : Z) : res identifier := of_opt (nthZ (p_ids P) i).

  (* received_revealed_attrs / received_unrevealed_attrs / received_predicates *)
  Definition received (P : presentation)
    : res (list (string * identifier) * list (string * identifier) * list (string * identifier)) :=
    rv <- mapR (fun '(r, (i, _, _)) => id <- get_ident P i ;; ROk (r, id)) (rp_revealed (p_rp P)) ;;
    rg <- mapR (fun '(r, (i, _)) => id <- get_ident P i ;; ROk (r, id)) (rp_groups (p_rp P)) ;;
    un <- mapR (fun '(r, i) => id <- get_ident P i ;; ROk (r, id)) (rp_unrev (p_rp P)) ;;
    pr <- mapR (fun '(r, i) => id <- get_ident P i ;; ROk (r, id)) (rp_preds (p_rp P)) ;;
    (* HashMap insertion: a referent in both maps keeps the group entry (inserted last) *)
    ROk (rg ++ rv, un, pr).

  (* compare_attr_from_proof_and_request *)
  Definition compare_referents (R : request) (P : presentation) : res unit :=
    let rp := p_rp P in
    _ <- guard (set_eqb (keys (rq_attrs R))
                        (keys (rp_revealed rp) ++ keys (rp_groups rp) ++ keys (rp_unrev rp) ++ keys (rp_self rp))) ;;
    guard (set_eqb (keys (rq_preds R)) (keys (rp_preds rp))).

  (* verify_revealed_attribute_value *)
  Definition verify_value (name : string) (sp : subproof) (enc : string) : res unit :=
    match find (fun kv => String.eqb (cv name) (cv (fst kv))) (sp_revealed sp) with
    | Some (_, v) => guard (String.eqb (normalize_encoded enc) v)
    | None => RErr
    end.

  (* verify_revealed_attribute_values *)
  Definition check_revealed_values (R : request) (P : presentation) : res unit :=
    _ <- iter (fun '(r, (i, _, enc)) =>
          ai <- of_opt (assoc r (rq_attrs R)) ;; name <- of_opt (ai_name ai) ;;
          sp <- of_opt (nthZ (p_proofs P) i) ;; verify_value name sp enc)
          (rp_revealed (p_rp P)) ;;
    iter (fun '(r, (i, vals)) =>
          sp <- of_opt (nthZ (p_proofs P) i) ;; ai <- of_opt (assoc r (rq_attrs R)) ;; ns <- of_opt (ai_names ai) ;;
          _ <- guard (if f_group_keys cfg
                      then Nat.eqb (List.length vals) (List.length (dedup_s ns)) && forallb (fun kv => mem (fst kv) ns) vals
                      else Nat.eqb (List.length vals) (List.length ns)) ;;
          iter (fun n => v <- of_opt (assoc n vals) ;; verify_value n sp (snd v)) ns)
          (rp_groups (p_rp P)).

  (* is_self_attested *)
  Definition unrestricted (q : option query) : bool :=
    match q with None => true | Some (And []) | Some (Or []) => true | Some _ => false end.
  Definition is_self_attested (P : presentation) (r : string) (ai : attr_info) : bool :=
    unrestricted (ai_restr ai) && mem r (keys (rp_self (p_rp P))).

  (* gather_filter_info *)
  Definition gather_filter (cx : ctx) (id : identifier) : res filter :=
    sc <- of_opt (assoc (id_schema id) (cx_schemas cx)) ;; cd <- of_opt (assoc (id_creddef id) (cx_creddefs cx)) ;;
    _ <- guard (negb (f_bind_schema cfg) || String.eqb (cd_schema_id cd) (id_schema id)) ;;
    ROk {| f_schema_id := id_schema id; f_schema_issuer := sc_issuer sc; f_schema_name := sc_name sc;
           f_schema_version := sc_version sc; f_issuer := cd_issuer cd; f_cred_def_id := id_creddef id |}.

  (* verify_requested_restrictions *)
  Definition check_restrictions (R : request) (P : presentation) (cx : ctx)
             (attr_ids pred_ids : list (string * identifier)) : res unit :=
    let rp := p_rp P in
    let requested := List.filter (fun '(r, ai) => negb (is_self_attested P r ai)) (rq_attrs R) in
    let tags := flat_map (fun '(_, ai) => flat_map names (opt_list (ai_restr ai))) (rq_attrs R)
                ++ flat_map (fun '(_, pi) => flat_map names (opt_list (pi_restr pi))) (rq_preds R) in
    _ <- guard (negb (mem "issuer_id" tags && mem "issuer_did" tags)) ;;
    _ <- guard (negb (mem "schema_issuer_id" tags && mem "schema_issuer_did" tags)) ;;
    _ <- iter (fun '(r, ai) =>
          match ai_restr ai with
          | None => ROk tt
          | Some q =>
              id <- of_opt (assoc r attr_ids) ;; f <- gather_filter cx id ;;
              m <- match ai_name ai, ai_names ai with
                   | Some n, _ => ROk [(tagkey cfg n, option_map (fun x => snd (fst x)) (assoc r (rp_revealed rp)))]
                   | None, Some ns =>
                       match assoc r (rp_groups rp) with
                       | Some g => ROk (rev (map (fun n => (tagkey cfg n, option_map fst (assoc n (snd g)))) ns))
                       | None => if f_group_unrevealed cfg then ROk (map (fun n => (tagkey cfg n, None)) ns) else RErr
                       end
                   | None, None => RErr end ;;
              guard (eval cfg m f q)
          end) requested ;;
    iter (fun '(r, pi) =>
          match pi_restr pi with
          | None => ROk tt
          | Some q =>
              id <- of_opt (assoc r pred_ids) ;; f <- gather_filter cx id ;;
              idx <- of_opt_panic (assoc r (rp_preds rp)) ;;
              rv <- mapR (fun '(ar, (i, raw, _)) =>
                      if i =? idx then
                        match assoc ar requested with
                        | Some ai => ROk (match ai_name ai with Some n => [(tagkey cfg n, Some raw)] | None => [] end)
                        | None => if f_no_unwrap_panic cfg then ROk [] else RPanic    (* .unwrap() *)
                        end
                      else ROk []) (rp_revealed rp) ;;
              let gv := flat_map (fun '(_, (i, vals)) => if i =? idx then map (fun '(n, (raw, _)) => (tagkey cfg n, Some raw)) vals else []) (rp_groups rp) in
              (* HashMap inserts: later inserts win; lookups see the last binding, so put later ones first *)
              guard (eval cfg (rev gv ++ rev (List.concat rv) ++ [(tagkey cfg (pi_name pi), None)]) f q)
          end) (rq_preds R).

  (* build_revocation_registry_map *)
  Definition build_regmap (cx : ctx) : res (option (list (string * Z * N))) :=
    match cx_lists cx with
    | None => ROk None
    | Some ls => m <- mapR (fun '(id, ts, acc) => match id, ts, acc with Some i, Some t, Some a => ROk (i, t, a) | _, _, _ => RErr end) ls ;;
                 ROk (Some m)
    end.
  (* later lists with the same (id, timestamp) replace earlier ones *)
  Definition find_list (m : list (string * Z * N)) (id : string) (t : Z) : option N :=
    option_map snd (find (fun '(i, ts, _) => String.eqb i id && (ts =? t)) (rev m)).

  (* get_attributes_for_credential / get_predicates_for_credential + get_requested_attributes/predicates:
     the merged local interval of the referents served by sub-proof i *)
  Definition served_attr_refs (P : presentation) (i : Z) : list string :=
    let rp := p_rp P in
    map fst (List.filter (fun '(_, (j, _, _)) => j =? i) (rp_revealed rp))
    ++ map fst (List.filter (fun '(_, (j, _)) => j =? i) (rp_groups rp))
    ++ (if f_unrev_intervals cfg then map fst (List.filter (fun '(_, j) => j =? i) (rp_unrev rp)) else []).
  Definition served_pred_refs (P : presentation) (i : Z) : list string :=
    map fst (List.filter (fun '(_, j) => j =? i) (rp_preds (p_rp P))).
  Definition local_interval (R : request) (P : presentation) (i : Z) : res (option interval) :=
    ais <- mapR (fun r => of_opt (assoc r (rq_attrs R))) (served_attr_refs P i) ;;
    pis <- mapR (fun r => of_opt (assoc r (rq_preds R))) (served_pred_refs P i) ;;
    let a := fold_left (fun acc ai => merge_opt acc (ai_nr ai)) ais None in
    let p := fold_left (fun acc pi => merge_opt acc (pi_nr pi)) pis None in
    ROk (merge_opt a p).

  (* check_non_revoked_interval: Ok true = an interval applies to this credential (and is met) *)
  Definition interval_check (R : request) (cx : ctx) (cd : creddef) (local : option interval) (id : identifier) : res bool :=
    match cd_revkey cd with
    | None => ROk false
    | Some _ =>
        if f_gate_on_creddef cfg then
          (* the interval that applies does not depend on what the prover wrote into rev_reg_id *)
          let i := match local with Some l => Some l | None => rq_nr R end in
          match i with
          | None => ROk false
          | Some iv0 =>
              rid <- of_opt (id_revreg id) ;;
              t <- of_opt (id_ts id) ;;
              let iv := match cx_override cx with
                        | Some maps => match assoc rid maps with Some m => override m iv0 | None => iv0 end
                        | None => iv0 end in
              _ <- guard (is_valid iv t) ;;
              ROk true
          end
        else
          match requested_interval (id_revreg id) local (rq_nr R) (cx_override cx) with
          | None => ROk false
          | Some iv => t <- of_opt (id_ts id) ;; _ <- guard (is_valid iv t) ;; ROk false
          end
    end.
  (* require_non_revocation_proof *)
  Definition require_nrp (needed : bool) (sp : subproof) : res unit :=
    guard (negb (f_require_nrp cfg) || negb needed || match sp_nrp sp with Some _ => true | None => false end).
  Definition interval_applies (R : request) (cd : creddef) (local : option interval) : bool :=
    match cd_revkey cd with
    | None => false
    | Some _ => match local, rq_nr R with None, None => false | _, _ => true end
    end.

  (* CLProofVerifier::add_sub_proof / get_revocation_registry *)
  Definition add_sub_proof (cx : ctx) (regmap : option (list (string * Z * N))) (sp : subproof) (id : identifier)
    : res cl_sub :=
    sc <- of_opt (assoc (id_schema id) (cx_schemas cx)) ;;
    cd <- of_opt (assoc (id_creddef id) (cx_creddefs cx)) ;;
    reg <- match id_revreg id, id_ts id with
           | Some rid, Some t =>
               defs <- of_opt (cx_regdefs cx) ;; m <- of_opt regmap ;;
               rk <- of_opt (assoc rid defs) ;; acc <- of_opt (find_list m rid t) ;; ROk (Some (rk, acc))
           | _, _ => ROk None
           end ;;
    let attrs := map cv (sc_attrs sc) in
    _ <- guard (subset (keys (sp_revealed sp)) attrs) ;;
    _ <- guard (subset (map (fun p => fst (fst p)) (sp_preds sp)) attrs) ;;
    _ <- guard (negb (f_pred_range cfg) || negb (existsb pred_overflows (sp_preds sp))) ;;
    ROk (sp, cd_key cd, attrs, match cd_revkey cd with Some _ => reg | None => None end).

  (* requested predicates of the referents mapped to sub-proof i must be proven by it (fix of C01) *)
  Definition pred_eqb (a b : string * ptype * Z) : bool :=
    let '(n1, t1, v1) := a in let '(n2, t2, v2) := b in String.eqb n1 n2 && ptype_eqb t1 t2 && (v1 =? v2).
  Definition check_requested_preds (R : request) (P : presentation) (i : Z) (sp : subproof) : res unit :=
    if f_check_preds cfg then
      iter (fun r => pi <- of_opt (assoc r (rq_preds R)) ;;
                     guard (existsb (pred_eqb (cv (pi_name pi), pi_type pi, pi_value pi)) (sp_preds sp)))
           (served_pred_refs P i)
    else ROk tt.
  (* names of unrevealed referents must be attributes of the identifier's schema (fix of C01) *)
  Definition check_unrevealed_names (R : request) (P : presentation) (cx : ctx) (i : Z) (id : identifier) : res unit :=
    if f_unrev_in_schema cfg then
      sc <- of_opt (assoc (id_schema id) (cx_schemas cx)) ;;
      iter (fun '(r, j) =>
              if j =? i then
                ai <- of_opt (assoc r (rq_attrs R)) ;;
                guard (forallb (fun n => mem (cv n) (map cv (sc_attrs sc)))
                               (opt_list (ai_name ai) ++ match ai_names ai with Some ns => ns | None => [] end))
              else ROk tt) (rp_unrev (p_rp P))
    else ROk tt.

  Fixpoint loop_ids (R : request) (P : presentation) (cx : ctx) (regmap : option (list (string * Z * N)))
           (ids : list identifier) (i : Z) : res (list cl_sub) :=
    match ids with
    | [] => ROk []
    | id :: r =>
        local <- local_interval R P i ;;
        cd <- of_opt (assoc (id_creddef id) (cx_creddefs cx)) ;;
        needed <- interval_check R cx cd local id ;;
        sp <- (if f_no_index_panic cfg then of_opt (nthZ (p_proofs P) i) else of_opt_panic (nthZ (p_proofs P) i)) ;;
        _ <- require_nrp needed sp ;;
        _ <- check_requested_preds R P i sp ;;
        _ <- check_unrevealed_names R P cx i id ;;
        x <- add_sub_proof cx regmap sp id ;;
        xs <- loop_ids R P cx regmap r (i + 1) ;;
        ROk (x :: xs)
    end.

  Definition verify_legacy (R : request) (P : presentation) (cx : ctx) : outcome :=
    let r :=
      rc <- received P ;;
      let '(attr_rev, unrev, preds) := rc in
      _ <- compare_referents R P ;;
      _ <- check_revealed_values R P ;;
      (* HashMap collect over a chain: the later map wins a referent both have; fix: the revealed entries come last *)
      _ <- check_restrictions R P cx (if f_restr_revealed_first cfg then attr_rev ++ unrev else unrev ++ attr_rev) preds ;;
      regmap <- build_regmap cx ;;
      subs <- loop_ids R P cx regmap (p_ids P) 0 ;;
      (* ProofVerifier::verify checks the WHOLE proof list against the registered sub-proof requests *)
      _ <- guard (lenZ (p_proofs P) =? lenZ subs) ;;
      ROk subs in
    match r with
    | RErr => Err | RPanic => Panic
    | ROk subs => cl_verify (f_common_link cfg) subs (p_agg P) (rq_nonce R)
    end.
End Legacy.
