(* Holder-side properties as decidable predicates on one prover case:
   C07 (only attributes the holder chose to reveal are disclosed) and
   C04 (honest issue-hold-present-verify flows verify). *)
From Coq Require Import List String Ascii ZArith NArith Bool.
From AV Require Import Model.Str Model.Encode Model.Query Model.VTypes Model.Interval Model.Eval Model.CL
  Model.VerifierLegacy Model.VerifierW3C Model.VCfg Model.Prover.
Import ListNotations.
Open Scope string_scope.
Open Scope list_scope.
Open Scope Z_scope.

(* one prover case: request, the holder's context (schemas / credential definitions it passes),
   the holder's link secret, the selection and the self-attested values *)
Record pcase := { pc_req : request; pc_cx : ctx; pc_link : N; pc_sel : list present; pc_self : list (string * string) }.

Inductive pout := PLegacy (P : presentation) | PW3C (P : w3c_pres).

(* the entries that contribute a sub-proof, in sub-proof order *)
Definition nonempty (ps : list present) : list present := List.filter (fun p => negb (pr_empty p)) ps.

(* the holder marked a referent naming attribute [n] of this credential as revealed *)
Definition allowed (R : request) (p : present) (n : string) : bool :=
  existsb (fun '(r, reveal) => reveal && match assoc r (rq_attrs R) with
                                         | Some ai => existsb (fun m => String.eqb (cv m) (cv n)) (names_of ai)
                                         | None => false end) (pr_attrs p).
Definition allowed_at (R : request) (ps : list present) (k : Z) (n : string) : bool :=
  match nthZ (nonempty ps) k with Some p => allowed R p n | None => false end.

(* every (sub-proof index, attribute name) whose value a legacy presentation shows *)
Definition disclosed_legacy (R : request) (P : presentation) : list (Z * string) :=
  flat_map (fun '(r, (k, _, _)) => match assoc r (rq_attrs R) with
                                   | Some ai => map (fun n => (k, n)) (opt_list (ai_name ai))
                                   | None => [(k, "?")] end) (rp_revealed (p_rp P))
  ++ flat_map (fun '(_, (k, vals)) => map (fun '(n, _) => (k, n)) vals) (rp_groups (p_rp P))
  ++ List.concat (map (fun '(k, sp) => map (fun '(n, _) => (Z.of_nat k, n)) (sp_revealed sp))
                      (combine (seq 0 (List.length (p_proofs P))) (p_proofs P))).
(* W3C: String / Number subject entries and the revealed values of the sub-proof *)
Definition disclosed_w3c (P : w3c_pres) : list (Z * string) :=
  List.concat (map (fun '(k, c) =>
      flat_map (fun '(n, v) => match v with VBool _ => [] | _ => [(Z.of_nat k, n)] end) (wc_subject c)
      ++ match wc_pv c with Some (_, sp) => map (fun '(n, _) => (Z.of_nat k, n)) (sp_revealed sp) | None => [] end)
    (combine (seq 0 (List.length (wp_creds P))) (wp_creds P))).
Definition disclosed (R : request) (o : pout) : list (Z * string) :=
  match o with PLegacy P => disclosed_legacy R P | PW3C P => disclosed_w3c P end.

(* C07 on one produced presentation; [leaks] = (index, attribute) pairs whose raw or encoded value
   the harness found in the serialised document, [secrets] = kinds of secret material found in it *)
Definition ok_C07 (c : pcase) (o : pout) (leaks : list (Z * string)) (secrets : list string) : bool :=
  forallb (fun '(k, n) => allowed_at (pc_req c) (pc_sel c) k n) (disclosed (pc_req c) o ++ leaks)
  && match secrets with [] => true | _ => false end.

(* ---- C04: what "honest" means, decidably ---- *)
(* the credential was correctly issued under the credential definition the holder names, to this holder *)
Definition cred_honest (cx : ctx) (link : N) (c : hcred) : bool :=
  let s := hc_src c in
  negb (src_altered s) && N.eqb (src_cred_link s) link
  && match assoc (hc_creddef c) (cx_creddefs cx), assoc (hc_schema c) (cx_schemas cx) with
     | Some cd, Some sc =>
         N.eqb (cd_key cd) (src_key s) && String.eqb (cd_schema_id cd) (hc_schema c) && String.eqb (cd_issuer cd) (hc_issuer c)
         && set_eqb (src_attrs s) (map cv (sc_attrs sc))
         && Bool.eqb (is_some (cd_revkey cd)) (is_some (hc_revreg c))
     | _, _ => false end
  && values_agree (fed_legacy c) (src_values s)
  && match fed_w3c c with ROk f => values_agree f (src_values s) | _ => false end
  && nodup_str (map (fun kv => cv (fst kv)) (hc_values c)).

(* the selection covers the request: every attribute referent is served by exactly one selected
   credential or self-attested (only when unrestricted), every predicate referent is served *)
Definition sel_attr_refs (ps : list present) : list string := flat_map (fun p => map fst (pr_attrs p)) ps.
Definition coverage (c : pcase) : bool :=
  let R := pc_req c in
  set_eqb (keys (rq_attrs R)) (sel_attr_refs (pc_sel c) ++ keys (pc_self c))
  && nodup_str (sel_attr_refs (pc_sel c) ++ keys (pc_self c))
  && set_eqb (keys (rq_preds R)) (flat_map pr_preds (pc_sel c))
  && forallb (fun r => match assoc r (rq_attrs R) with Some ai => unrestricted (ai_restr ai) | None => false end) (keys (pc_self c))
  && nodup_str (keys (rq_attrs R)) && nodup_str (keys (rq_preds R))
  && forallb (fun '(_, ai) => match ai_name ai, ai_names ai with Some _, None => true | None, Some (_ :: _) => true | _, _ => false end) (rq_attrs R).

(* the intervals the verifier will apply to this entry: the legacy verifier (and the prover)
   collapse the local intervals of all referents served by the credential and fall back to the
   global one; the W3C verifier decides per referent (local, else global) *)
Definition entry_infos (R : request) (p : present) : list (option interval) :=
  flat_map (fun '(r, _) => match assoc r (rq_attrs R) with Some ai => [ai_nr ai] | None => [] end) (pr_attrs p)
  ++ flat_map (fun r => match assoc r (rq_preds R) with Some pi => [pi_nr pi] | None => [] end) (pr_preds p).
Definition entry_interval (R : request) (p : present) : option interval :=
  match fold_left merge_opt (entry_infos R p) None with Some l => Some l | None => rq_nr R end.
Definition entry_intervals_w3c (R : request) (p : present) : list interval :=
  flat_map (fun o => opt_list (match o with Some l => Some l | None => rq_nr R end)) (entry_infos R p).
Definition ovr_of (cx : ctx) (rid : string) (iv : interval) : interval :=
  match cx_override cx with
  | Some maps => match assoc rid maps with Some m => override m iv | None => iv end
  | None => iv end.
(* the revocation part of the selection is what the verifier needs: a timestamp for which it
   holds a status list, inside every interval that applies, with a witness valid for that list *)
Definition rev_ok (c : pcase) (demands : list interval) (p : present) : bool :=
  match hc_revreg (pr_cred p) with
  | None => negb (is_some (pr_ts p)) && negb (is_some (pr_state p))
  | Some rid =>
      match pr_ts p, pr_state p with
      | Some t, Some n =>
          match cx_regdefs (pc_cx c), build_regmap (pc_cx c) with
          | Some defs, ROk (Some m) =>
              match assoc rid defs, find_list m rid t with
              | Some rk, Some acc =>
                  match demands with
                  | [] => true
                  | _ => forallb (fun iv => is_valid (ovr_of (pc_cx c) rid iv) t) demands
                         && nrp_valid n && N.eqb (nrp_regkey n) rk && N.eqb (nrp_acc n) acc
                  end
              | _, _ => false end
          | _, _ => false end
      | None, None => match demands with [] => true | _ => false end
      | _, _ => false
      end
  end.
Definition rev_ok_legacy (c : pcase) (p : present) : bool := rev_ok c (opt_list (entry_interval (pc_req c) p)) p.
Definition rev_ok_w3c (c : pcase) (p : present) : bool := rev_ok c (entry_intervals_w3c (pc_req c) p) p.

(* restrictions, evaluated on the credential the holder picked (the semantics of C06) *)
Definition raw_of (c : hcred) (n : string) : option string := option_map fst (find_value c n).
Definition restr_met_legacy (cfg : vcfg) (c : pcase) (p : present) : bool :=
  match gather_filter cfg (pc_cx c) (ident_of p) with
  | ROk f =>
      let R := pc_req c in
      let shown := flat_map (fun '(r, reveal) =>
                     if reveal : bool then match assoc r (rq_attrs R) with
                                           | Some ai => map (fun n => (tagkey cfg n, raw_of (pr_cred p) n)) (names_of ai)
                                           | None => [] end else []) (pr_attrs p) in
      forallb (fun '(r, reveal) =>
        match assoc r (rq_attrs R) with
        | Some ai => match ai_restr ai with
                     | Some q => eval cfg (map (fun n => (tagkey cfg n, if reveal : bool then raw_of (pr_cred p) n else None)) (names_of ai)) f q
                     | None => true end
        | None => false end) (pr_attrs p)
      && forallb (fun r =>
        match assoc r (rq_preds R) with
        | Some pi => match pi_restr pi with
                     | Some q => eval cfg (shown ++ [(tagkey cfg (pi_name pi), None)]) f q
                     | None => true end
        | None => false end) (pr_preds p)
  | _ => false
  end.
Definition restr_met_w3c (cfg : vcfg) (c : pcase) (p : present) (subject : list (string * attr_value)) : bool :=
  match gather_filter cfg (pc_cx c) (ident_of p) with
  | ROk f =>
      let R := pc_req c in
      let m := flat_map (fun '(k, v) => match v with VBool _ => [] | _ => [(tagkey cfg k, Some (value_to_string v))] end) subject in
      forallb (fun '(r, _) => match assoc r (rq_attrs R) with
                              | Some ai => match ai_restr ai with Some q => eval cfg (rev m) f q | None => true end
                              | None => false end) (pr_attrs p)
      && forallb (fun r => match assoc r (rq_preds R) with
                           | Some pi => match pi_restr pi with Some q => eval cfg (rev m) f q | None => true end
                           | None => false end) (pr_preds p)
  | _ => false
  end.

(* every name a referent asks for - revealed or not - and every predicate's attribute is an attribute of the credential
   selected for it (the prover does not look at the names of an unrevealed referent; the verifier does) *)
Definition names_held (c : pcase) (p : present) : bool :=
  let held := src_attrs (hc_src (pr_cred p)) in
  forallb (fun '(r, _) => match assoc r (rq_attrs (pc_req c)) with
                          | Some ai => forallb (fun n => mem (cv n) held) (names_of ai)
                          | None => true end) (pr_attrs p)
  && forallb (fun r => match assoc r (rq_preds (pc_req c)) with
                       | Some pi => mem (cv (pi_name pi)) held
                       | None => true end) (pr_preds p).
Definition honest_common (c : pcase) : bool :=
  coverage c
  && forallb (fun p => cred_honest (pc_cx c) (pc_link c) (pr_cred p) && names_held c p) (nonempty (pc_sel c)).
Definition honest_legacy (cfg : vcfg) (c : pcase) : bool :=
  honest_common c && forallb (fun p => rev_ok_legacy c p && restr_met_legacy cfg c p) (nonempty (pc_sel c)).
Definition honest_w3c (cfg : vcfg) (pc : pcfg) (c : pcase) : bool :=
  honest_common c
  && match pc_self c with [] => true | _ => false end
  && forallb (fun p => rev_ok_w3c c p
                       && match build_subject pc (pc_req c) p with
                          | ROk s => restr_met_w3c cfg c p s
                          | _ => true end) (nonempty (pc_sel c)).

(* C04 on one case: an honest flow whose presentation the library built verifies *)
Definition ok_C04 (honest : bool) (created : bool) (v : option outcome) : bool :=
  negb (honest && created) || match v with Some o => is_accept o | None => false end.

(* the composed model: create, then verify what was created *)
Definition flow_legacy (cfg : vcfg) (pc : pcfg) (c : pcase) : option outcome :=
  match create_legacy pc (pc_req c) (pc_cx c) (pc_link c) (pc_sel c) (pc_self c) with
  | ROk P => Some (verify_legacy cfg (pc_req c) P (pc_cx c)) | _ => None end.
Definition flow_w3c (cfg : vcfg) (pc : pcfg) (c : pcase) : option outcome :=
  match create_w3c pc (pc_req c) (pc_cx c) (pc_link c) (pc_sel c) with
  | ROk P => Some (verify_w3c cfg (pc_req c) P (pc_cx c)) | _ => None end.

(* the class of honest cases the end-to-end theorem covers, as a decidable predicate: no
   restrictions, no non-revocation intervals, credentials of non-revocable definitions; any number
   of credentials, single attributes, groups, predicates, unrevealed and self-attested referents *)
Definition is_none {A} (o : option A) : bool := match o with None => true | Some _ => false end.
Definition plain_entry (c : pcase) (p : present) : bool :=
  cred_honest (pc_cx c) (pc_link c) (pr_cred p) && is_none (hc_revreg (pr_cred p))
  && forallb (fun '(r, b) => (b : bool) || match assoc r (rq_attrs (pc_req c)) with
                                           | Some ai => forallb (fun n => mem (cv n) (keys (fed_legacy (pr_cred p)))) (names_of ai)
                                           | None => true end) (pr_attrs p)
  && forallb (fun '(_, (_, e)) => String.eqb (normalize_encoded e) e) (hc_values (pr_cred p)).
Definition plain_b (c : pcase) : bool :=
  coverage c
  && forallb (plain_entry c) (nonempty (pc_sel c))
  && forallb (fun '(_, ai) => is_none (ai_restr ai) && is_none (ai_nr ai) && match ai_names ai with Some ns => nodup_str ns | None => true end) (rq_attrs (pc_req c))
  && forallb (fun '(_, pi) => is_none (pi_restr pi) && is_none (pi_nr pi)) (rq_preds (pc_req c))
  && is_none (rq_nr (pc_req c))
  && is_ok (build_regmap (pc_cx c)).

(* the class of honest W3C cases the end-to-end theorem C04_w3c_rev covers: any number of correctly issued credentials, of revocable or non-revocable definitions, held
   under the holder's link secret; non-revocation intervals on the request, its attributes and its predicates; timestamps
   and non-revocation states as rev_ok_w3c demands (a status list the verifier holds for the named timestamp, inside every
   interval that applies, the witness valid for it); single attributes and groups, revealed or not; predicates; unused
   credentials passed along; numbers in the subject within the 32-bit range; restrictions are hypotheses of the theorem *)
Definition subject_plain (s : list (string * attr_value)) : bool :=
  forallb (fun '(_, v) => match v with VNum z => in_i32 z | VStr _ => true | VBool _ => false end) s.
Definition w3c_rev_entry (c : pcase) (p : present) : bool :=
  cred_honest (pc_cx c) (pc_link c) (pr_cred p) && names_held c p && subject_plain (hc_subject (pr_cred p)) && rev_ok_w3c c p.
Definition w3c_rev_r (c : pcase) : bool :=
  coverage c
  && match pc_self c with [] => true | _ => false end
  && forallb (w3c_rev_entry c) (nonempty (pc_sel c))
  && is_ok (build_regmap (pc_cx c)).
(* ... and, decidably, without restrictions *)
Definition w3c_rev_b (c : pcase) : bool :=
  w3c_rev_r c
  && forallb (fun '(_, ai) => is_none (ai_restr ai)) (rq_attrs (pc_req c))
  && forallb (fun '(_, pi) => is_none (pi_restr pi)) (rq_preds (pc_req c)).
(* every selected credential's subject is plain *)
Definition subjects_plain (c : pcase) : bool := forallb (fun p => subject_plain (hc_subject (pr_cred p))) (nonempty (pc_sel c)).

(* the wider class: revocable credentials, non-revocation intervals at every level (request, attribute,
   predicate), timestamps and non-revocation states supplied as rev_ok_legacy demands; still no
   restrictions and no verifier-side override map *)
Definition u64_b (z : Z) : bool := (0 <=? z) && (z <=? u64max).
Definition wf_ivb (i : interval) : bool :=
  match ifrom i with Some f => u64_b f | None => true end && match ito i with Some t => u64_b t | None => true end.
Definition wf_optb (o : option interval) : bool := match o with Some i => wf_ivb i | None => true end.
Definition rev_entry (c : pcase) (p : present) : bool :=
  cred_honest (pc_cx c) (pc_link c) (pr_cred p) && rev_ok_legacy c p
  && match pr_ts p with Some t => u64_b t | None => true end
  && forallb (fun '(r, b) => (b : bool) || match assoc r (rq_attrs (pc_req c)) with
                                           | Some ai => forallb (fun n => mem (cv n) (keys (fed_legacy (pr_cred p)))) (names_of ai)
                                           | None => true end) (pr_attrs p)
  && forallb (fun '(_, (_, e)) => String.eqb (normalize_encoded e) e) (hc_values (pr_cred p)).
Definition rev_b (c : pcase) : bool :=
  coverage c
  && forallb (rev_entry c) (nonempty (pc_sel c))
  && forallb (fun '(_, ai) => is_none (ai_restr ai) && wf_optb (ai_nr ai) && match ai_names ai with Some ns => nodup_str ns | None => true end) (rq_attrs (pc_req c))
  && forallb (fun '(_, pi) => is_none (pi_restr pi) && wf_optb (pi_nr pi)) (rq_preds (pc_req c))
  && is_none (cx_override (pc_cx c))
  && is_ok (build_regmap (pc_cx c)).
