(* Shared types of the verifier / prover models (DESIGN.md Appendix A): result monad with a
   first-class Panic outcome, association lists, requests, abstract sub-proofs with provenance,
   presentations (legacy and W3C), verifier context, and the configuration flags that say which
   repaired behaviours the CURRENT code has. *)
From Coq Require Import List String Ascii ZArith NArith Bool.
From AV Require Import Model.Str Model.Query.
Import ListNotations.
Open Scope string_scope.
Open Scope list_scope.
Open Scope Z_scope.

Inductive res (A : Type) := ROk (a : A) | RErr | RPanic.
Arguments ROk {A} a. Arguments RErr {A}. Arguments RPanic {A}.
Definition bind {A B} (x : res A) (f : A -> res B) : res B :=
  match x with ROk a => f a | RErr => RErr | RPanic => RPanic end.
Notation "x <- e ;; k" := (bind e (fun x => k)) (at level 61, e at next level, right associativity).
Definition of_opt {A} (o : option A) : res A := match o with Some a => ROk a | None => RErr end.
Definition of_opt_panic {A} (o : option A) : res A := match o with Some a => ROk a | None => RPanic end.
Definition guard (b : bool) : res unit := if b then ROk tt else RErr.
Definition is_ok {A} (r : res A) : bool := match r with ROk _ => true | _ => false end.
Section Iter.
  Context {A : Type} (f : A -> res unit).
  Fixpoint iter (l : list A) : res unit := match l with [] => ROk tt | x :: r => _ <- f x ;; iter r end.
End Iter.
Section MapR.
  Context {A B : Type} (f : A -> res B).
  Fixpoint mapR (l : list A) : res (list B) :=
    match l with [] => ROk [] | x :: r => y <- f x ;; ys <- mapR r ;; ROk (y :: ys) end.
End MapR.

Fixpoint assoc {V} (k : string) (m : list (string * V)) : option V :=
  match m with [] => None | (a, v) :: r => if String.eqb a k then Some v else assoc k r end.
Fixpoint nthZ {A} (l : list A) (i : Z) : option A :=
  match l with [] => None | x :: r => if i =? 0 then Some x else if i <? 0 then None else nthZ r (i - 1) end.
Definition keys {V} (m : list (string * V)) : list string := map fst m.
Definition mem (s : string) (l : list string) : bool := existsb (String.eqb s) l.
Definition subset (a b : list string) : bool := forallb (fun x => mem x b) a.
Definition set_eqb (a b : list string) : bool := subset a b && subset b a.
Fixpoint dedup_s (l : list string) : list string :=
  match l with [] => [] | x :: r => if mem x r then dedup_s r else x :: dedup_s r end.
Definition opt_list {A} (o : option A) : list A := match o with Some a => [a] | None => [] end.
Definition lenZ {A} (l : list A) : Z := Z.of_nat (List.length l).

(* ---- requests (data_types/pres_request.rs) ---- *)
Record interval := { ifrom : option Z; ito : option Z }.
Inductive ptype := GE | LE | GT | LT.
Definition ptype_eqb (a b : ptype) : bool := match a, b with GE, GE | LE, LE | GT, GT | LT, LT => true | _, _ => false end.
Record attr_info := { ai_name : option string; ai_names : option (list string); ai_restr : option query; ai_nr : option interval }.
Definition names_of (ai : attr_info) : list string :=
  opt_list (ai_name ai) ++ match ai_names ai with Some ns => ns | None => [] end.
Record pred_info := { pi_name : string; pi_type : ptype; pi_value : Z; pi_restr : option query; pi_nr : option interval }.
Record request := { rq_nonce : N; rq_attrs : list (string * attr_info); rq_preds : list (string * pred_info); rq_nr : option interval }.

(* ---- abstract CL sub-proofs with provenance (DESIGN.md 3.3) ---- *)
Record source := { src_key : N;                           (* key that signed the credential *)
                   src_attrs : list string;                (* normalised attribute set of the signed credential *)
                   src_values : list (string * string);    (* normalised name |-> encoded, as signed *)
                   src_cred_link : N; src_used_link : N;   (* link secret issued to / fed into the proof *)
                   src_pos : Z;                            (* position among the sub-proofs when the proof was finalised *)
                   src_altered : bool }.
Record nrp := { nrp_regkey : N; nrp_acc : N; nrp_valid : bool }.
Record subproof := { sp_revealed : list (string * string); sp_preds : list (string * ptype * Z);
                     sp_nrp : option nrp; sp_src : source }.
Record agg := { ag_nonce : N; ag_count : Z; ag_altered : bool; ag_common : bool }.

(* ---- legacy presentation (data_types/presentation.rs) ---- *)
Record identifier := { id_schema : string; id_creddef : string; id_revreg : option string; id_ts : option Z }.
Record req_proof := { rp_revealed : list (string * (Z * string * string));
                      rp_groups : list (string * (Z * list (string * (string * string))));
                      rp_self : list (string * string);
                      rp_unrev : list (string * Z);
                      rp_preds : list (string * Z) }.
Record presentation := { p_proofs : list subproof; p_agg : agg; p_rp : req_proof; p_ids : list identifier }.

(* ---- W3C presentation (data_types/w3c) ---- *)
Inductive attr_value := VStr (s : string) | VNum (z : Z) | VBool (b : bool).
Record w3c_cred := { wc_issuer : string; wc_subject : list (string * attr_value); wc_method : string;
                     wc_pv : option (identifier * subproof) }.
Record w3c_pres := { wp_shape_ok : bool; wp_creds : list w3c_cred; wp_agg : option agg }.

(* ---- verifier context ---- *)
Record schema := { sc_name : string; sc_version : string; sc_issuer : string; sc_attrs : list string }.
Record creddef := { cd_schema_id : string; cd_issuer : string; cd_key : N; cd_revkey : option N }.
Record ctx := { cx_schemas : list (string * schema); cx_creddefs : list (string * creddef);
                cx_regdefs : option (list (string * N));
                cx_lists : option (list (option string * option Z * option N));
                cx_override : option (list (string * list (Z * Z))) }.

Inductive outcome := Accept | Reject | Err | Panic.
Definition is_accept (o : outcome) : bool := match o with Accept => true | _ => false end.
Definition outcome_eqb (a b : outcome) : bool :=
  match a, b with Accept, Accept | Reject, Reject | Err, Err | Panic, Panic => true | _, _ => false end.

(* ---- which repaired behaviours the code has (true = repaired); see Model/VCfg.v ---- *)
Record vcfg := {
  f_check_preds : bool;        (* legacy: every requested predicate must be in the mapped sub-proof *)
  f_unrev_in_schema : bool;    (* legacy: an unrevealed referent's names must be attributes of the identifier's schema *)
  f_unrev_intervals : bool;    (* intervals of unrevealed referents are collected *)
  f_gate_on_creddef : bool;    (* interval check gated on the credential definition, not on the prover's rev_reg_id *)
  f_require_nrp : bool;        (* an applying interval requires a non-revocation proof inside the sub-proof *)
  f_w3c_strict_subject : bool; (* W3C: subject String/Number entries = the sub-proof's revealed values *)
  f_common_link : bool;        (* verifier registers master_secret as common attribute *)
  f_bind_schema : bool;        (* identifier.schema_id must be the credential definition's schema *)
  f_w3c_norm_keys : bool;      (* W3C restriction value map keyed by normalised names *)
  f_marker : bool;             (* attr::n::marker never compared as a value *)
  f_no_index_panic : bool;     (* proofs[i] is bounds-checked *)
  f_no_unwrap_panic : bool;    (* requested_attrs.get(..).unwrap() replaced by an error *)
  f_pred_range : bool;         (* predicates whose threshold overflows i32 in the crate are refused *)
  f_w3c_pred_cv : bool;        (* W3C predicate names compared normalised *)
  f_group_unrevealed : bool;   (* legacy: a restricted group referent may be unrevealed *)
  f_group_keys : bool;         (* legacy: a revealed group shows exactly the requested names *)
  f_w3c_nrp_search : bool;     (* W3C: a credential lacking a required non-revocation proof serves a request only as a last resort *)
  f_restr_revealed_first : bool  (* legacy: a referent listed as revealed AND unrevealed is restricted through the credential that reveals it *)
}.
