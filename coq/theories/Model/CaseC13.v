(* C13 case checker: the property, as a decidable predicate on one case.
   Case: (x<input> ((site x<out> | site !)...) x<normalize_encoded_attr(input)>)
   ok_C13 holds iff every site returned exactly [encode input] (an error or panic at a
   site is a violation: the encoding is total) and normalisation agrees with the model. *)
From Coq Require Import List String Ascii ZArith NArith Bool.
From AV Require Import Model.Sexp Model.Str Model.Encode.
Import ListNotations.
Open Scope string_scope.

Definition dec_site (e : sexp) : option (string * option string) :=
  match e with
  | L [A name; A "!"] => Some (name, None)
  | L [A name; v] => option_map (fun s => (name, Some s)) (dec_str v)
  | _ => None
  end.

Definition ok_C13 (input : string) (outs : list (string * option string)) : bool :=
  let m := encode input in
  match outs with
  | [] => false
  | _ => forallb (fun o => match snd o with Some v => v =s? m | None => false end) outs
  end.

Definition check_C13 (args : list sexp) : list sexp :=
  match args with
  | [inp; outs; norm] =>
      match dec_str inp, dec_list dec_site outs, dec_str norm with
      | Some s, Some os, Some nm =>
          let good := ok_C13 s os && (nm =s? normalize_encoded s) in
          [A (if good then "ok" else "bad");
           A (match parse_i32 s with Some _ => "numeric" | None => "hashed" end)]
      | _, _, _ => [A "decode-error"]
      end
  | _ => [A "decode-error"]
  end.
