(* The FFI object store (C18): ffi/object.rs FFI_OBJECTS (a mutex-guarded map from handles to
   reference-counted objects) and utils/macros.rs FFI_OBJECT_COUNTER (an atomic sequence), as a
   machine of ATOMIC steps run under an arbitrary schedule:
     create  = handle := fetch_add(1) + 1 ; then, in a second step, lock; insert; unlock
     load    = lock; get; clone the Arc; unlock      (the type check happens on the clone)
     remove  = lock; remove; unlock
   and the sequential specification it is compared with: a map with a nondeterministic fresh handle. *)
From Coq Require Import List Arith Bool Lia.
Import ListNotations.


(* ffi/object.rs: FFI_OBJECT_COUNTER (atomic), FFI_OBJECTS (Mutex<BTreeMap>) *)
Record obj := { oty : nat; oval : nat }.
Inductive op := Create (o : obj) | Load (h : nat) (ty : nat) | Remove (h : nat).
Inductive res :=
| RH (h : nat)                          (* create returned handle h *)
| RL (r : option (option obj))          (* None: invalid handle; Some None: wrong type; Some (Some o) *)
| RR (b : bool).                        (* remove: was present *)

Fixpoint lookup (m : list (nat * obj)) (h : nat) : option obj :=
  match m with [] => None | (k, o) :: r => if Nat.eqb k h then Some o else lookup r h end.
Fixpoint del (m : list (nat * obj)) (h : nat) : list (nat * obj) :=
  match m with [] => [] | (k, o) :: r => if Nat.eqb k h then del r h else (k, o) :: del r h end.
Definition load_res (m : list (nat * obj)) (h ty : nat) : res :=
  RL (match lookup m h with None => None | Some o => Some (if Nat.eqb (oty o) ty then Some o else None) end).
Definition rem_res (m : list (nat * obj)) (h : nat) : res :=
  RR (match lookup m h with Some _ => true | None => false end).

(* ---- sequential specification: a map with a NONDETERMINISTIC fresh handle ---- *)
Record sstate := { issued : list nat; smap : list (nat * obj) }.
Definition s0 := {| issued := []; smap := [] |}.
Inductive spec_step : sstate -> op * res -> sstate -> Prop :=
| SCreate s o h : h <> 0 -> ~ In h (issued s) ->
    spec_step s (Create o, RH h) {| issued := h :: issued s; smap := (h, o) :: smap s |}
| SLoad s h ty : spec_step s (Load h ty, load_res (smap s) h ty) s
| SRemove s h : spec_step s (Remove h, rem_res (smap s) h) {| issued := issued s; smap := del (smap s) h |}.
Inductive spec_run : sstate -> list (nat * (op * res)) -> sstate -> Prop :=
| RNil s : spec_run s [] s
| RSnoc s l s1 tid e s2 : spec_run s l s1 -> spec_step s1 e s2 -> spec_run s (l ++ [(tid, e)]) s2.

(* ---- implementation: threads, atomic steps, schedules ---- *)
Record thread := { todo : list op; pend : option (nat * obj); results : list res }.
Record cfg := { ctr : nat; store : list (nat * obj); thr : nat -> thread; lin : list (nat * (op * res)) }.
Definition upd (f : nat -> thread) (tid : nat) (t : thread) : nat -> thread := fun x => if Nat.eqb x tid then t else f x.

Definition step (c : cfg) (tid : nat) : cfg :=
  let t := thr c tid in
  match pend t with
  | Some (h, o) =>       (* second half of create: lock; insert; unlock  -- linearisation point *)
      {| ctr := ctr c; store := (h, o) :: store c;
         thr := upd (thr c) tid {| todo := todo t; pend := None; results := results t ++ [RH h] |};
         lin := lin c ++ [(tid, (Create o, RH h))] |}
  | None =>
      match todo t with
      | [] => c
      | Create o :: r =>   (* first half: handle = fetch_add(1) + 1 *)
          {| ctr := S (ctr c); store := store c;
             thr := upd (thr c) tid {| todo := r; pend := Some (S (ctr c), o); results := results t |};
             lin := lin c |}
      | Load h ty :: r =>  (* lock; get; clone Arc; unlock -- linearisation point; type check on the clone *)
          let x := load_res (store c) h ty in
          {| ctr := ctr c; store := store c;
             thr := upd (thr c) tid {| todo := r; pend := None; results := results t ++ [x] |};
             lin := lin c ++ [(tid, (Load h ty, x))] |}
      | Remove h :: r =>
          let x := rem_res (store c) h in
          {| ctr := ctr c; store := del (store c) h;
             thr := upd (thr c) tid {| todo := r; pend := None; results := results t ++ [x] |};
             lin := lin c ++ [(tid, (Remove h, x))] |}
      end
  end.

Definition init (progs : nat -> list op) : cfg :=
  {| ctr := 0; store := []; thr := fun tid => {| todo := progs tid; pend := None; results := [] |}; lin := [] |}.
Definition run (c : cfg) (sched : list nat) : cfg := fold_left step sched c.

