(* Verification cases (C01 C02 C03 C05 C06 C08 C12):
   (V <L|W> <request> <presentation> <ctx> <implementation outcome> <base verdict opt>) *)
From Coq Require Import List String Ascii ZArith NArith Bool.
From AV Require Import Model.Sexp Model.Query Model.VTypes Model.Interval Model.VDecode Model.VCfg Model.VProps.
Import ListNotations.
Open Scope string_scope.

Definition dec_vcase (fmt r p cx : sexp) : option vcase :=
  match fmt with
  | A "L" => match dec_request r, dec_presentation p, dec_ctx cx with
             | Some r', Some p', Some cx' => Some (CLegacy r' p' cx') | _, _, _ => None end
  | A "W" => match dec_request r, dec_w3c_pres p, dec_ctx cx with
             | Some r', Some p', Some cx' => Some (CW3C r' p' cx') | _, _, _ => None end
  | _ => None
  end.

Definition outcome_tag (o : outcome) : string :=
  match o with Accept => "accept" | Reject => "reject" | Err => "err" | Panic => "panic" end.

(* correspondence: implementation and model agree on acceptance; an implementation panic is one
   the model predicts *)
Definition rel_V (impl model : outcome) : bool :=
  Bool.eqb (is_accept impl) (is_accept model)
  && (negb (outcome_eqb impl Panic) || outcome_eqb model Panic).

Definition ok_V (p : string) (c : vcase) (base : option bool) (o : outcome) : option bool :=
  if p =? "C01" then Some (ok_C01 c o)
  else if p =? "C02" then Some (ok_C02 c o)
  else if p =? "C03" then Some (ok_C03 c o)
  else if p =? "C05" then Some (ok_C05 c o)
  else if p =? "C12" then Some (ok_C12 o)
  else if p =? "C06" then match base with Some b => Some (ok_C06 c b o) | None => Some (ok_C06 c false o) end
  else if p =? "C08" then match base with Some b => Some (ok_C08 c b o) | None => None end
  else None.

(* unit-level cases of the interval functions (C08):
   (M a b merged) compare_and_set ; (O iv ((from to)...) result) update_with_override ;
   (T iv t ok) is_valid ; (G revreg-opt local-opt global-opt override-opt result-opt) get_requested_non_revoked_interval *)
Definition interval_eqb (a b : interval) : bool :=
  let oeq x y := match x, y with Some u, Some v => Z.eqb u v | None, None => true | _, _ => false end in
  oeq (ifrom a) (ifrom b) && oeq (ito a) (ito b).
Definition opt_interval_eqb (a b : option interval) : bool :=
  match a, b with Some x, Some y => interval_eqb x y | None, None => true | _, _ => false end.
Definition check_interval_unit (args : list sexp) : option (list sexp) :=
  match args with
  | [A "M"; a; b; r] =>
      match dec_interval a, dec_interval b, dec_interval r with
      | Some a', Some b', Some r' => Some [A (if interval_eqb (merge a' b') r' then "ok" else "bad"); A "unit:compare_and_set"]
      | _, _, _ => None end
  | [A "O"; i; m; r] =>
      match dec_interval i, dec_list (dec_pair dec_Z dec_Z) m, dec_interval r with
      | Some i', Some m', Some r' => Some [A (if interval_eqb (override m' i') r' then "ok" else "bad"); A "unit:update_with_override"]
      | _, _, _ => None end
  | [A "T"; i; t; ok] =>
      match dec_interval i, dec_Z t, dec_bool ok with
      | Some i', Some t', Some ok' => Some [A (if Bool.eqb (is_valid i' t') ok' then "ok" else "bad"); A "unit:is_valid"]
      | _, _, _ => None end
  | [A "G"; rr; l; g; ov; r] =>
      match dec_opt dec_str rr, dec_opt dec_interval l, dec_opt dec_interval g,
            dec_opt (dec_list (dec_pair dec_str (dec_list (dec_pair dec_Z dec_Z)))) ov, dec_opt dec_interval r with
      | Some rr', Some l', Some g', Some ov', Some r' =>
          Some [A (if opt_interval_eqb (requested_interval rr' l' g' ov') r' then "ok" else "bad"); A "unit:get_requested_non_revoked_interval"]
      | _, _, _, _, _ => None end
  | _ => None
  end.

(* parser half of C12 (testing, not proof): (D type mutation n outcome site input);
   the specification is "Ok or Err": a panic is a violation, reported in the class of its site *)
(* the crate a panic location lies in: the text before the first '/' ("" for the standard library) *)
Fixpoint crate_of (s : string) : string :=
  match s with
  | EmptyString => EmptyString
  | String a r => if Ascii.eqb a "/"%char then EmptyString else String a (crate_of r)
  end.
Definition check_parser_unit (args : list sexp) : option (list sexp) :=
  match args with
  | [A "D"; ty; kind; _; A o; site; _] =>
      match dec_str ty, dec_str site with
      | Some ty', Some site' =>
          if (o =? "ok") || (o =? "err") then Some [A "ok"; A ("parser:" ++ o)]
          else if o =? "panic" then Some [A ("known:parser-panic:" ++ crate_of site'); A "parser:panic"; A ("type:" ++ ty'); A ("site:" ++ site')]
          else Some [A "bad"; A ("parser:" ++ o); A ("type:" ++ ty')]
      | _, _ => None end
  | _ => None
  end.

(* (NB class): an honest selection for which the library's prover built no presentation at all - the property at hand is
   not violated by that, but model and implementation no longer agree on the case (reported without a failing input) *)
Definition check_not_built (args : list sexp) : option (list sexp) :=
  match args with
  | [A "NB"; cls] => match dec_str cls with Some c => Some [A "rel"; A "honest-presentation-not-built"] | None => None end
  | _ => None
  end.

Definition check_V (p : string) (args : list sexp) : list sexp :=
  match check_not_built args with Some v => v | None =>
  match check_parser_unit args with Some v => v | None =>
  match check_interval_unit args with Some v => v | None =>
  match args with
  | [A "V"; fmt; r; pr; cx; impl; base] =>
      match dec_vcase fmt r pr cx, dec_outcome impl, dec_opt dec_bool base with
      | Some c, Some o, Some b =>
          let m := run_model cfg_current c in
          if negb (case_wf1 c) then [A "decode-error"; A "case-not-wellformed"] else
          match ok_V p c b o with
          | Some okv =>
              [A (if okv then (if rel_V o m then "ok" else "rel")
                  else if (p =? "C06") && mixed_legacy_tags c && negb (is_accept o) then "known:c06-legacy-mixed-id-did-tags" else "bad");
               A ("impl:" ++ outcome_tag o); A ("model:" ++ outcome_tag m);
               A (match c with CLegacy _ _ _ => "fmt:legacy" | CW3C _ _ _ => "fmt:w3c" end)]
          | None => [A "decode-error"]
          end
      | _, _, _ => [A "decode-error"]
      end
  | _ => [A "decode-error"]
  end end end end.
