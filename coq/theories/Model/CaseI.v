(* Issuance and conversion cases (C11, C14). *)
From Coq Require Import List String ZArith NArith Bool.
From AV Require Import Model.Sexp Model.VTypes Model.VDecode Model.Prover Model.Issuance Model.CaseV Model.CaseP.
Import ListNotations.
Open Scope string_scope.

Definition dec_ok (e : sexp) : option bool :=
  match e with A "ok" => Some true | A "err" => Some false | _ => None end.
Definition tag_ok (b : bool) : string := if b then "ok" else "err".
Definition dec_ss := dec_list (dec_pair dec_str dec_str).

Definition dec_ioffer (e : sexp) : option ioffer :=
  match e with L [k; n] => match dec_N k, dec_N n with Some k', Some n' => Some {| io_key := k'; io_nonce := n' |} | _, _ => None end | _ => None end.
Definition dec_ireq (e : sexp) : option ireq :=
  match e with
  | L [k; l; b; o; n; a] =>
      match dec_N k, dec_N l, dec_N b, dec_N o, dec_N n, dec_bool a with
      | Some k', Some l', Some b', Some o', Some n', Some a' =>
          Some {| ir_key := k'; ir_link := l'; ir_blinding := b'; ir_offer_nonce := o'; ir_nonce := n'; ir_altered := a' |}
      | _, _, _, _, _, _ => None end
  | _ => None end.
Definition dec_isig (e : sexp) : option isig :=
  match e with
  | L [k; vs; l; b; n; a] =>
      match dec_N k, dec_ss vs, dec_N l, dec_N b, dec_N n, dec_bool a with
      | Some k', Some vs', Some l', Some b', Some n', Some a' =>
          Some {| is_key := k'; is_values := vs'; is_link := l'; is_blinding := b'; is_nonce := n'; is_altered := a' |}
      | _, _, _, _, _, _ => None end
  | _ => None end.

Definition verdict (okv relv : bool) (tags : list sexp) : list sexp :=
  A (if okv then (if relv then "ok" else "rel") else "bad") :: tags.

Definition check_C11 (args : list sexp) : list sexp :=
  match args with
  | [A "R"; cd; o; impl] =>
      match dec_N cd, dec_ioffer o, dec_ok impl with
      | Some cd', Some o', Some i =>
          let m := is_ok (make_request cd' o' 0 0 0) in
          verdict (Bool.eqb i m) true [A "op:request"; A ("impl:" ++ tag_ok i); A ("model:" ++ tag_ok m)]
      | _, _, _ => [A "decode-error"] end
  | [A "I"; L [kid; attrs]; o; r; names; impl] =>
      match dec_N kid, dec_list dec_str attrs, dec_ioffer o, dec_ireq r, dec_list dec_str names, dec_ok impl with
      | Some kid', Some attrs', Some o', Some r', Some names', Some i =>
          let m := is_ok (issue {| ik_id := kid'; ik_attrs := attrs' |} o' r' (map (fun n => (n, "")) names')) in
          verdict (Bool.eqb i m) true [A "op:issue"; A ("impl:" ++ tag_ok i); A ("model:" ++ tag_ok m)]
      | _, _, _, _, _, _ => [A "decode-error"] end
  | [A "P"; s; fed; cd; link; mb; mn; impl; vo] =>
      match dec_isig s, dec_ss fed, dec_N cd, dec_N link, dec_N mb, dec_N mn, dec_ok impl, dec_opt dec_outcome vo with
      | Some s', Some fed', Some cd', Some link', Some mb', Some mn', Some i, Some vo' =>
          let m := is_ok (process s' fed' cd' link' mb' mn') in
          let vok := match vo' with Some o => is_accept o | None => true end in
          verdict (Bool.eqb i m && (negb i || vok)) true
                  [A "op:process"; A ("impl:" ++ tag_ok i); A ("model:" ++ tag_ok m);
                   A ("verify:" ++ match vo' with Some o => outcome_tag o | None => "none" end)]
      | _, _, _, _, _, _, _, _ => [A "decode-error"] end
  | _ => [A "decode-error"]
  end.

(* ---- C14 ---- *)
Definition dec_vals := dec_list (dec_pair dec_str (dec_pair dec_str dec_str)).
Definition dec_subj := dec_list (dec_pair dec_str dec_attr_value).
Definition vals_eqb (a b : list (string * (string * string))) : bool := map_eqb pair_ss_eqb a b.
Definition check_C14 (args : list sexp) : list sexp :=
  match args with
  | [A "T"; vals; valid; impl] =>
      (* credential_to_w3c on a legacy credential whose rest is valid or not *)
      match dec_vals vals, dec_bool valid, impl with
      | Some vals', Some valid', L [A "ok"; s] =>
          match dec_subj s with
          | Some s' => verdict (valid' && map_eqb attr_value_eqb (to_subject vals') s') true [A "op:to_w3c"; A "impl:ok"]
          | None => [A "decode-error"] end
      | Some vals', Some valid', L [A "err"] => verdict (negb valid') true [A "op:to_w3c"; A "impl:err"]
      | _, _, _ => [A "decode-error"] end
  | [A "F"; shape; subj; impl] =>
      match dec_bool shape, dec_subj subj, impl with
      | Some sh, Some s', L [A "ok"; v] =>
          match dec_vals v, from_subject s' with
          | Some v', ROk mv => verdict (sh && vals_eqb mv v') true [A "op:from_w3c"; A "impl:ok"; A "model:ok"]
          | Some _, _ => verdict false true [A "op:from_w3c"; A "impl:ok"; A "model:err"]
          | None, _ => [A "decode-error"] end
      | Some sh, Some s', L [A "err"] =>
          verdict (negb (sh && is_ok (from_subject s'))) true [A "op:from_w3c"; A "impl:err"]
      | _, _, _ => [A "decode-error"] end
  | [A "RT"; dir; before; after; same_ids; same_sig; same_rev; v1; v2] =>
      (* a round trip through the other form: encoded values and everything else preserved, both forms verify *)
      match dec_ss before, dec_ss after, dec_bool same_ids, dec_bool same_sig, dec_bool same_rev, dec_opt dec_outcome v1, dec_opt dec_outcome v2 with
      | Some b, Some a, Some i, Some s, Some r, Some o1, Some o2 =>
          let acc o := match o with Some x => is_accept x | None => true end in
          (* known finding: every attribute is revealed; a negative encoded value loses its sign in the W3C presentation *)
          if map_eqb String.eqb b a && i && s && r && acc o1 && negb (acc o2) && existsb (fun kv => is_negative (snd kv)) b
          then [A "known:w3c-negative-revealed"; A "op:roundtrip"; dir] else
          verdict (map_eqb String.eqb b a && i && s && r && acc o1 && acc o2) true
                  [A "op:roundtrip"; dir; A ("verify-legacy:" ++ match o1 with Some x => outcome_tag x | None => "none" end);
                   A ("verify-w3c:" ++ match o2 with Some x => outcome_tag x | None => "none" end)]
      | _, _, _, _, _, _, _ => [A "decode-error"] end
  | _ => [A "decode-error"]
  end.
