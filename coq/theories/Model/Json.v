(* JSON values as serde_json::Value presents them (objects: key-sorted association lists
   without duplicates, which is what serde_json's BTreeMap-backed Map iterates). *)
From Coq Require Import List String ZArith Bool.
From AV Require Import Model.Sexp.
Import ListNotations.
Open Scope string_scope.

Inductive jv :=
| JNull | JBool (b : bool) | JNum (z : Z) | JFloat | JStr (s : string)
| JArr (l : list jv) | JObj (m : list (string * jv)).

Definition is_obj (j : jv) : bool := match j with JObj _ => true | _ => false end.
Definition is_null (j : jv) : bool := match j with JNull => true | _ => false end.
Definition as_str (j : jv) : option string := match j with JStr s => Some s | _ => None end.

(* case format: (n) (b t|f) (i <int>) (f) (s x..) (a v...) (o (xkey v)...) *)
Definition dec_kv (rec : sexp -> option jv) (e : sexp) : option (string * jv) :=
  match e with
  | L [k; v] => match dec_str k, rec v with Some k', Some v' => Some (k', v') | _, _ => None end
  | _ => None
  end.

Fixpoint dec_json (e : sexp) : option jv :=
  match e with
  | L [A "n"] => Some JNull
  | L [A "b"; b] => option_map JBool (dec_bool b)
  | L [A "i"; z] => option_map JNum (dec_Z z)
  | L [A "f"] => Some JFloat
  | L [A "s"; s] => option_map JStr (dec_str s)
  | L (A "a" :: vs) => option_map JArr (mapM dec_json vs)
  | L (A "o" :: kvs) => option_map JObj (mapM (dec_kv dec_json) kvs)
  | _ => None
  end.

Fixpoint jv_eqb (a b : jv) {struct a} : bool :=
  match a, b with
  | JNull, JNull => true
  | JBool x, JBool y => Bool.eqb x y
  | JNum x, JNum y => Z.eqb x y
  | JFloat, JFloat => true
  | JStr x, JStr y => String.eqb x y
  | JArr x, JArr y =>
      (fix go (x y : list jv) : bool :=
         match x, y with
         | [], [] => true
         | p :: x', q :: y' => jv_eqb p q && go x' y'
         | _, _ => false
         end) x y
  | JObj x, JObj y =>
      (fix go (x y : list (string * jv)) : bool :=
         match x, y with
         | [], [] => true
         | (k, p) :: x', (k', q) :: y' => String.eqb k k' && jv_eqb p q && go x' y'
         | _, _ => false
         end) x y
  | _, _ => false
  end.
