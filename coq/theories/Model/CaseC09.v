(* C09 case checker.
   (H <n> <by_default> <t0 opt> (ok <bits> <ts opt> <class>) ((<op> <result>)...))
   op: (u (iss...) (rev...) <ts opt>) | (t <ts>) | (h) | (i <idx>)
   result: (ok <bits> <ts opt> <class> <flag>) | (ok <class>) | (err)
   <class> = equality class of the accumulator under the crate's own `==`. *)
From Coq Require Import List String Ascii ZArith Bool.
From AV Require Import Model.Sexp Model.RevList.
Import ListNotations.
Open Scope string_scope.

Fixpoint bits_of_string (s : string) : option (list bool) :=
  match s with
  | EmptyString => Some []
  | String a r =>
      match bits_of_string r with
      | None => None
      | Some l => if Ascii.eqb a "0" then Some (false :: l) else if Ascii.eqb a "1" then Some (true :: l) else None
      end
  end.
Definition dec_bits (e : sexp) : option (list bool) :=
  match dec_str e with Some s => bits_of_string s | None => None end.

Inductive c09_op := OUpd (iss rev : list Z) (t : option Z) | OTouch (t : Z) | OHop | OIssue (i : Z).
Inductive c09_res := RState (b : list bool) (t : option Z) (cls : Z) (flag : bool) | RIssued (cls : Z) | RErr | RPanic.

Definition dec_op (e : sexp) : option c09_op :=
  match e with
  | L [A "u"; i; r; t] =>
      match dec_list dec_Z i, dec_list dec_Z r, dec_opt dec_Z t with
      | Some i', Some r', Some t' => Some (OUpd i' r' t') | _, _, _ => None end
  | L [A "t"; t] => option_map OTouch (dec_Z t)
  | L [A "h"] => Some OHop
  | L [A "i"; i] => option_map OIssue (dec_Z i)
  | _ => None
  end.
Definition dec_res (e : sexp) : option c09_res :=
  match e with
  | L [A "ok"; b; t; c; f] =>
      match dec_bits b, dec_opt dec_Z t, dec_Z c, dec_bool f with
      | Some b', Some t', Some c', Some f' => Some (RState b' t' c' f') | _, _, _, _ => None end
  | L [A "ok"; c] => option_map RIssued (dec_Z c)
  | L [A "err"] => Some RErr
  | L [A "panic"] => Some RPanic
  | _ => None
  end.

Fixpoint bools_eqb (a b : list bool) : bool :=
  match a, b with
  | [], [] => true
  | x :: a', y :: b' => Bool.eqb x y && bools_eqb a' b'
  | _, _ => false
  end.
Definition optZ_eqb (a b : option Z) : bool :=
  match a, b with Some x, Some y => Z.eqb x y | None, None => true | _, _ => false end.

Definition state_matches (s : rsl) (b : list bool) (t : option Z) : bool :=
  bools_eqb (bits s) b && optZ_eqb (ts s) t.

(* walk the history in lockstep; collect (class, model accumulator) observations *)
Fixpoint walk (s : rsl) (steps : list (c09_op * c09_res)) (obs : list (Z * G)) : option (list (Z * G)) :=
  match steps with
  | [] => Some obs
  | (op, res) :: r =>
      match op, res with
      | OUpd i v t, RState b t' c unchanged =>
          let s' := rsl_update s i v t in
          if state_matches s' b t' && unchanged then walk s' r ((c, acc s') :: obs) else None
      | OTouch t, RState b t' c unchanged =>
          let s' := rsl_touch s t in
          if state_matches s' b t' && unchanged then walk s' r ((c, acc s') :: obs) else None
      | OHop, RState b t' c same =>
          if state_matches s b t' && same then walk s r ((c, acc s) :: obs) else None
      | OIssue i, RIssued c =>
          match issue_acc s i with Some a => walk s r ((c, a) :: obs) | None => None end
      | OIssue i, RErr =>
          match issue_acc s i with Some _ => None | None => walk s r obs end
      | _, _ => None
      end
  end.

Fixpoint classes_agree (n : Z) (obs : list (Z * G)) : bool :=
  match obs with
  | [] => true
  | (c, a) :: r => forallb (fun o => Bool.eqb (Z.eqb c (fst o)) (g_eqb n a (snd o))) r && classes_agree n r
  end.

Definition ok_C09 (n : Z) (bd : bool) (t0 : option Z) (init : c09_res) (steps : list (c09_op * c09_res)) : bool :=
  let s0 := rsl_create n bd t0 in
  match init with
  | RState b t c _ =>
      state_matches s0 b t &&
      match walk s0 steps [(c, acc s0)] with
      | Some obs => classes_agree n obs
      | None => false
      end
  | _ => false
  end.

Definition nontrivial_steps (steps : list (c09_op * c09_res)) : bool :=
  existsb (fun x => match fst x with OUpd (_ :: _) _ _ | OUpd _ (_ :: _) _ | OIssue _ => true | _ => false end) steps.

Definition check_C09 (args : list sexp) : list sexp :=
  match args with
  | [A "H"; n; bd; t0; init; steps] =>
      match dec_Z n, dec_bool bd, dec_opt dec_Z t0, dec_res init, dec_list (dec_pair dec_op dec_res) steps with
      | Some n', Some bd', Some t0', Some init', Some steps' =>
          [A (if ok_C09 n' bd' t0' init' steps' then "ok" else "bad");
           A (if bd' then "mode:by-default" else "mode:on-demand");
           A (if nontrivial_steps steps' then "history" else "trivial")]
      | _, _, _, _, _ => [A "decode-error"]
      end
  | _ => [A "decode-error"]
  end.
