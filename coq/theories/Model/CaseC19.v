(* C19 case checker.
   W-cases: (W (<tail>...) <fault> <ret> ((<name> <content>)...))
     fault: (n) | (e k) | (a k);  ret: (ok <hash> <file name>) | (err) | (died) | (panic)
     directory entries after the run; a name of the temp-file form is reported as "TMP"
   R-cases: (R (<tail>...) ((k (<bytes>)|())...))   access_tail results in sequence on one reader *)
From Coq Require Import List String Ascii NArith Bool Arith.
From AV Require Import Model.Sexp Model.Sha256 Model.Tails.
Import ListNotations.
Open Scope string_scope.

Definition dec_bytes (e : sexp) : option (list N) := option_map bytes_of_string (dec_str e).
Definition dec_nat (e : sexp) : option nat := option_map N.to_nat (dec_N e).
Definition dec_fault (e : sexp) : option fault :=
  match e with
  | L [A "n"] => Some NoFault
  | L [A "e"; k] => option_map ErrorAt (dec_nat k)
  | L [A "a"; k] => option_map AbortAt (dec_nat k)
  | _ => None
  end.
Inductive w_ret := WOk (hash name : string) | WErr | WDied | WPanic.
Definition dec_ret (e : sexp) : option w_ret :=
  match e with
  | L [A "ok"; h; p] => match dec_str h, dec_str p with Some h', Some p' => Some (WOk h' p') | _, _ => None end
  | L [A "err"] => Some WErr
  | L [A "died"] => Some WDied
  | L [A "panic"] => Some WPanic
  | _ => None
  end.

Fixpoint bytes_eqb (a b : list N) : bool :=
  match a, b with
  | [], [] => true
  | x :: a', y :: b' => N.eqb x y && bytes_eqb a' b'
  | _, _ => false
  end.
Fixpoint is_prefix (p l : list N) : bool :=
  match p, l with
  | [], _ => true
  | x :: p', y :: l' => N.eqb x y && is_prefix p' l'
  | _ :: _, [] => false
  end.

Definition is_tmp (e : string * list N) : bool := fst e =? "TMP".

(* the property on one run, evaluated on what the IMPLEMENTATION left behind *)
Definition ok_C19_write (tails : list (list N)) (f : fault) (r : w_ret) (dir : list (string * list N)) : bool :=
  let full := content tails in
  let name := file_name full in
  let finals := filter (fun e => negb (is_tmp e)) dir in
  let tmps := filter is_tmp dir in
  (* the final name is content-addressed and only ever holds the complete content *)
  forallb (fun e => (fst e =? name) && bytes_eqb (snd e) full) finals
  && Nat.leb (List.length finals) 1 && Nat.leb (List.length tmps) 1
  && match r with
     | WOk h p => (h =? name) && (p =? name) && Nat.eqb (List.length finals) 1 && Nat.eqb (List.length tmps) 0
     | WErr => Nat.eqb (List.length tmps) 0          (* an error leaves no temporary file behind *)
     | WDied => forallb (fun e => is_prefix (snd e) full) tmps
     | WPanic => false
     end
  && (fault_fires tails f || match r with WOk _ _ => true | _ => false end).

(* agreement with the model's final state *)
Definition rel_C19_write (tails : list (list N)) (f : fault) (r : w_ret) (dir : list (string * list N)) : bool :=
  let s := write_tails tails f in
  let has_final := existsb (fun e => negb (is_tmp e)) dir in
  let has_tmp := existsb is_tmp dir in
  Bool.eqb has_final (match final s with Some _ => true | None => false end)
  && Bool.eqb has_tmp (match tmp s with Some _ => true | None => false end)
  && match r, f with
     | WOk _ _, _ => negb (fault_fires tails f)
     | WErr, ErrorAt _ => fault_fires tails f
     | WDied, AbortAt _ => fault_fires tails f
     | _, _ => false
     end.

Definition ok_C19_read (tails : list (list N)) (reads : list (N * option (list N))) : bool :=
  let c := content tails in
  forallb (fun kr => match read_tail (fst kr) c, snd kr with
                     | Some x, Some y => bytes_eqb x y && bytes_eqb y (nth (N.to_nat (fst kr)) tails [])
                     | None, None => true
                     | _, _ => false
                     end) reads.

Definition fault_tag (tails : list (list N)) (f : fault) : string :=
  match f with
  | NoFault => "fault:none"
  | ErrorAt j => if Nat.eqb j (List.length tails + 3) then "fault:error-at-rename" else if fault_fires tails f then "fault:error" else "fault:beyond-end"
  | AbortAt j => if fault_fires tails f then "fault:abort" else "fault:beyond-end"
  end.

Definition check_C19 (args : list sexp) : list sexp :=
  match args with
  | [A "W"; ts; f; r; dir] =>
      match dec_list dec_bytes ts, dec_fault f, dec_ret r, dec_list (dec_pair dec_str dec_bytes) dir with
      | Some ts', Some f', Some r', Some dir' =>
          [A (if ok_C19_write ts' f' r' dir' then (if rel_C19_write ts' f' r' dir' then "ok" else "rel") else "bad");
           A (fault_tag ts' f');
           A (if Nat.leb 65 (List.length ts') then "size:over-one-buffer" else "size:within-buffer")]
      | _, _, _, _ => [A "decode-error"]
      end
  | [A "R"; ts; reads] =>
      match dec_list dec_bytes ts, dec_list (dec_pair dec_N (dec_opt dec_bytes)) reads with
      | Some ts', Some reads' => [A (if ok_C19_read ts' reads' then "ok" else "bad"); A "read-back"]
      | _, _ => [A "decode-error"]
      end
  | _ => [A "decode-error"]
  end.
