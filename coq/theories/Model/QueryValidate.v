(* data_types/pres_request.rs: _process_operator / _check_restriction (request validation by version) *)
From Coq Require Import List String Bool.
From AV Require Import Model.Query Model.Ident.
Import ListNotations.
Open Scope string_scope.

(* Credential::QUALIFIABLE_TAGS, pinned to the source by Proofs/Pins.v *)
Definition qualifiable_tags : list string :=
  ["issuer_did"; "cred_def_id"; "schema_id"; "schema_issuer_did"; "rev_reg_id"].

Definition mem_str (x : string) (l : list string) : bool := existsb (String.eqb x) l.

Definition check_restriction (v1 : bool) (tag value : string) : bool :=
  negb (v1 && mem_str tag qualifiable_tags && is_uri value).

Fixpoint validate_query (v1 : bool) (q : query) : bool :=
  match q with
  | Eq k v | Neq k v | Gt k v | Gte k v | Lt k v | Lte k v | Like k v => check_restriction v1 k v
  | QIn k vs => forallb (check_restriction v1 k) vs
  | Exist ks => forallb (fun k => check_restriction v1 k "") ks
  | And l | Or l => forallb (validate_query v1) l
  | Not q => validate_query v1 q
  end.

(* the (tag, value) pairs a query tests *)
Fixpoint leaves (q : query) : list (string * string) :=
  match q with
  | Eq k v | Neq k v | Gt k v | Gte k v | Lt k v | Lte k v | Like k v => [(k, v)]
  | QIn k vs => map (fun v => (k, v)) vs
  | Exist ks => map (fun k => (k, "")) ks
  | And l | Or l => flat_map leaves l
  | Not q => leaves q
  end.
