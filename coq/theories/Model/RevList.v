(* Revocation status list as a state machine (services/issuer.rs create_revocation_status_list,
   update_revocation_status_list, update_revocation_status_list_timestamp_only;
   data_types/rev_status_list.rs RevocationStatusList::update) over the accumulator algebra
   of the CL crate (RevocationRegistry::initial_state, Issuer::_update_revocation_accumulator,
   _get_index, _new_non_revocation_credential).

   Accumulators are elements of the free abelian group on tail exponents: G = Z -> Z,
   [e k] standing for g'^(gamma^k).  Equality in G implies equality in the pairing group.
   Registry size N = max_cred_num; list index i maps to exponent N+1-i (_get_index). *)
From Coq Require Import List ZArith Bool.
Import ListNotations.
Open Scope Z_scope.

Definition G := Z -> Z.
Definition gzero : G := fun _ => 0.
Definition e (k : Z) : G := fun x => if x =? k then 1 else 0.
Definition gadd (a b : G) : G := fun x => a x + b x.
Definition gsub (a b : G) : G := fun x => a x - b x.
Definition gsum (f : Z -> Z) (l : list Z) : G := fold_right (fun j a => gadd (e (f j)) a) gzero l.

Fixpoint nthZ {A} (l : list A) (i : Z) : option A :=
  match l with
  | [] => None
  | x :: r => if i =? 0 then Some x else if i <? 0 then None else nthZ r (i - 1)
  end.
Fixpoint setZ {A} (l : list A) (i : Z) (v : A) : list A :=
  match l with
  | [] => []
  | x :: r => if i =? 0 then v :: r else if i <? 0 then x :: r else x :: setZ r (i - 1) v
  end.
Definition lenZ {A} (l : list A) : Z := Z.of_nat (List.length l).
Fixpoint rangeZ (lo : Z) (n : nat) : list Z :=
  match n with O => [] | S m => lo :: rangeZ (lo + 1) m end.

Definition memZ (x : Z) (l : list Z) : bool := existsb (Z.eqb x) l.
Fixpoint dedup (l : list Z) : list Z :=
  match l with
  | [] => []
  | x :: r => if memZ x r then dedup r else x :: dedup r
  end.

Record rsl := { bits : list bool;       (* true = revoked (or not yet issued) *)
                acc : G;
                ts : option Z }.

(* create_revocation_status_list *)
Definition rsl_create (n : Z) (by_default : bool) (t : option Z) : rsl :=
  {| bits := repeat (negb by_default) (Z.to_nat n);
     acc := if by_default then gsum (fun i => n + 1 - i) (rangeZ 1 (Z.to_nat n)) else gzero;
     ts := t |}.

(* the filters of update_revocation_status_list, against the OLD list; BTreeSet input = dedup *)
Definition eff_issued (s : rsl) (iss : list Z) : list Z :=
  filter (fun i => match nthZ (bits s) i with Some b => b | None => false end) (dedup iss).
Definition eff_revoked (s : rsl) (rev : list Z) : list Z :=
  filter (fun i => match nthZ (bits s) i with Some b => negb b | None => false end) (dedup rev).

Definition set_all (v : bool) (l : list Z) (b : list bool) : list bool :=
  fold_left (fun acc i => setZ acc i v) l b.

(* update_revocation_status_list: `None` sets behave as empty sets *)
Definition rsl_update (s : rsl) (iss rev : list Z) (t : option Z) : rsl :=
  let n := lenZ (bits s) in
  let i' := eff_issued s iss in
  let r' := eff_revoked s rev in
  {| bits := set_all true r' (set_all false i' (bits s));
     acc := gsub (gadd (acc s) (gsum (fun i => n + 1 - i) i')) (gsum (fun i => n + 1 - i) r');
     ts := match t with Some x => Some x | None => ts s end |}.

(* update_revocation_status_list_timestamp_only *)
Definition rsl_touch (s : rsl) (t : Z) : rsl := {| bits := bits s; acc := acc s; ts := Some t |}.

Inductive upd := Upd (iss rev : list Z) (t : option Z) | Touch (t : Z).
Definition rsl_step (s : rsl) (u : upd) : rsl :=
  match u with Upd i r t => rsl_update s i r t | Touch t => rsl_touch s t end.
Definition rsl_run (s : rsl) (h : list upd) : rsl := fold_left rsl_step h s.

(* specification of one entry: apply the requested sets pointwise; a request that would not
   change the entry, or names an index outside the registry, is ignored *)
Definition spec_bit (b : bool) (iss rev : list Z) (i : Z) : bool :=
  if b then negb (memZ i iss) else memZ i rev.

(* the accumulator as a function of the entries alone: exponent x carries index n+1-x *)
Definition acc_of_bits (b : list bool) : G :=
  fun x => match nthZ b (lenZ b + 1 - x) with Some false => 1 | _ => 0 end.
(* constant offset of the issuance mode: by-default registries start from exponents 1..n, i.e.
   they contain the crate's index n (not in the list) and lack the list's index 0 *)
Definition mode_offset (n : Z) (by_default : bool) : G :=
  if by_default then gsub (e 1) (e (n + 1)) else gzero.

(* the accumulator a credential embeds when issued at index i against list s
   (CLCredentialIssuer::create_credential + _new_non_revocation_credential): None = refused *)
Definition issue_acc (s : rsl) (i : Z) : option G :=
  let n := lenZ (bits s) in
  match nthZ (bits s) i with
  | None => None
  | Some status =>
      if (i =? 0) || (n <? i) then None
      else Some (if status then gadd (acc s) (e (n + 1 - i)) else acc s)
  end.

(* executable comparison of group elements on the exponents a registry of size n can touch *)
Definition g_eqb (n : Z) (a b : G) : bool :=
  forallb (fun x => a x =? b x) (rangeZ (-1) (Z.to_nat (n + 4))).
