(* The verifier-side properties C01 C02 C03 C05 C06 C08 C12 as decidable predicates on one case
   (request, presentation, verifier context) and an outcome. They are functions of the CASE
   (including the provenance of the proof), so they can be evaluated on the implementation's
   outcome as well as on the model's. *)
From Coq Require Import List String Ascii ZArith NArith Bool.
From AV Require Import Model.Str Model.Encode Model.Query Model.VTypes Model.Interval Model.Eval Model.CL
  Model.VerifierLegacy Model.VerifierW3C Model.VCfg.
Import ListNotations.
Open Scope string_scope.
Open Scope list_scope.
Open Scope Z_scope.

Inductive vcase :=
| CLegacy (R : request) (P : presentation) (cx : ctx)
| CW3C (R : request) (P : w3c_pres) (cx : ctx).

Definition case_request (c : vcase) : request := match c with CLegacy R _ _ | CW3C R _ _ => R end.
Definition case_ctx (c : vcase) : ctx := match c with CLegacy _ _ cx | CW3C _ _ cx => cx end.
(* (identifier, sub-proof) pairs in proof order; legacy pairs positionally *)
Definition case_subs (c : vcase) : list (identifier * subproof) :=
  match c with
  | CLegacy _ P _ => combine (p_ids P) (p_proofs P)
  | CW3C _ P _ => flat_map (fun w => opt_list (wc_pv w)) (wp_creds P)
  end.
Definition case_agg (c : vcase) : option agg :=
  match c with CLegacy _ P _ => Some (p_agg P) | CW3C _ P _ => wp_agg P end.

Definition run_model (cfg : vcfg) (c : vcase) : outcome :=
  match c with
  | CLegacy R P cx => verify_legacy cfg R P cx
  | CW3C R P cx => verify_w3c cfg R P cx
  end.

(* ---- "a genuine zero-knowledge proof over issuer-signed credentials" (ideal CL, key-independent part) ---- *)
Definition sub_genuine (pos : Z) (sp : subproof) : bool :=
  let s := sp_src sp in
  negb (src_altered s) && N.eqb (src_cred_link s) (src_used_link s) && (src_pos s =? pos)
  && forallb (fun '(k, v) => match assoc k (src_values s) with Some e => String.eqb e v | None => false end) (sp_revealed sp)
  && forallb (pred_holds (src_values s)) (sp_preds sp).
Fixpoint subs_genuine (pos : Z) (l : list subproof) : bool :=
  match l with [] => true | sp :: r => sub_genuine pos sp && subs_genuine (pos + 1) r end.
Definition genuine (c : vcase) : bool :=
  match case_agg c with
  | Some a => negb (ag_altered a) && N.eqb (ag_nonce a) (rq_nonce (case_request c))
              && (lenZ (case_subs c) =? ag_count a) && subs_genuine 0 (map snd (case_subs c))
  | None => false
  end.

(* ---- C01 ---- *)
Definition reveals (sp : subproof) (n : string) : bool := mem (cv n) (keys (sp_revealed sp)).
Definition holds_attr (sp : subproof) (n : string) : bool := mem (cv n) (src_attrs (sp_src sp)).
Definition proves_pred (sp : subproof) (pi : pred_info) : bool :=
  existsb (pred_eqb (cv (pi_name pi), pi_type pi, pi_value pi)) (sp_preds sp).

Definition attr_served_legacy (P : presentation) (r : string) (ai : attr_info) : bool :=
  let rp := p_rp P in
  match assoc r (rp_revealed rp) with
  | Some (i, _, _) => match nthZ (p_proofs P) i, ai_name ai with Some sp, Some n => reveals sp n | _, _ => false end
  | None => false end
  || match assoc r (rp_groups rp) with
     | Some (i, _) => match nthZ (p_proofs P) i, ai_names ai with Some sp, Some ns => forallb (reveals sp) ns | _, _ => false end
     | None => false end
  || match assoc r (rp_unrev rp) with
     | Some i => match nthZ (p_proofs P) i with Some sp => forallb (holds_attr sp) (names_of ai) | None => false end
     | None => false end
  || (mem r (keys (rp_self rp)) && unrestricted (ai_restr ai)).

Definition ok_C01 (c : vcase) (o : outcome) : bool :=
  negb (is_accept o) ||
  (genuine c &&
   match c with
   | CLegacy R P _ =>
       forallb (fun '(r, pi) => match assoc r (rp_preds (p_rp P)) with
                                | Some i => match nthZ (p_proofs P) i with Some sp => proves_pred sp pi | None => false end
                                | None => false end) (rq_preds R)
       && forallb (fun '(r, ai) => attr_served_legacy P r ai) (rq_attrs R)
   | CW3C R P _ =>
       let sps := map snd (case_subs c) in
       forallb (fun '(_, pi) => existsb (fun sp => proves_pred sp pi) sps) (rq_preds R)
       && forallb (fun '(_, ai) => forallb (fun n => existsb (fun sp => reveals sp n || holds_attr sp n) sps) (names_of ai)) (rq_attrs R)
   end).

(* ---- C03 ---- *)
Definition signed_value (sp : subproof) (n : string) : option string := assoc (cv n) (src_values (sp_src sp)).
Definition ok_C03 (c : vcase) (o : outcome) : bool :=
  negb (is_accept o) ||
  match c with
  | CLegacy R P _ =>
      forallb (fun '(r, (i, _, enc)) =>
                 match nthZ (p_proofs P) i, assoc r (rq_attrs R) with
                 | Some sp, Some ai => match ai_name ai with
                                       | Some n => match signed_value sp n with Some e => String.eqb e (normalize_encoded enc) | None => false end
                                       | None => false end
                 | _, _ => false end) (rp_revealed (p_rp P))
      && forallb (fun '(r, (i, vals)) =>
                 match nthZ (p_proofs P) i with
                 | Some sp => forallb (fun '(n, (_, enc)) => match signed_value sp n with Some e => String.eqb e (normalize_encoded enc) | None => false end) vals
                 | None => false end) (rp_groups (p_rp P))
  | CW3C R P cx =>
      forallb (fun w =>
                 match wc_pv w with
                 | Some (id, sp) =>
                     forallb (fun '(k, v) => match v with
                                             | VBool _ => true
                                             | _ => match signed_value sp k with Some e => String.eqb e (encode (value_to_string v)) | None => false end
                                             end) (wc_subject w)
                     && match assoc (id_creddef id) (cx_creddefs cx) with
                        | Some cd => N.eqb (cd_key cd) (src_key (sp_src sp)) && String.eqb (cd_issuer cd) (wc_issuer w)
                                     && String.eqb (wc_method w) (id_creddef id)
                        | None => false end
                 | None => false end) (wp_creds P)
  end.

(* ---- C05 ---- *)
Definition all_same_link (sps : list subproof) : bool :=
  match sps with
  | [] => true
  | sp0 :: _ => forallb (fun sp => N.eqb (src_used_link (sp_src sp)) (src_used_link (sp_src sp0))
                                   && N.eqb (src_cred_link (sp_src sp)) (src_used_link (sp_src sp))) sps
  end.
Definition keys_match (cx : ctx) (subs : list (identifier * subproof)) : bool :=
  forallb (fun '(id, sp) => match assoc (id_creddef id) (cx_creddefs cx) with
                            | Some cd => N.eqb (cd_key cd) (src_key (sp_src sp))
                            | None => false end) subs.
Definition ok_C05 (c : vcase) (o : outcome) : bool :=
  negb (is_accept o) ||
  (match case_agg c with
   | Some a => N.eqb (ag_nonce a) (rq_nonce (case_request c)) && negb (ag_altered a)
   | None => false end
   && all_same_link (map snd (case_subs c))
   && keys_match (case_ctx c) (case_subs c)
   && forallb (fun sp => negb (src_altered (sp_src sp))) (map snd (case_subs c))).

(* ---- C02 / C08: intervals ---- *)
(* referents (attribute and predicate) served by sub-proof i in the legacy form: revealed, group,
   UNREVEALED and predicate referents — what the property says, independent of what the code collects *)
Definition demands_legacy (R : request) (P : presentation) (i : Z) : list (option interval) :=
  let rp := p_rp P in
  let arefs := map fst (List.filter (fun '(_, (j, _, _)) => j =? i) (rp_revealed rp))
               ++ map fst (List.filter (fun '(_, (j, _)) => j =? i) (rp_groups rp))
               ++ map fst (List.filter (fun '(_, j) => j =? i) (rp_unrev rp)) in
  let prefs := map fst (List.filter (fun '(_, j) => j =? i) (rp_preds rp)) in
  flat_map (fun r => match assoc r (rq_attrs R) with Some ai => [ai_nr ai] | None => [] end) arefs
  ++ flat_map (fun r => match assoc r (rq_preds R) with Some pi => [pi_nr pi] | None => [] end) prefs.
Definition ovr_for (cx : ctx) (rid : option string) (iv : interval) : interval :=
  match rid, cx_override cx with
  | Some id, Some maps => match assoc id maps with Some m => override m iv | None => iv end
  | _, _ => iv
  end.
(* every referent's own demand: local if it has one, request-wide otherwise *)
Definition all_demands_met (R : request) (cx : ctx) (rid : option string) (locals : list (option interval)) (t : Z) : bool :=
  forallb (fun l => match (match l with Some x => Some x | None => rq_nr R end) with
                    | Some iv => is_valid (ovr_for cx rid iv) t
                    | None => true end) locals.
(* the tightest combination of the local intervals, or the request-wide one when there is no local *)
Definition tightest (R : request) (locals : list (option interval)) : option interval :=
  match fold_left merge_opt locals None with Some m => Some m | None => rq_nr R end.
Definition some_interval_applies (R : request) (locals : list (option interval)) : bool :=
  match tightest R locals with Some _ => true | None => false end.
Definition list_at (cx : ctx) (rid : option string) (t : option Z) : option N :=
  match rid, t, cx_lists cx with
  | Some id, Some ts, Some ls =>
      match find (fun '(i, s, _) => match i, s with Some i', Some s' => String.eqb i' id && (s' =? ts) | _, _ => false end) (rev ls) with
      | Some (_, _, a) => a
      | None => None end
  | _, _, _ => None
  end.
Definition regkey_at (cx : ctx) (rid : option string) : option N :=
  match rid, cx_regdefs cx with Some id, Some defs => assoc id defs | _, _ => None end.
Definition revocable (cx : ctx) (id : identifier) : bool :=
  match assoc (id_creddef id) (cx_creddefs cx) with Some cd => match cd_revkey cd with Some _ => true | None => false end | None => false end.

Fixpoint indexed {A} (i : Z) (l : list A) : list (Z * A) :=
  match l with [] => [] | x :: r => (i, x) :: indexed (i + 1) r end.

(* per sub-proof: the interval demands the property attributes to it. The W3C form has no referent
   map. Where acceptance must imply something ([over = false]) a referent's demand is attributed
   to credential i only if i is the ONLY presented credential that could serve it (reveals or
   holds the attribute / proves the predicate) — then it must have served it. Where meeting all
   demands must imply acceptance ([over = true]) every referent's demand is attributed to every
   credential. *)
Definition could_serve_attr (n : string) (sp : subproof) : bool := reveals sp n || holds_attr sp n.
Definition only_server (could : subproof -> bool) (sps : list subproof) (i : Z) : bool :=
  forallb (fun js => (fst js =? i) || negb (could (snd js))) (indexed 0 sps)
  && match nthZ sps i with Some sp => could sp | None => false end.
Definition w3c_must_locals (R : request) (sps : list subproof) (i : Z) : list (option interval) :=
  flat_map (fun x => flat_map (fun n => if only_server (could_serve_attr n) sps i then [ai_nr (snd x)] else []) (names_of (snd x))) (rq_attrs R)
  ++ flat_map (fun x => if only_server (fun sp => proves_pred sp (snd x)) sps i then [pi_nr (snd x)] else []) (rq_preds R).
Definition sub_locals_gen (over : bool) (c : vcase) (i : Z) : list (option interval) :=
  match c with
  | CLegacy R P _ => demands_legacy R P i
  | CW3C R P _ =>
      if over then map (fun x => ai_nr (snd x)) (rq_attrs R) ++ map (fun x => pi_nr (snd x)) (rq_preds R)
      else w3c_must_locals R (map snd (case_subs c)) i
  end.
Definition sub_locals := sub_locals_gen false.
Definition sub_locals_over := sub_locals_gen true.
(* does some interval apply to sub-proof i?  legacy: a credential without local interval is under the
   request-wide one; W3C: only through a referent *)
Definition applies_gen (over : bool) (c : vcase) (i : Z) : bool :=
  some_interval_applies (case_request c) (sub_locals_gen over c i)
  && match c with CLegacy _ _ _ => true | CW3C _ _ _ => negb (match sub_locals_gen over c i with [] => true | _ => false end) end.
Definition ok_C02 (c : vcase) (o : outcome) : bool :=
  negb (is_accept o) ||
  forallb (fun '(i, (id, sp)) =>
             let R := case_request c in let cx := case_ctx c in
             negb (revocable cx id) || negb (applies_gen false c i)
             || match sp_nrp sp, id_ts id, list_at cx (id_revreg id) (id_ts id), regkey_at cx (id_revreg id), tightest R (sub_locals c i) with
                | Some n, Some t, Some acc, Some rk, Some iv =>
                    nrp_valid n && N.eqb (nrp_acc n) acc && N.eqb (nrp_regkey n) rk
                    && is_valid (ovr_for cx (id_revreg id) iv) t
                | _, _, _, _, _ => false
                end) (indexed 0 (case_subs c)).

(* C08 is two-sided; [base] is the implementation's verdict for the SAME presentation and context
   under the same request with every interval removed *)
Definition ok_C08 (c : vcase) (base : bool) (o : outcome) : bool :=
  let R := case_request c in let cx := case_ctx c in
  let subs := indexed 0 (case_subs c) in
  (* outside the tightest window, or an interval applies and there is no timestamp / no list: reject *)
  (negb (is_accept o) ||
   forallb (fun '(i, (id, sp)) =>
              negb (revocable cx id) || negb (applies_gen false c i) ||
              match tightest R (sub_locals c i) with
              | None => true
              | Some iv => match id_ts id, list_at cx (id_revreg id) (id_ts id) with
                           | Some t, Some _ => is_valid (ovr_for cx (id_revreg id) iv) t
                           | _, _ => false end
              end) subs)
  &&
  (* every demand met (and a list exists where an interval applies): the interval stage must not reject *)
  (negb base || is_accept o ||
   negb (forallb (fun '(i, (id, sp)) =>
                    negb (revocable cx id) ||
                    negb (applies_gen true c i) ||
                    match id_ts id, list_at cx (id_revreg id) (id_ts id), sp_nrp sp, regkey_at cx (id_revreg id) with
                    | Some t, Some acc, Some n, Some rk =>
                        all_demands_met R cx (id_revreg id) (sub_locals_over c i) t
                        && nrp_valid n && N.eqb (nrp_acc n) acc && N.eqb (nrp_regkey n) rk
                    | _, _, _, _ => false end) subs))
  &&
  (* credentials from non-revocable definitions ignore intervals *)
  (negb (forallb (fun '(_, (id, _)) => negb (revocable cx id)) subs) || Bool.eqb (is_accept o) base).

(* ---- C06: Boolean WQL semantics for the credential actually used ---- *)
Definition sem (m : list (string * option string)) (f : filter) (q : query) : bool := eval cfg_fixed m f q.
(* the filter of the credential the proof is about: the credential definition whose key signed it,
   and the schema that definition was created over *)
Definition filter_of (cx : ctx) (sp : subproof) : option filter :=
  match find (fun kv => N.eqb (cd_key (snd kv)) (src_key (sp_src sp))) (cx_creddefs cx) with
  | Some (cid, cd) =>
      match assoc (cd_schema_id cd) (cx_schemas cx) with
      | Some sc => Some {| f_schema_id := cd_schema_id cd; f_schema_issuer := sc_issuer sc; f_schema_name := sc_name sc;
                           f_schema_version := sc_version sc; f_issuer := cd_issuer cd; f_cred_def_id := cid |}
      | None => None end
  | None => None
  end.
Definition restr_true_legacy (R : request) (P : presentation) (cx : ctx) : bool :=
  let rp := p_rp P in
  (* referents the verifier takes as served by a credential (an unrestricted referent that the holder
     attested itself is not one of them, whatever else the presentation says about it) *)
  let served := List.filter (fun '(r, ai) => negb (is_self_attested P r ai)) (rq_attrs R) in
  forallb (fun '(r, ai) =>
             match ai_restr ai with
             | None => true
             | Some q =>
                 (* an empty restriction on a referent the holder attested itself is no restriction; on a
                    referent served by a credential it is evaluated like any other ($and [] is true, $or [] false) *)
                 if is_self_attested P r ai then true else
                 (* the credential the presentation maps the referent to *)
                 (* the credential that REVEALS under the referent when one does (a referent may be listed as
                    unrevealed under another credential as well: that entry shows nothing) *)
                 let bound := match assoc r (rp_groups rp) with Some (i, _) => Some i | None =>
                              match assoc r (rp_revealed rp) with Some (i, _, _) => Some i | None =>
                              assoc r (rp_unrev rp) end end in
                 match bound with
                 | Some i => match nthZ (p_proofs P) i with
                             | Some sp => match filter_of cx sp with
                                          | Some f =>
                                              (* values revealed under the referent; where two names of a group
                                                 normalise to one key the later one counts, as in the code's map *)
                                              let m := match ai_name ai with
                                                       | Some n => [(cv n, option_map (fun x => snd (fst x)) (assoc r (rp_revealed rp)))]
                                                       | None =>
                                                           let ns := match ai_names ai with Some ns => ns | None => [] end in
                                                           match assoc r (rp_groups rp) with
                                                           | Some g => rev (map (fun n => (cv n, option_map fst (assoc n (snd g)))) ns)
                                                           | None => map (fun n => (cv n, None)) ns end
                                                       end in
                                              sem m f q
                                          | None => false end
                             | None => false end
                 | None => false end
             end) (rq_attrs R)
  && forallb (fun '(r, pi) =>
             match pi_restr pi with
             | None => true
             | Some q =>
                 match assoc r (rp_preds rp) with
                 | Some i => match nthZ (p_proofs P) i with
                             | Some sp => match filter_of cx sp with
                                          | Some f =>
                                              let rv := flat_map (fun '(ar, (j, raw, _)) => if j =? i then match assoc ar served with
                                                                     | Some ai => match ai_name ai with Some n => [(cv n, Some raw)] | None => [] end
                                                                     | None => [] end else []) (rp_revealed rp) in
                                              let gv := flat_map (fun '(_, (j, vals)) => if j =? i then map (fun '(n, (raw, _)) => (cv n, Some raw)) vals else []) (rp_groups rp) in
                                              sem (rev gv ++ rev rv ++ [(cv (pi_name pi), None)]) f q
                                          | None => false end
                             | None => false end
                 | None => false end
             end) (rq_preds R).
Definition restr_true_w3c (R : request) (P : w3c_pres) (cx : ctx) : bool :=
  let cs := flat_map (fun w => match wc_pv w with Some (id, sp) => [(w, sp)] | None => [] end) (wp_creds P) in
  let cred_ok (q : query) (w : w3c_cred) (sp : subproof) : bool :=
    match filter_of cx sp with
    | Some f => sem (rev (flat_map (fun '(k, v) => match v with VBool _ => [] | _ => [(cv k, Some (value_to_string v))] end) (wc_subject w))) f q
    | None => false end in
  forallb (fun '(_, ai) =>
             match ai_restr ai with
             | None => true
             | Some q => forallb (fun n => existsb (fun '(w, sp) => (reveals sp n || holds_attr sp n) && cred_ok q w sp) cs) (names_of ai)
             end) (rq_attrs R)
  && forallb (fun '(_, pi) =>
             match pi_restr pi with
             | None => true
             | Some q => existsb (fun '(w, sp) => proves_pred sp pi && cred_ok q w sp) cs
             end) (rq_preds R).
Definition restr_true (c : vcase) : bool :=
  match c with CLegacy R P cx => restr_true_legacy R P cx | CW3C R P cx => restr_true_w3c R P cx end.
(* [base] = the implementation's verdict under the same request with every restriction removed *)
Definition ok_C06 (c : vcase) (base : bool) (o : outcome) : bool :=
  (negb (is_accept o) || restr_true c) && (negb (base && restr_true c) || is_accept o).

(* known finding (C06): the legacy verifier refuses every request whose restrictions mention both
   issuer_id and issuer_did (or schema_issuer_id and schema_issuer_did), whatever their truth *)
Definition request_tags (R : request) : list string :=
  flat_map (fun '(_, ai) => flat_map names (opt_list (ai_restr ai))) (rq_attrs R)
  ++ flat_map (fun '(_, pi) => flat_map names (opt_list (pi_restr pi))) (rq_preds R).
Definition mixed_legacy_tags (c : vcase) : bool :=
  match c with
  | CLegacy R _ _ => let t := request_tags R in
                     (mem "issuer_id" t && mem "issuer_did" t) || (mem "schema_issuer_id" t && mem "schema_issuer_did" t)
  | CW3C _ _ _ => false
  end.

(* ---- well-formedness of a case (precondition of the theorems; checked on every case) ---- *)
(* the attribute names inside CL sub-proofs are normalised (the
   library builds every CL credential value under attr_common_view of its name) *)
Definition sp_names_normalised (sp : subproof) : bool :=
  forallb (fun kv => String.eqb (cv (fst kv)) (fst kv)) (sp_revealed sp).
Fixpoint nodup_keys {V} (m : list (string * V)) : bool :=
  match m with [] => true | (k, _) :: r => negb (mem k (keys r)) && nodup_keys r end.
(* ... and the maps of the presentation that are hash maps in the code have distinct keys *)
Definition case_wf (c : vcase) : bool :=
  forallb (fun x => sp_names_normalised (snd x)) (case_subs c)
  && match c with
     | CLegacy _ P _ => forallb (fun g => nodup_keys (snd (snd g))) (rp_groups (p_rp P))
     | CW3C _ _ _ => true
     end.


(* the maps that are hash maps in the code have distinct keys *)
Definition req_wf (R : request) : bool := nodup_keys (rq_attrs R) && nodup_keys (rq_preds R).
Definition rp_wf (rp : req_proof) : bool :=
  nodup_keys (rp_revealed rp) && nodup_keys (rp_groups rp) && nodup_keys (rp_unrev rp) && nodup_keys (rp_preds rp).
Definition case_wf1 (c : vcase) : bool :=
  case_wf c && req_wf (case_request c) && match c with CLegacy _ P _ => rp_wf (p_rp P) | CW3C _ _ _ => true end.


(* ---- C12 ---- *)
Definition ok_C12 (o : outcome) : bool := negb (outcome_eqb o Panic).
