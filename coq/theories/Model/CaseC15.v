(* C15 case checker. *)
From Coq Require Import List String Ascii ZArith Bool.
From AV Require Import Model.Sexp Model.Json Model.Codec Model.CaseC09.
Import ListNotations.
Open Scope string_scope.

Definition check_C15 (args : list sexp) : list sexp :=
  match args with
  | [A "N"; j; impl] =>
      match dec_json j with
      | Some j' =>
          match nonce_de j', impl with
          | DOk s, L [A "ok"; s'] => [A (if match dec_str s' with Some x => String.eqb x s | None => false end then "ok" else "bad"); A "codec:nonce"; A "ok"]
          | DErr, L [A "err"] => [A "ok"; A "codec:nonce"; A "err"]
          | DUnmodelled, L [A "panic"] => [A "bad"; A "codec:nonce"; A "panic"]
          | DUnmodelled, _ => [A "ok"; A "codec:nonce"; A "unmodelled-byte-form"; A "trivial"]
          | _, _ => [A "bad"; A "codec:nonce"; A "mismatch"]
          end
      | None => [A "decode-error"] end
  | [A "B"; j; impl] =>
      match dec_json j with
      | Some j' =>
          match bits_de j', impl with
          | Some b, L [A "ok"; s] => [A (if match dec_bits s with Some b' => bools_eqb b b' | None => false end then "ok" else "bad"); A "codec:revocation-list"; A "ok"]
          | None, L [A "err"] => [A "ok"; A "codec:revocation-list"; A "err"]
          | _, _ => [A "bad"; A "codec:revocation-list"; A "mismatch"]
          end
      | None => [A "decode-error"] end
  | [A "V"; j; A impl; again] =>
      match dec_json j, dec_json again with
      | Some j', Some a =>
          let m := ver_de j' in
          let okv := match m with
                     | Some v2 => (impl =? (if v2 then "v2" else "v1")) && jv_eqb a (JStr (ver_string v2))
                     | None => impl =? "err" end in
          [A (if okv then "ok" else "bad"); A "codec:request-version"; A impl]
      | _, _ => [A "decode-error"] end
  | [A "H"; ty; stage; same; o0; o1] =>
      match dec_str ty, dec_str stage, dec_bool same, dec_str o0, dec_str o1 with
      | Some ty', Some st, Some same', Some a, Some b =>
          [A (if same' && String.eqb a b then "ok" else "bad"); A ("hop:" ++ st); A ("outcome:" ++ b)]
      | _, _, _, _, _ => [A "decode-error"] end
  | _ => [A "decode-error"]
  end.
