(* Generic case format shared by the Rust harness and the extracted model.
   Atoms are byte strings; strings that come from the implementation are
   hex-encoded inside atoms (prefix "x") so that no escaping rule exists.
   Decoders are total and return None on any shape error. *)
From Coq Require Import List String Ascii ZArith NArith Bool.
Import ListNotations.
Open Scope string_scope.

Inductive sexp := A (s : string) | L (l : list sexp).

Section MapM.
  Context {X Y : Type} (f : X -> option Y).
  Fixpoint mapM (l : list X) : option (list Y) :=
    match l with
    | [] => Some []
    | x :: r => match f x, mapM r with
                | Some y, Some ys => Some (y :: ys)
                | _, _ => None
                end
    end.
End MapM.

Fixpoint digits_to_N (acc : N) (s : string) : option N :=
  match s with
  | EmptyString => Some acc
  | String a r => let n := N_of_ascii a in
                  if (48 <=? n)%N && (n <=? 57)%N
                  then digits_to_N (acc * 10 + (n - 48))%N r else None
  end.

Definition dec_N (e : sexp) : option N :=
  match e with
  | A EmptyString => None
  | A s => digits_to_N 0 s
  | L _ => None
  end.

Definition dec_Z (e : sexp) : option Z :=
  match e with
  | A (String "-" r) => match r with
                        | EmptyString => None
                        | _ => option_map (fun n => Z.opp (Z.of_N n)) (digits_to_N 0 r)
                        end
  | A EmptyString => None
  | A s => option_map Z.of_N (digits_to_N 0 s)
  | L _ => None
  end.

Definition hexval (a : ascii) : option N :=
  let n := N_of_ascii a in
  if (48 <=? n)%N && (n <=? 57)%N then Some (n - 48)%N
  else if (97 <=? n)%N && (n <=? 102)%N then Some (n - 87)%N
  else None.

Fixpoint unhex (s : string) : option string :=
  match s with
  | EmptyString => Some EmptyString
  | String a (String b r) =>
      match hexval a, hexval b, unhex r with
      | Some x, Some y, Some t => Some (String (ascii_of_N (x * 16 + y)) t)
      | _, _, _ => None
      end
  | String _ EmptyString => None
  end.

(* strings: atom "x<hex>" *)
Definition dec_str (e : sexp) : option string :=
  match e with
  | A (String "x" h) => unhex h
  | _ => None
  end.

Definition dec_bool (e : sexp) : option bool :=
  match e with
  | A "t" => Some true
  | A "f" => Some false
  | _ => None
  end.

Definition dec_opt {T} (d : sexp -> option T) (e : sexp) : option (option T) :=
  match e with
  | L [] => Some None
  | L [x] => option_map Some (d x)
  | _ => None
  end.

Definition dec_list {T} (d : sexp -> option T) (e : sexp) : option (list T) :=
  match e with L l => mapM d l | A _ => None end.

Definition dec_pair {T U} (d1 : sexp -> option T) (d2 : sexp -> option U) (e : sexp) : option (T * U) :=
  match e with
  | L [a; b] => match d1 a, d2 b with Some x, Some y => Some (x, y) | _, _ => None end
  | _ => None
  end.

Definition hexd (n : N) : ascii := ascii_of_N (if (n <? 10)%N then 48 + n else 87 + n)%N.
Fixpoint hex_of_string (s : string) : string :=
  match s with
  | EmptyString => EmptyString
  | String a r => let n := N_of_ascii a in String (hexd (n / 16)%N) (String (hexd (n mod 16)%N) (hex_of_string r))
  end.

Definition enc_str (s : string) : sexp := A (String "x" (hex_of_string s)).
Definition enc_bool (b : bool) : sexp := A (if b then "t" else "f").
Definition enc_opt {T} (e : T -> sexp) (o : option T) : sexp :=
  match o with None => L [] | Some x => L [e x] end.
