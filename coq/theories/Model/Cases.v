(* Entry point of the extracted model: one abstract case in, one verdict out.
   Verdicts: ok | bad (the implementation's outcome violates the property on this case)
           | rel (implementation and model disagree, property not violated on this case)
           | known:<class> (violates; member of a class listed in known_findings.json)
           | decode-error (harness bug, never a verdict) *)
From Coq Require Import List String Bool.
From AV Require Import Model.Sexp Model.CaseC13 Model.CaseC16 Model.CaseC20 Model.CaseC09 Model.CaseC19 Model.CaseV Model.CaseP Model.CaseI Model.CaseC10 Model.CaseC15 Model.CaseC18 Model.CaseC17.
Import ListNotations.
Open Scope string_scope.

Definition check_case (e : sexp) : sexp :=
  match e with
  | L (A p :: A id :: args) =>
      L (A id ::
         (if p =? "C13" then check_C13 args
          else if p =? "C16" then check_C16 args
          else if p =? "C20" then check_C20 args
          else if p =? "C09" then check_C09 args
          else if p =? "C19" then check_C19 args
          else if (p =? "C01") || (p =? "C02") || (p =? "C03") || (p =? "C05") || (p =? "C06") || (p =? "C08") || (p =? "C12") then check_V p args
          else if (p =? "C04") || (p =? "C07") then check_P p args
          else if p =? "C10" then check_C10 args
          else if p =? "C15" then check_C15 args
          else if p =? "C18" then check_C18 args
          else if p =? "C17" then check_C17 args
          else if p =? "C11" then check_C11 args
          else if p =? "C14" then check_C14 args
          else [A "unknown-property"]))
  | _ => L [A "?"; A "decode-error"]
  end.
