(* services/helpers.rs encode_credential_attribute, services/verifier.rs normalize_encoded_attr *)
From Coq Require Import List String Ascii ZArith NArith Bool.
From AV Require Import Model.Str Model.Sha256.
Import ListNotations.
Open Scope string_scope.

Definition encode_hash (s : string) : string := dec_of_N (be_nat (sha256 (bytes_of_string s))).

Definition encode (s : string) : string :=
  match parse_i32 s with
  | Some v => z_to_string v
  | None => encode_hash s
  end.

(* The specification in the words of the property. *)
Definition encode_spec_fn (s : string) : string :=
  match i32_literal s with
  | Some v => z_to_string v
  | None => dec_of_N (be_nat (sha256 (bytes_of_string s)))
  end.

(* verifier.rs normalize_encoded_attr: parse::<i32>().map(to_string).unwrap_or(attr) *)
Definition normalize_encoded (s : string) : string :=
  match parse_i32 s with
  | Some v => z_to_string v
  | None => s
  end.
