(* The ideal CL functionality (DESIGN.md 3.3): what a sound and complete CL layer answers, as a
   function of WHAT THE SERVICE CODE PASSES TO THE CRATE and of the provenance of the proof.
   An ordinary Definition — the cryptographic assumption of the development, validated on every
   run because every implementation verdict is computed with the real crate. *)
From Coq Require Import List String ZArith NArith Bool.
From AV Require Import Model.Str Model.VTypes.
Import ListNotations.
Open Scope string_scope.
Open Scope list_scope.
Open Scope Z_scope.

Definition pred_holds (vals : list (string * string)) (p : string * ptype * Z) : bool :=
  let '(n, t, v) := p in
  match assoc n vals with
  | Some enc => match parse_i32 enc with
                | Some x => match t with GE => v <=? x | GT => v <? x | LE => x <=? v | LT => x <? v end
                | None => false end
  | None => false
  end.

(* the crate computes value+1 / value-1 in i32 for strict predicates: overflow panics in builds
   with overflow checks (the suite's profile) *)
Definition pred_overflows (p : string * ptype * Z) : bool :=
  let '(_, t, v) := p in
  match t with GT => v =? i32_max | LT => v =? i32_min | _ => false end.

(* one sub-proof as handed to the crate: (sub-proof, public key id, schema attribute set,
   optional (revocation key id, accumulator class)) *)
Definition cl_sub := (subproof * N * list string * option (N * N))%type.

Definition sub_ok (common : bool) (link0 : N) (pos : Z) (x : cl_sub) : bool :=
  let '(sp, key, attrs, reg) := x in
  let s := sp_src sp in
  negb (src_altered s) && N.eqb key (src_key s) && N.eqb (src_cred_link s) (src_used_link s)
  && (src_pos s =? pos)
  && set_eqb attrs (src_attrs s)
  && forallb (fun '(k, v) => match assoc k (src_values s) with Some e => String.eqb e v | None => false end) (sp_revealed sp)
  && forallb (pred_holds (src_values s)) (sp_preds sp)
  && match sp_nrp sp, reg with
     | Some n, Some (rk, acc) => nrp_valid n && N.eqb (nrp_regkey n) rk && N.eqb (nrp_acc n) acc
     | Some _, None => false                (* the proof's non-revocation part enters the challenge hash; without
                                               registry the verifier leaves it out and the hash differs *)
     | None, _ => true                      (* no non-revocation part: ProofVerifier::verify skips the check silently *)
     end
  && (negb common || N.eqb (src_used_link s) link0).

Fixpoint subs_ok (common : bool) (link0 : N) (pos : Z) (l : list cl_sub) : bool :=
  match l with
  | [] => true
  | x :: r => sub_ok common link0 pos x && subs_ok common link0 (pos + 1) r
  end.

Definition cl_verify (common_registered : bool) (subs : list cl_sub) (a : agg) (nonce : N) : outcome :=
  if negb (lenZ subs =? ag_count a) then Err
  else if existsb (fun '(sp, _, _, _) => existsb pred_overflows (sp_preds sp)) subs then Panic
  else
    let link0 := match subs with (sp, _, _, _) :: _ => src_used_link (sp_src sp) | [] => 0%N end in
    if negb (ag_altered a) && N.eqb (ag_nonce a) nonce && subs_ok common_registered link0 0 subs
       && (negb common_registered || ag_common a)
    then Accept else Reject.
