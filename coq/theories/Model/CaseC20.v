(* C20 case checker.
   I-cases: (I <kind> <string> (<new_ok> <validate_ok> <tryfrom_ok>) (<is_uri> <did> <schema> <creddef> <revreg>))
   S-cases: (S <issuer> (<attr>...) <create_schema_ok> <validate_ok>)
   R-cases: (R <entropy opt> <prover_did opt> <cred_def_id> <validate_ok> <new_ok opt>)
   O-cases: (O ((<kind> <id>)...) ((<kind> <id>)...))   inputs, ids found in returned objects *)
From Coq Require Import List String Bool.
From AV Require Import Model.Sexp Model.Ident.
Import ListNotations.
Open Scope string_scope.

Definition dec_kind (e : sexp) : option id_kind :=
  match e with
  | A "issuer" => Some KIssuer | A "schema" => Some KSchema
  | A "creddef" => Some KCredDef | A "revreg" => Some KRevReg
  | _ => None
  end.
Definition kind_eqb (a b : id_kind) : bool :=
  match a, b with
  | KIssuer, KIssuer | KSchema, KSchema | KCredDef, KCredDef | KRevReg, KRevReg => true
  | _, _ => false
  end.

Definition ok_C20_id (k : id_kind) (s : string) (outs : list bool) (flags : list bool) : bool :=
  let v := validate_id k s in
  negb (match outs with [] => true | _ => false end)
  && forallb (Bool.eqb v) outs
  && match flags with
     | [u; d; sc; cd; rr] =>
         Bool.eqb u (is_uri s) && Bool.eqb d (is_legacy_did s) && Bool.eqb sc (is_legacy_schema_id s)
         && Bool.eqb cd (is_legacy_cred_def_id s) && Bool.eqb rr (is_legacy_rev_reg_id s)
     | _ => false
     end.

Definition ok_C20_schema (issuer : string) (attrs : list string) (create_ok validate_ok : bool) : bool :=
  let v := schema_valid issuer attrs in Bool.eqb create_ok v && Bool.eqb validate_ok v.

Definition ok_C20_req (e d : option string) (cd : string) (validate_ok : bool) (new_ok : option bool) : bool :=
  let v := cred_request_valid e d cd in
  Bool.eqb validate_ok v && match new_ok with Some b => Bool.eqb b v | None => true end.

(* every identifier in an object the issuer API returned is one of the (validated) identifiers
   handed in, of the same type, and passes validation *)
Definition ok_C20_out (ins outs : list (id_kind * string)) : bool :=
  negb (match outs with [] => true | _ => false end)
  && forallb (fun i => validate_id (fst i) (snd i)) ins
  && forallb (fun o => existsb (fun i => kind_eqb (fst i) (fst o) && (snd i =? snd o)) ins
                       && validate_id (fst o) (snd o)) outs.

Definition check_C20 (args : list sexp) : list sexp :=
  match args with
  | [A "I"; k; s; outs; flags] =>
      match dec_kind k, dec_str s, dec_list dec_bool outs, dec_list dec_bool flags with
      | Some k', Some s', Some o', Some f' =>
          [A (if ok_C20_id k' s' o' f' then "ok" else "bad");
           A (if is_uri s' then "id:uri" else if validate_id k' s' then "id:legacy" else "id:rejected")]
      | _, _, _, _ => [A "decode-error"]
      end
  | [A "S"; i; attrs; c; v] =>
      match dec_str i, dec_list dec_str attrs, dec_bool c, dec_bool v with
      | Some i', Some a', Some c', Some v' =>
          [A (if ok_C20_schema i' a' c' v' then "ok" else "bad");
           A (if schema_valid i' a' then "schema:accepted" else "schema:rejected")]
      | _, _, _, _ => [A "decode-error"]
      end
  | [A "R"; e; d; cd; v; n] =>
      match dec_opt dec_str e, dec_opt dec_str d, dec_str cd, dec_bool v, dec_opt dec_bool n with
      | Some e', Some d', Some cd', Some v', Some n' =>
          [A (if ok_C20_req e' d' cd' v' n' then "ok" else "bad");
           A (if cred_request_valid e' d' cd' then "req:accepted" else "req:rejected")]
      | _, _, _, _, _ => [A "decode-error"]
      end
  | [A "O"; ins; outs] =>
      match dec_list (dec_pair dec_kind dec_str) ins, dec_list (dec_pair dec_kind dec_str) outs with
      | Some i', Some o' => [A (if ok_C20_out i' o' then "ok" else "bad"); A "issuer-output"]
      | _, _ => [A "decode-error"]
      end
  | _ => [A "decode-error"]
  end.
