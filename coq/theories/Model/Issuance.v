(* Issuance (C11) and credential-form conversion (C14).
   services/prover.rs create_credential_request / process_credential, services/issuer.rs
   create_credential, services/w3c/credential_conversion.rs, data_types/w3c/credential_attributes.rs,
   over an ideal CL issuance functionality with provenance: a blinded-secrets correctness proof
   verifies exactly under the key and offer nonce it was made for; a signature verifies exactly
   for the key, values, link secret, blinding factor and request nonce it was made with. *)
From Coq Require Import List String Ascii ZArith NArith Bool.
From AV Require Import Model.Str Model.Encode Model.VTypes Model.Prover.
Import ListNotations.
Open Scope string_scope.
Open Scope list_scope.

(* ---------- C11 ---------- *)
Record ikey := { ik_id : N; ik_attrs : list string }.               (* issuer key and the normalised attribute set it was made for *)
Record ioffer := { io_key : N; io_nonce : N }.                      (* whose key-correctness proof it carries; identity of its nonce *)
Record ireq := { ir_key : N; ir_link : N; ir_blinding : N;          (* blinded against which key, which link secret, which blinding factor *)
                 ir_offer_nonce : N; ir_nonce : N; ir_altered : bool }.
Record isig := { is_key : N; is_values : list (string * string); is_link : N; is_blinding : N; is_nonce : N; is_altered : bool }.

(* prover::create_credential_request: the key-correctness proof of the offer is checked against
   the credential definition the holder passes *)
Definition make_request (cd_key : N) (o : ioffer) (link blinding nonce : N) : res ireq :=
  _ <- guard (N.eqb (io_key o) cd_key) ;;
  ROk {| ir_key := cd_key; ir_link := link; ir_blinding := blinding; ir_offer_nonce := io_nonce o; ir_nonce := nonce; ir_altered := false |}.

(* issuer::create_credential *)
Definition norm_values (values : list (string * string)) : list (string * string) := map (fun '(n, e) => (cv n, e)) values.
Definition issue (k : ikey) (o : ioffer) (r : ireq) (values : list (string * string)) : res isig :=
  _ <- guard (N.eqb (ir_key r) (ik_id k) && N.eqb (ir_offer_nonce r) (io_nonce o) && negb (ir_altered r)) ;;
  _ <- guard (set_eqb (keys (norm_values values)) (ik_attrs k)) ;;
  ROk {| is_key := ik_id k; is_values := norm_values values; is_link := ir_link r; is_blinding := ir_blinding r;
         is_nonce := ir_nonce r; is_altered := false |}.

(* build_credential_values on the holder's side: the values the credential shows, then the holder's link secret under
   the name master_secret -- an entry of that (normalised) name among the values is replaced by it *)
Definition holder_values (fed : list (string * string)) : list (string * string) :=
  List.filter (fun kv => negb (String.eqb (fst kv) "master_secret")) (norm_values fed).
(* prover::process_credential (both forms; [fed] = what the credential shows) *)
Definition process (s : isig) (fed : list (string * string)) (cd_key link md_blinding md_nonce : N) : res unit :=
  guard (negb (is_altered s) && N.eqb cd_key (is_key s) && N.eqb link (is_link s)
         && N.eqb md_blinding (is_blinding s) && N.eqb md_nonce (is_nonce s)
         && values_agree (holder_values fed) (is_values s)).

(* what a processed credential is, for the prover / verifier models *)
Definition source_of (s : isig) : source :=
  {| src_key := is_key s; src_attrs := keys (is_values s); src_values := is_values s;
     src_cred_link := is_link s; src_used_link := 0%N; src_pos := 0%Z; src_altered := is_altered s |}.

(* ---------- C14 ---------- *)
(* From<&CredentialValues> for CredentialSubject: numbers detected by i32 parse of the raw value *)
Definition subject_value (raw : string) : attr_value :=
  match parse_i32 raw with Some n => VNum n | None => VStr raw end.
Definition to_subject (vals : list (string * (string * string))) : list (string * attr_value) :=
  map (fun '(n, (raw, _)) => (n, subject_value raw)) vals.
(* CredentialSubject::encode *)
Definition encode_value (v : attr_value) : res (string * string) :=
  match v with
  | VStr s => ROk (s, encode s)
  | VNum z => ROk (z_to_string z, z_to_string z)
  | VBool _ => RErr
  end.
Definition from_subject (subj : list (string * attr_value)) : res (list (string * (string * string))) :=
  mapR (fun '(n, v) => rv <- encode_value v ;; ROk (n, rv)) subj.

(* the parts of a credential that conversion copies *)
Record cred_rest := { cr_schema : string; cr_creddef : string; cr_revreg : option string;
                      cr_sig : N; cr_scp : N; cr_rev : option N; cr_witness : option N }.
(* validity of the legacy form (Credential::validate): a registry id needs registry value and witness (the converse is not demanded by the code and not by this model) *)
Definition legacy_valid (r : cred_rest) : bool :=
  match cr_revreg r with
  | Some _ => is_some (cr_rev r) && is_some (cr_witness r)
  | None => true end.
(* W3CCredential::validate + get_credential_signature_proof *)
Record w3c_shape := { ws_context_ok : bool; ws_type_ok : bool; ws_has_sig_proof : bool }.
Definition w3c_valid (s : w3c_shape) : bool := ws_context_ok s && ws_type_ok s && ws_has_sig_proof s.

Definition credential_to_w3c (vals : list (string * (string * string))) (r : cred_rest)
  : res (list (string * attr_value) * cred_rest) :=
  _ <- guard (legacy_valid r) ;; ROk (to_subject vals, r).
Definition credential_from_w3c (shape : w3c_shape) (subj : list (string * attr_value)) (r : cred_rest)
  : res (list (string * (string * string)) * cred_rest) :=
  _ <- guard (w3c_valid shape) ;; vals <- from_subject subj ;; ROk (vals, r).
Definition enc_of (vals : list (string * (string * string))) : list (string * string) := map (fun '(n, (_, e)) => (n, e)) vals.
Definition canonical (vals : list (string * (string * string))) : bool :=
  forallb (fun '(_, (raw, e)) => String.eqb e (encode raw)) vals.
