(* Which repaired behaviours the CURRENT /repo code has. A flag is flipped to true in the same
   round as the corresponding "fix:" commit; the correspondence run of every verifier/prover
   property validates the choice against the real code on every run. *)
From AV Require Import Model.VTypes.

Definition cfg_current : vcfg :=
  {| f_check_preds := true; f_unrev_in_schema := true; f_unrev_intervals := true;
     f_gate_on_creddef := true; f_require_nrp := true; f_w3c_strict_subject := true;
     f_common_link := true; f_bind_schema := true; f_w3c_norm_keys := true; f_marker := true;
     f_no_index_panic := true; f_no_unwrap_panic := true; f_pred_range := true;
     f_w3c_pred_cv := true; f_group_unrevealed := true; f_group_keys := true; f_w3c_nrp_search := true; f_restr_revealed_first := true |}.

(* the configuration the positive theorems are about *)
Definition cfg_fixed : vcfg :=
  {| f_check_preds := true; f_unrev_in_schema := true; f_unrev_intervals := true;
     f_gate_on_creddef := true; f_require_nrp := true; f_w3c_strict_subject := true;
     f_common_link := true; f_bind_schema := true; f_w3c_norm_keys := true; f_marker := true;
     f_no_index_panic := true; f_no_unwrap_panic := true; f_pred_range := true;
     f_w3c_pred_cv := true; f_group_unrevealed := true; f_group_keys := true; f_w3c_nrp_search := true; f_restr_revealed_first := true |}.

(* every repaired behaviour is in the current code (each flag was flipped with its "fix:" commit) *)
Lemma cfg_current_is_fixed : cfg_current = cfg_fixed.
Proof. reflexivity. Qed.
