(* data_types/pres_request.rs NonRevokedInterval::{compare_and_set, update_with_override, is_valid},
   services/helpers.rs get_requested_non_revoked_interval. Timestamps are u64, modelled as Z. *)
From Coq Require Import List String ZArith Bool.
From AV Require Import Model.VTypes.
Import ListNotations.
Open Scope Z_scope.

Definition u64max : Z := 18446744073709551615.

(* compare_and_set: self := a, to_compare := b *)
Definition merge (a b : interval) : interval :=
  {| ifrom := match ifrom a, ifrom b with
              | Some x, Some y => if x <? y then Some y else Some x
              | None, Some y => Some y
              | f, _ => f end;
     ito := match ito a, ito b with
            | Some x, Some y => if y <? x then Some y else Some x
            | None, Some y => Some y
            | t, _ => t end |}.
Definition merge_opt (a b : option interval) : option interval :=
  match a, b with Some x, Some y => Some (merge x y) | Some x, None => Some x | None, y => y end.

Fixpoint assocZ (k : Z) (m : list (Z * Z)) : option Z :=
  match m with [] => None | (a, b) :: r => if a =? k then Some b else assocZ k r end.

(* update_with_override: only the lower bound, only when the map has an entry for it *)
Definition override (m : list (Z * Z)) (i : interval) : interval :=
  {| ifrom := match ifrom i with
              | Some f => match assocZ f m with Some o => Some o | None => Some f end
              | None => None end;
     ito := ito i |}.

Definition lo (i : interval) : Z := match ifrom i with Some f => f | None => 0 end.
Definition hi (i : interval) : Z := match ito i with Some t => t | None => u64max end.
(* is_valid: Err iff t < from.unwrap_or(0) || t > to.unwrap_or(u64::MAX) *)
Definition is_valid (i : interval) (t : Z) : bool := negb ((t <? lo i) || (hi i <? t)).

(* get_requested_non_revoked_interval *)
Definition requested_interval (revreg : option string) (local global : option interval)
           (ovr : option (list (string * list (Z * Z)))) : option interval :=
  match revreg with
  | None => local
  | Some id =>
      let i := match local with Some l => Some l | None => global end in
      match ovr with
      | Some maps => match assoc id maps with Some m => option_map (override m) i | None => i end
      | None => i
      end
  end.
