(* utils/query.rs: the WQL query type, its parser (Deserialize for Query: parse_query,
   parse_operator, parse_list_operators, parse_single_operator and the legacy array form)
   and its printer (AbstractQuery::to_value). *)
From Coq Require Import List String ZArith Bool.
From AV Require Import Model.Sexp Model.Json.
Import ListNotations.
Open Scope string_scope.

Inductive query :=
| And (l : list query) | Or (l : list query) | Not (q : query)
| Eq (k v : string) | Neq (k v : string) | Gt (k v : string) | Gte (k v : string)
| Lt (k v : string) | Lte (k v : string) | Like (k v : string)
| QIn (k : string) (vs : list string) | Exist (ks : list string).

Definition strs : list jv -> option (list string) := mapM as_str.

Definition parse_single (op k : string) (v : jv) : option query :=
  match v with
  | JStr s =>
      if op =? "$neq" then Some (Neq k s) else if op =? "$gt" then Some (Gt k s)
      else if op =? "$gte" then Some (Gte k s) else if op =? "$lt" then Some (Lt k s)
      else if op =? "$lte" then Some (Lte k s) else if op =? "$like" then Some (Like k s)
      else None
  | JArr vs => if op =? "$in" then option_map (QIn k) (strs vs) else None
  | _ => None
  end.

Definition finish (ops : list query) : query := match ops with [q] => q | _ => And ops end.
Definition keep (l : list (option query)) : list query :=
  flat_map (fun o => match o with Some q => [q] | None => [] end) l.

(* parse_operator, parameterised by the recursive call (parse_query) *)
Definition pop (rec : jv -> option query) (kv : string * jv) : option (option query) :=
  let (k, v) := kv in
  if k =? "$and" then
    match v with
    | JArr [] => Some None
    | JArr vs => option_map (fun l => Some (And l)) (mapM (fun x => if is_obj x then rec x else None) vs)
    | _ => None
    end
  else if k =? "$or" then
    match v with
    | JArr [] => Some None
    | JArr vs => option_map (fun l => Some (Or l)) (mapM (fun x => if is_obj x then rec x else None) vs)
    | _ => None
    end
  else if k =? "$not" then
    (if is_obj v then option_map (fun q => Some (Not q)) (rec v) else None)
  else if k =? "$exist" then
    match v with
    | JStr s => Some (Some (Exist [s]))
    | JArr [] => Some None
    | JArr ks => option_map (fun l => Some (Exist l)) (strs ks)
    | _ => None
    end
  else
    match v with
    | JStr s => Some (Some (Eq k s))
    | JObj [(op, v')] => option_map Some (parse_single op k v')
    | _ => None
    end.

(* parse_query on the object's entries *)
Fixpoint pq (j : jv) : option query :=
  match j with
  | JObj m => option_map (fun l => finish (keep l)) (mapM (pop pq) m)
  | _ => None
  end.

(* legacy list-of-filters form: every element must be an object; null-valued entries are
   dropped; empty filters are dropped; the rest is wrapped in {"$or": [...]} *)
Definition legacy_filter (j : jv) : option (list (string * jv)) :=
  match j with
  | JObj m => Some (filter (fun kv => negb (is_null (snd kv))) m)
  | _ => None
  end.
Definition nonempty_filters (fs : list (list (string * jv))) : list jv :=
  flat_map (fun m => match m with [] => [] | _ => [JObj m] end) fs.

(* Deserialize for Query *)
Definition parse_restriction (j : jv) : option query :=
  match j with
  | JObj _ => pq j
  | JArr arr =>
      match mapM legacy_filter arr with
      | Some fs => pq (JObj [("$or", JArr (nonempty_filters fs))])
      | None => None
      end
  | _ => None
  end.

Definition obj1 (k : string) (v : jv) : jv := JObj [(k, v)].
Definition jstrs (l : list string) : jv := JArr (map JStr l).

(* AbstractQuery::to_value *)
Fixpoint tv (q : query) : jv :=
  match q with
  | Eq k v => obj1 k (JStr v)
  | Neq k v => obj1 k (obj1 "$neq" (JStr v))
  | Gt k v => obj1 k (obj1 "$gt" (JStr v))
  | Gte k v => obj1 k (obj1 "$gte" (JStr v))
  | Lt k v => obj1 k (obj1 "$lt" (JStr v))
  | Lte k v => obj1 k (obj1 "$lte" (JStr v))
  | Like k v => obj1 k (obj1 "$like" (JStr v))
  | QIn k vs => obj1 k (obj1 "$in" (jstrs vs))
  | Exist ks => obj1 "$exist" (jstrs ks)
  | And [] => JObj []
  | And l => obj1 "$and" (JArr (map tv l))
  | Or [] => JObj []
  | Or l => obj1 "$or" (JArr (map tv l))
  | Not q => obj1 "$not" (tv q)
  end.

Fixpoint list_eqb {T} (e : T -> T -> bool) (a b : list T) : bool :=
  match a, b with
  | [], [] => true
  | x :: a', y :: b' => e x y && list_eqb e a' b'
  | _, _ => false
  end.

Fixpoint query_eqb (a b : query) {struct a} : bool :=
  match a, b with
  | And x, And y | Or x, Or y =>
      (fix go (x y : list query) : bool :=
         match x, y with
         | [], [] => true
         | p :: x', q :: y' => query_eqb p q && go x' y'
         | _, _ => false
         end) x y
  | Not x, Not y => query_eqb x y
  | Eq k v, Eq k' v' | Neq k v, Neq k' v' | Gt k v, Gt k' v' | Gte k v, Gte k' v'
  | Lt k v, Lt k' v' | Lte k v, Lte k' v' | Like k v, Like k' v' => (k =? k') && (v =? v')
  | QIn k vs, QIn k' vs' => (k =? k') && list_eqb String.eqb vs vs'
  | Exist ks, Exist ks' => list_eqb String.eqb ks ks'
  | _, _ => false
  end.

(* case format for queries *)
Fixpoint dec_query (e : sexp) : option query :=
  match e with
  | L (A "and" :: l) => option_map And (mapM dec_query l)
  | L (A "or" :: l) => option_map Or (mapM dec_query l)
  | L [A "not"; q] => option_map Not (dec_query q)
  | L [A op; k; v] =>
      match dec_str k with
      | None => None
      | Some k' =>
          if op =? "in" then option_map (QIn k') (dec_list dec_str v)
          else match dec_str v with
               | None => None
               | Some v' =>
                   if op =? "eq" then Some (Eq k' v') else if op =? "neq" then Some (Neq k' v')
                   else if op =? "gt" then Some (Gt k' v') else if op =? "gte" then Some (Gte k' v')
                   else if op =? "lt" then Some (Lt k' v') else if op =? "lte" then Some (Lte k' v')
                   else if op =? "like" then Some (Like k' v') else None
               end
      end
  | L [A "exist"; ks] => option_map Exist (dec_list dec_str ks)
  | _ => None
  end.
