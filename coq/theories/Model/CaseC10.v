(* C10 case checker.
   (W <n> <by_default> <idx> <s> (<bits of L0> ... <bits of Lm>) ((<kind> <k> <src opt> <outcome> <class>) ...))
   kind: scratch | issuer | inc ; outcome: accept | reject | err | panic (err = no state / no presentation) *)
From Coq Require Import List String Ascii ZArith Bool.
From AV Require Import Model.Sexp Model.RevList Model.Witness Model.CaseC09.
Import ListNotations.
Open Scope string_scope.

Inductive dkind := DScratch | DIssuer | DInc.
Record dentry := { d_kind : dkind; d_k : Z; d_src : option Z; d_accepted : bool; d_made : bool; d_class : Z }.

Definition dec_dentry (e : sexp) : option dentry :=
  match e with
  | L [A kind; k; src; A o; c] =>
      match (if kind =? "scratch" then Some DScratch else if kind =? "issuer" then Some DIssuer else if kind =? "inc" then Some DInc else None),
            dec_Z k, dec_opt dec_Z src, dec_Z c with
      | Some kd, Some k', Some src', Some c' =>
          Some {| d_kind := kd; d_k := k'; d_src := src'; d_accepted := (o =? "accept"); d_made := negb (c' =? -1)%Z; d_class := c' |}
      | _, _, _, _ => None end
  | _ => None
  end.

Local Open Scope Z_scope.

(* the model's witness of every derivation, in order (None = no state) *)
Definition model_wit (n i : Z) (bd : bool) (lists : list (list bool)) (a_issue : G) (done : list (option (Z * G))) (d : dentry)
  : option (Z * G) :=
  match nthZ lists (d_k d) with
  | None => None
  | Some bk =>
      match d_kind d with
      | DScratch => Some (d_k d, scratch_wit n i bk)
      | DIssuer => Some (d_k d, issuer_wit n i a_issue)
      | DInc =>
          match d_src d with
          | Some s => match nthZ done s with
                      | Some (Some (ks, w)) => match nthZ lists ks with
                                               | Some bs => Some (d_k d, inc_wit n i bs bk w)
                                               | None => None end
                      | _ => None end
          | None => None end
      end
  end.
Fixpoint model_wits (n i : Z) (bd : bool) (lists : list (list bool)) (a_issue : G) (ds : list dentry) (done : list (option (Z * G)))
  : list (option (Z * G)) :=
  match ds with
  | [] => done
  | d :: r => model_wits n i bd lists a_issue r (done ++ [model_wit n i bd lists a_issue done d])
  end.

Definition bit_at (b : list bool) (i : Z) : bool := match nthZ b i with Some x => x | None => true end.

(* per entry: (violates the property?, known class, model/implementation disagreement?) *)
Definition judge (n i : Z) (bd : bool) (lists : list (list bool)) (a_issue : G) (ws : list (option (Z * G))) (ds : list dentry)
           (pos : Z) (d : dentry) : bool * string * bool :=
  match nthZ lists (d_k d), nthZ ws pos with
  | Some bk, Some (Some (_, w)) =>
      let A := list_acc n bd bk in
      let valid := wvalid_b n i A w in
      let rel_bad := negb (Bool.eqb (d_accepted d) valid) || negb (d_made d) in
      if bit_at bk i then
        (* revoked in this list: nothing may be accepted *)
        (d_accepted d, "", rel_bad)
      else
        let must :=
          match d_kind d with
          | DScratch => true
          | DIssuer => weq_b n A a_issue                      (* accumulator unchanged since issuance *)
          | DInc => match d_src d with
                    | Some s => match nthZ ds s, nthZ ws s with
                                | Some sd, Some (Some (ks, sw)) =>
                                    match nthZ lists ks with
                                    | Some bs => wvalid_b n i (list_acc n bd bs) sw && negb (bit_at bs i)   (* a valid older state *)
                                    | None => false end
                                | _, _ => false end
                    | None => false end
          end in
        let known :=
          match d_kind d with
          | DScratch => if negb bd then "c10-scratch-on-demand" else if bit_at bk 0 then "c10-scratch-index0-revoked" else ""
          | _ => "" end in
        (must && negb (d_accepted d), known, rel_bad)
  | Some _, _ => (false, "", d_made d)          (* the model has no witness: the library must not have one either *)
  | None, _ => (false, "", true)
  end.

(* accepted witnesses for one list are one witness; and classes agree with the model's equality *)
Fixpoint indexed {A} (k : Z) (l : list A) : list (Z * A) := match l with [] => [] | x :: r => (k, x) :: indexed (k + 1) r end.
Definition classes_ok (n : Z) (ws : list (option (Z * G))) (ds : list dentry) : bool :=
  let obs := flat_map (fun '(d, w) => match w with Some (_, g) => if d_made d then [(d_class d, g)] else [] | None => [] end) (combine ds ws) in
  (fix go (l : list (Z * G)) : bool :=
     match l with
     | [] => true
     | (c, g) :: r => forallb (fun o => Bool.eqb (Z.eqb c (fst o)) (weq_b n g (snd o))) r && go r
     end) obs.
Definition same_witness_ok (ds : list dentry) : bool :=
  forallb (fun d1 => forallb (fun d2 => negb (d_accepted d1 && d_accepted d2 && (d_k d1 =? d_k d2)) || (d_class d1 =? d_class d2)) ds) ds.

Definition check_C10 (args : list sexp) : list sexp :=
  match args with
  | [A "W"; n; bd; idx; s; lists; ders] =>
      match dec_Z n, dec_bool bd, dec_Z idx, dec_Z s, dec_list dec_bits lists, dec_list dec_dentry ders with
      | Some n', Some bd', Some i, Some s', Some lists', Some ds =>
          match nthZ lists' s' with
          | Some bs =>
              let rs := {| bits := bs; acc := list_acc n' bd' bs; ts := None |} in
              match issue_acc rs i with
              | Some a_issue =>
                  let ws := model_wits n' i bd' lists' a_issue ds [] in
                  let js := map (fun '(pos, d) => judge n' i bd' lists' a_issue ws ds pos d) (indexed 0 ds) in
                  let bad := existsb (fun j => fst (fst j) && (snd (fst j) =? "")%string) js || negb (same_witness_ok ds) in
                  let known := flat_map (fun j => if fst (fst j) && negb (snd (fst j) =? "")%string then [snd (fst j)] else []) js in
                  let rel := existsb (fun j => snd j) js || negb (classes_ok n' ws ds) in
                  [A (if bad then "bad" else match known with k :: _ => "known:" ++ k | [] => if rel then "rel" else "ok" end);
                   A (if bd' then "mode:by-default" else "mode:on-demand");
                   A (if existsb (fun d => match nthZ lists' (d_k d) with Some bk => bit_at bk i | None => false end) ds then "revoked-at-some-list" else "never-revoked")]
              | None => [A "decode-error"; A "issue-refused-by-model"]
              end
          | None => [A "decode-error"]
          end
      | _, _, _, _, _, _ => [A "decode-error"]
      end
  | _ => [A "decode-error"]
  end.
