(* The holder side: services/prover.rs create_presentation (+ update_requested_proof,
   CLProofBuilder::add_sub_proof) and services/w3c/prover.rs create_presentation
   (+ build_credential_attributes), over an ideal CL *prover* that builds a sub-proof exactly when
   the crate would: the fed values cover the schema, every revealed name and predicate attribute
   is a credential attribute, no attribute is both revealed and under a predicate, and every
   predicate holds of the fed values. The sub-proof it returns carries its provenance (what was
   signed, which link secret went in, at which position), which is what Model/CL.v decides on.
   The flags of [pcfg] select between the behaviour before and after the three prover-side fix
   commits (true = repaired). *)
From Coq Require Import List String Ascii ZArith NArith Bool.
From AV Require Import Model.Str Model.Encode Model.Query Model.VTypes Model.Interval Model.CL Model.VerifierLegacy Model.VerifierW3C.
Import ListNotations.
Open Scope string_scope.
Open Scope list_scope.
Open Scope Z_scope.

Record pcfg := {
  pf_w3c_zip : bool;          (* W3C: sub-proofs are zipped with the NON-EMPTY entries only *)
  pf_group_reveal : bool;     (* W3C: group values enter the derived subject only when the referent is revealed *)
  pf_unrev_intervals : bool   (* intervals of unrevealed referents are collected by the prover too *)
}.
Definition pcfg_current : pcfg := {| pf_w3c_zip := true; pf_group_reveal := true; pf_unrev_intervals := true |}.
Definition pcfg_fixed : pcfg := {| pf_w3c_zip := true; pf_group_reveal := true; pf_unrev_intervals := true |}.

(* a held credential, both forms of the same thing, with what the issuer signed *)
Record hcred := { hc_schema : string; hc_creddef : string; hc_revreg : option string; hc_issuer : string;
                  hc_values : list (string * (string * string));      (* legacy: name |-> (raw, encoded) *)
                  hc_subject : list (string * attr_value);            (* W3C credentialSubject *)
                  hc_src : source }.
(* PresentCredential: the holder's selection for one credential *)
Record present := { pr_cred : hcred; pr_ts : option Z; pr_state : option nrp;
                    pr_attrs : list (string * bool); pr_preds : list string }.
Definition pr_empty (p : present) : bool := match pr_attrs p, pr_preds p with [], [] => true | _, _ => false end.

Fixpoint nodup_str (l : list string) : bool := match l with [] => true | x :: r => negb (mem x r) && nodup_str r end.
Definition is_some {A} (o : option A) : bool := match o with Some _ => true | None => false end.
(* PresentCredentials::validate *)
Definition validate_sel (ps : list present) : bool :=
  nodup_str (flat_map (fun p => map fst (pr_attrs p)) ps) && nodup_str (flat_map pr_preds ps)
  && forallb (fun p => Bool.eqb (is_some (pr_ts p)) (is_some (pr_state p))) ps.


(* ---- the ideal CL prover ---- *)
Definition values_agree (fed signed : list (string * string)) : bool :=
  forallb (fun '(k, v) => match assoc k signed with Some e => String.eqb e v | None => false end) fed
  && forallb (fun '(k, _) => is_some (assoc k fed)) signed.
Definition cl_prove (src : source) (fed : list (string * string)) (schema_attrs : list string)
           (revealed : list string) (preds : list (string * ptype * Z)) (nrpo : option nrp) (link : N) (pos : Z)
  : res subproof :=
  _ <- guard (set_eqb (keys fed) schema_attrs) ;;
  rv <- mapR (fun n => e <- of_opt (assoc n fed) ;; ROk (n, e)) (dedup_s revealed) ;;
  _ <- guard (forallb (fun p => mem (fst (fst p)) (keys fed)) preds) ;;
  _ <- guard (negb (existsb (fun p => mem (fst (fst p)) revealed) preds)) ;;
  _ <- guard (forallb (pred_holds fed) preds) ;;
  _ <- (if existsb pred_overflows preds then RPanic else ROk tt) ;;
  ROk {| sp_revealed := rv; sp_preds := preds; sp_nrp := nrpo;
         sp_src := {| src_key := src_key src; src_attrs := src_attrs src; src_values := src_values src;
                      src_cred_link := src_cred_link src; src_used_link := link; src_pos := pos;
                      src_altered := src_altered src || negb (values_agree fed (src_values src)) |} |}.

Section Prover.
  Context (pc : pcfg).

  (* CLProofBuilder::add_sub_proof, shared by both formats; [fed] = build_credential_values *)
  Definition prover_sub_proof (R : request) (cx : ctx) (link : N) (pos : Z) (p : present) (fed : list (string * string))
    : res subproof :=
    let c := pr_cred p in
    sc <- of_opt (assoc (hc_schema c) (cx_schemas cx)) ;;
    _ <- of_opt (assoc (hc_creddef c) (cx_creddefs cx)) ;;
    let rrefs := map fst (List.filter snd (pr_attrs p)) in                         (* get_revealed_attributes *)
    let urefs := map fst (List.filter (fun x => negb (snd x)) (pr_attrs p)) in
    ais <- mapR (fun r => of_opt (assoc r (rq_attrs R))) rrefs ;;
    uis <- (if pf_unrev_intervals pc then mapR (fun r => of_opt (assoc r (rq_attrs R))) urefs else ROk []) ;;
    pis <- mapR (fun r => of_opt (assoc r (rq_preds R))) (pr_preds p) ;;
    let names := map cv (flat_map names_of ais) in
    let a := fold_left (fun acc ai => merge_opt acc (ai_nr ai)) ais None in
    let u := fold_left (fun acc ai => merge_opt acc (ai_nr ai)) uis None in
    let pi := fold_left (fun acc pi => merge_opt acc (pi_nr pi)) pis None in
    let local := merge_opt (merge_opt a u) pi in
    (* get_non_revoked_interval: only when the credential names a registry *)
    let iv := match hc_revreg c with Some _ => (match local with Some l => Some l | None => rq_nr R end) | None => None end in
    cl_prove (hc_src c) fed (map cv (sc_attrs sc)) names
             (map (fun pi => (cv (pi_name pi), pi_type pi, pi_value pi)) pis)
             (match iv with Some _ => pr_state p | None => None end) link pos.

  (* ----- legacy ----- *)
  Definition fed_legacy (c : hcred) : list (string * string) := map (fun '(n, (_, e)) => (cv n, e)) (hc_values c).
  (* get_credential_values_for_attribute *)
  Definition find_value (c : hcred) (name : string) : option (string * string) :=
    option_map snd (find (fun kv => String.eqb (cv (fst kv)) (cv name)) (hc_values c)).

  Definition rp_add_revealed r v rp := {| rp_revealed := (r, v) :: rp_revealed rp; rp_groups := rp_groups rp; rp_self := rp_self rp; rp_unrev := rp_unrev rp; rp_preds := rp_preds rp |}.
  Definition rp_add_group r v rp := {| rp_revealed := rp_revealed rp; rp_groups := (r, v) :: rp_groups rp; rp_self := rp_self rp; rp_unrev := rp_unrev rp; rp_preds := rp_preds rp |}.
  Definition rp_add_unrev r v rp := {| rp_revealed := rp_revealed rp; rp_groups := rp_groups rp; rp_self := rp_self rp; rp_unrev := (r, v) :: rp_unrev rp; rp_preds := rp_preds rp |}.
  Definition rp_add_pred r v rp := {| rp_revealed := rp_revealed rp; rp_groups := rp_groups rp; rp_self := rp_self rp; rp_unrev := rp_unrev rp; rp_preds := (r, v) :: rp_preds rp |}.

  (* update_requested_proof, one referent *)
  Definition upd_attr (R : request) (c : hcred) (k : Z) (rp : req_proof) (x : string * bool) : res req_proof :=
    let '(r, revealed) := x in
    if revealed then
      ai <- of_opt_panic (assoc r (rq_attrs R)) ;;                               (* proof_req.requested_attributes[attr_referent] *)
      match ai_name ai, ai_names ai with
      | Some n, _ => v <- of_opt (find_value c n) ;; ROk (rp_add_revealed r (k, fst v, snd v) rp)
      | None, Some ns => vs <- mapR (fun n => v <- of_opt (find_value c n) ;; ROk (n, v)) ns ;; ROk (rp_add_group r (k, vs) rp)
      | None, None => ROk rp
      end
    else ROk (rp_add_unrev r k rp).
  Fixpoint upd_attrs (R : request) (c : hcred) (k : Z) (l : list (string * bool)) (rp : req_proof) : res req_proof :=
    match l with [] => ROk rp | x :: r => rp' <- upd_attr R c k rp x ;; upd_attrs R c k r rp' end.
  Definition upd_rp (R : request) (p : present) (k : Z) (rp : req_proof) : res req_proof :=
    rp1 <- upd_attrs R (pr_cred p) k (pr_attrs p) rp ;;
    ROk (fold_left (fun acc r => rp_add_pred r k acc) (pr_preds p) rp1).

  Definition ident_of (p : present) : identifier :=
    let c := pr_cred p in {| id_schema := hc_schema c; id_creddef := hc_creddef c; id_revreg := hc_revreg c; id_ts := pr_ts p |}.

  Fixpoint legacy_loop (R : request) (cx : ctx) (link : N) (ps : list present) (k : Z) (rp : req_proof)
    : res (req_proof * list subproof * list identifier) :=
    match ps with
    | [] => ROk (rp, [], [])
    | p :: r =>
        if pr_empty p then legacy_loop R cx link r k rp
        else
          rp' <- upd_rp R p k rp ;;
          sp <- prover_sub_proof R cx link k p (fed_legacy (pr_cred p)) ;;
          rest <- legacy_loop R cx link r (k + 1) rp' ;;
          let '(rpf, sps, ids) := rest in ROk (rpf, sp :: sps, ident_of p :: ids)
    end.
  Definition empty_rp (self : list (string * string)) : req_proof :=
    {| rp_revealed := []; rp_groups := []; rp_self := self; rp_unrev := []; rp_preds := [] |}.
  Definition create_legacy (R : request) (cx : ctx) (link : N) (ps : list present) (self : list (string * string)) : res presentation :=
    _ <- guard (negb (forallb pr_empty ps && match self with [] => true | _ => false end)) ;;
    _ <- guard (validate_sel ps) ;;
    x <- legacy_loop R cx link ps 0 (empty_rp self) ;;
    let '(rp, sps, ids) := x in
    ROk {| p_proofs := sps; p_agg := {| ag_nonce := rq_nonce R; ag_count := lenZ sps; ag_altered := false; ag_common := true |};
           p_rp := rp; p_ids := ids |}.

  (* ----- W3C ----- *)
  (* CredentialSubject::encode *)
  Definition fed_w3c (c : hcred) : res (list (string * string)) :=
    mapR (fun '(n, v) => match v with
                         | VStr s => ROk (cv n, encode s)
                         | VNum z => ROk (cv n, z_to_string z)
                         | VBool _ => RErr end) (hc_subject c).
  Definition as_w3c (c : hcred) : w3c_cred := {| wc_issuer := hc_issuer c; wc_subject := hc_subject c; wc_method := ""; wc_pv := None |}.
  Definition subj_add (k : string) (v : attr_value) (s : list (string * attr_value)) :=
    (k, v) :: List.filter (fun kv => negb (String.eqb (fst kv) k)) s.

  Definition subj_attr (R : request) (c : hcred) (s : list (string * attr_value)) (x : string * bool) : res (list (string * attr_value)) :=
    let '(r, reveal) := x in
    ai <- of_opt (assoc r (rq_attrs R)) ;;
    s1 <- match ai_name ai with
          | Some n => kv <- of_opt (get_ci (as_w3c c) n) ;; ROk (if reveal then subj_add (fst kv) (snd kv) s else s)
          | None => ROk s end ;;
    match ai_names ai with
    | Some ns => fold_left (fun a n => s' <- a ;; kv <- of_opt (get_ci (as_w3c c) n) ;;
                                       ROk (if reveal || negb (pf_group_reveal pc) then subj_add (fst kv) (snd kv) s' else s'))
                           ns (ROk s1)
    | None => ROk s1 end.
  Definition subj_pred (R : request) (c : hcred) (s : list (string * attr_value)) (r : string) : res (list (string * attr_value)) :=
    pi <- of_opt (assoc r (rq_preds R)) ;; kv <- of_opt (get_ci (as_w3c c) (pi_name pi)) ;;
    match assoc (fst kv) s with
    | Some (VBool _) => ROk s
    | Some _ => RErr
    | None => ROk ((fst kv, VBool true) :: s) end.
  Fixpoint foldR {A S} (f : S -> A -> res S) (l : list A) (s : S) : res S :=
    match l with [] => ROk s | x :: r => s' <- f s x ;; foldR f r s' end.
  (* build_credential_attributes *)
  Definition build_subject (R : request) (p : present) : res (list (string * attr_value)) :=
    s1 <- foldR (subj_attr R (pr_cred p)) (pr_attrs p) [] ;;
    foldR (subj_pred R (pr_cred p)) (pr_preds p) s1.

  Fixpoint w3c_subs (R : request) (cx : ctx) (link : N) (ps : list present) (k : Z) : res (list subproof) :=
    match ps with
    | [] => ROk []
    | p :: r =>
        if pr_empty p then w3c_subs R cx link r k
        else fed <- fed_w3c (pr_cred p) ;;
             sp <- prover_sub_proof R cx link k p fed ;;
             sps <- w3c_subs R cx link r (k + 1) ;; ROk (sp :: sps)
    end.
  Definition create_w3c (R : request) (cx : ctx) (link : N) (ps : list present) : res w3c_pres :=
    _ <- guard (negb (forallb pr_empty ps)) ;;
    _ <- guard (validate_sel ps) ;;
    sps <- w3c_subs R cx link ps 0 ;;
    let entries := if pf_w3c_zip pc then List.filter (fun p => negb (pr_empty p)) ps else ps in
    creds <- mapR (fun '(p, sp) =>
               subj <- build_subject R p ;;
               let c := pr_cred p in
               ROk {| wc_issuer := hc_issuer c; wc_subject := subj; wc_method := hc_creddef c;
                      wc_pv := Some (ident_of p, sp) |})
             (combine entries sps) ;;
    ROk {| wp_shape_ok := true; wp_creds := creds;
           wp_agg := Some {| ag_nonce := rq_nonce R; ag_count := lenZ sps; ag_altered := false; ag_common := true |} |}.
End Prover.
