(* C19 — tails files are content-addressed, readable back, and published atomically.
   Property theorems only; every proof is `exact <lemma>`. *)
From Coq Require Import List String NArith Bool Arith ZArith.
From AV Require Import Model.Sexp Model.Sha256 Model.Tails Model.CaseC19 Proofs.TailsProofs Proofs.C19Transfer Generated.Consts.
Import ListNotations.
Local Open Scope list_scope.
Local Open Scope nat_scope.

(* reading tail k back yields the k-th generated tail (offset 128*k + 2); past the end it fails *)
Theorem C19_read_back : forall tails (k : N),
  Forall (fun t => List.length t = tail_size) tails ->
  read_tail k (content tails) =
  if (k <? N.of_nat (List.length tails))%N then Some (nth (N.to_nat k) tails []) else None.
Proof. exact read_back. Qed.

(* for EVERY buffer capacity, list of tails and fault (error or abort at any step):
   the final name is absent or holds the full content and is named by it; without a fault it is
   published and no temp file remains; a temp file survives an error only if the guard is
   defused before the rename and the failing step is the rename; a surviving temp file holds a
   prefix of the content *)
Theorem C19_atomic_publish : forall cap disarm ver tails f,
  let s' := run cap disarm init (program ver tails) 0 f in
  (final s' = None \/ final s' = Some (full ver tails, full ver tails)) /\
  (f = NoFault -> final s' = Some (full ver tails, full ver tails) /\ tmp s' = None) /\
  (forall j, f = ErrorAt j -> tmp s' <> None -> disarm = true /\ j = List.length tails + 3) /\
  (forall d, tmp s' = Some d -> exists rest, full ver tails = d ++ rest).
Proof. exact atomic_publish. Qed.

(* at the code's own parameters (8 KiB buffer, tag [0;2], rename before the guard is defused):
   an error never leaves a temporary file *)
Theorem C19_write_tails_spec : forall tails f,
  let s' := write_tails tails f in
  (final s' = None \/ final s' = Some (content tails, content tails)) /\
  (f = NoFault -> final s' = Some (content tails, content tails) /\ tmp s' = None) /\
  (forall j, f = ErrorAt j -> tmp s' = None) /\
  (forall d, tmp s' = Some d -> exists rest, content tails = d ++ rest).
Proof. exact write_tails_spec. Qed.

(* the finding that the fix commit repaired: with the guard defused first, the rename step leaks *)
Theorem C19_unfixed_refuted :
  exists tails j, tmp (run buf_capacity true init (program version_tag tails) 0 (ErrorAt j)) <> None.
Proof. exact unfixed_leaks_on_rename_error. Qed.

Theorem C19_pins :
  Z.of_nat (List.length version_tag) = gen_tails_blob_tag_sz /\
  map Z.of_N version_tag = gen_tails_version /\
  disarm_before_rename = gen_tails_disarm_before_rename.
Proof. exact tails_pins. Qed.

Theorem C19_transfer_write : forall tails f r dir, ok_C19_write tails f r dir = true ->
  (forall n c, In (n, c) dir -> n <> "TMP"%string -> n = file_name (content tails) /\ c = content tails) /\
  (r = WErr -> forall n c, In (n, c) dir -> n <> "TMP"%string) /\
  (r = WDied -> forall c, In ("TMP"%string, c) dir -> exists rest, content tails = c ++ rest) /\
  (forall h p, r = WOk h p -> h = file_name (content tails) /\ p = h) /\
  r <> WPanic.
Proof. exact c19_transfer_write. Qed.

Theorem C19_transfer_read : forall tails reads, ok_C19_read tails reads = true ->
  forall k r, In (k, r) reads -> r = read_tail k (content tails).
Proof. exact c19_transfer_read. Qed.

Print Assumptions C19_read_back.
Print Assumptions C19_atomic_publish.
Print Assumptions C19_write_tails_spec.
Print Assumptions C19_unfixed_refuted.
Print Assumptions C19_pins.
Print Assumptions C19_transfer_write.
Print Assumptions C19_transfer_read.
