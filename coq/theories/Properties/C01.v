(* C01 — a verified presentation proves exactly the requested predicates and attributes.
   Property theorems only; every proof is `exact <lemma>`. *)
From Coq Require Import List String ZArith NArith Bool.
From AV Require Import Model.VTypes Model.CL Model.VerifierLegacy Model.VerifierW3C Model.VCfg Model.VProps Model.CaseV
  Proofs.C01Proofs Proofs.VTransfer.
Import ListNotations.

(* for EVERY well-formed case (request, legacy or W3C presentation with the provenance of its
   proof, verifier context): if the verifier model accepts, then the proof is genuine (unaltered,
   finalised under the request nonce, every sub-proof built from a signed credential with the link
   secret it was issued to, every revealed value and every proven predicate true of the signed
   values), every requested predicate (same attribute, comparison, threshold) is proven by the
   sub-proof its referent is mapped to (legacy) / by some credential (W3C), and every requested
   attribute is revealed from, or is an attribute of, such a credential, or is self-attested and
   unrestricted *)
Theorem C01_model : forall cfg c,
  f_check_preds cfg = true -> f_unrev_in_schema cfg = true -> f_w3c_pred_cv cfg = true ->
  case_wf1 c = true -> ok_C01 c (run_model cfg c) = true.
Proof. exact c01_model. Qed.

Theorem C01_current : forall c, case_wf1 c = true -> ok_C01 c (run_model cfg_current c) = true.
Proof. exact (fun c H => c01_model cfg_current c eq_refl eq_refl eq_refl H). Qed.

(* the central implication, legacy form: each requested predicate is the one its sub-proof proves *)
Theorem C01_legacy_predicates : forall cfg R P cx, f_check_preds cfg = true -> case_wf1 (CLegacy R P cx) = true ->
  verify_legacy cfg R P cx = Accept ->
  forallb (fun '(r, pi) => match assoc r (rp_preds (p_rp P)) with
                           | Some i => match nthZ (p_proofs P) i with Some sp => proves_pred sp pi | None => false end
                           | None => false end) (rq_preds R) = true.
Proof. exact c01_legacy_preds. Qed.

Theorem C01_transfer : forall c impl, case_wf1 c = true -> rel_V impl (run_model cfg_current c) = true -> ok_C01 c impl = true.
Proof. exact c01_transfer. Qed.

Print Assumptions C01_model.
Print Assumptions C01_current.
Print Assumptions C01_legacy_predicates.
Print Assumptions C01_transfer.
