(* C07 — only attributes the holder chose to reveal are disclosed.
   Property theorems only; every proof is `exact <lemma>`. *)
From Coq Require Import List String ZArith NArith Bool.
From AV Require Import Model.VTypes Model.Prover Model.PProps Proofs.C07Proofs.
Import ListNotations.

(* legacy, for EVERY request, holder context, link secret, selection and self-attested map (and
   every setting of the prover flags): whatever the presentation built by the model shows — a
   revealed attribute or group member of requested_proof, or a value revealed by a CL sub-proof —
   at position k under attribute name n, the k-th contributing credential of the selection has a
   referent marked revealed whose requested names include n (up to the shared normalisation).
   The link secret, the credential signature and the witness are not fields of a presentation. *)
Theorem C07_legacy_model : forall pc R cx link ps self P,
  create_legacy pc R cx link ps self = ROk P ->
  forall k n, In (k, n) (disclosed_legacy R P) -> allowed_at R ps k n = true.
Proof. exact c07_legacy_model. Qed.

(* W3C, same statement for the String / Number entries of every derived credential subject and
   the values revealed by its sub-proof, for the repaired behaviours *)
Theorem C07_w3c_model : forall pc R cx link, pf_w3c_zip pc = true -> pf_group_reveal pc = true ->
  forall ps P, create_w3c pc R cx link ps = ROk P ->
  forall k n, In (k, n) (disclosed_w3c P) -> allowed_at R ps k n = true.
Proof. exact c07_w3c_model. Qed.

(* the predicate the correspondence run evaluates, on the current model's own output *)
Theorem C07_current : forall c,
  match create_legacy pcfg_current (pc_req c) (pc_cx c) (pc_link c) (pc_sel c) (pc_self c) with
  | ROk P => ok_C07 c (PLegacy P) [] [] = true | _ => True end
  /\ match create_w3c pcfg_current (pc_req c) (pc_cx c) (pc_link c) (pc_sel c) with
     | ROk P => ok_C07 c (PW3C P) [] [] = true | _ => True end.
Proof. exact c07_current. Qed.

(* the behaviour before fix commit e469f10 (W3C group values added whatever the reveal flag) fails it *)
Theorem C07_unfixed_refuted :
  exists P k n, create_w3c pcfg_no_group_reveal w_req w_cx 7 w_sel = ROk P /\ In (k, n) (disclosed_w3c P) /\ allowed_at w_req w_sel k n = false.
Proof. exact c07_unfixed_refuted. Qed.

Print Assumptions C07_legacy_model.
Print Assumptions C07_w3c_model.
Print Assumptions C07_current.
Print Assumptions C07_unfixed_refuted.
