(* C06 — restrictions hold with Boolean WQL semantics for the credential actually used.
   Property theorems only; every proof is `exact <lemma>`. *)
From Coq Require Import List String ZArith NArith Bool.
From AV Require Import Model.Str Model.Query Model.Ident Model.VTypes Model.Eval Model.CL Model.VerifierLegacy Model.VerifierW3C Model.VCfg Model.VProps Model.CaseV
  Proofs.C06Proofs Proofs.C06S1 Proofs.C06S2 Proofs.C06S3 Proofs.C06S4 Proofs.C06S5 Proofs.C06S6 Proofs.C04F10 Model.Prover Model.PProps.
Import ListNotations.
Open Scope string_scope.

(* $and / $or / $not / $in / $neq have their Boolean meaning over the equality test *)
Theorem C06_boolean_semantics : forall cfg m f,
  (forall k v, eval cfg m f (Neq k v) = negb (eval cfg m f (Eq k v))) /\
  (forall k vs, eval cfg m f (QIn k vs) = existsb (fun v => eval cfg m f (Eq k v)) vs) /\
  (forall l, eval cfg m f (And l) = forallb (eval cfg m f) l) /\
  (forall l, eval cfg m f (Or l) = existsb (eval cfg m f) l) /\
  (forall q, eval cfg m f (Not q) = negb (eval cfg m f q)).
Proof. exact (fun cfg m f => conj (eval_neq cfg m f) (conj (eval_in cfg m f) (conj (eval_and cfg m f) (conj (eval_or cfg m f) (eval_not cfg m f))))). Qed.

(* comparison, $like and $exist operators are never satisfied *)
Theorem C06_comparisons_never : forall cfg m f k v ks,
  eval cfg m f (Gt k v) = false /\ eval cfg m f (Gte k v) = false /\ eval cfg m f (Lt k v) = false /\
  eval cfg m f (Lte k v) = false /\ eval cfg m f (Like k v) = false /\ eval cfg m f (Exist ks) = false.
Proof. exact eval_comparisons. Qed.

(* the legacy *_did tags match only legacy identifiers *)
Theorem C06_did_tags_legacy_only : forall cfg m f v,
  process_filter cfg m "issuer_did" v f = is_legacy_did (f_issuer f) && String.eqb (f_issuer f) v /\
  process_filter cfg m "schema_issuer_did" v f = is_legacy_did (f_schema_issuer f) && String.eqb (f_schema_issuer f) v.
Proof. exact (fun cfg m f v => conj (tag_issuer_did cfg m f v) (tag_schema_issuer_did cfg m f v)). Qed.

(* value tags test the value revealed under the referent; marker tags are true (repaired) *)
Theorem C06_value_tag : forall cfg m f name revealed v,
  internal_tag ("attr::" ++ name ++ "::value") = Some (name, false) ->
  assoc (tagkey cfg name) m = Some (Some revealed) ->
  process_filter cfg m ("attr::" ++ name ++ "::value") v f = String.eqb revealed v.
Proof. exact value_tag_revealed. Qed.
Theorem C06_marker_tag : forall cfg m f name v, f_marker cfg = true ->
  internal_tag ("attr::" ++ name ++ "::marker") = Some (name, true) ->
  process_filter cfg m ("attr::" ++ name ++ "::marker") v f = true.
Proof. exact marker_tag_true. Qed.

(* a restricted referent cannot be met by self-attestation *)
Theorem C06_self_attested_needs_unrestricted : forall P r ai, is_self_attested P r ai = true -> unrestricted (ai_restr ai) = true.
Proof. exact self_attested_needs_unrestricted. Qed.

(* the filter is bound to the credential definition the identifier names and to ITS schema *)
Theorem C06_filter_bound : forall cfg cx id f, f_bind_schema cfg = true -> gather_filter cfg cx id = ROk f ->
  exists sc cd, assoc (id_schema id) (cx_schemas cx) = Some sc /\ assoc (id_creddef id) (cx_creddefs cx) = Some cd /\
    cd_schema_id cd = id_schema id /\
    f = {| f_schema_id := cd_schema_id cd; f_schema_issuer := sc_issuer sc; f_schema_name := sc_name sc;
           f_schema_version := sc_version sc; f_issuer := cd_issuer cd; f_cred_def_id := id_creddef id |}.
Proof. exact gather_filter_bound. Qed.

(* SOUNDNESS, legacy format, for EVERY request, presentation and context in which distinct credential
   definitions have distinct ids and distinct keys: if the verifier model accepts, then every restricted
   referent that is not an (unrestricted) self-attested one is bound to a sub-proof, and its restriction is
   true -- with Boolean semantics, over the values revealed under the referent -- of the filter of the
   credential definition WHOSE KEY SIGNED that sub-proof and of the schema that definition was created over
   (restr_true_legacy, the reference predicate the correspondence evaluates on every case). *)
Theorem C06_legacy_sound : forall R P cx, creddefs_distinct cx = true ->
  verify_legacy cfg_fixed R P cx = Accept -> restr_true_legacy R P cx = true.
Proof. exact c06_legacy_sound. Qed.

(* the behaviour before fix commit c1676db fails the soundness statement: a referent listed as revealed
   under one credential AND as unrevealed under another was restricted through the unrevealed entry, so a
   value revealed from credential one was accepted under a restriction true of credential two only *)
Theorem C06_unfixed_refuted :
  match create_legacy pcfg_fixed k_req k_cx 7 k_sel [] with
  | ROk P =>
      let P' := add_unrev P "a1" 1 in
      verify_legacy cfg_unrev_first k_req P' k_cx = Accept /\ creddefs_distinct k_cx = true /\ restr_true_legacy k_req P' k_cx = false /\
      verify_legacy cfg_fixed k_req P' k_cx = Err /\
      verify_legacy cfg_unrev_first k_req P k_cx = Err
  | _ => False end.
Proof. exact c06_unfixed_refuted. Qed.

(* SOUNDNESS, W3C format: if the verifier model accepts then, for every name of every restricted attribute
   and for every restricted predicate, some presented credential reveals or holds the attribute / proves the
   predicate AND the restriction is true of the credential that signed its proof, over the credential's subject *)
Theorem C06_w3c_sound : forall R P cx, creddefs_distinct cx = true -> case_wf (CW3C R P cx) = true ->
  verify_w3c cfg_fixed R P cx = Accept -> restr_true_w3c R P cx = true.
Proof. exact c06_w3c_sound. Qed.

(* COMPLETENESS, legacy format ("a restriction that is true never causes rejection"): if the verifier model
   accepts the presentation under the request with every restriction removed, and every restriction is true
   (restr_true_legacy), then it accepts under the request itself -- provided the identifiers name schema and
   definition consistently (a lying identifier is refused by the restriction stage only), every requested
   attribute has a name or names, and the request does not mix issuer_id with issuer_did tags (the recorded
   known finding c06-legacy-mixed-id-did-tags). The W3C converse is NOT a theorem (there the verifier searches
   for one credential meeting restriction, value and interval together); it is decided per case. *)
Theorem C06_legacy_complete : forall R P cx,
  creddefs_distinct cx = true -> ids_bound cx P = true -> req_named R = true ->
  mixed_legacy_tags (CLegacy R P cx) = false ->
  verify_legacy cfg_fixed (strip_req R) P cx = Accept -> restr_true_legacy R P cx = true ->
  verify_legacy cfg_fixed R P cx = Accept.
Proof. exact c06_legacy_complete. Qed.

(* all hypotheses are met by a prover-built presentation for a request with conjunction, negation, $in and a
   value restriction; and a restriction that is false of the credential used is refused *)
Theorem C06_nonvacuous :
  exists P, create_legacy pcfg_fixed x_req e_cx 7 (pc_sel e_case) (pc_self e_case) = ROk P /\
    creddefs_distinct e_cx = true /\ ids_bound e_cx P = true /\ req_named x_req = true /\ mixed_legacy_tags (CLegacy x_req P e_cx) = false /\
    verify_legacy cfg_fixed (strip_req x_req) P e_cx = Accept /\ restr_true_legacy x_req P e_cx = true /\
    verify_legacy cfg_fixed x_req P e_cx = Accept /\
    restr_true_legacy y_req P e_cx = false /\ verify_legacy cfg_fixed (strip_req y_req) P e_cx = Accept /\ verify_legacy cfg_fixed y_req P e_cx = Err.
Proof. exact c06_nonvacuous. Qed.

Print Assumptions C06_boolean_semantics.
Print Assumptions C06_comparisons_never.
Print Assumptions C06_did_tags_legacy_only.
Print Assumptions C06_value_tag.
Print Assumptions C06_marker_tag.
Print Assumptions C06_self_attested_needs_unrestricted.
Print Assumptions C06_filter_bound.
Print Assumptions C06_unfixed_refuted.
Print Assumptions C06_legacy_sound.
Print Assumptions C06_w3c_sound.
Print Assumptions C06_legacy_complete.
Print Assumptions C06_nonvacuous.
