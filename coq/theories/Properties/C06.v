(* C06 — restrictions hold with Boolean WQL semantics for the credential actually used.
   Property theorems only; every proof is `exact <lemma>`. *)
From Coq Require Import List String ZArith NArith Bool.
From AV Require Import Model.Str Model.Query Model.Ident Model.VTypes Model.Eval Model.CL Model.VerifierLegacy Model.VerifierW3C Model.VCfg Model.VProps Model.CaseV
  Proofs.C06Proofs.
Import ListNotations.
Open Scope string_scope.

(* $and / $or / $not / $in / $neq have their Boolean meaning over the equality test *)
Theorem C06_boolean_semantics : forall cfg m f,
  (forall k v, eval cfg m f (Neq k v) = negb (eval cfg m f (Eq k v))) /\
  (forall k vs, eval cfg m f (QIn k vs) = existsb (fun v => eval cfg m f (Eq k v)) vs) /\
  (forall l, eval cfg m f (And l) = forallb (eval cfg m f) l) /\
  (forall l, eval cfg m f (Or l) = existsb (eval cfg m f) l) /\
  (forall q, eval cfg m f (Not q) = negb (eval cfg m f q)).
Proof. exact (fun cfg m f => conj (eval_neq cfg m f) (conj (eval_in cfg m f) (conj (eval_and cfg m f) (conj (eval_or cfg m f) (eval_not cfg m f))))). Qed.

(* comparison, $like and $exist operators are never satisfied *)
Theorem C06_comparisons_never : forall cfg m f k v ks,
  eval cfg m f (Gt k v) = false /\ eval cfg m f (Gte k v) = false /\ eval cfg m f (Lt k v) = false /\
  eval cfg m f (Lte k v) = false /\ eval cfg m f (Like k v) = false /\ eval cfg m f (Exist ks) = false.
Proof. exact eval_comparisons. Qed.

(* the legacy *_did tags match only legacy identifiers *)
Theorem C06_did_tags_legacy_only : forall cfg m f v,
  process_filter cfg m "issuer_did" v f = is_legacy_did (f_issuer f) && String.eqb (f_issuer f) v /\
  process_filter cfg m "schema_issuer_did" v f = is_legacy_did (f_schema_issuer f) && String.eqb (f_schema_issuer f) v.
Proof. exact (fun cfg m f v => conj (tag_issuer_did cfg m f v) (tag_schema_issuer_did cfg m f v)). Qed.

(* value tags test the value revealed under the referent; marker tags are true (repaired) *)
Theorem C06_value_tag : forall cfg m f name revealed v,
  internal_tag ("attr::" ++ name ++ "::value") = Some (name, false) ->
  assoc (tagkey cfg name) m = Some (Some revealed) ->
  process_filter cfg m ("attr::" ++ name ++ "::value") v f = String.eqb revealed v.
Proof. exact value_tag_revealed. Qed.
Theorem C06_marker_tag : forall cfg m f name v, f_marker cfg = true ->
  internal_tag ("attr::" ++ name ++ "::marker") = Some (name, true) ->
  process_filter cfg m ("attr::" ++ name ++ "::marker") v f = true.
Proof. exact marker_tag_true. Qed.

(* a restricted referent cannot be met by self-attestation *)
Theorem C06_self_attested_needs_unrestricted : forall P r ai, is_self_attested P r ai = true -> unrestricted (ai_restr ai) = true.
Proof. exact self_attested_needs_unrestricted. Qed.

(* the filter is bound to the credential definition the identifier names and to ITS schema *)
Theorem C06_filter_bound : forall cfg cx id f, f_bind_schema cfg = true -> gather_filter cfg cx id = ROk f ->
  exists sc cd, assoc (id_schema id) (cx_schemas cx) = Some sc /\ assoc (id_creddef id) (cx_creddefs cx) = Some cd /\
    cd_schema_id cd = id_schema id /\
    f = {| f_schema_id := cd_schema_id cd; f_schema_issuer := sc_issuer sc; f_schema_name := sc_name sc;
           f_schema_version := sc_version sc; f_issuer := cd_issuer cd; f_cred_def_id := id_creddef id |}.
Proof. exact gather_filter_bound. Qed.

(* PARTIAL: an accepting legacy run evaluated every restriction (of attribute referents that are not
   self-attested, and of predicate referents) to true on such a filter. The full statement ok_C06
   (the filter is that of the credential that SIGNED the sub-proof, and the converse "a true
   restriction never causes rejection") is decided on every case by the correspondence run. *)
Theorem C06_legacy_restrictions_checked_partial : forall cfg R P cx, verify_legacy cfg R P cx = Accept ->
  (forall r ai q, In (r, ai) (rq_attrs R) -> ai_restr ai = Some q -> is_self_attested P r ai = false ->
     exists id f m, gather_filter cfg cx id = ROk f /\ eval cfg m f q = true) /\
  (forall r pi q, In (r, pi) (rq_preds R) -> pi_restr pi = Some q ->
     exists id f m, gather_filter cfg cx id = ROk f /\ eval cfg m f q = true).
Proof. exact legacy_restrictions_checked. Qed.

Print Assumptions C06_boolean_semantics.
Print Assumptions C06_comparisons_never.
Print Assumptions C06_did_tags_legacy_only.
Print Assumptions C06_value_tag.
Print Assumptions C06_marker_tag.
Print Assumptions C06_self_attested_needs_unrestricted.
Print Assumptions C06_filter_bound.
Print Assumptions C06_legacy_restrictions_checked_partial.
