(* C15 — every exchanged object survives its wire format with identical meaning.
   Property theorems only; every proof is `exact <lemma>`. PARTIAL: the hand-written codecs are
   proved; serde-derived codecs and the protocol-level "no later outcome changes" are decided by
   the correspondence run. *)
From Coq Require Import List String Ascii ZArith Bool.
From AV Require Import Model.Str Model.Json Model.Query Model.Codec Proofs.C15Proofs Proofs.QueryProofs.
Import ListNotations.

Theorem C15_nonce_roundtrip : forall s, nonce_valid s = true -> nonce_de (nonce_ser s) = DOk s.
Proof. exact c15_nonce_roundtrip. Qed.
Theorem C15_nonce_stable : forall j s, nonce_de j = DOk s -> nonce_valid s = true /\ nonce_de (nonce_ser s) = DOk s.
Proof. exact c15_nonce_stable. Qed.
Theorem C15_bits_roundtrip : forall b, bits_de (bits_ser b) = Some b.
Proof. exact c15_bits_roundtrip. Qed.
Theorem C15_bits_stable : forall j b, bits_de j = Some b -> bits_ser b = j.
Proof. exact c15_bits_stable. Qed.
Theorem C15_ver_roundtrip : forall v payload, ver_de (ver_ser v payload) = Some v.
Proof. exact c15_ver_roundtrip. Qed.
Theorem C15_ver_absent : forall m, jassoc "ver" m = None -> ver_de (JObj m) = Some false.
Proof. exact c15_ver_absent. Qed.
Theorem C15_pvalue_roundtrip : forall k p, pvalue_de (pvalue_ser k p) = Some (k, p).
Proof. exact c15_pvalue_roundtrip. Qed.
Theorem C15_pvalue_stable : forall j k p, pvalue_de j = Some (k, p) -> pvalue_ser k p = j.
Proof. exact c15_pvalue_stable. Qed.
Theorem C15_multibase_roundtrip : forall (bytes : Type) (b64e : bytes -> string) (b64d : string -> option bytes),
  (forall b, b64d (b64e b) = Some b) -> forall b, multibase_de b64d (multibase_ser b64e b) = Some b.
Proof. exact (@c15_multibase_roundtrip). Qed.
Theorem C15_multibase_header : forall (bytes : Type) (b64d : string -> option bytes) a r,
  Ascii.eqb a "u" = false -> multibase_de b64d (String a r) = None.
Proof. exact (@c15_multibase_header). Qed.

Print Assumptions C15_nonce_roundtrip.
Print Assumptions C15_nonce_stable.
Print Assumptions C15_bits_roundtrip.
Print Assumptions C15_bits_stable.
Print Assumptions C15_ver_roundtrip.
Print Assumptions C15_pvalue_roundtrip.
Print Assumptions C15_pvalue_stable.
Print Assumptions C15_multibase_roundtrip.
Print Assumptions C15_multibase_header.
