(* C05 — presentations are bound to the request nonce, one link secret and the proof.
   Property theorems only; every proof is `exact <lemma>`. *)
From Coq Require Import List String ZArith NArith Bool.
From AV Require Import Model.VTypes Model.CL Model.VerifierLegacy Model.VerifierW3C Model.VCfg Model.VProps Model.CaseV
  Proofs.C05Proofs Proofs.VTransfer.
Import ListNotations.

(* for EVERY request, presentation (legacy or W3C) and verifier context: if the verifier model
   (with the common attribute registered, as the code now does) accepts, then the aggregated proof
   was finalised under the request's nonce and is unaltered, every sub-proof was built with one and
   the same link secret, which is the one its credential was issued to, the key of the credential
   definition each identifier names is the key that signed the credential, and no sub-proof is altered *)
Theorem C05_model : forall cfg c, f_common_link cfg = true -> ok_C05 c (run_model cfg c) = true.
Proof. exact c05_model. Qed.

Theorem C05_current : forall c, ok_C05 c (run_model cfg_current c) = true.
Proof. exact (fun c => c05_model cfg_current c eq_refl). Qed.

(* the finding repaired by the fix commit: without the common attribute two link secrets verify *)
Theorem C05_unfixed_refuted :
  verify_legacy cfg_without_common c05_R c05_P c05_cx = Accept /\
  ok_C05 (CLegacy c05_R c05_P c05_cx) (verify_legacy cfg_without_common c05_R c05_P c05_cx) = false /\
  verify_legacy cfg_fixed c05_R c05_P c05_cx = Reject.
Proof. exact c05_unfixed_refuted. Qed.

(* transfer: where implementation and model agree on acceptance, the property holds of the implementation *)
Theorem C05_transfer : forall c impl, rel_V impl (run_model cfg_current c) = true -> ok_C05 c impl = true.
Proof. exact c05_transfer. Qed.

Print Assumptions C05_model.
Print Assumptions C05_current.
Print Assumptions C05_unfixed_refuted.
Print Assumptions C05_transfer.
