(* C20 — constructors and validation accept exactly the documented identifier grammar.
   Property theorems only; every proof is `exact <lemma>`. *)
From Coq Require Import List String Ascii NArith ZArith Bool.
From AV Require Import Model.Sexp Model.Ident Model.CaseC20 Proofs.IdentProofs Proofs.C20Transfer Generated.Consts.
Import ListNotations.
Open Scope string_scope.

(* the recognisers were written against exactly the regular expressions in the source *)
Theorem C20_regex_pins :
  gen_regex_uri_identifier = "^[a-zA-Z][a-zA-Z0-9\+\-\.]*:.+$" /\
  gen_regex_legacy_did_identifier = "^[1-9A-HJ-NP-Za-km-z]{21,22}$" /\
  gen_regex_legacy_schema_identifier = "^[1-9A-HJ-NP-Za-km-z]{21,22}:2:[^:]+:[0-9.]+$" /\
  gen_regex_legacy_cred_def_identifier =
    "^[1-9A-HJ-NP-Za-km-z]{21,22}:3:CL:(([1-9][0-9]*)|([a-zA-Z0-9]{21,22}:2:[^:]+:[0-9.]+)):([^:]+)?$" /\
  gen_regex_legacy_rev_reg_def_identifier =
    "^[1-9A-HJ-NP-Za-km-z]{21,22}:4:[1-9A-HJ-NP-Za-km-z]{21,22}:3:CL:(([1-9][0-9]*)|([a-zA-Z0-9]{21,22}:2:[^:]+:[0-9.]+)):([^:]+):CL_ACCUM:([^:]+)?$".
Proof. exact regex_pins. Qed.

Theorem C20_max_attributes_pin : Z.of_nat max_attributes_count = gen_max_attributes_count.
Proof. exact max_attributes_pin. Qed.

(* field splitting at ':' is exact *)
Theorem C20_split_colon_spec : forall s l,
  split_colon s = l <-> (s = join_colon l /\ l <> [] /\ Forall (fun f => no_colon f = true) l).
Proof. exact split_colon_spec. Qed.

(* URI: a letter, scheme characters, a colon, a non-empty newline-free rest *)
Theorem C20_uri_iff : forall s, is_uri s = true <->
  exists a scheme rest, s = String a (scheme ++ ":" ++ rest) /\ is_alpha a = true /\
    all_chars is_scheme_char scheme = true /\ rest <> "" /\ no_newline rest = true.
Proof. exact is_uri_iff. Qed.

Theorem C20_legacy_did_iff : forall s, is_legacy_did s = true <->
  all_chars is_b58 s = true /\ (String.length s = 21 \/ String.length s = 22)%nat.
Proof. exact is_legacy_did_iff. Qed.

Theorem C20_legacy_schema_id_iff : forall s, is_legacy_schema_id s = true <->
  exists did name ver, s = join_colon [did; "2"; name; ver] /\
    is_legacy_did did = true /\ name <> "" /\ no_colon name = true /\ is_version ver = true.
Proof. exact is_legacy_schema_id_iff. Qed.

Theorem C20_legacy_cred_def_id_iff : forall s, is_legacy_cred_def_id s = true <->
  exists did ref tag, s = join_colon ([did; "3"; "CL"] ++ ref ++ [tag]) /\
    is_legacy_did did = true /\ schema_ref_grammar ref /\ no_colon tag = true.
Proof. exact is_legacy_cred_def_id_iff. Qed.

Theorem C20_legacy_rev_reg_id_iff : forall s, is_legacy_rev_reg_id s = true <->
  exists did did2 ref tag tag2, s = join_colon ([did; "4"; did2; "3"; "CL"] ++ ref ++ [tag; "CL_ACCUM"; tag2]) /\
    is_legacy_did did = true /\ is_legacy_did did2 = true /\ schema_ref_grammar ref /\
    tag <> "" /\ no_colon tag = true /\ no_colon tag2 = true.
Proof. exact is_legacy_rev_reg_id_iff. Qed.

(* constructors and validation accept a string iff it is a URI or the legacy form of that type *)
Theorem C20_validate_iff : forall k s, validate_id k s = true <-> uri_grammar s \/ legacy_grammar k s.
Proof. exact validate_id_iff. Qed.

Theorem C20_schema_valid_iff : forall issuer attrs,
  schema_valid issuer attrs = true <->
  (uri_grammar issuer \/ legacy_grammar KIssuer issuer) /\ NoDup attrs /\ (1 <= List.length attrs <= 125)%nat.
Proof. exact schema_valid_iff. Qed.

Theorem C20_cred_request_valid_iff : forall entropy did cd,
  cred_request_valid entropy did cd = true <->
  validate_id KCredDef cd = true /\
  ((entropy <> None /\ did = None) \/
   (entropy = None /\ is_legacy_cred_def_id cd = true /\ exists d, did = Some d /\ (is_uri d = true \/ is_legacy_did d = true))).
Proof. exact cred_request_valid_iff. Qed.

(* identifiers copied from validated inputs validate *)
Theorem C20_issuer_outputs_validate : forall ins outs,
  forallb (fun i => validate_id (fst i) (snd i)) ins = true ->
  (forall o, In o outs -> In o ins) ->
  forallb (fun o => validate_id (fst o) (snd o)) outs = true.
Proof. exact copied_ids_validate. Qed.

(* transfer *)
Theorem C20_transfer_id : forall k s outs flags, ok_C20_id k s outs flags = true ->
  outs <> [] /\ (forall o, In o outs -> o = validate_id k s) /\
  flags = [is_uri s; is_legacy_did s; is_legacy_schema_id s; is_legacy_cred_def_id s; is_legacy_rev_reg_id s].
Proof. exact c20_transfer_id. Qed.
Theorem C20_transfer_schema : forall i a c v, ok_C20_schema i a c v = true -> c = schema_valid i a /\ v = schema_valid i a.
Proof. exact c20_transfer_schema. Qed.
Theorem C20_transfer_req : forall e d cd v n, ok_C20_req e d cd v n = true ->
  v = cred_request_valid e d cd /\ (forall b, n = Some b -> b = cred_request_valid e d cd).
Proof. exact c20_transfer_req. Qed.
Theorem C20_transfer_out : forall ins outs, ok_C20_out ins outs = true ->
  outs <> [] /\ forall k s, In (k, s) outs -> validate_id k s = true /\ exists k', In (k', s) ins /\ kind_eqb k' k = true.
Proof. exact c20_transfer_out. Qed.

Print Assumptions C20_regex_pins.
Print Assumptions C20_max_attributes_pin.
Print Assumptions C20_split_colon_spec.
Print Assumptions C20_uri_iff.
Print Assumptions C20_legacy_did_iff.
Print Assumptions C20_legacy_schema_id_iff.
Print Assumptions C20_legacy_cred_def_id_iff.
Print Assumptions C20_legacy_rev_reg_id_iff.
Print Assumptions C20_validate_iff.
Print Assumptions C20_schema_valid_iff.
Print Assumptions C20_cred_request_valid_iff.
Print Assumptions C20_issuer_outputs_validate.
Print Assumptions C20_transfer_id.
Print Assumptions C20_transfer_schema.
Print Assumptions C20_transfer_req.
Print Assumptions C20_transfer_out.
