(* C11 — issuance is bound to offer, request, schema and link secret on both sides.
   Property theorems only; every proof is `exact <lemma>`. *)
From Coq Require Import List String ZArith NArith Bool.
From AV Require Import Model.VTypes Model.CL Model.Prover Model.Issuance Proofs.C11Proofs.
Import ListNotations.

(* the issuer model signs only for a request blinded against its key whose correctness proof was
   made under the nonce of the very offer it is given, unaltered, and only for exactly the
   normalised attribute set of the key; the signature then binds key, values, link secret,
   blinding factor and request nonce *)
Theorem C11_issue_sound : forall k o r values s,
  issue k o r values = ROk s ->
  ir_key r = ik_id k /\ ir_offer_nonce r = io_nonce o /\ ir_altered r = false
  /\ set_eqb (keys (norm_values values)) (ik_attrs k) = true
  /\ is_key s = ik_id k /\ is_values s = norm_values values /\ is_link s = ir_link r
  /\ is_blinding s = ir_blinding r /\ is_nonce s = ir_nonce r /\ is_altered s = false.
Proof. exact c11_issue_sound. Qed.
Theorem C11_issue_complete : forall k o r values,
  ir_key r = ik_id k -> ir_offer_nonce r = io_nonce o -> ir_altered r = false ->
  set_eqb (keys (norm_values values)) (ik_attrs k) = true -> exists s, issue k o r values = ROk s.
Proof. exact c11_issue_complete. Qed.
(* a request answers one offer: with any offer carrying another nonce it is refused *)
Theorem C11_replay_refused : forall cd o1 o2 link b n r k values,
  make_request cd o1 link b n = ROk r -> io_nonce o1 <> io_nonce o2 -> issue k o2 r values = RErr.
Proof. exact c11_replay_refused. Qed.
(* processing succeeds iff definition key, fed values, link secret and both parts of the request
   metadata are those of issuance and nothing was altered *)
Theorem C11_process_iff : forall s fed cd link mb mn,
  process s fed cd link mb mn = ROk tt <->
  (is_altered s = false /\ cd = is_key s /\ link = is_link s /\ mb = is_blinding s /\ mn = is_nonce s
   /\ values_agree (holder_values fed) (is_values s) = true).
Proof. exact c11_process_iff. Qed.
Theorem C11_honest_flow : forall k o link b n values,
  io_key o = ik_id k -> set_eqb (keys (norm_values values)) (ik_attrs k) = true ->
  values_agree (holder_values values) (norm_values values) = true ->
  exists r s, make_request (ik_id k) o link b n = ROk r /\ issue k o r values = ROk s
              /\ process s values (ik_id k) link b n = ROk tt.
Proof. exact c11_honest_flow. Qed.
(* what passes processing yields sub-proofs the ideal CL verifier accepts under the issuer's key *)
Theorem C11_processed_verifiable : forall s fed cd link mb mn,
  process s fed cd link mb mn = ROk tt ->
  forall attrs revealed preds pos sp common,
    set_eqb attrs (keys (is_values s)) = true ->
    cl_prove (source_of s) (holder_values fed) attrs revealed preds None link pos = ROk sp ->
    sub_ok common link pos (sp, cd, attrs, None) = true.
Proof. exact c11_processed_verifiable. Qed.

Print Assumptions C11_issue_sound.
Print Assumptions C11_issue_complete.
Print Assumptions C11_replay_refused.
Print Assumptions C11_process_iff.
Print Assumptions C11_honest_flow.
Print Assumptions C11_processed_verifiable.
