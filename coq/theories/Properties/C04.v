(* C04 — honest issue-hold-present-verify flows always verify.
   Property theorems only; every proof is `exact <lemma>`. PARTIAL: see C04_statement. *)
From Coq Require Import List String ZArith NArith Bool.
From AV Require Import Model.VTypes Model.CL Model.VCfg Model.Prover Model.PProps Proofs.C04Proofs.
Import ListNotations.

(* the full statement, for both formats (composition of the prover and verifier models over every
   honest case). NOT proved as a whole: its CL layer is C04_sub_proof_verifies below, the other
   stages are decided per case by the correspondence run on every check. *)
Definition C04_statement : Prop := c04_statement.

(* CL layer, for EVERY credential provenance, fed values, schema attribute set, revealed names,
   predicates, revocation part, link secret and position: a sub-proof the ideal prover builds from
   a correctly issued credential (unaltered, issued to this link secret, fed the signed values, for
   the schema's attribute set) passes the ideal CL check under the key that signed it, at the
   position it was built for, against the registry value its witness was made for *)
Theorem C04_sub_proof_verifies_partial : forall src fed attrs revealed preds nrpo link pos sp common reg,
  cl_prove src fed attrs revealed preds nrpo link pos = ROk sp ->
  src_altered src = false -> src_cred_link src = link -> values_agree fed (src_values src) = true ->
  set_eqb attrs (src_attrs src) = true ->
  match nrpo, reg with
  | Some n, Some (rk, acc) => nrp_valid n = true /\ nrp_regkey n = rk /\ nrp_acc n = acc
  | Some _, None => False
  | None, _ => True end ->
  sub_ok common link pos (sp, src_key src, attrs, reg) = true.
Proof. exact c04_sub_proof_verifies. Qed.

(* the behaviour before fix commit b9354dd fails the statement (honest W3C flow with an unused
   credential passed along first), and the repaired behaviours satisfy it on the same case *)
Theorem C04_unfixed_refuted :
  honest_w3c cfg_fixed pcfg_no_zip z_case = true /\ flow_w3c cfg_fixed pcfg_no_zip z_case = Some Err.
Proof. exact c04_unfixed_refuted. Qed.
Theorem C04_fixed_on_witness :
  honest_w3c cfg_fixed pcfg_fixed z_case = true /\ flow_w3c cfg_fixed pcfg_fixed z_case = Some Accept
  /\ honest_legacy cfg_fixed z_case = true /\ flow_legacy cfg_fixed pcfg_fixed z_case = Some Accept.
Proof. exact c04_fixed_on_witness. Qed.

(* the behaviour before fix commit f302f8d (W3C credential search stops at the first match even when
   it lacks the non-revocation proof the match calls for) fails the statement; repaired it holds *)
Theorem C04_unfixed_search_refuted :
  honest_w3c cfg_no_search pcfg_fixed s_case = true /\ flow_w3c cfg_no_search pcfg_fixed s_case = Some Err.
Proof. exact c04_unfixed_search_refuted. Qed.
Theorem C04_fixed_search_on_witness :
  honest_w3c cfg_fixed pcfg_fixed s_case = true /\ flow_w3c cfg_fixed pcfg_fixed s_case = Some Accept.
Proof. exact c04_fixed_search_on_witness. Qed.

Print Assumptions C04_sub_proof_verifies_partial.
Print Assumptions C04_unfixed_search_refuted.
Print Assumptions C04_unfixed_refuted.
Print Assumptions C04_fixed_on_witness.
