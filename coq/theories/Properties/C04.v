(* C04 — honest issue-hold-present-verify flows always verify.
   Property theorems only; every proof is `exact <lemma>`. PARTIAL: see C04_statement. *)
From Coq Require Import List String ZArith NArith Bool.
From AV Require Import Model.VTypes Model.CL Model.VerifierLegacy Model.VCfg Model.Prover Model.PProps Proofs.C04Proofs Proofs.C04F10 Proofs.C04G6 Proofs.C06S1 Proofs.C06S4 Proofs.C06S5 Proofs.C04R1 Proofs.C04R2 Model.VProps.
Import ListNotations.

(* the full statement, for both formats (composition of the prover and verifier models over every
   honest case). NOT proved as a whole: the legacy format is proved end to end for the classes of
   C04_legacy_plain, C04_legacy_rev and C04_legacy_restricted below; verifier-side override maps and the W3C format are decided per
   case by the correspondence run on every check (their CL layer is C04_sub_proof_verifies_partial). *)
Definition C04_statement : Prop := c04_statement.

(* END TO END, legacy format, for EVERY case of the class [plain_b] (any number of correctly issued
   credentials of non-revocable definitions held under the holder's link secret; single attributes,
   attribute groups, predicates, unrevealed and self-attested referents; attribute names in any case /
   spacing; unused credentials passed along; no restrictions and no non-revocation intervals):
   whatever presentation the prover model builds, the verifier model accepts it - through all its
   stages (identifier resolution, referent comparison, value comparison under the shared
   normalisation, restriction stage, per-credential loop with predicate and schema checks and
   sub-proof registration, length guard, CL verification) *)
Theorem C04_legacy_plain : forall c P, plain_b c = true ->
  create_legacy pcfg_fixed (pc_req c) (pc_cx c) (pc_link c) (pc_sel c) (pc_self c) = ROk P ->
  verify_legacy cfg_fixed (pc_req c) P (pc_cx c) = Accept.
Proof. exact c04_legacy_plain_b. Qed.
(* the class is inhabited by a two-credential case with every kind of referent, which the prover model serves *)
Theorem C04_plain_nonvacuous :
  plain_b e_case = true /\ exists P, create_legacy pcfg_fixed (pc_req e_case) (pc_cx e_case) (pc_link e_case) (pc_sel e_case) (pc_self e_case) = ROk P.
Proof. exact c04_plain_nonvacuous. Qed.

(* END TO END, legacy format, for EVERY case of the wider class [rev_b]: as above, and the credentials may
   be of revocable definitions, the request, its attributes and its predicates may carry non-revocation
   intervals (well-formed u64 bounds), timestamps and non-revocation states are supplied as the
   decidable honesty predicate rev_ok_legacy demands (a state valid for the status list the verifier
   holds at a timestamp inside the interval that applies; none where none applies or the credential is
   not revocable); still no restrictions and no verifier-side override map. The proof shows that the
   prover and the verifier, which gather the referent intervals in different orders, select intervals
   of the same presence and validity (fold_opt_same_set), that the verifier's interval check, its
   non-revocation requirement and its registry lookup succeed, and that the ideal CL check accepts the
   non-revocation part against the looked-up registry value. *)
Theorem C04_legacy_rev : forall c P, rev_b c = true ->
  create_legacy pcfg_fixed (pc_req c) (pc_cx c) (pc_link c) (pc_sel c) (pc_self c) = ROk P ->
  verify_legacy cfg_fixed (pc_req c) P (pc_cx c) = Accept.
Proof. exact c04_legacy_rev_b. Qed.
(* inhabited by a case outside plain_b: a revocable credential shown at timestamp 20 against a request
   interval [10,30], an attribute interval [15,25] and a predicate interval [5,22]; the built presentation
   carries a non-revocation part *)
Theorem C04_rev_nonvacuous :
  rev_b g_case = true /\ plain_b g_case = false /\
  exists P, create_legacy pcfg_fixed (pc_req g_case) (pc_cx g_case) (pc_link g_case) (pc_sel g_case) (pc_self g_case) = ROk P
            /\ existsb (fun sp => is_some (sp_nrp sp)) (p_proofs P) = true.
Proof. exact c04_rev_nonvacuous. Qed.

(* END TO END WITH RESTRICTIONS, legacy format: for EVERY case whose request, with its restrictions removed, lies in
   the class rev_b, whatever presentation the prover model builds for the request WITH its restrictions is accepted,
   provided every restriction is true (Boolean semantics; of the credential that signed the sub-proof the built
   presentation binds the referent to: restr_true_legacy evaluated on what the prover model built), distinct
   definitions have distinct ids and keys, identifiers name schema and definition consistently, attributes are
   named and issuer_id / issuer_did tags are not mixed. Composition of C04_legacy_rev, the prover's independence
   of restrictions (C04_prover_ignores_restrictions) and C06_legacy_complete. *)
Theorem C04_prover_ignores_restrictions : forall pc R cx link ps self,
  create_legacy pc (strip_req R) cx link ps self = create_legacy pc R cx link ps self.
Proof. exact strip_create_legacy. Qed.
Theorem C04_legacy_restricted : forall c P,
  rev_b (strip_case c) = true ->
  create_legacy pcfg_fixed (pc_req c) (pc_cx c) (pc_link c) (pc_sel c) (pc_self c) = ROk P ->
  creddefs_distinct (pc_cx c) = true -> ids_bound (pc_cx c) P = true -> req_named (pc_req c) = true ->
  mixed_legacy_tags (CLegacy (pc_req c) P (pc_cx c)) = false ->
  restr_true_legacy (pc_req c) P (pc_cx c) = true ->
  verify_legacy cfg_fixed (pc_req c) P (pc_cx c) = Accept.
Proof. exact c04_legacy_restricted. Qed.
(* inhabited by a case outside rev_b: restrictions with $and, $not, $in and a value tag *)
Theorem C04_restricted_nonvacuous :
  exists P, create_legacy pcfg_fixed (pc_req x_case) (pc_cx x_case) (pc_link x_case) (pc_sel x_case) (pc_self x_case) = ROk P /\
    rev_b (strip_case x_case) = true /\ creddefs_distinct (pc_cx x_case) = true /\ ids_bound (pc_cx x_case) P = true /\ req_named (pc_req x_case) = true /\
    mixed_legacy_tags (CLegacy (pc_req x_case) P (pc_cx x_case)) = false /\ restr_true_legacy (pc_req x_case) P (pc_cx x_case) = true /\
    rev_b x_case = false.
Proof. exact c04_restricted_nonvacuous. Qed.

(* CL layer, for EVERY credential provenance, fed values, schema attribute set, revealed names,
   predicates, revocation part, link secret and position: a sub-proof the ideal prover builds from
   a correctly issued credential (unaltered, issued to this link secret, fed the signed values, for
   the schema's attribute set) passes the ideal CL check under the key that signed it, at the
   position it was built for, against the registry value its witness was made for *)
Theorem C04_sub_proof_verifies_partial : forall src fed attrs revealed preds nrpo link pos sp common reg,
  cl_prove src fed attrs revealed preds nrpo link pos = ROk sp ->
  src_altered src = false -> src_cred_link src = link -> values_agree fed (src_values src) = true ->
  set_eqb attrs (src_attrs src) = true ->
  match nrpo, reg with
  | Some n, Some (rk, acc) => nrp_valid n = true /\ nrp_regkey n = rk /\ nrp_acc n = acc
  | Some _, None => False
  | None, _ => True end ->
  sub_ok common link pos (sp, src_key src, attrs, reg) = true.
Proof. exact c04_sub_proof_verifies. Qed.

(* the behaviour before fix commit b9354dd fails the statement (honest W3C flow with an unused
   credential passed along first), and the repaired behaviours satisfy it on the same case *)
Theorem C04_unfixed_refuted :
  honest_w3c cfg_fixed pcfg_no_zip z_case = true /\ flow_w3c cfg_fixed pcfg_no_zip z_case = Some Err.
Proof. exact c04_unfixed_refuted. Qed.
Theorem C04_fixed_on_witness :
  honest_w3c cfg_fixed pcfg_fixed z_case = true /\ flow_w3c cfg_fixed pcfg_fixed z_case = Some Accept
  /\ honest_legacy cfg_fixed z_case = true /\ flow_legacy cfg_fixed pcfg_fixed z_case = Some Accept.
Proof. exact c04_fixed_on_witness. Qed.

(* the behaviour before fix commit f302f8d (W3C credential search stops at the first match even when
   it lacks the non-revocation proof the match calls for) fails the statement; repaired it holds *)
Theorem C04_unfixed_search_refuted :
  honest_w3c cfg_no_search pcfg_fixed s_case = true /\ flow_w3c cfg_no_search pcfg_fixed s_case = Some Err.
Proof. exact c04_unfixed_search_refuted. Qed.
Theorem C04_fixed_search_on_witness :
  honest_w3c cfg_fixed pcfg_fixed s_case = true /\ flow_w3c cfg_fixed pcfg_fixed s_case = Some Accept.
Proof. exact c04_fixed_search_on_witness. Qed.

Print Assumptions C04_legacy_plain.
Print Assumptions C04_plain_nonvacuous.
Print Assumptions C04_legacy_rev.
Print Assumptions C04_prover_ignores_restrictions.
Print Assumptions C04_legacy_restricted.
Print Assumptions C04_restricted_nonvacuous.
Print Assumptions C04_rev_nonvacuous.
Print Assumptions C04_sub_proof_verifies_partial.
Print Assumptions C04_unfixed_search_refuted.
Print Assumptions C04_unfixed_refuted.
Print Assumptions C04_fixed_on_witness.
