(* C04 — honest issue-hold-present-verify flows always verify.
   Property theorems only; every proof is `exact <lemma>`. PARTIAL for the legacy format only: see C04_statement. *)
From Coq Require Import List String ZArith NArith Bool.
From AV Require Import Model.VTypes Model.CL Model.VerifierLegacy Model.VCfg Model.Prover Model.PProps Proofs.C04Proofs Proofs.C04F10 Proofs.C04G6 Proofs.C06S1 Proofs.C06S4 Proofs.C06S5 Proofs.C04R1 Proofs.C04R2 Model.VProps Model.VerifierW3C Proofs.VW3CC1 Proofs.VW3CC2 Proofs.VW3CC3 Proofs.VW3CC4 Proofs.VW3CC5 Model.CL Proofs.C04F4 Proofs.VW3CC2 Proofs.C04W1 Proofs.C04W4c Proofs.C04W6 Proofs.C04W7 Proofs.C04W8.
Import ListNotations.

(* the full statement, for both formats (composition of the prover and verifier models over every
   honest case). Its W3C half is PROVED (C04_w3c_statement below, up to two side conditions on the case that the library's
   own types guarantee). Its legacy half is proved end to end for the classes of C04_legacy_plain, C04_legacy_rev and
   C04_legacy_restricted below; legacy cases outside them (verifier-side override maps, the link from the selection-level
   honesty predicate to the restriction hypothesis) are decided per case by the correspondence run on every check. *)
Definition C04_statement : Prop := c04_statement.

(* END TO END, legacy format, for EVERY case of the class [plain_b] (any number of correctly issued
   credentials of non-revocable definitions held under the holder's link secret; single attributes,
   attribute groups, predicates, unrevealed and self-attested referents; attribute names in any case /
   spacing; unused credentials passed along; no restrictions and no non-revocation intervals):
   whatever presentation the prover model builds, the verifier model accepts it - through all its
   stages (identifier resolution, referent comparison, value comparison under the shared
   normalisation, restriction stage, per-credential loop with predicate and schema checks and
   sub-proof registration, length guard, CL verification) *)
Theorem C04_legacy_plain : forall c P, plain_b c = true ->
  create_legacy pcfg_fixed (pc_req c) (pc_cx c) (pc_link c) (pc_sel c) (pc_self c) = ROk P ->
  verify_legacy cfg_fixed (pc_req c) P (pc_cx c) = Accept.
Proof. exact c04_legacy_plain_b. Qed.
(* the class is inhabited by a two-credential case with every kind of referent, which the prover model serves *)
Theorem C04_plain_nonvacuous :
  plain_b e_case = true /\ exists P, create_legacy pcfg_fixed (pc_req e_case) (pc_cx e_case) (pc_link e_case) (pc_sel e_case) (pc_self e_case) = ROk P.
Proof. exact c04_plain_nonvacuous. Qed.

(* END TO END, legacy format, for EVERY case of the wider class [rev_b]: as above, and the credentials may
   be of revocable definitions, the request, its attributes and its predicates may carry non-revocation
   intervals (well-formed u64 bounds), timestamps and non-revocation states are supplied as the
   decidable honesty predicate rev_ok_legacy demands (a state valid for the status list the verifier
   holds at a timestamp inside the interval that applies; none where none applies or the credential is
   not revocable); still no restrictions and no verifier-side override map. The proof shows that the
   prover and the verifier, which gather the referent intervals in different orders, select intervals
   of the same presence and validity (fold_opt_same_set), that the verifier's interval check, its
   non-revocation requirement and its registry lookup succeed, and that the ideal CL check accepts the
   non-revocation part against the looked-up registry value. *)
Theorem C04_legacy_rev : forall c P, rev_b c = true ->
  create_legacy pcfg_fixed (pc_req c) (pc_cx c) (pc_link c) (pc_sel c) (pc_self c) = ROk P ->
  verify_legacy cfg_fixed (pc_req c) P (pc_cx c) = Accept.
Proof. exact c04_legacy_rev_b. Qed.
(* inhabited by a case outside plain_b: a revocable credential shown at timestamp 20 against a request
   interval [10,30], an attribute interval [15,25] and a predicate interval [5,22]; the built presentation
   carries a non-revocation part *)
Theorem C04_rev_nonvacuous :
  rev_b g_case = true /\ plain_b g_case = false /\
  exists P, create_legacy pcfg_fixed (pc_req g_case) (pc_cx g_case) (pc_link g_case) (pc_sel g_case) (pc_self g_case) = ROk P
            /\ existsb (fun sp => is_some (sp_nrp sp)) (p_proofs P) = true.
Proof. exact c04_rev_nonvacuous. Qed.

(* END TO END WITH RESTRICTIONS, legacy format: for EVERY case whose request, with its restrictions removed, lies in
   the class rev_b, whatever presentation the prover model builds for the request WITH its restrictions is accepted,
   provided every restriction is true (Boolean semantics; of the credential that signed the sub-proof the built
   presentation binds the referent to: restr_true_legacy evaluated on what the prover model built), distinct
   definitions have distinct ids and keys, identifiers name schema and definition consistently, attributes are
   named and issuer_id / issuer_did tags are not mixed. Composition of C04_legacy_rev, the prover's independence
   of restrictions (C04_prover_ignores_restrictions) and C06_legacy_complete. *)
Theorem C04_prover_ignores_restrictions : forall pc R cx link ps self,
  create_legacy pc (strip_req R) cx link ps self = create_legacy pc R cx link ps self.
Proof. exact strip_create_legacy. Qed.
Theorem C04_legacy_restricted : forall c P,
  rev_b (strip_case c) = true ->
  create_legacy pcfg_fixed (pc_req c) (pc_cx c) (pc_link c) (pc_sel c) (pc_self c) = ROk P ->
  creddefs_distinct (pc_cx c) = true -> ids_bound (pc_cx c) P = true -> req_named (pc_req c) = true ->
  mixed_legacy_tags (CLegacy (pc_req c) P (pc_cx c)) = false ->
  restr_true_legacy (pc_req c) P (pc_cx c) = true ->
  verify_legacy cfg_fixed (pc_req c) P (pc_cx c) = Accept.
Proof. exact c04_legacy_restricted. Qed.
(* inhabited by a case outside rev_b: restrictions with $and, $not, $in and a value tag *)
Theorem C04_restricted_nonvacuous :
  exists P, create_legacy pcfg_fixed (pc_req x_case) (pc_cx x_case) (pc_link x_case) (pc_sel x_case) (pc_self x_case) = ROk P /\
    rev_b (strip_case x_case) = true /\ creddefs_distinct (pc_cx x_case) = true /\ ids_bound (pc_cx x_case) P = true /\ req_named (pc_req x_case) = true /\
    mixed_legacy_tags (CLegacy (pc_req x_case) P (pc_cx x_case)) = false /\ restr_true_legacy (pc_req x_case) P (pc_cx x_case) = true /\
    rev_b x_case = false.
Proof. exact c04_restricted_nonvacuous. Qed.

(* CL layer, for EVERY credential provenance, fed values, schema attribute set, revealed names,
   predicates, revocation part, link secret and position: a sub-proof the ideal prover builds from
   a correctly issued credential (unaltered, issued to this link secret, fed the signed values, for
   the schema's attribute set) passes the ideal CL check under the key that signed it, at the
   position it was built for, against the registry value its witness was made for *)
Theorem C04_sub_proof_verifies_partial : forall src fed attrs revealed preds nrpo link pos sp common reg,
  cl_prove src fed attrs revealed preds nrpo link pos = ROk sp ->
  src_altered src = false -> src_cred_link src = link -> values_agree fed (src_values src) = true ->
  set_eqb attrs (src_attrs src) = true ->
  match nrpo, reg with
  | Some n, Some (rk, acc) => nrp_valid n = true /\ nrp_regkey n = rk /\ nrp_acc n = acc
  | Some _, None => False
  | None, _ => True end ->
  sub_ok common link pos (sp, src_key src, attrs, reg) = true.
Proof. exact c04_sub_proof_verifies. Qed.

(* the behaviour before fix commit b9354dd fails the statement (honest W3C flow with an unused
   credential passed along first), and the repaired behaviours satisfy it on the same case *)
Theorem C04_unfixed_refuted :
  honest_w3c cfg_fixed pcfg_no_zip z_case = true /\ flow_w3c cfg_fixed pcfg_no_zip z_case = Some Err.
Proof. exact c04_unfixed_refuted. Qed.
Theorem C04_fixed_on_witness :
  honest_w3c cfg_fixed pcfg_fixed z_case = true /\ flow_w3c cfg_fixed pcfg_fixed z_case = Some Accept
  /\ honest_legacy cfg_fixed z_case = true /\ flow_legacy cfg_fixed pcfg_fixed z_case = Some Accept.
Proof. exact c04_fixed_on_witness. Qed.

(* the behaviour before fix commit f302f8d (W3C credential search stops at the first match even when
   it lacks the non-revocation proof the match calls for) fails the statement; repaired it holds *)
Theorem C04_unfixed_search_refuted :
  honest_w3c cfg_no_search pcfg_fixed s_case = true /\ flow_w3c cfg_no_search pcfg_fixed s_case = Some Err.
Proof. exact c04_unfixed_search_refuted. Qed.
Theorem C04_fixed_search_on_witness :
  honest_w3c cfg_fixed pcfg_fixed s_case = true /\ flow_w3c cfg_fixed pcfg_fixed s_case = Some Accept.
Proof. exact c04_fixed_search_on_witness. Qed.

(* W3C FORMAT, the request-data stage (check_request_data: the credential searches of every referent and the
   issuer / verification-method comparison), for EVERY request, context and list of presented entries and every
   setting of the behaviour flags with the credential-definition gate on:
   (1) the searches never miss an eligible entry - if some entry shows the attribute with the value its sub-proof
   reveals (or its schema holds the attribute), resp. proves the predicate, and meets the referent's conditions, the
   search succeeds, in whichever pass (strict / last resort) it is found; *)
Theorem C04_w3c_search_never_misses_attribute : forall cfg R cx cs name q nr,
  schemas_present cx cs ->
  (exists w b, In w cs /\ (rev_candidate cfg R cx name q nr w = Some b \/ unrev_candidate cfg R cx name q nr w = Some b)) ->
  exists l, check_attribute cfg R cx cs name q nr = ROk l.
Proof. exact check_attribute_complete. Qed.
Theorem C04_w3c_search_never_misses_predicate : forall cfg R cx cs pi,
  (exists w b, In w cs /\ pred_candidate cfg R cx pi w = Some b) -> exists l, check_predicate cfg R cx pi cs = ROk l.
Proof. exact check_predicate_complete. Qed.
(* (2) the conditions of a referent on an entry are met exactly by a true restriction and a met demand (C06 / C08 hold
   the two halves; see C08_w3c_conditions_complete), so: every name of every attribute referent served by an entry
   whose restriction is true and whose demand is met, every predicate proved by such an entry, every entry naming the
   issuer and credential definition the verifier knows for it => the stage succeeds. *)
Theorem C04_w3c_request_data_complete : forall cfg, f_gate_on_creddef cfg = true -> forall R cx cs,
  schemas_present cx cs -> entries_named cx cs ->
  (forall r ai n, In (r, ai) (rq_attrs R) -> In n (names_of ai) -> attr_name_served cfg R cx cs ai n) ->
  (forall r pi, In (r, pi) (rq_preds R) -> pred_served cfg R cx cs pi) ->
  exists needs, check_request_data cfg R cx cs = ROk needs.
Proof. exact w3c_request_data_complete. Qed.
(* the premises are met by what the prover model builds for the honest case s_case (a revocable credential shown with a
   timestamp, an interval on one referent, a second credential) and the conclusion is what the verifier model computes *)
Theorem C04_w3c_request_data_nonvacuous :
  exists P cs,
    create_w3c pcfg_fixed s_req s_cx 7 (pc_sel s_case) = ROk P /\
    mapR (fun c => bind (of_opt (wc_pv c)) (fun pv => ROk (c, pv))) (wp_creds P) = ROk cs /\
    schemas_present s_cx cs /\ entries_named s_cx cs /\
    (forall r ai n, In (r, ai) (rq_attrs s_req) -> In n (names_of ai) -> attr_name_served cfg_fixed s_req s_cx cs ai n) /\
    (forall r pi, In (r, pi) (rq_preds s_req) -> pred_served cfg_fixed s_req s_cx cs pi) /\
    check_request_data cfg_fixed s_req s_cx cs = ROk [].
Proof. exact w3c_request_data_nonvacuous. Qed.

(* (3) the W3C verifier model accepts EXACTLY when each of its stages does, in the order of the code (shape; every entry
   carries a presentation proof; request data; subjects show what the sub-proofs reveal; aggregated proof present;
   registry map; non-revocation requirement and sub-proof registration; CL verification) ... *)
Theorem C04_w3c_accept_iff_stages : forall cfg R P cx, verify_w3c cfg R P cx = Accept <-> w3c_stages cfg R P cx.
Proof. exact verify_w3c_accept_iff. Qed.
(* ... so acceptance of a W3C presentation follows from served referents and named entries (2), matching subjects, and
   the registration + CL stage succeeding for whatever entries the searches settle on. What remains unproved for the W3C
   format is only that the PROVER model's output always meets these premises (decided per case by the correspondence). *)
Theorem C04_w3c_accepts_served : forall cfg R P cx cs a regmap,
  f_gate_on_creddef cfg = true ->
  wp_shape_ok P = true ->
  mapR (fun c => bind (of_opt (wc_pv c)) (fun pv => ROk (c, pv))) (wp_creds P) = ROk cs ->
  schemas_present cx cs -> entries_named cx cs ->
  (forall r ai n, In (r, ai) (rq_attrs R) -> In n (names_of ai) -> attr_name_served cfg R cx cs ai n) ->
  (forall r pi, In (r, pi) (rq_preds R) -> pred_served cfg R cx cs pi) ->
  (negb (f_w3c_strict_subject cfg) || forallb (fun '(c, (_, sp)) => subject_matches c sp) cs) = true ->
  wp_agg P = Some a -> build_regmap cx = ROk regmap ->
  (forall needs, check_request_data cfg R cx cs = ROk needs ->
     exists subs, add_all cfg cx regmap needs 0 cs = ROk subs /\ cl_verify (f_common_link cfg) subs a (rq_nonce R) = Accept) ->
  verify_w3c cfg R P cx = Accept.
Proof. exact verify_w3c_accepts_served. Qed.
Theorem C04_w3c_stages_nonvacuous :
  exists P, create_w3c pcfg_fixed s_req s_cx 7 (pc_sel s_case) = ROk P /\ w3c_stages cfg_fixed s_req P s_cx.
Proof. exact w3c_stages_nonvacuous. Qed.

(* END TO END, W3C FORMAT, for EVERY case of the class [w3c_rev_r] (any number of correctly issued credentials of revocable or
   non-revocable definitions held under the holder's link secret; non-revocation intervals on the request, its attributes
   and its predicates; timestamps and non-revocation states as rev_ok_w3c demands: a status list the verifier holds for
   the named timestamp, inside every interval that applies - lower bounds overridden -, the witness valid for it; single
   attributes and attribute groups, revealed or not, under any case / spacing of their names; predicates; unused
   credentials passed along; numbers in the subject within the 32-bit range), under the hypothesis that every restriction
   of the request is true (restriction_true: the evaluator of C06 on the entry's identifiers and shown values) of the entry
   the prover builds for the referent it sits on: whatever presentation the prover model builds, the verifier model
   accepts it. The derived subjects show exactly what the sub-proofs reveal (markers for predicates); the credential
   searches find, in their strict pass, an entry for every referent, and settle only on entries that carry the
   non-revocation part they call for; every sub-proof registers with the registry value of its timestamp; the ideal CL
   check (with the non-revocation parts) passes. *)
Theorem C04_w3c_rev : forall c P, w3c_rev_r c = true ->
  (forall p subj sp r b ai, In p (nonempty (pc_sel c)) -> In (r, b) (pr_attrs p) -> assoc r (rq_attrs (pc_req c)) = Some ai -> build_subject pcfg_fixed (pc_req c) p = ROk subj ->
     restriction_true cfg_fixed (pc_cx c) (entry_of p subj sp) (ident_of p) (ai_restr ai)) ->
  (forall p subj sp r pi, In p (nonempty (pc_sel c)) -> In r (pr_preds p) -> assoc r (rq_preds (pc_req c)) = Some pi -> build_subject pcfg_fixed (pc_req c) p = ROk subj ->
     restriction_true cfg_fixed (pc_cx c) (entry_of p subj sp) (ident_of p) (pi_restr pi)) ->
  create_w3c pcfg_fixed (pc_req c) (pc_cx c) (pc_link c) (pc_sel c) = ROk P -> verify_w3c cfg_fixed (pc_req c) P (pc_cx c) = Accept.
Proof. exact c04_w3c_rev_c. Qed.
(* ... in particular for the decidable class [w3c_rev_b] = w3c_rev_r without restrictions *)
Theorem C04_w3c_rev_unrestricted : forall c P, w3c_rev_b c = true ->
  create_w3c pcfg_fixed (pc_req c) (pc_cx c) (pc_link c) (pc_sel c) = ROk P -> verify_w3c cfg_fixed (pc_req c) P (pc_cx c) = Accept.
Proof. exact c04_w3c_rev_b. Qed.
(* inhabitants: (1) no revocation - two credentials (one passed along unused as well), revealed and unrevealed single
   attributes and groups under other spellings of their names, two predicates on one attribute; (2) a revocable credential
   under a request-wide interval and an interval on its predicate, next to a non-revocable one: the request-data stage
   names entry 0 twice as having to carry a non-revocation part, and it does; (3) restrictions ($and / $or / $not, on a
   revealed attribute, a group and a predicate) met by the entries built *)
Theorem C04_w3c_plain_nonvacuous :
  w3c_rev_b w_case = true /\
  exists P, create_w3c pcfg_fixed w_req z_cx 7 w_sel = ROk P /\ List.length (wp_creds P) = 2%nat /\ verify_w3c cfg_fixed w_req P z_cx = Accept.
Proof. exact c04_w3c_plain_nonvacuous. Qed.
Theorem C04_w3c_rev_nonvacuous :
  w3c_rev_b r_case = true /\
  exists P cs, create_w3c pcfg_fixed r_req s_cx 7 r_sel = ROk P /\
    mapR (fun c => bind (of_opt (wc_pv c)) (fun pv => ROk (c, pv))) (wp_creds P) = ROk cs /\
    check_request_data cfg_fixed r_req s_cx cs = ROk [0; 0]%Z /\
    verify_w3c cfg_fixed r_req P s_cx = Accept.
Proof. exact c04_w3c_rev_nonvacuous. Qed.
(* THE W3C HALF OF THE FULL STATEMENT: every honest W3C case (honest_w3c, the decidable predicate C04_statement is stated
   with: correctly issued credentials of this holder, a selection covering the request with credentials that hold what they
   serve, restrictions met, revocation data valid for a status list the verifier holds inside every interval that applies)
   whose credential subjects are plain (text and 32-bit numbers - what the library's own type admits) and whose context
   lists well-formed status lists: whatever the prover model builds, the verifier model accepts *)
Theorem C04_w3c_statement : forall c, honest_w3c cfg_fixed pcfg_fixed c = true -> subjects_plain c = true -> is_ok (build_regmap (pc_cx c)) = true ->
  forall o, flow_w3c cfg_fixed pcfg_fixed c = Some o -> o = Accept.
Proof. exact c04_w3c_honest. Qed.
Theorem C04_w3c_statement_nonvacuous :
  honest_w3c cfg_fixed pcfg_fixed r_case = true /\ subjects_plain r_case = true /\ is_ok (build_regmap (pc_cx r_case)) = true /\
  flow_w3c cfg_fixed pcfg_fixed r_case = Some Accept /\
  honest_w3c cfg_fixed pcfg_fixed (mk_case w_req_r z_cx 7 w_sel []) = true /\ flow_w3c cfg_fixed pcfg_fixed (mk_case w_req_r z_cx 7 w_sel []) = Some Accept.
Proof. exact c04_w3c_honest_nonvacuous. Qed.
Theorem C04_w3c_restricted_nonvacuous :
  w3c_rev_b (mk_case w_req_r z_cx 7 w_sel []) = false /\
  exists P, create_w3c pcfg_fixed w_req_r z_cx 7 w_sel = ROk P /\ verify_w3c cfg_fixed w_req_r P z_cx = Accept.
Proof. exact c04_w3c_restricted_nonvacuous. Qed.

Print Assumptions C04_legacy_plain.
Print Assumptions C04_plain_nonvacuous.
Print Assumptions C04_legacy_rev.
Print Assumptions C04_prover_ignores_restrictions.
Print Assumptions C04_legacy_restricted.
Print Assumptions C04_restricted_nonvacuous.
Print Assumptions C04_rev_nonvacuous.
Print Assumptions C04_sub_proof_verifies_partial.
Print Assumptions C04_unfixed_search_refuted.
Print Assumptions C04_unfixed_refuted.
Print Assumptions C04_fixed_on_witness.
Print Assumptions C04_w3c_search_never_misses_attribute.
Print Assumptions C04_w3c_search_never_misses_predicate.
Print Assumptions C04_w3c_request_data_complete.
Print Assumptions C04_w3c_request_data_nonvacuous.
Print Assumptions C04_w3c_accept_iff_stages.
Print Assumptions C04_w3c_accepts_served.
Print Assumptions C04_w3c_stages_nonvacuous.
Print Assumptions C04_w3c_rev.
Print Assumptions C04_w3c_rev_unrestricted.
Print Assumptions C04_w3c_plain_nonvacuous.
Print Assumptions C04_w3c_rev_nonvacuous.
Print Assumptions C04_w3c_restricted_nonvacuous.
Print Assumptions C04_w3c_statement.
Print Assumptions C04_w3c_statement_nonvacuous.
