(* C17 — the C ABI is a faithful, panic-free image of the native API.
   Property theorems only; every proof is `exact <lemma>`. PARTIAL: the argument handling is
   proved over a table regenerated from the source; faithfulness of the heavy operations is decided
   by the correspondence run. *)
From Coq Require Import List String ZArith Bool.
From AV Require Import Model.VTypes Model.Store Model.Ffi Generated.Ffi Proofs.C17Proofs.
Import ListNotations.

Theorem C17_table_checked : all_outs_checked gen_ffi_functions = true.
Proof. exact ffi_table_checked. Qed.
Theorem C17_table_wrapped : all_wrapped gen_ffi_functions = true.
Proof. exact ffi_table_wrapped. Qed.
Theorem C17_malformed_rejected : forall (A : Type) n l h (body : ffi_out A),
  n = true \/ l = false \/ h = false -> exists code, prologue n l h body = FErr code /\ code <> 0%Z.
Proof. exact (@c17_malformed_rejected). Qed.
Theorem C17_timestamp_faithful : forall o,
  match o with Some t => (0 <= t < 2147483648)%Z | None => True end -> entry_timestamp (c_timestamp o) = o.
Proof. exact c17_timestamp_faithful. Qed.
Theorem C17_opt_load_spec : forall m (h : nat), opt_load m h = if Nat.eqb h 0%nat then Some None else option_map Some (lookup m h).
Proof. exact c17_opt_load_spec. Qed.
Theorem C17_opt_load_stale : forall m (h : nat), h <> 0%nat -> lookup m h = None -> opt_load m h = None.
Proof. exact c17_opt_load_stale. Qed.
Theorem C17_load_list_all : forall m hs ty l, load_list m hs ty = Some l ->
  Forall2 (fun h o => lookup m h = Some o /\ oty o = ty) hs l.
Proof. exact c17_load_list_all. Qed.
Theorem C17_load_list_wrong_type : forall m hs ty h o, In h hs -> lookup m h = Some o -> oty o <> ty -> load_list m hs ty = None.
Proof. exact c17_load_list_wrong_type. Qed.

Print Assumptions C17_table_checked.
Print Assumptions C17_table_wrapped.
Print Assumptions C17_malformed_rejected.
Print Assumptions C17_timestamp_faithful.
Print Assumptions C17_opt_load_stale.
Print Assumptions C17_load_list_all.
Print Assumptions C17_load_list_wrong_type.
