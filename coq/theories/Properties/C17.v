(* C17 — the C ABI is a faithful, panic-free image of the native API.
   Property theorems only; every proof is `exact <lemma>`. PARTIAL: the argument handling is
   proved over a table regenerated from the source; faithfulness of the heavy operations is decided
   by the correspondence run. *)
From Coq Require Import List String ZArith Bool.
From AV Require Import Model.VTypes Model.Store Model.Encode Model.Ffi Generated.Ffi Proofs.C17Proofs.
Import ListNotations.

Theorem C17_table_checked : all_outs_checked gen_ffi_functions = true.
Proof. exact ffi_table_checked. Qed.
Theorem C17_table_wrapped : all_wrapped gen_ffi_functions = true.
Proof. exact ffi_table_wrapped. Qed.
Theorem C17_malformed_rejected : forall (A : Type) n l h (body : ffi_out A),
  n = true \/ l = false \/ h = false -> exists code, prologue n l h body = FErr code /\ code <> 0%Z.
Proof. exact (@c17_malformed_rejected). Qed.
Theorem C17_timestamp_faithful : forall o,
  match o with Some t => (0 <= t < 2147483648)%Z | None => True end -> entry_timestamp (c_timestamp o) = o.
Proof. exact c17_timestamp_faithful. Qed.
Theorem C17_opt_load_spec : forall m (h : nat), opt_load m h = if Nat.eqb h 0%nat then Some None else option_map Some (lookup m h).
Proof. exact c17_opt_load_spec. Qed.
Theorem C17_opt_load_stale : forall m (h : nat), h <> 0%nat -> lookup m h = None -> opt_load m h = None.
Proof. exact c17_opt_load_stale. Qed.
Theorem C17_load_list_all : forall m hs ty l, load_list m hs ty = Some l ->
  Forall2 (fun h o => lookup m h = Some o /\ oty o = ty) hs l.
Proof. exact c17_load_list_all. Qed.
Theorem C17_load_list_wrong_type : forall m hs ty h o, In h hs -> lookup m h = Some o -> oty o <> ty -> load_list m hs ty = None.
Proof. exact c17_load_list_wrong_type. Qed.

(* list arguments. Issuance: names, raw values and OPTIONAL encoded values are index-aligned; entry i carries
   the i-th encoded value when one is given and the canonical encoding of the i-th raw value otherwise -- a null
   or missing entry never shifts a later one (the rule the correspondence evaluates on every issuance case) *)
Theorem C17_enc_values_aligned : forall names raws encs i n r, List.length names = List.length raws ->
  nth_error names i = Some n -> nth_error raws i = Some r ->
  nth_error (enc_values names raws encs) i = Some (n, (r, match nth_error encs i with Some (Some e) => e | _ => encode r end)).
Proof. exact enc_values_nth. Qed.
(* registry indices cross as i32 and are read `as u32`: a non-negative index is itself, a negative one lands
   at or above 2^31 and so never names an entry of a registry *)
Theorem C17_index_cast : forall i,
  ((0 <= i < 2147483648)%Z -> index_cast i = i) /\ ((-2147483648 <= i < 0)%Z -> (2147483648 <= index_cast i < 4294967296)%Z).
Proof. exact (fun i => conj (index_cast_id i) (index_cast_negative i)). Qed.
(* interval overrides: every record of the list is kept, grouped by registry; only a later record for the same
   (registry, requested bound) replaces an earlier one *)
Theorem C17_overrides_kept : forall l rid req rid' req' o,
  ovr_find (l ++ [(rid, req, o)]) rid req = Some o /\
  ((rid', req') <> (rid, req) -> ovr_find (l ++ [(rid', req', o)]) rid req = ovr_find l rid req) /\
  (forall o', ovr_find l rid req = Some o' -> In (rid, req, o') l).
Proof. exact (fun l rid req rid' req' o => conj (ovr_find_last l rid req o) (conj (ovr_find_other l rid req rid' req' o) (fun o' => ovr_find_in l rid req o'))). Qed.

(* 64-bit sizes and indices (max_cred_num, rev_reg_index, reg_idx) reach a 32-bit unsigned parameter only when they fit:
   accepted exactly for 0 .. 2^32-1, unchanged; anything else is refused, never wrapped. A timestamp argument of 0 or less
   means "none": the updated list then keeps the timestamp it had. The conversion sites are pinned from the source. *)
Theorem C17_index_try : forall i j, index_try i = Some j <-> (j = i /\ 0 <= i < 4294967296)%Z.
Proof. exact index_try_spec. Qed.
Theorem C17_index_never_wraps : forall i, (i < 0 \/ 4294967296 <= i)%Z -> index_try i = None.
Proof. exact index_try_never_wraps. Qed.
Theorem C17_timestamp_argument : forall old arg,
  ((arg <= 0)%Z -> ts_after old arg = old) /\ ((0 < arg)%Z -> ts_after old arg = Some arg).
Proof. exact (fun old arg => conj (ts_after_kept old arg) (ts_after_set old arg)). Qed.
Theorem C17_scalar_rules_pinned : gen_ffi_u32_try_into_sites = 3%Z /\ gen_ffi_timestamp_none_sites = 2%Z.
Proof. exact ffi_scalar_rules_pinned. Qed.

Print Assumptions C17_table_checked.
Print Assumptions C17_table_wrapped.
Print Assumptions C17_malformed_rejected.
Print Assumptions C17_timestamp_faithful.
Print Assumptions C17_opt_load_stale.
Print Assumptions C17_load_list_all.
Print Assumptions C17_load_list_wrong_type.
Print Assumptions C17_enc_values_aligned.
Print Assumptions C17_index_cast.
Print Assumptions C17_overrides_kept.
Print Assumptions C17_index_try.
Print Assumptions C17_index_never_wraps.
Print Assumptions C17_timestamp_argument.
Print Assumptions C17_scalar_rules_pinned.
