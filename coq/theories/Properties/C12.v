(* C12 — untrusted presentations never crash the verifier (verifier half; the parser half is
   differential testing and is labelled as such). Property theorems only. *)
From Coq Require Import List String ZArith NArith Bool.
From AV Require Import Model.VTypes Model.CL Model.VerifierLegacy Model.VerifierW3C Model.VCfg Model.VProps Model.CaseV
  Proofs.C12Proofs Proofs.VTransfer.
Import ListNotations.

(* Panic is modelled at every index, unwrap and overflow site of the two verifiers. For EVERY
   request, presentation and context — however inconsistent — the models do not reach one, and
   they are total functions (structural recursion), i.e. they terminate with accept / reject / error *)
Theorem C12_legacy_no_panic : forall cfg, no_panic_cfg cfg -> forall R P cx, verify_legacy cfg R P cx <> Panic.
Proof. exact legacy_no_panic. Qed.
Theorem C12_w3c_no_panic : forall cfg, no_panic_cfg cfg -> forall R P cx, verify_w3c cfg R P cx <> Panic.
Proof. exact w3c_no_panic. Qed.
Theorem C12_current : no_panic_cfg cfg_current.
Proof. exact (conj eq_refl (conj eq_refl eq_refl)). Qed.
Theorem C12_transfer : forall c impl, rel_V impl (run_model cfg_current c) = true -> ok_C12 impl = true.
Proof. exact c12_transfer. Qed.

Print Assumptions C12_legacy_no_panic.
Print Assumptions C12_w3c_no_panic.
Print Assumptions C12_current.
Print Assumptions C12_transfer.
