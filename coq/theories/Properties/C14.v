(* C14 — legacy and W3C credential forms are interchangeable.
   Property theorems only; every proof is `exact <lemma>`. *)
From Coq Require Import List String ZArith NArith Bool.
From AV Require Import Model.Str Model.Encode Model.VTypes Model.Issuance Proofs.C14Proofs.
Import ListNotations.

(* legacy -> W3C -> legacy, for EVERY canonically encoded value list (any raw strings): the
   conversion back succeeds and every attribute keeps its name, position and encoded value *)
Theorem C14_legacy_roundtrip : forall vals, canonical vals = true ->
  exists vals', from_subject (to_subject vals) = ROk vals' /\ enc_of vals' = enc_of vals.
Proof. exact c14_legacy_roundtrip. Qed.
(* and converting again gives the same W3C subject (numbers stay numbers, text stays text) *)
Theorem C14_subject_stable : forall vals vals', from_subject (to_subject vals) = ROk vals' -> to_subject vals' = to_subject vals.
Proof. exact c14_subject_stable. Qed.
(* W3C -> legacy gives canonical encodings, hence W3C -> legacy -> W3C -> legacy preserves them *)
Theorem C14_w3c_roundtrip : forall subj vals, subject_wf subj = true -> from_subject subj = ROk vals ->
  exists vals', from_subject (to_subject vals) = ROk vals' /\ enc_of vals' = enc_of vals.
Proof. exact c14_w3c_roundtrip. Qed.
Theorem C14_bool_refused : forall subj n b, In (n, VBool b) subj -> from_subject subj = RErr \/ from_subject subj = RPanic.
Proof. exact c14_bool_refused. Qed.
(* identifiers, signature material and revocation data are carried over unchanged; what is not a
   well-formed credential of the source form is refused *)
Theorem C14_roundtrip_legacy : forall vals r sh, canonical vals = true -> legacy_valid r = true -> w3c_valid sh = true ->
  exists subj vals', credential_to_w3c vals r = ROk (subj, r) /\ credential_from_w3c sh subj r = ROk (vals', r) /\ enc_of vals' = enc_of vals.
Proof. exact c14_roundtrip_legacy. Qed.
Theorem C14_refused_legacy : forall vals r, legacy_valid r = false -> credential_to_w3c vals r = RErr.
Proof. exact c14_refused_legacy. Qed.
Theorem C14_refused_w3c : forall sh subj r, w3c_valid sh = false -> credential_from_w3c sh subj r = RErr.
Proof. exact c14_refused_w3c. Qed.

Print Assumptions C14_legacy_roundtrip.
Print Assumptions C14_subject_stable.
Print Assumptions C14_w3c_roundtrip.
Print Assumptions C14_bool_refused.
Print Assumptions C14_roundtrip_legacy.
Print Assumptions C14_refused_legacy.
Print Assumptions C14_refused_w3c.
