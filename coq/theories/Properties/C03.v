(* C03 — every value a verified presentation reveals is the value the issuer signed.
   Property theorems only; every proof is `exact <lemma>`. *)
From Coq Require Import List String ZArith NArith Bool.
From AV Require Import Model.VTypes Model.CL Model.VerifierLegacy Model.VerifierW3C Model.VCfg Model.VProps Model.CaseV
  Proofs.C03Proofs Proofs.VTransfer.
Import ListNotations.

(* for EVERY well-formed case: if the verifier model accepts, then the encoded value of every
   revealed attribute and of every member of every revealed group (legacy), every string or number
   of every credential subject (W3C) is — after the verifier-side normalisation / re-encoding —
   the value the issuer signed for that attribute in the credential the sub-proof is about; and a
   W3C credential names the issuer and the credential definition whose key signed it *)
Theorem C03_model : forall cfg c, f_group_keys cfg = true -> f_w3c_strict_subject cfg = true -> case_wf c = true ->
  ok_C03 c (run_model cfg c) = true.
Proof. exact c03_model. Qed.

Theorem C03_current : forall c, case_wf c = true -> ok_C03 c (run_model cfg_current c) = true.
Proof. exact (fun c H => c03_model cfg_current c eq_refl eq_refl H). Qed.

Theorem C03_transfer : forall c impl, case_wf c = true -> rel_V impl (run_model cfg_current c) = true -> ok_C03 c impl = true.
Proof. exact c03_transfer. Qed.

Print Assumptions C03_model.
Print Assumptions C03_current.
Print Assumptions C03_transfer.
