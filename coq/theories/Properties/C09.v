(* C09 — the revocation status list is a faithful state machine of issue/revoke history.
   Property theorems only; every proof is `exact <lemma>`. *)
From Coq Require Import List ZArith Bool.
From AV Require Import Model.Sexp Model.RevList Model.CaseC09 Proofs.RevListProofs Proofs.C09Extra Proofs.C09Transfer.
Import ListNotations.
Open Scope Z_scope.

(* after any sequence of updates the entry of every index is the result of applying the
   requested issue/revoke sets in order (no-op requests and out-of-registry indices ignored) *)
Theorem C09_bits_spec : forall s h i,
  nthZ (bits (rsl_run s h)) i = option_map (fun b => spec_run i b h) (nthZ (bits s) i).
Proof. exact bits_spec. Qed.

(* the accumulator is a function of the entries alone (plus a constant of size and mode) *)
Theorem C09_acc_invariant : forall n bd t h, 0 <= n ->
  forall x, acc (rsl_run (rsl_create n bd t) h) x =
            acc_of_bits (bits (rsl_run (rsl_create n bd t) h)) x + mode_offset n bd x.
Proof. exact acc_invariant. Qed.

(* ... hence independent of path, repetitions and no-op requests *)
Theorem C09_acc_path_independent : forall n bd t1 t2 h1 h2, 0 <= n ->
  bits (rsl_run (rsl_create n bd t1) h1) = bits (rsl_run (rsl_create n bd t2) h2) ->
  forall x, acc (rsl_run (rsl_create n bd t1) h1) x = acc (rsl_run (rsl_create n bd t2) h2) x.
Proof. exact acc_path_independent. Qed.

(* the timestamp changes only when one is supplied; a timestamp-only update changes nothing else *)
Theorem C09_ts_spec : forall s u,
  ts (rsl_step s u) = match u with Upd _ _ (Some t) => Some t | Upd _ _ None => ts s | Touch t => Some t end.
Proof. exact ts_spec. Qed.
Theorem C09_touch_only_ts : forall s t, bits (rsl_touch s t) = bits s /\ acc (rsl_touch s t) = acc s.
Proof. exact touch_only_ts. Qed.

(* a credential issued against a list embeds the accumulator the list has after the matching
   issue update; issuance is refused exactly outside indices 1 .. n-1 *)
Theorem C09_issue_embeds_acc : forall s i a, issue_acc s i = Some a ->
  forall x, a x = acc (rsl_update s [i] [] None) x.
Proof. exact issue_embeds_acc. Qed.
Theorem C09_issue_refused_iff : forall s i, issue_acc s i = None <-> ~ (1 <= i < lenZ (bits s)).
Proof. exact issue_refused_iff. Qed.

(* the registry keeps its size through every history (indices outside it never create entries) *)
Theorem C09_size_preserved : forall s h, lenZ (bits (rsl_run s h)) = lenZ (bits s).
Proof. exact run_len. Qed.
(* a request whose indices are all already in the requested state, or outside the registry, is
   ignored altogether: entries and accumulator stay, the timestamp moves only if one is supplied *)
Theorem C09_noop_update_ignored : forall s iss rev t, noop_request s iss rev ->
  bits (rsl_update s iss rev t) = bits s /\
  (forall x, acc (rsl_update s iss rev t) x = acc s x) /\
  ts (rsl_update s iss rev t) = match t with Some x => Some x | None => ts s end.
Proof. exact noop_update_ignored. Qed.
(* the issued / revoked requests act as sets: order and repetition inside a request do not matter *)
Theorem C09_requests_are_sets : forall s iss rev iss' rev' t t',
  (forall i, In i iss <-> In i iss') -> (forall i, In i rev <-> In i rev') ->
  bits (rsl_update s iss rev t) = bits (rsl_update s iss' rev' t').
Proof. exact update_bits_sets. Qed.
Theorem C09_requests_are_sets_acc : forall s iss rev iss' rev' t t' (off : G),
  (forall x, acc s x = acc_of_bits (bits s) x + off x) ->
  (forall i, In i iss <-> In i iss') -> (forall i, In i rev <-> In i rev') ->
  forall x, acc (rsl_update s iss rev t) x = acc (rsl_update s iss' rev' t') x.
Proof. exact update_acc_sets. Qed.
Theorem C09_noop_nonvacuous :
  let s := rsl_update (rsl_create 4 false None) [2] [] None in
  noop_request s [2; 9; 2] [1; 9] /\ bits s = [true; true; false; true].
Proof. exact noop_request_inhabited. Qed.

(* transfer *)
Theorem C09_transfer : forall n bd t0 init steps, ok_C09 n bd t0 init steps = true ->
  exists b t c f obs, init = RState b t c f /\ bits (rsl_create n bd t0) = b /\ ts (rsl_create n bd t0) = t /\
    walk (rsl_create n bd t0) steps [(c, acc (rsl_create n bd t0))] = Some obs /\ classes_agree n obs = true.
Proof. exact c09_transfer. Qed.
Theorem C09_transfer_update : forall s i v t res r obs o, walk s ((OUpd i v t, res) :: r) obs = Some o ->
  exists b t' c, res = RState b t' c true /\ bits (rsl_update s i v t) = b /\ ts (rsl_update s i v t) = t' /\
                 walk (rsl_update s i v t) r ((c, acc (rsl_update s i v t)) :: obs) = Some o.
Proof. exact walk_upd. Qed.
Theorem C09_transfer_issue : forall s i res r obs o, walk s ((OIssue i, res) :: r) obs = Some o ->
  match res with
  | RIssued c => exists a, issue_acc s i = Some a /\ walk s r ((c, a) :: obs) = Some o
  | RErr => issue_acc s i = None /\ walk s r obs = Some o
  | _ => False
  end.
Proof. exact walk_issue. Qed.
Theorem C09_transfer_classes : forall n obs, classes_agree n obs = true ->
  forall k1 k2 c1 a1 c2 a2, (k1 < k2)%nat -> nth_error obs k1 = Some (c1, a1) -> nth_error obs k2 = Some (c2, a2) ->
  (c1 =? c2) = g_eqb n a1 a2.
Proof. exact classes_agree_spec. Qed.

Print Assumptions C09_bits_spec.
Print Assumptions C09_acc_invariant.
Print Assumptions C09_acc_path_independent.
Print Assumptions C09_ts_spec.
Print Assumptions C09_touch_only_ts.
Print Assumptions C09_issue_embeds_acc.
Print Assumptions C09_issue_refused_iff.
Print Assumptions C09_transfer.
Print Assumptions C09_transfer_update.
Print Assumptions C09_transfer_issue.
Print Assumptions C09_transfer_classes.
Print Assumptions C09_size_preserved.
Print Assumptions C09_noop_update_ignored.
Print Assumptions C09_requests_are_sets.
Print Assumptions C09_requests_are_sets_acc.
Print Assumptions C09_noop_nonvacuous.
