(* C16 — restriction syntax parses, prints and validates consistently.
   Property theorems only; every proof is `exact <lemma>`. *)
From Coq Require Import List String ZArith Bool.
From AV Require Import Model.Sexp Model.Json Model.Query Model.QueryValidate Model.Ident Model.CaseC16
  Proofs.QueryProofs Proofs.QueryValidateProofs Generated.Consts.
Import ListNotations.
Open Scope string_scope.

(* parsing a restriction, serialising it and parsing it again yields the same query *)
Theorem C16_parse_print_parse : forall j q,
  parse_restriction j = Some q -> parse_restriction (tv q) = Some q.
Proof. exact parse_print_parse. Qed.

(* what the parser can produce: no empty $or, no empty $exist, no operator key as a tag *)
Theorem C16_parse_image : forall j q, parse_restriction j = Some q -> img q.
Proof. exact parse_restriction_img. Qed.

(* every query in that image is a fixed point of print-then-parse *)
Theorem C16_print_parse : forall q, img q -> pq (tv q) = Some q.
Proof. exact print_parse. Qed.

(* the legacy list-of-filters form is the disjunction of its non-empty filters *)
Theorem C16_legacy_array_is_disjunction : forall arr,
  parse_restriction (JArr arr) =
  match mapM legacy_filter arr with
  | None => None
  | Some fs =>
      match nonempty_filters fs with
      | [] => Some (And [])
      | vs => option_map Or (mapM pq vs)
      end
  end.
Proof. exact legacy_array_is_disjunction. Qed.

(* empty forms mean "no restriction" (And []) *)
Theorem C16_empty_forms_unrestricted :
  parse_restriction (JObj []) = Some (And []) /\
  parse_restriction (JArr []) = Some (And []) /\
  parse_restriction (JArr [JObj []]) = Some (And []) /\
  parse_restriction (JObj [("$or", JArr [])]) = Some (And []) /\
  parse_restriction (JObj [("$and", JArr [])]) = Some (And []) /\
  (forall ks, parse_restriction (JArr [JObj (map (fun k => (k, JNull)) ks)]) = Some (And [])).
Proof. exact empty_forms_unrestricted. Qed.

(* malformed restrictions are rejected: wrong operand types, unknown operators, multi-key
   and empty operator objects, non-object list members, non-object/array documents *)
Theorem C16_malformed_rejected :
  (forall k z, pq (obj1 k (JNum z)) = None) /\
  (forall k b, pq (obj1 k (JBool b)) = None) /\
  (forall k, pq (obj1 k JNull) = None) /\
  (forall k l, reserved k = false -> pq (obj1 k (JArr l)) = None) /\
  (forall k a b r, reserved k = false -> pq (obj1 k (JObj (a :: b :: r))) = None) /\
  (forall k, reserved k = false -> pq (obj1 k (JObj [])) = None) /\
  (forall k op v, reserved k = false ->
     (op =? "$neq") || (op =? "$gt") || (op =? "$gte") || (op =? "$lt") || (op =? "$lte") || (op =? "$like") || (op =? "$in") = false ->
     pq (obj1 k (obj1 op v)) = None) /\
  (forall j, is_obj j = false -> parse_restriction (JArr [j]) = None) /\
  (forall j, match j with JObj _ | JArr _ => False | _ => True end -> parse_restriction j = None).
Proof. exact malformed_rejected. Qed.

(* version-1 validation refuses exactly the queries that test a qualifiable tag against a
   fully qualified (URI) identifier; other versions accept every parsed query *)
Theorem C16_v1_rejects_qualified : forall q,
  validate_query true q = false <->
  exists k v, In (k, v) (leaves q) /\ mem_str k qualifiable_tags = true /\ is_uri v = true.
Proof. exact v1_rejects_qualified. Qed.

Theorem C16_v2_accepts : forall q, validate_query false q = true.
Proof. exact v2_accepts_everything. Qed.

(* the tag list used above is the one in the source, regenerated on every run *)
Theorem C16_tags_pin : qualifiable_tags = gen_qualifiable_tags.
Proof. exact qualifiable_tags_pin. Qed.

(* transfer: what a case on which the extracted predicate evaluates to true says about the
   implementation's outcome *)
Theorem C16_transfer_parse : forall j o, ok_C16_parse j o = true ->
  match o with
  | POk q printed rt => parse_restriction j = Some q /\ printed = tv q /\ rt = true
  | PErr => parse_restriction j = None
  | PPanic => False
  end.
Proof. exact c16_transfer_parse. Qed.

Theorem C16_transfer_validate : forall v1 q o, ok_C16_validate v1 q o = true ->
  match o with
  | VValid same rt => validate_query v1 q = true /\ same = true /\ rt = true
  | VInvalid same rt => validate_query v1 q = false /\ same = true /\ rt = true
  | VDeserErr => False
  end.
Proof. exact c16_transfer_validate. Qed.

Print Assumptions C16_parse_print_parse.
Print Assumptions C16_parse_image.
Print Assumptions C16_print_parse.
Print Assumptions C16_legacy_array_is_disjunction.
Print Assumptions C16_empty_forms_unrestricted.
Print Assumptions C16_malformed_rejected.
Print Assumptions C16_v1_rejects_qualified.
Print Assumptions C16_v2_accepts.
Print Assumptions C16_tags_pin.
Print Assumptions C16_transfer_parse.
Print Assumptions C16_transfer_validate.
