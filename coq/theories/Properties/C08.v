(* C08 — non-revocation intervals resolve to a definite acceptance window per credential.
   Property theorems only; every proof is `exact <lemma>`. *)
From Coq Require Import List String ZArith NArith Bool Permutation.
From AV Require Import Model.VTypes Model.Interval Model.CL Model.VerifierLegacy Model.VerifierW3C Model.VCfg Model.VProps Model.CaseV
  Proofs.IntervalProofs Proofs.C02Proofs Proofs.C08Proofs Proofs.C08T1 Proofs.C08T2 Proofs.C08T3 Model.Prover Model.PProps Proofs.C04F10 Proofs.C04G6 Proofs.VW3CC1 Proofs.VW3CC2.
Import ListNotations.
Open Scope Z_scope.

(* algebra: compare_and_set is the meet of intervals (on u64 data), associative, and the order in
   which a hash set of referents is traversed is irrelevant; only lower bounds are overridden *)
Theorem C08_merge_meet : forall a b t, wf a -> wf b -> u64 t -> is_valid (merge a b) t = is_valid a t && is_valid b t.
Proof. exact merge_meet. Qed.
Theorem C08_merge_assoc : forall a b c, merge (merge a b) c = merge a (merge b c).
Proof. exact merge_assoc. Qed.
Theorem C08_merge_order_independent : forall l1 l2 i1 i2 t,
  Forall wf l1 -> u64 t -> Permutation l1 l2 -> merge_all l1 = Some i1 -> merge_all l2 = Some i2 -> is_valid i1 t = is_valid i2 t.
Proof. exact merge_order_independent. Qed.
Theorem C08_override_only_from : forall m i, ito (override m i) = ito i.
Proof. exact override_to. Qed.
Theorem C08_override_from : forall m i f, ifrom i = Some f ->
  ifrom (override m i) = Some (match assocZ f m with Some o => o | None => f end).
Proof. exact override_from. Qed.
Theorem C08_missing_bounds_open : forall t, u64 t -> is_valid {| ifrom := None; ito := None |} t = true.
Proof. exact open_interval_valid. Qed.
(* "all demands met" is contained in "inside the tightest combination" *)
Theorem C08_D_subset_T : forall m a b t,
  is_valid (override m a) t = true -> is_valid (override m b) t = true -> is_valid (override m (merge a b)) t = true.
Proof. exact D_subset_T. Qed.

(* outside the tightest combination of the applying intervals, without timestamp, or without a
   status list for the named timestamp: not accepted (both formats, every case) *)
Theorem C08_outside_rejected : forall cfg c,
  f_unrev_intervals cfg = true -> f_gate_on_creddef cfg = true -> f_require_nrp cfg = true -> f_w3c_pred_cv cfg = true ->
  case_wf c = true -> c08_sound c (run_model cfg c) = true.
Proof. exact c08_sound_model. Qed.

(* COMPLETENESS, legacy format, for EVERY request, presentation and context: if the verifier model accepts
   the presentation under the same request with every interval removed, and for every sub-proof of a
   revocable credential to which an interval applies the named timestamp meets the demand of every referent
   it serves (own interval if it has one, the request-wide one otherwise, lower bounds overridden), a status
   list and registry key exist for it and the non-revocation part is valid for them (demands_ok: literally
   the premise the correspondence evaluates in ok_C08), then the verifier model accepts under the request
   itself. served_nonempty: every sub-proof of a revocable credential serves a referent (the prover emits no
   others; for one that serves none the code still applies the request-wide interval). The W3C converse is
   decided per case only (the W3C verifier has no referent map and searches for a credential). *)
Theorem C08_legacy_complete : forall R P cx,
  verify_legacy cfg_fixed (nonr_req R) P cx = Accept -> demands_ok R P cx = true -> served_nonempty R P cx = true ->
  verify_legacy cfg_fixed R P cx = Accept.
Proof. exact c08_legacy_complete. Qed.
Theorem C08_complete_nonvacuous :
  exists P, create_legacy pcfg_fixed g_req g_cx 7 (pc_sel g_case) (pc_self g_case) = ROk P /\
    verify_legacy cfg_fixed (nonr_req g_req) P g_cx = Accept /\ demands_ok g_req P g_cx = true /\ served_nonempty g_req P g_cx = true /\
    verify_legacy cfg_fixed g_req P g_cx = Accept /\
    demands_ok g_req_late P g_cx = false /\ verify_legacy cfg_fixed (nonr_req g_req_late) P g_cx = Accept /\ verify_legacy cfg_fixed g_req_late P g_cx = Err.
Proof. exact c08_complete_nonvacuous. Qed.

(* the interval stage alone (any flags) *)
Theorem C08_demands_met_stage_passes : forall cfg R P cx cd k id rid t local,
  f_gate_on_creddef cfg = true -> f_unrev_intervals cfg = true ->
  local_interval cfg R P k = ROk local -> id_revreg id = Some rid -> id_ts id = Some t ->
  all_demands_met R cx (Some rid) (demands_legacy R P k) t = true ->
  (demands_legacy R P k = [] -> match rq_nr R with Some g => is_valid (ovr_for cx (Some rid) g) t = true | None => True end) ->
  exists b, interval_check cfg R cx cd local id = ROk b.
Proof. exact demands_met_stage_passes. Qed.

(* credentials from non-revocable definitions ignore intervals *)
Theorem C08_nonrevocable_ignores_intervals : forall cfg R cx cd local id, cd_revkey cd = None ->
  interval_check cfg R cx cd local id = ROk false.
Proof. exact nonrevocable_ignores_intervals. Qed.

(* W3C FORMAT: the interval stage of ONE candidate entry for ONE referent (check_credential_non_revoked_interval), for
   every setting of the flags with the credential-definition gate on. The referent's demand is its own interval if it has
   one, the request-wide one otherwise. Non-revocable definition or no demand: passes, nothing required. Revocable
   definition and a demand: passes (and requires a non-revocation proof) EXACTLY when the entry names a registry and a
   timestamp inside the demanded interval, lower bound overridden; otherwise the candidate is refused. *)
Theorem C08_w3c_stage_nonrevocable : forall cfg, f_gate_on_creddef cfg = true -> forall R cx id local cd,
  assoc (id_creddef id) (cx_creddefs cx) = Some cd -> cd_revkey cd = None -> cred_interval cfg R cx id local = ROk false.
Proof. exact cred_interval_nonrevocable. Qed.
Theorem C08_w3c_stage_no_demand : forall cfg, f_gate_on_creddef cfg = true -> forall R cx id local cd,
  assoc (id_creddef id) (cx_creddefs cx) = Some cd -> demand R local = None -> cred_interval cfg R cx id local = ROk false.
Proof. exact cred_interval_no_demand. Qed.
Theorem C08_w3c_stage_demand : forall cfg, f_gate_on_creddef cfg = true -> forall R cx id local cd k iv,
  assoc (id_creddef id) (cx_creddefs cx) = Some cd -> cd_revkey cd = Some k -> demand R local = Some iv ->
  cred_interval cfg R cx id local =
    match id_revreg id, id_ts id with
    | Some rid, Some t => if is_valid (ovr_for cx (Some rid) iv) t then ROk true else RErr
    | _, _ => RErr
    end.
Proof. exact cred_interval_demand. Qed.
(* the whole conditions stage of a candidate (restriction, then interval): met if the restriction is true of the entry
   and the demand is met (demand_met: the three cases above as one proposition), and only if the demand is met *)
Theorem C08_w3c_conditions_complete : forall cfg, f_gate_on_creddef cfg = true -> forall R cx c id q local,
  restriction_true cfg cx c id q -> demand_met R cx id local -> exists b, cred_conditions cfg R cx c id q local = Some b.
Proof. exact cred_conditions_complete. Qed.
Theorem C08_w3c_conditions_sound : forall cfg, f_gate_on_creddef cfg = true -> forall R cx c id q local b,
  cred_conditions cfg R cx c id q local = Some b -> demand_met R cx id local.
Proof. exact cred_conditions_sound. Qed.

Print Assumptions C08_merge_meet.
Print Assumptions C08_merge_assoc.
Print Assumptions C08_merge_order_independent.
Print Assumptions C08_override_only_from.
Print Assumptions C08_override_from.
Print Assumptions C08_missing_bounds_open.
Print Assumptions C08_D_subset_T.
Print Assumptions C08_outside_rejected.
Print Assumptions C08_demands_met_stage_passes.
Print Assumptions C08_legacy_complete.
Print Assumptions C08_complete_nonvacuous.
Print Assumptions C08_nonrevocable_ignores_intervals.
Print Assumptions C08_w3c_stage_nonrevocable.
Print Assumptions C08_w3c_stage_no_demand.
Print Assumptions C08_w3c_stage_demand.
Print Assumptions C08_w3c_conditions_complete.
Print Assumptions C08_w3c_conditions_sound.
