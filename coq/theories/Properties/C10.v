(* C10 — revocation states track the status list: valid iff not revoked in that list.
   Property theorems only; every proof is `exact <lemma>`. *)
From Coq Require Import List ZArith Bool.
From AV Require Import Model.RevList Model.Witness Proofs.C10Proofs.
Import ListNotations.
Open Scope Z_scope.

(* all valid derivations yield the same witness *)
Theorem C10_valid_unique : forall n i A w1 w2, wvalid n i A w1 -> wvalid n i A w2 -> forall x, w1 x = w2 x.
Proof. exact c10_valid_unique. Qed.
(* the issuer-supplied witness is valid while the accumulator is the one the credential embeds *)
Theorem C10_issuer_valid_unchanged : forall n i a A, (forall x, A x = a x) -> wvalid n i A (issuer_wit n i a).
Proof. exact c10_issuer_valid_unchanged. Qed.
(* incrementally, for EVERY pair of lists of one registry (any history between them, either
   issuance mode, index 0 included) in which the holder's entry is unchanged: a valid older state
   becomes a valid state for the newer list *)
Theorem C10_incremental_valid : forall n bd i old new w,
  lenZ old = n -> lenZ new = n -> nthZ old i = nthZ new i ->
  wvalid n i (list_acc n bd old) w -> wvalid n i (list_acc n bd new) (inc_wit n i old new w).
Proof. exact c10_incremental_valid. Qed.
(* from scratch: valid for every list of a by-default registry whose entry 0 is unset *)
Theorem C10_scratch_valid_partial : forall n i b, 0 <= n -> lenZ b = n -> 1 <= i < n ->
  nthZ b 0 = Some false -> nthZ b i = Some false ->
  wvalid n i (list_acc n true b) (scratch_wit n i b).
Proof. exact c10_scratch_valid. Qed.
(* ... and NOT in general: on-demand registries, and by-default registries after entry 0 was set
   (known findings; the incremental and issuer derivations are valid on the same lists) *)
Theorem C10_scratch_refuted_on_demand :
  wvalid_b 3 1 (list_acc 3 false [true; false; false]) (scratch_wit 3 1 [true; false; false]) = false
  /\ wvalid_b 3 1 (list_acc 3 false [true; false; false]) (issuer_wit 3 1 (list_acc 3 false [true; false; false])) = true.
Proof. exact c10_scratch_refuted_on_demand. Qed.
Theorem C10_scratch_refuted_index0 :
  wvalid_b 3 1 (list_acc 3 true [true; false; false]) (scratch_wit 3 1 [true; false; false]) = false
  /\ wvalid_b 3 1 (list_acc 3 true [false; false; false]) (scratch_wit 3 1 [false; false; false]) = true
  /\ wvalid_b 3 1 (list_acc 3 true [true; false; false])
       (inc_wit 3 1 [false; false; false] [true; false; false] (scratch_wit 3 1 [false; false; false])) = true.
Proof. exact c10_scratch_refuted_index0. Qed.
(* a revoked index has no witness that can be computed from the published tails, and every
   derivation of the library computes from published tails only *)
Theorem C10_revoked_no_witness : forall n bd i b w, lenZ b = n -> 1 <= i < n -> nthZ b i = Some true ->
  wvalid n i (list_acc n bd b) w -> computable n w -> False.
Proof. exact c10_revoked_no_witness. Qed.
Theorem C10_scratch_computable : forall n i b, computable n (scratch_wit n i b).
Proof. exact c10_scratch_computable. Qed.
Theorem C10_incremental_computable : forall n i old new w, computable n w -> computable n (inc_wit n i old new w).
Proof. exact c10_incremental_computable. Qed.

Print Assumptions C10_valid_unique.
Print Assumptions C10_issuer_valid_unchanged.
Print Assumptions C10_incremental_valid.
Print Assumptions C10_scratch_valid_partial.
Print Assumptions C10_scratch_refuted_on_demand.
Print Assumptions C10_scratch_refuted_index0.
Print Assumptions C10_revoked_no_witness.
Print Assumptions C10_scratch_computable.
Print Assumptions C10_incremental_computable.
