(* C18 — the object-handle store is linearizable and type-safe under concurrency.
   Property theorems only; every proof is `exact <lemma>`. *)
From Coq Require Import List Arith Bool.
From AV Require Import Model.Store Generated.Consts Proofs.C18Proofs.
Import ListNotations.

(* for EVERY set of thread programs and EVERY schedule of the atomic steps (fetch-add of the
   counter; locked insert; locked get-and-clone; locked remove) the operations, in the order of
   their linearisation points, are a run of the sequential map with nondeterministic fresh handles,
   and that map is the store *)
Theorem C18_linearizable : forall progs sched,
  exists s, spec_run s0 (lin (run (init progs) sched)) s /\ smap s = store (run (init progs) sched).
Proof. exact linearizable. Qed.
(* what each thread observed is its part of that linearisation, in program order *)
Theorem C18_results_are_projection : forall progs sched tid,
  results (thr (run (init progs) sched) tid) = proj tid (lin (run (init progs) sched)).
Proof. exact results_are_projection. Qed.
(* in every run of the specification handles are non-zero, pairwise distinct, never reused *)
Theorem C18_handles_never_reused : forall l s, spec_run s0 l s ->
  NoDup (created l) /\ (forall h, In h (created l) <-> In h (issued s)) /\ ~ In 0 (created l).
Proof. exact handles_never_reused. Qed.
(* a load returns the object stored under the handle iff present and of the requested type, a type
   error for another type, invalid-handle when absent; after a remove the handle is absent and
   other handles are unaffected *)
Theorem C18_load_type_safe : forall m h ty,
  load_res m h ty = RL (match lookup m h with
                        | None => None
                        | Some o => Some (if Nat.eqb (oty o) ty then Some o else None) end).
Proof. exact load_type_safe. Qed.
Theorem C18_removed_is_absent : forall m h, lookup (del m h) h = None.
Proof. exact lookup_del. Qed.
Theorem C18_remove_is_local : forall m h h', h' <> h -> lookup (del m h) h' = lookup m h'.
Proof. exact lookup_del_other. Qed.
(* the shape of the code the machine's atomic steps stand for, regenerated from the source on every run; a call with a
   LIST of handles resolves it entry by entry with the single-handle load, i.e. is a run of Load operations *)
Theorem C18_store_pins : gen_store_counter_fetch_add_seqcst = true /\ gen_store_create_next_then_locked_insert = true
  /\ gen_store_load_locked_get_cloned = true /\ gen_store_remove_locked_remove = true /\ gen_store_single_lock = true
  /\ gen_store_list_load_entrywise = true.
Proof. exact store_pins. Qed.

Print Assumptions C18_linearizable.
Print Assumptions C18_results_are_projection.
Print Assumptions C18_handles_never_reused.
Print Assumptions C18_load_type_safe.
Print Assumptions C18_store_pins.
