(* C13 — attribute encoding is the canonical, total, deterministic function.
   Property theorems only; every proof is `exact <lemma>`. *)
From Coq Require Import List String Ascii ZArith NArith Bool.
From AV Require Import Model.Str Model.Sha256 Model.Encode Model.CaseC13 Proofs.I32 Proofs.EncodeProofs Proofs.C13Transfer Proofs.EncodeSitesProofs Generated.EncodeSites.
Import ListNotations.
Open Scope string_scope.

(* the model of Rust's str::parse::<i32> accepts exactly the optionally signed ASCII digit
   runs whose value lies in the signed 32-bit range, and returns that value *)
Theorem C13_parse_is_literal : forall s, parse_i32 s = i32_literal s.
Proof. exact parse_i32_spec. Qed.

(* encode is a total function (it is a Gallina function) and equals the specification:
   canonical decimal of the integer for literals, decimal of the big-endian SHA-256 otherwise *)
Theorem C13_encode_spec : forall s,
  encode s = match i32_literal s with
             | Some v => z_to_string v
             | None => dec_of_N (be_nat (sha256 (bytes_of_string s)))
             end.
Proof. exact encode_spec. Qed.

(* the decimal form is canonical: printing then parsing is the identity on the i32 range *)
Theorem C13_canonical : forall v, in_i32 v = true -> parse_i32 (z_to_string v) = Some v.
Proof. exact parse_print_roundtrip. Qed.

Theorem C13_numeric_injective : forall s t v w,
  i32_literal s = Some v -> i32_literal t = Some w -> encode s = encode t -> v = w.
Proof. exact encode_numeric_inj. Qed.

Theorem C13_idempotent_on_numeric : forall s v, parse_i32 s = Some v -> encode (encode s) = encode s.
Proof. exact encode_idempotent_numeric. Qed.

(* verifier-side normalisation is the identity on every encoding the library produces *)
Theorem C13_normalize_encode : forall s, normalize_encoded (encode s) = encode s.
Proof. exact normalize_encode. Qed.

(* transfer: on a case where the extracted predicate ok_C13 evaluates to true on the
   IMPLEMENTATION's outputs, every encoding site returned the specified value *)
Theorem C13_transfer : forall input outs, ok_C13 input outs = true ->
  outs <> [] /\ forall site o, In (site, o) outs -> o = Some (encode_spec_fn input).
Proof. exact c13_transfer. Qed.

(* over the table regenerated from the source on every run *)
Theorem C13_all_sites_same_function :
  forallb site_allowed gen_encode_sites = true
  /\ has_row "src/services/types.rs" "add_raw" "calls_encode" = true
  /\ has_row "src/ffi/credential.rs" "anoncreds_encode_credential_attributes" "calls_encode" = true
  /\ has_row "src/services/w3c/verifier.rs" "check_requested_attribute" "calls_encode" = true
  /\ has_row "src/data_types/credential.rs" "encode" "calls_add_raw" = true
  /\ has_row "src/data_types/w3c/credential_attributes.rs" "encode" "calls_add_raw" = true.
Proof. exact all_sites_same_function. Qed.

Print Assumptions C13_parse_is_literal.
Print Assumptions C13_encode_spec.
Print Assumptions C13_canonical.
Print Assumptions C13_numeric_injective.
Print Assumptions C13_idempotent_on_numeric.
Print Assumptions C13_normalize_encode.
Print Assumptions C13_transfer.
Print Assumptions C13_all_sites_same_function.
