(* C02 — a credential revoked in the referenced status list is never accepted.
   Property theorems only; every proof is `exact <lemma>`. *)
From Coq Require Import List String ZArith NArith Bool.
From AV Require Import Model.VTypes Model.Interval Model.CL Model.VerifierLegacy Model.VerifierW3C Model.VCfg Model.VProps Model.CaseV
  Proofs.C02Proofs Proofs.VTransferB.
Import ListNotations.

(* for EVERY well-formed case and both formats: if the verifier model accepts, then for every
   sub-proof whose credential definition (the verifier's) is revocation-capable and to which an
   interval applies (request-wide, or of any referent it serves — revealed, grouped, UNREVEALED or
   predicate; W3C: of any referent only this credential can serve): the sub-proof carries a
   non-revocation proof built from a witness valid for the accumulator of the status list the
   verifier supplied for the registry and timestamp the presentation names, under that registry's
   key, and the timestamp lies in the tightest combination of the applying intervals (lower bound
   overridden). The ideal CL functionality makes "valid witness" imply "not revoked in that list". *)
Theorem C02_model : forall cfg c,
  f_unrev_intervals cfg = true -> f_gate_on_creddef cfg = true -> f_require_nrp cfg = true -> f_w3c_pred_cv cfg = true ->
  case_wf c = true -> ok_C02 c (run_model cfg c) = true.
Proof. exact c02_model. Qed.

Theorem C02_current : forall c, case_wf c = true -> ok_C02 c (run_model cfg_current c) = true.
Proof. exact (fun c H => c02_model cfg_current c eq_refl eq_refl eq_refl eq_refl H). Qed.

Theorem C02_transfer : forall c impl, case_wf c = true -> rel_V impl (run_model cfg_current c) = true -> ok_C02 c impl = true.
Proof. exact c02_transfer. Qed.

Print Assumptions C02_model.
Print Assumptions C02_current.
Print Assumptions C02_transfer.
