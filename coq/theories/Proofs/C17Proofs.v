(* C17: the C ABI's argument handling. *)
From Coq Require Import List String ZArith Bool Lia.
From AV Require Import Model.VTypes Model.Store Model.Encode Model.Ffi Generated.Ffi.
Import ListNotations.
Local Open Scope string_scope.

(* the regenerated table: every result pointer of every exported function is null-checked, and
   every body runs under catch_error (or is one of the four functions that cannot fail) *)
Lemma ffi_table_checked : all_outs_checked gen_ffi_functions = true.
Proof. vm_compute. reflexivity. Qed.
Lemma ffi_table_wrapped : all_wrapped gen_ffi_functions = true.
Proof. vm_compute. reflexivity. Qed.
Lemma ffi_rules_pinned :
  gen_ffi_entry_timestamp_none_when = "self.timestamp < 0" /\ gen_ffi_opt_load_zero_is_none = true
  /\ gen_ffi_opt_load_miss_is_error = true /\ gen_ffi_status_list_type_error_propagated = true
  /\ gen_ffi_length_checks = 4%Z
  /\ gen_ffi_error_codes = [("Success", 0%Z); ("Input", 1%Z); ("IOError", 2%Z); ("InvalidState", 3%Z); ("Unexpected", 4%Z);
                            ("CredentialRevoked", 5%Z); ("InvalidUserRevocId", 6%Z); ("ProofRejected", 7%Z); ("RevocationRegistryFull", 8%Z)].
Proof. repeat split; reflexivity. Qed.

(* a malformed call - null result pointer, mismatched list lengths, or a bad handle - comes back
   as an error code, whatever the body would have done *)
Theorem c17_malformed_rejected {A} n l h (body : ffi_out A) :
  n = true \/ l = false \/ h = false -> exists code, prologue n l h body = FErr code /\ code <> 0%Z.
Proof.
  intros H. unfold prologue. exists code_input. split; [|unfold code_input; lia].
  destruct n; [reflexivity|]. destruct l; [|reflexivity]. destruct h; [|reflexivity].
  destruct H as [H|[H|H]]; discriminate.
Qed.
Theorem c17_wellformed_passes {A} (body : ffi_out A) : prologue false true true body = body.
Proof. reflexivity. Qed.

(* the C ABI conveys exactly the native optional timestamp (every i32 timestamp, 0 included) *)
Theorem c17_timestamp_faithful o :
  match o with Some t => (0 <= t < 2147483648)%Z | None => True end -> entry_timestamp (c_timestamp o) = o.
Proof.
  destruct o as [t|]; cbn [c_timestamp]; intros H; unfold entry_timestamp.
  - destruct (Z.ltb_spec t 0); [lia|reflexivity].
  - reflexivity.
Qed.
Theorem c17_timestamp_zero : entry_timestamp 0 = Some 0%Z.
Proof. reflexivity. Qed.

(* optional handles: 0 is "not supplied"; anything else must be live *)
Theorem c17_opt_load_spec m (h : nat) :
  opt_load m h = if Nat.eqb h 0%nat then Some None else option_map Some (lookup m h).
Proof. unfold opt_load. destruct (Nat.eqb h 0%nat); [reflexivity|]. destruct (lookup m h); reflexivity. Qed.
Theorem c17_opt_load_stale m (h : nat) : h <> 0%nat -> lookup m h = None -> opt_load m h = None.
Proof. intros Hh Hl. unfold opt_load. destruct (Nat.eqb_spec h 0%nat); [contradiction|]. rewrite Hl. reflexivity. Qed.
(* a handle list is accepted only if every handle is live and of the demanded type *)
Theorem c17_load_list_all m hs ty l : load_list m hs ty = Some l ->
  Forall2 (fun h o => lookup m h = Some o /\ oty o = ty) hs l.
Proof.
  revert l. induction hs as [|h r IH]; intros l H; cbn [load_list fold_right] in H; [injection H as <-; constructor|].
  fold (load_list m r ty) in H. destruct (load_typed m h ty) as [o|] eqn:E; [|discriminate].
  destruct (load_list m r ty) as [l'|]; [|discriminate]. injection H as <-.
  constructor; [|apply IH; reflexivity]. unfold load_typed in E. destruct (lookup m h) as [o'|]; [|discriminate].
  destruct (Nat.eqb_spec (oty o') ty); [|discriminate]. injection E as <-. auto.
Qed.
Theorem c17_load_list_wrong_type m hs ty h o : In h hs -> lookup m h = Some o -> oty o <> ty -> load_list m hs ty = None.
Proof.
  intros Hin Hl Hty. induction hs as [|x r IH]; [destruct Hin|]. cbn [load_list fold_right]. fold (load_list m r ty).
  destruct Hin as [->|Hin].
  - unfold load_typed. rewrite Hl. destruct (Nat.eqb_spec (oty o) ty); [contradiction|reflexivity].
  - rewrite (IH Hin). destruct (load_typed m x ty); reflexivity.
Qed.

(* ---- marshalling rules of list arguments ---- *)
Lemma enc_values_nth names : forall raws encs i n r, List.length names = List.length raws ->
  nth_error names i = Some n -> nth_error raws i = Some r ->
  nth_error (enc_values names raws encs) i = Some (n, (r, match nth_error encs i with Some (Some e) => e | _ => encode r end)).
Proof.
  induction names as [|n0 ns IH]; intros raws encs i n r Hl Hn Hr; [destruct i; discriminate|].
  destruct raws as [|r0 rs]; [discriminate|]. cbn [enc_values]. destruct i as [|i].
  - cbn in Hn, Hr. inversion Hn; inversion Hr; subst. cbn [nth_error]. destruct encs as [|[e|] es]; reflexivity.
  - cbn [nth_error] in *. rewrite (IH rs (tl encs) i n r ltac:(cbn in Hl; lia) Hn Hr). destruct encs as [|e0 es]; [destruct i; reflexivity|reflexivity].
Qed.
Lemma enc_values_length names : forall raws encs, List.length names = List.length raws -> List.length (enc_values names raws encs) = List.length names.
Proof. induction names as [|n ns IH]; intros [|r rs] encs H; try discriminate; [reflexivity|]. cbn [enc_values List.length]. rewrite IH; [reflexivity|cbn in H; lia]. Qed.

Lemma index_cast_id i : (0 <= i < 2147483648)%Z -> index_cast i = i.
Proof. intros H. unfold index_cast. apply Z.mod_small. lia. Qed.
Lemma index_cast_negative i : (-2147483648 <= i < 0)%Z -> (2147483648 <= index_cast i < 4294967296)%Z.
Proof.
  intros H. unfold index_cast.
  assert (E : (i mod 4294967296 = i + 4294967296)%Z) by (symmetry; apply Z.mod_unique with (q := (-1)%Z); lia).
  rewrite E. lia.
Qed.

Lemma ovr_find_last l rid req o : ovr_find (l ++ [(rid, req, o)]) rid req = Some o.
Proof. unfold ovr_find. rewrite rev_app_distr. cbn [rev app find fst snd]. rewrite String.eqb_refl, Z.eqb_refl. reflexivity. Qed.
Lemma ovr_find_other l rid req rid' req' o : (rid', req') <> (rid, req) -> ovr_find (l ++ [(rid', req', o)]) rid req = ovr_find l rid req.
Proof.
  intros H. unfold ovr_find. rewrite rev_app_distr. cbn [rev app find fst snd].
  destruct (String.eqb_spec rid' rid) as [->|_]; [|reflexivity]. destruct (Z.eqb_spec req' req) as [->|_]; [contradiction H; reflexivity|reflexivity].
Qed.
Lemma ovr_find_in l rid req o : ovr_find l rid req = Some o -> In (rid, req, o) l.
Proof.
  unfold ovr_find. intros H. destruct (find _ (rev l)) as [[[a b] c]|] eqn:E; [|discriminate]. cbn in H. inversion H; subst c.
  apply find_some in E as [Hin Hb]. cbn [fst snd] in Hb. apply andb_prop in Hb as [H1 H2]. apply String.eqb_eq in H1. apply Z.eqb_eq in H2. subst.
  apply in_rev. exact Hin.
Qed.

(* scalar arguments *)
Lemma index_try_spec i j : index_try i = Some j <-> (j = i /\ 0 <= i < 4294967296)%Z.
Proof.
  unfold index_try. destruct (0 <=? i)%Z eqn:E1; destruct (i <? 4294967296)%Z eqn:E2; cbn [andb]; split; intros H;
    try discriminate; try (inversion H; subst; split; [reflexivity|lia]); try (destruct H as [-> H]; try reflexivity; exfalso; lia).
Qed.
Lemma index_try_never_wraps i : (i < 0 \/ 4294967296 <= i)%Z -> index_try i = None.
Proof. intros H. destruct (index_try i) as [j|] eqn:E; [|reflexivity]. apply index_try_spec in E. lia. Qed.
Lemma ts_after_kept old arg : (arg <= 0)%Z -> ts_after old arg = old.
Proof. intros H. unfold ts_after, ts_arg. destruct (Z.leb_spec arg 0); [reflexivity|lia]. Qed.
Lemma ts_after_set old arg : (0 < arg)%Z -> ts_after old arg = Some arg.
Proof. intros H. unfold ts_after, ts_arg. destruct (Z.leb_spec arg 0); [lia|reflexivity]. Qed.
(* the three 64-bit size / index parameters are converted with try_into, the two optional timestamps by `<= 0 => None`
   (regenerated from ffi/revocation.rs and ffi/credential.rs) *)
Lemma ffi_scalar_rules_pinned : gen_ffi_u32_try_into_sites = 3%Z /\ gen_ffi_timestamp_none_sites = 2%Z.
Proof. split; reflexivity. Qed.
