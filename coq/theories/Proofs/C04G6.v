From Coq Require Import List String Ascii ZArith NArith Bool Lia.
From AV Require Import Model.Str Model.Encode Model.Query Model.VTypes Model.Interval Model.Eval Model.CL Model.VerifierLegacy Model.VerifierW3C
  Model.VCfg Model.Prover Model.PProps Proofs.VMonad Proofs.C07Proofs Proofs.C04Proofs Proofs.IntervalProofs.
From AV Require Import Proofs.C04F1 Proofs.C04F2 Proofs.C04F3 Proofs.C04F4 Proofs.C04F5 Proofs.C04F6 Proofs.C04F7 Proofs.C04F8 Proofs.C04F10.
From AV Require Import Proofs.C04G1 Proofs.C04G2 Proofs.C04G3 Proofs.C04G4 Proofs.C04G5.
Import ListNotations.
Local Open Scope string_scope.
Local Open Scope list_scope.
Local Open Scope Z_scope.

Lemma u64_b_spec z : u64_b z = true -> u64 z.
Proof. unfold u64_b, u64. intros H. apply andb_prop in H as [A B]. apply Z.leb_le in A, B. lia. Qed.
Lemma wf_optb_spec o : wf_optb o = true -> wf_opt o.
Proof.
  destruct o as [i|]; [|intros _; exact I]. cbn [wf_optb wf_opt]. unfold wf_ivb, wf. intros H. apply andb_prop in H as [A B].
  split; [intros f Hf; rewrite Hf in A|intros t Ht; rewrite Ht in B]; apply u64_b_spec; assumption.
Qed.

(* The end-to-end theorem for the legacy format on the class rev_b: whatever the prover model builds
   for an honest case of the class -- revocable or not, with non-revocation intervals at request,
   attribute and predicate level -- the verifier model accepts. *)
Theorem c04_legacy_rev_b c P : rev_b c = true ->
  create_legacy pcfg_fixed (pc_req c) (pc_cx c) (pc_link c) (pc_sel c) (pc_self c) = ROk P ->
  verify_legacy cfg_fixed (pc_req c) P (pc_cx c) = Accept.
Proof.
  destruct c as [R cx link ps self]. cbn [pc_req pc_cx pc_link pc_sel pc_self]. intros H Hcreate.
  unfold rev_b in H. cbn [pc_req pc_cx pc_link pc_sel pc_self] in H. rewrite !andb_true_iff in H.
  destruct H as [[[[[Hcov Hent] Hat] Hpr] Hovr] Hreg].
  rewrite forallb_forall in Hent, Hat, Hpr.
  destruct (build_regmap cx) as [regmap| |] eqn:Ereg; try discriminate.
  apply (c04_legacy_rev R cx link ps self P Hcreate Hcov) with (regmap := regmap).
  - intros p Hp. specialize (Hent p Hp). unfold rev_entry in Hent. cbn [pc_cx pc_link] in Hent. rewrite !andb_true_iff in Hent. tauto.
  - intros r ai Hin. specialize (Hat _ Hin). cbn in Hat. rewrite !andb_true_iff in Hat. destruct Hat as [[A B] _].
    destruct (ai_restr ai); [discriminate|reflexivity].
  - intros r pi Hin. specialize (Hpr _ Hin). cbn in Hpr. rewrite !andb_true_iff in Hpr. destruct Hpr as [A B].
    destruct (pi_restr pi); [discriminate|reflexivity].
  - intros r ai Hin. specialize (Hat _ Hin). cbn beta iota in Hat. rewrite !andb_true_iff in Hat. destruct Hat as [[A B] _]. exact (wf_optb_spec _ B).
  - intros r pi Hin. specialize (Hpr _ Hin). cbn beta iota in Hpr. rewrite !andb_true_iff in Hpr. destruct Hpr as [A B]. exact (wf_optb_spec _ B).
  - intros p Hp. specialize (Hent p Hp). unfold rev_entry in Hent. rewrite !andb_true_iff in Hent. tauto.
  - destruct (cx_override cx); [discriminate|reflexivity].
  - intros p t Hp Ht. specialize (Hent p Hp). unfold rev_entry in Hent. rewrite !andb_true_iff in Hent. destruct Hent as [[[_ A] _] _].
    rewrite Ht in A. exact (u64_b_spec _ A).
  - intros p r ai n Hp Hb Ha Hn. specialize (Hent p Hp). unfold rev_entry in Hent. cbn [pc_req] in Hent. rewrite !andb_true_iff in Hent. destruct Hent as [[_ A] _].
    rewrite forallb_forall in A. specialize (A _ Hb). cbn [orb] in A. rewrite Ha in A. rewrite forallb_forall in A. apply mem_In. exact (A n Hn).
  - intros r ai ns Hin Hns. specialize (Hat _ Hin). cbn beta iota in Hat. rewrite !andb_true_iff in Hat. destruct Hat as [_ A]. rewrite Hns in A. exact (nodup_str_NoDup _ A).
  - intros p n raw e Hp Hin. specialize (Hent p Hp). unfold rev_entry in Hent. rewrite !andb_true_iff in Hent. destruct Hent as [_ A].
    rewrite forallb_forall in A. specialize (A _ Hin). cbn in A. apply String.eqb_eq. exact A.
  - exact Ereg.
Qed.


(* non-vacuity: credential one is revocable and is shown at timestamp 20 against a request-level interval
   [10, 30] narrowed by the attribute-level interval [15, 25]; credential two is not revocable *)
Definition g_c1 := {| hc_schema := "schema:one"; hc_creddef := "creddef:one"; hc_revreg := Some "reg:one"; hc_issuer := "issuer:one";
                      hc_values := hc_values e_c1; hc_subject := hc_subject e_c1; hc_src := e_src1 |}.
Definition g_cx := {| cx_schemas := cx_schemas e_cx;
                      cx_creddefs := [("creddef:one", {| cd_schema_id := "schema:one"; cd_issuer := "issuer:one"; cd_key := 1; cd_revkey := Some 11%N |});
                                     ("creddef:two", {| cd_schema_id := "schema:two"; cd_issuer := "issuer:two"; cd_key := 2; cd_revkey := None |})];
                      cx_regdefs := Some [("reg:one", 11%N)];
                      cx_lists := Some [(Some "reg:one", Some 20, Some 99%N); (Some "reg:one", Some 40, Some 98%N)];
                      cx_override := None |}.
Definition g_iv a b := Some {| ifrom := Some a; ito := Some b |}.
Definition g_req := {| rq_nonce := 5;
                       rq_attrs := [("a1", {| ai_name := Some "NAME"; ai_names := None; ai_restr := None; ai_nr := g_iv 15 25 |});
                                    ("g1", {| ai_name := None; ai_names := Some ["name"; "zip code"]; ai_restr := None; ai_nr := None |});
                                    ("u1", e_ai "Role"); ("s1", e_ai "nickname")];
                       rq_preds := [("p1", {| pi_name := "AGE"; pi_type := GE; pi_value := 18; pi_restr := None; pi_nr := g_iv 5 22 |})];
                       rq_nr := g_iv 10 30 |}.
Definition g_case := {| pc_req := g_req; pc_cx := g_cx; pc_link := 7;
                        pc_sel := [{| pr_cred := g_c1; pr_ts := Some 20; pr_state := Some {| nrp_regkey := 11; nrp_acc := 99; nrp_valid := true |};
                                      pr_attrs := [("a1", true); ("g1", true)]; pr_preds := ["p1"] |};
                                   {| pr_cred := e_c2; pr_ts := None; pr_state := None; pr_attrs := [("u1", false)]; pr_preds := [] |}];
                        pc_self := [("s1", "Al")] |}.
Example c04_rev_nonvacuous :
  rev_b g_case = true /\ plain_b g_case = false /\
  exists P, create_legacy pcfg_fixed (pc_req g_case) (pc_cx g_case) (pc_link g_case) (pc_sel g_case) (pc_self g_case) = ROk P
            /\ existsb (fun sp => is_some (sp_nrp sp)) (p_proofs P) = true.
Proof. split; [vm_compute; reflexivity|]. split; [vm_compute; reflexivity|]. eexists. split; [vm_compute; reflexivity|]. vm_compute. reflexivity. Qed.
