(* part 5: the subject of every built entry shows exactly what its sub-proof reveals *)
From Coq Require Import List String Ascii ZArith NArith Bool Lia.
From AV Require Import Model.Str Model.Encode Model.Query Model.VTypes Model.Interval Model.Eval Model.CL Model.VerifierLegacy Model.VerifierW3C
  Model.VCfg Model.VProps Model.Prover Model.PProps Proofs.VMonad Proofs.C04F1 Proofs.C04F3 Proofs.C04F4 Proofs.C04F5 Proofs.C04F6 Proofs.C04F8 Proofs.C07Proofs
  Proofs.VW3CC1 Proofs.VW3CC2 Proofs.VW3CC3.
From AV Require Import Proofs.C04W1 Proofs.C04W2 Proofs.C04W3 Proofs.C04W4.
Import ListNotations.
Local Open Scope string_scope.
Local Open Scope list_scope.
Local Open Scope Z_scope.

Lemma get_attr_built (c : hcred) (s : list (string * attr_value)) iss meth pv n n' kv :
  fkeys c s -> NoDup (keys s) -> In kv s -> get_ci (as_w3c c) n = Some kv -> (forall b, snd kv <> VBool b) -> cv n' = cv n ->
  get_attribute {| wc_issuer := iss; wc_subject := s; wc_method := meth; wc_pv := pv |} n' = Some kv.
Proof.
  intros Hf Hnd Hin Hg Hb Hcv. unfold get_attribute.
  assert (Hci : get_ci {| wc_issuer := iss; wc_subject := s; wc_method := meth; wc_pv := pv |} n' = Some kv).
  { unfold get_ci at 1. cbn [wc_subject].
    destruct (find_some_iff (fun kv0 : string * attr_value => String.eqb (cv (fst kv0)) (cv n')) s) as [y Hy].
    { exists kv. split; [exact Hin|]. destruct kv as [k v]. destruct (get_ci_key _ _ _ _ Hg) as [Hk _]. cbn [fst]. rewrite Hk, Hcv. apply String.eqb_refl. }
    rewrite Hy. f_equal. pose proof (find_some _ _ Hy) as [Hys Hyk]. apply String.eqb_eq in Hyk. destruct y as [k' v']. destruct kv as [k v].
    destruct (Hf _ _ Hys) as (v1 & Hfy). cbn [fst] in Hyk.
    rewrite (get_ci_same (as_w3c c) k' n) in Hfy by (rewrite Hyk; exact Hcv). rewrite Hg in Hfy. inversion Hfy; subst k' v1.
    f_equal. exact (NoDup_map_fst_functional _ _ _ _ Hnd Hys Hin). }
  rewrite Hci. destruct kv as [k v]. destruct v as [s0|z|b]; try reflexivity. elim (Hb b). reflexivity.
Qed.

Lemma verify_ok (c : hcred) fed attrs names preds nrpo link k sp n key v :
  proved (hc_src c) fed attrs names preds nrpo link k sp -> (forall m, In m names -> cv m = m) ->
  In (cv n) names -> fed_w3c c = ROk fed -> get_ci (as_w3c c) n = Some (key, v) -> subject_plain (hc_subject c) = true ->
  verify_value key sp (encode (value_to_string v)) = ROk tt.
Proof.
  intros Hpv Hnorm Hn Hfed Hg Hplain.
  destruct (get_ci_key _ _ _ _ Hg) as [Hk Hin]. cbn [as_w3c wc_subject] in Hin.
  destruct (fed_w3c_assoc _ _ _ _ _ Hfed Hg) as [Ha Hb].
  destruct (pv_rev_in _ _ _ _ _ _ _ _ _ Hpv _ Hn) as (e & He & Hine). rewrite Ha in He. inversion He; subst e.
  unfold verify_value.
  destruct (find_some_iff (fun kv : string * string => String.eqb (cv key) (cv (fst kv))) (sp_revealed sp)) as [[m e'] Hy].
  { exists (cv n, enc_of v). split; [exact Hine|]. cbn [fst]. rewrite cv_idem, Hk. apply String.eqb_refl. }
  rewrite Hy. pose proof (find_some _ _ Hy) as [Hys Hyk]. cbn [fst] in Hyk. apply String.eqb_eq in Hyk.
  destruct (pv_rev_out _ _ _ _ _ _ _ _ _ Hpv _ _ Hys) as [Hmn Hme].
  assert (Hm : m = cv n) by (rewrite <- (Hnorm m Hmn), <- Hyk; exact Hk). subst m. rewrite Ha in Hme. inversion Hme; subst e'.
  rewrite encode_enc_of; [rewrite String.eqb_refl; reflexivity| |exact Hb].
  unfold subject_plain in Hplain. rewrite forallb_forall in Hplain. specialize (Hplain _ Hin). cbn in Hplain. destruct v; auto.
Qed.

Section Simple2.
  Context (R : request) (cx : ctx) (link : N) (ps : list present).
  Notation E := (nonempty ps).
  Notation c0 := (mk_case R cx link ps []).
  Context (Hclass : w3c_rev_r c0 = true).
  Context (sps : list subproof) (creds : list w3c_cred) (Hb : built R cx link 0 E sps creds).
  Notation cs := (cs_of E sps creds).

  Lemma subject_ok c id sp : In (c, (id, sp)) cs -> subject_matches c sp = true.
  Proof.
    intros Hw. destruct (cs_of_in R cx link _ _ _ _ _ Hb Hw) as (j & p & sp' & fed & subj & Hp & _ & Hfed & Hsub & Hsubj & Heq).
    inversion Heq; subst c id sp'. clear Heq.
    destruct (entry_facts_w R cx link ps Hclass p Hp) as [sc cd fed' Hsc Hcd Hi Hk Hrv Ha Halt Hl Hfw Hag Hpl Hheld Hrevok].
    rewrite Hfed in Hfw. inversion Hfw; subst fed'. clear Hfw.
    (* the subject: the attribute steps, then the predicate markers *)
    unfold build_subject in Hsubj. apply bind_ok in Hsubj as (s1 & H1 & H2).
    destruct (foldR_attr_inv R (pr_cred p) (pr_attrs p) [] s1 (fun k v (H : In (k, v) []) => match H with end) H1) as (F & _ & O & Nn & D1).
    pose proof (D1 (NoDup_nil _)) as Nd1.
    destruct (foldR_pred_inv R (pr_cred p) (pr_preds p) s1 subj (firsts_fkeys _ _ F) Nd1 H2) as (Fk & Nd & Kp & Op & _).
    destruct (sub_inv_gen R cx link j p fed sp Hsub) as (sc' & cd' & ais & pis & Hsc' & Hcd' & Hais & Hpis & nrpo & Hnrp & Hpv).
    assert (Hnorm : forall m, In m (map cv (flat_map names_of ais)) -> cv m = m).
    { intros m Hm. apply in_map_iff in Hm as (x & <- & _). apply cv_idem. }
    (* a revealed referent's info is among ais *)
    assert (Hrev : forall r ai n, In (r, true) (pr_attrs p) -> assoc r (rq_attrs R) = Some ai -> In n (names_of ai) -> In (cv n) (map cv (flat_map names_of ais))).
    { intros r ai n Hr Has Hn. apply in_map. apply in_flat_map.
      assert (Hq : In r (map fst (List.filter snd (pr_attrs p)))) by (apply in_map_iff; exists (r, true); split; [reflexivity|apply filter_In; auto]).
      destruct (Forall2_in_l _ _ _ _ Hais Hq) as (ai' & Hai' & Ha'). rewrite Has in Ha'. inversion Ha'; subst ai'.
      exists ai. split; [exact Hai'|exact Hn]. }
    unfold subject_matches. cbn [wc_subject]. apply andb_true_iff. split.
    - apply forallb_forall. intros [k v] Hin. destruct v as [s0|z|b]; [| |reflexivity].
      all: destruct (Op _ _ Hin) as [Hin1|Hbool]; [|discriminate].
      all: destruct (O _ Hin1) as [[]|(r & ai & n & Hr & Has & Hn & Hg)].
      + rewrite (verify_ok (pr_cred p) _ _ _ _ _ _ _ _ n k (VStr s0) Hpv Hnorm (Hrev _ _ _ Hr Has Hn) Hfed Hg Hpl). reflexivity.
      + rewrite (verify_ok (pr_cred p) _ _ _ _ _ _ _ _ n k (VNum z) Hpv Hnorm (Hrev _ _ _ Hr Has Hn) Hfed Hg Hpl). reflexivity.
    - apply forallb_forall. intros [m e] Hin.
      destruct (pv_rev_out _ _ _ _ _ _ _ _ _ Hpv _ _ Hin) as [Hmn _].
      apply in_map_iff in Hmn as (n1 & <- & Hn1). apply in_flat_map in Hn1 as (ai1 & Hai1 & Hn1).
      destruct (Forall2_in_r _ _ _ _ Hais Hai1) as (r1 & Hr1 & Has1).
      apply in_map_iff in Hr1 as ([r1' b1] & Hfst & Hf1). cbn [fst] in Hfst. subst r1'. apply filter_In in Hf1 as [Hr1 Hb1]. cbn [snd] in Hb1. subst b1.
      destruct (Nn r1 ai1 n1 Hr1 Has1 Hn1) as (kv & Hg & Hkin).
      assert (Hnb : forall b, snd kv <> VBool b).
      { destruct kv as [k v]. destruct (fed_w3c_assoc _ _ _ _ _ Hfed Hg) as [_ Hnb]. exact Hnb. }
      rewrite (get_attr_built (pr_cred p) subj _ _ _ n1 (cv n1) kv Fk Nd (Kp _ Hkin) Hg Hnb (cv_idem n1)). reflexivity.
  Qed.
End Simple2.
