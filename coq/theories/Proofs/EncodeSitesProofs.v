(* C13, "the same function in every place": over the table regenerated from the source
   (every non-test function that parses an i32, hashes with SHA-256 or calls the encoder),
   no function other than the encoder itself hashes attribute values, and i32 parsing
   happens only in the encoder, the verifier-side normaliser and the two number-detection
   sites whose output is re-encoded by the encoder. The domain is the finite generated
   table; the bound is in the statement. *)
From Coq Require Import List String Bool.
From AV Require Import Generated.EncodeSites.
Import ListNotations.
Open Scope string_scope.

Definition site_allowed (row : string * string * string) : bool :=
  let '(file, fn, kind) := row in
  if kind =? "hashes" then
    ((file =? "src/services/helpers.rs") && (fn =? "encode_credential_attribute"))
    || ((file =? "src/services/tails.rs") && (fn =? "write"))
  else if kind =? "parses_i32" then
    ((file =? "src/services/helpers.rs") && (fn =? "encode_credential_attribute"))
    || ((file =? "src/services/verifier.rs") && (fn =? "normalize_encoded_attr"))
    || ((file =? "src/data_types/w3c/credential_attributes.rs") && (fn =? "from"))
    || ((file =? "src/services/w3c/types.rs") && (fn =? "add"))
  else true.

Definition has_row (file fn kind : string) : bool :=
  existsb (fun r => let '(f, g, k) := r in (f =? file) && (g =? fn) && (k =? kind)) gen_encode_sites.

Lemma all_sites_same_function :
  forallb site_allowed gen_encode_sites = true
  /\ has_row "src/services/types.rs" "add_raw" "calls_encode" = true
  /\ has_row "src/ffi/credential.rs" "anoncreds_encode_credential_attributes" "calls_encode" = true
  /\ has_row "src/services/w3c/verifier.rs" "check_requested_attribute" "calls_encode" = true
  /\ has_row "src/data_types/credential.rs" "encode" "calls_add_raw" = true
  /\ has_row "src/data_types/w3c/credential_attributes.rs" "encode" "calls_add_raw" = true.
Proof. vm_compute. repeat split; reflexivity. Qed.
