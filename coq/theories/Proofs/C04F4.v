From Coq Require Import List String Ascii ZArith NArith Bool Lia.
From AV Require Import Model.Str Model.Encode Model.Query Model.VTypes Model.Interval Model.Eval Model.CL Model.VerifierLegacy Model.VerifierW3C
  Model.VCfg Model.Prover Model.PProps Proofs.VMonad Proofs.C07Proofs Proofs.C04Proofs.
From AV Require Import Proofs.C04F1 Proofs.C04F2 Proofs.C04F3.
Import ListNotations.
Local Open Scope string_scope.
Local Open Scope list_scope.
Local Open Scope Z_scope.

Definition mk_case R cx link ps self := {| pc_req := R; pc_cx := cx; pc_link := link; pc_sel := ps; pc_self := self |}.

(* fed values and find_value agree *)
Lemma fed_assoc_find c n e : assoc (cv n) (fed_legacy c) = Some e -> exists raw, find_value c n = Some (raw, e).
Proof.
  unfold fed_legacy, find_value. induction (hc_values c) as [|[m [raw0 e0]] r IH]; cbn [map assoc find]; [discriminate|].
  cbn [fst]. destruct (String.eqb (cv m) (cv n)) eqn:E; cbn [option_map snd].
  - intros H. injection H as <-. exists raw0. reflexivity.
  - exact IH.
Qed.
Lemma find_fed_assoc c n raw e : find_value c n = Some (raw, e) -> assoc (cv n) (fed_legacy c) = Some e.
Proof.
  unfold fed_legacy, find_value. induction (hc_values c) as [|[m [raw0 e0]] r IH]; cbn [map assoc find]; [discriminate|].
  cbn [fst]. destruct (String.eqb (cv m) (cv n)) eqn:E; cbn [option_map snd].
  - intros H. injection H as <- <-. reflexivity.
  - exact IH.
Qed.
Lemma find_value_in c n raw e : find_value c n = Some (raw, e) -> exists m, In (m, (raw, e)) (hc_values c) /\ cv m = cv n.
Proof.
  unfold find_value. destruct (find _ (hc_values c)) as [[m v]|] eqn:E; [|discriminate]. cbn. intros H. injection H as ->.
  apply find_some in E as [Hin He]. exists m. split; [exact Hin|]. apply String.eqb_eq. exact He.
Qed.

Section Plain.
  Context (R : request) (cx : ctx) (link : N) (ps : list present) (self : list (string * string)) (P : presentation).
  Notation E := (nonempty ps).
  Context (Hcreate : create_legacy pcfg_fixed R cx link ps self = ROk P).
  Context (Hcov : coverage (mk_case R cx link ps self) = true).

  (* ---- unpacking ---- *)
  Lemma create_unpack : validate_sel ps = true /\ exists rp sps ids,
    legacy_loop pcfg_fixed R cx link ps 0 (empty_rp self) = ROk (rp, sps, ids) /\
    P = {| p_proofs := sps; p_agg := {| ag_nonce := rq_nonce R; ag_count := lenZ sps; ag_altered := false; ag_common := true |}; p_rp := rp; p_ids := ids |}.
  Proof.
    pose proof Hcreate as H. unfold create_legacy in H. apply bind_ok in H as (u1 & _ & H). apply bind_ok in H as (u2 & Hv & H).
    apply guard_ok in Hv. apply bind_ok in H as ([[rp sps] ids] & Hl & H). injection H as <-. split; [exact Hv|]. exists rp, sps, ids. auto.
  Qed.

  Lemma E_in p : In p E -> In p ps.
  Proof. unfold nonempty. intros H. apply filter_In in H. tauto. Qed.
  Lemma in_E p : In p ps -> pr_empty p = false -> In p E.
  Proof. intros H He. unfold nonempty. apply filter_In. split; [exact H|]. rewrite He. reflexivity. Qed.
  Lemma at_idx_in k p : at_idx E 0 k p -> In p E.
  Proof. intros [_ H]. exact (nthZ_In _ _ _ H). Qed.
  Lemma in_at_idx p : In p E -> exists k, at_idx E 0 k p.
  Proof. intros H. destruct (In_nthZ _ _ H) as [k Hk]. exists k. split; [|rewrite Z.sub_0_r; exact Hk].
    destruct (Z_lt_le_dec k 0); [rewrite nthZ_neg in Hk by lia; discriminate|lia]. Qed.

  (* referents are unique across the selection *)
  Lemma attr_refs_nodup : NoDup (flat_map (fun p => map fst (pr_attrs p)) E).
  Proof.
    destruct create_unpack as [Hv _]. unfold validate_sel in Hv. apply andb_prop in Hv as [Hv _]. apply andb_prop in Hv as [Hv _].
    apply nodup_str_NoDup in Hv. unfold nonempty. rewrite flat_map_filter_nil; [exact Hv|].
    intros x _ Hx. apply negb_false_iff in Hx. unfold pr_empty in Hx. destruct (pr_attrs x); [reflexivity|discriminate].
  Qed.
  Lemma pred_refs_nodup : NoDup (flat_map pr_preds E).
  Proof.
    destruct create_unpack as [Hv _]. unfold validate_sel in Hv. apply andb_prop in Hv as [Hv _]. apply andb_prop in Hv as [_ Hv].
    apply nodup_str_NoDup in Hv. unfold nonempty. rewrite flat_map_filter_nil; [exact Hv|].
    intros x _ Hx. apply negb_false_iff in Hx. unfold pr_empty in Hx. destruct (pr_attrs x); [|discriminate]. destruct (pr_preds x); [reflexivity|discriminate].
  Qed.
  Lemma attr_ref_unique k p b k' p' b' q : at_idx E 0 k p -> at_idx E 0 k' p' -> In (q, b) (pr_attrs p) -> In (q, b') (pr_attrs p') ->
    k = k' /\ p = p' /\ b = b'.
  Proof.
    intros [_ H1] [_ H2] Hq Hq'. rewrite Z.sub_0_r in H1, H2.
    assert (k = k').
    { apply (NoDup_flat_map_idx _ _ attr_refs_nodup k k' p p' q H1 H2); apply in_map_iff; eexists; split; try eassumption; reflexivity. }
    subst k'. rewrite H1 in H2. injection H2 as <-. split; [reflexivity|]. split; [reflexivity|].
    apply (NoDup_map_fst_functional (pr_attrs p) q b b'); [|exact Hq|exact Hq'].
    exact (NoDup_flat_map_in _ _ p attr_refs_nodup (nthZ_In _ _ _ H1)).
  Qed.
  Lemma pred_ref_unique k p k' p' q : at_idx E 0 k p -> at_idx E 0 k' p' -> In q (pr_preds p) -> In q (pr_preds p') -> k = k' /\ p = p'.
  Proof.
    intros [_ H1] [_ H2] Hq Hq'. rewrite Z.sub_0_r in H1, H2.
    assert (k = k') by exact (NoDup_flat_map_idx _ _ pred_refs_nodup k k' p p' q H1 H2 Hq Hq').
    subst k'. rewrite H1 in H2. injection H2 as <-. auto.
  Qed.
End Plain.
