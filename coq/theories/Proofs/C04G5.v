From Coq Require Import List String Ascii ZArith NArith Bool Lia.
From AV Require Import Model.Str Model.Encode Model.Query Model.VTypes Model.Interval Model.Eval Model.CL Model.VerifierLegacy Model.VerifierW3C
  Model.VCfg Model.Prover Model.PProps Proofs.VMonad Proofs.C07Proofs Proofs.C04Proofs Proofs.IntervalProofs.
From AV Require Import Proofs.C04F1 Proofs.C04F2 Proofs.C04F3 Proofs.C04F4 Proofs.C04F5 Proofs.C04F6 Proofs.C04F7 Proofs.C04F8.
From AV Require Import Proofs.C04G1 Proofs.C04G2 Proofs.C04G3 Proofs.C04G4.
Import ListNotations.
Local Open Scope string_scope.
Local Open Scope list_scope.
Local Open Scope Z_scope.

Section FinalRev.
  Context (R : request) (cx : ctx) (link : N) (ps : list present) (self : list (string * string)) (P : presentation).
  Notation E := (nonempty ps).
  Context (Hcreate : create_legacy pcfg_fixed R cx link ps self = ROk P).
  Context (Hcov : coverage (mk_case R cx link ps self) = true).
  Context (Hcred : forall p, In p E -> cred_honest cx link (pr_cred p) = true).
  Context (Hnorestr_a : forall r ai, In (r, ai) (rq_attrs R) -> ai_restr ai = None).
  Context (Hnorestr_p : forall r pi, In (r, pi) (rq_preds R) -> pi_restr pi = None).
  Context (Hwf_a : forall r ai, In (r, ai) (rq_attrs R) -> wf_opt (ai_nr ai)).
  Context (Hwf_p : forall r pi, In (r, pi) (rq_preds R) -> wf_opt (pi_nr pi)).
  Context (Hrev : forall p, In p E -> rev_ok_legacy (mk_case R cx link ps self) p = true).
  Context (Hovr : cx_override cx = None).
  Context (Hts : forall p t, In p E -> pr_ts p = Some t -> u64 t).
  Context (Hunrev_names : forall p r ai n, In p E -> In (r, false) (pr_attrs p) -> assoc r (rq_attrs R) = Some ai -> In n (names_of ai) ->
                            In (cv n) (keys (fed_legacy (pr_cred p)))).
  Context (Hgroups : forall r ai ns, In (r, ai) (rq_attrs R) -> ai_names ai = Some ns -> NoDup ns).
  Context (Hcanon : forall p n raw e, In p E -> In (n, (raw, e)) (hc_values (pr_cred p)) -> normalize_encoded e = e).
  Context (regmap : option (list (string * Z * N))) (Hregmap : build_regmap cx = ROk regmap).

  Notation sub2 := (sub_of2 cx regmap).

  Lemma loop_ok2 : forall (l : list present) k0, 0 <= k0 -> (forall j p, nthZ l j = Some p -> at_idx E 0 (k0 + j) p) ->
    exists subs, loop_ids cfg_fixed R P cx regmap (map ident_of l) k0 = ROk subs /\
                 Forall2 (fun kp x => exists sp, nthZ (p_proofs P) (fst kp) = Some sp /\ sub2 (snd kp) sp x) (idx_from k0 l) subs.
  Proof.
    induction l as [|p l IH]; intros k0 Hk Hl; cbn [map loop_ids idx_from]; [exists []; split; [reflexivity|constructor]|].
    assert (Hat : at_idx E 0 k0 p) by (rewrite <- (Z.add_0_r k0); apply Hl; reflexivity).
    destruct (step_ok2 R cx link ps self P Hcreate Hcov Hcred Hwf_a Hwf_p Hrev Hovr Hts Hunrev_names regmap Hregmap k0 p Hat) as (sp & x & Hsp & Hsub & Hstep).
    destruct (IH (k0 + 1) ltac:(lia)) as (subs & Hsubs & HF).
    { intros j q Hj. replace (k0 + 1 + j) with (k0 + (j + 1)) by lia. apply Hl.
      assert (0 <= j) by (destruct (Z_lt_le_dec j 0); [rewrite nthZ_neg in Hj by lia; discriminate|lia]).
      rewrite nthZ_shift by lia. exact Hj. }
    exists (x :: subs). split; [|constructor; [exists sp; auto|exact HF]].
    revert Hstep. cbn [ident_of id_creddef].
    destruct (local_interval cfg_fixed R P k0) as [local| |]; cbn [bind]; try discriminate.
    destruct (of_opt (assoc (hc_creddef (pr_cred p)) (cx_creddefs cx))) as [cd| |]; cbn [bind]; try discriminate.
    destruct (interval_check cfg_fixed R cx cd local _) as [needed| |]; cbn [bind]; try discriminate.
    cbn [f_no_index_panic cfg_fixed].
    destruct (of_opt (nthZ (p_proofs P) k0)) as [sp'| |]; cbn [bind]; try discriminate.
    destruct (require_nrp cfg_fixed needed sp') as [u1| |]; cbn [bind]; try discriminate.
    destruct (check_requested_preds cfg_fixed R P k0 sp') as [u2| |]; cbn [bind]; try discriminate.
    destruct (check_unrevealed_names cfg_fixed R P cx k0 _) as [u3| |]; cbn [bind]; try discriminate.
    intros ->. cbn [bind]. rewrite Hsubs. reflexivity.
  Qed.

  Lemma sp_norm2 p k sp n e : at_idx E 0 k p -> nthZ (p_proofs P) k = Some sp -> In (n, e) (sp_revealed sp) -> cv n = n.
  Proof.
    intros Hat Hsp Hin. destruct (sub_at R cx link ps self P Hcreate k p Hat) as (sp' & Hsp' & Hpr). rewrite Hsp in Hsp'. injection Hsp' as <-.
    destruct (sub_inv R cx link k p sp Hpr) as (sc & cd & ais & uis & pis & _ & _ & _ & _ & _ & nrpo & _ & Hpv).
    destruct (pv_rev_out _ _ _ _ _ _ _ _ _ Hpv _ _ Hin) as [Hn _]. apply in_map_iff in Hn as (m & <- & _). apply cv_idem.
  Qed.

  Lemma one_sub k p sp x : at_idx E 0 k p -> nthZ (p_proofs P) k = Some sp -> sub2 p sp x ->
    sub_ok true link k x = true /\ existsb pred_overflows (sp_preds sp) = false /\ src_used_link (sp_src sp) = link /\ fst (fst (fst x)) = sp.
  Proof.
    intros Hat Hsp (sc & cd & Hsc & Hcd & ->). pose proof (at_idx_in _ _ _ Hat) as Hp.
    destruct (sub_at R cx link ps self P Hcreate k p Hat) as (sp' & Hsp' & Hpr). rewrite Hsp in Hsp'. injection Hsp' as <-.
    destruct (sub_inv2 R cx link k p sp Hpr) as (sc' & cd' & ais & uis & pis & Hsc' & Hcd' & Hais & Huis & Hpis & Hpv). cbn zeta in Hpv.
    rewrite Hsc in Hsc'. injection Hsc' as <-. rewrite Hcd in Hcd'. injection Hcd' as <-.
    destruct (entry_facts2 cx link ps Hcred p Hp) as (sc2 & cd2 & Hsc2 & Hcd2 & Hrk & Hkey & Halt & Hlink & Hva & Hattrs).
    rewrite Hsc in Hsc2. injection Hsc2 as <-. rewrite Hcd in Hcd2. injection Hcd2 as <-.
    pose proof (prover_parts R cx link ps self Hcov p ais uis pis Hp Hais Huis Hpis) as PP.
    pose proof (rev_cases R cx link ps self Hrev Hovr regmap Hregmap p Hp) as RC.
    split; [|split; [|split]].
    - rewrite Hkey. apply (c04_sub_proof_verifies _ _ _ _ _ _ link k sp true _ (pv_cl _ _ _ _ _ _ _ _ _ Hpv) Halt Hlink Hva Hattrs).
      destruct (hc_revreg (pr_cred p)) as [rid|] eqn:Erid; [|exact I].
      destruct (cd_revkey cd) as [rkd|]; [|discriminate].
      destruct (entry_interval R p) as [ie|] eqn:Eie.
      + destruct RC as (t & n & rk & acc & Et & En & Ereg & Hv & Hnv & Hnk & Hna). rewrite En, Ereg.
        destruct (pick_iv _ _); [auto|exact I].
      + pose proof (same_interval R cx link ps self Hcov Hwf_a Hwf_p p _ 0 Hp ltac:(unfold u64, u64max; lia) PP) as SP. rewrite Eie in SP.
        destruct (pick_iv _ _); [destruct SP|exact I].
    - rewrite (pv_preds _ _ _ _ _ _ _ _ _ Hpv). exact (pv_no_overflow _ _ _ _ _ _ _ _ _ Hpv).
    - pose proof (pv_cl _ _ _ _ _ _ _ _ _ Hpv) as Hc. unfold cl_prove in Hc.
      apply bind_ok in Hc as (? & _ & Hc). apply bind_ok in Hc as (? & _ & Hc). apply bind_ok in Hc as (? & _ & Hc).
      apply bind_ok in Hc as (? & _ & Hc). apply bind_ok in Hc as (? & _ & Hc). apply bind_ok in Hc as (? & _ & Hc).
      injection Hc as <-. reflexivity.
    - reflexivity.
  Qed.

  Lemma cl_part2 subs : Forall2 (fun kp x => exists sp, nthZ (p_proofs P) (fst kp) = Some sp /\ sub2 (snd kp) sp x) (idx_from 0 E) subs ->
    existsb (fun '(sp, _, _, _) => existsb pred_overflows (sp_preds sp)) subs = false /\
    subs_ok true link 0 subs = true /\
    match subs with (sp, _, _, _) :: _ => src_used_link (sp_src sp) = link | [] => True end.
  Proof.
    intros HF.
    assert (Hgen : forall k0 (l : list present) (ss : list cl_sub), (forall j p, nthZ l j = Some p -> at_idx E 0 (k0 + j) p) -> 0 <= k0 ->
              Forall2 (fun kp x => exists sp, nthZ (p_proofs P) (fst kp) = Some sp /\ sub2 (snd kp) sp x) (idx_from k0 l) ss ->
              subs_ok true link k0 ss = true /\ existsb (fun '(sp, _, _, _) => existsb pred_overflows (sp_preds sp)) ss = false).
    { intros k0 l. revert k0. induction l as [|p l IH]; intros k0 ss Hl Hk HF2; cbn [idx_from] in HF2.
      - inversion HF2; subst. split; reflexivity.
      - inversion HF2 as [|kp x l1 l2 (sp & Hsp & Hsub) HF3]; subst. cbn [fst snd] in Hsp, Hsub.
        assert (Hat : at_idx E 0 k0 p) by (rewrite <- (Z.add_0_r k0); apply Hl; reflexivity).
        destruct (one_sub k0 p sp x Hat Hsp Hsub) as (Hok & Hov & _ & Hx).
        destruct (IH (k0 + 1) l2) as [I1 I2]; [| lia | exact HF3 |].
        { intros j q Hj. replace (k0 + 1 + j) with (k0 + (j + 1)) by lia. apply Hl.
          assert (0 <= j) by (destruct (Z_lt_le_dec j 0); [rewrite nthZ_neg in Hj by lia; discriminate|lia]).
          rewrite nthZ_shift by lia. exact Hj. }
        cbn [subs_ok existsb]. rewrite Hok, I1. destruct x as [[[sp0 ky] at0] rg]. cbn [fst] in Hx. subst sp0. rewrite Hov, I2. split; reflexivity. }
    assert (H0 : forall j p, nthZ E j = Some p -> at_idx E 0 (0 + j) p).
    { intros j p Hj. split; [destruct (Z_lt_le_dec j 0); [rewrite nthZ_neg in Hj by lia; discriminate|lia]|rewrite Z.add_0_l, Z.sub_0_r; exact Hj]. }
    split; [|split].
    - apply (Hgen 0 E subs H0 (Z.le_refl 0) HF).
    - apply (Hgen 0 E subs H0 (Z.le_refl 0) HF).
    - destruct subs as [|[[[sp ky] at0] rg] rest]; [exact I|].
      assert (Hhd : forall (l : list present) x rest0,
                Forall2 (fun kp x => exists sp, nthZ (p_proofs P) (fst kp) = Some sp /\ sub2 (snd kp) sp x) (idx_from 0 l) (x :: rest0) ->
                exists p sp', nthZ l 0 = Some p /\ nthZ (p_proofs P) 0 = Some sp' /\ sub2 p sp' x).
      { intros l x rest0 H. destruct l as [|p0 l0]; cbn [idx_from] in H; inversion H as [|kp x' l1 l2 (sp' & Hsp' & Hsub) HF3]; subst.
        exists p0, sp'. split; [reflexivity|]. split; [exact Hsp'|exact Hsub]. }
      destruct (Hhd E _ _ HF) as (p0 & sp' & Hp0 & Hsp' & Hsub).
      destruct (one_sub 0 p0 sp' _ (H0 0 p0 Hp0) Hsp' Hsub) as (_ & _ & Hl & Hx). cbn [fst] in Hx. subst sp'. exact Hl.
  Qed.

  Theorem c04_legacy_rev : verify_legacy cfg_fixed R P cx = Accept.
  Proof.
    unfold verify_legacy.
    destruct (stage_received R cx link ps self P Hcreate) as [[[ar un] pr] ->]. cbn [bind].
    rewrite (stage_compare R cx link ps self P Hcreate Hcov). cbn [bind].
    rewrite (stage_values R cx link ps self P Hcreate Hgroups Hcanon sp_norm2). cbn [bind].
    rewrite (stage_restrictions2 R cx P Hnorestr_a Hnorestr_p). cbn [bind].
    rewrite Hregmap. cbn [bind].
    pose proof (build_facts R cx link ps self P Hcreate) as BF. destruct BF as [_ _ _ _ _ Bids Bsps _ Bagg].
    destruct (loop_ok2 E 0 (Z.le_refl 0)) as (subs & Hsubs & HF).
    { intros j p Hj. split; [destruct (Z_lt_le_dec j 0); [rewrite nthZ_neg in Hj by lia; discriminate|lia]|rewrite Z.add_0_l, Z.sub_0_r; exact Hj]. }
    rewrite Bids, Hsubs. cbn [bind].
    assert (Hlen : lenZ (p_proofs P) = lenZ subs).
    { rewrite <- (Forall2_length_Z _ _ _ HF), <- (Forall2_length_Z _ _ _ Bsps). reflexivity. }
    rewrite Hlen, Z.eqb_refl. cbn [guard bind].
    destruct (cl_part2 subs HF) as (Hov & Hok & Hl0).
    unfold cl_verify. rewrite Bagg. cbn [ag_count ag_altered ag_nonce ag_common f_common_link cfg_fixed].
    rewrite Hlen, Z.eqb_refl. cbn [negb]. rewrite Hov.
    rewrite N.eqb_refl. cbn [negb andb orb].
    assert (Hs : subs_ok true match subs with (sp, _, _, _) :: _ => src_used_link (sp_src sp) | [] => 0%N end 0 subs = true).
    { destruct subs as [|[[[sp ky] at0] rg] rest] eqn:Es; [reflexivity|]. rewrite Hl0. rewrite <- Es in *. exact Hok. }
    rewrite Hs. reflexivity.
  Qed.
End FinalRev.
