(* C11: issuance is bound to offer, request, schema and link secret on both sides. *)
From Coq Require Import List String Ascii ZArith NArith Bool Lia.
From AV Require Import Model.Str Model.Encode Model.VTypes Model.CL Model.Prover Model.Issuance Proofs.VMonad Proofs.C04Proofs.
Import ListNotations.
Local Open Scope string_scope.
Local Open Scope list_scope.

Ltac bsplit H := repeat (apply andb_prop in H; let H' := fresh "H" in destruct H as [H H']).

(* the issuer signs only for a request bound to this key and to the nonce of this very offer, and
   only for exactly the attribute set of the key *)
Theorem c11_issue_sound k o r values s :
  issue k o r values = ROk s ->
  ir_key r = ik_id k /\ ir_offer_nonce r = io_nonce o /\ ir_altered r = false
  /\ set_eqb (keys (norm_values values)) (ik_attrs k) = true
  /\ is_key s = ik_id k /\ is_values s = norm_values values /\ is_link s = ir_link r
  /\ is_blinding s = ir_blinding r /\ is_nonce s = ir_nonce r /\ is_altered s = false.
Proof.
  unfold issue. intros H. apply bind_ok in H as (u1 & H1 & H). apply bind_ok in H as (u2 & H2 & H).
  apply guard_ok in H1. apply guard_ok in H2. injection H as <-.
  apply andb_prop in H1 as [H1 Ha]. apply andb_prop in H1 as [Hk Hn].
  apply N.eqb_eq in Hk. apply N.eqb_eq in Hn. apply negb_true_iff in Ha. cbn. tauto.
Qed.

(* and it does sign when that is the case *)
Theorem c11_issue_complete k o r values :
  ir_key r = ik_id k -> ir_offer_nonce r = io_nonce o -> ir_altered r = false ->
  set_eqb (keys (norm_values values)) (ik_attrs k) = true -> exists s, issue k o r values = ROk s.
Proof. unfold issue. intros -> -> -> ->. rewrite !N.eqb_refl. cbn. eauto. Qed.

(* a request made for one offer is refused with any offer carrying another nonce (replay) *)
Theorem c11_replay_refused cd o1 o2 link b n r k values :
  make_request cd o1 link b n = ROk r -> io_nonce o1 <> io_nonce o2 -> issue k o2 r values = RErr.
Proof.
  unfold make_request. intros H Hne. apply bind_ok in H as (_ & _ & H). injection H as <-.
  unfold issue. cbn. destruct (N.eqb cd (ik_id k)); [|reflexivity]. cbn.
  destruct (N.eqb_spec (io_nonce o1) (io_nonce o2)) as [E|_]; [contradiction|reflexivity].
Qed.

(* processing succeeds iff key, values, link secret and request metadata are those of issuance
   and nothing was altered *)
Theorem c11_process_iff s fed cd link mb mn :
  process s fed cd link mb mn = ROk tt <->
  (is_altered s = false /\ cd = is_key s /\ link = is_link s /\ mb = is_blinding s /\ mn = is_nonce s
   /\ values_agree (holder_values fed) (is_values s) = true).
Proof.
  unfold process. split.
  - intros H. apply guard_ok in H. bsplit H.
    repeat match goal with Hx : N.eqb _ _ = true |- _ => apply N.eqb_eq in Hx end.
    match goal with Hx : negb _ = true |- _ => apply negb_true_iff in Hx end. tauto.
  - intros (-> & -> & -> & -> & -> & ->). rewrite !N.eqb_refl. reflexivity.
Qed.

(* the honest flow goes through *)
Theorem c11_honest_flow k o link b n values :
  io_key o = ik_id k -> set_eqb (keys (norm_values values)) (ik_attrs k) = true ->
  values_agree (holder_values values) (norm_values values) = true ->
  exists r s, make_request (ik_id k) o link b n = ROk r /\ issue k o r values = ROk s
              /\ process s values (ik_id k) link b n = ROk tt.
Proof.
  intros Hk Hs Hv. unfold make_request. rewrite Hk, N.eqb_refl. cbn. eexists. eexists. split; [reflexivity|].
  unfold issue. cbn. rewrite !N.eqb_refl, Hs. cbn. split; [reflexivity|].
  unfold process. cbn. rewrite !N.eqb_refl, Hv. reflexivity.
Qed.

(* a credential that passes processing yields sub-proofs the ideal CL verifier accepts under the
   issuer's key, whatever is revealed and proven (composition with C04's CL layer) *)
Theorem c11_processed_verifiable s fed cd link mb mn :
  process s fed cd link mb mn = ROk tt ->
  forall attrs revealed preds pos sp common,
    set_eqb attrs (keys (is_values s)) = true ->
    cl_prove (source_of s) (holder_values fed) attrs revealed preds None link pos = ROk sp ->
    sub_ok common link pos (sp, cd, attrs, None) = true.
Proof.
  intros H attrs revealed preds pos sp common Hattrs Hp. apply c11_process_iff in H as (Ha & Hcd & Hl & _ & _ & Hv).
  subst cd. change (is_key s) with (src_key (source_of s)).
  apply (c04_sub_proof_verifies (source_of s) (holder_values fed) attrs revealed preds None link pos sp common None Hp); cbn; auto.
Qed.

(* non-vacuity *)
Example c11_example :
  let k := {| ik_id := 1; ik_attrs := ["name"; "zipcode"] |} in
  let o := {| io_key := 1; io_nonce := 10 |} in
  exists r s, make_request 1 o 7 3 4 = ROk r /\ issue k o r [("Name", "11"); ("Zip Code", "7")] = ROk s
              /\ process s [("Name", "11"); ("Zip Code", "7")] 1 7 3 4 = ROk tt
              /\ process s [("Name", "11"); ("Zip Code", "7"); ("MASTER_secret", "999")] 1 7 3 4 = ROk tt
              /\ process s [("Name", "12"); ("Zip Code", "7")] 1 7 3 4 = RErr
              /\ process s [("Name", "11"); ("Zip Code", "7")] 1 8 3 4 = RErr
              /\ issue k {| io_key := 1; io_nonce := 11 |} r [("Name", "11"); ("Zip Code", "7")] = RErr
              /\ issue k o r [("Name", "11")] = RErr.
Proof. cbv zeta. eexists. eexists. split; [vm_compute; reflexivity|]. split; [vm_compute; reflexivity|]. repeat split; vm_compute; reflexivity. Qed.
