(* The conditions stage of one W3C candidate: decided by the restriction on that credential and by the referent's
   own demand (local interval, else the request-wide one, lower bound overridden) on the timestamp it names. *)
From Coq Require Import List String ZArith NArith Bool Lia.
From AV Require Import Model.Str Model.Encode Model.Query Model.VTypes Model.Interval Model.Eval Model.CL
  Model.VerifierLegacy Model.VerifierW3C Model.VProps Proofs.VMonad.
From AV Require Import Proofs.VW3CC1.
Import ListNotations.
Local Open Scope string_scope.
Local Open Scope list_scope.
Local Open Scope Z_scope.

Section Stage.
  Context (cfg : vcfg).
  Context (Hgate : f_gate_on_creddef cfg = true).

  Definition demand (R : request) (local : option interval) : option interval :=
    match local with Some l => Some l | None => rq_nr R end.

  Lemma ovr_for_unfold cx rid iv :
    match cx_override cx with
    | Some maps => match assoc rid maps with Some m => override m iv | None => iv end
    | None => iv end = ovr_for cx (Some rid) iv.
  Proof. unfold ovr_for. destruct (cx_override cx); reflexivity. Qed.

  (* non-revocable definition, or no demand: passes, nothing required *)
  Theorem cred_interval_nonrevocable R cx id local cd :
    assoc (id_creddef id) (cx_creddefs cx) = Some cd -> cd_revkey cd = None -> cred_interval cfg R cx id local = ROk false.
  Proof. intros Hcd Hk. unfold cred_interval. rewrite Hgate, Hcd. unfold interval_check. rewrite Hk. reflexivity. Qed.
  Theorem cred_interval_no_demand R cx id local cd :
    assoc (id_creddef id) (cx_creddefs cx) = Some cd -> demand R local = None -> cred_interval cfg R cx id local = ROk false.
  Proof.
    intros Hcd Hd. unfold cred_interval. rewrite Hgate, Hcd. unfold interval_check. destruct (cd_revkey cd); [|reflexivity].
    rewrite Hgate. unfold demand in Hd. rewrite Hd. reflexivity.
  Qed.
  (* revocable definition and a demand: passes (and requires a non-revocation proof) exactly when the named
     timestamp is inside the demanded interval; no registry id or no timestamp: refused *)
  Theorem cred_interval_demand R cx id local cd k iv :
    assoc (id_creddef id) (cx_creddefs cx) = Some cd -> cd_revkey cd = Some k -> demand R local = Some iv ->
    cred_interval cfg R cx id local =
      match id_revreg id, id_ts id with
      | Some rid, Some t => if is_valid (ovr_for cx (Some rid) iv) t then ROk true else RErr
      | _, _ => RErr
      end.
  Proof.
    intros Hcd Hk Hd. unfold cred_interval. rewrite Hgate, Hcd. unfold interval_check. rewrite Hk, Hgate.
    unfold demand in Hd. rewrite Hd. destruct (id_revreg id) as [rid|]; [|reflexivity]. cbn [of_opt bind].
    destruct (id_ts id) as [t|]; [|reflexivity]. cbn [of_opt bind]. rewrite ovr_for_unfold.
    destruct (is_valid (ovr_for cx (Some rid) iv) t); reflexivity.
  Qed.

  (* the restriction of a referent on one W3C entry *)
  Definition restriction_true (cx : ctx) (c : w3c_cred) (id : identifier) (q : option query) : Prop :=
    match q with
    | None => True
    | Some q' => exists f, gather_filter cfg cx id = ROk f /\
        eval cfg (rev (flat_map (fun '(k, v) => match v with VBool _ => [] | _ => [(tagkey cfg k, Some (value_to_string v))] end) (wc_subject c))) f q' = true
    end.
  Lemma cred_restrictions_true cx c id q : restriction_true cx c id q -> cred_restrictions cfg cx c id q = ROk tt.
  Proof.
    unfold restriction_true, cred_restrictions. destruct q as [q'|]; [|reflexivity].
    intros (f & Hf & He). rewrite Hf. cbn [bind]. rewrite He. reflexivity.
  Qed.

  (* the demand of a referent on one entry, as a proposition *)
  Definition demand_met (R : request) (cx : ctx) (id : identifier) (local : option interval) : Prop :=
    match assoc (id_creddef id) (cx_creddefs cx) with
    | None => False
    | Some cd =>
        match cd_revkey cd, demand R local with
        | Some _, Some iv => match id_revreg id, id_ts id with
                             | Some rid, Some t => is_valid (ovr_for cx (Some rid) iv) t = true
                             | _, _ => False end
        | _, _ => True
        end
    end.
  Theorem cred_conditions_complete R cx c id q local :
    restriction_true cx c id q -> demand_met R cx id local -> exists b, cred_conditions cfg R cx c id q local = Some b.
  Proof.
    intros Hr Hd. unfold cred_conditions. rewrite (cred_restrictions_true _ _ _ _ Hr). cbn [bind].
    unfold demand_met in Hd. destruct (assoc (id_creddef id) (cx_creddefs cx)) as [cd|] eqn:Ecd; [|contradiction].
    destruct (cd_revkey cd) as [k|] eqn:Ek.
    - destruct (demand R local) as [iv|] eqn:Ed.
      + rewrite (cred_interval_demand R cx id local cd k iv Ecd Ek Ed).
        destruct (id_revreg id) as [rid|]; [|contradiction]. destruct (id_ts id) as [t|]; [|contradiction]. rewrite Hd. eauto.
      + rewrite (cred_interval_no_demand R cx id local cd Ecd Ed). eauto.
    - rewrite (cred_interval_nonrevocable R cx id local cd Ecd Ek). eauto.
  Qed.
  (* ... and only then *)
  Theorem cred_conditions_sound R cx c id q local b :
    cred_conditions cfg R cx c id q local = Some b -> demand_met R cx id local.
  Proof.
    unfold cred_conditions. intros H.
    destruct (cred_restrictions cfg cx c id q) as [[]| |]; cbn [bind] in H; try discriminate.
    unfold demand_met. unfold cred_interval in H. rewrite Hgate in H.
    destruct (assoc (id_creddef id) (cx_creddefs cx)) as [cd|] eqn:Ecd; [|discriminate].
    destruct (cd_revkey cd) as [k|] eqn:Ek; [|exact I].
    destruct (demand R local) as [iv|] eqn:Ed; [|exact I].
    assert (H' := cred_interval_demand R cx id local cd k iv Ecd Ek Ed). unfold cred_interval in H'. rewrite Hgate, Ecd in H'. rewrite H' in H.
    destruct (id_revreg id) as [rid|]; [|discriminate]. destruct (id_ts id) as [t|]; [|discriminate].
    destruct (is_valid (ovr_for cx (Some rid) iv) t); [reflexivity|discriminate].
  Qed.

  (* put together: an entry that shows the attribute with the value its sub-proof reveals, whose restriction is true and
     whose demand is met, makes the attribute check succeed (and likewise for a predicate) *)
  Theorem w3c_attribute_served R cx cs name q nr c id sp k v :
    schemas_present cx cs -> In (c, (id, sp)) cs ->
    get_attribute c name = Some (k, v) -> is_ok (verify_value k sp (encode (value_to_string v))) = true ->
    restriction_true cx c id q -> demand_met R cx id nr ->
    exists l, check_attribute cfg R cx cs name q nr = ROk l.
  Proof.
    intros Hs Hin Hg Hv Hr Hd. destruct (cred_conditions_complete R cx c id q nr Hr Hd) as [b Hb].
    apply check_attribute_complete; [exact Hs|]. exists (c, (id, sp)), b. split; [exact Hin|]. left.
    unfold rev_candidate. rewrite Hg, Hv. exact Hb.
  Qed.
  Theorem w3c_unrevealed_attribute_served R cx cs name q nr c id sp sc :
    schemas_present cx cs -> In (c, (id, sp)) cs ->
    assoc (id_schema id) (cx_schemas cx) = Some sc -> existsb (fun a => String.eqb (cv a) (cv name)) (sc_attrs sc) = true ->
    restriction_true cx c id q -> demand_met R cx id nr ->
    exists l, check_attribute cfg R cx cs name q nr = ROk l.
  Proof.
    intros Hs Hin Hsc Hex Hr Hd. destruct (cred_conditions_complete R cx c id q nr Hr Hd) as [b Hb].
    apply check_attribute_complete; [exact Hs|]. exists (c, (id, sp)), b. split; [exact Hin|]. right.
    unfold unrev_candidate. rewrite Hsc, Hex. exact Hb.
  Qed.
  Theorem w3c_predicate_served R cx cs pi c id sp k :
    In (c, (id, sp)) cs -> get_predicate c (pi_name pi) = Some k ->
    existsb (fun p => pred_eqb p ((if f_w3c_pred_cv cfg then cv k else k), pi_type pi, pi_value pi)) (sp_preds sp) = true ->
    restriction_true cx c id (pi_restr pi) -> demand_met R cx id (pi_nr pi) ->
    exists l, check_predicate cfg R cx pi cs = ROk l.
  Proof.
    intros Hin Hg Hp Hr Hd. destruct (cred_conditions_complete R cx c id (pi_restr pi) (pi_nr pi) Hr Hd) as [b Hb].
    apply check_predicate_complete. exists (c, (id, sp)), b. split; [exact Hin|].
    unfold pred_candidate. rewrite Hg, Hp. exact Hb.
  Qed.
End Stage.
