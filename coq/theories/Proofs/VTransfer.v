(* Transfer lemmas: the soundness properties have the shape "accept => Q(case)", so they hold of
   any outcome that is accepted no more often than the model's. *)
From Coq Require Import List String ZArith NArith Bool.
From AV Require Import Model.VTypes Model.VCfg Model.VProps Model.CaseV Proofs.C05Proofs Proofs.C03Proofs Proofs.C01Proofs Proofs.C12Proofs.
Import ListNotations.

Lemma rel_accept impl model : rel_V impl model = true -> is_accept impl = is_accept model.
Proof. unfold rel_V. intros H. apply andb_prop in H. destruct H as [H _]. apply Bool.eqb_prop in H. exact H. Qed.
Lemma rel_panic impl model : rel_V impl model = true -> impl = Panic -> model = Panic.
Proof.
  unfold rel_V. intros H ->. apply andb_prop in H. destruct H as [_ H]. cbn in H. destruct model; try discriminate. reflexivity.
Qed.

Lemma ok_of_accept (ok : outcome -> bool) o1 o2 :
  (forall o, ok o = negb (is_accept o) || ok Accept) -> is_accept o1 = is_accept o2 -> ok o2 = true -> ok o1 = true.
Proof.
  intros Hs He H. rewrite Hs in H |- *. rewrite He. exact H.
Qed.

Lemma c05_transfer c impl : rel_V impl (run_model cfg_current c) = true -> ok_C05 c impl = true.
Proof.
  intros H. apply (ok_of_accept (ok_C05 c) impl (run_model cfg_current c)).
  - intros o. unfold ok_C05. destruct o; reflexivity.
  - apply rel_accept. exact H.
  - apply c05_model. reflexivity.
Qed.

Lemma c03_transfer c impl : case_wf c = true -> rel_V impl (run_model cfg_current c) = true -> ok_C03 c impl = true.
Proof.
  intros Hwf H. apply (ok_of_accept (ok_C03 c) impl (run_model cfg_current c)).
  - intros o. unfold ok_C03. destruct o; reflexivity.
  - apply rel_accept. exact H.
  - apply c03_model; auto.
Qed.

Lemma c01_transfer c impl : case_wf1 c = true -> rel_V impl (run_model cfg_current c) = true -> ok_C01 c impl = true.
Proof.
  intros Hwf H. apply (ok_of_accept (ok_C01 c) impl (run_model cfg_current c)).
  - intros o. unfold ok_C01. destruct o; reflexivity.
  - apply rel_accept. exact H.
  - apply c01_model; auto.
Qed.

Lemma c12_transfer c impl : rel_V impl (run_model cfg_current c) = true -> ok_C12 impl = true.
Proof.
  intros H. unfold ok_C12. destruct impl; try reflexivity. exfalso.
  pose proof (rel_panic _ _ H eq_refl) as Hp.
  destruct c as [R P cx|R P cx]; cbn [run_model] in Hp.
  - revert Hp. apply legacy_no_panic. repeat split; reflexivity.
  - revert Hp. apply w3c_no_panic. repeat split; reflexivity.
Qed.
