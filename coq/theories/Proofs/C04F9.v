From Coq Require Import List String Ascii ZArith NArith Bool Lia.
From AV Require Import Model.Str Model.Encode Model.Query Model.VTypes Model.Interval Model.Eval Model.CL Model.VerifierLegacy Model.VerifierW3C
  Model.VCfg Model.Prover Model.PProps Proofs.VMonad Proofs.C07Proofs Proofs.C04Proofs.
From AV Require Import Proofs.C04F1 Proofs.C04F2 Proofs.C04F3 Proofs.C04F4 Proofs.C04F5 Proofs.C04F6 Proofs.C04F7 Proofs.C04F8.
Import ListNotations.
Local Open Scope string_scope.
Local Open Scope list_scope.
Local Open Scope Z_scope.

Section Final.
  Context (R : request) (cx : ctx) (link : N) (ps : list present) (self : list (string * string)) (P : presentation).
  Notation E := (nonempty ps).
  Context (Hcreate : create_legacy pcfg_fixed R cx link ps self = ROk P).
  Context (Hcov : coverage (mk_case R cx link ps self) = true).
  Context (Hcred : forall p, In p E -> cred_honest cx link (pr_cred p) = true).
  Context (Hplain_a : forall r ai, In (r, ai) (rq_attrs R) -> ai_restr ai = None /\ ai_nr ai = None).
  Context (Hplain_p : forall r pi, In (r, pi) (rq_preds R) -> pi_restr pi = None /\ pi_nr pi = None).
  Context (Hnr : rq_nr R = None).
  Context (Hnorev : forall p, In p E -> hc_revreg (pr_cred p) = None).
  Context (Hunrev_names : forall p r ai n, In p E -> In (r, false) (pr_attrs p) -> assoc r (rq_attrs R) = Some ai -> In n (names_of ai) ->
                            In (cv n) (keys (fed_legacy (pr_cred p)))).
  Context (Hgroups : forall r ai ns, In (r, ai) (rq_attrs R) -> ai_names ai = Some ns -> NoDup ns).
  Context (Hcanon : forall p n raw e, In p E -> In (n, (raw, e)) (hc_values (pr_cred p)) -> normalize_encoded e = e).
  Context (Hregmap : exists m, build_regmap cx = ROk m).

  (* names inside sub-proofs are normalised *)
  Lemma sp_norm p k sp n e : at_idx E 0 k p -> nthZ (p_proofs P) k = Some sp -> In (n, e) (sp_revealed sp) -> cv n = n.
  Proof.
    intros Hat Hsp Hin. destruct (sub_at R cx link ps self P Hcreate k p Hat) as (sp' & Hsp' & Hpr). rewrite Hsp in Hsp'. injection Hsp' as <-.
    destruct (sub_inv R cx link k p sp Hpr) as (sc & cd & ais & uis & pis & _ & _ & _ & _ & _ & nrpo & _ & Hpv).
    destruct (pv_rev_out _ _ _ _ _ _ _ _ _ Hpv _ _ Hin) as [Hn _]. apply in_map_iff in Hn as (m & <- & _). apply cv_idem.
  Qed.

  (* the CL layer accepts the registered sub-proofs *)
  Lemma cl_part subs : Forall2 (fun kp x => exists sp, nthZ (p_proofs P) (fst kp) = Some sp /\ sub_of cx (snd kp) sp x) (idx_from 0 E) subs ->
    existsb (fun '(sp, _, _, _) => existsb pred_overflows (sp_preds sp)) subs = false /\
    (forall k0 (l : list present) (ss : list cl_sub), (forall j p, nthZ l j = Some p -> at_idx E 0 (k0 + j) p) -> 0 <= k0 ->
       Forall2 (fun kp x => exists sp, nthZ (p_proofs P) (fst kp) = Some sp /\ sub_of cx (snd kp) sp x) (idx_from k0 l) ss ->
       subs_ok true link k0 ss = true) /\
    match subs with (sp, _, _, _) :: _ => src_used_link (sp_src sp) = link | [] => True end.
  Proof.
    intros HF.
    assert (Hone : forall k p sp x, at_idx E 0 k p -> nthZ (p_proofs P) k = Some sp -> sub_of cx p sp x ->
              sub_ok true link k x = true /\ existsb pred_overflows (sp_preds sp) = false /\ src_used_link (sp_src sp) = link /\ fst (fst (fst x)) = sp).
    { intros k p sp x Hat Hsp (sc & cd & Hsc & Hcd & ->). pose proof (at_idx_in _ _ _ Hat) as Hp.
      destruct (sub_at R cx link ps self P Hcreate k p Hat) as (sp' & Hsp' & Hpr). rewrite Hsp in Hsp'. injection Hsp' as <-.
      destruct (sub_inv R cx link k p sp Hpr) as (sc' & cd' & ais & uis & pis & Hsc' & Hcd' & _ & _ & _ & nrpo & Hnone & Hpv).
      rewrite Hsc in Hsc'. injection Hsc' as <-. rewrite Hcd in Hcd'. injection Hcd' as <-.
      destruct (entry_facts cx link ps Hcred Hnorev p Hp) as (sc2 & cd2 & Hsc2 & Hcd2 & _ & Hkey & Halt & Hlink & Hva & Hattrs).
      rewrite Hsc in Hsc2. injection Hsc2 as <-. rewrite Hcd in Hcd2. injection Hcd2 as <-.
      rewrite (Hnone (Hnorev p Hp)) in Hpv.
      split; [|split; [|split]].
      - rewrite Hkey. apply (c04_sub_proof_verifies _ _ _ _ _ None link k sp true None (pv_cl _ _ _ _ _ _ _ _ _ Hpv) Halt Hlink Hva Hattrs). exact I.
      - rewrite (pv_preds _ _ _ _ _ _ _ _ _ Hpv). exact (pv_no_overflow _ _ _ _ _ _ _ _ _ Hpv).
      - pose proof (pv_cl _ _ _ _ _ _ _ _ _ Hpv) as Hc. unfold cl_prove in Hc.
        apply bind_ok in Hc as (? & _ & Hc). apply bind_ok in Hc as (? & _ & Hc). apply bind_ok in Hc as (? & _ & Hc).
        apply bind_ok in Hc as (? & _ & Hc). apply bind_ok in Hc as (? & _ & Hc). apply bind_ok in Hc as (? & _ & Hc).
        injection Hc as <-. reflexivity.
      - reflexivity. }
    assert (Hgen : forall k0 (l : list present) (ss : list cl_sub), (forall j p, nthZ l j = Some p -> at_idx E 0 (k0 + j) p) -> 0 <= k0 ->
              Forall2 (fun kp x => exists sp, nthZ (p_proofs P) (fst kp) = Some sp /\ sub_of cx (snd kp) sp x) (idx_from k0 l) ss ->
              subs_ok true link k0 ss = true /\ existsb (fun '(sp, _, _, _) => existsb pred_overflows (sp_preds sp)) ss = false).
    { intros k0 l. revert k0. induction l as [|p l IH]; intros k0 ss Hl Hk HF2; cbn [idx_from] in HF2.
      - inversion HF2; subst. split; reflexivity.
      - inversion HF2 as [|kp x l1 l2 (sp & Hsp & Hsub) HF3]; subst. cbn [fst snd] in *.
        assert (Hat : at_idx E 0 k0 p) by (rewrite <- (Z.add_0_r k0); apply Hl; reflexivity).
        destruct (Hone k0 p sp x Hat Hsp Hsub) as (Hok & Hov & _ & Hx).
        destruct (IH (k0 + 1) l2) as [I1 I2]; [| lia | exact HF3 |].
        { intros j q Hj. replace (k0 + 1 + j) with (k0 + (j + 1)) by lia. apply Hl.
          assert (0 <= j) by (destruct (Z_lt_le_dec j 0); [rewrite nthZ_neg in Hj by lia; discriminate|lia]).
          rewrite nthZ_shift by lia. exact Hj. }
        cbn [subs_ok existsb]. rewrite Hok, I1. destruct x as [[[sp0 ky] at0] rg]. cbn [fst] in Hx. subst sp0. rewrite Hov, I2. split; reflexivity. }
    split; [|split].
    - apply (Hgen 0 E subs); [intros j p Hj; split; [destruct (Z_lt_le_dec j 0); [rewrite nthZ_neg in Hj by lia; discriminate|lia]|rewrite Z.add_0_l, Z.sub_0_r; exact Hj]|lia|exact HF].
    - intros k0 l ss Hl Hk HF2. exact (proj1 (Hgen k0 l ss Hl Hk HF2)).
    - destruct subs as [|[[[sp ky] at0] rg] rest]; [exact I|]. destruct E as [|p0 E0] eqn:EE; cbn [idx_from] in HF; inversion HF as [|kp x l1 l2 (sp' & Hsp' & Hsub) HF3]; subst.
      cbn [fst snd] in *.
      assert (Hat : at_idx (p0 :: E0) 0 0 p0) by (split; [lia|reflexivity]).
      destruct (Hone 0 p0 sp' _ Hat Hsp' Hsub) as (_ & _ & Hl & Hx). cbn [fst] in Hx. subst sp'. exact Hl.
  Qed.

  Theorem c04_legacy_plain : verify_legacy cfg_fixed R P cx = Accept.
  Proof.
    unfold verify_legacy.
    destruct (stage_received R cx link ps self P Hcreate) as [[[ar un] pr] ->]. cbn [bind].
    rewrite (stage_compare R cx link ps self P Hcreate Hcov). cbn [bind].
    rewrite (stage_values R cx link ps self P Hcreate Hgroups Hcanon sp_norm). cbn [bind].
    rewrite (stage_restrictions R cx P Hplain_a Hplain_p). cbn [bind].
    destruct Hregmap as [regmap ->]. cbn [bind].
    pose proof (build_facts R cx link ps self P Hcreate) as BF. destruct BF as [_ _ _ _ _ Bids Bsps _ Bagg].
    destruct (loop_ok R cx link ps self P Hcreate Hcov Hcred Hplain_a Hplain_p Hnorev Hunrev_names regmap E 0 (Z.le_refl 0)) as (subs & Hsubs & HF).
    { intros j p Hj. split; [destruct (Z_lt_le_dec j 0); [rewrite nthZ_neg in Hj by lia; discriminate|lia]|rewrite Z.add_0_l, Z.sub_0_r; exact Hj]. }
    rewrite Bids, Hsubs. cbn [bind].
    assert (Hlen : lenZ (p_proofs P) = lenZ subs).
    { rewrite <- (Forall2_length_Z _ _ _ HF), <- (Forall2_length_Z _ _ _ Bsps). reflexivity. }
    rewrite Hlen, Z.eqb_refl. cbn [guard bind].
    destruct (cl_part subs HF) as (Hov & Hok & Hl0).
    unfold cl_verify. rewrite Bagg. cbn [ag_count ag_altered ag_nonce ag_common f_common_link cfg_fixed].
    rewrite Hlen, Z.eqb_refl. cbn [negb]. rewrite Hov.
    rewrite N.eqb_refl. cbn [negb andb orb].
    assert (Hs : subs_ok true match subs with (sp, _, _, _) :: _ => src_used_link (sp_src sp) | [] => 0%N end 0 subs = true).
    { destruct subs as [|[[[sp ky] at0] rg] rest] eqn:Es; [reflexivity|]. rewrite Hl0. rewrite <- Es in *.
      apply (Hok 0 E subs); [intros j p Hj; split; [destruct (Z_lt_le_dec j 0); [rewrite nthZ_neg in Hj by lia; discriminate|lia]|rewrite Z.add_0_l, Z.sub_0_r; exact Hj]|lia|exact HF]. }
    rewrite Hs. reflexivity.
  Qed.
End Final.

