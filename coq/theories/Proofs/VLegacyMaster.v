(* The workhorse for C01 C02 C03 C05: for an accepting legacy run, what holds of the k-th
   identifier / sub-proof pair and of the aggregated proof. *)
From Coq Require Import List String ZArith NArith Bool Lia.
From AV Require Import Model.Str Model.Encode Model.Query Model.VTypes Model.Interval Model.Eval Model.CL
  Model.VerifierLegacy Model.VCfg Model.VProps Proofs.VMonad Proofs.VLegacyProofs Proofs.VLegacyStruct Proofs.VCLFacts.
Import ListNotations.
Open Scope string_scope.
Open Scope list_scope.
Open Scope Z_scope.

Definition link0_of (proofs : list subproof) : N :=
  match proofs with sp :: _ => src_used_link (sp_src sp) | [] => 0%N end.

Section M.
  Context (cfg : vcfg).

  Inductive pair_facts (R : request) (P : presentation) (cx : ctx) (k : Z) (id : identifier) (sp : subproof) : Prop :=
  | PairFacts (sc : schema) (cd : creddef) (reg : option (N * N)) (regmap : option (list (string * Z * N))) (x : cl_sub)
      (pf_schema : assoc (id_schema id) (cx_schemas cx) = Some sc)
      (pf_creddef : assoc (id_creddef id) (cx_creddefs cx) = Some cd)
      (pf_regmap : build_regmap cx = ROk regmap)
      (pf_loop : loop_fact cfg R P cx regmap k id x)
      (pf_x : x = (sp, cd_key cd, map cv (sc_attrs sc), reg))
      (pf_cl : sub_facts (f_common_link cfg) (link0_of (p_proofs P)) k sp (cd_key cd) (map cv (sc_attrs sc)) reg).

  Theorem accepted_pairs R P cx : verify_legacy cfg R P cx = Accept ->
    lenZ (p_ids P) = lenZ (p_proofs P) /\
    lenZ (p_proofs P) = ag_count (p_agg P) /\ ag_altered (p_agg P) = false /\ ag_nonce (p_agg P) = rq_nonce R /\
    (f_common_link cfg = true -> ag_common (p_agg P) = true) /\
    forall k id sp, nthZ (p_ids P) k = Some id -> nthZ (p_proofs P) k = Some sp -> pair_facts R P cx k id sp.
  Proof.
    intros H. apply (verify_legacy_accept cfg) in H.
    destruct H as [aids uids pids regmap subs _ _ _ _ Hreg Hloop Hlen Hcl].
    destruct (accepted_subs cfg R P cx regmap subs Hloop Hlen) as (Hmap & Hlen2 & Hk).
    apply cl_verify_accept in Hcl. destruct Hcl as (Hc & Halt & Hnonce & Hsubs & Hcommon).
    split; [lia|]. split; [lia|]. split; [exact Halt|]. split; [exact Hnonce|]. split; [exact Hcommon|].
    intros k id sp Hid Hsp.
    assert (Hx : exists x, nthZ subs k = Some x).
    { apply nthZ_some_iff. assert (0 <= k < lenZ (p_proofs P)) by (apply nthZ_some_iff; eauto). lia. }
    destruct Hx as [x Hx]. pose proof (Hk _ _ _ Hid Hx) as Hf.
    assert (Hspx : sub_sp x = sp).
    { rewrite <- Hmap in Hsp. rewrite nthZ_map, Hx in Hsp. cbn in Hsp. inversion Hsp. reflexivity. }
    destruct Hf as [sp' cd local needed Hnth Hcd Hloc Hiv Hnrp Hpr Hun Hadd].
    pose proof (add_sub_proof_shape cfg _ _ _ _ _ Hadd) as (sc & cd' & Hsc & Hcd' & Hsp' & Hkey & Hattrs & _).
    rewrite Hcd in Hcd'. inversion Hcd'; subst cd'.
    assert (sp' = sp) by congruence. subst sp'.
    destruct x as [[[xs xk] xa] xr]. unfold sub_sp, sub_key, sub_attrs in *. cbn [fst snd] in *. subst xs xk xa.
    assert (Hl0 : (match subs with (sp0, _, _, _) :: _ => src_used_link (sp_src sp0) | [] => 0%N end) = link0_of (p_proofs P)).
    { rewrite <- Hmap. destruct subs as [|[[[s0 k0] a0] r0] rest]; reflexivity. }
    rewrite Hl0 in Hsubs.
    pose proof (subs_ok_spec _ _ _ _ Hsubs _ _ Hx) as Hok. replace (0 + k) with k in Hok by lia.
    apply sub_ok_facts in Hok.
    eapply (PairFacts R P cx k id sp sc cd xr regmap (sp, cd_key cd, map cv (sc_attrs sc), xr)); auto.
  Qed.
End M.
