From Coq Require Import List String Ascii ZArith NArith Bool Lia.
From AV Require Import Model.Str Model.Encode Model.Query Model.VTypes Model.Interval Model.Eval Model.CL Model.VerifierLegacy Model.VerifierW3C
  Model.VCfg Model.Prover Model.PProps Proofs.VMonad Proofs.C07Proofs Proofs.C04Proofs Proofs.IntervalProofs.
From AV Require Import Proofs.C04F1 Proofs.C04F2 Proofs.C04F3 Proofs.C04F4 Proofs.C04F5 Proofs.C04F6 Proofs.C04F7 Proofs.C04F8.
From AV Require Import Proofs.C04G1 Proofs.C04G2 Proofs.C04G3.
Import ListNotations.
Local Open Scope string_scope.
Local Open Scope list_scope.
Local Open Scope Z_scope.

Lemma folds_as_one (ais uis : list attr_info) (pis : list pred_info) :
  merge_opt (merge_opt (fold_left (fun acc ai => merge_opt acc (ai_nr ai)) ais None) (fold_left (fun acc ai => merge_opt acc (ai_nr ai)) uis None))
            (fold_left (fun acc pi => merge_opt acc (pi_nr pi)) pis None)
  = fold_left merge_opt (map ai_nr ais ++ map ai_nr uis ++ map pi_nr pis) None.
Proof. rewrite (fold_merge_opt_map ai_nr ais), (fold_merge_opt_map ai_nr uis), (fold_merge_opt_map pi_nr pis), !fold_merge_opt_app, merge_opt_assoc. reflexivity. Qed.
Lemma folds_as_one2 (ais : list attr_info) (pis : list pred_info) :
  merge_opt (fold_left (fun acc ai => merge_opt acc (ai_nr ai)) ais None) (fold_left (fun acc pi => merge_opt acc (pi_nr pi)) pis None)
  = fold_left merge_opt (map ai_nr ais ++ map pi_nr pis) None.
Proof. rewrite (fold_merge_opt_map ai_nr ais), (fold_merge_opt_map pi_nr pis), fold_merge_opt_app. reflexivity. Qed.

(* prover_sub_proof, inverted once more with the non-revocation part spelled out *)
Lemma sub_inv2 R cx link k p sp : prover_sub_proof pcfg_fixed R cx link k p (fed_legacy (pr_cred p)) = ROk sp ->
  exists sc cd ais uis pis,
    assoc (hc_schema (pr_cred p)) (cx_schemas cx) = Some sc /\ assoc (hc_creddef (pr_cred p)) (cx_creddefs cx) = Some cd /\
    Forall2 (fun r ai => assoc r (rq_attrs R) = Some ai) (map fst (List.filter snd (pr_attrs p))) ais /\
    Forall2 (fun r ai => assoc r (rq_attrs R) = Some ai) (map fst (List.filter (fun x => negb (snd x)) (pr_attrs p))) uis /\
    Forall2 (fun r pi => assoc r (rq_preds R) = Some pi) (pr_preds p) pis /\
    let nrpo := match (match hc_revreg (pr_cred p) with
                       | Some _ => pick_iv (fold_left merge_opt (map ai_nr ais ++ map ai_nr uis ++ map pi_nr pis) None) (rq_nr R)
                       | None => None end) with Some _ => pr_state p | None => None end in
    proved (hc_src (pr_cred p)) (fed_legacy (pr_cred p)) (map cv (sc_attrs sc)) (map cv (flat_map names_of ais))
           (map (fun pi => (cv (pi_name pi), pi_type pi, pi_value pi)) pis) nrpo link k sp.
Proof.
  unfold prover_sub_proof. intros H.
  apply bind_ok in H as (sc & Hsc & H). apply of_opt_ok in Hsc. apply bind_ok in H as (cd & Hcd & H). apply of_opt_ok in Hcd.
  apply bind_ok in H as (ais & Hais & H). apply bind_ok in H as (uis & Huis & H). apply bind_ok in H as (pis & Hpis & H).
  exists sc, cd, ais, uis, pis. split; [exact Hsc|]. split; [exact Hcd|].
  assert (G : forall (A : Type) (m : list (string * A)) l l', mapR (fun r => of_opt (assoc r m)) l = ROk l' -> Forall2 (fun r a => assoc r m = Some a) l l').
  { intros A m l l' Hm. apply mapR_ok in Hm. induction Hm as [|x y l1 l2 Hxy HF IHF]; constructor; [apply of_opt_ok; exact Hxy|exact IHF]. }
  split; [exact (G _ _ _ _ Hais)|]. split; [cbn [pf_unrev_intervals pcfg_fixed] in Huis; exact (G _ _ _ _ Huis)|]. split; [exact (G _ _ _ _ Hpis)|].
  cbn zeta. apply cl_prove_inv. rewrite folds_as_one in H. unfold pick_iv. exact H.
Qed.

Section Rev3.
  Context (R : request) (cx : ctx) (link : N) (ps : list present) (self : list (string * string)) (P : presentation).
  Notation E := (nonempty ps).
  Context (Hcreate : create_legacy pcfg_fixed R cx link ps self = ROk P).
  Context (Hcov : coverage (mk_case R cx link ps self) = true).
  Context (Hcred : forall p, In p E -> cred_honest cx link (pr_cred p) = true).
  Context (Hnorestr_a : forall r ai, In (r, ai) (rq_attrs R) -> ai_restr ai = None).
  Context (Hnorestr_p : forall r pi, In (r, pi) (rq_preds R) -> pi_restr pi = None).
  Context (Hwf_a : forall r ai, In (r, ai) (rq_attrs R) -> wf_opt (ai_nr ai)).
  Context (Hwf_p : forall r pi, In (r, pi) (rq_preds R) -> wf_opt (pi_nr pi)).
  Context (Hrev : forall p, In p E -> rev_ok_legacy (mk_case R cx link ps self) p = true).
  Context (Hovr : cx_override cx = None).
  Context (Hts : forall p t, In p E -> pr_ts p = Some t -> u64 t).
  Context (Hunrev_names : forall p r ai n, In p E -> In (r, false) (pr_attrs p) -> assoc r (rq_attrs R) = Some ai -> In n (names_of ai) ->
                            In (cv n) (keys (fed_legacy (pr_cred p)))).
  Context (regmap : option (list (string * Z * N))) (Hregmap : build_regmap cx = ROk regmap).

  Let BF := build_facts R cx link ps self P Hcreate.

  Lemma stage_restrictions2 a b : check_restrictions cfg_fixed R P cx a b = ROk tt.
  Proof.
    unfold check_restrictions.
    assert (T1 : flat_map (fun '(_, ai) => flat_map names (opt_list (ai_restr ai))) (rq_attrs R) = []).
    { apply flat_map_nil_all. intros [r ai] Hin. rewrite (Hnorestr_a r ai Hin). reflexivity. }
    assert (T2 : flat_map (fun '(_, pi) => flat_map names (opt_list (pi_restr pi))) (rq_preds R) = []).
    { apply flat_map_nil_all. intros [r pi] Hin. rewrite (Hnorestr_p r pi Hin). reflexivity. }
    rewrite T1, T2. cbn [app mem existsb andb negb guard bind].
    rewrite iter_total; [cbn [bind]|].
    - apply iter_total. intros [r pi] Hin. rewrite (Hnorestr_p r pi Hin). reflexivity.
    - intros [r ai] Hin. apply filter_In in Hin as [Hin _]. rewrite (Hnorestr_a r ai Hin). reflexivity.
  Qed.

  (* the registry value the verifier looks up for an entry *)
  Definition reg_of (p : present) : option (N * N) :=
    match hc_revreg (pr_cred p), pr_ts p with
    | Some rid, Some t =>
        match cx_regdefs cx, regmap with
        | Some defs, Some m => match assoc rid defs, find_list m rid t with Some rk, Some acc => Some (rk, acc) | _, _ => None end
        | _, _ => None end
    | _, _ => None end.
  Definition sub_of2 (p : present) (sp : subproof) (x : cl_sub) : Prop :=
    exists sc cd, assoc (hc_schema (pr_cred p)) (cx_schemas cx) = Some sc /\ assoc (hc_creddef (pr_cred p)) (cx_creddefs cx) = Some cd /\
                  x = (sp, cd_key cd, map cv (sc_attrs sc), match cd_revkey cd with Some _ => reg_of p | None => None end).

  Lemma entry_facts2 p : In p E -> exists sc cd,
    assoc (hc_schema (pr_cred p)) (cx_schemas cx) = Some sc /\ assoc (hc_creddef (pr_cred p)) (cx_creddefs cx) = Some cd /\
    Bool.eqb (is_some (cd_revkey cd)) (is_some (hc_revreg (pr_cred p))) = true /\ cd_key cd = src_key (hc_src (pr_cred p)) /\
    src_altered (hc_src (pr_cred p)) = false /\ src_cred_link (hc_src (pr_cred p)) = link /\
    values_agree (fed_legacy (pr_cred p)) (src_values (hc_src (pr_cred p))) = true /\
    set_eqb (map cv (sc_attrs sc)) (src_attrs (hc_src (pr_cred p))) = true.
  Proof.
    intros Hp. pose proof (Hcred p Hp) as H. unfold cred_honest in H. rewrite !andb_true_iff in H.
    destruct H as [[[[[Halt Hlink] Hcd] Hva] _] _].
    destruct (assoc (hc_creddef (pr_cred p)) (cx_creddefs cx)) as [cd|]; [|discriminate].
    destruct (assoc (hc_schema (pr_cred p)) (cx_schemas cx)) as [sc|]; [|discriminate].
    rewrite !andb_true_iff in Hcd. destruct Hcd as [[[[Hk _] _] Hattrs] Hrev'].
    exists sc, cd. split; [reflexivity|]. split; [reflexivity|]. split; [exact Hrev'|].
    split; [apply N.eqb_eq; exact Hk|]. split; [apply negb_true_iff; exact Halt|]. split; [apply N.eqb_eq; exact Hlink|].
    split; [exact Hva|]. rewrite set_eqb_sym. exact Hattrs.
  Qed.

  (* what rev_ok says, case by case *)
  Lemma rev_cases p : In p E ->
    match hc_revreg (pr_cred p) with
    | None => pr_ts p = None /\ pr_state p = None
    | Some rid =>
        match entry_interval R p with
        | None => (pr_ts p = None /\ pr_state p = None) \/ (exists t n rk acc, pr_ts p = Some t /\ pr_state p = Some n /\ reg_of p = Some (rk, acc))
        | Some ie => exists t n rk acc, pr_ts p = Some t /\ pr_state p = Some n /\ reg_of p = Some (rk, acc) /\ is_valid ie t = true
                                       /\ nrp_valid n = true /\ nrp_regkey n = rk /\ nrp_acc n = acc
        end
    end.
  Proof.
    intros Hp. pose proof (Hrev p Hp) as H. unfold rev_ok_legacy, rev_ok in H. cbn [pc_req pc_cx mk_case] in H. unfold reg_of.
    destruct (hc_revreg (pr_cred p)) as [rid|].
    - destruct (pr_ts p) as [t|], (pr_state p) as [n|]; try discriminate.
      + rewrite Hregmap in H. destruct (cx_regdefs cx) as [defs|]; [|discriminate]. destruct regmap as [m|]; [|discriminate].
        destruct (assoc rid defs) as [rk|]; [|discriminate]. destruct (find_list m rid t) as [acc|]; [|discriminate].
        destruct (entry_interval R p) as [ie|]; cbn [opt_list] in H.
        * cbn [forallb] in H. unfold ovr_of in H. cbn [pc_cx] in H. rewrite Hovr in H. rewrite !andb_true_iff in H.
          destruct H as [[[[Hv _] Hnv] Hrk] Hacc]. apply N.eqb_eq in Hrk, Hacc. exists t, n, rk, acc. auto 10.
        * right. exists t, n, rk, acc. auto.
      + destruct (entry_interval R p); cbn [opt_list] in H; [discriminate|]. left. auto.
    - apply andb_prop in H as [H1 H2]. destruct (pr_ts p); [discriminate|]. destruct (pr_state p); [discriminate|]. auto.
  Qed.

  Lemma step_ok2 k p : at_idx E 0 k p -> exists sp x,
    nthZ (p_proofs P) k = Some sp /\ sub_of2 p sp x /\
    (local <- local_interval cfg_fixed R P k ;;
     cd <- of_opt (assoc (id_creddef (ident_of p)) (cx_creddefs cx)) ;;
     needed <- interval_check cfg_fixed R cx cd local (ident_of p) ;;
     sp' <- of_opt (nthZ (p_proofs P) k) ;;
     _ <- require_nrp cfg_fixed needed sp' ;;
     _ <- check_requested_preds cfg_fixed R P k sp' ;;
     _ <- check_unrevealed_names cfg_fixed R P cx k (ident_of p) ;;
     add_sub_proof cfg_fixed cx regmap sp' (ident_of p)) = ROk x.
  Proof.
    intros Hat. pose proof (at_idx_in _ _ _ Hat) as Hp.
    destruct BF as [_ Br Bg Bu Bp _ _ Bai _].
    destruct (entry_facts2 p Hp) as (sc & cd & Hsc & Hcd & Hrk & _).
    destruct (sub_at R cx link ps self P Hcreate k p Hat) as (sp & Hsp & Hpr).
    destruct (sub_inv2 R cx link k p sp Hpr) as (sc' & cd' & ais & uis & pis & Hsc' & Hcd' & Hais & Huis & Hpis & Hpv).
    cbn zeta in Hpv.
    rewrite Hsc in Hsc'. injection Hsc' as <-. rewrite Hcd in Hcd'. injection Hcd' as <-.
    exists sp, (sp, cd_key cd, map cv (sc_attrs sc), match cd_revkey cd with Some _ => reg_of p | None => None end).
    split; [exact Hsp|]. split; [exists sc, cd; auto|].
    (* local interval *)
    assert (Ha : forall r, In r (served_attr_refs cfg_fixed P k) -> In r (keys (rq_attrs R))).
    { intros r Hr. unfold served_attr_refs in Hr. cbn [f_unrev_intervals cfg_fixed] in Hr. rewrite !in_app_iff in Hr.
      apply (cov_attrs R cx link ps self Hcov). left. apply (sel_refs_E ps).
      destruct Hr as [Hr|[Hr|Hr]]; apply in_map_iff in Hr as ([r' v] & <- & Hf); apply filter_In in Hf as [Hin _]; cbn [fst].
      - apply Br in Hin as (k' & p' & Hat' & (Hb & _)). exists p', true. split; [exact (at_idx_in _ _ _ Hat')|exact Hb].
      - apply Bg in Hin as (k' & p' & Hat' & (Hb & _)). exists p', true. split; [exact (at_idx_in _ _ _ Hat')|exact Hb].
      - apply Bu in Hin as (k' & p' & Hat' & (Hb & _)). exists p', false. split; [exact (at_idx_in _ _ _ Hat')|exact Hb]. }
    assert (Hpp : forall r, In r (served_pred_refs P k) -> In r (keys (rq_preds R))).
    { intros r Hr. apply (served_preds_char R cx link ps self P Hcreate k p Hat) in Hr. apply (cov_preds R cx link ps self Hcov). apply (sel_preds_E ps). exists p. auto. }
    unfold local_interval.
    destruct (mapR_assoc_total (rq_attrs R) _ Ha) as (lais & -> & HFa). cbn [bind].
    destruct (mapR_assoc_total (rq_preds R) _ Hpp) as (lpis & -> & HFp). cbn [bind].
    rewrite folds_as_one2.
    pose proof (verifier_parts R cx link ps self P Hcreate Hcov k p lais lpis Hat HFa HFp) as VP.
    pose proof (prover_parts R cx link ps self Hcov p ais uis pis Hp Hais Huis Hpis) as PP.
    set (Lv := fold_left merge_opt (map ai_nr lais ++ map pi_nr lpis) None) in *.
    set (Lp := fold_left merge_opt (map ai_nr ais ++ map ai_nr uis ++ map pi_nr pis) None) in *.
    cbn [ident_of id_creddef]. rewrite Hcd. cbn [of_opt bind].
    (* the parts that do not depend on revocation *)
    assert (Hcp : check_requested_preds cfg_fixed R P k sp = ROk tt).
    { unfold check_requested_preds. cbn [f_check_preds cfg_fixed]. apply iter_total.
      intros r Hr. apply (served_preds_char R cx link ps self P Hcreate k p Hat) in Hr. destruct (Forall2_in_l _ _ _ _ Hpis Hr) as (pi & Hpi & Hassoc).
      rewrite Hassoc. cbn [of_opt bind]. apply guard_true. rewrite (pv_preds _ _ _ _ _ _ _ _ _ Hpv).
      apply existsb_exists. exists (cv (pi_name pi), pi_type pi, pi_value pi). split; [|apply pred_eqb_refl].
      apply in_map_iff. exists pi. auto. }
    assert (Hcu : check_unrevealed_names cfg_fixed R P cx k (ident_of p) = ROk tt).
    { unfold check_unrevealed_names. cbn [f_unrev_in_schema cfg_fixed ident_of id_schema]. rewrite Hsc. cbn [of_opt bind].
      apply iter_total.
      intros [r j] Hin. destruct (Z.eqb_spec j k) as [->|N]; [|reflexivity].
      apply Bu in Hin as (k' & p' & Hat' & (Hb & Hk)). subst k'.
      assert (p' = p) by (destruct Hat as [_ H1], Hat' as [_ H2]; rewrite H1 in H2; injection H2 as <-; reflexivity). subst p'.
      assert (Hrk' : In r (keys (rq_attrs R))).
      { apply (cov_attrs R cx link ps self Hcov). left. apply (sel_refs_E ps). exists p, false. auto. }
      destruct (assoc_some_of_key r _ Hrk') as [ai Hai]. rewrite Hai. cbn [of_opt bind]. apply guard_true.
      apply forallb_forall. intros n Hn. fold (names_of ai) in Hn.
      pose proof (Hunrev_names p r ai n Hp Hb Hai Hn) as Hk.
      apply mem_In. exact (proj1 (set_eqb_elim _ _ (pv_attrs _ _ _ _ _ _ _ _ _ Hpv) _) Hk). }
    assert (Hadd : forall reg,
              match hc_revreg (pr_cred p), pr_ts p with
              | Some rid, Some t => defs <- of_opt (cx_regdefs cx) ;; m <- of_opt regmap ;;
                                    rk <- of_opt (assoc rid defs) ;; acc <- of_opt (find_list m rid t) ;; ROk (Some (rk, acc))
              | _, _ => ROk None end = ROk reg ->
              add_sub_proof cfg_fixed cx regmap sp (ident_of p)
              = ROk (sp, cd_key cd, map cv (sc_attrs sc), match cd_revkey cd with Some _ => reg | None => None end)).
    { intros reg Hreg. unfold add_sub_proof. cbn [ident_of id_schema id_creddef id_revreg id_ts]. rewrite Hsc, Hcd. cbn [of_opt bind].
      rewrite Hreg. cbn [bind].
      assert (G1 : subset (keys (sp_revealed sp)) (map cv (sc_attrs sc)) = true).
      { apply subset_spec. intros n Hn. apply in_keys in Hn as [e He].
        destruct (pv_rev_out _ _ _ _ _ _ _ _ _ Hpv _ _ He) as [_ Hassoc].
        apply (proj1 (set_eqb_elim _ _ (pv_attrs _ _ _ _ _ _ _ _ _ Hpv) _)). apply in_keys. exists e. exact (assoc_In _ _ _ Hassoc). }
      rewrite G1. cbn [guard bind].
      assert (G2 : subset (map (fun p0 : string * ptype * Z => fst (fst p0)) (sp_preds sp)) (map cv (sc_attrs sc)) = true).
      { apply subset_spec. intros n Hn. apply in_map_iff in Hn as (pr & <- & Hpr'). rewrite (pv_preds _ _ _ _ _ _ _ _ _ Hpv) in Hpr'.
        pose proof (pv_preds_in _ _ _ _ _ _ _ _ _ Hpv) as Hall. rewrite forallb_forall in Hall. specialize (Hall _ Hpr'). apply mem_In in Hall.
        exact (proj1 (set_eqb_elim _ _ (pv_attrs _ _ _ _ _ _ _ _ _ Hpv) _) Hall). }
      rewrite G2. cbn [guard bind].
      rewrite (pv_preds _ _ _ _ _ _ _ _ _ Hpv), (pv_no_overflow _ _ _ _ _ _ _ _ _ Hpv). cbn [f_pred_range cfg_fixed negb orb guard bind]. reflexivity. }
    pose proof (rev_cases p Hp) as RC.
    unfold interval_check. cbn [f_gate_on_creddef cfg_fixed ident_of id_revreg id_ts].
    destruct (hc_revreg (pr_cred p)) as [rid|] eqn:Erid.
    - destruct (cd_revkey cd) as [rkd|] eqn:Erkd; [|discriminate].
      fold (pick_iv Lv (rq_nr R)).
      destruct (entry_interval R p) as [ie|] eqn:Eie.
      + destruct RC as (t & n & rk & acc & Et & En & Ereg & Hv & _).
        pose proof (same_interval R cx link ps self Hcov Hwf_a Hwf_p p _ t Hp (Hts p t Hp Et) VP) as SV. fold Lv in SV. rewrite Eie in SV.
        pose proof (same_interval R cx link ps self Hcov Hwf_a Hwf_p p _ t Hp (Hts p t Hp Et) PP) as SP. fold Lp in SP. rewrite Eie in SP.
        destruct (pick_iv Lv (rq_nr R)) as [iv|]; [|destruct SV].
        rewrite Et. cbn [of_opt bind]. rewrite Hovr, SV, Hv. cbn [guard bind]. rewrite Hsp. cbn [of_opt bind].
        unfold require_nrp. rewrite (pv_nrp _ _ _ _ _ _ _ _ _ Hpv).
        destruct (pick_iv Lp (rq_nr R)) as [ip|]; [|destruct SP]. rewrite En. cbn [negb orb guard bind f_require_nrp cfg_fixed].
        rewrite Hcp, Hcu. cbn [bind]. rewrite (Hadd (reg_of p)); [reflexivity|].
        unfold reg_of in Ereg |- *. rewrite Erid, Et in Ereg |- *.
        destruct (cx_regdefs cx) as [defs|]; [|discriminate]. destruct regmap as [m|]; [|discriminate]. cbn [of_opt bind].
        destruct (assoc rid defs); [|discriminate]. destruct (find_list m rid t); [|discriminate]. reflexivity.
      + assert (SV : pick_iv Lv (rq_nr R) = None).
        { pose proof (same_interval R cx link ps self Hcov Hwf_a Hwf_p p _ 0 Hp ltac:(unfold u64, u64max; lia) VP) as SV. fold Lv in SV. rewrite Eie in SV.
          destruct (pick_iv Lv (rq_nr R)); [destruct SV|reflexivity]. }
        rewrite SV. cbn [bind]. rewrite Hsp. cbn [of_opt bind]. unfold require_nrp. cbn [negb orb guard bind f_require_nrp cfg_fixed].
        rewrite Hcp, Hcu. cbn [bind]. rewrite (Hadd (reg_of p)); [reflexivity|].
        unfold reg_of. rewrite Erid.
        destruct RC as [[Et En]|(t & n & rk & acc & Et & En & Ereg)]; rewrite Et; [reflexivity|].
        unfold reg_of in Ereg. rewrite Erid, Et in Ereg.
        destruct (cx_regdefs cx) as [defs|]; [|discriminate]. destruct regmap as [m|]; [|discriminate]. cbn [of_opt bind].
        destruct (assoc rid defs); [|discriminate]. destruct (find_list m rid t); [|discriminate]. reflexivity.
    - destruct (cd_revkey cd) as [rkd|] eqn:Erkd; [discriminate|]. cbn [bind]. rewrite Hsp. cbn [of_opt bind].
      unfold require_nrp. cbn [negb orb guard bind f_require_nrp cfg_fixed].
      rewrite Hcp, Hcu. cbn [bind]. rewrite (Hadd None); reflexivity.
  Qed.
End Rev3.
