(* The credential searches of the W3C verifier model (check_requested_attribute / _predicate):
   what a successful search returns, with the position of the serving credential. The searches run
   in a strict pass (a credential lacking a required non-revocation proof is skipped) and, when that
   finds nothing, in a last-resort pass; the facts below hold for either pass. *)
From Coq Require Import List String ZArith NArith Bool Lia.
From AV Require Import Model.Str Model.Encode Model.Query Model.VTypes Model.Interval Model.Eval Model.CL
  Model.VerifierLegacy Model.VerifierW3C Proofs.VMonad.
Import ListNotations.
Local Open Scope string_scope.
Local Open Scope list_scope.
Local Open Scope Z_scope.

Section Search.
  Context (cfg : vcfg).
  Notation wcase := (w3c_cred * (identifier * subproof))%type.

  Lemma find_revealed_idx strict R cx name q nr cs : forall i l, find_revealed cfg strict R cx name q nr i cs = Some l ->
    exists j c id sp k v u b, nthZ cs (j - i) = Some (c, (id, sp)) /\ i <= j /\ get_attribute c name = Some (k, v) /\
      verify_value k sp (Encode.encode (value_to_string v)) = ROk u /\ cred_conditions cfg R cx c id q nr = Some b /\ l = need j b.
  Proof.
    induction cs as [|[c [id sp]] r IH]; intros i l H; cbn [find_revealed] in H; [discriminate|].
    assert (Hrec : forall l', find_revealed cfg strict R cx name q nr (i + 1) r = Some l' ->
              exists j c0 id0 sp0 k v u b, nthZ ((c, (id, sp)) :: r) (j - i) = Some (c0, (id0, sp0)) /\ i <= j /\ get_attribute c0 name = Some (k, v) /\
                verify_value k sp0 (Encode.encode (value_to_string v)) = ROk u /\ cred_conditions cfg R cx c0 id0 q nr = Some b /\ l' = need j b).
    { intros l' Hl'. destruct (IH _ _ Hl') as (j & c0 & id0 & sp0 & k & v & u & b & Hn & Hle & Hr).
      exists j, c0, id0, sp0, k, v, u, b. split; [|split; [lia|exact Hr]].
      rewrite nthZ_cons_pos by lia. replace (j - i - 1) with (j - (i + 1)) by lia. exact Hn. }
    destruct (get_attribute c name) as [[k v]|] eqn:Eg; [|apply Hrec; exact H].
    destruct (verify_value k sp _) as [u| |] eqn:Ev; cbn [is_ok] in H; try (apply Hrec; exact H).
    destruct (cred_conditions cfg R cx c id q nr) as [b|] eqn:Ec; [|apply Hrec; exact H].
    destruct (usable strict b sp); [|apply Hrec; exact H].
    inversion H; subst l. exists i, c, id, sp, k, v, u, b. replace (i - i) with 0 by lia. repeat split; auto. lia.
  Qed.

  Lemma find_unrevealed_idx strict R cx name q nr cs : forall i l, find_unrevealed cfg strict R cx name q nr i cs = ROk (Some l) ->
    exists j c id sp sc b, nthZ cs (j - i) = Some (c, (id, sp)) /\ i <= j /\ assoc (id_schema id) (cx_schemas cx) = Some sc /\
      existsb (fun a => String.eqb (cv a) (cv name)) (sc_attrs sc) = true /\ cred_conditions cfg R cx c id q nr = Some b /\ l = need j b.
  Proof.
    induction cs as [|[c [id sp]] r IH]; intros i l H; cbn [find_unrevealed] in H; [discriminate|].
    apply bind_ok in H. destruct H as (sc & Hsc & H). apply of_opt_ok in Hsc.
    assert (Hrec : forall l', find_unrevealed cfg strict R cx name q nr (i + 1) r = ROk (Some l') ->
              exists j c0 id0 sp0 sc0 b, nthZ ((c, (id, sp)) :: r) (j - i) = Some (c0, (id0, sp0)) /\ i <= j /\ assoc (id_schema id0) (cx_schemas cx) = Some sc0 /\
                existsb (fun a => String.eqb (cv a) (cv name)) (sc_attrs sc0) = true /\ cred_conditions cfg R cx c0 id0 q nr = Some b /\ l' = need j b).
    { intros l' Hl'. destruct (IH _ _ Hl') as (j & c0 & id0 & sp0 & sc0 & b & Hn & Hle & Hr).
      exists j, c0, id0, sp0, sc0, b. split; [|split; [lia|exact Hr]].
      rewrite nthZ_cons_pos by lia. replace (j - i - 1) with (j - (i + 1)) by lia. exact Hn. }
    destruct (existsb _ (sc_attrs sc)) eqn:Ee; [|apply Hrec; exact H].
    destruct (cred_conditions cfg R cx c id q nr) as [b|] eqn:Ec; [|apply Hrec; exact H].
    destruct (usable strict b sp); [|apply Hrec; exact H].
    inversion H; subst l. exists i, c, id, sp, sc, b. replace (i - i) with 0 by lia. repeat split; auto. lia.
  Qed.

  Lemma find_predicate_idx strict R cx pi cs : forall i l, find_predicate cfg strict R cx pi i cs = Some l ->
    exists j c id sp k b, nthZ cs (j - i) = Some (c, (id, sp)) /\ i <= j /\ get_predicate c (pi_name pi) = Some k /\
      existsb (fun p => pred_eqb p ((if f_w3c_pred_cv cfg then cv k else k), pi_type pi, pi_value pi)) (sp_preds sp) = true /\
      cred_conditions cfg R cx c id (pi_restr pi) (pi_nr pi) = Some b /\ l = need j b.
  Proof.
    induction cs as [|[c [id sp]] r IH]; intros i l H; cbn [find_predicate] in H; [discriminate|].
    assert (Hrec : forall l', find_predicate cfg strict R cx pi (i + 1) r = Some l' ->
              exists j c0 id0 sp0 k b, nthZ ((c, (id, sp)) :: r) (j - i) = Some (c0, (id0, sp0)) /\ i <= j /\ get_predicate c0 (pi_name pi) = Some k /\
                existsb (fun p => pred_eqb p ((if f_w3c_pred_cv cfg then cv k else k), pi_type pi, pi_value pi)) (sp_preds sp0) = true /\
                cred_conditions cfg R cx c0 id0 (pi_restr pi) (pi_nr pi) = Some b /\ l' = need j b).
    { intros l' Hl'. destruct (IH _ _ Hl') as (j & c0 & id0 & sp0 & k & b & Hn & Hle & Hr).
      exists j, c0, id0, sp0, k, b. split; [|split; [lia|exact Hr]].
      rewrite nthZ_cons_pos by lia. replace (j - i - 1) with (j - (i + 1)) by lia. exact Hn. }
    destruct (get_predicate c (pi_name pi)) as [k|] eqn:Eg; [|apply Hrec; exact H].
    destruct (existsb _ (sp_preds sp)) eqn:Ee; [|apply Hrec; exact H].
    destruct (cred_conditions cfg R cx c id (pi_restr pi) (pi_nr pi)) as [b|] eqn:Ec; [|apply Hrec; exact H].
    destruct (usable strict b sp); [|apply Hrec; exact H].
    inversion H; subst l. exists i, c, id, sp, k, b. replace (i - i) with 0 by lia. repeat split; auto. lia.
  Qed.

  (* a successful attribute check is a successful search of one of the two kinds, in one of the passes *)
  Lemma check_attribute_cases R cx cs name q nr l : check_attribute cfg R cx cs name q nr = ROk l ->
    (exists s, find_revealed cfg s R cx name q nr 0 cs = Some l) \/ (exists s, find_unrevealed cfg s R cx name q nr 0 cs = ROk (Some l)).
  Proof.
    unfold check_attribute. intros H.
    destruct (find_revealed cfg (f_w3c_nrp_search cfg) R cx name q nr 0 cs) as [l1|] eqn:E1; [inversion H; subst; left; eauto|].
    apply bind_ok in H. destruct H as (u & Hu & H). destruct u as [l2|]; [inversion H; subst; right; eauto|].
    destruct (f_w3c_nrp_search cfg); [|discriminate].
    destruct (find_revealed cfg false R cx name q nr 0 cs) as [l3|] eqn:E3; [inversion H; subst; left; eauto|].
    apply bind_ok in H. destruct H as (u2 & Hu2 & H). apply of_opt_ok in H. subst u2. right. eauto.
  Qed.
  Lemma check_predicate_cases R cx pi cs l : check_predicate cfg R cx pi cs = ROk l ->
    exists s, find_predicate cfg s R cx pi 0 cs = Some l.
  Proof.
    unfold check_predicate. intros H.
    destruct (find_predicate cfg (f_w3c_nrp_search cfg) R cx pi 0 cs) as [l1|] eqn:E1; [inversion H; subst; eauto|].
    destruct (f_w3c_nrp_search cfg); [|discriminate]. apply of_opt_ok in H. eauto.
  Qed.
End Search.
