(* C16: parse . print . parse = parse, image invariant of the parser, legacy and empty forms *)
From Coq Require Import List String ZArith Bool Lia.
From AV Require Import Model.Sexp Model.Json Model.Query.
Import ListNotations.
Open Scope string_scope.

Definition reserved (k : string) : bool :=
  (k =? "$and") || (k =? "$or") || (k =? "$not") || (k =? "$exist").

(* image of the parser: no empty Or, no empty Exist, leaf keys are not operator keys *)
Fixpoint img (q : query) : Prop :=
  match q with
  | And l => (fix all (l : list query) : Prop := match l with [] => True | x :: r => img x /\ all r end) l
  | Or l => l <> [] /\ (fix all (l : list query) : Prop := match l with [] => True | x :: r => img x /\ all r end) l
  | Not q => img q
  | Eq k _ | Neq k _ | Gt k _ | Gte k _ | Lt k _ | Lte k _ | Like k _ | QIn k _ => reserved k = false
  | Exist ks => ks <> []
  end.
Fixpoint imgs (l : list query) : Prop := match l with [] => True | x :: r => img x /\ imgs r end.
Lemma img_And l : img (And l) <-> imgs l.
Proof. simpl. induction l; simpl; tauto. Qed.
Lemma img_Or l : img (Or l) <-> l <> [] /\ imgs l.
Proof. simpl. split; intros [H1 H2]; split; auto; clear H1; induction l; simpl in *; tauto. Qed.

Section QInd.
  Context (P : query -> Prop).
  Context (HAnd : forall l, Forall P l -> P (And l)).
  Context (HOr : forall l, Forall P l -> P (Or l)).
  Context (HNot : forall q, P q -> P (Not q)).
  Context (HLeaf : forall q, (match q with And _ | Or _ | Not _ => False | _ => True end) -> P q).
  Fixpoint query_ind' (q : query) : P q :=
    match q with
    | And l => HAnd l ((fix go (l : list query) : Forall P l :=
                          match l with [] => Forall_nil _ | x :: r => Forall_cons _ (query_ind' x) (go r) end) l)
    | Or l => HOr l ((fix go (l : list query) : Forall P l :=
                        match l with [] => Forall_nil _ | x :: r => Forall_cons _ (query_ind' x) (go r) end) l)
    | Not q => HNot q (query_ind' q)
    | q' => HLeaf q' I
    end.
End QInd.

Section JInd.
  Context (P : jv -> Prop).
  Context (HN : P JNull) (HB : forall b, P (JBool b)) (HZ : forall z, P (JNum z)) (HF : P JFloat).
  Context (HS : forall s, P (JStr s)).
  Context (HA : forall l, Forall P l -> P (JArr l)).
  Context (HO : forall m, Forall (fun kv => P (snd kv)) m -> P (JObj m)).
  Fixpoint jv_ind' (j : jv) : P j :=
    match j with
    | JNull => HN | JBool b => HB b | JNum z => HZ z | JFloat => HF | JStr s => HS s
    | JArr l => HA l ((fix go l : Forall P l :=
                         match l with [] => Forall_nil _ | x :: r => Forall_cons _ (jv_ind' x) (go r) end) l)
    | JObj m => HO m ((fix go m : Forall (fun kv => P (snd kv)) m :=
                         match m with [] => Forall_nil _ | (k, v) :: r => Forall_cons (k, v) (jv_ind' v) (go r) end) m)
    end.
End JInd.

Lemma tv_is_obj q : is_obj (tv q) = true.
Proof. destruct q; simpl; auto; destruct l; auto. Qed.
Lemma strs_map l : strs (map JStr l) = Some l.
Proof. induction l; simpl; auto. unfold strs in *. simpl. rewrite IHl. reflexivity. Qed.

Lemma mapM_tv l : Forall (fun q => img q -> pq (tv q) = Some q) l -> imgs l ->
  mapM (fun x => if is_obj x then pq x else None) (map tv l) = Some l.
Proof.
  induction 1 as [|x r Hx Hr IH]; simpl; intros Hi; auto.
  destruct Hi as [Hix Hir]. rewrite tv_is_obj, (Hx Hix), (IH Hir). reflexivity.
Qed.

Lemma pq_obj1 k v : pq (obj1 k v) = option_map (fun o => finish (keep [o])) (pop pq (k, v)).
Proof. unfold obj1. cbn [pq mapM]. destruct (pop pq (k, v)); reflexivity. Qed.

Ltac rsv H := unfold reserved in H; repeat (apply orb_false_elim in H; destruct H as [H ?]).

Theorem print_parse q : img q -> pq (tv q) = Some q.
Proof.
  induction q using query_ind'.
  - intros Hi. apply img_And in Hi. destruct l as [|x r]; [reflexivity|].
    pose proof (mapM_tv _ H Hi) as G.
    change (tv (And (x :: r))) with (obj1 "$and" (JArr (map tv (x :: r)))).
    rewrite pq_obj1. unfold pop. cbn [String.eqb Ascii.eqb Bool.eqb].
    remember (map tv (x :: r)) as vs eqn:E. destruct vs as [|v vs']; [discriminate|].
    rewrite G. reflexivity.
  - intros Hi. apply img_Or in Hi. destruct Hi as [Hne Hi]. destruct l as [|x r]; [congruence|].
    pose proof (mapM_tv _ H Hi) as G.
    change (tv (Or (x :: r))) with (obj1 "$or" (JArr (map tv (x :: r)))).
    rewrite pq_obj1. unfold pop. cbn [String.eqb Ascii.eqb Bool.eqb].
    remember (map tv (x :: r)) as vs eqn:E. destruct vs as [|v vs']; [discriminate|].
    rewrite G. reflexivity.
  - intros Hi. simpl in Hi. specialize (IHq Hi).
    change (tv (Not q)) with (obj1 "$not" (tv q)). rewrite pq_obj1. unfold pop.
    cbn [String.eqb Ascii.eqb Bool.eqb]. rewrite tv_is_obj, IHq. reflexivity.
  - destruct q; try contradiction; intros Hi; simpl in Hi.
    all: try (rsv Hi; cbn [tv]; rewrite pq_obj1; unfold pop;
              repeat match goal with H : (_ =? _) = false |- _ => rewrite H; clear H end;
              cbn; try (unfold jstrs; rewrite strs_map); reflexivity).
    destruct ks as [|k ks]; [congruence|]. cbn [tv]. rewrite pq_obj1. unfold pop.
    cbn [String.eqb Ascii.eqb Bool.eqb]. unfold jstrs. cbn [map].
    change (JStr k :: map JStr ks) with (map JStr (k :: ks)). rewrite strs_map. reflexivity.
Qed.

Lemma imgs_app a b : imgs (a ++ b) <-> imgs a /\ imgs b.
Proof. induction a; simpl; tauto. Qed.

Lemma img_finish l : imgs l -> img (finish l).
Proof.
  intros H. destruct l as [|x [|y r]]; [exact I | simpl in H; simpl; tauto |].
  apply (proj2 (img_And (x :: y :: r))). exact H.
Qed.

Lemma mapM_imgs (f : jv -> option query) vs l :
  Forall (fun v => forall q, f v = Some q -> img q) vs -> mapM f vs = Some l -> imgs l.
Proof.
  intros H; revert l; induction H as [|v vs Hv Hvs IH]; simpl; intros l E.
  - inversion E; simpl; auto.
  - destruct (f v) eqn:Ef; [|discriminate]. destruct (mapM f vs) eqn:Em; [|discriminate].
    inversion E; subst. simpl. split; [eapply Hv; eauto | eapply IH; eauto].
Qed.

Lemma mapM_nonempty {A B} (f : A -> option B) x xs l : mapM f (x :: xs) = Some l -> l <> [].
Proof.
  simpl. destruct (f x); [|discriminate]. destruct (mapM f xs); [|discriminate].
  intros E; inversion E; discriminate.
Qed.

Lemma parse_single_img op k v q : reserved k = false -> parse_single op k v = Some q -> img q.
Proof.
  intros Hk. unfold parse_single. destruct v; try discriminate.
  - repeat match goal with |- context [if ?c then _ else _] => destruct c end;
      intros E; inversion E; subst; simpl; auto.
  - destruct (op =? "$in"); [|discriminate].
    destruct (strs l); simpl; intros E; inversion E; subst; simpl; auto.
Qed.

Lemma pop_img kv o : (forall q, pq (snd kv) = Some q -> img q) ->
  (match snd kv with JArr vs => Forall (fun v => forall q, pq v = Some q -> img q) vs | _ => True end) ->
  pop pq kv = Some o -> match o with Some q => img q | None => True end.
Proof.
  destruct kv as [k v]; cbn [snd]. intros Hv Hvs. unfold pop.
  destruct (k =? "$and") eqn:E1.
  { destruct v; try discriminate. destruct l as [|x xs]; [intros E; inversion E; auto|].
    destruct (mapM _ (x :: xs)) eqn:Em; simpl; [|discriminate]. intros E; inversion E; subst.
    apply img_And. eapply mapM_imgs; [|exact Em].
    eapply Forall_impl; [|exact Hvs]. cbn beta. intros a Ha q. destruct (is_obj a); [apply Ha|discriminate]. }
  destruct (k =? "$or") eqn:E2.
  { destruct v; try discriminate. destruct l as [|x xs]; [intros E; inversion E; auto|].
    destruct (mapM _ (x :: xs)) eqn:Em; simpl; [|discriminate]. intros E; inversion E; subst.
    apply img_Or. split; [eapply mapM_nonempty; eauto|]. eapply mapM_imgs; [|exact Em].
    eapply Forall_impl; [|exact Hvs]. cbn beta. intros a Ha q. destruct (is_obj a); [apply Ha|discriminate]. }
  destruct (k =? "$not") eqn:E3.
  { destruct (is_obj v); [|discriminate]. destruct (pq v) eqn:Ep; simpl; [|discriminate].
    intros E; inversion E; subst. simpl. auto. }
  destruct (k =? "$exist") eqn:E4.
  { destruct v; try discriminate.
    - intros E; inversion E; simpl; discriminate.
    - destruct l as [|x xs]; [intros E; inversion E; auto|].
      destruct (strs (x :: xs)) eqn:Es; simpl; [|discriminate]. intros E; inversion E; subst. simpl.
      eapply mapM_nonempty; eauto. }
  assert (Hk : reserved k = false) by (unfold reserved; rewrite E1, E2, E3, E4; reflexivity).
  destruct v; try discriminate.
  - intros E; inversion E; subst; simpl; auto.
  - destruct m as [|[op v'] [|? ?]]; try discriminate.
    destruct (parse_single op k v') eqn:Eps; simpl; [|discriminate]. intros E; inversion E; subst.
    eapply parse_single_img; eauto.
Qed.

Lemma keep_imgs l : Forall (fun o => match o with Some q => img q | None => True end) l -> imgs (keep l).
Proof. induction 1 as [|o r Ho Hr IH]; simpl; auto. destruct o; simpl; auto. Qed.

Definition PI (j : jv) : Prop :=
  (forall q, pq j = Some q -> img q) /\
  match j with JArr vs => Forall (fun v => forall q, pq v = Some q -> img q) vs | _ => True end.

Theorem parse_img_strong j : PI j.
Proof.
  induction j using jv_ind'; unfold PI; try (split; [simpl; discriminate | exact I]).
  - (* array *) split; [simpl; discriminate|]. eapply Forall_impl; [|exact H]. intros a [Ha _]. exact Ha.
  - split; [|exact I]. intros q. cbn [pq]. destruct (mapM (pop pq) m) as [l|] eqn:Em; simpl; [|discriminate].
    intros E; inversion E; subst. apply img_finish. apply keep_imgs.
    clear E. revert l Em. induction H as [|kv r Hkv Hr IH]; simpl; intros l Em.
    + inversion Em; constructor.
    + destruct (pop pq kv) eqn:Ep; [|discriminate]. destruct (mapM (pop pq) r) eqn:Er; [|discriminate].
      inversion Em; subst. constructor; [|apply IH; reflexivity].
      destruct Hkv as [H1 H2]. eapply pop_img; [exact H1|exact H2|exact Ep].
Qed.

Lemma pq_img j q : pq j = Some q -> img q.
Proof. exact (proj1 (parse_img_strong j) q). Qed.

Theorem pq_print_parse j q : pq j = Some q -> pq (tv q) = Some q.
Proof. intros H. apply print_parse. eapply pq_img; eauto. Qed.

Lemma parse_restriction_img j q : parse_restriction j = Some q -> img q.
Proof.
  destruct j; try discriminate; cbn [parse_restriction].
  - destruct (mapM legacy_filter l); [|discriminate]. apply pq_img.
  - apply pq_img.
Qed.

Lemma parse_restriction_obj q : parse_restriction (tv q) = pq (tv q).
Proof. pose proof (tv_is_obj q). destruct (tv q); try discriminate. reflexivity. Qed.

(* the property: parsing, serialising and parsing again yields the same query *)
Theorem parse_print_parse j q : parse_restriction j = Some q -> parse_restriction (tv q) = Some q.
Proof.
  intros H. rewrite parse_restriction_obj. apply print_parse. eapply parse_restriction_img; eauto.
Qed.

(* ---- legacy list-of-filters form ---- *)

Lemma pq_or_list vs : vs <> [] ->
  pq (JObj [("$or", JArr vs)]) =
  option_map Or (mapM (fun x => if is_obj x then pq x else None) vs).
Proof.
  intros Hne. change (JObj [("$or", JArr vs)]) with (obj1 "$or" (JArr vs)). rewrite pq_obj1. unfold pop.
  cbn [String.eqb Ascii.eqb Bool.eqb]. destruct vs as [|v r]; [congruence|].
  destruct (mapM _ (v :: r)); reflexivity.
Qed.

Lemma nonempty_filters_objs fs : Forall (fun x => is_obj x = true) (nonempty_filters fs).
Proof.
  unfold nonempty_filters. induction fs as [|m r IH]; simpl; [constructor|].
  destruct m; simpl; auto.
Qed.

Lemma mapM_objs (vs : list jv) : Forall (fun x => is_obj x = true) vs ->
  mapM (fun x => if is_obj x then pq x else None) vs = mapM pq vs.
Proof.
  induction 1 as [|x r Hx Hr IH]; simpl; auto. rewrite Hx, IH. reflexivity.
Qed.

(* the list form is the disjunction of its non-empty filters (null entries dropped);
   with no non-empty filter it is the empty conjunction, i.e. no restriction *)
Theorem legacy_array_is_disjunction arr :
  parse_restriction (JArr arr) =
  match mapM legacy_filter arr with
  | None => None
  | Some fs =>
      match nonempty_filters fs with
      | [] => Some (And [])
      | vs => option_map Or (mapM pq vs)
      end
  end.
Proof.
  cbn [parse_restriction]. destruct (mapM legacy_filter arr) as [fs|]; [|reflexivity].
  destruct (nonempty_filters fs) as [|v r] eqn:E; [reflexivity|].
  rewrite pq_or_list by discriminate. rewrite mapM_objs; [reflexivity|].
  rewrite <- E. apply nonempty_filters_objs.
Qed.

Theorem empty_forms_unrestricted :
  parse_restriction (JObj []) = Some (And []) /\
  parse_restriction (JArr []) = Some (And []) /\
  parse_restriction (JArr [JObj []]) = Some (And []) /\
  parse_restriction (JObj [("$or", JArr [])]) = Some (And []) /\
  parse_restriction (JObj [("$and", JArr [])]) = Some (And []) /\
  (forall ks, parse_restriction (JArr [JObj (map (fun k => (k, JNull)) ks)]) = Some (And [])).
Proof.
  repeat split; try reflexivity.
  intros ks. rewrite legacy_array_is_disjunction. cbn [mapM legacy_filter].
  assert (E : filter (fun kv : string * jv => negb (is_null (snd kv))) (map (fun k => (k, JNull)) ks) = []).
  { induction ks; simpl; auto. }
  rewrite E. reflexivity.
Qed.

(* malformed restrictions are rejected: characterised cases *)
Theorem malformed_rejected :
  (forall k z, pq (obj1 k (JNum z)) = None) /\
  (forall k b, pq (obj1 k (JBool b)) = None) /\
  (forall k, pq (obj1 k JNull) = None) /\
  (forall k l, reserved k = false -> pq (obj1 k (JArr l)) = None) /\
  (forall k a b r, reserved k = false -> pq (obj1 k (JObj (a :: b :: r))) = None) /\
  (forall k, reserved k = false -> pq (obj1 k (JObj [])) = None) /\
  (forall k op v, reserved k = false ->
     (op =? "$neq") || (op =? "$gt") || (op =? "$gte") || (op =? "$lt") || (op =? "$lte") || (op =? "$like") || (op =? "$in") = false ->
     pq (obj1 k (obj1 op v)) = None) /\
  (forall j, is_obj j = false -> parse_restriction (JArr [j]) = None) /\
  (forall j, match j with JObj _ | JArr _ => False | _ => True end -> parse_restriction j = None).
Proof.
  assert (RW : forall k, reserved k = false ->
            (k =? "$and") = false /\ (k =? "$or") = false /\ (k =? "$not") = false /\ (k =? "$exist") = false).
  { intros k H. rsv H. auto. }
  repeat split; intros.
  - rewrite pq_obj1. unfold pop. repeat (destruct (k =? _); try reflexivity).
  - rewrite pq_obj1. unfold pop. repeat (destruct (k =? _); try reflexivity).
  - rewrite pq_obj1. unfold pop. repeat (destruct (k =? _); try reflexivity).
  - destruct (RW _ H) as (A1 & A2 & A3 & A4). rewrite pq_obj1. unfold pop. rewrite A1, A2, A3, A4. reflexivity.
  - destruct (RW _ H) as (A1 & A2 & A3 & A4). rewrite pq_obj1. unfold pop. rewrite A1, A2, A3, A4. destruct a. reflexivity.
  - destruct (RW _ H) as (A1 & A2 & A3 & A4). rewrite pq_obj1. unfold pop. rewrite A1, A2, A3, A4. reflexivity.
  - destruct (RW _ H) as (A1 & A2 & A3 & A4). rewrite pq_obj1. unfold pop. rewrite A1, A2, A3, A4.
    unfold obj1 at 1. cbn [option_map].
    repeat (apply orb_false_elim in H0; let X := fresh "B" in destruct H0 as [H0 X]).
    unfold parse_single. destruct v; try reflexivity;
      repeat match goal with X : (op =? _) = false |- _ => rewrite X; clear X end; reflexivity.
  - cbn [parse_restriction mapM]. destruct j; try discriminate; reflexivity.
  - destruct j; try contradiction; reflexivity.
Qed.
