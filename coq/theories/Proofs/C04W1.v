(* C04, W3C format, end to end for a class - part 1: the class and the structure of what create_w3c builds *)
From Coq Require Import List String Ascii ZArith NArith Bool Lia.
From AV Require Import Model.Str Model.Encode Model.Query Model.VTypes Model.Interval Model.Eval Model.CL Model.VerifierLegacy Model.VerifierW3C
  Model.VCfg Model.Prover Model.PProps Proofs.VMonad Proofs.C04F1 Proofs.C04F6.
Import ListNotations.
Local Open Scope string_scope.
Local Open Scope list_scope.
Local Open Scope Z_scope.

Section Built.
  Context (R : request) (cx : ctx) (link : N).

  (* entry by entry: the sub-proof built from the W3C view of the credential at position k, the derived subject, the entry *)
  Inductive built : Z -> list present -> list subproof -> list w3c_cred -> Prop :=
  | built_nil k : built k [] [] []
  | built_cons k p E sp sps c creds fed subj :
      fed_w3c (pr_cred p) = ROk fed ->
      prover_sub_proof pcfg_fixed R cx link k p fed = ROk sp ->
      build_subject pcfg_fixed R p = ROk subj ->
      c = {| wc_issuer := hc_issuer (pr_cred p); wc_subject := subj; wc_method := hc_creddef (pr_cred p); wc_pv := Some (ident_of p, sp) |} ->
      built (k + 1) E sps creds ->
      built k (p :: E) (sp :: sps) (c :: creds).

  Lemma w3c_subs_char : forall ps k sps, w3c_subs pcfg_fixed R cx link ps k = ROk sps ->
    Forall2 (fun p sp => True) (nonempty ps) sps /\
    forall creds, mapR (fun '(p, sp) =>
               bind (build_subject pcfg_fixed R p) (fun subj =>
               let c := pr_cred p in
               ROk {| wc_issuer := hc_issuer c; wc_subject := subj; wc_method := hc_creddef c; wc_pv := Some (ident_of p, sp) |}))
             (combine (nonempty ps) sps) = ROk creds -> built k (nonempty ps) sps creds.
  Proof.
    induction ps as [|p r IH]; intros k sps H; cbn [w3c_subs] in H.
    - inversion H; subst. split; [constructor|]. intros creds Hc. cbn in Hc. inversion Hc. constructor.
    - unfold nonempty. cbn [List.filter]. destruct (pr_empty p) eqn:Ee; cbn [negb].
      + exact (IH k sps H).
      + apply bind_ok in H as (fed & Hfed & H). apply bind_ok in H as (sp & Hsp & H). apply bind_ok in H as (sps' & Hr & H).
        inversion H; subst sps. destruct (IH _ _ Hr) as [F G]. split; [constructor; [exact I|exact F]|].
        intros creds Hc. cbn [combine mapR] in Hc. apply bind_ok in Hc as (c & Hcc & Hc). apply bind_ok in Hc as (cs' & Hcs & Hc).
        inversion Hc; subst creds. apply bind_ok in Hcc as (subj & Hsubj & Hcc). inversion Hcc; subst c.
        econstructor; [exact Hfed|exact Hsp|exact Hsubj|reflexivity|]. apply G. exact Hcs.
  Qed.

  Lemma create_unpack ps P : create_w3c pcfg_fixed R cx link ps = ROk P ->
    validate_sel ps = true /\ exists sps creds, built 0 (nonempty ps) sps creds /\
      P = {| wp_shape_ok := true; wp_creds := creds;
             wp_agg := Some {| ag_nonce := rq_nonce R; ag_count := lenZ sps; ag_altered := false; ag_common := true |} |}.
  Proof.
    unfold create_w3c. intros H.
    apply bind_ok in H as (u1 & G1 & H). apply bind_ok in H as (u2 & G2 & H). apply guard_ok in G2.
    apply bind_ok in H as (sps & Hs & H). cbn [pf_w3c_zip pcfg_fixed] in H.
    apply bind_ok in H as (creds & Hc & H). inversion H; subst P. split; [exact G2|].
    exists sps, creds. split; [|reflexivity].
    destruct (w3c_subs_char _ _ _ Hs) as [_ G]. apply G. exact Hc.
  Qed.

  (* the list the verifier works on *)
  Fixpoint cs_of (E : list present) (sps : list subproof) (creds : list w3c_cred) : list (w3c_cred * (identifier * subproof)) :=
    match E, sps, creds with
    | p :: E', sp :: sps', c :: creds' => (c, (ident_of p, sp)) :: cs_of E' sps' creds'
    | _, _, _ => []
    end.
  Lemma decode_built k E sps creds : built k E sps creds ->
    mapR (fun c => bind (of_opt (wc_pv c)) (fun pv => ROk (c, pv))) creds = ROk (cs_of E sps creds).
  Proof.
    induction 1 as [|k p E sp sps c creds fed subj Hf Hs Hb Hc Hr IH]; [reflexivity|].
    cbn [mapR cs_of]. subst c. cbn [wc_pv of_opt bind]. rewrite IH. reflexivity.
  Qed.
  Lemma built_lengths k E sps creds : built k E sps creds -> lenZ sps = lenZ E /\ lenZ (cs_of E sps creds) = lenZ E.
  Proof.
    induction 1 as [|k p E sp sps c creds fed subj Hf Hs Hb Hc Hr IH]; [split; reflexivity|].
    destruct IH as [A B]. unfold lenZ in *. cbn [List.length cs_of]. split; lia.
  Qed.
  (* membership: every element of the verifier's list is a built entry *)
  Lemma cs_of_in k E sps creds x : built k E sps creds -> In x (cs_of E sps creds) ->
    exists j p sp fed subj, In p E /\ k <= j /\
      fed_w3c (pr_cred p) = ROk fed /\ prover_sub_proof pcfg_fixed R cx link j p fed = ROk sp /\ build_subject pcfg_fixed R p = ROk subj /\
      x = ({| wc_issuer := hc_issuer (pr_cred p); wc_subject := subj; wc_method := hc_creddef (pr_cred p); wc_pv := Some (ident_of p, sp) |}, (ident_of p, sp)).
  Proof.
    induction 1 as [|k p E sp sps c creds fed subj Hf Hs Hb Hc Hr IH]; intros Hin; [destruct Hin|].
    cbn [cs_of] in Hin. destruct Hin as [<-|Hin].
    - exists k, p, sp, fed, subj. subst c. repeat split; auto; [left; reflexivity|lia].
    - destruct (IH Hin) as (j & p' & sp' & fed' & subj' & Hp & Hle & Hr'). exists j, p', sp', fed', subj'. split; [right; exact Hp|]. split; [lia|exact Hr'].
  Qed.
  (* ... and every selected entry appears in it *)
  Lemma in_cs_of k E sps creds p : built k E sps creds -> In p E ->
    exists j sp fed subj, k <= j /\ fed_w3c (pr_cred p) = ROk fed /\ prover_sub_proof pcfg_fixed R cx link j p fed = ROk sp /\ build_subject pcfg_fixed R p = ROk subj /\
      In ({| wc_issuer := hc_issuer (pr_cred p); wc_subject := subj; wc_method := hc_creddef (pr_cred p); wc_pv := Some (ident_of p, sp) |}, (ident_of p, sp)) (cs_of E sps creds).
  Proof.
    induction 1 as [|k p0 E sp sps c creds fed subj Hf Hs Hb Hc Hr IH]; intros Hin; [destruct Hin|].
    destruct Hin as [->|Hin].
    - exists k, sp, fed, subj. subst c. repeat split; auto; [lia|left; reflexivity].
    - destruct (IH Hin) as (j & sp' & fed' & subj' & Hle & A & B & C & D). exists j, sp', fed', subj'. repeat split; auto; [lia|right; exact D].
  Qed.
End Built.
