(* The sub-proofs handed to the CL layer by an accepting legacy run are exactly the
   presentation's proofs, in order, each with the key of the credential definition its
   identifier names. *)
From Coq Require Import List String ZArith NArith Bool Lia.
From AV Require Import Model.Str Model.Encode Model.Query Model.VTypes Model.Interval Model.Eval Model.CL
  Model.VerifierLegacy Model.VCfg Model.VProps Proofs.VMonad Proofs.VLegacyProofs.
Import ListNotations.
Open Scope string_scope.
Open Scope list_scope.
Open Scope Z_scope.

Definition sub_sp (x : cl_sub) : subproof := fst (fst (fst x)).
Definition sub_key (x : cl_sub) : N := snd (fst (fst x)).
Definition sub_attrs (x : cl_sub) : list string := snd (fst x).
Definition sub_reg (x : cl_sub) : option (N * N) := snd x.

Lemma indexed_nth {A} (l : list A) : forall i k x, 0 <= k -> nthZ l k = Some x -> nthZ (indexed i l) k = Some (i + k, x).
Proof.
  induction l as [|y r IH]; intros i k x Hk H; [discriminate|]. cbn [indexed].
  destruct (Z.eqb_spec k 0) as [->|Hne].
  - cbn in H. inversion H; subst. cbn. f_equal. f_equal. lia.
  - rewrite nthZ_cons_pos in H by lia. rewrite nthZ_cons_pos by lia.
    rewrite (IH (i + 1) (k - 1) x) by (try lia; exact H). f_equal. f_equal. lia.
Qed.
Lemma indexed_len {A} (l : list A) i : lenZ (indexed i l) = lenZ l.
Proof.
  unfold lenZ. f_equal. revert i. induction l as [|y r IH]; intros i; cbn [indexed List.length]; auto.
Qed.

Lemma Forall2_nthZ {A B} (Rel : A -> B -> Prop) l1 l2 : Forall2 Rel l1 l2 ->
  lenZ l1 = lenZ l2 /\ forall k a, nthZ l1 k = Some a -> exists b, nthZ l2 k = Some b /\ Rel a b.
Proof.
  induction 1 as [|a b l1 l2 Hab H IH]; [split; [reflexivity|intros k a H; discriminate]|].
  destruct IH as [IHl IHn]. split; [unfold lenZ in *; cbn [List.length]; lia|].
  intros k a' Hk. destruct (Z.eqb_spec k 0) as [->|Hne].
  - cbn in Hk. inversion Hk; subst. exists b. split; [reflexivity|exact Hab].
  - destruct (Z.ltb_spec k 0); [rewrite nthZ_neg in Hk by lia; discriminate|].
    rewrite nthZ_cons_pos in Hk by lia. destruct (IHn _ _ Hk) as (b' & Hb' & Hr).
    exists b'. split; [rewrite nthZ_cons_pos by lia; exact Hb'|exact Hr].
Qed.

Section S.
  Context (cfg : vcfg).

  Lemma add_sub_proof_shape cx regmap sp id x : add_sub_proof cfg cx regmap sp id = ROk x ->
    exists sc cd, assoc (id_schema id) (cx_schemas cx) = Some sc /\ assoc (id_creddef id) (cx_creddefs cx) = Some cd /\
      sub_sp x = sp /\ sub_key x = cd_key cd /\ sub_attrs x = map cv (sc_attrs sc) /\
      (cd_revkey cd = None -> sub_reg x = None).
  Proof.
    unfold add_sub_proof. intros H.
    apply bind_ok in H. destruct H as (sc & Hsc & H). apply of_opt_ok in Hsc.
    apply bind_ok in H. destruct H as (cd & Hcd & H). apply of_opt_ok in Hcd.
    apply bind_ok in H. destruct H as (reg & _ & H). apply bind_ok in H. destruct H as (u1 & _ & H).
    apply bind_ok in H. destruct H as (u2 & _ & H). apply bind_ok in H. destruct H as (u3 & _ & H).
    inversion H; subst x. exists sc, cd. unfold sub_sp, sub_key, sub_attrs, sub_reg. cbn [fst snd].
    repeat split; auto. intros ->. reflexivity.
  Qed.

  (* the k-th sub-proof handed to the CL layer is the k-th proof of the presentation, with the key
     of the credential definition the k-th identifier names *)
  Theorem accepted_subs R P cx regmap subs :
    loop_ids cfg R P cx regmap (p_ids P) 0 = ROk subs -> lenZ (p_proofs P) = lenZ subs ->
    map sub_sp subs = p_proofs P /\ lenZ (p_ids P) = lenZ subs /\
    forall k id x, nthZ (p_ids P) k = Some id -> nthZ subs k = Some x ->
      loop_fact cfg R P cx regmap k id x.
  Proof.
    intros Hl Hlen. apply (loop_ids_spec cfg) in Hl. apply Forall2_nthZ in Hl. destruct Hl as [Hlen2 Hn].
    rewrite indexed_len in Hlen2.
    assert (Hk : forall k id x, nthZ (p_ids P) k = Some id -> nthZ subs k = Some x -> loop_fact cfg R P cx regmap k id x).
    { intros k id x Hid Hx. assert (0 <= k). { destruct (Z.ltb_spec k 0); [rewrite nthZ_neg in Hid by lia; discriminate|lia]. }
      pose proof (indexed_nth (p_ids P) 0 k id H Hid) as Hi. destruct (Hn _ _ Hi) as (b & Hb & Hf).
      rewrite Hx in Hb. inversion Hb; subst b. cbn [fst snd] in Hf. replace (0 + k) with k in Hf by lia. exact Hf. }
    split; [|split; [exact Hlen2|exact Hk]].
    apply nthZ_ext. intros k. rewrite nthZ_map.
    destruct (nthZ subs k) as [x|] eqn:Ex; cbn [option_map].
    - assert (Hr : 0 <= k < lenZ subs) by (apply nthZ_some_iff; eauto).
      assert (Hid : exists id, nthZ (p_ids P) k = Some id) by (apply nthZ_some_iff; lia).
      destruct Hid as [id Hid]. destruct (Hk _ _ _ Hid Ex) as [sp cd local needed Hnth _ _ _ _ _ _ Hadd].
      apply add_sub_proof_shape in Hadd. destruct Hadd as (sc & cd' & _ & _ & Hsp & _). rewrite Hsp, Hnth. reflexivity.
    - symmetry. destruct (nthZ (p_proofs P) k) eqn:Ep; [|reflexivity].
      assert (0 <= k < lenZ (p_proofs P)) by (apply nthZ_some_iff; eauto).
      assert (Hs : exists x, nthZ subs k = Some x) by (apply nthZ_some_iff; lia). destruct Hs as [x Hx]. congruence.
  Qed.
End S.
