From Coq Require Import List String ZArith Bool Lia.
From AV Require Import Model.Sexp Model.RevList Model.CaseC09.
Import ListNotations.
Open Scope Z_scope.

Lemma bools_eqb_eq a b : bools_eqb a b = true -> a = b.
Proof.
  revert b. induction a as [|x a IH]; destruct b as [|y b]; simpl; try discriminate; auto.
  intros H. apply andb_prop in H. destruct H as [H1 H2]. apply Bool.eqb_prop in H1. f_equal; auto.
Qed.
Lemma optZ_eqb_eq a b : optZ_eqb a b = true -> a = b.
Proof. destruct a, b; simpl; try discriminate; auto. intros H. apply Z.eqb_eq in H. congruence. Qed.
Lemma state_matches_eq s b t : state_matches s b t = true -> bits s = b /\ ts s = t.
Proof. unfold state_matches. intros H. apply andb_prop in H. destruct H. split; [apply bools_eqb_eq|apply optZ_eqb_eq]; auto. Qed.

(* what a passing case says about the implementation's result of one update step *)
Lemma walk_upd s i v t res r obs o : walk s ((OUpd i v t, res) :: r) obs = Some o ->
  exists b t' c, res = RState b t' c true /\ bits (rsl_update s i v t) = b /\ ts (rsl_update s i v t) = t' /\
                 walk (rsl_update s i v t) r ((c, acc (rsl_update s i v t)) :: obs) = Some o.
Proof.
  cbn [walk]. destruct res as [b t' c u| | |]; try discriminate.
  destruct (state_matches _ b t' && u) eqn:E; [|discriminate]. apply andb_prop in E. destruct E as [E ->].
  apply state_matches_eq in E. destruct E as [E1 E2]. intros Hw. exists b, t', c. auto.
Qed.
Lemma walk_touch s t res r obs o : walk s ((OTouch t, res) :: r) obs = Some o ->
  exists b t' c, res = RState b t' c true /\ bits s = b /\ t' = Some t /\
                 walk (rsl_touch s t) r ((c, acc s) :: obs) = Some o.
Proof.
  cbn [walk]. destruct res as [b t' c u| | |]; try discriminate.
  destruct (state_matches _ b t' && u) eqn:E; [|discriminate]. apply andb_prop in E. destruct E as [E ->].
  apply state_matches_eq in E. destruct E as [E1 E2]. cbn [rsl_touch bits ts] in *. intros Hw. exists b, t', c. auto.
Qed.
Lemma walk_issue s i res r obs o : walk s ((OIssue i, res) :: r) obs = Some o ->
  match res with
  | RIssued c => exists a, issue_acc s i = Some a /\ walk s r ((c, a) :: obs) = Some o
  | RErr => issue_acc s i = None /\ walk s r obs = Some o
  | _ => False
  end.
Proof.
  cbn [walk]. destruct res as [b t' c u|c| |]; try discriminate.
  - destruct (issue_acc s i); [eauto|discriminate].
  - destruct (issue_acc s i); [discriminate|auto].
Qed.
Lemma classes_agree_spec n obs : classes_agree n obs = true ->
  forall k1 k2 c1 a1 c2 a2, (k1 < k2)%nat -> nth_error obs k1 = Some (c1, a1) -> nth_error obs k2 = Some (c2, a2) ->
  (c1 =? c2) = g_eqb n a1 a2.
Proof.
  induction obs as [|[c a] r IH]; intros H k1 k2 c1 a1 c2 a2 Hlt H1 H2; [destruct k1; discriminate|].
  cbn [classes_agree] in H. apply andb_prop in H. destruct H as [Hh Ht].
  destruct k1 as [|k1].
  - cbn in H1. inversion H1; subst. destruct k2 as [|k2]; [inversion Hlt|]. cbn in H2.
    rewrite forallb_forall in Hh. apply nth_error_In in H2. specialize (Hh _ H2). cbn [fst snd] in Hh.
    apply Bool.eqb_prop in Hh. exact Hh.
  - destruct k2 as [|k2]; [inversion Hlt|]. cbn in H1, H2. apply (IH Ht k1 k2 c1 a1 c2 a2); [lia|assumption|assumption].
Qed.

Lemma c09_transfer n bd t0 init steps : ok_C09 n bd t0 init steps = true ->
  exists b t c f obs, init = RState b t c f /\ bits (rsl_create n bd t0) = b /\ ts (rsl_create n bd t0) = t /\
    walk (rsl_create n bd t0) steps [(c, acc (rsl_create n bd t0))] = Some obs /\ classes_agree n obs = true.
Proof.
  unfold ok_C09. destruct init as [b t c f| | |]; try discriminate. intros H. apply andb_prop in H. destruct H as [H1 H2].
  apply state_matches_eq in H1. destruct H1. destruct (walk _ steps _) as [obs|] eqn:E; [|discriminate].
  exists b, t, c, f, obs. auto.
Qed.
