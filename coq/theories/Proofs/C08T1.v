From Coq Require Import List String ZArith NArith Bool Lia.
From AV Require Import Model.Str Model.Encode Model.Query Model.VTypes Model.Interval Model.Eval Model.CL
  Model.VerifierLegacy Model.VCfg Model.VProps Proofs.VMonad Proofs.C06S4.
Import ListNotations.
Open Scope string_scope.
Open Scope list_scope.
Open Scope Z_scope.

(* the same request with every non-revocation interval removed *)
Definition nonr_ai (ai : attr_info) : attr_info := {| ai_name := ai_name ai; ai_names := ai_names ai; ai_restr := ai_restr ai; ai_nr := None |}.
Definition nonr_pi (pi : pred_info) : pred_info :=
  {| pi_name := pi_name pi; pi_type := pi_type pi; pi_value := pi_value pi; pi_restr := pi_restr pi; pi_nr := None |}.
Definition nonr_req (R : request) : request :=
  {| rq_nonce := rq_nonce R; rq_attrs := map (fun x => (fst x, nonr_ai (snd x))) (rq_attrs R);
     rq_preds := map (fun x => (fst x, nonr_pi (snd x))) (rq_preds R); rq_nr := None |}.

Lemma iter_map {A B} (g : A -> B) (f : B -> res unit) l : iter f (map g l) = iter (fun x => f (g x)) l.
Proof. induction l as [|x r IH]; [reflexivity|]. cbn [map iter]. rewrite IH. reflexivity. Qed.
Lemma filter_map_comm {A B} (g : A -> B) (p : B -> bool) l : List.filter p (map g l) = map g (List.filter (fun x => p (g x)) l).
Proof. induction l as [|x r IH]; [reflexivity|]. cbn [map List.filter]. destruct (p (g x)); cbn [map]; rewrite IH; reflexivity. Qed.
Lemma flat_map_map {A B C} (g : A -> B) (f : B -> list C) l : flat_map f (map g l) = flat_map (fun x => f (g x)) l.
Proof. induction l as [|x r IH]; [reflexivity|]. cbn [map flat_map]. rewrite IH. reflexivity. Qed.
Lemma filter_ext' {A} (p q : A -> bool) l : (forall x, p x = q x) -> List.filter p l = List.filter q l.
Proof. intros H. induction l as [|x r IH]; [reflexivity|]. cbn [List.filter]. rewrite H, IH. reflexivity. Qed.
Lemma flat_map_ext' {A B} (f g : A -> list B) l : (forall x, f x = g x) -> flat_map f l = flat_map g l.
Proof. intros H. induction l as [|x r IH]; [reflexivity|]. cbn [flat_map]. rewrite H, IH. reflexivity. Qed.

Section NonR.
  Context (cfg : vcfg) (R : request) (P : presentation) (cx : ctx).

  Lemma nonr_compare : compare_referents (nonr_req R) P = compare_referents R P.
  Proof. unfold compare_referents, nonr_req. cbn [rq_attrs rq_preds]. rewrite !keys_map. reflexivity. Qed.

  Lemma nonr_values : check_revealed_values cfg (nonr_req R) P = check_revealed_values cfg R P.
  Proof.
    unfold check_revealed_values, nonr_req. cbn [rq_attrs]. apply bind_ext; [|intros _].
    - apply iter_ext. intros [r [[i raw] enc]] _. rewrite assoc_map. destruct (assoc r (rq_attrs R)); reflexivity.
    - apply iter_ext. intros [r [i vals]] _. apply bind_ext; [reflexivity|intros sp]. rewrite assoc_map. destruct (assoc r (rq_attrs R)); reflexivity.
  Qed.

  Lemma nonr_preds i sp : check_requested_preds cfg (nonr_req R) P i sp = check_requested_preds cfg R P i sp.
  Proof.
    unfold check_requested_preds, nonr_req. cbn [rq_preds]. destruct (f_check_preds cfg); [|reflexivity].
    apply iter_ext. intros r _. rewrite assoc_map. destruct (assoc r (rq_preds R)); reflexivity.
  Qed.

  Lemma nonr_unrev i id : check_unrevealed_names cfg (nonr_req R) P cx i id = check_unrevealed_names cfg R P cx i id.
  Proof.
    unfold check_unrevealed_names, nonr_req. cbn [rq_attrs]. destruct (f_unrev_in_schema cfg); [|reflexivity].
    apply bind_ext; [reflexivity|intros sc]. apply iter_ext. intros [r j] _. destruct (j =? i); [|reflexivity].
    rewrite assoc_map. destruct (assoc r (rq_attrs R)); reflexivity.
  Qed.

  Lemma nonr_restrictions a p : check_restrictions cfg (nonr_req R) P cx a p = check_restrictions cfg R P cx a p.
  Proof.
    unfold check_restrictions, nonr_req. cbn [rq_attrs rq_preds].
    rewrite !flat_map_map. cbn [snd nonr_ai nonr_pi ai_restr pi_restr].
    rewrite (flat_map_ext' (fun x : string * attr_info => let '(_, ai) := (fst x, nonr_ai (snd x)) in flat_map names (opt_list (ai_restr ai)))
                           (fun '(_, ai) => flat_map names (opt_list (ai_restr ai)))) by (intros [r ai]; reflexivity).
    rewrite (flat_map_ext' (fun x : string * pred_info => let '(_, pi) := (fst x, nonr_pi (snd x)) in flat_map names (opt_list (pi_restr pi)))
                           (fun '(_, pi) => flat_map names (opt_list (pi_restr pi)))) by (intros [r pi]; reflexivity).
    apply bind_ext; [reflexivity|intros _]. apply bind_ext; [reflexivity|intros _].
    rewrite filter_map_comm, iter_map, iter_map.
    rewrite (filter_ext' (fun x : string * attr_info => let '(r, ai) := (fst x, nonr_ai (snd x)) in negb (is_self_attested P r ai))
                         (fun '(r, ai) => negb (is_self_attested P r ai))) by (intros [r ai]; reflexivity).
    apply bind_ext; [|intros _].
    - apply iter_ext. intros [r ai] _. cbn [fst snd nonr_ai ai_restr ai_name ai_names]. reflexivity.
    - apply iter_ext. intros [r pi] _. cbn [fst snd nonr_pi pi_restr pi_name]. destruct (pi_restr pi); [|reflexivity].
      apply bind_ext; [reflexivity|intros id]. apply bind_ext; [reflexivity|intros f]. apply bind_ext; [reflexivity|intros idx].
      apply bind_ext; [|reflexivity].
      apply mapR_ext. intros [ar [[i raw] enc]] _. destruct (i =? idx); [|reflexivity].
      (* the filtered request list, looked up by referent *)
      assert (E : forall l, assoc ar (map (fun x : string * attr_info => (fst x, nonr_ai (snd x))) l) = option_map nonr_ai (assoc ar l)) by (intros l; apply assoc_map).
      rewrite E. destruct (assoc ar _); reflexivity.
  Qed.
End NonR.
