(* C02 / C08: what an accepting legacy run established about non-revocation, per credential. *)
From Coq Require Import List String ZArith NArith Bool Lia.
From AV Require Import Model.Str Model.Encode Model.Query Model.VTypes Model.Interval Model.Eval Model.CL
  Model.VerifierLegacy Model.VerifierW3C Model.VCfg Model.VProps
  Proofs.VMonad Proofs.VLegacyProofs Proofs.VLegacyStruct Proofs.VCLFacts Proofs.VLegacyMaster Proofs.VW3CMaster Proofs.VW3CSearch
  Proofs.IntervalProofs Proofs.C03Proofs Proofs.C01Proofs.
Import ListNotations.
Open Scope string_scope.
Open Scope list_scope.
Open Scope Z_scope.

Lemma indexed_in {A} (l : list A) : forall i k (x : A), In (k, x) (indexed i l) -> nthZ l (k - i) = Some x /\ i <= k.
Proof.
  induction l as [|y r IH]; intros i k x Hi; [destruct Hi|]. cbn [indexed] in Hi. destruct Hi as [E|Hi].
  - inversion E; subst. replace (k - k) with 0 by lia. split; [reflexivity|lia].
  - destruct (IH _ _ _ Hi) as [Hn Hle]. split; [|lia]. rewrite nthZ_cons_pos by lia. replace (k - i - 1) with (k - (i + 1)) by lia. exact Hn.
Qed.

Section C02.
  Context (cfg : vcfg).

  (* check_non_revoked_interval, repaired: exact characterisation *)
  Lemma interval_check_spec R cx cd local id b : f_gate_on_creddef cfg = true ->
    interval_check cfg R cx cd local id = ROk b ->
    match cd_revkey cd with
    | None => b = false
    | Some _ =>
        match (match local with Some l => Some l | None => rq_nr R end) with
        | None => b = false
        | Some iv0 => b = true /\ exists rid t, id_revreg id = Some rid /\ id_ts id = Some t /\
                       is_valid (ovr_for cx (Some rid) iv0) t = true
        end
    end.
  Proof.
    intros Hg. unfold interval_check. rewrite Hg. destruct (cd_revkey cd); [|intros H; inversion H; reflexivity].
    destruct (match local with Some l => Some l | None => rq_nr R end) as [iv0|]; [|intros H; inversion H; reflexivity].
    intros H. apply bind_ok in H. destruct H as (rid & Hrid & H). apply of_opt_ok in Hrid.
    apply bind_ok in H. destruct H as (t & Ht & H). apply of_opt_ok in Ht.
    apply bind_ok in H. destruct H as (u & Hv & H). apply guard_ok in Hv. inversion H; subst b.
    split; [reflexivity|]. exists rid, t. repeat split; auto.
  Qed.

  (* the registry handed to the CL layer for an identifier that names registry and timestamp *)
  Lemma add_sub_proof_reg cx regmap sp id x rid t : add_sub_proof cfg cx regmap sp id = ROk x ->
    id_revreg id = Some rid -> id_ts id = Some t ->
    exists cd defs m rk acc, assoc (id_creddef id) (cx_creddefs cx) = Some cd /\ cx_regdefs cx = Some defs /\ regmap = Some m /\
      assoc rid defs = Some rk /\ find_list m rid t = Some acc /\
      sub_reg x = match cd_revkey cd with Some _ => Some (rk, acc) | None => None end.
  Proof.
    unfold add_sub_proof. intros H Hr Ht. rewrite Hr, Ht in H.
    apply bind_ok in H. destruct H as (sc & _ & H). apply bind_ok in H. destruct H as (cd & Hcd & H). apply of_opt_ok in Hcd.
    apply bind_ok in H. destruct H as (reg & Hreg & H).
    apply bind_ok in Hreg. destruct Hreg as (defs & Hdefs & Hreg). apply of_opt_ok in Hdefs.
    apply bind_ok in Hreg. destruct Hreg as (m & Hm & Hreg). apply of_opt_ok in Hm.
    apply bind_ok in Hreg. destruct Hreg as (rk & Hrk & Hreg). apply of_opt_ok in Hrk.
    apply bind_ok in Hreg. destruct Hreg as (acc & Hacc & Hreg). apply of_opt_ok in Hacc. inversion Hreg; subst reg.
    apply bind_ok in H. destruct H as (u1 & _ & H). apply bind_ok in H. destruct H as (u2 & _ & H). apply bind_ok in H. destruct H as (u3 & _ & H).
    inversion H; subst x. exists cd, defs, m, rk, acc. unfold sub_reg. cbn [snd]. repeat split; auto.
  Qed.

  (* PARTIAL form of C02 for the legacy verifier: stated against the model's own collection of the
     local intervals (local_interval) and its own registry lookup (find_list over build_regmap);
     the full statement ok_C02 additionally identifies these with the property's independent
     definitions (tightest / list_at) *)
  Theorem legacy_accept_nonrevoked_partial R P cx :
    f_gate_on_creddef cfg = true -> f_require_nrp cfg = true ->
    verify_legacy cfg R P cx = Accept ->
    forall k id sp, nthZ (p_ids P) k = Some id -> nthZ (p_proofs P) k = Some sp ->
    forall cd, assoc (id_creddef id) (cx_creddefs cx) = Some cd -> cd_revkey cd <> None ->
    forall local, local_interval cfg R P k = ROk local ->
    forall iv0, (match local with Some l => Some l | None => rq_nr R end) = Some iv0 ->
    exists rid t n defs m rk acc,
      id_revreg id = Some rid /\ id_ts id = Some t /\ is_valid (ovr_for cx (Some rid) iv0) t = true /\
      sp_nrp sp = Some n /\ cx_regdefs cx = Some defs /\ build_regmap cx = ROk (Some m) /\
      assoc rid defs = Some rk /\ find_list m rid t = Some acc /\
      nrp_valid n = true /\ nrp_regkey n = rk /\ nrp_acc n = acc.
  Proof.
    intros Hg Hn H k id sp Hid Hsp cd Hcd Hrev local Hloc iv0 Hiv.
    apply (accepted_pairs cfg) in H. destruct H as (_ & _ & _ & _ & _ & Hpairs).
    destruct (Hpairs _ _ _ Hid Hsp) as [sc cd' reg regmap x _ Hcd' Hreg Hloop Hx Hcl].
    rewrite Hcd in Hcd'. inversion Hcd'; subst cd'.
    destruct Hloop as [sp' cd'' local' needed Hnth Hcd'' Hloc' Hivl Hnrp _ _ Hadd].
    rewrite Hcd in Hcd''. inversion Hcd''; subst cd''. assert (sp' = sp) by congruence. subst sp'.
    rewrite Hloc in Hloc'. inversion Hloc'; subst local'.
    pose proof (interval_check_spec _ _ _ _ _ _ Hg Hivl) as Hspec.
    destruct (cd_revkey cd) as [rkey|] eqn:Erk; [|congruence]. rewrite Hiv in Hspec.
    destruct Hspec as (-> & rid & t & Hrid & Ht & Hvalid).
    unfold require_nrp in Hnrp. rewrite Hn in Hnrp. cbn [negb orb] in Hnrp. apply guard_ok in Hnrp.
    destruct (sp_nrp sp) as [n|] eqn:En; [|discriminate].
    destruct (add_sub_proof_reg _ _ _ _ _ _ _ Hadd Hrid Ht) as (cd2 & defs & m & rk & acc & Hcd2 & Hdefs & Hm & Hrk & Hacc & Hsr).
    rewrite Hcd in Hcd2. inversion Hcd2; subst cd2. rewrite Erk in Hsr. subst x. unfold sub_reg in Hsr. cbn [snd] in Hsr. subst reg regmap.
    destruct Hcl as [_ _ _ _ _ _ _ Hnf _]. rewrite En in Hnf. destruct Hnf as (Hv & Hk & Ha).
    exists rid, t, n, defs, m, rk, acc. repeat split; auto.
  Qed.

  (* ---- the model's collection of local intervals is the property's "tightest combination" ---- *)
  Lemma mapR_assoc_flat {V W} (m : list (string * V)) (g : V -> W) refs xs :
    mapR (fun r => of_opt (assoc r m)) refs = ROk xs ->
    flat_map (fun r => match assoc r m with Some a => [g a] | None => [] end) refs = map g xs.
  Proof.
    revert xs. induction refs as [|r rest IH]; intros xs H; cbn [mapR] in H.
    - inversion H. reflexivity.
    - apply bind_ok in H. destruct H as (y & Hy & H). apply of_opt_ok in Hy. apply bind_ok in H. destruct H as (ys & Hys & H).
      inversion H; subst xs. cbn [flat_map map]. rewrite Hy. cbn [app]. f_equal. apply IH. exact Hys.
  Qed.

  Lemma local_is_tightest R P k local : f_unrev_intervals cfg = true ->
    local_interval cfg R P k = ROk local -> local = fold_left merge_opt (demands_legacy R P k) None.
  Proof.
    intros Hf. unfold local_interval, demands_legacy, served_attr_refs, served_pred_refs. rewrite Hf. intros H.
    apply bind_ok in H. destruct H as (ais & Ha & H). apply bind_ok in H. destruct H as (pis & Hp & H). inversion H; subst local.
    rewrite (mapR_assoc_flat _ ai_nr _ _ Ha), (mapR_assoc_flat _ pi_nr _ _ Hp).
    rewrite fold_merge_opt_app, (fold_merge_opt_map ai_nr), (fold_merge_opt_map pi_nr). reflexivity.
  Qed.

  (* ---- the model's registry lookup is the property's "status list supplied for (registry, timestamp)" ---- *)
  Lemma regmap_lists cx m : build_regmap cx = ROk (Some m) ->
    exists ls, cx_lists cx = Some ls /\
      Forall2 (fun (x : option string * option Z * option N) (y : string * Z * N) =>
                 x = (Some (fst (fst y)), Some (snd (fst y)), Some (snd y))) ls m.
  Proof.
    unfold build_regmap. destruct (cx_lists cx) as [ls|]; [|discriminate]. intros H.
    apply bind_ok in H. destruct H as (m' & Hm & H). inversion H; subst m'. exists ls. split; [reflexivity|].
    apply mapR_ok in Hm. induction Hm as [|[[i t] a] [[i' t'] a'] l1 l2 Hab Hr IH]; constructor; auto.
    destruct i, t, a; inversion Hab; subst. reflexivity.
  Qed.

  Lemma find_corr (l1 : list (option string * option Z * option N)) (l2 : list (string * Z * N)) rid t :
    Forall2 (fun x y => x = (Some (fst (fst y)), Some (snd (fst y)), Some (snd y))) l1 l2 ->
    match find (fun '(i, s, _) => match i, s with Some i', Some s' => String.eqb i' rid && (s' =? t) | _, _ => false end) l1 with
    | Some (_, _, a) => a
    | None => None
    end = option_map snd (find (fun '(i, ts, _) => String.eqb i rid && (ts =? t)) l2).
  Proof.
    induction 1 as [|x [[i' t'] a'] l1 l2 Hx Hr IH]; [reflexivity|]. cbn [fst snd] in Hx. subst x. cbn [find].
    destruct (String.eqb i' rid && (t' =? t)); [reflexivity|exact IH].
  Qed.

  Lemma list_at_find_list cx m rid t : build_regmap cx = ROk (Some m) ->
    list_at cx (Some rid) (Some t) = find_list m rid t.
  Proof.
    intros H. destruct (regmap_lists _ _ H) as (ls & Hls & Hf). unfold list_at, find_list. rewrite Hls.
    apply find_corr. apply Forall2_rev'. exact Hf.
  Qed.

  (* ---- C02, legacy form, full statement ---- *)
  Theorem c02_legacy R P cx :
    f_unrev_intervals cfg = true -> f_gate_on_creddef cfg = true -> f_require_nrp cfg = true ->
    verify_legacy cfg R P cx = Accept -> ok_C02 (CLegacy R P cx) Accept = true.
  Proof.
    intros Hu Hg Hn H. pose proof (accepted_pairs cfg _ _ _ H) as (Hlen & _ & _ & _ & _ & Hpairs).
    unfold ok_C02. cbn [is_accept negb orb case_request case_ctx case_subs]. apply forallb_forall.
    intros [k [id sp]] Hin. 
    assert (Hk : nthZ (p_ids P) k = Some id /\ nthZ (p_proofs P) k = Some sp).
    { destruct (indexed_in _ _ _ _ Hin) as [Hnth _]. replace (k - 0) with k in Hnth by lia. apply nthZ_combine in Hnth. exact Hnth. }
    destruct Hk as [Hid Hsp].
    unfold revocable. destruct (assoc (id_creddef id) (cx_creddefs cx)) as [cd|] eqn:Ecd; [|reflexivity].
    destruct (cd_revkey cd) as [rkey|] eqn:Erk; [|reflexivity]. cbn [negb orb].
    destruct (Hpairs _ _ _ Hid Hsp) as [sc cd' reg regmap x _ Hcd' _ Hloop _ _].
    rewrite Ecd in Hcd'. inversion Hcd'; subst cd'. destruct Hloop as [sp' cd'' local needed _ _ Hloc _ _ _ _ _].
    pose proof (local_is_tightest _ _ _ _ Hu Hloc) as Hl.
    unfold applies_gen, some_interval_applies, tightest, sub_locals. cbn [sub_locals_gen case_request]. rewrite andb_true_r. rewrite <- Hl.
    destruct (match local with Some m => Some m | None => rq_nr R end) as [iv0|] eqn:Eiv.
    2:{ reflexivity. }
    assert (Erev : cd_revkey cd <> None) by congruence.
    destruct (legacy_accept_nonrevoked_partial R P cx Hg Hn H k id sp Hid Hsp cd Ecd Erev local Hloc iv0 Eiv)
      as (rid & t & n & defs & m & rk & acc & Hrid & Ht & Hvalid & Hnrp & Hdefs & Hreg & Hrk & Hacc & Hv & Hk' & Ha).
    cbn [negb orb]. rewrite Hnrp, Ht, Hrid, (list_at_find_list _ _ _ _ Hreg), Hacc. unfold regkey_at. rewrite Hdefs, Hrk.
    rewrite Hv, Hk', Ha, !N.eqb_refl, Hvalid. reflexivity.
  Qed.

  (* ================= W3C ================= *)
  Notation wcase := (w3c_cred * (identifier * subproof))%type.

  Lemma ovr_for_as_override cx rid : exists m, forall iv, ovr_for cx (Some rid) iv = override m iv.
  Proof.
    unfold ovr_for. destruct (cx_override cx) as [maps|]; [destruct (assoc rid maps) as [m|]|].
    - exists m. reflexivity.
    - exists []. intros iv. rewrite override_nil. reflexivity.
    - exists []. intros iv. rewrite override_nil. reflexivity.
  Qed.

  Lemma fold_valid m t locals : (forall l, In (Some l) locals -> is_valid (override m l) t = true) ->
    forall acc, (forall a, acc = Some a -> is_valid (override m a) t = true) ->
    forall iv, fold_left merge_opt locals acc = Some iv -> is_valid (override m iv) t = true.
  Proof.
    induction locals as [|x r IH]; intros Hl acc Hacc iv H; cbn [fold_left] in H; [auto|].
    eapply IH; [intros l Hin; apply Hl; right; exact Hin| |exact H].
    intros a Ha. destruct acc as [a0|], x as [x0|]; cbn [merge_opt] in Ha; inversion Ha; subst.
    - apply D_subset_T; [apply Hacc; reflexivity|apply Hl; left; reflexivity].
    - apply Hacc. reflexivity.
    - apply Hl. left. reflexivity.
  Qed.

  Lemma mapR_in_out {A B} (f : A -> res B) l l' x y : mapR f l = ROk l' -> In x l -> f x = ROk y -> In y l'.
  Proof.
    intros H Hin Hy. apply mapR_ok in H. induction H as [|a b l1 l2 Hab H IH]; [destruct Hin|].
    destruct Hin as [<-|Hin]; [left; congruence|right; auto].
  Qed.
  Lemma in_concat_of {A} (l : list A) (ls : list (list A)) x : In l ls -> In x l -> In x (List.concat ls).
  Proof. intros H1 H2. apply in_concat. eauto. Qed.

  Lemma fold_none_all locals : fold_left merge_opt locals None = None -> forall D, In D locals -> D = None.
  Proof.
    assert (G : forall l acc, fold_left merge_opt l acc = None -> acc = None /\ forall D, In D l -> D = None).
    { induction l as [|x r IH]; intros acc H; cbn [fold_left] in H; [split; [exact H|intros D []]|].
      destruct (IH _ H) as [Ha Hr]. destruct acc, x; cbn [merge_opt] in Ha; try discriminate.
      split; [reflexivity|]. intros D [<-|Hin]; auto. }
    intros H. exact (proj2 (G _ _ H)).
  Qed.
  Lemma fold_some_in locals m : fold_left merge_opt locals None = Some m -> exists l, In (Some l) locals.
  Proof.
    assert (G : forall l acc m0, fold_left merge_opt l acc = Some m0 -> acc <> None \/ exists x, In (Some x) l).
    { induction l as [|x r IH]; intros acc m0 H; cbn [fold_left] in H; [left; congruence|].
      destruct (IH _ _ H) as [Ha|[y Hy]]; [|right; exists y; right; exact Hy].
      destruct acc; [left; discriminate|]. destruct x as [x0|]; [right; exists x0; left; reflexivity|cbn in Ha; congruence]. }
    intros H. destruct (G _ _ _ H) as [Hc|Hc]; [congruence|exact Hc].
  Qed.

  Lemma only_server_unique could sps i j sp' : only_server could sps i = true -> nthZ sps j = Some sp' -> could sp' = true -> j = i.
  Proof.
    unfold only_server. intros H Hj Hc. apply andb_prop in H. destruct H as [H _]. rewrite forallb_forall in H.
    assert (0 <= j). { destruct (Z.ltb_spec j 0); [rewrite nthZ_neg in Hj by lia; discriminate|lia]. }
    pose proof (indexed_nth sps 0 j sp' H0 Hj) as Hi. apply nthZ_In in Hi. specialize (H _ Hi). cbn [fst snd] in H.
    rewrite Hc in H. cbn [negb] in H. rewrite orb_false_r in H. apply Z.eqb_eq in H. lia.
  Qed.

  Theorem c02_w3c R P cx :
    f_gate_on_creddef cfg = true -> f_require_nrp cfg = true -> f_w3c_pred_cv cfg = true -> case_wf (CW3C R P cx) = true ->
    verify_w3c cfg R P cx = Accept -> ok_C02 (CW3C R P cx) Accept = true.
  Proof.
    intros Hg Hn Hpcv Hwf H. apply (verify_w3c_accept cfg) in H.
    destruct H as [cs a needs _ _ Hsubs _ Hdata _ _ _ _ _ Hpairs].
    unfold case_wf in Hwf. rewrite Hsubs, andb_true_r in Hwf. rewrite forallb_forall in Hwf.
    set (sps := map snd (map snd cs)).
    assert (Hsps : forall j sp', nthZ sps j = Some sp' -> exists c' id', nthZ cs j = Some (c', (id', sp'))).
    { intros j sp' Hj. unfold sps in Hj. rewrite map_map, nthZ_map in Hj. destruct (nthZ cs j) as [[c' [id' sp'']]|] eqn:E; [|discriminate].
      cbn in Hj. inversion Hj; subst. eauto. }
    assert (Hnormsp : forall j c' id' sp', nthZ cs j = Some (c', (id', sp')) -> sp_names_normalised sp' = true).
    { intros j c' id' sp' Hj. apply (Hwf (id', sp')). apply in_map_iff. exists (c', (id', sp')). split; [reflexivity|eapply nthZ_In; eauto]. }
    unfold check_request_data in Hdata.
    apply bind_ok in Hdata. destruct Hdata as (na & Hna & Hdata). apply bind_ok in Hdata. destruct Hdata as (np & Hnp & Hdata).
    apply bind_ok in Hdata. destruct Hdata as (u0 & _ & Hneeds). inversion Hneeds; subst needs. clear Hneeds.
    unfold ok_C02. cbn [is_accept negb orb case_request case_ctx]. rewrite Hsubs. apply forallb_forall.
    intros [i [id sp]] Hin. destruct (indexed_in _ _ _ _ Hin) as [Hnth _]. replace (i - 0) with i in Hnth by lia.
    rewrite nthZ_map in Hnth. destruct (nthZ cs i) as [[c [id0 sp0]]|] eqn:Ei; [|discriminate]. cbn in Hnth. inversion Hnth; subst id0 sp0. clear Hnth.
    unfold revocable. destruct (assoc (id_creddef id) (cx_creddefs cx)) as [cd|] eqn:Ecd; [|reflexivity].
    destruct (cd_revkey cd) as [rkey|] eqn:Erk; [|reflexivity]. cbn [negb orb].
    destruct (applies_gen false (CW3C R P cx) i) eqn:Eapp; [|reflexivity]. cbn [negb orb].
    unfold applies_gen, sub_locals_gen, some_interval_applies in Eapp. cbn [case_request] in Eapp. rewrite Hsubs in Eapp. fold sps in Eapp.
    apply andb_prop in Eapp. destruct Eapp as [Etight Hnonempty].
    unfold sub_locals, sub_locals_gen. rewrite Hsubs. fold sps.
    set (locals := w3c_must_locals R sps i) in *.
    destruct (tightest R locals) as [iv|] eqn:Et; [|discriminate]. clear Etight.
    destruct (Hpairs _ _ _ _ Ei) as [sc cd' reg regmap Hsc Hcd' Hreg Hadd Hnrp Hcl].
    rewrite Ecd in Hcd'. inversion Hcd'; subst cd'. clear Hcd'.
    (* every demand attributed to credential i was checked on credential i *)
    assert (Hdemand : forall D, In D locals -> exists b, interval_check cfg R cx cd D id = ROk b /\
              (b = true -> existsb (Z.eqb i) (List.concat na ++ List.concat np) = true)).
    { intros D HD. unfold locals, w3c_must_locals in HD. apply in_app_or in HD. destruct HD as [HD|HD].
      - apply in_flat_map in HD. destruct HD as ([r ai] & Hra & HD). cbn [snd] in HD.
        apply in_flat_map in HD. destruct HD as (n & Hn' & HD).
        destruct (only_server (could_serve_attr n) sps i) eqn:Eonly; [|destruct HD]. destruct HD as [<-|[]].
        destruct (mapR_in _ _ _ _ Hna Hra) as (lra & Hlra). pose proof (mapR_in_out _ _ _ _ _ Hna Hra Hlra) as Hlin.
        cbn beta iota in Hlra. apply bind_ok in Hlra. destruct Hlra as (l1 & Hl1 & Hlra). apply bind_ok in Hlra. destruct Hlra as (l2 & Hl2 & Hlra).
        inversion Hlra; subst lra. clear Hlra.
        (* the check of name n *)
        assert (Hchk : exists l, check_attribute cfg R cx cs n (ai_restr ai) (ai_nr ai) = ROk l /\ (forall z, In z l -> In z (l1 ++ l2))).
        { unfold names_of in Hn'. apply in_app_or in Hn'. destruct Hn' as [Hn'|Hn'].
          - destruct (ai_name ai) as [n0|]; [|destruct Hn']. destruct Hn' as [<-|[]]. exists l1. split; [exact Hl1|intros z Hz; apply in_or_app; left; exact Hz].
          - destruct (ai_names ai) as [ns|]; [|destruct Hn']. apply bind_ok in Hl2. destruct Hl2 as (ls & Hls & Hl2). inversion Hl2; subst l2.
            destruct (mapR_in _ _ _ _ Hls Hn') as (l' & Hl'). exists l'. split; [exact Hl'|].
            intros z Hz. apply in_or_app. right. eapply in_concat_of; [eapply mapR_in_out; eauto|exact Hz]. }
        destruct Hchk as (l & Hchk & Hsub).
        assert (Hserved : exists b, cred_conditions cfg R cx c id (ai_restr ai) (ai_nr ai) = Some b /\ l = need i b).
        { destruct (check_attribute_cases _ _ _ _ _ _ _ _ Hchk) as [[st Ef]|[st Eu]].
          - destruct (find_revealed_idx _ _ _ _ _ _ _ _ _ _ Ef) as (j & c' & id' & sp' & k & v & u & b & Hj & _ & Hga & Hv & Hcc & Hl).
            replace (j - 0) with j in Hj by lia.
            assert (Hcould : could_serve_attr n sp' = true).
            { unfold could_serve_attr. apply orb_true_intro. left.
              assert (Hcv : cv k = cv n).
              { unfold get_attribute in Hga. destruct (get_ci c' n) as [[k' v']|] eqn:Eci; [|discriminate].
                destruct (get_ci_cv _ _ _ _ Eci) as [_ Hc']. destruct v'; inversion Hga; subst; auto. }
              pose proof (reveals_of_verified _ _ _ _ (Hnormsp _ _ _ _ Hj) Hv) as Hr. unfold reveals in *. rewrite <- Hcv. exact Hr. }
            assert (Hjs : nthZ sps j = Some sp') by (unfold sps; rewrite map_map, nthZ_map, Hj; reflexivity).
            pose proof (only_server_unique _ _ _ _ _ Eonly Hjs Hcould) as ->. rewrite Ei in Hj. inversion Hj; subst c' id' sp'. eauto.
          - destruct (find_unrevealed_idx _ _ _ _ _ _ _ _ _ _ Eu) as (j & c' & id' & sp' & sc' & b & Hj & _ & Hsc' & He & Hcc & Hl).
            replace (j - 0) with j in Hj by lia.
            assert (Hcould : could_serve_attr n sp' = true).
            { unfold could_serve_attr. apply orb_true_intro. right.
              destruct (Hpairs _ _ _ _ Hj) as [sc2 cd2 reg2 rm2 Hsc2 _ _ _ _ Hcl2]. rewrite Hsc' in Hsc2. inversion Hsc2; subst sc2.
              destruct Hcl2 as [_ _ _ _ Hattrs _ _ _ _]. unfold holds_attr. eapply set_eqb_mem; [exact Hattrs|].
              apply existsb_exists in He. destruct He as (a0 & Ha0 & Heq). apply String.eqb_eq in Heq. apply mem_In. rewrite <- Heq. apply in_map. exact Ha0. }
            assert (Hjs : nthZ sps j = Some sp') by (unfold sps; rewrite map_map, nthZ_map, Hj; reflexivity).
            pose proof (only_server_unique _ _ _ _ _ Eonly Hjs Hcould) as ->. rewrite Ei in Hj. inversion Hj; subst c' id' sp'. eauto. }
        destruct Hserved as (b & Hcc & Hl). exists b. split.
        + unfold cred_conditions in Hcc. destruct (bind (cred_restrictions cfg cx c id (ai_restr ai)) _) as [b'| |] eqn:Eb; try discriminate.
          inversion Hcc; subst b'. apply bind_ok in Eb. destruct Eb as (u1 & _ & Eb). unfold cred_interval in Eb. rewrite Hg, Ecd in Eb. exact Eb.
        + intros ->. apply existsb_exists. exists i. split; [|apply Z.eqb_refl]. apply in_or_app. left.
          eapply in_concat_of; [exact Hlin|]. apply Hsub. rewrite Hl. left. reflexivity.
      - apply in_flat_map in HD. destruct HD as ([r pi] & Hrp & HD). cbn [snd] in HD.
        destruct (only_server (fun sp1 => proves_pred sp1 pi) sps i) eqn:Eonly; [|destruct HD]. destruct HD as [<-|[]].
        destruct (mapR_in _ _ _ _ Hnp Hrp) as (l & Hl). pose proof (mapR_in_out _ _ _ _ _ Hnp Hrp Hl) as Hlin. cbn beta iota in Hl.
        destruct (check_predicate_cases _ _ _ _ _ _ Hl) as [st Hfp].
        destruct (find_predicate_idx _ _ _ _ _ _ _ _ Hfp) as (j & c' & id' & sp' & k & b & Hj & _ & Hgp & He & Hcc & Hlb).
        replace (j - 0) with j in Hj by lia.
        assert (Hcould : proves_pred sp' pi = true).
        { unfold proves_pred. apply existsb_exists in He. destruct He as (p0 & Hp0 & Hpe). apply existsb_exists. exists p0. split; [exact Hp0|].
          rewrite pred_eqb_sym.
          assert (Hcv : cv k = cv (pi_name pi)).
          { unfold get_predicate in Hgp. destruct (get_ci c' (pi_name pi)) as [[k' v']|] eqn:Eci; [|discriminate].
            destruct (get_ci_cv _ _ _ _ Eci) as [_ Hc']. destruct v'; inversion Hgp; subst; auto. }
          rewrite Hpcv in Hpe. rewrite <- Hcv. exact Hpe. }
        assert (Hjs : nthZ sps j = Some sp') by (unfold sps; rewrite map_map, nthZ_map, Hj; reflexivity).
        pose proof (only_server_unique _ _ _ _ _ Eonly Hjs Hcould) as ->. rewrite Ei in Hj. inversion Hj; subst c' id' sp'.
        exists b. split.
        + unfold cred_conditions in Hcc. destruct (bind (cred_restrictions cfg cx c id (pi_restr pi)) _) as [b'| |] eqn:Eb; try discriminate.
          inversion Hcc; subst b'. apply bind_ok in Eb. destruct Eb as (u1 & _ & Eb). unfold cred_interval in Eb. rewrite Hg, Ecd in Eb. exact Eb.
        + intros ->. apply existsb_exists. exists i. split; [|apply Z.eqb_refl]. apply in_or_app. right.
          eapply in_concat_of; [exact Hlin|]. rewrite Hlb. left. reflexivity. }
    (* from one demand that is present: registry id, timestamp, and the need for a non-revocation proof *)
    assert (Hone : exists D iv0, In D locals /\ (match D with Some l => Some l | None => rq_nr R end) = Some iv0).
    { unfold tightest in Et. destruct (fold_left merge_opt locals None) as [m|] eqn:Ef.
      - destruct (fold_some_in _ _ Ef) as [l0 Hl0]. exists (Some l0), l0. auto.
      - destruct locals as [|D rest] eqn:El; [discriminate Hnonempty|]. exists D, iv.
        split; [left; reflexivity|]. rewrite (fold_none_all _ Ef D (or_introl eq_refl)). exact Et. }
    destruct Hone as (D1 & iv1 & HD1 & Hiv1). destruct (Hdemand _ HD1) as (b1 & Hb1 & Hneed1).
    pose proof (interval_check_spec _ _ _ _ _ _ Hg Hb1) as Hspec1. rewrite Erk, Hiv1 in Hspec1.
    destruct Hspec1 as (-> & rid & t & Hrid & Ht & _).
    (* the timestamp lies in the tightest combination *)
    assert (Hvalid : is_valid (ovr_for cx (Some rid) iv) t = true).
    { destruct (ovr_for_as_override cx rid) as [m Hm]. rewrite Hm.
      assert (Hall : forall l, In (Some l) locals -> is_valid (override m l) t = true).
      { intros l Hl. destruct (Hdemand _ Hl) as (b & Hb & _). pose proof (interval_check_spec _ _ _ _ _ _ Hg Hb) as Hs. rewrite Erk in Hs.
        destruct Hs as (_ & rid' & t' & Hrid' & Ht' & Hv). rewrite Hrid in Hrid'. rewrite Ht in Ht'. inversion Hrid'; inversion Ht'; subst. rewrite <- Hm. exact Hv. }
      unfold tightest in Et. destruct (fold_left merge_opt locals None) as [m0|] eqn:Ef.
      - inversion Et; subst m0. eapply fold_valid; [exact Hall| |exact Ef]. intros a0 Ha0; discriminate.
      - destruct locals as [|D rest] eqn:El; [discriminate Hnonempty|].
        pose proof (fold_none_all _ Ef D (or_introl eq_refl)) as ->.
        destruct (Hdemand None (or_introl eq_refl)) as (b & Hb & _). pose proof (interval_check_spec _ _ _ _ _ _ Hg Hb) as Hs. rewrite Erk, Et in Hs.
        destruct Hs as (_ & rid' & t' & Hrid' & Ht' & Hv). rewrite Hrid in Hrid'. rewrite Ht in Ht'. inversion Hrid'; inversion Ht'; subst. rewrite <- Hm. exact Hv. }
    (* non-revocation proof present and valid for the supplied list *)
    rewrite (Hneed1 eq_refl) in Hnrp. unfold require_nrp in Hnrp. rewrite Hn in Hnrp. cbn [negb orb] in Hnrp. apply guard_ok in Hnrp.
    destruct (sp_nrp sp) as [n|] eqn:En; [|discriminate].
    destruct (add_sub_proof_reg _ _ _ _ _ _ _ Hadd Hrid Ht) as (cd2 & defs & m & rk & acc & Hcd2 & Hdefs & Hm & Hrk & Hacc & Hsr).
    rewrite Ecd in Hcd2. inversion Hcd2; subst cd2. rewrite Erk in Hsr. unfold sub_reg in Hsr. cbn [snd] in Hsr. subst reg regmap.
    destruct Hcl as [_ _ _ _ _ _ _ Hnf _]. rewrite En in Hnf. destruct Hnf as (Hv & Hk' & Ha).
    rewrite Ht, Hrid, (list_at_find_list _ _ _ _ Hreg), Hacc. unfold regkey_at. rewrite Hdefs, Hrk.
    rewrite Hv, Hk', Ha, !N.eqb_refl, Hvalid. reflexivity.
  Qed.

  Theorem c02_model c :
    f_unrev_intervals cfg = true -> f_gate_on_creddef cfg = true -> f_require_nrp cfg = true -> f_w3c_pred_cv cfg = true ->
    case_wf c = true -> ok_C02 c (run_model cfg c) = true.
  Proof.
    intros H1 H2 H3 H4 Hwf. destruct c as [R P cx|R P cx]; cbn [run_model].
    - destruct (verify_legacy cfg R P cx) eqn:E; try reflexivity. apply c02_legacy; auto.
    - destruct (verify_w3c cfg R P cx) eqn:E; try reflexivity. apply c02_w3c; auto.
  Qed.
End C02.
