(* part 3: what the sub-proof of an entry reveals, and the value check of the verifier on the derived subject *)
From Coq Require Import List String Ascii ZArith NArith Bool Lia.
From AV Require Import Model.Str Model.Encode Model.Query Model.VTypes Model.Interval Model.Eval Model.CL Model.VerifierLegacy Model.VerifierW3C
  Model.VCfg Model.Prover Model.PProps Proofs.VMonad Proofs.C04F1 Proofs.C04F5 Proofs.C04F6 Proofs.C07Proofs Proofs.I32 Proofs.EncodeProofs.
From AV Require Import Proofs.C04W1 Proofs.C04W2.
Import ListNotations.
Local Open Scope string_scope.
Local Open Scope list_scope.
Local Open Scope Z_scope.

Definition enc_of (v : attr_value) : string := match v with VStr s => encode s | VNum z => z_to_string z | VBool _ => "" end.

Lemma fed_w3c_assoc_gen (l : list (string * attr_value)) : forall fed n k v,
  mapR (fun '(n, v) => match v with VStr s => ROk (cv n, encode s) | VNum z => ROk (cv n, z_to_string z) | VBool _ => RErr end) l = ROk fed ->
  find (fun kv => String.eqb (cv (fst kv)) (cv n)) l = Some (k, v) -> assoc (cv n) fed = Some (enc_of v) /\ (forall b, v <> VBool b).
Proof.
  induction l as [|[n0 v0] r IH]; intros fed n k v Hm Hf; [discriminate|].
  cbn [mapR] in Hm. apply bind_ok in Hm as ([k1 e1] & H1 & Hm). apply bind_ok in Hm as (fed' & Hr & Hm). inversion Hm; subst fed. clear Hm.
  cbn [find fst] in Hf. cbn [assoc].
  destruct (String.eqb_spec (cv n0) (cv n)) as [E|N].
  - inversion Hf; subst k v. destruct v0 as [s|z|b]; [| |discriminate]; inversion H1; subst k1 e1; rewrite E, String.eqb_refl; (split; [reflexivity|intros b; discriminate]).
  - assert (Hk1 : k1 = cv n0) by (destruct v0; inversion H1; reflexivity). subst k1.
    destruct (String.eqb_spec (cv n0) (cv n)) as [E'|_]; [contradiction|]. exact (IH _ _ _ _ Hr Hf).
Qed.
Lemma fed_w3c_assoc c fed n k v : fed_w3c c = ROk fed -> get_ci (as_w3c c) n = Some (k, v) ->
  assoc (cv n) fed = Some (enc_of v) /\ (forall b, v <> VBool b).
Proof. unfold fed_w3c, get_ci. cbn [as_w3c wc_subject]. apply fed_w3c_assoc_gen. Qed.

Lemma encode_enc_of v : (match v with VNum z => in_i32 z = true | _ => True end) -> (forall b, v <> VBool b) ->
  normalize_encoded (encode (value_to_string v)) = enc_of v.
Proof.
  intros Hr Hb. destruct v as [s|z|b]; cbn [value_to_string enc_of].
  - apply normalize_encode.
  - rewrite normalize_encode. apply encode_numeric. rewrite <- parse_i32_spec. apply parse_print_roundtrip. exact Hr.
  - elim (Hb b). reflexivity.
Qed.

(* prover_sub_proof, unpacked for any fed values *)
Lemma sub_inv_gen R cx link k p fed sp : prover_sub_proof pcfg_fixed R cx link k p fed = ROk sp ->
  exists sc cd ais pis,
    assoc (hc_schema (pr_cred p)) (cx_schemas cx) = Some sc /\ assoc (hc_creddef (pr_cred p)) (cx_creddefs cx) = Some cd /\
    Forall2 (fun r ai => assoc r (rq_attrs R) = Some ai) (map fst (List.filter snd (pr_attrs p))) ais /\
    Forall2 (fun r pi => assoc r (rq_preds R) = Some pi) (pr_preds p) pis /\
    exists nrpo, (hc_revreg (pr_cred p) = None -> nrpo = None) /\
      proved (hc_src (pr_cred p)) fed (map cv (sc_attrs sc)) (map cv (flat_map names_of ais))
             (map (fun pi => (cv (pi_name pi), pi_type pi, pi_value pi)) pis) nrpo link k sp.
Proof.
  unfold prover_sub_proof. intros H.
  apply bind_ok in H as (sc & Hsc & H). apply of_opt_ok in Hsc. apply bind_ok in H as (cd & Hcd & H). apply of_opt_ok in Hcd.
  apply bind_ok in H as (ais & Hais & H). apply bind_ok in H as (uis & Huis & H). apply bind_ok in H as (pis & Hpis & H).
  exists sc, cd, ais, pis. split; [exact Hsc|]. split; [exact Hcd|].
  assert (G : forall (A : Type) (m : list (string * A)) l l', mapR (fun r => of_opt (assoc r m)) l = ROk l' -> Forall2 (fun r a => assoc r m = Some a) l l').
  { intros A m l l' Hm. apply mapR_ok in Hm. induction Hm as [|x y l1 l2 Hxy HF IHF]; constructor; [apply of_opt_ok; exact Hxy|exact IHF]. }
  split; [exact (G _ _ _ _ Hais)|]. split; [exact (G _ _ _ _ Hpis)|].
  eexists. split; [|apply cl_prove_inv; exact H]. intros ->. reflexivity.
Qed.

Lemma cl_prove_shape src fed attrs names preds nrpo link pos sp : cl_prove src fed attrs names preds nrpo link pos = ROk sp ->
  sp_preds sp = preds /\ sp_nrp sp = nrpo /\ forallb (pred_holds fed) preds = true /\
  sp_src sp = {| src_key := src_key src; src_attrs := src_attrs src; src_values := src_values src;
                 src_cred_link := src_cred_link src; src_used_link := link; src_pos := pos;
                 src_altered := src_altered src || negb (values_agree fed (src_values src)) |}.
Proof.
  unfold cl_prove. intros H.
  apply bind_ok in H as (u1 & G1 & H). apply bind_ok in H as (rv & Hrv & H).
  apply bind_ok in H as (u2 & G2 & H). apply bind_ok in H as (u3 & G3 & H).
  apply bind_ok in H as (u4 & G4 & H). apply guard_ok in G4. apply bind_ok in H as (u5 & G5 & H). inversion H; subst sp. cbn. auto.
Qed.

(* the non-revocation part of the sub-proof of an entry, as the prover decides it *)
Lemma fold_merge_some {A} (f : A -> option interval) l : forall acc,
  (acc <> None \/ exists x, In x l /\ f x <> None) -> fold_left (fun a x => merge_opt a (f x)) l acc <> None.
Proof.
  induction l as [|y r IH]; intros acc H; cbn [fold_left].
  - destruct H as [H|(x & [] & _)]. exact H.
  - apply IH. destruct H as [H|(x & [->|Hin] & Hx)].
    + left. destruct acc as [a|]; [|elim H; reflexivity]. destruct (f y); discriminate.
    + left. destruct acc as [a|], (f x) as [b|]; try discriminate. elim Hx. reflexivity.
    + right. exists x. auto.
Qed.
Lemma sub_inv_nrp R cx link k p fed sp : prover_sub_proof pcfg_fixed R cx link k p fed = ROk sp ->
  exists ais uis pis,
    Forall2 (fun r ai => assoc r (rq_attrs R) = Some ai) (map fst (List.filter snd (pr_attrs p))) ais /\
    Forall2 (fun r ai => assoc r (rq_attrs R) = Some ai) (map fst (List.filter (fun x => negb (snd x)) (pr_attrs p))) uis /\
    Forall2 (fun r pi => assoc r (rq_preds R) = Some pi) (pr_preds p) pis /\
    sp_nrp sp =
      match (match hc_revreg (pr_cred p) with
             | Some _ => match merge_opt (merge_opt (fold_left (fun acc ai => merge_opt acc (ai_nr ai)) ais None)
                                                    (fold_left (fun acc ai => merge_opt acc (ai_nr ai)) uis None))
                                         (fold_left (fun acc pi => merge_opt acc (pi_nr pi)) pis None) with
                         | Some l => Some l | None => rq_nr R end
             | None => None end) with
      | Some _ => pr_state p | None => None end.
Proof.
  unfold prover_sub_proof. intros H.
  apply bind_ok in H as (sc & Hsc & H). apply bind_ok in H as (cd & Hcd & H).
  apply bind_ok in H as (ais & Hais & H). apply bind_ok in H as (uis & Huis & H). apply bind_ok in H as (pis & Hpis & H).
  exists ais, uis, pis.
  assert (G : forall (A : Type) (m : list (string * A)) l l', mapR (fun r => of_opt (assoc r m)) l = ROk l' -> Forall2 (fun r a => assoc r m = Some a) l l').
  { intros A m l l' Hm. apply mapR_ok in Hm. induction Hm as [|x y l1 l2 Hxy HF IHF]; constructor; [apply of_opt_ok; exact Hxy|exact IHF]. }
  split; [exact (G _ _ _ _ Hais)|]. split; [cbn [pf_unrev_intervals pcfg_fixed] in Huis; exact (G _ _ _ _ Huis)|]. split; [exact (G _ _ _ _ Hpis)|].
  destruct (cl_prove_shape _ _ _ _ _ _ _ _ _ H) as (_ & Hn & _). exact Hn.
Qed.
