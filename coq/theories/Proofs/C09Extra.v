(* C09, further consequences: the registry never grows or shrinks; requests that cannot change
   an entry leave the whole list (entries and accumulator) as it was; issued/revoked requests
   act as sets (order and repetition of the indices inside one request do not matter). *)
From Coq Require Import List ZArith Bool Lia.
From AV Require Import Model.RevList Proofs.RevListProofs.
Import ListNotations.
Open Scope Z_scope.

(* ---- size ---- *)
Lemma step_len s u : lenZ (bits (rsl_step s u)) = lenZ (bits s).
Proof. destruct u as [i r t|t]; cbn [rsl_step]; [apply update_len|reflexivity]. Qed.

Theorem run_len s h : lenZ (bits (rsl_run s h)) = lenZ (bits s).
Proof.
  unfold rsl_run. revert s. induction h as [|u r IH]; intros s; cbn [fold_left]; [reflexivity|].
  rewrite IH. apply step_len.
Qed.

(* ---- lists are determined by their entries ---- *)
Lemma nthZ_zero {A} (a : A) l : nthZ (a :: l) 0 = Some a.
Proof. reflexivity. Qed.

Lemma nthZ_succ {A} (a : A) l i : 0 <= i -> nthZ (a :: l) (i + 1) = nthZ l i.
Proof.
  intros Hi. cbn [nthZ]. destruct (Z.eqb_spec (i + 1) 0) as [E|E]; [lia|].
  destruct (Z.ltb_spec (i + 1) 0); [lia|]. f_equal. lia.
Qed.

Lemma nthZ_ext {A} (l1 l2 : list A) : (forall i, nthZ l1 i = nthZ l2 i) -> l1 = l2.
Proof.
  revert l2. induction l1 as [|a l1 IH]; intros l2 H.
  - destruct l2 as [|b l2]; [reflexivity|]. specialize (H 0). rewrite nthZ_zero in H. discriminate H.
  - destruct l2 as [|b l2].
    + specialize (H 0). rewrite nthZ_zero in H. discriminate H.
    + assert (a = b) as -> by (specialize (H 0); rewrite !nthZ_zero in H; congruence).
      f_equal. apply IH. intros i.
      destruct (Z.ltb_spec i 0) as [Hn|Hn]; [rewrite !nthZ_neg by exact Hn; reflexivity|].
      specialize (H (i + 1)). rewrite !nthZ_succ in H by exact Hn. exact H.
Qed.

(* ---- requests act as sets ---- *)
Lemma memZ_ext l1 l2 : (forall i, In i l1 <-> In i l2) -> forall i, memZ i l1 = memZ i l2.
Proof.
  intros H i. destruct (memZ i l1) eqn:E1, (memZ i l2) eqn:E2; try reflexivity.
  - apply memZ_In, H, memZ_In in E1. congruence.
  - apply memZ_In, H, memZ_In in E2. congruence.
Qed.

Theorem update_bits_sets s iss rev iss' rev' t t' :
  (forall i, In i iss <-> In i iss') -> (forall i, In i rev <-> In i rev') ->
  bits (rsl_update s iss rev t) = bits (rsl_update s iss' rev' t').
Proof.
  intros Hi Hr. apply nthZ_ext. intros i. rewrite !update_bit.
  destruct (nthZ (bits s) i) as [b|]; [|reflexivity]. cbn [option_map]. unfold spec_bit.
  rewrite (memZ_ext _ _ Hi), (memZ_ext _ _ Hr). reflexivity.
Qed.

Theorem update_acc_sets s iss rev iss' rev' t t' (off : G) :
  (forall x, acc s x = acc_of_bits (bits s) x + off x) ->
  (forall i, In i iss <-> In i iss') -> (forall i, In i rev <-> In i rev') ->
  forall x, acc (rsl_update s iss rev t) x = acc (rsl_update s iss' rev' t') x.
Proof.
  intros H Hi Hr x.
  rewrite (update_acc_inv s iss rev t off H), (update_acc_inv s iss' rev' t' off H).
  rewrite (update_bits_sets s iss rev iss' rev' t t' Hi Hr). reflexivity.
Qed.

(* ---- requests that cannot change an entry are ignored altogether ---- *)
Definition noop_request (s : rsl) (iss rev : list Z) : Prop :=
  (forall i, In i iss -> nthZ (bits s) i = Some false \/ nthZ (bits s) i = None) /\
  (forall i, In i rev -> nthZ (bits s) i = Some true \/ nthZ (bits s) i = None).

Lemma memZ_nil l : (forall x, memZ x l = false) -> l = [].
Proof.
  destruct l as [|a l]; [reflexivity|]. intros H. specialize (H a).
  unfold memZ in H. cbn [existsb] in H. rewrite Z.eqb_refl in H. discriminate H.
Qed.

Lemma noop_eff s iss rev : noop_request s iss rev -> eff_issued s iss = [] /\ eff_revoked s rev = [].
Proof.
  intros [Hi Hr]. split; apply memZ_nil; intros x.
  - unfold eff_issued. rewrite memZ_filter, memZ_dedup. destruct (memZ x iss) eqn:M; [|reflexivity].
    apply memZ_In in M. destruct (Hi x M) as [E|E]; rewrite E; reflexivity.
  - unfold eff_revoked. rewrite memZ_filter, memZ_dedup. destruct (memZ x rev) eqn:M; [|reflexivity].
    apply memZ_In in M. destruct (Hr x M) as [E|E]; rewrite E; reflexivity.
Qed.

Theorem noop_update_ignored s iss rev t : noop_request s iss rev ->
  bits (rsl_update s iss rev t) = bits s /\
  (forall x, acc (rsl_update s iss rev t) x = acc s x) /\
  ts (rsl_update s iss rev t) = match t with Some x => Some x | None => ts s end.
Proof.
  intros H. destruct (noop_eff s iss rev H) as [Ei Er].
  cbn [rsl_update bits acc ts]. rewrite Ei, Er. cbn [set_all fold_left gsum fold_right].
  split; [reflexivity|]. split; [|reflexivity]. intros x. unfold gsub, gadd, gzero. lia.
Qed.

(* inhabited: index 2 is already issued, index 1 already revoked, index 9 is outside a registry of 4 *)
Example noop_request_inhabited :
  let s := rsl_update (rsl_create 4 false None) [2] [] None in
  noop_request s [2; 9; 2] [1; 9] /\ bits s = [true; true; false; true].
Proof.
  cbv zeta. split; [|vm_compute; reflexivity]. split; intros i Hin; cbn [In] in Hin.
  - destruct Hin as [<-|[<-|[<-|[]]]]; vm_compute; auto.
  - destruct Hin as [<-|[<-|[]]]; vm_compute; auto.
Qed.
