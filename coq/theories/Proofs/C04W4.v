(* part 4 (revocation class): the class unfolded; demands are met; non-revocation parts are where the verifier needs them;
   every referent is served *)
From Coq Require Import List String Ascii ZArith NArith Bool Lia.
From AV Require Import Model.Str Model.Encode Model.Query Model.VTypes Model.Interval Model.Eval Model.CL Model.VerifierLegacy Model.VerifierW3C
  Model.VCfg Model.VProps Model.Prover Model.PProps Proofs.VMonad Proofs.C04F1 Proofs.C04F3 Proofs.C04F4 Proofs.C04F5 Proofs.C04F6 Proofs.C04F8 Proofs.C07Proofs
  Proofs.VW3CC1 Proofs.VW3CC2 Proofs.VW3CC3.
From AV Require Import Proofs.C04W1 Proofs.C04W2 Proofs.C04W3.
Import ListNotations.
Local Open Scope string_scope.
Local Open Scope list_scope.
Local Open Scope Z_scope.

Lemma ovr_of_for cx rid iv : ovr_of cx rid iv = ovr_for cx (Some rid) iv.
Proof. unfold ovr_of, ovr_for. destruct (cx_override cx); reflexivity. Qed.

Section Rev.
  Context (R : request) (cx : ctx) (link : N) (ps : list present) (P : w3c_pres).
  Notation E := (nonempty ps).
  Notation c0 := (mk_case R cx link ps []).
  Context (Hclass : w3c_rev_r c0 = true).

  Lemma class_cov : coverage c0 = true.
  Proof. unfold w3c_rev_r in Hclass. rewrite !andb_true_iff in Hclass. tauto. Qed.
  Lemma class_entry p : In p E -> w3c_rev_entry c0 p = true.
  Proof.
    unfold w3c_rev_r in Hclass. rewrite !andb_true_iff in Hclass. destruct Hclass as [[[_ _] H] _].
    cbn [pc_sel mk_case] in H. rewrite forallb_forall in H. exact (H p).
  Qed.
  Lemma class_regmap : exists regmap, build_regmap cx = ROk regmap.
  Proof.
    unfold w3c_rev_r in Hclass. rewrite !andb_true_iff in Hclass. destruct Hclass as [_ H]. cbn [pc_cx mk_case] in H.
    destruct (build_regmap cx); [eauto|discriminate|discriminate].
  Qed.

  Inductive entry_ok (p : present) : Prop :=
  | EntryOk (eo_sc : schema) (eo_cd : creddef) (eo_fed : list (string * string))
      (eo_schema : assoc (hc_schema (pr_cred p)) (cx_schemas cx) = Some eo_sc)
      (eo_creddef : assoc (hc_creddef (pr_cred p)) (cx_creddefs cx) = Some eo_cd)
      (eo_issuer : cd_issuer eo_cd = hc_issuer (pr_cred p))
      (eo_key : cd_key eo_cd = src_key (hc_src (pr_cred p)))
      (eo_rev : Bool.eqb (is_some (cd_revkey eo_cd)) (is_some (hc_revreg (pr_cred p))) = true)
      (eo_attrs : set_eqb (src_attrs (hc_src (pr_cred p))) (map cv (sc_attrs eo_sc)) = true)
      (eo_unaltered : src_altered (hc_src (pr_cred p)) = false)
      (eo_link : src_cred_link (hc_src (pr_cred p)) = link)
      (eo_fedw : fed_w3c (pr_cred p) = ROk eo_fed)
      (eo_agree : values_agree eo_fed (src_values (hc_src (pr_cred p))) = true)
      (eo_plain : subject_plain (hc_subject (pr_cred p)) = true)
      (eo_held : names_held c0 p = true)
      (eo_revok : rev_ok_w3c c0 p = true).
  Lemma entry_facts_w p : In p E -> entry_ok p.
  Proof.
    intros Hp. pose proof (class_entry p Hp) as H. unfold w3c_rev_entry in H. rewrite !andb_true_iff in H.
    destruct H as [[[Hh Hheld] Hplain] Hrev].
    unfold cred_honest in Hh. cbn [pc_cx pc_link mk_case] in Hh. rewrite !andb_true_iff in Hh.
    destruct Hh as [[[[[Halt Hl] Hcd] Hag] Hagw] _].
    destruct (assoc (hc_creddef (pr_cred p)) (cx_creddefs cx)) as [cd|] eqn:Ecd; [|discriminate].
    destruct (assoc (hc_schema (pr_cred p)) (cx_schemas cx)) as [sc|] eqn:Esc; [|discriminate].
    rewrite !andb_true_iff in Hcd. destruct Hcd as [[[[Hk _] Hi] Ha] Hr].
    destruct (fed_w3c (pr_cred p)) as [fed| |] eqn:Ef; try discriminate.
    apply N.eqb_eq in Hk. apply String.eqb_eq in Hi. apply N.eqb_eq in Hl. apply negb_true_iff in Halt.
    exact (EntryOk p sc cd fed Esc Ecd Hi Hk Hr Ha Halt Hl Ef Hagw Hplain Hheld Hrev).
  Qed.

  (* the demand of a referent served by p is among the demands rev_ok_w3c speaks of *)
  Lemma demand_in_attr p r b ai iv : In (r, b) (pr_attrs p) -> assoc r (rq_attrs R) = Some ai -> demand R (ai_nr ai) = Some iv ->
    In iv (entry_intervals_w3c R p).
  Proof.
    intros Hrb Has Hd. unfold entry_intervals_w3c. apply in_flat_map. exists (ai_nr ai). split.
    - unfold entry_infos. apply in_or_app. left. apply in_flat_map. exists (r, b). split; [exact Hrb|]. cbn beta iota. rewrite Has. left. reflexivity.
    - unfold demand in Hd. rewrite Hd. left. reflexivity.
  Qed.
  Lemma demand_in_pred p r pi iv : In r (pr_preds p) -> assoc r (rq_preds R) = Some pi -> demand R (pi_nr pi) = Some iv ->
    In iv (entry_intervals_w3c R p).
  Proof.
    intros Hr Has Hd. unfold entry_intervals_w3c. apply in_flat_map. exists (pi_nr pi). split.
    - unfold entry_infos. apply in_or_app. right. apply in_flat_map. exists r. split; [exact Hr|]. rewrite Has. left. reflexivity.
    - unfold demand in Hd. rewrite Hd. left. reflexivity.
  Qed.

  (* what rev_ok_w3c gives for an entry that has a demand *)
  Inductive rev_facts (p : present) (iv : interval) : Prop :=
  | RevFacts (rf_rid : string)
      (rf_t : Z)
      (rf_n : nrp)
      (rf_defs : list (string * N))
      (rf_m : list (string * Z * N))
      (rf_rk : N)
      (rf_acc : N)
      (rf_revreg : hc_revreg (pr_cred p) = Some rf_rid)
      (rf_ts : pr_ts p = Some rf_t)
      (rf_state : pr_state p = Some rf_n)
      (rf_regdefs : cx_regdefs cx = Some rf_defs)
      (rf_regmap : build_regmap cx = ROk (Some rf_m))
      (rf_key : assoc rf_rid rf_defs = Some rf_rk)
      (rf_list : find_list rf_m rf_rid rf_t = Some rf_acc)
      (rf_valid : is_valid (ovr_for cx (Some rf_rid) iv) rf_t = true)
      (rf_nrp : nrp_valid rf_n = true /\ nrp_regkey rf_n = rf_rk /\ nrp_acc rf_n = rf_acc).
  Lemma rev_facts_of p iv rid : In p E -> hc_revreg (pr_cred p) = Some rid -> In iv (entry_intervals_w3c R p) -> rev_facts p iv.
  Proof.
    intros Hp Hrid Hin. destruct (entry_facts_w p Hp) as [sc cd fed Hsc Hcd Hi Hk Hr Ha Halt Hl Hfw Hag Hpl Hheld Hrev].
    unfold rev_ok_w3c, rev_ok in Hrev. cbn [pc_cx pc_req mk_case] in Hrev. rewrite Hrid in Hrev.
    destruct (pr_ts p) as [t|] eqn:Et; destruct (pr_state p) as [n|] eqn:En; try discriminate.
    - destruct (cx_regdefs cx) as [defs|] eqn:Ed; [|discriminate]. destruct (build_regmap cx) as [[m|]| |] eqn:Em; try discriminate.
      destruct (assoc rid defs) as [rk|] eqn:Erk; [|discriminate]. destruct (find_list m rid t) as [acc|] eqn:Eacc; [|discriminate].
      destruct (entry_intervals_w3c R p) as [|d ds] eqn:Edem; [destruct Hin|]. rewrite !andb_true_iff in Hrev. destruct Hrev as [[[Hv Hnv] Hnk] Hna].
      rewrite forallb_forall in Hv. specialize (Hv _ Hin). rewrite ovr_of_for in Hv. apply N.eqb_eq in Hnk. apply N.eqb_eq in Hna.
      exact (RevFacts p iv rid t n defs m rk acc Hrid Et En Ed Em Erk Eacc Hv (conj Hnv (conj Hnk Hna))).
    - destruct (entry_intervals_w3c R p); [destruct Hin|discriminate].
  Qed.

  Lemma demand_met_attr p r b ai : In p E -> In (r, b) (pr_attrs p) -> assoc r (rq_attrs R) = Some ai -> demand_met R cx (ident_of p) (ai_nr ai).
  Proof.
    intros Hp Hrb Has. destruct (entry_facts_w p Hp) as [sc cd fed Hsc Hcd Hi Hk Hr].
    unfold demand_met. cbn [ident_of id_creddef id_revreg id_ts]. rewrite Hcd.
    destruct (cd_revkey cd) as [rk|] eqn:Erk; [|exact I]. destruct (demand R (ai_nr ai)) as [iv|] eqn:Ed; [|exact I].
    cbn [is_some] in Hr. destruct (hc_revreg (pr_cred p)) as [rid|] eqn:Erid; [|discriminate].
    destruct (rev_facts_of p iv rid Hp Erid (demand_in_attr p r b ai iv Hrb Has Ed)) as [rid' t n defs m rk' acc Hrid' Hts Hst Hdefs Hm Hrk' Hacc Hv Hn].
    rewrite Erid in Hrid'. inversion Hrid'; subst rid'. rewrite Hts. exact Hv.
  Qed.
  Lemma demand_met_pred p r pi : In p E -> In r (pr_preds p) -> assoc r (rq_preds R) = Some pi -> demand_met R cx (ident_of p) (pi_nr pi).
  Proof.
    intros Hp Hr0 Has. destruct (entry_facts_w p Hp) as [sc cd fed Hsc Hcd Hi Hk Hr].
    unfold demand_met. cbn [ident_of id_creddef id_revreg id_ts]. rewrite Hcd.
    destruct (cd_revkey cd) as [rk|] eqn:Erk; [|exact I]. destruct (demand R (pi_nr pi)) as [iv|] eqn:Ed; [|exact I].
    cbn [is_some] in Hr. destruct (hc_revreg (pr_cred p)) as [rid|] eqn:Erid; [|discriminate].
    destruct (rev_facts_of p iv rid Hp Erid (demand_in_pred p r pi iv Hr0 Has Ed)) as [rid' t n defs m rk' acc Hrid' Hts Hst Hdefs Hm Hrk' Hacc Hv Hn].
    rewrite Erid in Hrid'. inversion Hrid'; subst rid'. rewrite Hts. exact Hv.
  Qed.
End Rev.
