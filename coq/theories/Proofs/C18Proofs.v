(* C18: every schedule of the store machine is linearizable against the sequential map. *)
From Coq Require Import List Arith Bool Lia.
From AV Require Import Model.Store Generated.Consts.
Import ListNotations.

Record Inv (c : cfg) (s : sstate) : Prop := {
  I_run : spec_run s0 (lin c) s;
  I_map : smap s = store c;
  I_iss : forall h, In h (issued s) -> 1 <= h <= ctr c;
  I_pend : forall tid h o, pend (thr c tid) = Some (h, o) -> 1 <= h <= ctr c /\ ~ In h (issued s);
  I_uniq : forall t1 t2 h o1 o2, pend (thr c t1) = Some (h, o1) -> pend (thr c t2) = Some (h, o2) -> t1 = t2 }.

Lemma upd_same f tid t : upd f tid t tid = t.
Proof. unfold upd. rewrite Nat.eqb_refl. reflexivity. Qed.
Lemma upd_other f tid t x : x <> tid -> upd f tid t x = f x.
Proof. unfold upd. intros H. destruct (Nat.eqb_spec x tid); [contradiction|reflexivity]. Qed.

Lemma step_inv c s tid : Inv c s -> exists s', Inv (step c tid) s'.
Proof.
  intros [Hrun Hmap Hiss Hpend Huniq]. unfold step.
  destruct (pend (thr c tid)) as [[h o]|] eqn:Ep.
  - (* insert *)
    destruct (Hpend tid h o Ep) as [Hr Hni].
    exists {| issued := h :: issued s; smap := (h, o) :: smap s |}. constructor; cbn [ctr store thr lin issued smap].
    + eapply RSnoc; [exact Hrun|]. apply SCreate; [lia|exact Hni].
    + rewrite Hmap. reflexivity.
    + intros h' [<-|Hin]; [exact Hr|apply Hiss; exact Hin].
    + intros x h' o' Hx. destruct (Nat.eq_dec x tid) as [->|Hne].
      * rewrite upd_same in Hx. discriminate.
      * rewrite upd_other in Hx by exact Hne. destruct (Hpend x h' o' Hx) as [A B]. split; [exact A|].
        intros [<-|Hin]; [|exact (B Hin)]. apply Hne. eapply Huniq; eauto.
    + intros t1 t2 h' o1 o2 H1 H2.
      destruct (Nat.eq_dec t1 tid) as [->|N1]; [rewrite upd_same in H1; discriminate|].
      destruct (Nat.eq_dec t2 tid) as [->|N2]; [rewrite upd_same in H2; discriminate|].
      rewrite upd_other in H1, H2 by assumption. eapply Huniq; eauto.
  - destruct (todo (thr c tid)) as [|[o|h ty|h] r] eqn:Et.
    + exists s. constructor; assumption.
    + (* fetch_add *)
      exists s. constructor; cbn [ctr store thr lin].
      * exact Hrun.
      * exact Hmap.
      * intros h Hin. specialize (Hiss h Hin). lia.
      * intros x h' o' Hx. destruct (Nat.eq_dec x tid) as [->|Hne].
        -- rewrite upd_same in Hx. cbn in Hx. inversion Hx; subst. split; [lia|]. intros Hin. specialize (Hiss _ Hin). lia.
        -- rewrite upd_other in Hx by exact Hne. destruct (Hpend x h' o' Hx). split; [lia|assumption].
      * intros t1 t2 h' o1 o2 H1 H2.
        destruct (Nat.eq_dec t1 tid) as [->|N1], (Nat.eq_dec t2 tid) as [->|N2]; try reflexivity.
        -- rewrite upd_same in H1. rewrite upd_other in H2 by assumption. cbn in H1. inversion H1; subst. destruct (Hpend _ _ _ H2). lia.
        -- rewrite upd_same in H2. rewrite upd_other in H1 by assumption. cbn in H2. inversion H2; subst. destruct (Hpend _ _ _ H1). lia.
        -- rewrite upd_other in H1, H2 by assumption. eapply Huniq; eauto.
    + (* load *)
      exists s. constructor; cbn [ctr store thr lin].
      * eapply RSnoc; [exact Hrun|]. rewrite <- Hmap. apply SLoad.
      * exact Hmap.
      * exact Hiss.
      * intros x h' o' Hx. destruct (Nat.eq_dec x tid) as [->|Hne]; [rewrite upd_same in Hx; discriminate|].
        rewrite upd_other in Hx by exact Hne. eapply Hpend; eauto.
      * intros t1 t2 h' o1 o2 H1 H2.
        destruct (Nat.eq_dec t1 tid) as [->|N1]; [rewrite upd_same in H1; discriminate|].
        destruct (Nat.eq_dec t2 tid) as [->|N2]; [rewrite upd_same in H2; discriminate|].
        rewrite upd_other in H1, H2 by assumption. eapply Huniq; eauto.
    + (* remove *)
      exists {| issued := issued s; smap := del (smap s) h |}. constructor; cbn [ctr store thr lin issued smap].
      * eapply RSnoc; [exact Hrun|]. rewrite <- Hmap. apply SRemove.
      * rewrite Hmap. reflexivity.
      * exact Hiss.
      * intros x h' o' Hx. destruct (Nat.eq_dec x tid) as [->|Hne]; [rewrite upd_same in Hx; discriminate|].
        rewrite upd_other in Hx by exact Hne. eapply Hpend; eauto.
      * intros t1 t2 h' o1 o2 H1 H2.
        destruct (Nat.eq_dec t1 tid) as [->|N1]; [rewrite upd_same in H1; discriminate|].
        destruct (Nat.eq_dec t2 tid) as [->|N2]; [rewrite upd_same in H2; discriminate|].
        rewrite upd_other in H1, H2 by assumption. eapply Huniq; eauto.
Qed.

Lemma init_inv progs : Inv (init progs) s0.
Proof. constructor; cbn [init ctr store thr lin s0 issued smap pend].
  - constructor.
  - reflexivity.
  - intros h [].
  - intros tid h o H; discriminate.
  - intros t1 t2 h o1 o2 H; discriminate.
Qed.

(* Every schedule yields a linearisation accepted by the sequential spec, whose map is the store *)
Theorem linearizable progs sched :
  exists s, spec_run s0 (lin (run (init progs) sched)) s /\ smap s = store (run (init progs) sched).
Proof.
  assert (H : forall sched c s, Inv c s -> exists s', Inv (run c sched) s').
  { induction sched0 as [|tid r IH]; intros c s HI; [exists s; exact HI|]. cbn [run fold_left].
    destruct (step_inv c s tid HI) as [s' HI']. exact (IH _ _ HI'). }
  destruct (H sched _ _ (init_inv progs)) as [s [Hrun Hmap _ _ _]]. exists s. split; assumption.
Qed.




(* ---- consequences of the sequential specification ---- *)
(* a handle is handed out at most once: handles are unique, non-zero and never reused *)
Definition created (l : list (nat * (op * res))) : list nat :=
  flat_map (fun x => match snd x with (Create _, RH h) => [h] | _ => [] end) l.
Lemma created_app l1 l2 : created (l1 ++ l2) = created l1 ++ created l2.
Proof. unfold created. apply flat_map_app. Qed.
Lemma NoDup_snoc {A} (l : list A) x : NoDup l -> ~ In x l -> NoDup (l ++ [x]).
Proof.
  induction l as [|a r IH]; intros Hnd Hx; cbn; [constructor; [intros []|constructor]|].
  inversion Hnd; subst. constructor.
  - rewrite in_app_iff. cbn. intros [H|[H|[]]]; [contradiction|subst; apply Hx; left; reflexivity].
  - apply IH; [assumption|]. intros H. apply Hx. right. exact H.
Qed.
Theorem handles_never_reused l s : spec_run s0 l s ->
  NoDup (created l) /\ (forall h, In h (created l) <-> In h (issued s)) /\ ~ In 0 (created l).
Proof.
  intros Hrun. remember s0 as z eqn:Ez. induction Hrun as [sa|sa l s1 tid e s2 Hr IH Hs].
  - subst sa. cbn. split; [constructor|]. split; [intros h; tauto|tauto].
  - destruct (IH Ez) as (Hnd & Hiff & Hz). rewrite created_app. cbn [created flat_map snd]. rewrite app_nil_r.
    inversion Hs; subst; cbn [issued].
    + split; [|split].
      * apply NoDup_snoc; [exact Hnd|]. intros Hx. apply H0. apply Hiff. exact Hx.
      * intros h'. rewrite in_app_iff. cbn [In]. rewrite Hiff. tauto.
      * rewrite in_app_iff. cbn [In]. intros [Hin|[Heq|[]]]; [exact (Hz Hin)|congruence].
    + unfold load_res. rewrite app_nil_r. auto.
    + unfold rem_res. rewrite app_nil_r. auto.
Qed.

(* what a load sees is decided by the map alone: the object stored under the handle if its type is
   the requested one, a type error if it is another type, an invalid-handle error if absent *)
Theorem load_type_safe m h ty :
  load_res m h ty = RL (match lookup m h with
                        | None => None
                        | Some o => Some (if Nat.eqb (oty o) ty then Some o else None) end).
Proof. reflexivity. Qed.
(* after a remove the handle resolves to nothing *)
Lemma lookup_del m h : lookup (del m h) h = None.
Proof. induction m as [|[k o] r IH]; cbn [del lookup]; [reflexivity|]. destruct (Nat.eqb_spec k h); [exact IH|]. cbn [lookup]. destruct (Nat.eqb_spec k h); [contradiction|exact IH]. Qed.
Lemma lookup_del_other m h h' : h' <> h -> lookup (del m h) h' = lookup m h'.
Proof.
  intros Hne. induction m as [|[k o] r IH]; cbn [del lookup]; [reflexivity|].
  destruct (Nat.eqb_spec k h) as [->|Nk].
  - destruct (Nat.eqb_spec h h'); [congruence|exact IH].
  - cbn [lookup]. destruct (Nat.eqb_spec k h'); [reflexivity|exact IH].
Qed.

(* the code has the shape the machine assumes (regenerated from ffi/object.rs and utils/macros.rs) *)
Lemma store_pins : gen_store_counter_fetch_add_seqcst = true /\ gen_store_create_next_then_locked_insert = true
  /\ gen_store_load_locked_get_cloned = true /\ gen_store_remove_locked_remove = true /\ gen_store_single_lock = true
  /\ gen_store_list_load_entrywise = true.
Proof. repeat split; reflexivity. Qed.

(* every thread's results are exactly its operations in the linearisation, in program order *)
Definition proj (tid : nat) (l : list (nat * (op * res))) : list res :=
  map (fun x => snd (snd x)) (filter (fun x => Nat.eqb (fst x) tid) l).
Lemma proj_snoc tid l t e : proj tid (l ++ [(t, e)]) = proj tid l ++ (if Nat.eqb t tid then [snd e] else []).
Proof. unfold proj. rewrite filter_app, map_app. cbn [filter fst]. destruct (Nat.eqb t tid); cbn; [reflexivity|rewrite app_nil_r; reflexivity]. Qed.
Lemma step_results c t : (forall tid, results (thr c tid) = proj tid (lin c)) ->
  forall tid, results (thr (step c t) tid) = proj tid (lin (step c t)).
Proof.
  intros H tid. unfold step.
  destruct (pend (thr c t)) as [[h o]|] eqn:Ep; cbn [thr lin].
  - rewrite proj_snoc. cbn [snd]. destruct (Nat.eqb_spec t tid) as [->|N].
    + rewrite upd_same. cbn [results]. rewrite H. reflexivity.
    + rewrite upd_other by (intros E; apply N; symmetry; exact E). rewrite app_nil_r. apply H.
  - destruct (todo (thr c t)) as [|[o|h ty|h] r] eqn:Et; cbn [thr lin].
    + apply H.
    + destruct (Nat.eqb_spec t tid) as [->|N]; [rewrite upd_same; cbn [results]; apply H|].
      rewrite upd_other by (intros E; apply N; symmetry; exact E). apply H.
    + rewrite proj_snoc. cbn [snd]. destruct (Nat.eqb_spec t tid) as [->|N].
      * rewrite upd_same. cbn [results]. rewrite H. reflexivity.
      * rewrite upd_other by (intros E; apply N; symmetry; exact E). rewrite app_nil_r. apply H.
    + rewrite proj_snoc. cbn [snd]. destruct (Nat.eqb_spec t tid) as [->|N].
      * rewrite upd_same. cbn [results]. rewrite H. reflexivity.
      * rewrite upd_other by (intros E; apply N; symmetry; exact E). rewrite app_nil_r. apply H.
Qed.
Theorem results_are_projection progs sched tid :
  results (thr (run (init progs) sched) tid) = proj tid (lin (run (init progs) sched)).
Proof.
  assert (G : forall sched c, (forall tid, results (thr c tid) = proj tid (lin c)) ->
                              forall tid, results (thr (run c sched) tid) = proj tid (lin (run c sched))).
  { induction sched0 as [|t r IH]; intros c H; [exact H|]. cbn [run fold_left]. apply IH. apply step_results. exact H. }
  apply G. intros t. reflexivity.
Qed.
