From Coq Require Import List String ZArith NArith Bool Lia.
From AV Require Import Model.Str Model.Encode Model.Query Model.VTypes Model.Interval Model.Eval Model.CL
  Model.VerifierLegacy Model.VCfg Model.VProps Model.Prover Model.PProps Proofs.VMonad
  Proofs.C04F10 Proofs.C04G6 Proofs.C06S1 Proofs.C06S4 Proofs.C06S5 Proofs.C06S6.
From AV Require Import Proofs.C04R1.
Import ListNotations.
Open Scope string_scope.
Open Scope list_scope.
Open Scope Z_scope.

Definition strip_case (c : pcase) : pcase :=
  {| pc_req := strip_req (pc_req c); pc_cx := pc_cx c; pc_link := pc_link c; pc_sel := pc_sel c; pc_self := pc_self c |}.

(* END TO END with restrictions (legacy format): the case with its restrictions removed lies in the class rev_b, and
   every restriction is true -- with Boolean semantics, of the credential that signed the sub-proof the built
   presentation binds the referent to (restr_true_legacy, evaluated on the presentation the prover model built) --
   then the verifier model accepts what the prover model built for the request WITH its restrictions. Composition of
   C04_legacy_rev (stripped request), the prover's independence of restrictions, and C06_legacy_complete. *)
Theorem c04_legacy_restricted c P :
  rev_b (strip_case c) = true ->
  create_legacy pcfg_fixed (pc_req c) (pc_cx c) (pc_link c) (pc_sel c) (pc_self c) = ROk P ->
  creddefs_distinct (pc_cx c) = true -> ids_bound (pc_cx c) P = true -> req_named (pc_req c) = true ->
  mixed_legacy_tags (CLegacy (pc_req c) P (pc_cx c)) = false ->
  restr_true_legacy (pc_req c) P (pc_cx c) = true ->
  verify_legacy cfg_fixed (pc_req c) P (pc_cx c) = Accept.
Proof.
  intros Hcls Hcreate Hdist Hbound Hnamed Hmixed Htrue.
  rewrite <- strip_create_legacy in Hcreate.
  pose proof (c04_legacy_rev_b (strip_case c) P Hcls Hcreate) as Hbase. cbn [strip_case pc_req pc_cx] in Hbase.
  exact (c06_legacy_complete (pc_req c) P (pc_cx c) Hdist Hbound Hnamed Hmixed Hbase Htrue).
Qed.

Definition x_case := {| pc_req := x_req; pc_cx := e_cx; pc_link := 7; pc_sel := pc_sel e_case; pc_self := pc_self e_case |}.
Example c04_restricted_nonvacuous :
  exists P, create_legacy pcfg_fixed (pc_req x_case) (pc_cx x_case) (pc_link x_case) (pc_sel x_case) (pc_self x_case) = ROk P /\
    rev_b (strip_case x_case) = true /\ creddefs_distinct (pc_cx x_case) = true /\ ids_bound (pc_cx x_case) P = true /\ req_named (pc_req x_case) = true /\
    mixed_legacy_tags (CLegacy (pc_req x_case) P (pc_cx x_case)) = false /\ restr_true_legacy (pc_req x_case) P (pc_cx x_case) = true /\
    rev_b x_case = false.
Proof.
  eexists. split. { vm_compute. reflexivity. }
  split. { vm_compute. reflexivity. } split. { vm_compute. reflexivity. } split. { vm_compute. reflexivity. }
  split. { vm_compute. reflexivity. } split. { vm_compute. reflexivity. } split. { vm_compute. reflexivity. }
  vm_compute. reflexivity.
Qed.
