(* part 4c (revocation class): every referent has a usable candidate among the built entries; the request-data stage succeeds
   and names only entries that carry a non-revocation part *)
From Coq Require Import List String Ascii ZArith NArith Bool Lia.
From AV Require Import Model.Str Model.Encode Model.Query Model.VTypes Model.Interval Model.Eval Model.CL Model.VerifierLegacy Model.VerifierW3C
  Model.VCfg Model.VProps Model.Prover Model.PProps Proofs.VMonad Proofs.C04F1 Proofs.C04F3 Proofs.C04F4 Proofs.C04F5 Proofs.C04F6 Proofs.C04F8 Proofs.C07Proofs
  Proofs.VW3CSearch Proofs.VW3CC1 Proofs.VW3CC2 Proofs.VW3CC3.
From AV Require Import Proofs.C04W1 Proofs.C04W2 Proofs.C04W3 Proofs.C04W4 Proofs.C04W4b.
Import ListNotations.
Local Open Scope string_scope.
Local Open Scope list_scope.
Local Open Scope Z_scope.

Section Rev3.
  Context (R : request) (cx : ctx) (link : N) (ps : list present).
  Notation E := (nonempty ps).
  Notation c0 := (mk_case R cx link ps []).
  Context (Hclass : w3c_rev_r c0 = true).
  Definition entry_of (p : present) (subj : list (string * attr_value)) (sp : subproof) : w3c_cred :=
    {| wc_issuer := hc_issuer (pr_cred p); wc_subject := subj; wc_method := hc_creddef (pr_cred p); wc_pv := Some (ident_of p, sp) |}.
  Context (Hra : forall p subj sp r b ai, In p E -> In (r, b) (pr_attrs p) -> assoc r (rq_attrs R) = Some ai -> build_subject pcfg_fixed R p = ROk subj ->
                   restriction_true cfg_fixed cx (entry_of p subj sp) (ident_of p) (ai_restr ai)).
  Context (Hrp : forall p subj sp r pi, In p E -> In r (pr_preds p) -> assoc r (rq_preds R) = Some pi -> build_subject pcfg_fixed R p = ROk subj ->
                   restriction_true cfg_fixed cx (entry_of p subj sp) (ident_of p) (pi_restr pi)).
  Context (sps : list subproof) (creds : list w3c_cred) (Hb : built R cx link 0 E sps creds).
  Notation cs := (cs_of E sps creds).

  Lemma schemas_ok : schemas_present cx cs.
  Proof.
    intros w Hw. destruct (cs_of_in R cx link _ _ _ _ w Hb Hw) as (j & p & sp & fed & subj & Hp & _ & _ & _ & _ & ->).
    cbn [fst snd ident_of id_schema]. destruct (entry_facts_w R cx link ps Hclass p Hp) as [sc cd fed' Hsc]. rewrite Hsc. discriminate.
  Qed.
  Lemma named_ok : entries_named cx cs.
  Proof.
    intros c id sp Hw. destruct (cs_of_in R cx link _ _ _ _ _ Hb Hw) as (j & p & sp' & fed & subj & Hp & _ & _ & _ & _ & Heq).
    inversion Heq; subst. destruct (entry_facts_w R cx link ps Hclass p Hp) as [sc cd fed' Hsc Hcd Hi]. exists cd. cbn [ident_of id_creddef wc_issuer wc_method]. auto.
  Qed.

  (* conditions that call for a non-revocation proof are conditions of a revocable entry under a demand: it carries one *)
  Lemma usable_entry p j fed sp subj q nr b iv_in :
    In p E -> prover_sub_proof pcfg_fixed R cx link j p fed = ROk sp ->
    (forall iv, demand R nr = Some iv -> In iv (entry_intervals_w3c R p)) ->
    cred_conditions cfg_fixed R cx (entry_of p subj sp) (ident_of p) q nr = Some b -> iv_in = tt -> usable true b sp = true.
  Proof.
    intros Hp Hs Hdem Hc _. unfold usable. cbn [negb orb]. destruct b; [|reflexivity]. cbn [negb orb].
    destruct (entry_facts_w R cx link ps Hclass p Hp) as [sc cd fed' Hsc Hcd Hi Hk Hr].
    unfold cred_conditions in Hc. destruct (cred_restrictions cfg_fixed cx _ _ q) as [[]| |]; cbn [bind] in Hc; try discriminate.
    destruct (cd_revkey cd) as [rk|] eqn:Erk.
    - destruct (demand R nr) as [iv|] eqn:Ed.
      + cbn [is_some] in Hr. destruct (hc_revreg (pr_cred p)) as [rid|] eqn:Erid; [|discriminate].
        pose proof (Hdem iv eq_refl) as Hin.
        destruct (rev_facts_of R cx link ps Hclass p iv rid Hp Erid Hin) as [rid' t n defs m rk' acc Hrid' Hts Hst].
        assert (Hne : entry_intervals_w3c R p <> []) by (intros E0; rewrite E0 in Hin; destruct Hin).
        unfold has_nrp. rewrite (nrp_present R cx link ps p j fed sp rid Hp Hs Erid Hne), Hst. reflexivity.
      + rewrite (cred_interval_no_demand cfg_fixed eq_refl R cx (ident_of p) nr cd Hcd Ed) in Hc. discriminate.
    - rewrite (cred_interval_nonrevocable cfg_fixed eq_refl R cx (ident_of p) nr cd Hcd Erk) in Hc. discriminate.
  Qed.

  (* an attribute referent: the entry selected for it is a usable candidate of the schema-based search *)
  Lemma attr_candidate r ai n : In (r, ai) (rq_attrs R) -> In n (names_of ai) ->
    exists x b, In x cs /\ unrev_candidate cfg_fixed R cx n (ai_restr ai) (ai_nr ai) x = Some b /\ usable_w true x b = true.
  Proof.
    intros Hin Hn.
    assert (Has : assoc r (rq_attrs R) = Some ai).
    { apply assoc_nodup_in; [exact (cov_nodup_attrs R cx link ps [] (class_cov R cx link ps Hclass))|exact Hin]. }
    assert (Hr : In r (keys (rq_attrs R))) by (apply in_map_iff; exists (r, ai); auto).
    apply (cov_attrs R cx link ps [] (class_cov R cx link ps Hclass)) in Hr. destruct Hr as [Hr|[]].
    apply sel_refs_E in Hr. destruct Hr as (p & b0 & Hp & Hrb).
    destruct (in_cs_of R cx link _ _ _ _ p Hb Hp) as (j & sp & fed & subj & _ & Hf & Hs & Hsub & Hx).
    destruct (entry_facts_w R cx link ps Hclass p Hp) as [sc cd fed' Hsc Hcd Hi Hk Hrv Ha Halt Hl Hfw Hag Hpl Hheld Hrev].
    destruct (cred_conditions_complete cfg_fixed eq_refl R cx (entry_of p subj sp) (ident_of p) (ai_restr ai) (ai_nr ai)
                (Hra p subj sp r b0 ai Hp Hrb Has Hsub) (demand_met_attr R cx link ps Hclass p r b0 ai Hp Hrb Has)) as [b Hc].
    exists (entry_of p subj sp, (ident_of p, sp)), b. split; [exact Hx|]. split.
    - unfold unrev_candidate. cbn [ident_of id_schema]. rewrite Hsc.
      assert (Hex : existsb (fun a => String.eqb (cv a) (cv n)) (sc_attrs sc) = true).
      { unfold names_held in Hheld. rewrite andb_true_iff in Hheld. destruct Hheld as [Hh _]. rewrite forallb_forall in Hh.
        specialize (Hh _ Hrb). cbn beta iota in Hh. cbn [pc_req mk_case] in Hh. rewrite Has in Hh. rewrite forallb_forall in Hh. specialize (Hh _ Hn). apply mem_In in Hh.
        apply (set_eqb_elim _ _ Ha) in Hh. apply in_map_iff in Hh. destruct Hh as (a & Hca & Hina).
        apply existsb_exists. exists a. split; [exact Hina|]. apply String.eqb_eq. exact Hca. }
      rewrite Hex. exact Hc.
    - unfold usable_w. cbn [snd]. apply (usable_entry p j fed sp subj (ai_restr ai) (ai_nr ai) b tt Hp Hs); [|exact Hc|reflexivity].
      intros iv Hd. exact (demand_in_attr R p r b0 ai iv Hrb Has Hd).
  Qed.
  Lemma attr_checked r ai n : In (r, ai) (rq_attrs R) -> In n (names_of ai) ->
    exists l, check_attribute cfg_fixed R cx cs n (ai_restr ai) (ai_nr ai) = ROk l /\ carries cs l.
  Proof.
    intros Hin Hn. destruct (attr_candidate r ai n Hin Hn) as (x & b & Hx & Hc & Hu).
    unfold check_attribute. cbn [f_w3c_nrp_search cfg_fixed].
    destruct (find_revealed cfg_fixed true R cx n (ai_restr ai) (ai_nr ai) 0 cs) as [l|] eqn:E1.
    - exists l. split; [reflexivity|]. destruct (find_revealed_u cfg_fixed true R cx n _ _ cs 0 l E1) as (j & c & id & sp & b' & Hnth & _ & Hus & ->).
      rewrite Z.sub_0_r in Hnth. exact (need_carries cs j b' c id sp Hnth Hus).
    - destruct (find_unrevealed_total cfg_fixed true R cx n (ai_restr ai) (ai_nr ai) cs schemas_ok 0) as [u Hu']. rewrite Hu'. cbn [bind].
      destruct u as [l|].
      + exists l. split; [reflexivity|]. destruct (find_unrevealed_u cfg_fixed true R cx n _ _ cs 0 l Hu') as (j & c & id & sp & b' & Hnth & _ & Hus & ->).
        rewrite Z.sub_0_r in Hnth. exact (need_carries cs j b' c id sp Hnth Hus).
      + exfalso. pose proof (proj1 (find_unrevealed_none cfg_fixed true R cx n (ai_restr ai) (ai_nr ai) cs schemas_ok 0) Hu' x Hx) as H0.
        rewrite Hc in H0. rewrite Hu in H0. discriminate.
  Qed.

  Lemma pred_checked r pi : In (r, pi) (rq_preds R) -> exists l, check_predicate cfg_fixed R cx pi cs = ROk l /\ carries cs l.
  Proof.
    intros Hin.
    assert (Has : assoc r (rq_preds R) = Some pi).
    { apply assoc_nodup_in; [exact (cov_nodup_preds R cx link ps [] (class_cov R cx link ps Hclass))|exact Hin]. }
    assert (Hr : In r (keys (rq_preds R))) by (apply in_map_iff; exists (r, pi); auto).
    apply (cov_preds R cx link ps [] (class_cov R cx link ps Hclass)) in Hr. apply sel_preds_E in Hr. destruct Hr as (p & Hp & Hrp0).
    destruct (in_cs_of R cx link _ _ _ _ p Hb Hp) as (j & sp & fed & subj & _ & Hf & Hs & Hsub & Hx).
    destruct (entry_facts_w R cx link ps Hclass p Hp) as [sc cd fed' Hsc Hcd Hi Hk Hrv Ha Halt Hl Hfw Hag Hpl Hheld Hrev].
    destruct (cred_conditions_complete cfg_fixed eq_refl R cx (entry_of p subj sp) (ident_of p) (pi_restr pi) (pi_nr pi)
                (Hrp p subj sp r pi Hp Hrp0 Has Hsub) (demand_met_pred R cx link ps Hclass p r pi Hp Hrp0 Has)) as [b Hc].
    (* the marker *)
    pose proof Hsub as Hsub'. unfold build_subject in Hsub'. apply bind_ok in Hsub' as (s1 & H1 & H2).
    destruct (foldR_attr_inv R (pr_cred p) (pr_attrs p) [] s1 (fun k v (H : In (k, v) []) => match H with end) H1) as (F & _ & _ & _ & D1).
    pose proof (D1 (NoDup_nil _)) as Nd1.
    destruct (foldR_pred_inv R (pr_cred p) (pr_preds p) s1 subj (firsts_fkeys _ _ F) Nd1 H2) as (Fk & Nd & _ & _ & Pp).
    destruct (Pp r pi Hrp0 Has) as (k & v0 & bb & Hg & Hkin). destruct (get_ci_key _ _ _ _ Hg) as [Hck _].
    assert (Hgp : get_predicate (entry_of p subj sp) (pi_name pi) = Some k).
    { unfold get_predicate.
      assert (Hci : get_ci (entry_of p subj sp) (pi_name pi) = Some (k, VBool bb)).
      { unfold get_ci at 1. cbn [entry_of wc_subject].
        destruct (find_some_iff (fun kv0 : string * attr_value => String.eqb (cv (fst kv0)) (cv (pi_name pi))) subj) as [[k' v'] Hy].
        { exists (k, VBool bb). split; [exact Hkin|]. cbn [fst]. rewrite Hck. apply String.eqb_refl. }
        rewrite Hy. f_equal. pose proof (find_some _ _ Hy) as [Hys Hyk]. cbn [fst] in Hyk. apply String.eqb_eq in Hyk.
        destruct (Fk _ _ Hys) as (v1 & Hg1). rewrite (get_ci_same (as_w3c (pr_cred p)) k' (pi_name pi) Hyk) in Hg1. rewrite Hg in Hg1. inversion Hg1; subst k'.
        f_equal. exact (NoDup_map_fst_functional _ _ _ _ Nd Hys Hkin). }
      rewrite Hci. reflexivity. }
    assert (Hpe : existsb (fun p0 => pred_eqb p0 ((if f_w3c_pred_cv cfg_fixed then cv k else k), pi_type pi, pi_value pi)) (sp_preds sp) = true).
    { destruct (sub_inv_gen R cx link j p fed sp Hs) as (sc' & cd' & ais & pis & _ & _ & _ & Hpis & nrpo & _ & Hpv).
      destruct (Forall2_in_l _ _ _ _ Hpis Hrp0) as (pi' & Hpi' & Ha'). rewrite Has in Ha'. inversion Ha'; subst pi'.
      rewrite (pv_preds _ _ _ _ _ _ _ _ _ Hpv). apply existsb_exists. exists (cv (pi_name pi), pi_type pi, pi_value pi).
      split; [apply in_map_iff; exists pi; auto|]. cbn [f_w3c_pred_cv cfg_fixed]. rewrite Hck. apply pred_eqb_refl. }
    assert (Hcand : pred_candidate cfg_fixed R cx pi (entry_of p subj sp, (ident_of p, sp)) = Some b).
    { unfold pred_candidate. rewrite Hgp, Hpe. exact Hc. }
    assert (Hus : usable true b sp = true).
    { apply (usable_entry p j fed sp subj (pi_restr pi) (pi_nr pi) b tt Hp Hs); [|exact Hc|reflexivity].
      intros iv Hd. exact (demand_in_pred R p r pi iv Hrp0 Has Hd). }
    unfold check_predicate. cbn [f_w3c_nrp_search cfg_fixed].
    destruct (find_predicate cfg_fixed true R cx pi 0 cs) as [l|] eqn:E1.
    - exists l. split; [reflexivity|]. destruct (find_predicate_u cfg_fixed true R cx pi cs 0 l E1) as (j' & c & id & sp' & b' & Hnth & _ & Hus' & ->).
      rewrite Z.sub_0_r in Hnth. exact (need_carries cs j' b' c id sp' Hnth Hus').
    - exfalso. pose proof (proj1 (find_predicate_none cfg_fixed true R cx pi cs 0) E1 (entry_of p subj sp, (ident_of p, sp)) Hx) as H0. rewrite Hcand in H0.
      unfold usable_w in H0. cbn [snd] in H0. rewrite Hus in H0. discriminate.
  Qed.

  Lemma carries_app l1 l2 : carries cs l1 -> carries cs l2 -> carries cs (l1 ++ l2).
  Proof. intros A B j Hj. apply in_app_or in Hj as [Hj|Hj]; [exact (A j Hj)|exact (B j Hj)]. Qed.
  Lemma carries_concat ls : (forall l, In l ls -> carries cs l) -> carries cs (List.concat ls).
  Proof. intros H j Hj. apply in_concat in Hj as (l & Hl & Hjl). exact (H l Hl j Hjl). Qed.

  Lemma request_data_rev : exists needs, check_request_data cfg_fixed R cx cs = ROk needs /\ carries cs needs.
  Proof.
    destruct (check_request_data_complete cfg_fixed R cx cs) as [needs Hn].
    - intros r ai n Hin Hnm. destruct (attr_checked r ai n Hin Hnm) as (l & Hl & _). eauto.
    - intros r pi Hin. destruct (pred_checked r pi Hin) as (l & Hl & _). eauto.
    - exact named_ok.
    - exists needs. split; [exact Hn|]. unfold check_request_data in Hn.
      apply bind_ok in Hn as (na & Hna & Hn). apply bind_ok in Hn as (np & Hnp & Hn). apply bind_ok in Hn as (u & _ & Hn). inversion Hn; subst needs. clear Hn.
      apply carries_app; apply carries_concat; intros x Hx.
      + apply mapR_ok in Hna. destruct (Forall2_in_r _ _ _ _ Hna Hx) as ([r ai] & Hin & Hf). cbn beta iota in Hf.
        apply bind_ok in Hf as (l1 & H1 & Hf). apply bind_ok in Hf as (l2 & H2 & Hf). inversion Hf; subst x. apply carries_app.
        * destruct (ai_name ai) as [n|] eqn:En; [|inversion H1; intros j []].
          destruct (attr_checked r ai n Hin) as (l & Hl & Hc); [unfold names_of; rewrite En; left; reflexivity|]. rewrite Hl in H1. inversion H1; subst l1. exact Hc.
        * destruct (ai_names ai) as [ns|] eqn:Ens; [|inversion H2; intros j []]. apply bind_ok in H2 as (ls & Hls & H2). inversion H2; subst l2.
          apply carries_concat. intros y Hy. apply mapR_ok in Hls. destruct (Forall2_in_r _ _ _ _ Hls Hy) as (n & Hnin & Hn).
          destruct (attr_checked r ai n Hin) as (l & Hl & Hc); [unfold names_of; rewrite Ens; apply in_or_app; right; exact Hnin|]. rewrite Hl in Hn. inversion Hn; subst y. exact Hc.
      + apply mapR_ok in Hnp. destruct (Forall2_in_r _ _ _ _ Hnp Hx) as ([r pi] & Hin & Hf). cbn beta iota in Hf.
        destruct (pred_checked r pi Hin) as (l & Hl & Hc). rewrite Hl in Hf. inversion Hf; subst x. exact Hc.
  Qed.
End Rev3.
