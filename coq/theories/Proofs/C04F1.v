(* C04, legacy, end to end — part 1: forward lemmas of the monad and the structure of what
   legacy_loop builds (both directions). *)
From Coq Require Import List String Ascii ZArith NArith Bool Lia.
From AV Require Import Model.Str Model.Encode Model.Query Model.VTypes Model.Interval Model.Eval Model.CL Model.VerifierLegacy Model.VerifierW3C
  Model.VCfg Model.Prover Model.PProps Proofs.VMonad Proofs.C07Proofs.
Import ListNotations.
Local Open Scope string_scope.
Local Open Scope list_scope.
Local Open Scope Z_scope.

(* ---- forward (totality) lemmas ---- *)
Lemma mapR_total {A B} (f : A -> res B) l : (forall x, In x l -> exists y, f x = ROk y) -> exists l', mapR f l = ROk l'.
Proof.
  induction l as [|x r IH]; intros H; [exists []; reflexivity|]. cbn [mapR].
  destruct (H x (or_introl eq_refl)) as [y Hy]. rewrite Hy. cbn [bind].
  destruct (IH (fun z Hz => H z (or_intror Hz))) as [l' Hl']. rewrite Hl'. cbn [bind]. eauto.
Qed.
Lemma iter_total {A} (f : A -> res unit) l : (forall x, In x l -> f x = ROk tt) -> iter f l = ROk tt.
Proof. induction l as [|x r IH]; intros H; [reflexivity|]. cbn [iter]. rewrite (H x (or_introl eq_refl)). cbn [bind]. apply IH. intros z Hz. apply H. right. exact Hz. Qed.
Lemma assoc_nodup_in {V} k (m : list (string * V)) v : NoDup (keys m) -> In (k, v) m -> assoc k m = Some v.
Proof.
  induction m as [|[a w] r IH]; intros Hnd Hin; [destruct Hin|]. cbn [assoc keys map fst] in *.
  inversion Hnd as [|x l Hx Hnd']; subst. destruct Hin as [Heq|Hin].
  - injection Heq as -> ->. rewrite String.eqb_refl. reflexivity.
  - destruct (String.eqb_spec a k) as [->|N]; [exfalso; apply Hx; apply in_map_iff; exists (k, v); auto|]. apply IH; assumption.
Qed.
Lemma nodup_str_NoDup l : nodup_str l = true -> NoDup l.
Proof.
  induction l as [|x r IH]; intros H; [constructor|]. cbn [nodup_str] in H. apply andb_prop in H as [H1 H2].
  constructor; [|apply IH; exact H2]. intros Hin. apply mem_In in Hin. rewrite Hin in H1. discriminate.
Qed.
Lemma NoDup_app_l {A} (a b : list A) : NoDup (a ++ b) -> NoDup a.
Proof. induction a as [|x r IH]; intros H; [constructor|]. inversion H; subst. constructor; [intros Hin; apply H2; apply in_or_app; left; exact Hin|apply IH; assumption]. Qed.
Lemma NoDup_app_disj {A} (a b : list A) x : NoDup (a ++ b) -> In x a -> In x b -> False.
Proof.
  induction a as [|y r IH]; intros H Ha Hb; [destruct Ha|]. inversion H; subst. destruct Ha as [->|Ha].
  - apply H2. apply in_or_app. right. exact Hb.
  - exact (IH H3 Ha Hb).
Qed.

Section Loop.
  Context (pc : pcfg) (R : request) (cx : ctx) (link : N).

  (* what update_requested_proof contributes for the entry p at index k *)
  Definition c_rev (p : present) (k : Z) (r : string) (v : Z * string * string) : Prop :=
    In (r, true) (pr_attrs p) /\ exists ai n, assoc r (rq_attrs R) = Some ai /\ ai_name ai = Some n /\
      exists raw enc, find_value (pr_cred p) n = Some (raw, enc) /\ v = (k, raw, enc).
  Definition c_grp (p : present) (k : Z) (r : string) (v : Z * list (string * (string * string))) : Prop :=
    In (r, true) (pr_attrs p) /\ exists ai ns, assoc r (rq_attrs R) = Some ai /\ ai_name ai = None /\ ai_names ai = Some ns /\
      exists vals, mapR (fun n => v0 <- of_opt (find_value (pr_cred p) n) ;; ROk (n, v0)) ns = ROk vals /\ v = (k, vals).
  Definition c_unr (p : present) (k : Z) (r : string) (v : Z) : Prop := In (r, false) (pr_attrs p) /\ v = k.
  Definition c_prd (p : present) (k : Z) (r : string) (v : Z) : Prop := In r (pr_preds p) /\ v = k.

  (* one referent *)
  Lemma upd_attr_char c k rp x rp' : upd_attr R c k rp x = ROk rp' ->
    rp_self rp' = rp_self rp /\ rp_preds rp' = rp_preds rp /\
    let '(r, b) := x in
    exists ai, (b = true -> assoc r (rq_attrs R) = Some ai) /\
    (forall q v, In (q, v) (rp_revealed rp') <-> In (q, v) (rp_revealed rp) \/
       (q = r /\ b = true /\ exists n raw enc, ai_name ai = Some n /\ find_value c n = Some (raw, enc) /\ v = (k, raw, enc))) /\
    (forall q v, In (q, v) (rp_groups rp') <-> In (q, v) (rp_groups rp) \/
       (q = r /\ b = true /\ ai_name ai = None /\ exists ns vals, ai_names ai = Some ns /\
          mapR (fun n => v0 <- of_opt (find_value c n) ;; ROk (n, v0)) ns = ROk vals /\ v = (k, vals))) /\
    (forall q v, In (q, v) (rp_unrev rp') <-> In (q, v) (rp_unrev rp) \/ (q = r /\ b = false /\ v = k)).
  Proof.
    destruct x as [r b]. unfold upd_attr. destruct b.
    - intros H. apply bind_ok in H as (ai & Hai & H). apply of_opt_panic_ok in Hai.
      destruct (ai_name ai) as [n|] eqn:En.
      + apply bind_ok in H as ([raw enc] & Hv & H). apply of_opt_ok in Hv. injection H as <-. cbn.
        split; [reflexivity|]. split; [reflexivity|]. exists ai. split; [auto|]. split; [|split].
        * intros q v. split.
          -- intros [Heq|Hin]; [|left; exact Hin]. injection Heq as <- <-. right. split; [reflexivity|]. split; [reflexivity|]. exists n, raw, enc. auto.
          -- intros [Hin|(-> & _ & n' & raw' & enc' & Hn & Hf & ->)]; [right; exact Hin|]. left. rewrite En in Hn. injection Hn as <-. rewrite Hv in Hf. injection Hf as <- <-. reflexivity.
        * intros q v. split; [intros Hin; left; exact Hin|]. intros [Hin|(_ & _ & Hn & _)]; [exact Hin|rewrite En in Hn; discriminate].
        * intros q v. split; [intros Hin; left; exact Hin|]. intros [Hin|(_ & Hb & _)]; [exact Hin|discriminate].
      + destruct (ai_names ai) as [ns|] eqn:Ens.
        * apply bind_ok in H as (vals & Hvals & H). injection H as <-. cbn.
          split; [reflexivity|]. split; [reflexivity|]. exists ai. split; [auto|]. split; [|split].
          -- intros q v. split; [intros Hin; left; exact Hin|]. intros [Hin|(_ & _ & n & raw & enc & Hn & _)]; [exact Hin|rewrite En in Hn; discriminate].
          -- intros q v. split.
             ++ intros [Heq|Hin]; [|left; exact Hin]. injection Heq as <- <-. right. split; [reflexivity|]. split; [reflexivity|]. split; [exact En|]. exists ns, vals. auto.
             ++ intros [Hin|(-> & _ & _ & ns' & vals' & Hns & Hm & ->)]; [right; exact Hin|]. left. rewrite Ens in Hns. injection Hns as <-. rewrite Hvals in Hm. injection Hm as <-. reflexivity.
          -- intros q v. split; [intros Hin; left; exact Hin|]. intros [Hin|(_ & Hb & _)]; [exact Hin|discriminate].
        * injection H as <-. split; [reflexivity|]. split; [reflexivity|]. exists ai. split; [auto|]. split; [|split].
          -- intros q v. split; [intros Hin; left; exact Hin|]. intros [Hin|(_ & _ & n & raw & enc & Hn & _)]; [exact Hin|rewrite En in Hn; discriminate].
          -- intros q v. split; [intros Hin; left; exact Hin|]. intros [Hin|(_ & _ & _ & ns & vals & Hns & _)]; [exact Hin|rewrite Ens in Hns; discriminate].
          -- intros q v. split; [intros Hin; left; exact Hin|]. intros [Hin|(_ & Hb & _)]; [exact Hin|discriminate].
    - intros H. injection H as <-. cbn. split; [reflexivity|]. split; [reflexivity|].
      exists {| ai_name := None; ai_names := None; ai_restr := None; ai_nr := None |}. split; [discriminate|]. split; [|split].
      + intros q v. split; [intros Hin; left; exact Hin|]. intros [Hin|(_ & Hb & _)]; [exact Hin|discriminate].
      + intros q v. split; [intros Hin; left; exact Hin|]. intros [Hin|(_ & Hb & _)]; [exact Hin|discriminate].
      + intros q v. split.
        * intros [Heq|Hin]; [|left; exact Hin]. injection Heq as <- <-. right. auto.
        * intros [Hin|(-> & _ & ->)]; [right; exact Hin|left; reflexivity].
  Qed.
End Loop.
