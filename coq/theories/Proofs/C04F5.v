From Coq Require Import List String Ascii ZArith NArith Bool Lia.
From AV Require Import Model.Str Model.Encode Model.Query Model.VTypes Model.Interval Model.Eval Model.CL Model.VerifierLegacy Model.VerifierW3C
  Model.VCfg Model.Prover Model.PProps Proofs.VMonad Proofs.C07Proofs Proofs.C04Proofs.
From AV Require Import Proofs.C04F1 Proofs.C04F2 Proofs.C04F3 Proofs.C04F4.
Import ListNotations.
Local Open Scope string_scope.
Local Open Scope list_scope.
Local Open Scope Z_scope.

(* ---- what a successful ideal proving step gives ---- *)
Lemma mapR_assoc_all (fed : list (string * string)) l (rv : list (string * string)) : mapR (fun n => e <- of_opt (assoc n fed) ;; ROk (n, e)) l = ROk rv ->
  (forall n, In n l -> exists e, assoc n fed = Some e /\ In (n, e) rv) /\ (forall n e, In (n, e) rv -> In n l /\ assoc n fed = Some e).
Proof.
  revert rv. induction l as [|x r IH]; intros rv H; cbn [mapR] in H.
  - injection H as <-. split; [intros n []|intros n e []].
  - apply bind_ok in H as ([x' e] & Hx & H). apply bind_ok in H as (rest & Hr & H). injection H as <-.
    apply bind_ok in Hx as (e' & He & Hx). apply of_opt_ok in He. injection Hx as <- <-.
    destruct (IH _ Hr) as [I1 I2]. split.
    + intros n [<-|Hn]; [exists e'; split; [exact He|left; reflexivity]|]. destruct (I1 n Hn) as (e2 & A & B). exists e2. split; [exact A|right; exact B].
    + intros n e2 [Heq|Hin]; [injection Heq as <- <-; split; [left; reflexivity|exact He]|]. destruct (I2 _ _ Hin). split; [right; assumption|assumption].
Qed.
Lemma dedup_s_In_iff x l : In x (dedup_s l) <-> In x l.
Proof.
  split; [apply dedup_s_In|]. induction l as [|y r IH]; [tauto|]. cbn [dedup_s]. intros [<-|H].
  - destruct (mem y r) eqn:M; [apply IH; apply mem_In; exact M|left; reflexivity].
  - destruct (mem y r); [apply IH; exact H|right; apply IH; exact H].
Qed.

Record proved (src : source) (fed : list (string * string)) (attrs names : list string) (preds : list (string * ptype * Z))
              (nrpo : option nrp) (link : N) (pos : Z) (sp : subproof) : Prop := {
  pv_attrs : set_eqb (keys fed) attrs = true;
  pv_rev_in : forall n, In n names -> exists e, assoc n fed = Some e /\ In (n, e) (sp_revealed sp);
  pv_rev_out : forall n e, In (n, e) (sp_revealed sp) -> In n names /\ assoc n fed = Some e;
  pv_preds : sp_preds sp = preds;
  pv_preds_in : forallb (fun p => mem (fst (fst p)) (keys fed)) preds = true;
  pv_no_overflow : existsb pred_overflows preds = false;
  pv_nrp : sp_nrp sp = nrpo;
  pv_cl : cl_prove src fed attrs names preds nrpo link pos = ROk sp }.

Lemma cl_prove_inv src fed attrs names preds nrpo link pos sp :
  cl_prove src fed attrs names preds nrpo link pos = ROk sp -> proved src fed attrs names preds nrpo link pos sp.
Proof.
  intros H0. pose proof H0 as H. unfold cl_prove in H.
  apply bind_ok in H as (u1 & G1 & H). apply guard_ok in G1. apply bind_ok in H as (rv & Hrv & H).
  apply bind_ok in H as (u2 & G2 & H). apply guard_ok in G2. apply bind_ok in H as (u3 & G3 & H).
  apply bind_ok in H as (u4 & G4 & H). apply bind_ok in H as (u5 & G5 & H). injection H as <-.
  destruct (mapR_assoc_all _ _ _ Hrv) as [I1 I2].
  constructor; cbn [sp_revealed sp_preds sp_nrp]; auto.
  - intros n Hn. apply I1. apply dedup_s_In_iff. exact Hn.
  - intros n e Hin. destruct (I2 _ _ Hin) as [A B]. split; [apply dedup_s_In_iff; exact A|exact B].
  - destruct (existsb pred_overflows preds); [discriminate|reflexivity].
Qed.

Section Plain2.
  Context (R : request) (cx : ctx) (link : N) (ps : list present) (self : list (string * string)) (P : presentation).
  Notation E := (nonempty ps).
  Context (Hcreate : create_legacy pcfg_fixed R cx link ps self = ROk P).
  Context (Hcov : coverage (mk_case R cx link ps self) = true).

  (* everything the loop characterisation gives, with the empty starting map *)
  Record built : Prop := {
    b_self : rp_self (p_rp P) = self;
    b_rev : forall q v, In (q, v) (rp_revealed (p_rp P)) <-> exists k p, at_idx E 0 k p /\ a_rev R (pr_cred p) k (pr_attrs p) q v;
    b_grp : forall q v, In (q, v) (rp_groups (p_rp P)) <-> exists k p, at_idx E 0 k p /\ a_grp R (pr_cred p) k (pr_attrs p) q v;
    b_unr : forall q v, In (q, v) (rp_unrev (p_rp P)) <-> exists k p, at_idx E 0 k p /\ a_unr k (pr_attrs p) q v;
    b_prd : forall q v, In (q, v) (rp_preds (p_rp P)) <-> exists k p, at_idx E 0 k p /\ In q (pr_preds p) /\ v = k;
    b_ids : p_ids P = map ident_of E;
    b_sps : Forall2 (fun kp sp => prover_sub_proof pcfg_fixed R cx link (fst kp) (snd kp) (fed_legacy (pr_cred (snd kp))) = ROk sp) (idx_from 0 E) (p_proofs P);
    b_ai : forall p q, In p E -> In (q, true) (pr_attrs p) -> exists ai, assoc q (rq_attrs R) = Some ai;
    b_agg : p_agg P = {| ag_nonce := rq_nonce R; ag_count := lenZ (p_proofs P); ag_altered := false; ag_common := true |} }.

  Lemma build_facts : built.
  Proof.
    destruct (create_unpack R cx link ps self P Hcreate) as (_ & rp & sps & ids & Hl & HP).
    destruct (loop_char pcfg_fixed R cx link ps 0 (empty_rp self) rp sps ids (Z.le_refl 0) Hl) as (A & B & C & D & F & G & Hf & I).
    constructor; try rewrite HP; cbn [p_rp p_ids p_proofs p_agg].
    - exact A.
    - intros q v. rewrite B. cbn. tauto.
    - intros q v. rewrite C. cbn. tauto.
    - intros q v. rewrite D. cbn. tauto.
    - intros q v. rewrite F. cbn. tauto.
    - exact G.
    - exact Hf.
    - exact I.
    - reflexivity.
  Qed.

  (* the sub-proof of the entry at index k *)
  Lemma sub_at k p : at_idx E 0 k p -> exists sp, nthZ (p_proofs P) k = Some sp /\
    prover_sub_proof pcfg_fixed R cx link k p (fed_legacy (pr_cred p)) = ROk sp.
  Proof.
    intros [Hk Hn]. rewrite Z.sub_0_r in Hn. destruct build_facts as [_ _ _ _ _ _ Hs _ _].
    assert (Hi : nthZ (idx_from 0 E) k = Some (k, p)) by (rewrite nthZ_idx_from, Hn; cbn; f_equal).
    destruct (Forall2_nthZ_l _ _ _ Hs _ _ Hi) as (sp & Hsp & Hr). exists sp. split; [exact Hsp|exact Hr].
  Qed.
  Lemma ident_at k p : at_idx E 0 k p -> nthZ (p_ids P) k = Some (ident_of p).
  Proof. intros [Hk Hn]. rewrite Z.sub_0_r in Hn. destruct build_facts as [_ _ _ _ _ Hi _ _ _]. rewrite Hi, nthZ_map, Hn. reflexivity. Qed.
  Lemma len_ids_proofs : lenZ (p_ids P) = lenZ (p_proofs P).
  Proof.
    destruct build_facts as [_ _ _ _ _ Hi Hs _ _]. rewrite Hi, lenZ_map. rewrite <- (Forall2_length_Z _ _ _ Hs).
    unfold lenZ. rewrite idx_from_length. reflexivity.
  Qed.

  (* unpacking of prover_sub_proof for the plain class is done where it is needed: here the general inversion *)
  Lemma sub_inv k p sp : prover_sub_proof pcfg_fixed R cx link k p (fed_legacy (pr_cred p)) = ROk sp ->
    exists sc cd ais uis pis,
      assoc (hc_schema (pr_cred p)) (cx_schemas cx) = Some sc /\ assoc (hc_creddef (pr_cred p)) (cx_creddefs cx) = Some cd /\
      Forall2 (fun r ai => assoc r (rq_attrs R) = Some ai) (map fst (List.filter snd (pr_attrs p))) ais /\
      Forall2 (fun r ai => assoc r (rq_attrs R) = Some ai) (map fst (List.filter (fun x => negb (snd x)) (pr_attrs p))) uis /\
      Forall2 (fun r pi => assoc r (rq_preds R) = Some pi) (pr_preds p) pis /\
      exists nrpo, (hc_revreg (pr_cred p) = None -> nrpo = None) /\ proved (hc_src (pr_cred p)) (fed_legacy (pr_cred p)) (map cv (sc_attrs sc)) (map cv (flat_map names_of ais))
                          (map (fun pi => (cv (pi_name pi), pi_type pi, pi_value pi)) pis) nrpo link k sp.
  Proof.
    unfold prover_sub_proof. intros H.
    apply bind_ok in H as (sc & Hsc & H). apply of_opt_ok in Hsc. apply bind_ok in H as (cd & Hcd & H). apply of_opt_ok in Hcd.
    apply bind_ok in H as (ais & Hais & H). apply bind_ok in H as (uis & Huis & H). apply bind_ok in H as (pis & Hpis & H).
    exists sc, cd, ais, uis, pis. split; [exact Hsc|]. split; [exact Hcd|].
    assert (G : forall (A : Type) (m : list (string * A)) l l', mapR (fun r => of_opt (assoc r m)) l = ROk l' -> Forall2 (fun r a => assoc r m = Some a) l l').
    { intros A m l l' Hm. apply mapR_ok in Hm. induction Hm as [|x y l1 l2 Hxy HF IHF]; constructor; [apply of_opt_ok; exact Hxy|exact IHF]. }
    split; [exact (G _ _ _ _ Hais)|]. split; [cbn [pf_unrev_intervals pcfg_fixed] in Huis; exact (G _ _ _ _ Huis)|]. split; [exact (G _ _ _ _ Hpis)|].
    eexists. split; [|apply cl_prove_inv; exact H]. intros ->. reflexivity.
  Qed.
End Plain2.
