(* C08: algebra of non-revocation intervals (compare_and_set = meet, override touches only the
   lower bound, demands of the referents vs the tightest combination). *)
From Coq Require Import List String ZArith Bool Lia Permutation.
From AV Require Import Model.VTypes Model.Interval.
Import ListNotations.
Open Scope Z_scope.

Definition u64 (z : Z) : Prop := 0 <= z <= u64max.
Definition wf (i : interval) : Prop :=
  (forall f, ifrom i = Some f -> u64 f) /\ (forall t, ito i = Some t -> u64 t).

Lemma is_valid_iff i t : is_valid i t = true <-> lo i <= t <= hi i.
Proof.
  unfold is_valid. destruct (Z.ltb_spec t (lo i)), (Z.ltb_spec (hi i) t); cbn [negb orb]; split; intros; try discriminate; try reflexivity; lia.
Qed.

(* compare_and_set is the meet on u64 data: membership in the merged interval is the conjunction *)
Lemma merge_meet a b t : wf a -> wf b -> u64 t -> is_valid (merge a b) t = is_valid a t && is_valid b t.
Proof.
  intros [Wa1 Wa2] [Wb1 Wb2] Ht.
  destruct a as [[fa|] [ta|]], b as [[fb|] [tb|]]; cbn [ifrom ito] in *;
  repeat match goal with
         | H : forall f, Some ?x = Some f -> _ |- _ => specialize (H x eq_refl)
         | H : forall f, None = Some f -> _ |- _ => clear H
         end;
  unfold is_valid, lo, hi, merge, u64, u64max in *; cbn [ifrom ito];
  repeat match goal with |- context [if ?c then _ else _] => destruct c eqn:? end; cbn [ifrom ito];
  repeat match goal with
         | H : (_ <? _) = true |- _ => apply Z.ltb_lt in H
         | H : (_ <? _) = false |- _ => apply Z.ltb_ge in H
         end;
  repeat match goal with |- context [?x <? ?y] => destruct (Z.ltb_spec x y) end;
  cbn [negb orb andb]; try reflexivity; lia.
Qed.

Lemma merge_wf a b : wf a -> wf b -> wf (merge a b).
Proof.
  intros [Wa1 Wa2] [Wb1 Wb2]. destruct a as [[fa|] [ta|]], b as [[fb|] [tb|]]; unfold merge; cbn [ifrom ito] in *;
  split; intros v Hv;
  repeat match goal with H : context [if ?c then _ else _] |- _ => destruct c end;
  inversion Hv; subst; eauto.
Qed.

Lemma fold_merge_valid r x t : wf x -> Forall wf r -> u64 t ->
  is_valid (fold_left merge r x) t = is_valid x t && forallb (fun i => is_valid i t) r.
Proof.
  intros Wx Wr Ht. revert x Wx. induction Wr as [|y r Wy Wr IH]; intros x Wx; cbn [fold_left forallb]; [rewrite andb_true_r; reflexivity|].
  rewrite IH by (apply merge_wf; assumption). rewrite merge_meet by assumption. rewrite andb_assoc. reflexivity.
Qed.

(* the order in which a HashSet of referents is traversed does not matter *)
Definition merge_all (l : list interval) : option interval :=
  match l with [] => None | x :: r => Some (fold_left merge r x) end.
Theorem merge_order_independent l1 l2 i1 i2 t :
  Forall wf l1 -> u64 t -> Permutation l1 l2 ->
  merge_all l1 = Some i1 -> merge_all l2 = Some i2 -> is_valid i1 t = is_valid i2 t.
Proof.
  intros W Ht Pm H1 H2. assert (W2 : Forall wf l2) by (eapply Permutation_Forall; eauto).
  destruct l1 as [|x r], l2 as [|y s]; try discriminate. cbn in H1, H2. inversion H1; inversion H2; subst.
  inversion W; inversion W2; subst. rewrite !fold_merge_valid by assumption.
  change (forallb (fun i => is_valid i t) (x :: r) = forallb (fun i => is_valid i t) (y :: s)).
  clear - Pm. induction Pm; cbn [forallb]; try congruence.
  rewrite !andb_assoc. f_equal. apply andb_comm.
Qed.

(* update_with_override: only the lower bound, only when given for that bound *)
Lemma override_to m i : ito (override m i) = ito i.  Proof. reflexivity. Qed.
Lemma override_none m i : ifrom i = None -> override m i = i.
Proof. destruct i as [f t]; cbn. intros ->. reflexivity. Qed.
Lemma override_nil i : override [] i = i.
Proof. destruct i as [[f|] t]; reflexivity. Qed.
Lemma override_from m i f : ifrom i = Some f ->
  ifrom (override m i) = Some (match assocZ f m with Some o => o | None => f end).
Proof. destruct i as [f' t]; cbn. intros ->. destruct (assocZ f m); reflexivity. Qed.

(* a timestamp meeting the (separately overridden) demands of two referents meets the override of
   their tightest combination: "all demands met" is contained in "inside the tightest window" *)
Lemma D_subset_T m a b t :
  is_valid (override m a) t = true -> is_valid (override m b) t = true -> is_valid (override m (merge a b)) t = true.
Proof.
  destruct a as [[fa|] [ta|]], b as [[fb|] [tb|]];
  rewrite !is_valid_iff; unfold lo, hi, override, merge; cbn [ifrom ito];
  repeat match goal with |- context [if ?x <? ?y then _ else _] => destruct (Z.ltb_spec x y) end; cbn [ifrom ito];
  repeat match goal with |- context [assocZ ?f m] => destruct (assocZ f m) end; cbn [ifrom ito];
  unfold u64max; lia.
Qed.

(* missing bounds are open *)
Lemma open_interval_valid t : u64 t -> is_valid {| ifrom := None; ito := None |} t = true.
Proof. intros [H1 H2]. apply is_valid_iff. unfold lo, hi. cbn. lia. Qed.

Example interval_example :
  is_valid (merge {| ifrom := Some 5; ito := Some 12 |} {| ifrom := Some 5; ito := None |}) 13 = false /\
  is_valid (override [(150, 50)] {| ifrom := Some 150; ito := None |}) 100 = true /\
  is_valid (override [(150, 50)] {| ifrom := Some 151; ito := None |}) 100 = false.
Proof. vm_compute. repeat split; reflexivity. Qed.

(* ---- compare_and_set is associative, so the order of collection does not matter at all ---- *)
Lemma merge_assoc a b c : merge (merge a b) c = merge a (merge b c).
Proof.
  destruct a as [[fa|] [ta|]], b as [[fb|] [tb|]], c as [[fc|] [tc|]]; unfold merge; cbn [ifrom ito];
  repeat match goal with |- context [if ?x <? ?y then _ else _] => destruct (Z.ltb_spec x y) end; cbn [ifrom ito];
  try reflexivity; try (f_equal; f_equal; lia); try lia.
Qed.
Lemma merge_opt_assoc a b c : merge_opt (merge_opt a b) c = merge_opt a (merge_opt b c).
Proof. destruct a, b, c; cbn [merge_opt]; try reflexivity. rewrite merge_assoc. reflexivity. Qed.
Lemma merge_opt_none_r a : merge_opt a None = a.
Proof. destruct a; reflexivity. Qed.
Lemma fold_merge_opt_acc l : forall acc, fold_left merge_opt l acc = merge_opt acc (fold_left merge_opt l None).
Proof.
  induction l as [|x r IH]; intros acc; cbn [fold_left]; [rewrite merge_opt_none_r; reflexivity|].
  rewrite IH. rewrite (IH (merge_opt None x)). cbn [merge_opt]. rewrite <- merge_opt_assoc. reflexivity.
Qed.
Lemma fold_merge_opt_app l1 l2 :
  fold_left merge_opt (l1 ++ l2) None = merge_opt (fold_left merge_opt l1 None) (fold_left merge_opt l2 None).
Proof. rewrite fold_left_app. apply fold_merge_opt_acc. Qed.
Lemma fold_merge_opt_map {A} (g : A -> option interval) l : forall acc,
  fold_left (fun a x => merge_opt a (g x)) l acc = fold_left merge_opt (map g l) acc.
Proof. induction l as [|x r IH]; intros acc; cbn [fold_left map]; auto. Qed.
