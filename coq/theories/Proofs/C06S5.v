From Coq Require Import List String ZArith NArith Bool Lia.
From AV Require Import Model.Str Model.Encode Model.Query Model.VTypes Model.Interval Model.Eval Model.CL
  Model.VerifierLegacy Model.VCfg Model.VProps Proofs.VMonad Proofs.VLegacyProofs Proofs.VLegacyStruct Proofs.VCLFacts Proofs.VLegacyMaster
  Proofs.C01Proofs Proofs.C03Proofs Proofs.C06Proofs Proofs.C04F1 Proofs.C04F6.
From AV Require Import Proofs.C06S1 Proofs.C06S3 Proofs.C06S4.
Import ListNotations.
Open Scope string_scope.
Open Scope list_scope.
Open Scope Z_scope.

(* every identifier of the presentation names a credential definition together with the schema that
   definition was created over (an identifier that lies about the schema is refused by the restriction stage) *)
Definition ids_bound (cx : ctx) (P : presentation) : bool :=
  forallb (fun id => match assoc (id_creddef id) (cx_creddefs cx) with
                     | Some cd => String.eqb (cd_schema_id cd) (id_schema id) | None => true end) (p_ids P).
(* every requested attribute has a name or a list of names (request validation) *)
Definition req_named (R : request) : bool :=
  forallb (fun x : string * attr_info => match ai_name (snd x), ai_names (snd x) with None, None => false | _, _ => true end) (rq_attrs R).

Lemma mapR_fn {A B} (f : A -> res B) (g : A -> B) l : (forall x, In x l -> f x = ROk (g x)) -> mapR f l = ROk (map g l).
Proof. induction l as [|x r IH]; intros H; [reflexivity|]. cbn [mapR map]. rewrite (H x (or_introl eq_refl)). cbn [bind]. rewrite IH; [reflexivity|]. intros y Hy. apply H. right. exact Hy. Qed.

Section Complete.
  Context (R : request) (P : presentation) (cx : ctx).
  Context (Hdist : creddefs_distinct cx = true) (Hbound : ids_bound cx P = true) (Hnamed : req_named R = true).
  Context (Hmixed : mixed_legacy_tags (CLegacy R P cx) = false).
  Context (Hbase : verify_legacy cfg_fixed (strip_req R) P cx = Accept).
  Context (Htrue : restr_true_legacy R P cx = true).

  Lemma gf i sp : nthZ (p_proofs P) i = Some sp ->
    exists id f, nthZ (p_ids P) i = Some id /\ gather_filter cfg_fixed cx id = ROk f /\ filter_of cx sp = Some f.
  Proof.
    intros Hsp. destruct (accepted_pairs cfg_fixed _ P cx Hbase) as (Hlen & _ & _ & _ & _ & Hpairs).
    assert (Hid : exists id, nthZ (p_ids P) i = Some id).
    { apply nthZ_some_iff. assert (0 <= i < lenZ (p_proofs P)) by (apply nthZ_some_iff; eauto). lia. }
    destruct Hid as [id Hid]. destruct (Hpairs _ _ _ Hid Hsp) as [sc cd reg rm x Hsc Hcd _ _ _ Hcl]. destruct Hcl as [_ Hkey _ _ _ _ _ _ _].
    unfold ids_bound in Hbound. rewrite forallb_forall in Hbound. pose proof (Hbound _ (nthZ_In _ _ _ Hid)) as Hb. rewrite Hcd in Hb.
    assert (Hg : gather_filter cfg_fixed cx id = ROk {| f_schema_id := id_schema id; f_schema_issuer := sc_issuer sc; f_schema_name := sc_name sc;
                   f_schema_version := sc_version sc; f_issuer := cd_issuer cd; f_cred_def_id := id_creddef id |}).
    { unfold gather_filter. rewrite Hsc, Hcd. cbn [of_opt bind f_bind_schema cfg_fixed negb orb]. rewrite Hb. reflexivity. }
    eexists id, _. split; [exact Hid|]. split; [exact Hg|]. exact (filter_from_key cx id _ sp cd Hdist Hg Hcd Hkey).
  Qed.

  Lemma restr_stage a u p : received P = ROk (a, u, p) -> check_restrictions cfg_fixed R P cx (a ++ u) p = ROk tt.
  Proof.
    intros Hrec. destruct (received_assoc P a u p Hrec) as [Aattr Apred].
    unfold restr_true_legacy in Htrue. apply andb_true_iff in Htrue as [Ta Tp]. rewrite forallb_forall in Ta, Tp.
    unfold check_restrictions.
    unfold mixed_legacy_tags, request_tags in Hmixed. apply orb_false_iff in Hmixed as [M1 M2].
    rewrite M1, M2. cbn [negb guard bind].
    rewrite iter_total; [cbn [bind]|].
    - apply iter_total. intros [r pi] Hin. specialize (Tp _ Hin). cbn beta iota in Tp.
      destruct (pi_restr pi) as [q|]; [|reflexivity].
      destruct (assoc r (rp_preds (p_rp P))) as [i|] eqn:Ei; [|discriminate].
      destruct (nthZ (p_proofs P) i) as [sp|] eqn:Esp; [|discriminate].
      destruct (gf i sp Esp) as (id & f & Hid & Hg & Hfo). rewrite Hfo in Tp.
      rewrite Apred, Ei, Hid. cbn [of_opt bind]. rewrite Hg. cbn [of_opt_panic bind].
      rewrite (mapR_fn _ (fun '(ar, (j, raw, _)) => if j =? i then match assoc ar (List.filter (fun '(r0, ai0) => negb (is_self_attested P r0 ai0)) (rq_attrs R)) with
                                     | Some ai => match ai_name ai with Some n => [(cv n, Some raw)] | None => [] end
                                     | None => [] end else [])).
      2:{ intros [ar [[j raw] enc]] _. cbn [f_no_unwrap_panic cfg_fixed]. unfold tagkey. cbn [f_w3c_norm_keys cfg_fixed].
          destruct (j =? i); [|reflexivity]. destruct (assoc ar _); reflexivity. }
      cbn [bind]. rewrite <- flat_map_concat_map. unfold tagkey. cbn [f_w3c_norm_keys cfg_fixed]. apply guard_true. exact Tp.
    - intros [r ai] Hin. apply filter_In in Hin as [Hin Hsa]. apply negb_true_iff in Hsa. specialize (Ta _ Hin). cbn beta iota in Ta.
      destruct (ai_restr ai) as [q|]; [|reflexivity]. rewrite Hsa in Ta. fold (bound_of P r) in Ta.
      destruct (bound_of P r) as [i|] eqn:Eb; [|discriminate].
      destruct (nthZ (p_proofs P) i) as [sp|] eqn:Esp; [|discriminate].
      destruct (gf i sp Esp) as (id & f & Hid & Hg & Hfo). rewrite Hfo in Ta.
      rewrite Aattr, Eb, Hid. cbn [of_opt bind]. rewrite Hg. cbn [bind].
      unfold req_named in Hnamed. rewrite forallb_forall in Hnamed. specialize (Hnamed _ Hin). cbn [snd] in Hnamed.
      unfold tagkey. cbn [f_w3c_norm_keys cfg_fixed].
      destruct (ai_name ai) as [n|]; [cbn [bind]; apply guard_true; exact Ta|].
      destruct (ai_names ai) as [ns|]; [|discriminate].
      destruct (assoc r (rp_groups (p_rp P))) as [g|]; cbn [f_group_unrevealed cfg_fixed bind]; apply guard_true; exact Ta.
  Qed.

  Theorem c06_legacy_complete_sec : verify_legacy cfg_fixed R P cx = Accept.
  Proof.
    pose proof (verify_legacy_accept cfg_fixed _ _ _ Hbase) as A.
    destruct A as [aids uids pids regmap subs Hrec Hcmp Hval _ Hreg Hloop Hlen Hcl].
    rewrite strip_compare in Hcmp. rewrite strip_values in Hval. rewrite strip_loop in Hloop.
    unfold verify_legacy. rewrite Hrec. cbn [bind]. rewrite Hcmp. cbn [bind]. rewrite Hval. cbn [bind f_restr_revealed_first cfg_fixed].
    rewrite (restr_stage _ _ _ Hrec). cbn [bind]. rewrite Hreg. cbn [bind]. rewrite Hloop. cbn [bind].
    rewrite Hlen, Z.eqb_refl. cbn [guard bind]. exact Hcl.
  Qed.
End Complete.
