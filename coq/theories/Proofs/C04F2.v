From Coq Require Import List String Ascii ZArith NArith Bool Lia.
From AV Require Import Model.Str Model.Encode Model.Query Model.VTypes Model.Interval Model.Eval Model.CL Model.VerifierLegacy Model.VerifierW3C
  Model.VCfg Model.Prover Model.PProps Proofs.VMonad Proofs.C07Proofs.
From AV Require Import Proofs.C04F1.
Import ListNotations.
Local Open Scope string_scope.
Local Open Scope list_scope.
Local Open Scope Z_scope.

Section Loop2.
  Context (pc : pcfg) (R : request) (cx : ctx) (link : N).

  Definition a_rev (c : hcred) (k : Z) (l : list (string * bool)) (q : string) (v : Z * string * string) : Prop :=
    In (q, true) l /\ exists ai n raw enc, assoc q (rq_attrs R) = Some ai /\ ai_name ai = Some n /\ find_value c n = Some (raw, enc) /\ v = (k, raw, enc).
  Definition a_grp (c : hcred) (k : Z) (l : list (string * bool)) (q : string) (v : Z * list (string * (string * string))) : Prop :=
    In (q, true) l /\ exists ai ns vals, assoc q (rq_attrs R) = Some ai /\ ai_name ai = None /\ ai_names ai = Some ns /\
      mapR (fun n => v0 <- of_opt (find_value c n) ;; ROk (n, v0)) ns = ROk vals /\ v = (k, vals).
  Definition a_unr (k : Z) (l : list (string * bool)) (q : string) (v : Z) : Prop := In (q, false) l /\ v = k.

  Lemma upd_attrs_char c k l : forall rp rp', upd_attrs R c k l rp = ROk rp' ->
    rp_self rp' = rp_self rp /\ rp_preds rp' = rp_preds rp /\
    (forall q v, In (q, v) (rp_revealed rp') <-> In (q, v) (rp_revealed rp) \/ a_rev c k l q v) /\
    (forall q v, In (q, v) (rp_groups rp') <-> In (q, v) (rp_groups rp) \/ a_grp c k l q v) /\
    (forall q v, In (q, v) (rp_unrev rp') <-> In (q, v) (rp_unrev rp) \/ a_unr k l q v) /\
    (forall q, In (q, true) l -> exists ai, assoc q (rq_attrs R) = Some ai).
  Proof.
    induction l as [|[r b] l IH]; intros rp rp' H; cbn [upd_attrs] in H.
    - injection H as <-. split; [reflexivity|]. split; [reflexivity|].
      split; [|split; [|split]]; try (intros q v; split; [intros Hin; left; exact Hin|intros [Hin|[[] _]]; exact Hin]).
      intros q [].
    - apply bind_ok in H as (rp1 & H1 & H). destruct (IH _ _ H) as (Is & Ip & Ir & Ig & Iu & Ia). clear IH.
      destruct (upd_attr_char R c k rp (r, b) rp1 H1) as (Ss & Sp & ai & Sa & Sr & Sg & Su).
      split; [congruence|]. split; [congruence|]. split; [|split; [|split]].
      + intros q v. rewrite Ir, Sr. unfold a_rev. split.
        * intros [[Hin|(-> & -> & n & raw & enc & Hn & Hf & ->)]|(Hl & Hex)].
          -- left. exact Hin.
          -- right. split; [left; reflexivity|]. exists ai, n, raw, enc. auto.
          -- right. split; [right; exact Hl|exact Hex].
        * intros [Hin|([Heq|Hl] & ai' & n & raw & enc & Ha & Hn & Hf & ->)].
          -- left. left. exact Hin.
          -- injection Heq as -> ->. left. right. split; [reflexivity|]. split; [reflexivity|].
             rewrite (Sa eq_refl) in Ha. injection Ha as <-. exists n, raw, enc. auto.
          -- right. split; [exact Hl|]. exists ai', n, raw, enc. auto.
      + intros q v. rewrite Ig, Sg. unfold a_grp. split.
        * intros [[Hin|(-> & -> & Hn & ns & vals & Hns & Hm & ->)]|(Hl & Hex)].
          -- left. exact Hin.
          -- right. split; [left; reflexivity|]. exists ai, ns, vals. auto 6.
          -- right. split; [right; exact Hl|exact Hex].
        * intros [Hin|([Heq|Hl] & ai' & ns & vals & Ha & Hn & Hns & Hm & ->)].
          -- left. left. exact Hin.
          -- injection Heq as -> ->. left. right. split; [reflexivity|]. split; [reflexivity|].
             rewrite (Sa eq_refl) in Ha. injection Ha as <-. split; [exact Hn|]. exists ns, vals. auto.
          -- right. split; [exact Hl|]. exists ai', ns, vals. auto 6.
      + intros q v. rewrite Iu, Su. unfold a_unr. split.
        * intros [[Hin|(-> & -> & ->)]|(Hl & ->)]; [left; exact Hin|right; split; [left; reflexivity|reflexivity]|right; split; [right; exact Hl|reflexivity]].
        * intros [Hin|([Heq|Hl] & ->)]; [left; left; exact Hin| |right; split; [exact Hl|reflexivity]].
          injection Heq as -> ->. left. right. auto.
      + intros q [Heq|Hl]; [|exact (Ia q Hl)]. injection Heq as -> ->. exists ai. exact (Sa eq_refl).
  Qed.

  Lemma fold_add_pred_char k l : forall rp,
    let rp' := fold_left (fun acc r => rp_add_pred r k acc) l rp in
    rp_revealed rp' = rp_revealed rp /\ rp_groups rp' = rp_groups rp /\ rp_unrev rp' = rp_unrev rp /\ rp_self rp' = rp_self rp /\
    (forall q v, In (q, v) (rp_preds rp') <-> In (q, v) (rp_preds rp) \/ (In q l /\ v = k)).
  Proof.
    induction l as [|x l IH]; intros rp; cbn [fold_left].
    - repeat split; try reflexivity; [intros H; left; exact H|intros [H|[[] _]]; exact H].
    - destruct (IH (rp_add_pred x k rp)) as (A & B & C & D & E). cbn [rp_add_pred rp_revealed rp_groups rp_unrev rp_self rp_preds] in *.
      repeat split; try assumption.
      + intros H. apply E in H as [[Heq|Hin]|(Hl & ->)]; [injection Heq as <- <-; right; split; [left; reflexivity|reflexivity]|left; exact Hin|right; split; [right; exact Hl|reflexivity]].
      + intros [Hin|([->|Hl] & ->)]; apply E; [left; right; exact Hin|left; left; reflexivity|right; split; [exact Hl|reflexivity]].
  Qed.

  (* the entry at index k (indices start at k0) *)
  Definition at_idx (E : list present) (k0 k : Z) (p : present) : Prop := k0 <= k /\ nthZ E (k - k0) = Some p.
  Fixpoint idx_from {A} (k : Z) (l : list A) : list (Z * A) := match l with [] => [] | x :: r => (k, x) :: idx_from (k + 1) r end.

  Lemma at_idx_cons E k0 k p x : 0 <= k0 -> (at_idx (x :: E) k0 k p <-> (k = k0 /\ p = x) \/ at_idx E (k0 + 1) k p).
  Proof.
    intros Hk. unfold at_idx. split.
    - intros [Hle Hn]. destruct (Z.eq_dec k k0) as [->|Hne].
      + rewrite Z.sub_diag in Hn. cbn in Hn. injection Hn as <-. left. auto.
      + right. split; [lia|]. rewrite nthZ_cons_pos in Hn by lia. replace (k - (k0 + 1)) with (k - k0 - 1) by lia. exact Hn.
    - intros [[-> ->]|[Hle Hn]].
      + split; [lia|]. rewrite Z.sub_diag. reflexivity.
      + split; [lia|]. rewrite nthZ_cons_pos by lia. replace (k - k0 - 1) with (k - (k0 + 1)) by lia. exact Hn.
  Qed.

  Lemma loop_char : forall ps k0 rp0 rp sps ids, 0 <= k0 ->
    legacy_loop pc R cx link ps k0 rp0 = ROk (rp, sps, ids) ->
    rp_self rp = rp_self rp0 /\
    (forall q v, In (q, v) (rp_revealed rp) <-> In (q, v) (rp_revealed rp0) \/ exists k p, at_idx (nonempty ps) k0 k p /\ a_rev (pr_cred p) k (pr_attrs p) q v) /\
    (forall q v, In (q, v) (rp_groups rp) <-> In (q, v) (rp_groups rp0) \/ exists k p, at_idx (nonempty ps) k0 k p /\ a_grp (pr_cred p) k (pr_attrs p) q v) /\
    (forall q v, In (q, v) (rp_unrev rp) <-> In (q, v) (rp_unrev rp0) \/ exists k p, at_idx (nonempty ps) k0 k p /\ a_unr k (pr_attrs p) q v) /\
    (forall q v, In (q, v) (rp_preds rp) <-> In (q, v) (rp_preds rp0) \/ exists k p, at_idx (nonempty ps) k0 k p /\ In q (pr_preds p) /\ v = k) /\
    ids = map ident_of (nonempty ps) /\
    Forall2 (fun kp sp => prover_sub_proof pc R cx link (fst kp) (snd kp) (fed_legacy (pr_cred (snd kp))) = ROk sp) (idx_from k0 (nonempty ps)) sps /\
    (forall p q, In p (nonempty ps) -> In (q, true) (pr_attrs p) -> exists ai, assoc q (rq_attrs R) = Some ai).
  Proof.
    induction ps as [|p ps IH]; intros k0 rp0 rp sps ids Hk H; cbn [legacy_loop] in H.
    - injection H as <- <- <-. cbn [nonempty List.filter map idx_from]. split; [reflexivity|].
      repeat split; try (intros Hin; left; exact Hin); try (intros [Hin|(k & p & [_ Hn] & _)]; [exact Hin|discriminate]); try constructor.
      intros p q [].
    - unfold nonempty in *. cbn [List.filter]. destruct (pr_empty p) eqn:Ee; cbn [negb].
      + exact (IH _ _ _ _ _ Hk H).
      + apply bind_ok in H as (rp1 & Hu & H). apply bind_ok in H as (sp & Hsp & H).
        apply bind_ok in H as ([[rpf sps'] ids'] & Hrest & H). injection H as <- <- <-.
        assert (Hk1 : 0 <= k0 + 1) by lia.
        destruct (IH _ _ _ _ _ Hk1 Hrest) as (Is & Ir & Ig & Iu & Ip & Iids & IF & Ia). clear IH.
        unfold upd_rp in Hu. apply bind_ok in Hu as (rpa & Ha & Hu). injection Hu as <-.
        destruct (upd_attrs_char _ _ _ _ _ Ha) as (As & Ap & Ar & Ag & Au & Aa).
        destruct (fold_add_pred_char k0 (pr_preds p) rpa) as (Fr & Fg & Fu & Fs & Fp).
        cbn zeta in Fr, Fg, Fu, Fs, Fp.
        split; [congruence|]. split; [|split; [|split; [|split; [|split; [|split]]]]].
        * intros q v. rewrite Ir, Fr, Ar. split.
          -- intros [[Hin|Hc]|(k & p' & Hat & Hc)]; [left; exact Hin|right; exists k0, p; split; [apply at_idx_cons; auto|exact Hc]|right; exists k, p'; split; [apply at_idx_cons; auto|exact Hc]].
          -- intros [Hin|(k & p' & Hat & Hc)]; [left; left; exact Hin|]. apply at_idx_cons in Hat; [|exact Hk]. destruct Hat as [[-> ->]|Hat]; [left; right; exact Hc|right; exists k, p'; auto].
        * intros q v. rewrite Ig, Fg, Ag. split.
          -- intros [[Hin|Hc]|(k & p' & Hat & Hc)]; [left; exact Hin|right; exists k0, p; split; [apply at_idx_cons; auto|exact Hc]|right; exists k, p'; split; [apply at_idx_cons; auto|exact Hc]].
          -- intros [Hin|(k & p' & Hat & Hc)]; [left; left; exact Hin|]. apply at_idx_cons in Hat; [|exact Hk]. destruct Hat as [[-> ->]|Hat]; [left; right; exact Hc|right; exists k, p'; auto].
        * intros q v. rewrite Iu, Fu, Au. split.
          -- intros [[Hin|Hc]|(k & p' & Hat & Hc)]; [left; exact Hin|right; exists k0, p; split; [apply at_idx_cons; auto|exact Hc]|right; exists k, p'; split; [apply at_idx_cons; auto|exact Hc]].
          -- intros [Hin|(k & p' & Hat & Hc)]; [left; left; exact Hin|]. apply at_idx_cons in Hat; [|exact Hk]. destruct Hat as [[-> ->]|Hat]; [left; right; exact Hc|right; exists k, p'; auto].
        * intros q v. rewrite Ip, Fp, Ap. split.
          -- intros [[Hin|(Hl & ->)]|(k & p' & Hat & Hc)]; [left; exact Hin|right; exists k0, p; split; [apply at_idx_cons; auto|auto]|right; exists k, p'; split; [apply at_idx_cons; auto|exact Hc]].
          -- intros [Hin|(k & p' & Hat & Hl & ->)]; [left; left; exact Hin|]. apply at_idx_cons in Hat; [|exact Hk]. destruct Hat as [[-> ->]|Hat]; [left; right; auto|right; exists k, p'; auto].
        * cbn [map]. rewrite Iids. reflexivity.
        * cbn [idx_from]. constructor; [exact Hsp|exact IF].
        * intros p' q [<-|Hin] Hq; [exact (Aa q Hq)|exact (Ia p' q Hin Hq)].
  Qed.
End Loop2.
