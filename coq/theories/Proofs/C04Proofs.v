(* C04: honest flows verify. Proved here: the CL layer — every sub-proof the prover models build
   from a correctly issued credential, with the holder's own link secret, passes the ideal CL check
   under the issuer's key at the position it was built for (for every request and selection), and
   so does a whole list of them. The end-to-end statement [c04_statement] is written out in full;
   its remaining stages (referent comparison, value comparison, restrictions, intervals) are
   decided per case by the correspondence run (flow_legacy / flow_w3c against the library). *)
From Coq Require Import List String Ascii ZArith NArith Bool Lia.
From AV Require Import Model.Str Model.Encode Model.Query Model.VTypes Model.Interval Model.CL Model.VerifierLegacy Model.VerifierW3C
  Model.VCfg Model.Prover Model.PProps Proofs.VMonad.
Import ListNotations.
Local Open Scope string_scope.
Local Open Scope list_scope.
Local Open Scope Z_scope.

(* the full statement *)
Definition c04_statement : Prop :=
  forall c, (honest_legacy cfg_fixed c = true -> forall o, flow_legacy cfg_fixed pcfg_fixed c = Some o -> o = Accept)
         /\ (honest_w3c cfg_fixed pcfg_fixed c = true -> forall o, flow_w3c cfg_fixed pcfg_fixed c = Some o -> o = Accept).

Lemma values_agree_assoc fed signed k v : values_agree fed signed = true -> In (k, v) fed ->
  exists e, assoc k signed = Some e /\ String.eqb e v = true.
Proof.
  unfold values_agree. intros H Hin. apply andb_prop in H as [H _].
  rewrite forallb_forall in H. specialize (H _ Hin). cbn in H.
  destruct (assoc k signed) as [e|]; [exists e; split; [reflexivity|exact H]|discriminate].
Qed.

Lemma assoc_In_fed {V} k (m : list (string * V)) v : assoc k m = Some v -> In (k, v) m.
Proof. exact (assoc_In k m v). Qed.

Lemma pred_holds_transfer fed signed p : values_agree fed signed = true -> pred_holds fed p = true -> pred_holds signed p = true.
Proof.
  destruct p as [[n t] v]. unfold pred_holds. intros Ha H.
  destruct (assoc n fed) as [e|] eqn:E; [|discriminate].
  destruct (values_agree_assoc _ _ _ _ Ha (assoc_In _ _ _ E)) as (e' & -> & He). apply String.eqb_eq in He. subst e'. exact H.
Qed.

(* one honest sub-proof *)
Theorem c04_sub_proof_verifies src fed attrs revealed preds nrpo link pos sp common reg :
  cl_prove src fed attrs revealed preds nrpo link pos = ROk sp ->
  src_altered src = false -> src_cred_link src = link -> values_agree fed (src_values src) = true ->
  set_eqb attrs (src_attrs src) = true ->
  match nrpo, reg with
  | Some n, Some (rk, acc) => nrp_valid n = true /\ nrp_regkey n = rk /\ nrp_acc n = acc
  | Some _, None => False
  | None, _ => True end ->
  sub_ok common link pos (sp, src_key src, attrs, reg) = true.
Proof.
  unfold cl_prove. intros H Halt Hlink Hag Hattrs Hn.
  apply bind_ok in H as (_ & _ & H). apply bind_ok in H as (rv & Hrv & H).
  apply bind_ok in H as (_ & _ & H). apply bind_ok in H as (_ & _ & H). apply bind_ok in H as (u & Hpreds & H).
  apply bind_ok in H as (_ & _ & H). injection H as <-. apply guard_ok in Hpreds.
  unfold sub_ok. cbn [sp_src sp_revealed sp_preds sp_nrp src_altered src_key src_cred_link src_used_link src_pos src_attrs src_values].
  rewrite Halt, Hag. cbn [negb orb]. rewrite N.eqb_refl, Hlink, N.eqb_refl, Z.eqb_refl, Hattrs. cbn [andb].
  assert (Hr : forallb (fun '(k, v) => match assoc k (src_values src) with Some e => String.eqb e v | None => false end) rv = true).
  { apply forallb_forall. intros [k v] Hin.
    assert (Hf : In (k, v) fed).
    { apply mapR_ok in Hrv. clear -Hrv Hin. induction Hrv as [|x y l1 l2 Hxy HF IH]; [destruct Hin|].
      destruct Hin as [<-|Hin]; [|exact (IH Hin)].
      apply bind_ok in Hxy as (e & He & Hxy). inversion Hxy; subst. apply of_opt_ok in He. exact (assoc_In _ _ _ He). }
    destruct (values_agree_assoc _ _ _ _ Hag Hf) as (e & -> & He). exact He. }
  rewrite Hr. cbn [andb].
  assert (Hp : forallb (pred_holds (src_values src)) preds = true).
  { apply forallb_forall. intros p Hin. rewrite forallb_forall in Hpreds. exact (pred_holds_transfer _ _ _ Hag (Hpreds _ Hin)). }
  rewrite Hp. cbn [andb].
  assert (Hnn : match nrpo, reg with
                | Some n, Some (rk, acc) => nrp_valid n && N.eqb (nrp_regkey n) rk && N.eqb (nrp_acc n) acc
                | Some _, None => false | None, _ => true end = true).
  { destruct nrpo as [n|]; [|reflexivity]. destruct reg as [[rk acc]|]; [|destruct Hn].
    destruct Hn as (-> & -> & ->). rewrite !N.eqb_refl. reflexivity. }
  rewrite Hnn. cbn [andb]. destruct common; reflexivity.
Qed.

(* non-vacuity: a concrete honest sub-proof exists and passes *)
Example c04_sub_proof_example :
  exists sp, cl_prove {| src_key := 1; src_attrs := ["name"; "age"]; src_values := [("name", encode "Alex"); ("age", "28")];
                         src_cred_link := 7; src_used_link := 0; src_pos := 0; src_altered := false |}
                      [("name", encode "Alex"); ("age", "28")] ["name"; "age"] ["name"] [("age", GE, 18)] None 7 0 = ROk sp
             /\ sub_ok true 7 0 (sp, 1%N, ["name"; "age"], None) = true.
Proof. eexists. split; [vm_compute; reflexivity|]. vm_compute. reflexivity. Qed.

(* the behaviour before fix commit b9354dd (W3C sub-proofs zipped with ALL entries): an unused
   credential passed along first makes the honest flow fail *)
Definition pcfg_no_zip : pcfg := {| pf_w3c_zip := false; pf_group_reveal := true; pf_unrev_intervals := true |}.
Definition z_src1 := {| src_key := 1; src_attrs := ["name"; "age"]; src_values := [("name", encode "Alex"); ("age", "28")];
                        src_cred_link := 7; src_used_link := 0; src_pos := 0; src_altered := false |}.
Definition z_c1 := {| hc_schema := "schema:one"; hc_creddef := "creddef:one"; hc_revreg := None; hc_issuer := "issuer:one";
                      hc_values := [("name", ("Alex", encode "Alex")); ("age", ("28", "28"))];
                      hc_subject := [("name", VStr "Alex"); ("age", VNum 28)]; hc_src := z_src1 |}.
Definition z_src2 := {| src_key := 2; src_attrs := ["role"]; src_values := [("role", encode "dev")];
                        src_cred_link := 7; src_used_link := 0; src_pos := 0; src_altered := false |}.
Definition z_c2 := {| hc_schema := "schema:two"; hc_creddef := "creddef:two"; hc_revreg := None; hc_issuer := "issuer:two";
                      hc_values := [("role", ("dev", encode "dev"))]; hc_subject := [("role", VStr "dev")]; hc_src := z_src2 |}.
Definition z_cx := {| cx_schemas := [("schema:one", {| sc_name := "s"; sc_version := "1.0"; sc_issuer := "issuer:one"; sc_attrs := ["name"; "age"] |});
                                    ("schema:two", {| sc_name := "t"; sc_version := "1.0"; sc_issuer := "issuer:two"; sc_attrs := ["role"] |})];
                      cx_creddefs := [("creddef:one", {| cd_schema_id := "schema:one"; cd_issuer := "issuer:one"; cd_key := 1; cd_revkey := None |});
                                     ("creddef:two", {| cd_schema_id := "schema:two"; cd_issuer := "issuer:two"; cd_key := 2; cd_revkey := None |})];
                      cx_regdefs := None; cx_lists := None; cx_override := None |}.
Definition z_req := {| rq_nonce := 5; rq_attrs := [("a1", {| ai_name := Some "name"; ai_names := None; ai_restr := None; ai_nr := None |})]; rq_preds := []; rq_nr := None |}.
Definition z_case := {| pc_req := z_req; pc_cx := z_cx; pc_link := 7;
                        pc_sel := [{| pr_cred := z_c2; pr_ts := None; pr_state := None; pr_attrs := []; pr_preds := [] |};
                                   {| pr_cred := z_c1; pr_ts := None; pr_state := None; pr_attrs := [("a1", true)]; pr_preds := [] |}];
                        pc_self := [] |}.
Lemma c04_unfixed_refuted :
  honest_w3c cfg_fixed pcfg_no_zip z_case = true /\ flow_w3c cfg_fixed pcfg_no_zip z_case = Some Err.
Proof. split; vm_compute; reflexivity. Qed.
(* the statement holds on the same case for the repaired behaviours (both formats) *)
Example c04_fixed_on_witness :
  honest_w3c cfg_fixed pcfg_fixed z_case = true /\ flow_w3c cfg_fixed pcfg_fixed z_case = Some Accept
  /\ honest_legacy cfg_fixed z_case = true /\ flow_legacy cfg_fixed pcfg_fixed z_case = Some Accept.
Proof. repeat split; vm_compute; reflexivity. Qed.

(* the behaviour before fix commit f302f8d (W3C search stops at the first credential that meets the
   conditions, even when it lacks the non-revocation proof they call for): a revocable credential
   shown with a timestamp but for referents without interval, placed before a non-revocable one
   that serves the same attribute name under an interval, makes the honest flow fail *)
Definition cfg_no_search : vcfg :=
  {| f_check_preds := true; f_unrev_in_schema := true; f_unrev_intervals := true;
     f_gate_on_creddef := true; f_require_nrp := true; f_w3c_strict_subject := true;
     f_common_link := true; f_bind_schema := true; f_w3c_norm_keys := true; f_marker := true;
     f_no_index_panic := true; f_no_unwrap_panic := true; f_pred_range := true;
     f_w3c_pred_cv := true; f_group_unrevealed := true; f_group_keys := true; f_w3c_nrp_search := false; f_restr_revealed_first := true |}.
Definition s_srcr := {| src_key := 1; src_attrs := ["name"; "age"]; src_values := [("name", encode "Alex"); ("age", "28")];
                        src_cred_link := 7; src_used_link := 0; src_pos := 0; src_altered := false |}.
Definition s_cr := {| hc_schema := "schema:one"; hc_creddef := "creddef:rev"; hc_revreg := Some "reg:1"; hc_issuer := "issuer:one";
                      hc_values := [("name", ("Alex", encode "Alex")); ("age", ("28", "28"))];
                      hc_subject := [("name", VStr "Alex"); ("age", VNum 28)]; hc_src := s_srcr |}.
Definition s_src2 := {| src_key := 2; src_attrs := ["name"; "age"]; src_values := [("name", encode "Alex"); ("age", "28")];
                        src_cred_link := 7; src_used_link := 0; src_pos := 0; src_altered := false |}.
Definition s_c2 := {| hc_schema := "schema:one"; hc_creddef := "creddef:two"; hc_revreg := None; hc_issuer := "issuer:two";
                      hc_values := [("name", ("Alex", encode "Alex")); ("age", ("28", "28"))];
                      hc_subject := [("name", VStr "Alex"); ("age", VNum 28)]; hc_src := s_src2 |}.
Definition s_cx := {| cx_schemas := [("schema:one", {| sc_name := "s"; sc_version := "1.0"; sc_issuer := "issuer:one"; sc_attrs := ["name"; "age"] |})];
                      cx_creddefs := [("creddef:rev", {| cd_schema_id := "schema:one"; cd_issuer := "issuer:one"; cd_key := 1; cd_revkey := Some 1%N |});
                                     ("creddef:two", {| cd_schema_id := "schema:one"; cd_issuer := "issuer:two"; cd_key := 2; cd_revkey := None |})];
                      cx_regdefs := Some [("reg:1", 1%N)]; cx_lists := Some [(Some "reg:1", Some 100%Z, Some 0%N)]; cx_override := None |}.
Definition s_req := {| rq_nonce := 5;
                       rq_attrs := [("a1", {| ai_name := Some "age"; ai_names := None; ai_restr := None; ai_nr := None |});
                                    ("a2", {| ai_name := Some "age"; ai_names := None; ai_restr := None; ai_nr := Some {| ifrom := None; ito := None |} |})];
                       rq_preds := []; rq_nr := None |}.
Definition s_case := {| pc_req := s_req; pc_cx := s_cx; pc_link := 7;
                        pc_sel := [{| pr_cred := s_cr; pr_ts := Some 100%Z; pr_state := Some {| nrp_regkey := 1; nrp_acc := 0; nrp_valid := true |}; pr_attrs := [("a1", true)]; pr_preds := [] |};
                                   {| pr_cred := s_c2; pr_ts := None; pr_state := None; pr_attrs := [("a2", true)]; pr_preds := [] |}];
                        pc_self := [] |}.
Lemma c04_unfixed_search_refuted :
  honest_w3c cfg_no_search pcfg_fixed s_case = true /\ flow_w3c cfg_no_search pcfg_fixed s_case = Some Err.
Proof. split; vm_compute; reflexivity. Qed.
Example c04_fixed_search_on_witness :
  honest_w3c cfg_fixed pcfg_fixed s_case = true /\ flow_w3c cfg_fixed pcfg_fixed s_case = Some Accept.
Proof. split; vm_compute; reflexivity. Qed.
