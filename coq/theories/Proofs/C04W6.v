(* part 6 (revocation class): registration of the built entries with their registries, the CL stage, the theorem *)
From Coq Require Import List String Ascii ZArith NArith Bool Lia.
From AV Require Import Model.Str Model.Encode Model.Query Model.VTypes Model.Interval Model.Eval Model.CL Model.VerifierLegacy Model.VerifierW3C
  Model.VCfg Model.VProps Model.Prover Model.PProps Proofs.VMonad Proofs.C04F1 Proofs.C04F3 Proofs.C04F4 Proofs.C04F5 Proofs.C04F6 Proofs.C04F8 Proofs.C07Proofs Proofs.C04Proofs
  Proofs.VW3CSearch Proofs.VW3CC1 Proofs.VW3CC2 Proofs.VW3CC3 Proofs.VW3CC5.
From AV Require Import Proofs.C04W1 Proofs.C04W2 Proofs.C04W3 Proofs.C04W4 Proofs.C04W4b Proofs.C04W4c Proofs.C04W5.
Import ListNotations.
Local Open Scope string_scope.
Local Open Scope list_scope.
Local Open Scope Z_scope.

Section Rev4.
  Context (R : request) (cx : ctx) (link : N) (ps : list present).
  Notation E := (nonempty ps).
  Notation c0 := (mk_case R cx link ps []).
  Context (Hclass : w3c_rev_r c0 = true).

  (* the registry data of an entry that names a timestamp *)
  Lemma rev_regs p rid t : In p E -> hc_revreg (pr_cred p) = Some rid -> pr_ts p = Some t ->
    exists n defs m rk acc, pr_state p = Some n /\ cx_regdefs cx = Some defs /\ build_regmap cx = ROk (Some m) /\
      assoc rid defs = Some rk /\ find_list m rid t = Some acc /\
      (entry_intervals_w3c R p <> [] -> nrp_valid n = true /\ nrp_regkey n = rk /\ nrp_acc n = acc).
  Proof.
    intros Hp Hrid Hts. destruct (entry_facts_w R cx link ps Hclass p Hp) as [sc cd fed Hsc Hcd Hi Hk Hr Ha Halt Hl Hfw Hag Hpl Hheld Hrev].
    unfold rev_ok_w3c, rev_ok in Hrev. cbn [pc_cx pc_req mk_case] in Hrev. rewrite Hrid, Hts in Hrev.
    destruct (pr_state p) as [n|] eqn:E1; [|discriminate].
    destruct (cx_regdefs cx) as [defs|] eqn:E2; [|discriminate]. destruct (build_regmap cx) as [[m|]| |] eqn:E3; try discriminate.
    destruct (assoc rid defs) as [rk|] eqn:E4; [|discriminate]. destruct (find_list m rid t) as [acc|] eqn:E5; [|discriminate].
    exists n, defs, m, rk, acc. split; [reflexivity|]. split; [reflexivity|]. split; [reflexivity|]. split; [exact E4|]. split; [exact E5|].
    intros Hne. destruct (entry_intervals_w3c R p) as [|d ds]; [elim Hne; reflexivity|]. rewrite !andb_true_iff in Hrev. destruct Hrev as [[[Hv Hnv] Hnk] Hna].
    split; [exact Hnv|]. split; apply N.eqb_eq; assumption.
  Qed.
  Lemma no_ts_no_state p : In p E -> pr_ts p = None -> pr_state p = None.
  Proof.
    intros Hp Hts. destruct (entry_facts_w R cx link ps Hclass p Hp) as [sc cd fed Hsc Hcd Hi Hk Hr Ha Halt Hl Hfw Hag Hpl Hheld Hrev].
    unfold rev_ok_w3c, rev_ok in Hrev. rewrite Hts in Hrev. destruct (hc_revreg (pr_cred p)).
    - destruct (pr_state p); [discriminate|reflexivity].
    - cbn [is_some negb andb] in Hrev. destruct (pr_state p); [discriminate|reflexivity].
  Qed.
  Lemma no_reg_no_ts p : In p E -> hc_revreg (pr_cred p) = None -> pr_ts p = None.
  Proof.
    intros Hp Hn. destruct (entry_facts_w R cx link ps Hclass p Hp) as [sc cd fed Hsc Hcd Hi Hk Hr Ha Halt Hl Hfw Hag Hpl Hheld Hrev].
    unfold rev_ok_w3c, rev_ok in Hrev. rewrite Hn in Hrev. destruct (pr_ts p); [discriminate|reflexivity].
  Qed.

  (* no demand at all on an entry: its sub-proof carries no non-revocation part *)
  Lemma nrp_absent p j fed sp : In p E -> prover_sub_proof pcfg_fixed R cx link j p fed = ROk sp -> entry_intervals_w3c R p = [] -> sp_nrp sp = None.
  Proof.
    intros Hp Hs Hnil. destruct (sub_inv_nrp R cx link j p fed sp Hs) as (ais & uis & pis & Hais & Huis & Hpis & Hn). rewrite Hn.
    destruct (hc_revreg (pr_cred p)); [|reflexivity].
    (* every referent of p: no own interval, and no request-wide one *)
    assert (Hall : forall o, In o (entry_infos R p) -> o = None /\ rq_nr R = None).
    { intros o Ho. unfold entry_intervals_w3c in Hnil.
      assert (Hg : opt_list (match o with Some l => Some l | None => rq_nr R end) = []).
      { destruct (opt_list (match o with Some l => Some l | None => rq_nr R end)) as [|x xs] eqn:Eo; [reflexivity|].
        assert (Hin : In x (flat_map (fun o0 => opt_list (match o0 with Some l => Some l | None => rq_nr R end)) (entry_infos R p))).
        { apply in_flat_map. exists o. split; [exact Ho|]. rewrite Eo. left. reflexivity. }
        rewrite Hnil in Hin. destruct Hin. }
      destruct o as [l|]; [discriminate|]. split; [reflexivity|]. destruct (rq_nr R); [discriminate|reflexivity]. }
    assert (HA : forall r b ai, In (r, b) (pr_attrs p) -> assoc r (rq_attrs R) = Some ai -> ai_nr ai = None /\ rq_nr R = None).
    { intros r b ai Hrb Has. apply Hall. unfold entry_infos. apply in_or_app. left. apply in_flat_map. exists (r, b). split; [exact Hrb|]. cbn beta iota. rewrite Has. left. reflexivity. }
    assert (HP : forall r pi, In r (pr_preds p) -> assoc r (rq_preds R) = Some pi -> pi_nr pi = None /\ rq_nr R = None).
    { intros r pi Hr Has. apply Hall. unfold entry_infos. apply in_or_app. right. apply in_flat_map. exists r. split; [exact Hr|]. rewrite Has. left. reflexivity. }
    assert (Fa : fold_left (fun acc ai => merge_opt acc (ai_nr ai)) ais None = None).
    { apply fold_merge_none. intros ai Hai. destruct (Forall2_in_r _ _ _ _ Hais Hai) as (r & Hr & Has).
      apply in_map_iff in Hr as ([r' b] & Hfst & Hf). cbn [fst] in Hfst. subst r'. apply filter_In in Hf as [Hf _]. exact (proj1 (HA r b ai Hf Has)). }
    assert (Fu : fold_left (fun acc ai => merge_opt acc (ai_nr ai)) uis None = None).
    { apply fold_merge_none. intros ai Hai. destruct (Forall2_in_r _ _ _ _ Huis Hai) as (r & Hr & Has).
      apply in_map_iff in Hr as ([r' b] & Hfst & Hf). cbn [fst] in Hfst. subst r'. apply filter_In in Hf as [Hf _]. exact (proj1 (HA r b ai Hf Has)). }
    assert (Fp : fold_left (fun acc pi => merge_opt acc (pi_nr pi)) pis None = None).
    { apply fold_merge_none. intros pi Hpi. destruct (Forall2_in_r _ _ _ _ Hpis Hpi) as (r & Hr & Has). exact (proj1 (HP r pi Hr Has)). }
    rewrite Fa, Fu, Fp. cbn [merge_opt].
    (* p serves some referent *)
    assert (Hg : rq_nr R = None).
    { apply filter_In in Hp as [_ Hne]. apply negb_true_iff in Hne. unfold pr_empty in Hne.
      destruct (pr_attrs p) as [|[r b] ra] eqn:Ea.
      - destruct (pr_preds p) as [|r rp] eqn:Ep; [discriminate|]. inversion Hpis as [|x y l1 l2 Hxy HF]; subst. exact (proj2 (HP r y (or_introl eq_refl) Hxy)).
      - destruct b.
        + cbn [List.filter snd map fst] in Hais. inversion Hais as [|x y l1 l2 Hxy HF]; subst. exact (proj2 (HA r true y (or_introl eq_refl) Hxy)).
        + cbn [List.filter snd negb map fst] in Huis. inversion Huis as [|x y l1 l2 Hxy HF]; subst. exact (proj2 (HA r false y (or_introl eq_refl) Hxy)). }
    rewrite Hg. reflexivity.
  Qed.

  Lemma built_registered_rev regmap needs : build_regmap cx = ROk regmap ->
    forall k E' sps creds, built R cx link k E' sps creds -> (forall p, In p E' -> In p E) ->
    (forall j c id sp, In j needs -> k <= j -> nthZ (cs_of E' sps creds) (j - k) = Some (c, (id, sp)) -> has_nrp sp = true) ->
    exists subs, add_all cfg_fixed cx regmap needs k (cs_of E' sps creds) = ROk subs /\ lenZ subs = lenZ sps /\
      subs_ok true link k subs = true /\
      existsb (fun '(sp, _, _, _) => existsb pred_overflows (sp_preds sp)) subs = false /\
      match subs with (sp, _, _, _) :: _ => src_used_link (sp_src sp) = link | [] => True end.
  Proof.
    intros Hregmap k E' sps creds Hb. induction Hb as [|k p E' sp sps c creds fed subj Hf Hs Hsubj Hc Hr IH]; intros Hsub Hneed.
    - exists []. repeat split; reflexivity.
    - destruct IH as (subs & Hadd & Hlen & Hok & Hov & _).
      { intros q Hq. apply Hsub. right. exact Hq. }
      { intros j c' id' sp' Hj Hle Hn. apply (Hneed j c' id' sp' Hj); [lia|]. cbn [cs_of]. rewrite nthZ_cons_pos by lia. replace (j - k - 1) with (j - (k + 1)) by lia. exact Hn. }
      assert (HpE : In p E) by (apply Hsub; left; reflexivity).
      destruct (entry_facts_w R cx link ps Hclass p HpE) as [sc cd fed' Hsc Hcd Hi Hk Hrv Ha Halt Hl Hfw Hag Hpl Hheld Hrevok].
      rewrite Hf in Hfw. inversion Hfw; subst fed'. clear Hfw.
      destruct (sub_inv_gen R cx link k p fed sp Hs) as (sc' & cd' & ais & pis & Hsc' & Hcd' & Hais & Hpis & nrpo & Hnrp & Hpv).
      rewrite Hsc in Hsc'. inversion Hsc'; subst sc'. rewrite Hcd in Hcd'. inversion Hcd'; subst cd'. clear Hsc' Hcd'.
      destruct (cl_prove_shape _ _ _ _ _ _ _ _ _ (pv_cl _ _ _ _ _ _ _ _ _ Hpv)) as (Hpreds & Hnrpo & Hholds & Hsrc).
      pose proof (pv_no_overflow _ _ _ _ _ _ _ _ _ Hpv) as Hnov. pose proof (pv_preds_in _ _ _ _ _ _ _ _ _ Hpv) as Hpin.
      cbn [cs_of add_all].
      (* the non-revocation requirement *)
      assert (Hreq : require_nrp cfg_fixed (existsb (Z.eqb k) needs) sp = ROk tt).
      { unfold require_nrp. cbn [f_require_nrp cfg_fixed negb orb]. destruct (existsb (Z.eqb k) needs) eqn:Ee; [|reflexivity]. cbn [negb orb].
        apply existsb_exists in Ee as (x & Hx & Hkx). apply Z.eqb_eq in Hkx. subst x.
        assert (Hh : has_nrp sp = true).
        { apply (Hneed k c (ident_of p) sp Hx (Z.le_refl k)). cbn [cs_of]. rewrite Z.sub_diag. subst c. reflexivity. }
        unfold has_nrp in Hh. rewrite Hh. reflexivity. }
      rewrite Hreq. cbn [bind].
      (* the registry of the entry, as the verifier finds it *)
      assert (Hregv : exists regv, add_sub_proof cfg_fixed cx regmap sp (ident_of p) = ROk (sp, cd_key cd, map cv (sc_attrs sc), regv) /\
                match sp_nrp sp, regv with
                | Some n, Some (rk, acc) => nrp_valid n && N.eqb (nrp_regkey n) rk && N.eqb (nrp_acc n) acc
                | Some _, None => false | None, _ => true end = true).
      { assert (G1 : subset (keys (sp_revealed sp)) (map cv (sc_attrs sc)) = true).
        { apply subset_spec. intros m Hm. apply in_keys in Hm as (e & Hme).
          destruct (pv_rev_out _ _ _ _ _ _ _ _ _ Hpv _ _ Hme) as [_ Hass].
          apply (set_eqb_elim _ _ (pv_attrs _ _ _ _ _ _ _ _ _ Hpv)). apply in_keys. exists e. exact (assoc_In _ _ _ Hass). }
        assert (G2 : subset (map (fun p0 : string * ptype * Z => fst (fst p0)) (sp_preds sp)) (map cv (sc_attrs sc)) = true).
        { rewrite Hpreds. apply subset_spec. intros m Hm. apply in_map_iff in Hm as (q & <- & Hq). rewrite forallb_forall in Hpin. specialize (Hpin _ Hq). apply mem_In in Hpin.
          exact (proj1 (set_eqb_elim _ _ (pv_attrs _ _ _ _ _ _ _ _ _ Hpv) _) Hpin). }
        assert (G3 : negb (f_pred_range cfg_fixed) || negb (existsb pred_overflows (sp_preds sp)) = true) by (rewrite Hpreds, Hnov; reflexivity).
        unfold add_sub_proof. cbn [ident_of id_schema id_creddef id_revreg id_ts]. rewrite Hsc, Hcd. cbn [of_opt bind].
        destruct (hc_revreg (pr_cred p)) as [rid|] eqn:Erid.
        - destruct (pr_ts p) as [t|] eqn:Ets.
          + destruct (rev_regs p rid t HpE Erid Ets) as (n & defs & m & rk & acc & Hst & Hdefs & Hm & Hrk & Hacc & Hval).
            rewrite Hm in Hregmap. inversion Hregmap; subst regmap. rewrite Hdefs. cbn [of_opt bind]. rewrite Hrk, Hacc. cbn [of_opt bind].
            rewrite G1. cbn [guard bind]. rewrite G2. cbn [guard bind]. rewrite G3. cbn [guard bind].
            cbn [is_some] in Hrv. destruct (cd_revkey cd) as [rkey|]; [|discriminate].
            eexists. split; [reflexivity|].
            destruct (entry_intervals_w3c R p) as [|d ds] eqn:Edem.
            * rewrite (nrp_absent p k fed sp HpE Hs Edem). reflexivity.
            * assert (Hne : entry_intervals_w3c R p <> []) by (rewrite Edem; discriminate).
              rewrite (nrp_present R cx link ps p k fed sp rid HpE Hs Erid Hne), Hst.
              destruct (Hval ltac:(discriminate)) as (V1 & V2 & V3). rewrite V1, V2, V3, !N.eqb_refl. reflexivity.
          + rewrite G1. cbn [guard bind]. rewrite G2. cbn [guard bind]. rewrite G3. cbn [guard bind].
            eexists. split; [reflexivity|].
            assert (Hnone : sp_nrp sp = None).
            { destruct (entry_intervals_w3c R p) as [|d ds] eqn:Edem; [exact (nrp_absent p k fed sp HpE Hs Edem)|].
              assert (Hne : entry_intervals_w3c R p <> []) by (rewrite Edem; discriminate).
              rewrite (nrp_present R cx link ps p k fed sp rid HpE Hs Erid Hne). exact (no_ts_no_state p HpE Ets). }
            rewrite Hnone. reflexivity.
        - rewrite G1. cbn [guard bind]. rewrite G2. cbn [guard bind]. rewrite G3. cbn [guard bind].
          eexists. split; [reflexivity|]. rewrite Hnrpo, (Hnrp eq_refl). reflexivity. }
      destruct Hregv as (regv & Hreg & Hnrpok).
      rewrite Hreg. cbn [bind]. rewrite Hadd. cbn [bind].
      exists ((sp, cd_key cd, map cv (sc_attrs sc), regv) :: subs). split; [reflexivity|]. split; [unfold lenZ in *; cbn [List.length]; lia|]. split.
      + cbn [subs_ok]. rewrite Hok, andb_true_r. unfold sub_ok. rewrite Hsrc. cbn [src_altered src_key src_cred_link src_used_link src_pos src_attrs src_values].
        rewrite Halt, Hag. cbn [negb orb andb]. rewrite Hk, N.eqb_refl, Hl, N.eqb_refl, Z.eqb_refl. cbn [andb].
        rewrite set_eqb_sym, Ha. cbn [andb]. rewrite Hnrpok. rewrite Hpreds.
        assert (Hh : forallb (pred_holds (src_values (hc_src (pr_cred p)))) (map (fun pi : pred_info => (cv (pi_name pi), pi_type pi, pi_value pi)) pis) = true).
        { apply forallb_forall. intros q Hq. rewrite forallb_forall in Hholds. exact (pred_holds_transfer _ _ _ Hag (Hholds _ Hq)). }
        rewrite Hh. cbn [andb]. rewrite !andb_true_r.
        apply forallb_forall. intros [m e] Hme. destruct (pv_rev_out _ _ _ _ _ _ _ _ _ Hpv _ _ Hme) as [_ Hass].
        unfold values_agree in Hag. apply andb_true_iff in Hag as [Hag _]. rewrite forallb_forall in Hag.
        specialize (Hag _ (assoc_In _ _ _ Hass)). cbn beta iota in Hag. exact Hag.
      + split; [cbn [existsb]; rewrite Hpreds, Hnov; cbn [orb]; exact Hov|]. rewrite Hsrc. reflexivity.
  Qed.
End Rev4.

(* END TO END, W3C format, with revocation: for every case of the class w3c_rev_r whose restrictions are true of the entries
   built for the referents they sit on, whatever presentation the prover model builds, the verifier model accepts it *)
Theorem c04_w3c_rev R cx link ps P :
  w3c_rev_r (mk_case R cx link ps []) = true ->
  (forall p subj sp r b ai, In p (nonempty ps) -> In (r, b) (pr_attrs p) -> assoc r (rq_attrs R) = Some ai -> build_subject pcfg_fixed R p = ROk subj ->
     restriction_true cfg_fixed cx (entry_of p subj sp) (ident_of p) (ai_restr ai)) ->
  (forall p subj sp r pi, In p (nonempty ps) -> In r (pr_preds p) -> assoc r (rq_preds R) = Some pi -> build_subject pcfg_fixed R p = ROk subj ->
     restriction_true cfg_fixed cx (entry_of p subj sp) (ident_of p) (pi_restr pi)) ->
  create_w3c pcfg_fixed R cx link ps = ROk P -> verify_w3c cfg_fixed R P cx = Accept.
Proof.
  intros Hclass Hra Hrp Hcreate.
  destruct (create_unpack R cx link ps P Hcreate) as (_ & sps & creds & Hb & ->).
  destruct (request_data_rev R cx link ps Hclass Hra Hrp sps creds Hb) as (needs & Hdata & Hcar).
  destruct (class_regmap R cx link ps Hclass) as [regmap Hreg].
  destruct (built_registered_rev R cx link ps Hclass regmap needs Hreg 0 _ sps creds Hb (fun p H => H)) as (subs & Hadd & Hlen & Hok & Hov & Hlink).
  { intros j c id sp Hj _ Hn. rewrite Z.sub_0_r in Hn. destruct (Hcar j Hj) as (c' & id' & sp' & Hn' & Hh). rewrite Hn in Hn'. inversion Hn'; subst. exact Hh. }
  apply verify_w3c_accept_iff. exists (cs_of (nonempty ps) sps creds), needs, {| ag_nonce := rq_nonce R; ag_count := lenZ sps; ag_altered := false; ag_common := true |}, regmap, subs.
  cbn [wp_shape_ok wp_creds wp_agg]. split; [reflexivity|]. split; [exact (decode_built R cx link 0 _ _ _ Hb)|]. split; [exact Hdata|]. split.
  { cbn [f_w3c_strict_subject cfg_fixed negb orb]. apply forallb_forall. intros [c [id sp]] Hin. exact (subject_ok R cx link ps Hclass sps creds Hb c id sp Hin). }
  split; [reflexivity|]. split; [exact Hreg|]. split; [exact Hadd|].
  unfold cl_verify. cbn [ag_count ag_altered ag_nonce ag_common f_common_link cfg_fixed]. rewrite Hlen, Z.eqb_refl. cbn [negb]. rewrite Hov.
  rewrite N.eqb_refl. cbn [negb andb orb].
  destruct subs as [|[[[sp0 k0] a0] r0] subs']; [reflexivity|]. rewrite Hlink, Hok. reflexivity.
Qed.
