(* C05: an accepted presentation is bound to the request nonce, ONE link secret, the credential
   definitions that signed its credentials, and is unaltered. *)
From Coq Require Import List String ZArith NArith Bool Lia.
From AV Require Import Model.Str Model.Encode Model.Query Model.VTypes Model.Interval Model.Eval Model.CL
  Model.VerifierLegacy Model.VerifierW3C Model.VCfg Model.VProps
  Proofs.VMonad Proofs.VLegacyProofs Proofs.VLegacyStruct Proofs.VCLFacts Proofs.VLegacyMaster Proofs.VW3CMaster.
Import ListNotations.
Open Scope string_scope.
Open Scope list_scope.
Open Scope Z_scope.

Lemma combine_snd {A B} (a : list A) (b : list B) : List.length a = List.length b -> map snd (combine a b) = b.
Proof.
  revert b. induction a as [|x a IH]; intros [|y b] H; cbn in *; try congruence. f_equal. apply IH. congruence.
Qed.
Lemma lenZ_inj {A B} (a : list A) (b : list B) : lenZ a = lenZ b -> List.length a = List.length b.
Proof. unfold lenZ. lia. Qed.

Section C05.
  Context (cfg : vcfg).

  Theorem c05_legacy R P cx : f_common_link cfg = true ->
    verify_legacy cfg R P cx = Accept -> ok_C05 (CLegacy R P cx) Accept = true.
  Proof.
    intros Hcommon H. apply (accepted_pairs cfg) in H. destruct H as (Hlen & Hcount & Halt & Hnonce & _ & Hpairs).
    unfold ok_C05. cbn [is_accept negb orb case_agg case_request case_subs case_ctx].
    rewrite (combine_snd _ _ (lenZ_inj _ _ Hlen)).
    rewrite Hnonce, N.eqb_refl, Halt. cbn [negb andb].
    (* per-pair facts from positions *)
    assert (Hsp : forall sp, In sp (p_proofs P) -> exists k id, nthZ (p_ids P) k = Some id /\ nthZ (p_proofs P) k = Some sp).
    { intros sp Hin. destruct (In_nthZ _ _ Hin) as [k Hk]. exists k.
      assert (0 <= k < lenZ (p_proofs P)) by (apply nthZ_some_iff; eauto).
      assert (Hid : exists id, nthZ (p_ids P) k = Some id) by (apply nthZ_some_iff; lia). destruct Hid as [id Hid]. eauto. }
    repeat (apply andb_true_intro; split).
    - (* one link secret *)
      unfold all_same_link. destruct (p_proofs P) as [|sp0 rest] eqn:Ep; [reflexivity|].
      apply forallb_forall. intros sp Hin. destruct (Hsp _ Hin) as (k & id & Hid & Hk).
      destruct (Hpairs _ _ _ Hid Hk) as [sc cd reg regmap x _ _ _ _ _ Hcl]. destruct Hcl as [_ _ Hlink _ _ _ _ _ Hc].
      rewrite Ep in Hc. cbn [link0_of] in Hc. rewrite (Hc Hcommon), Hlink, Hc by exact Hcommon. rewrite !N.eqb_refl. reflexivity.
    - (* the keys of the credential definitions the identifiers name signed the credentials *)
      unfold keys_match. apply forallb_forall. intros [id sp] Hin. destruct (In_nthZ _ _ Hin) as [k Hk].
      apply nthZ_combine in Hk. destruct Hk as [Hid Hk].
      destruct (Hpairs _ _ _ Hid Hk) as [sc cd reg regmap x _ Hcd _ _ _ Hcl]. destruct Hcl as [_ Hkey _ _ _ _ _ _ _].
      rewrite Hcd, Hkey. apply N.eqb_refl.
    - (* nothing altered *)
      apply forallb_forall. intros sp Hin. destruct (Hsp _ Hin) as (k & id & Hid & Hk).
      destruct (Hpairs _ _ _ Hid Hk) as [sc cd reg regmap x _ _ _ _ _ Hcl]. destruct Hcl as [Hun _ _ _ _ _ _ _ _].
      rewrite Hun. reflexivity.
  Qed.
  Theorem c05_w3c R P cx : f_common_link cfg = true ->
    verify_w3c cfg R P cx = Accept -> ok_C05 (CW3C R P cx) Accept = true.
  Proof.
    intros Hcommon H. apply (verify_w3c_accept cfg) in H.
    destruct H as [cs a needs _ _ Hsubs _ _ _ Hagg _ Halt Hnonce Hpairs].
    unfold ok_C05. cbn [is_accept negb orb case_agg case_request case_ctx]. rewrite Hsubs, Hagg.
    rewrite Hnonce, N.eqb_refl, Halt. cbn [negb andb].
    assert (Hsp : forall id sp, In (id, sp) (map snd cs) -> exists k c, nthZ cs k = Some (c, (id, sp))).
    { intros id sp Hin. apply in_map_iff in Hin. destruct Hin as ([c [id' sp']] & E & Hin). cbn in E. inversion E; subst.
      destruct (In_nthZ _ _ Hin) as [k Hk]. eauto. }
    assert (Hmm : map snd (map snd cs) = map (fun x : wcase => snd (snd x)) cs) by (rewrite map_map; reflexivity).
    repeat (apply andb_true_intro; split).
    - unfold all_same_link. rewrite Hmm. destruct (map (fun x : wcase => snd (snd x)) cs) as [|sp0 rest] eqn:Ep; [reflexivity|].
      apply forallb_forall. intros sp Hin. rewrite <- Ep in Hin. apply in_map_iff in Hin. destruct Hin as ([c [id sp']] & E & Hin).
      cbn in E. subst sp'. destruct (In_nthZ _ _ Hin) as [k Hk].
      destruct (Hpairs _ _ _ _ Hk) as [sc cd reg regmap _ _ _ _ _ Hcl]. destruct Hcl as [_ _ Hlink _ _ _ _ _ Hc].
      cbn [link0_of] in Hc. rewrite (Hc Hcommon), Hlink, Hc by exact Hcommon. rewrite !N.eqb_refl. reflexivity.
    - unfold keys_match. apply forallb_forall. intros [id sp] Hin. destruct (Hsp _ _ Hin) as (k & c & Hk).
      destruct (Hpairs _ _ _ _ Hk) as [sc cd reg regmap _ Hcd _ _ _ Hcl]. destruct Hcl as [_ Hkey _ _ _ _ _ _ _].
      rewrite Hcd, Hkey. apply N.eqb_refl.
    - apply forallb_forall. intros sp Hin. apply in_map_iff in Hin. destruct Hin as ([id sp'] & E & Hin). cbn in E. subst sp'.
      destruct (Hsp _ _ Hin) as (k & c & Hk).
      destruct (Hpairs _ _ _ _ Hk) as [sc cd reg regmap _ _ _ _ _ Hcl]. destruct Hcl as [Hun _ _ _ _ _ _ _ _]. rewrite Hun. reflexivity.
  Qed.

  (* both formats *)
  Theorem c05_model c : f_common_link cfg = true -> ok_C05 c (run_model cfg c) = true.
  Proof.
    intros Hc. destruct c as [R P cx|R P cx]; cbn [run_model].
    - destruct (verify_legacy cfg R P cx) eqn:E; try reflexivity. apply c05_legacy; auto.
    - destruct (verify_w3c cfg R P cx) eqn:E; try reflexivity. apply c05_w3c; auto.
  Qed.
End C05.

(* before the fix commit the verifier did not register the common attribute: refuted *)
Definition c05_src (k link : N) (pos : Z) : source :=
  {| src_key := k; src_attrs := ["name"]; src_values := [("name", "1")]; src_cred_link := link; src_used_link := link;
     src_pos := pos; src_altered := false |}.
Definition c05_P : presentation :=
  {| p_proofs := [ {| sp_revealed := [("name", "1")]; sp_preds := []; sp_nrp := None; sp_src := c05_src 1 7 0 |};
                   {| sp_revealed := [("name", "1")]; sp_preds := []; sp_nrp := None; sp_src := c05_src 1 8 1 |} ];
     p_agg := {| ag_nonce := 5; ag_count := 2; ag_altered := false; ag_common := false |};
     p_rp := {| rp_revealed := [("a", (0, "x", "1")); ("b", (1, "x", "1"))]; rp_groups := []; rp_self := []; rp_unrev := []; rp_preds := [] |};
     p_ids := [ {| id_schema := "s"; id_creddef := "c"; id_revreg := None; id_ts := None |};
                {| id_schema := "s"; id_creddef := "c"; id_revreg := None; id_ts := None |} ] |}.
Definition c05_R : request :=
  {| rq_nonce := 5; rq_attrs := [("a", {| ai_name := Some "name"; ai_names := None; ai_restr := None; ai_nr := None |});
                                 ("b", {| ai_name := Some "name"; ai_names := None; ai_restr := None; ai_nr := None |})];
     rq_preds := []; rq_nr := None |}.
Definition c05_cx : ctx :=
  {| cx_schemas := [("s", {| sc_name := "n"; sc_version := "1"; sc_issuer := "i"; sc_attrs := ["name"] |})];
     cx_creddefs := [("c", {| cd_schema_id := "s"; cd_issuer := "i"; cd_key := 1; cd_revkey := None |})];
     cx_regdefs := None; cx_lists := None; cx_override := None |}.
Definition cfg_without_common : vcfg :=
  {| f_check_preds := true; f_unrev_in_schema := true; f_unrev_intervals := true; f_gate_on_creddef := true;
     f_require_nrp := true; f_w3c_strict_subject := true; f_common_link := false; f_bind_schema := true;
     f_w3c_norm_keys := true; f_marker := true; f_no_index_panic := true; f_no_unwrap_panic := true;
     f_pred_range := true; f_w3c_pred_cv := true; f_group_unrevealed := true; f_group_keys := true; f_w3c_nrp_search := true; f_restr_revealed_first := true |}.
Lemma c05_unfixed_refuted :
  verify_legacy cfg_without_common c05_R c05_P c05_cx = Accept /\
  ok_C05 (CLegacy c05_R c05_P c05_cx) (verify_legacy cfg_without_common c05_R c05_P c05_cx) = false /\
  verify_legacy cfg_fixed c05_R c05_P c05_cx = Reject.
Proof. vm_compute. repeat split; reflexivity. Qed.
