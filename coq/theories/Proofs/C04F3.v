From Coq Require Import List String Ascii ZArith NArith Bool Lia.
From AV Require Import Model.Str Model.Encode Model.Query Model.VTypes Model.Interval Model.Eval Model.CL Model.VerifierLegacy Model.VerifierW3C
  Model.VCfg Model.Prover Model.PProps Proofs.VMonad Proofs.C07Proofs Proofs.C04Proofs.
From AV Require Import Proofs.C04F1 Proofs.C04F2.
Import ListNotations.
Local Open Scope string_scope.
Local Open Scope list_scope.
Local Open Scope Z_scope.

(* ---- list facts ---- *)
Lemma assoc_functional {V} k (m : list (string * V)) v :
  In (k, v) m -> (forall v', In (k, v') m -> v' = v) -> assoc k m = Some v.
Proof.
  induction m as [|[a w] r IH]; intros Hin Hf; [destruct Hin|]. cbn [assoc].
  destruct (String.eqb_spec a k) as [->|N].
  - f_equal. apply Hf. left. reflexivity.
  - destruct Hin as [Heq|Hin]; [injection Heq as -> _; contradiction|]. apply IH; [exact Hin|]. intros v' Hv'. apply Hf. right. exact Hv'.
Qed.
Lemma assoc_none_iff {V} k (m : list (string * V)) : assoc k m = None <-> ~ In k (keys m).
Proof.
  induction m as [|[a w] r IH]; cbn [assoc keys map fst]; [tauto|].
  destruct (String.eqb_spec a k) as [->|N]; [split; [discriminate|intros H; exfalso; apply H; left; reflexivity]|].
  rewrite IH. unfold keys. cbn [In]. tauto.
Qed.
Lemma flat_map_filter_nil {A B} (f : A -> list B) (g : A -> bool) l :
  (forall x, In x l -> g x = false -> f x = []) -> flat_map f (List.filter g l) = flat_map f l.
Proof.
  induction l as [|x r IH]; intros H; [reflexivity|]. cbn [List.filter flat_map].
  destruct (g x) eqn:Eg; cbn [flat_map]; rewrite IH by (intros y Hy; apply H; right; exact Hy); [reflexivity|].
  rewrite (H x (or_introl eq_refl) Eg). reflexivity.
Qed.
Lemma NoDup_flat_map_in {A B} (f : A -> list B) l x : NoDup (flat_map f l) -> In x l -> NoDup (f x).
Proof.
  induction l as [|y r IH]; intros Hnd Hin; [destruct Hin|]. cbn [flat_map] in Hnd.
  destruct Hin as [->|Hin]; [exact (NoDup_app_l _ _ Hnd)|]. apply IH; [|exact Hin].
  clear -Hnd. induction (f y) as [|z t IHt]; [exact Hnd|]. inversion Hnd; subst. apply IHt. assumption.
Qed.
Lemma NoDup_flat_map_idx {A B} (f : A -> list B) l : NoDup (flat_map f l) ->
  forall i j x y q, nthZ l i = Some x -> nthZ l j = Some y -> In q (f x) -> In q (f y) -> i = j.
Proof.
  induction l as [|z r IH]; intros Hnd i j x y q Hi Hj Hx Hy; [discriminate|].
  cbn [flat_map] in Hnd.
  assert (Hr : NoDup (flat_map f r)).
  { clear -Hnd. induction (f z) as [|w t IHt]; [exact Hnd|]. inversion Hnd; subst. apply IHt. assumption. }
  assert (Hi0 : 0 <= i) by (destruct (Z_lt_le_dec i 0); [rewrite nthZ_neg in Hi by lia; discriminate|lia]).
  assert (Hj0 : 0 <= j) by (destruct (Z_lt_le_dec j 0); [rewrite nthZ_neg in Hj by lia; discriminate|lia]).
  destruct (Z.eq_dec i 0) as [->|Ni], (Z.eq_dec j 0) as [->|Nj]; [reflexivity| | |].
  - cbn in Hi. injection Hi as <-. rewrite nthZ_cons_pos in Hj by lia. exfalso.
    apply (NoDup_app_disj _ _ q Hnd Hx). apply in_flat_map. exists y. split; [exact (nthZ_In _ _ _ Hj)|exact Hy].
  - cbn in Hj. injection Hj as <-. rewrite nthZ_cons_pos in Hi by lia. exfalso.
    apply (NoDup_app_disj _ _ q Hnd Hy). apply in_flat_map. exists x. split; [exact (nthZ_In _ _ _ Hi)|exact Hx].
  - rewrite nthZ_cons_pos in Hi, Hj by lia. assert (i - 1 = j - 1) by exact (IH Hr _ _ _ _ _ Hi Hj Hx Hy). lia.
Qed.
Lemma NoDup_map_fst_functional {B} (l : list (string * B)) q b b' : NoDup (map fst l) -> In (q, b) l -> In (q, b') l -> b = b'.
Proof.
  induction l as [|[a w] r IH]; intros Hnd H1 H2; [destruct H1|]. cbn [map fst] in Hnd. inversion Hnd as [|x t Hx Hnd']; subst.
  destruct H1 as [E1|H1], H2 as [E2|H2].
  - congruence.
  - injection E1 as -> ->. exfalso. apply Hx. apply in_map_iff. exists (q, b'). auto.
  - injection E2 as -> ->. exfalso. apply Hx. apply in_map_iff. exists (q, b). auto.
  - exact (IH Hnd' H1 H2).
Qed.
Lemma nthZ_idx_from {A} (l : list A) : forall k0 k, nthZ (idx_from k0 l) k = option_map (fun y => (k0 + k, y)) (nthZ l k).
Proof.
  induction l as [|y r IH]; intros k0 k; cbn [idx_from nthZ]; [reflexivity|].
  destruct (Z.eqb_spec k 0) as [->|N]; [cbn; rewrite Z.add_0_r; reflexivity|].
  destruct (k <? 0); [reflexivity|]. rewrite (IH (k0 + 1) (k - 1)). destruct (nthZ r (k - 1)); cbn; [f_equal; f_equal; lia|reflexivity].
Qed.
Lemma Forall2_nthZ_l {A B} (Rel : A -> B -> Prop) l1 l2 : Forall2 Rel l1 l2 ->
  forall k x, nthZ l1 k = Some x -> exists y, nthZ l2 k = Some y /\ Rel x y.
Proof.
  induction 1 as [|x y l1 l2 Hxy HF IH]; intros k z Hk; [discriminate|].
  cbn [nthZ] in *. destruct (k =? 0); [injection Hk as <-; eauto|]. destruct (k <? 0); [discriminate|]. eauto.
Qed.
Lemma Forall2_length_Z {A B} (Rel : A -> B -> Prop) l1 l2 : Forall2 Rel l1 l2 -> lenZ l1 = lenZ l2.
Proof. intros H. unfold lenZ. f_equal. induction H as [|x y l1 l2 _ _ IH]; cbn; [reflexivity|rewrite IH; reflexivity]. Qed.
Lemma idx_from_length {A} (l : list A) k0 : List.length (idx_from k0 l) = List.length l.
Proof. revert k0. induction l as [|x r IH]; intros k0; cbn; [reflexivity|]. rewrite IH. reflexivity. Qed.
