(* C20: the recognisers of Model/Ident.v equal declarative grammars; pins to the source text *)
From Coq Require Import List String Ascii NArith ZArith Bool Arith Lia.
From AV Require Import Model.Ident Generated.Consts.
Import ListNotations.
Open Scope string_scope.

(* ---- pins: the regular expressions the recognisers were written against are the ones in
   the source (regenerated on every run) ---- *)
Lemma regex_pins :
  gen_regex_uri_identifier = "^[a-zA-Z][a-zA-Z0-9\+\-\.]*:.+$" /\
  gen_regex_legacy_did_identifier = "^[1-9A-HJ-NP-Za-km-z]{21,22}$" /\
  gen_regex_legacy_schema_identifier = "^[1-9A-HJ-NP-Za-km-z]{21,22}:2:[^:]+:[0-9.]+$" /\
  gen_regex_legacy_cred_def_identifier =
    "^[1-9A-HJ-NP-Za-km-z]{21,22}:3:CL:(([1-9][0-9]*)|([a-zA-Z0-9]{21,22}:2:[^:]+:[0-9.]+)):([^:]+)?$" /\
  gen_regex_legacy_rev_reg_def_identifier =
    "^[1-9A-HJ-NP-Za-km-z]{21,22}:4:[1-9A-HJ-NP-Za-km-z]{21,22}:3:CL:(([1-9][0-9]*)|([a-zA-Z0-9]{21,22}:2:[^:]+:[0-9.]+)):([^:]+):CL_ACCUM:([^:]+)?$".
Proof. repeat split; reflexivity. Qed.

Lemma max_attributes_pin : Z.of_nat max_attributes_count = gen_max_attributes_count.
Proof. reflexivity. Qed.

(* ---- strings ---- *)
Arguments is_colon : simpl never.
Definition no_colon (s : string) : bool := all_chars (fun a => negb (is_colon a)) s.
Fixpoint join_colon (l : list string) : string :=
  match l with
  | [] => ""
  | [x] => x
  | x :: r => x ++ ":" ++ join_colon r
  end.

Lemma all_chars_app p a b : all_chars p (a ++ b) = all_chars p a && all_chars p b.
Proof. induction a as [|c a IH]; simpl; auto. rewrite IH, andb_assoc. reflexivity. Qed.

Lemma all_chars_impl (p q : ascii -> bool) s :
  (forall a, p a = true -> q a = true) -> all_chars p s = true -> all_chars q s = true.
Proof.
  intros H. induction s as [|c s IH]; simpl; auto. intros E. apply andb_prop in E.
  destruct E as [E1 E2]. rewrite (H _ E1), (IH E2). reflexivity.
Qed.

Lemma split_colon_nonempty s : split_colon s <> [].
Proof. induction s as [|a r IH]; simpl; [discriminate|]. destruct (is_colon a); [discriminate|]. destruct (split_colon r); discriminate. Qed.

Lemma split_no_colon s : no_colon s = true -> split_colon s = [s].
Proof.
  unfold no_colon. induction s as [|a r IH]; simpl; auto. intros H. apply andb_prop in H. destruct H as [H1 H2].
  apply negb_true_iff in H1. rewrite H1, (IH H2). reflexivity.
Qed.

Lemma split_cons f r : no_colon f = true -> split_colon (f ++ ":" ++ r) = f :: split_colon r.
Proof.
  unfold no_colon. induction f as [|a f IH]; simpl; auto. intros H. apply andb_prop in H. destruct H as [H1 H2].
  apply negb_true_iff in H1. rewrite H1. simpl in IH. rewrite (IH H2). reflexivity.
Qed.

Lemma split_fields_no_colon s : Forall (fun f => no_colon f = true) (split_colon s).
Proof.
  unfold no_colon. induction s as [|a r IH]; simpl; [repeat constructor|].
  destruct (is_colon a) eqn:E; [constructor; auto|].
  destruct (split_colon r) as [|h t].
  - constructor; [|constructor]. simpl. rewrite E. reflexivity.
  - inversion IH as [|? ? Hh Ht]; subst. constructor; auto. simpl. rewrite E. simpl. exact Hh.
Qed.

Lemma join_split s : join_colon (split_colon s) = s.
Proof.
  induction s as [|a r IH]; simpl; auto.
  destruct (is_colon a) eqn:E.
  - unfold is_colon in E. apply Ascii.eqb_eq in E. subst a.
    pose proof (split_colon_nonempty r) as Hn. destruct (split_colon r) as [|h t]; [congruence|].
    change (join_colon ("" :: h :: t)) with ("" ++ ":" ++ join_colon (h :: t)). rewrite IH. reflexivity.
  - pose proof (split_colon_nonempty r) as Hn. destruct (split_colon r) as [|h t]; [congruence|].
    destruct t as [|h2 t]; simpl in *; rewrite <- IH; reflexivity.
Qed.

Lemma split_join l : l <> [] -> Forall (fun f => no_colon f = true) l -> split_colon (join_colon l) = l.
Proof.
  induction l as [|x r IH]; [congruence|]. intros _ H. inversion H as [|? ? Hx Hr]; subst.
  destruct r as [|y r]; [apply split_no_colon; exact Hx|].
  change (join_colon (x :: y :: r)) with (x ++ ":" ++ join_colon (y :: r)).
  rewrite (split_cons _ _ Hx), IH; auto. discriminate.
Qed.

(* a string splits into exactly the fields l iff it is their ':'-join and no field has a ':' *)
Theorem split_colon_spec s l :
  split_colon s = l <-> (s = join_colon l /\ l <> [] /\ Forall (fun f => no_colon f = true) l).
Proof.
  split.
  - intros <-. split; [symmetry; apply join_split|]. split; [apply split_colon_nonempty|apply split_fields_no_colon].
  - intros (-> & Hn & Hf). apply split_join; assumption.
Qed.

(* ---- URI: ^[a-zA-Z][a-zA-Z0-9\+\-\.]*:.+$ ---- *)
Definition uri_grammar (s : string) : Prop :=
  exists a scheme rest, s = String a (scheme ++ ":" ++ rest) /\ is_alpha a = true /\
    all_chars is_scheme_char scheme = true /\ rest <> "" /\ no_newline rest = true.

Lemma scheme_char_not_colon a : is_scheme_char a = true -> is_colon a = false.
Proof.
  unfold is_colon. destruct (Ascii.eqb a ":") eqn:E; auto. apply Ascii.eqb_eq in E. subst. vm_compute. discriminate.
Qed.

Lemma nonempty_iff s : nonempty s = true <-> s <> "".
Proof. destruct s; simpl; split; congruence. Qed.

Lemma uri_tail_iff s : uri_tail s = true <->
  exists scheme rest, s = scheme ++ ":" ++ rest /\ all_chars is_scheme_char scheme = true /\ rest <> "" /\ no_newline rest = true.
Proof.
  induction s as [|a r IH]; simpl.
  - split; [discriminate|]. intros (sc & rest & H & _). destruct sc; discriminate.
  - fold (is_colon a). destruct (is_colon a) eqn:E.
    + unfold is_colon in E. apply Ascii.eqb_eq in E. subst a. split.
      * intros H. apply andb_prop in H. destruct H as [H1 H2]. exists "", r. simpl. rewrite nonempty_iff in H1. auto.
      * intros (sc & rest & H & Hs & Hr & Hn). destruct sc as [|c sc].
        -- simpl in H. inversion H; subst. apply nonempty_iff in Hr. rewrite Hr, Hn. reflexivity.
        -- simpl in H. inversion H; subst. simpl in Hs. discriminate.
    + destruct (is_scheme_char a) eqn:S.
      * rewrite IH. split.
        -- intros (sc & rest & -> & Hs & Hr & Hn). exists (String a sc), rest. simpl. rewrite S, Hs. auto.
        -- intros (sc & rest & H & Hs & Hr & Hn). destruct sc as [|c sc].
           ++ simpl in H. inversion H; subst. vm_compute in E. discriminate.
           ++ simpl in H. inversion H; subst. simpl in Hs. apply andb_prop in Hs. destruct Hs as [_ Hs]. exists sc, rest. auto.
      * split; [discriminate|]. intros (sc & rest & H & Hs & Hr & Hn). destruct sc as [|c sc].
        -- simpl in H. inversion H; subst. vm_compute in E. discriminate.
        -- simpl in H. inversion H; subst. simpl in Hs. rewrite S in Hs. discriminate.
Qed.

Theorem is_uri_iff s : is_uri s = true <-> uri_grammar s.
Proof.
  unfold uri_grammar. destruct s as [|a r]; simpl.
  - split; [discriminate|]. intros (a & sc & rest & H & _). discriminate.
  - rewrite andb_true_iff, uri_tail_iff. split.
    + intros (Ha & sc & rest & -> & H1 & H2 & H3). exists a, sc, rest. repeat split; auto.
    + intros (a' & sc & rest & H & Ha & H1 & H2 & H3). inversion H; subst. split; auto.
      exists sc, rest. repeat split; auto.
Qed.

(* ---- legacy DID: ^[1-9A-HJ-NP-Za-km-z]{21,22}$ ---- *)
Theorem is_legacy_did_iff s : is_legacy_did s = true <->
  all_chars is_b58 s = true /\ (String.length s = 21 \/ String.length s = 22)%nat.
Proof.
  unfold is_legacy_did, len_21_22. rewrite andb_true_iff, orb_true_iff, !Nat.eqb_eq. reflexivity.
Qed.

Lemma b58_not_colon a : is_b58 a = true -> negb (is_colon a) = true.
Proof.
  unfold is_colon. destruct (Ascii.eqb a ":") eqn:E; auto. apply Ascii.eqb_eq in E. subst. vm_compute. discriminate.
Qed.
Lemma alnum_not_colon a : is_alnum a = true -> negb (is_colon a) = true.
Proof.
  unfold is_colon. destruct (Ascii.eqb a ":") eqn:E; auto. apply Ascii.eqb_eq in E. subst. vm_compute. discriminate.
Qed.
Lemma version_char_not_colon a : is_version_char a = true -> negb (is_colon a) = true.
Proof.
  unfold is_colon. destruct (Ascii.eqb a ":") eqn:E; auto. apply Ascii.eqb_eq in E. subst. vm_compute. discriminate.
Qed.
Lemma digit_not_colon a : is_digit a = true -> negb (is_colon a) = true.
Proof.
  unfold is_colon. destruct (Ascii.eqb a ":") eqn:E; auto. apply Ascii.eqb_eq in E. subst. vm_compute. discriminate.
Qed.

Lemma legacy_did_no_colon s : is_legacy_did s = true -> no_colon s = true.
Proof. unfold is_legacy_did. intros H. apply andb_prop in H. destruct H as [H _]. eapply all_chars_impl; [apply b58_not_colon|exact H]. Qed.
Lemma alnum_did_no_colon s : is_alnum_did s = true -> no_colon s = true.
Proof. unfold is_alnum_did. intros H. apply andb_prop in H. destruct H as [H _]. eapply all_chars_impl; [apply alnum_not_colon|exact H]. Qed.
Lemma version_no_colon s : is_version s = true -> no_colon s = true.
Proof. unfold is_version. intros H. apply andb_prop in H. destruct H as [_ H]. eapply all_chars_impl; [apply version_char_not_colon|exact H]. Qed.
Lemma seq_no_no_colon s : is_seq_no s = true -> no_colon s = true.
Proof.
  unfold no_colon. destruct s as [|a r]; simpl; [discriminate|]. intros H. apply andb_prop in H. destruct H as [H1 H2].
  assert (Hd : is_digit a = true).
  { unfold is_digit, in_range in *. apply andb_prop in H1. destruct H1 as [X Y].
    apply N.leb_le in X. apply N.leb_le in Y. apply andb_true_intro. split; apply N.leb_le; lia. }
  rewrite (digit_not_colon _ Hd). simpl. eapply all_chars_impl; [apply digit_not_colon|exact H2].
Qed.
Lemma lit_no_colon_2 : no_colon "2" = true. Proof. reflexivity. Qed.
Lemma lit_no_colon_3 : no_colon "3" = true. Proof. reflexivity. Qed.
Lemma lit_no_colon_4 : no_colon "4" = true. Proof. reflexivity. Qed.
Lemma lit_no_colon_CL : no_colon "CL" = true. Proof. reflexivity. Qed.
Lemma lit_no_colon_ACC : no_colon "CL_ACCUM" = true. Proof. reflexivity. Qed.

(* ---- legacy schema id: DID ":2:" name ":" version ---- *)
Definition schema_id_grammar (s : string) : Prop :=
  exists did name ver, s = join_colon [did; "2"; name; ver] /\
    is_legacy_did did = true /\ name <> "" /\ no_colon name = true /\ is_version ver = true.

Ltac fields_no_colon :=
  repeat constructor;
  auto using legacy_did_no_colon, alnum_did_no_colon, version_no_colon, seq_no_no_colon,
    lit_no_colon_2, lit_no_colon_3, lit_no_colon_4, lit_no_colon_CL, lit_no_colon_ACC.

Ltac split_hyp H :=
  rewrite !andb_true_iff in H;
  repeat match goal with X : _ /\ _ |- _ => destruct X end;
  repeat match goal with X : (_ =? _) = true |- _ => apply String.eqb_eq in X end;
  subst.
Ltac inv_forall :=
  repeat match goal with F : Forall _ (_ :: _) |- _ => inversion F; clear F; subst end.
Ltac fin := repeat split; auto; try (apply nonempty_iff; auto; fail).

Theorem is_legacy_schema_id_iff s : is_legacy_schema_id s = true <-> schema_id_grammar s.
Proof.
  unfold is_legacy_schema_id, schema_id_grammar. split.
  - destruct (split_colon s) as [|did [|two [|name [|ver [|x r]]]]] eqn:E; try discriminate.
    intros H. split_hyp H. apply split_colon_spec in E. destruct E as (E & _ & F). inv_forall.
    exists did, name, ver. fin.
  - intros (did & name & ver & -> & Hd & Hn & Hc & Hv).
    rewrite split_join; [|discriminate|fields_no_colon].
    rewrite Hd, Hv. apply nonempty_iff in Hn. rewrite Hn. reflexivity.
Qed.

(* ---- legacy cred def id: DID ":3:CL:" (seq | DID' ":2:" name ":" version) ":" [tag] ---- *)
Definition schema_ref_grammar (fields : list string) : Prop :=
  (exists seq, fields = [seq] /\ is_seq_no seq = true) \/
  (exists sdid name ver, fields = [sdid; "2"; name; ver] /\ is_alnum_did sdid = true /\
      name <> "" /\ no_colon name = true /\ is_version ver = true).

Definition cred_def_id_grammar (s : string) : Prop :=
  exists did ref tag, s = join_colon ([did; "3"; "CL"] ++ ref ++ [tag]) /\
    is_legacy_did did = true /\ schema_ref_grammar ref /\ no_colon tag = true.

Theorem is_legacy_cred_def_id_iff s : is_legacy_cred_def_id s = true <-> cred_def_id_grammar s.
Proof.
  unfold is_legacy_cred_def_id, cred_def_id_grammar, schema_ref_grammar. split.
  - destruct (split_colon s) as [|f1 [|f2 [|f3 [|f4 [|f5 [|f6 [|f7 [|f8 [|f9 r]]]]]]]]] eqn:E; try discriminate.
    + intros H. split_hyp H. apply split_colon_spec in E. destruct E as (E & _ & F). inv_forall.
      exists f1, [f4], f5. fin. left. eauto.
    + intros H. split_hyp H. apply split_colon_spec in E. destruct E as (E & _ & F). inv_forall.
      exists f1, [f4; "2"; f6; f7], f8. fin. right. exists f4, f6, f7. fin.
  - intros (did & ref & tag & -> & Hd & [(seq & -> & Hs)|(sdid & name & ver & -> & Ha & Hn & Hc & Hv)] & Ht).
    + cbn [app]. rewrite split_join; [|discriminate|fields_no_colon]. rewrite Hd, Hs. reflexivity.
    + cbn [app]. rewrite split_join; [|discriminate|fields_no_colon].
      rewrite Hd, Ha, Hv. apply nonempty_iff in Hn. rewrite Hn. reflexivity.
Qed.

(* ---- legacy rev reg id: DID ":4:" DID ":3:CL:" ref ":" tag ":CL_ACCUM:" [tag2] ---- *)
Definition rev_reg_id_grammar (s : string) : Prop :=
  exists did did2 ref tag tag2, s = join_colon ([did; "4"; did2; "3"; "CL"] ++ ref ++ [tag; "CL_ACCUM"; tag2]) /\
    is_legacy_did did = true /\ is_legacy_did did2 = true /\ schema_ref_grammar ref /\
    tag <> "" /\ no_colon tag = true /\ no_colon tag2 = true.

Theorem is_legacy_rev_reg_id_iff s : is_legacy_rev_reg_id s = true <-> rev_reg_id_grammar s.
Proof.
  unfold is_legacy_rev_reg_id, rev_reg_id_grammar, schema_ref_grammar. split.
  - destruct (split_colon s) as [|f1 [|f2 [|f3 [|f4 [|f5 [|f6 [|f7 [|f8 [|f9 [|f10 [|f11 [|f12 [|f13 r]]]]]]]]]]]]] eqn:E; try discriminate.
    + intros H. split_hyp H. apply split_colon_spec in E. destruct E as (E & _ & F). inv_forall.
      exists f1, f3, [f6], f7, f9. fin. left. eauto.
    + intros H. split_hyp H. apply split_colon_spec in E. destruct E as (E & _ & F). inv_forall.
      exists f1, f3, [f6; "2"; f8; f9], f10, f12. fin. right. exists f6, f8, f9. fin.
  - intros (did & did2 & ref & tag & tag2 & -> & Hd & Hd2 & [(seq & -> & Hs)|(sdid & name & ver & -> & Ha & Hn & Hc & Hv)] & Htn & Ht & Ht2).
    + cbn [app]. rewrite split_join; [|discriminate|fields_no_colon]. rewrite Hd, Hd2, Hs.
      apply nonempty_iff in Htn. rewrite Htn. reflexivity.
    + cbn [app]. rewrite split_join; [|discriminate|fields_no_colon].
      rewrite Hd, Hd2, Ha, Hv. apply nonempty_iff in Hn. apply nonempty_iff in Htn. rewrite Hn, Htn. reflexivity.
Qed.

(* ---- validation = URI or the legacy form of that identifier type ---- *)
Definition legacy_grammar (k : id_kind) (s : string) : Prop :=
  match k with
  | KIssuer => all_chars is_b58 s = true /\ (String.length s = 21 \/ String.length s = 22)%nat
  | KSchema => schema_id_grammar s
  | KCredDef => cred_def_id_grammar s
  | KRevReg => rev_reg_id_grammar s
  end.

Theorem validate_id_iff k s : validate_id k s = true <-> uri_grammar s \/ legacy_grammar k s.
Proof.
  unfold validate_id. rewrite orb_true_iff, is_uri_iff.
  destruct k; cbn [legacy_grammar];
    rewrite ?is_legacy_did_iff, ?is_legacy_schema_id_iff, ?is_legacy_cred_def_id_iff, ?is_legacy_rev_reg_id_iff; reflexivity.
Qed.

(* ---- schemas: between 1 and 125 distinct attribute names ---- *)
Lemma nodupb_iff l : nodupb l = true <-> NoDup l.
Proof.
  induction l as [|x r IH]; simpl.
  - split; [constructor|reflexivity].
  - rewrite andb_true_iff, negb_true_iff, IH. split.
    + intros [H1 H2]. constructor; auto. intros Hin.
      assert (existsb (String.eqb x) r = true) by (apply existsb_exists; exists x; split; auto; apply String.eqb_refl). congruence.
    + intros H. inversion H; subst. split; auto. destruct (existsb (String.eqb x) r) eqn:E; auto.
      apply existsb_exists in E. destruct E as (y & Hy & Hxy). apply String.eqb_eq in Hxy. subst. contradiction.
Qed.

Theorem attr_names_valid_iff l :
  attr_names_valid l = true <-> NoDup l /\ (1 <= List.length l <= 125)%nat.
Proof.
  unfold attr_names_valid, max_attributes_count. rewrite !andb_true_iff, negb_true_iff, nodupb_iff, Nat.eqb_neq, Nat.leb_le. intuition lia.
Qed.

Theorem schema_valid_iff issuer attrs :
  schema_valid issuer attrs = true <->
  (uri_grammar issuer \/ legacy_grammar KIssuer issuer) /\ NoDup attrs /\ (1 <= List.length attrs <= 125)%nat.
Proof. unfold schema_valid. rewrite andb_true_iff, validate_id_iff, attr_names_valid_iff. reflexivity. Qed.

(* ---- credential requests: exactly one of entropy and prover DID; a DID only with a legacy
   credential-definition id, and then of DID form ---- *)
Theorem cred_request_valid_iff entropy did cd :
  cred_request_valid entropy did cd = true <->
  validate_id KCredDef cd = true /\
  ((entropy <> None /\ did = None) \/
   (entropy = None /\ is_legacy_cred_def_id cd = true /\ exists d, did = Some d /\ (is_uri d = true \/ is_legacy_did d = true))).
Proof.
  unfold cred_request_valid. rewrite andb_true_iff. 
  destruct entropy as [e|], did as [d|]; split; intros [H1 H2]; split; auto.
  - discriminate.
  - destruct H2 as [[_ H]|[H _]]; discriminate.
  - left. split; [discriminate|reflexivity].
  - destruct (is_legacy_cred_def_id cd); [|discriminate]. right. repeat split; auto. exists d. split; auto. apply orb_prop in H2. exact H2.
  - destruct H2 as [[H _]|(_ & Hl & d' & Hd & Hor)]; [congruence|]. inversion Hd; subst. rewrite Hl. apply orb_true_iff. exact Hor.
  - destruct (is_legacy_cred_def_id cd); discriminate.
  - destruct H2 as [[H _]|(_ & _ & d' & Hd & _)]; [congruence|discriminate].
Qed.

(* non-vacuity *)
Example ident_examples :
  validate_id KSchema "DXoTtQJNtXtiwWaZAK3rB1:2:example:1.0" = true /\
  is_legacy_schema_id "DXoTtQJNtXtiwWaZAK3rB1:2:example:1.0" = true /\
  validate_id KCredDef "DXoTtQJNtXtiwWaZAK3rB1:3:CL:98153:default" = true /\
  validate_id KRevReg "DXoTtQJNtXtiwWaZAK3rB1:4:DXoTtQJNtXtiwWaZAK3rB1:3:CL:288602:example:CL_ACCUM:default" = true /\
  validate_id KIssuer "DXoTtQJNtXtiwWaZAK3rB1" = true /\ validate_id KIssuer "mock:uri" = true /\
  validate_id KIssuer "DXoTtQJNtXtiwWaZAK3r" = false /\ validate_id KSchema "mock:" = false /\
  cred_request_valid (Some "e") None "mock:uri" = true /\ cred_request_valid None (Some "mock:uri") "mock:uri" = false.
Proof. vm_compute. repeat split; reflexivity. Qed.
