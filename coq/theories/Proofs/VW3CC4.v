From Coq Require Import List String ZArith NArith Bool Lia.
From AV Require Import Model.Str Model.Encode Model.Query Model.VTypes Model.Interval Model.Eval Model.CL
  Model.VerifierLegacy Model.VerifierW3C Model.VCfg Model.VProps Model.Prover Model.PProps Proofs.VMonad Proofs.C04Proofs.
From AV Require Import Proofs.VW3CC1 Proofs.VW3CC2 Proofs.VW3CC3.
Import ListNotations.
Local Open Scope string_scope.
Local Open Scope list_scope.
Local Open Scope Z_scope.

(* the premises are met by what the prover model builds for an honest case with a revocable credential, a timestamp and
   an interval on one referent (s_case of C04Proofs.v), and the conclusion is what the verifier model computes *)
Example w3c_request_data_nonvacuous :
  exists P cs,
    create_w3c pcfg_fixed s_req s_cx 7 (pc_sel s_case) = ROk P /\
    mapR (fun c => bind (of_opt (wc_pv c)) (fun pv => ROk (c, pv))) (wp_creds P) = ROk cs /\
    schemas_present s_cx cs /\ entries_named s_cx cs /\
    (forall r ai n, In (r, ai) (rq_attrs s_req) -> In n (names_of ai) -> attr_name_served cfg_fixed s_req s_cx cs ai n) /\
    (forall r pi, In (r, pi) (rq_preds s_req) -> pred_served cfg_fixed s_req s_cx cs pi) /\
    check_request_data cfg_fixed s_req s_cx cs = ROk [].
Proof.
  eexists. eexists. split; [vm_compute; reflexivity|]. split; [vm_compute; reflexivity|].
  split; [|split; [|split; [|split]]].
  - intros w [<-|[<-|[]]]; cbn; discriminate.
  - intros c id sp [E|[E|[]]]; injection E as <- <- <-; eexists; (split; [vm_compute; reflexivity|]); split; reflexivity.
  - intros r ai n [E|[E|[]]]; injection E as <- <-; intros [<-|[]].
    + eexists; eexists; eexists. split; [left; reflexivity|]. split; [exact I|]. split; [cbv; exact I|].
      left. eexists; eexists. split; [vm_compute; reflexivity|]. vm_compute; reflexivity.
    + eexists; eexists; eexists. split; [right; left; reflexivity|]. split; [exact I|]. split; [cbv; exact I|].
      left. eexists; eexists. split; [vm_compute; reflexivity|]. vm_compute; reflexivity.
  - intros r pi [].
  - vm_compute. reflexivity.
Qed.
