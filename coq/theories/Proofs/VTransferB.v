From Coq Require Import List String ZArith NArith Bool.
From AV Require Import Model.VTypes Model.VCfg Model.VProps Model.CaseV Proofs.VTransfer Proofs.C02Proofs.
Import ListNotations.

Lemma c02_transfer c impl : case_wf c = true -> rel_V impl (run_model cfg_current c) = true -> ok_C02 c impl = true.
Proof.
  intros Hwf H. apply (ok_of_accept (ok_C02 c) impl (run_model cfg_current c)).
  - intros o. unfold ok_C02. destruct o; reflexivity.
  - apply rel_accept. exact H.
  - apply c02_model; auto.
Qed.
