(* C08: the interval stage of the verifier, both directions. *)
From Coq Require Import List String ZArith NArith Bool Lia.
From AV Require Import Model.Str Model.Encode Model.Query Model.VTypes Model.Interval Model.Eval Model.CL
  Model.VerifierLegacy Model.VerifierW3C Model.VCfg Model.VProps
  Proofs.VMonad Proofs.IntervalProofs Proofs.C02Proofs.
Import ListNotations.
Open Scope string_scope.
Open Scope list_scope.
Open Scope Z_scope.

(* (A) soundness direction: what ok_C02 establishes contains the first conjunct of ok_C08 *)
Definition c08_sound (c : vcase) (o : outcome) : bool :=
  negb (is_accept o) ||
  forallb (fun '(i, (id, sp)) =>
             negb (revocable (case_ctx c) id) || negb (applies_gen false c i) ||
             match tightest (case_request c) (sub_locals c i) with
             | None => true
             | Some iv => match id_ts id, list_at (case_ctx c) (id_revreg id) (id_ts id) with
                          | Some t, Some _ => is_valid (ovr_for (case_ctx c) (id_revreg id) iv) t
                          | _, _ => false end
             end) (indexed 0 (case_subs c)).

Lemma c02_implies_c08_sound c o : ok_C02 c o = true -> c08_sound c o = true.
Proof.
  unfold ok_C02, c08_sound. destruct (is_accept o); cbn [negb orb]; [|reflexivity].
  intros H. rewrite forallb_forall in H. apply forallb_forall. intros [i [id sp]] Hin. specialize (H _ Hin). cbn beta iota in H.
  destruct (revocable (case_ctx c) id); cbn [negb orb] in *; [|reflexivity].
  destruct (applies_gen false c i); cbn [negb orb] in *; [|reflexivity].
  destruct (tightest (case_request c) (sub_locals c i)) as [iv|]; [|reflexivity].
  destruct (sp_nrp sp); [|discriminate]. destruct (id_ts id) as [t|]; [|discriminate].
  destruct (list_at (case_ctx c) (id_revreg id) (Some t)); [|discriminate].
  destruct (regkey_at (case_ctx c) (id_revreg id)); [|discriminate].
  apply andb_prop in H. destruct H as [_ H]. exact H.
Qed.

Section C08.
  Context (cfg : vcfg).

  (* credentials from non-revocable definitions ignore intervals *)
  Theorem nonrevocable_ignores_intervals R cx cd local id : cd_revkey cd = None ->
    interval_check cfg R cx cd local id = ROk false.
  Proof. unfold interval_check. intros ->. reflexivity. Qed.

  (* (B) completeness direction, at the level of the interval stage (legacy): a timestamp that meets the
     demand of every referent served by the credential — each referent's own interval if it has one, the
     request-wide one otherwise, lower bounds overridden — passes check_non_revoked_interval *)
  Theorem demands_met_stage_passes R P cx cd k id rid t local :
    f_gate_on_creddef cfg = true -> f_unrev_intervals cfg = true ->
    local_interval cfg R P k = ROk local -> id_revreg id = Some rid -> id_ts id = Some t ->
    all_demands_met R cx (Some rid) (demands_legacy R P k) t = true ->
    (demands_legacy R P k = [] -> match rq_nr R with Some g => is_valid (ovr_for cx (Some rid) g) t = true | None => True end) ->
    exists b, interval_check cfg R cx cd local id = ROk b.
  Proof.
    intros Hg Hu Hloc Hrid Ht Hall Hglob. unfold interval_check. rewrite Hg.
    destruct (cd_revkey cd); [|eauto].
    pose proof (local_is_tightest cfg _ _ _ _ Hu Hloc) as Hl.
    destruct (match local with Some l => Some l | None => rq_nr R end) as [iv0|] eqn:Eiv; [|eauto].
    rewrite Hrid, Ht. cbn [of_opt bind].
    assert (Hv : is_valid (ovr_for cx (Some rid) iv0) t = true).
    { destruct (ovr_for_as_override cx rid) as [m Hm]. unfold all_demands_met in Hall. rewrite forallb_forall in Hall.
      destruct local as [l0|].
      - inversion Eiv; subst iv0. rewrite Hm. symmetry in Hl. eapply (fold_valid m t _) with (acc := None); [|intros a0 Ha0; discriminate|exact Hl].
        intros l1 Hin. specialize (Hall _ Hin). cbn beta iota in Hall. rewrite <- Hm. exact Hall.
      - (* no local interval at all: the request-wide one is every referent's demand *)
        symmetry in Hl. destruct (demands_legacy R P k) as [|D rest] eqn:Ed.
        + specialize (Hglob eq_refl). rewrite Eiv in Hglob. exact Hglob.
        + pose proof (fold_none_all _ Hl D (or_introl eq_refl)) as ->. specialize (Hall None (or_introl eq_refl)). cbn beta iota in Hall.
          rewrite Eiv in Hall. exact Hall. }
    unfold ovr_for in Hv. destruct (cx_override cx) as [maps|].
    - destruct (assoc rid maps); rewrite Hv; cbn; eauto.
    - rewrite Hv. cbn. eauto.
  Qed.

  Theorem c08_sound_model c :
    f_unrev_intervals cfg = true -> f_gate_on_creddef cfg = true -> f_require_nrp cfg = true -> f_w3c_pred_cv cfg = true ->
    case_wf c = true -> c08_sound c (run_model cfg c) = true.
  Proof. intros. apply c02_implies_c08_sound. apply c02_model; auto. Qed.
End C08.
