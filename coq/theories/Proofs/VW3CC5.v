(* verify_w3c accepts exactly when each of its stages does (the stages in the order of the code); with
   w3c_request_data_complete this reduces acceptance of a W3C presentation to: served referents, named entries,
   subjects that show what the sub-proofs reveal, and the sub-proof registration + CL stage. *)
From Coq Require Import List String ZArith NArith Bool Lia.
From AV Require Import Model.Str Model.Encode Model.Query Model.VTypes Model.Interval Model.Eval Model.CL
  Model.VerifierLegacy Model.VerifierW3C Model.VProps Proofs.VMonad Proofs.C04F6.
From AV Require Import Proofs.VW3CC1 Proofs.VW3CC2 Proofs.VW3CC3.
Import ListNotations.
Local Open Scope string_scope.
Local Open Scope list_scope.
Local Open Scope Z_scope.

Section Stages.
  Context (cfg : vcfg).
  Notation wcase := (w3c_cred * (identifier * subproof))%type.

  Definition w3c_stages (R : request) (P : w3c_pres) (cx : ctx) : Prop :=
    exists cs needs a regmap subs,
      wp_shape_ok P = true /\
      mapR (fun c => bind (of_opt (wc_pv c)) (fun pv => ROk (c, pv))) (wp_creds P) = ROk cs /\
      check_request_data cfg R cx cs = ROk needs /\
      (negb (f_w3c_strict_subject cfg) || forallb (fun '(c, (_, sp)) => subject_matches c sp) cs) = true /\
      wp_agg P = Some a /\
      build_regmap cx = ROk regmap /\
      add_all cfg cx regmap needs 0 cs = ROk subs /\
      cl_verify (f_common_link cfg) subs a (rq_nonce R) = Accept.

  Theorem verify_w3c_accept_iff R P cx : verify_w3c cfg R P cx = Accept <-> w3c_stages R P cx.
  Proof.
    unfold verify_w3c, w3c_stages. split.
    - intros H.
      destruct (bind (guard (wp_shape_ok P)) _) as [[subs a]| |] eqn:E; try discriminate.
      apply bind_ok in E. destruct E as (u0 & Hshape & E). apply guard_ok in Hshape.
      apply bind_ok in E. destruct E as (cs & Hcs & E).
      apply bind_ok in E. destruct E as (needs & Hdata & E).
      apply bind_ok in E. destruct E as (u1 & Hsubj & E). apply guard_ok in Hsubj.
      apply bind_ok in E. destruct E as (a' & Hagg & E). apply of_opt_ok in Hagg.
      apply bind_ok in E. destruct E as (regmap & Hreg & E).
      apply bind_ok in E. destruct E as (subs' & Hadd & E). inversion E; subst subs' a'.
      exists cs, needs, a, regmap, subs. repeat split; assumption.
    - intros (cs & needs & a & regmap & subs & Hshape & Hcs & Hdata & Hsubj & Hagg & Hreg & Hadd & Hcl).
      rewrite Hshape. cbn [guard bind]. rewrite Hcs. cbn [bind]. rewrite Hdata. cbn [bind].
      rewrite Hsubj. cbn [guard bind]. rewrite Hagg. cbn [of_opt bind]. rewrite Hreg. cbn [bind]. rewrite Hadd. cbn [bind]. exact Hcl.
  Qed.

  (* acceptance from served referents (the request-data stage discharged by w3c_request_data_complete) *)
  Theorem verify_w3c_accepts_served R P cx cs a regmap :
    f_gate_on_creddef cfg = true ->
    wp_shape_ok P = true ->
    mapR (fun c => bind (of_opt (wc_pv c)) (fun pv => ROk (c, pv))) (wp_creds P) = ROk cs ->
    schemas_present cx cs -> entries_named cx cs ->
    (forall r ai n, In (r, ai) (rq_attrs R) -> In n (names_of ai) -> attr_name_served cfg R cx cs ai n) ->
    (forall r pi, In (r, pi) (rq_preds R) -> pred_served cfg R cx cs pi) ->
    (negb (f_w3c_strict_subject cfg) || forallb (fun '(c, (_, sp)) => subject_matches c sp) cs) = true ->
    wp_agg P = Some a -> build_regmap cx = ROk regmap ->
    (forall needs, check_request_data cfg R cx cs = ROk needs ->
       exists subs, add_all cfg cx regmap needs 0 cs = ROk subs /\ cl_verify (f_common_link cfg) subs a (rq_nonce R) = Accept) ->
    verify_w3c cfg R P cx = Accept.
  Proof.
    intros Hg Hshape Hcs Hs Hn Ha Hp Hsubj Hagg Hreg Hrest.
    destruct (w3c_request_data_complete cfg Hg R cx cs Hs Hn Ha Hp) as [needs Hdata].
    destruct (Hrest needs Hdata) as (subs & Hadd & Hcl).
    apply verify_w3c_accept_iff. exists cs, needs, a, regmap, subs. repeat split; assumption.
  Qed.
End Stages.

From AV Require Import Model.VCfg Model.Prover Model.PProps Proofs.C04Proofs.
(* inhabited: what the prover model builds for the honest case s_case passes every stage *)
Example w3c_stages_nonvacuous :
  exists P, create_w3c pcfg_fixed s_req s_cx 7 (pc_sel s_case) = ROk P /\ w3c_stages cfg_fixed s_req P s_cx.
Proof. eexists. split; [vm_compute; reflexivity|]. apply verify_w3c_accept_iff. vm_compute. reflexivity. Qed.
