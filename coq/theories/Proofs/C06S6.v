(* C06: closed statements and non-vacuity *)
From Coq Require Import List String ZArith NArith Bool Lia.
From AV Require Import Model.Str Model.Encode Model.Query Model.VTypes Model.Interval Model.Eval Model.CL
  Model.VerifierLegacy Model.VerifierW3C Model.VCfg Model.VProps Model.Prover Model.PProps
  Proofs.C06S1 Proofs.C06S2 Proofs.C06S3 Proofs.C06S4 Proofs.C06S5 Proofs.C04F10.
Import ListNotations.
Open Scope string_scope.
Open Scope list_scope.
Open Scope Z_scope.

Theorem c06_legacy_complete R P cx :
  creddefs_distinct cx = true -> ids_bound cx P = true -> req_named R = true ->
  mixed_legacy_tags (CLegacy R P cx) = false ->
  verify_legacy cfg_fixed (strip_req R) P cx = Accept -> restr_true_legacy R P cx = true ->
  verify_legacy cfg_fixed R P cx = Accept.
Proof. exact (c06_legacy_complete_sec R P cx). Qed.

(* the request of C04's example with restrictions: a conjunction over schema id, issuer and the value revealed
   under the referent; a negated restriction on the group; one on the predicate *)
Definition x_req := {| rq_nonce := 5;
   rq_attrs := [("a1", {| ai_name := Some "NAME"; ai_names := None;
                          ai_restr := Some (And [Eq "schema_id" "schema:one"; Eq "issuer_id" "issuer:one"; Eq "attr::name::value" "Alex"]); ai_nr := None |});
                ("g1", {| ai_name := None; ai_names := Some ["name"; "zip code"]; ai_restr := Some (Not (Eq "cred_def_id" "creddef:two")); ai_nr := None |});
                ("u1", e_ai "Role"); ("s1", e_ai "nickname")];
   rq_preds := [("p1", {| pi_name := "AGE"; pi_type := GE; pi_value := 18; pi_restr := Some (QIn "schema_name" ["r"; "s"]); pi_nr := None |})]; rq_nr := None |}.
(* the same with a restriction that is false of the credential used *)
Definition y_req := {| rq_nonce := 5;
   rq_attrs := [("a1", {| ai_name := Some "NAME"; ai_names := None; ai_restr := Some (Eq "issuer_id" "issuer:two"); ai_nr := None |});
                ("g1", {| ai_name := None; ai_names := Some ["name"; "zip code"]; ai_restr := None; ai_nr := None |});
                ("u1", e_ai "Role"); ("s1", e_ai "nickname")];
   rq_preds := rq_preds e_req; rq_nr := None |}.

Example c06_nonvacuous :
  exists P, create_legacy pcfg_fixed x_req e_cx 7 (pc_sel e_case) (pc_self e_case) = ROk P /\
    creddefs_distinct e_cx = true /\ ids_bound e_cx P = true /\ req_named x_req = true /\ mixed_legacy_tags (CLegacy x_req P e_cx) = false /\
    verify_legacy cfg_fixed (strip_req x_req) P e_cx = Accept /\ restr_true_legacy x_req P e_cx = true /\
    verify_legacy cfg_fixed x_req P e_cx = Accept /\
    (* and the false restriction: not true of the credential used, and refused *)
    restr_true_legacy y_req P e_cx = false /\ verify_legacy cfg_fixed (strip_req y_req) P e_cx = Accept /\ verify_legacy cfg_fixed y_req P e_cx = Err.
Proof.
  eexists. split. { vm_compute. reflexivity. }
  split. { vm_compute. reflexivity. } split. { vm_compute. reflexivity. } split. { vm_compute. reflexivity. }
  split. { vm_compute. reflexivity. } split. { vm_compute. reflexivity. } split. { vm_compute. reflexivity. }
  split. { vm_compute. reflexivity. } split. { vm_compute. reflexivity. } split. { vm_compute. reflexivity. }
  vm_compute. reflexivity.
Qed.

(* ---- the defect repaired by fix commit c1676db: a referent listed as revealed (credential one) AND as
   unrevealed (credential two); the restriction is true of credential two only; the value shown is
   credential one's. The behaviour before the fix accepts; the reference predicate says the restriction
   is not true of the credential that reveals; the repaired behaviour refuses. ---- *)
Definition cfg_unrev_first : vcfg :=
  {| f_check_preds := true; f_unrev_in_schema := true; f_unrev_intervals := true;
     f_gate_on_creddef := true; f_require_nrp := true; f_w3c_strict_subject := true;
     f_common_link := true; f_bind_schema := true; f_w3c_norm_keys := true; f_marker := true;
     f_no_index_panic := true; f_no_unwrap_panic := true; f_pred_range := true;
     f_w3c_pred_cv := true; f_group_unrevealed := true; f_group_keys := true; f_w3c_nrp_search := true; f_restr_revealed_first := false |}.
Definition k_src2 := {| src_key := 2; src_attrs := ["role"; "name"]; src_values := [("role", encode "dev"); ("name", encode "Bob")];
                        src_cred_link := 7; src_used_link := 0; src_pos := 0; src_altered := false |}.
Definition k_c2 := {| hc_schema := "schema:two"; hc_creddef := "creddef:two"; hc_revreg := None; hc_issuer := "issuer:two";
                      hc_values := [("role", ("dev", encode "dev")); ("name", ("Bob", encode "Bob"))];
                      hc_subject := [("role", VStr "dev"); ("name", VStr "Bob")]; hc_src := k_src2 |}.
Definition k_cx := {| cx_schemas := [("schema:one", {| sc_name := "s"; sc_version := "1.0"; sc_issuer := "issuer:one"; sc_attrs := ["Name"; "age"; "Zip Code"] |});
                                    ("schema:two", {| sc_name := "t"; sc_version := "1.0"; sc_issuer := "issuer:two"; sc_attrs := ["role"; "name"] |})];
                      cx_creddefs := cx_creddefs e_cx; cx_regdefs := None; cx_lists := None; cx_override := None |}.
Definition k_req := {| rq_nonce := 5;
   rq_attrs := [("a1", {| ai_name := Some "NAME"; ai_names := None; ai_restr := Some (Eq "cred_def_id" "creddef:two"); ai_nr := None |}); ("u1", e_ai "Role")];
   rq_preds := []; rq_nr := None |}.
Definition k_sel := [{| pr_cred := e_c1; pr_ts := None; pr_state := None; pr_attrs := [("a1", true)]; pr_preds := [] |};
                     {| pr_cred := k_c2; pr_ts := None; pr_state := None; pr_attrs := [("u1", false)]; pr_preds := [] |}].
Definition add_unrev (P : presentation) (r : string) (i : Z) : presentation :=
  {| p_proofs := p_proofs P; p_agg := p_agg P; p_ids := p_ids P;
     p_rp := {| rp_revealed := rp_revealed (p_rp P); rp_groups := rp_groups (p_rp P); rp_self := rp_self (p_rp P);
                rp_unrev := rp_unrev (p_rp P) ++ [(r, i)]; rp_preds := rp_preds (p_rp P) |} |}.
Example c06_unfixed_refuted :
  match create_legacy pcfg_fixed k_req k_cx 7 k_sel [] with
  | ROk P =>
      let P' := add_unrev P "a1" 1 in
      verify_legacy cfg_unrev_first k_req P' k_cx = Accept /\ creddefs_distinct k_cx = true /\ restr_true_legacy k_req P' k_cx = false /\
      verify_legacy cfg_fixed k_req P' k_cx = Err /\
      (* without the second entry the same presentation is refused by both *)
      verify_legacy cfg_unrev_first k_req P k_cx = Err
  | _ => False end.
Proof. vm_compute. repeat split; reflexivity. Qed.
