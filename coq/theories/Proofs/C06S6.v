(* C06: closed statements and non-vacuity *)
From Coq Require Import List String ZArith NArith Bool Lia.
From AV Require Import Model.Str Model.Encode Model.Query Model.VTypes Model.Interval Model.Eval Model.CL
  Model.VerifierLegacy Model.VerifierW3C Model.VCfg Model.VProps Model.Prover Model.PProps
  Proofs.C06S1 Proofs.C06S2 Proofs.C06S3 Proofs.C06S4 Proofs.C06S5 Proofs.C04F10.
Import ListNotations.
Open Scope string_scope.
Open Scope list_scope.
Open Scope Z_scope.

Theorem c06_legacy_complete R P cx :
  creddefs_distinct cx = true -> ids_bound cx P = true -> req_named R = true ->
  mixed_legacy_tags (CLegacy R P cx) = false ->
  verify_legacy cfg_fixed (strip_req R) P cx = Accept -> restr_true_legacy R P cx = true ->
  verify_legacy cfg_fixed R P cx = Accept.
Proof. exact (c06_legacy_complete_sec R P cx). Qed.

(* the request of C04's example with restrictions: a conjunction over schema id, issuer and the value revealed
   under the referent; a negated restriction on the group; one on the predicate *)
Definition x_req := {| rq_nonce := 5;
   rq_attrs := [("a1", {| ai_name := Some "NAME"; ai_names := None;
                          ai_restr := Some (And [Eq "schema_id" "schema:one"; Eq "issuer_id" "issuer:one"; Eq "attr::name::value" "Alex"]); ai_nr := None |});
                ("g1", {| ai_name := None; ai_names := Some ["name"; "zip code"]; ai_restr := Some (Not (Eq "cred_def_id" "creddef:two")); ai_nr := None |});
                ("u1", e_ai "Role"); ("s1", e_ai "nickname")];
   rq_preds := [("p1", {| pi_name := "AGE"; pi_type := GE; pi_value := 18; pi_restr := Some (QIn "schema_name" ["r"; "s"]); pi_nr := None |})]; rq_nr := None |}.
(* the same with a restriction that is false of the credential used *)
Definition y_req := {| rq_nonce := 5;
   rq_attrs := [("a1", {| ai_name := Some "NAME"; ai_names := None; ai_restr := Some (Eq "issuer_id" "issuer:two"); ai_nr := None |});
                ("g1", {| ai_name := None; ai_names := Some ["name"; "zip code"]; ai_restr := None; ai_nr := None |});
                ("u1", e_ai "Role"); ("s1", e_ai "nickname")];
   rq_preds := rq_preds e_req; rq_nr := None |}.

Example c06_nonvacuous :
  exists P, create_legacy pcfg_fixed x_req e_cx 7 (pc_sel e_case) (pc_self e_case) = ROk P /\
    creddefs_distinct e_cx = true /\ ids_bound e_cx P = true /\ req_named x_req = true /\ mixed_legacy_tags (CLegacy x_req P e_cx) = false /\
    verify_legacy cfg_fixed (strip_req x_req) P e_cx = Accept /\ restr_true_legacy x_req P e_cx = true /\
    verify_legacy cfg_fixed x_req P e_cx = Accept /\
    (* and the false restriction: not true of the credential used, and refused *)
    restr_true_legacy y_req P e_cx = false /\ verify_legacy cfg_fixed (strip_req y_req) P e_cx = Accept /\ verify_legacy cfg_fixed y_req P e_cx = Err.
Proof.
  eexists. split. { vm_compute. reflexivity. }
  split. { vm_compute. reflexivity. } split. { vm_compute. reflexivity. } split. { vm_compute. reflexivity. }
  split. { vm_compute. reflexivity. } split. { vm_compute. reflexivity. } split. { vm_compute. reflexivity. }
  split. { vm_compute. reflexivity. } split. { vm_compute. reflexivity. } split. { vm_compute. reflexivity. }
  vm_compute. reflexivity.
Qed.
