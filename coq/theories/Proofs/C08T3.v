(* C08: closed completeness statement (legacy format) and non-vacuity *)
From Coq Require Import List String ZArith NArith Bool Lia.
From AV Require Import Model.Str Model.Encode Model.Query Model.VTypes Model.Interval Model.Eval Model.CL
  Model.VerifierLegacy Model.VCfg Model.VProps Model.Prover Model.PProps Proofs.C08T1 Proofs.C08T2 Proofs.C04F10 Proofs.C04G6.
Import ListNotations.
Open Scope string_scope.
Open Scope list_scope.
Open Scope Z_scope.

Theorem c08_legacy_complete R P cx :
  verify_legacy cfg_fixed (nonr_req R) P cx = Accept -> demands_ok R P cx = true -> served_nonempty R P cx = true ->
  verify_legacy cfg_fixed R P cx = Accept.
Proof. exact (c08_legacy_complete_sec R P cx). Qed.

(* the revocable example of C04: request interval [10,30], attribute interval [15,25], predicate interval
   [5,22], credential shown at 20; and the same presentation against a request whose attribute interval is
   [21,25]: that referent's demand is not met, and the presentation is refused *)
Definition g_req_late := {| rq_nonce := 5;
   rq_attrs := [("a1", {| ai_name := Some "NAME"; ai_names := None; ai_restr := None; ai_nr := g_iv 21 25 |});
                ("g1", {| ai_name := None; ai_names := Some ["name"; "zip code"]; ai_restr := None; ai_nr := None |});
                ("u1", e_ai "Role"); ("s1", e_ai "nickname")];
   rq_preds := rq_preds g_req; rq_nr := g_iv 10 30 |}.
Example c08_complete_nonvacuous :
  exists P, create_legacy pcfg_fixed g_req g_cx 7 (pc_sel g_case) (pc_self g_case) = ROk P /\
    verify_legacy cfg_fixed (nonr_req g_req) P g_cx = Accept /\ demands_ok g_req P g_cx = true /\ served_nonempty g_req P g_cx = true /\
    verify_legacy cfg_fixed g_req P g_cx = Accept /\
    demands_ok g_req_late P g_cx = false /\ verify_legacy cfg_fixed (nonr_req g_req_late) P g_cx = Accept /\ verify_legacy cfg_fixed g_req_late P g_cx = Err.
Proof.
  eexists. split. { vm_compute. reflexivity. }
  split. { vm_compute. reflexivity. } split. { vm_compute. reflexivity. } split. { vm_compute. reflexivity. }
  split. { vm_compute. reflexivity. } split. { vm_compute. reflexivity. } split. { vm_compute. reflexivity. }
  vm_compute. reflexivity.
Qed.
