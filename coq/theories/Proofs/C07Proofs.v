(* C07: what a presentation built by the prover models discloses is covered by the holder's
   reveal choices — for every request, context, link secret, selection and self-attested map. *)
From Coq Require Import List String Ascii ZArith NArith Bool Lia.
From AV Require Import Model.Str Model.Encode Model.Query Model.VTypes Model.Interval Model.CL Model.VerifierLegacy Model.VerifierW3C
  Model.VCfg Model.Prover Model.PProps Proofs.VMonad.
Import ListNotations.
Local Open Scope string_scope.
Local Open Scope list_scope.
Local Open Scope Z_scope.

(* ---- normalisation is idempotent ---- *)
Lemma lower_ascii_props a : lower_ascii (lower_ascii a) = lower_ascii a /\ (Ascii.eqb a " " = false -> Ascii.eqb (lower_ascii a) " " = false).
Proof. destruct a as [[] [] [] [] [] [] [] []]; split; try reflexivity; intro H; try discriminate H; reflexivity. Qed.
Lemma cv_idem s : cv (cv s) = cv s.
Proof.
  induction s as [|a r IH]; [reflexivity|]. cbn [cv].
  destruct (Ascii.eqb a " ") eqn:E; [exact IH|].
  cbn [cv]. destruct (lower_ascii_props a) as [H1 H2]. rewrite (H2 E), H1, IH. reflexivity.
Qed.

Lemma dedup_s_In x l : In x (dedup_s l) -> In x l.
Proof.
  induction l as [|y r IH]; cbn [dedup_s]; [tauto|].
  destruct (mem y r); cbn [In]; intuition.
Qed.

Lemma Forall2_nthZ {A B} (Rel : A -> B -> Prop) l1 l2 : Forall2 Rel l1 l2 ->
  forall k y, nthZ l2 k = Some y -> exists x, nthZ l1 k = Some x /\ Rel x y.
Proof.
  induction 1 as [|x y l1 l2 Hxy HF IH]; intros k z Hk; [discriminate|].
  cbn [nthZ] in *. destruct (k =? 0); [injection Hk as <-; eauto|].
  destruct (k <? 0); [discriminate|]. eauto.
Qed.

Lemma combine_seq_nthZ {A} (l : list A) : forall s k x, In (k, x) (combine (seq s (List.length l)) l) ->
  (s <= k)%nat /\ nthZ l (Z.of_nat (k - s)) = Some x.
Proof.
  induction l as [|y r IH]; intros s k x H; cbn in H; [tauto|].
  destruct H as [H|H].
  - injection H as <- <-. split; [lia|]. replace (s - s)%nat with 0%nat by lia. reflexivity.
  - apply IH in H as [Hle Hn]. split; [lia|].
    replace (Z.of_nat (k - s)) with (Z.of_nat (k - S s) + 1) by lia.
    rewrite nthZ_shift by lia. exact Hn.
Qed.

Lemma mapR_In {A B} (f : A -> res B) l l' : mapR f l = ROk l' -> forall y, In y l' -> exists x, In x l /\ f x = ROk y.
Proof.
  intros H. apply mapR_ok in H. induction H as [|x y l1 l2 Hxy HF IH]; intros z Hz; [destruct Hz|].
  destruct Hz as [<-|Hz]; [exists x; split; [left; reflexivity|exact Hxy]|].
  destruct (IH _ Hz) as (x' & Hin & Hf). exists x'. split; [right; exact Hin|exact Hf].
Qed.

Section WithRequest.
  Context (pc : pcfg) (R : request) (cx : ctx) (link : N).

  (* the holder marked referent r (which names m) as revealed in p *)
  Inductive marked (p : present) (n : string) : Prop :=
  | marked_intro r ai m : In (r, true) (pr_attrs p) -> assoc r (rq_attrs R) = Some ai -> In m (names_of ai) -> cv m = cv n -> marked p n.

  Lemma marked_allowed p n : marked p n -> allowed R p n = true.
  Proof.
    intros [r ai m Hin Ha Hm Hcv]. unfold allowed. apply existsb_exists. exists (r, true). split; [exact Hin|].
    cbn. rewrite Ha. apply existsb_exists. exists m. split; [exact Hm|]. rewrite Hcv. apply String.eqb_refl.
  Qed.

  (* ---- the sub-proof reveals marked names only ---- *)
  Lemma cl_prove_revealed src fed attrs revealed preds nrpo pos sp :
    cl_prove src fed attrs revealed preds nrpo link pos = ROk sp ->
    forall n e, In (n, e) (sp_revealed sp) -> In n revealed.
  Proof.
    unfold cl_prove. intros H n e Hin.
    apply bind_ok in H as (_ & _ & H). apply bind_ok in H as (rv & Hrv & H).
    apply bind_ok in H as (_ & _ & H). apply bind_ok in H as (_ & _ & H). apply bind_ok in H as (_ & _ & H).
    apply bind_ok in H as (_ & _ & H). injection H as <-. cbn [sp_revealed] in Hin.
    destruct (mapR_In _ _ _ Hrv _ Hin) as (x & Hx & Hfx).
    apply bind_ok in Hfx as (e' & _ & Hfx). injection Hfx as <- _. apply dedup_s_In. exact Hx.
  Qed.

  Lemma prover_sub_proof_marked pos p fed sp :
    prover_sub_proof pc R cx link pos p fed = ROk sp ->
    forall n e, In (n, e) (sp_revealed sp) -> marked p n.
  Proof.
    unfold prover_sub_proof. intros H n e Hin.
    apply bind_ok in H as (sc & _ & H). apply bind_ok in H as (_ & _ & H).
    apply bind_ok in H as (ais & Hais & H). apply bind_ok in H as (uis & _ & H). apply bind_ok in H as (pis & _ & H).
    pose proof (cl_prove_revealed _ _ _ _ _ _ _ _ H n e Hin) as Hin'. clear Hin. rename Hin' into Hin.
    apply in_map_iff in Hin as (m & Hcv & Hm). apply in_flat_map in Hm as (ai & Hai & Hm).
    apply mapR_ok in Hais.
    assert (Hex : exists r, In r (map fst (List.filter snd (pr_attrs p))) /\ of_opt (assoc r (rq_attrs R)) = ROk ai).
    { clear -Hais Hai. induction Hais as [|x y l1 l2 Hxy HF IH]; [destruct Hai|].
      destruct Hai as [<-|Hai]; [exists x; split; [left; reflexivity|exact Hxy]|].
      destruct (IH Hai) as (r & Hr & Hf). exists r. split; [right; exact Hr|exact Hf]. }
    destruct Hex as (r & Hr & Hf). apply of_opt_ok in Hf.
    apply in_map_iff in Hr as ([r' b] & Hfst & Hfl). cbn in Hfst. subst r'.
    apply filter_In in Hfl as [Hfl Hb]. cbn in Hb. subst b.
    apply (marked_intro p n r ai m Hfl Hf Hm). rewrite <- Hcv. symmetry. apply cv_idem.
  Qed.

  (* ---- legacy: requested_proof ---- *)
  (* what update_requested_proof adds for the entry at index k *)
  Definition rv_just (p : present) (k : Z) (r : string) (v : Z * string * string) : Prop :=
    fst (fst v) = k /\ In (r, true) (pr_attrs p) /\ exists ai n, assoc r (rq_attrs R) = Some ai /\ ai_name ai = Some n.
  Definition gr_just (p : present) (k : Z) (r : string) (v : Z * list (string * (string * string))) : Prop :=
    fst v = k /\ In (r, true) (pr_attrs p) /\ exists ai ns, assoc r (rq_attrs R) = Some ai /\ ai_names ai = Some ns /\ map fst (snd v) = ns.

  Lemma upd_attrs_spec c k l : forall rp rp', upd_attrs R c k l rp = ROk rp' ->
    (forall r v, In (r, v) (rp_revealed rp') -> In (r, v) (rp_revealed rp) \/
        (fst (fst v) = k /\ In (r, true) l /\ exists ai n, assoc r (rq_attrs R) = Some ai /\ ai_name ai = Some n))
    /\ (forall r v, In (r, v) (rp_groups rp') -> In (r, v) (rp_groups rp) \/
        (fst v = k /\ In (r, true) l /\ exists ai ns, assoc r (rq_attrs R) = Some ai /\ ai_names ai = Some ns /\ map fst (snd v) = ns)).
  Proof.
    induction l as [|[r0 b] l IH]; intros rp rp' H; cbn [upd_attrs] in H.
    - injection H as <-. split; intros; left; assumption.
    - apply bind_ok in H as (rp1 & H1 & H). destruct (IH _ _ H) as [IHr IHg]. clear IH H.
      assert (Hstep : (forall r v, In (r, v) (rp_revealed rp1) -> In (r, v) (rp_revealed rp) \/
                         (fst (fst v) = k /\ (r, true) = (r0, b) /\ exists ai n, assoc r (rq_attrs R) = Some ai /\ ai_name ai = Some n))
                      /\ (forall r v, In (r, v) (rp_groups rp1) -> In (r, v) (rp_groups rp) \/
                         (fst v = k /\ (r, true) = (r0, b) /\ exists ai ns, assoc r (rq_attrs R) = Some ai /\ ai_names ai = Some ns /\ map fst (snd v) = ns))).
      { unfold upd_attr in H1. destruct b.
        - apply bind_ok in H1 as (ai & Hai & H1). apply of_opt_panic_ok in Hai.
          destruct (ai_name ai) as [n|] eqn:En.
          + apply bind_ok in H1 as (v & _ & H1). injection H1 as <-. cbn. split.
            * intros r v0 [Heq|Hin]; [|left; exact Hin]. injection Heq as <- <-. right. cbn. eauto 8.
            * intros r v0 Hin. left. exact Hin.
          + destruct (ai_names ai) as [ns|] eqn:Ens.
            * apply bind_ok in H1 as (vs & Hvs & H1). injection H1 as <-. cbn. split.
              -- intros r v0 Hin. left. exact Hin.
              -- intros r v0 [Heq|Hin]; [|left; exact Hin]. injection Heq as <- <-. right. cbn.
                 split; [reflexivity|]. split; [reflexivity|]. exists ai, ns. split; [exact Hai|]. split; [exact Ens|].
                 apply mapR_ok in Hvs. clear -Hvs. induction Hvs as [|x y l1 l2 Hxy HF IHF]; [reflexivity|].
                 cbn. apply bind_ok in Hxy as (v & _ & Hxy). injection Hxy as <-. cbn. f_equal. exact IHF.
            * injection H1 as <-. split; intros; left; assumption.
        - injection H1 as <-. cbn. split; intros; left; assumption. }
      destruct Hstep as [Sr Sg]. split.
      + intros r v Hin. destruct (IHr _ _ Hin) as [Hin1|(Hk & Hl & Hex)].
        * destruct (Sr _ _ Hin1) as [Hin0|(Hk & Heq & Hex)]; [left; exact Hin0|].
          right. split; [exact Hk|]. split; [left; symmetry; exact Heq|exact Hex].
        * right. split; [exact Hk|]. split; [right; exact Hl|exact Hex].
      + intros r v Hin. destruct (IHg _ _ Hin) as [Hin1|(Hk & Hl & Hex)].
        * destruct (Sg _ _ Hin1) as [Hin0|(Hk & Heq & Hex)]; [left; exact Hin0|].
          right. split; [exact Hk|]. split; [left; symmetry; exact Heq|exact Hex].
        * right. split; [exact Hk|]. split; [right; exact Hl|exact Hex].
  Qed.

  Lemma fold_add_pred_keeps k l : forall rp,
    rp_revealed (fold_left (fun acc r => rp_add_pred r k acc) l rp) = rp_revealed rp
    /\ rp_groups (fold_left (fun acc r => rp_add_pred r k acc) l rp) = rp_groups rp.
  Proof. induction l as [|x l IH]; intros rp; cbn [fold_left]; [split; reflexivity|]. destruct (IH (rp_add_pred x k rp)) as [-> ->]. split; reflexivity. Qed.

  Lemma upd_rp_spec p k rp rp' : upd_rp R p k rp = ROk rp' ->
    (forall r v, In (r, v) (rp_revealed rp') -> In (r, v) (rp_revealed rp) \/ rv_just p k r v)
    /\ (forall r v, In (r, v) (rp_groups rp') -> In (r, v) (rp_groups rp) \/ gr_just p k r v).
  Proof.
    unfold upd_rp. intros H. apply bind_ok in H as (rp1 & H1 & H). injection H as <-.
    destruct (fold_add_pred_keeps k (pr_preds p) rp1) as [-> ->].
    exact (upd_attrs_spec _ _ _ _ _ H1).
  Qed.

  Definition sp_marked (p : present) (sp : subproof) : Prop := forall n e, In (n, e) (sp_revealed sp) -> marked p n.

  Lemma legacy_loop_spec : forall ps k0 rp0 rp sps ids, 0 <= k0 ->
    legacy_loop pc R cx link ps k0 rp0 = ROk (rp, sps, ids) ->
    (forall r v, In (r, v) (rp_revealed rp) -> In (r, v) (rp_revealed rp0) \/
        exists p, k0 <= fst (fst v) /\ nthZ (nonempty ps) (fst (fst v) - k0) = Some p /\ rv_just p (fst (fst v)) r v)
    /\ (forall r v, In (r, v) (rp_groups rp) -> In (r, v) (rp_groups rp0) \/
        exists p, k0 <= fst v /\ nthZ (nonempty ps) (fst v - k0) = Some p /\ gr_just p (fst v) r v)
    /\ Forall2 sp_marked (nonempty ps) sps.
  Proof.
    induction ps as [|p ps IH]; intros k0 rp0 rp sps ids Hk H; cbn [legacy_loop] in H.
    - injection H as <- <- <-. split; [|split]; [intros; left; assumption|intros; left; assumption|constructor].
    - unfold nonempty. cbn [List.filter]. destruct (pr_empty p) eqn:Ee; cbn [negb].
      + exact (IH _ _ _ _ _ Hk H).
      + apply bind_ok in H as (rp1 & Hu & H). apply bind_ok in H as (sp & Hsp & H).
        apply bind_ok in H as ([[rpf sps'] ids'] & Hrest & H). injection H as <- <- <-.
        assert (Hk1 : 0 <= k0 + 1) by lia. destruct (IH _ _ _ _ _ Hk1 Hrest) as (Ir & Ig & IF). destruct (upd_rp_spec _ _ _ _ Hu) as [Ur Ug].
        split; [|split].
        * intros r v Hin. destruct (Ir _ _ Hin) as [Hin1|(q & Hle & Hn & Hj)].
          -- destruct (Ur _ _ Hin1) as [Hin0|Hj]; [left; exact Hin0|]. right. exists p.
             destruct Hj as (Hk0 & Hrest'). split; [lia|]. split; [rewrite Hk0, Z.sub_diag; reflexivity|].
             split; [reflexivity|]. exact Hrest'.
          -- right. exists q. split; [lia|]. split; [|exact Hj].
             replace (fst (fst v) - k0) with ((fst (fst v) - (k0 + 1)) + 1) by lia. rewrite nthZ_shift by lia. exact Hn.
        * intros r v Hin. destruct (Ig _ _ Hin) as [Hin1|(q & Hle & Hn & Hj)].
          -- destruct (Ug _ _ Hin1) as [Hin0|Hj]; [left; exact Hin0|]. right. exists p.
             destruct Hj as (Hk0 & Hrest'). split; [lia|]. split; [rewrite Hk0, Z.sub_diag; reflexivity|].
             split; [reflexivity|]. exact Hrest'.
          -- right. exists q. split; [lia|]. split; [|exact Hj].
             replace (fst v - k0) with ((fst v - (k0 + 1)) + 1) by lia. rewrite nthZ_shift by lia. exact Hn.
        * constructor; [|exact IF]. intros n e Hin. exact (prover_sub_proof_marked _ _ _ _ Hsp n e Hin).
  Qed.

  Theorem c07_legacy_model ps self P :
    create_legacy pc R cx link ps self = ROk P ->
    forall k n, In (k, n) (disclosed_legacy R P) -> allowed_at R ps k n = true.
  Proof.
    unfold create_legacy. intros H k n Hin.
    apply bind_ok in H as (_ & _ & H). apply bind_ok in H as (_ & _ & H).
    apply bind_ok in H as ([[rp sps] ids] & Hloop & H). injection H as <-.
    destruct (legacy_loop_spec _ _ _ _ _ _ (Z.le_refl 0) Hloop) as (Lr & Lg & LF).
    unfold disclosed_legacy in Hin. cbn [p_rp p_proofs] in Hin.
    apply in_app_or in Hin as [Hin|Hin]; [|apply in_app_or in Hin as [Hin|Hin]].
    - apply in_flat_map in Hin as ([r [[k' raw] enc]] & Hin1 & Hin2).
      destruct (Lr _ _ Hin1) as [H0|(p & Hle & Hn & Hj)]; [destruct H0|].
      destruct Hj as (_ & Hmark & ai & m & Ha & Hname). cbn [fst] in *. rewrite Z.sub_0_r in Hn.
      rewrite Ha, Hname in Hin2. cbn in Hin2. destruct Hin2 as [Heq|[]]. injection Heq as <- <-.
      unfold allowed_at. rewrite Hn. apply marked_allowed.
      apply (marked_intro p m r ai m Hmark Ha); [|reflexivity]. unfold names_of. rewrite Hname. left. reflexivity.
    - apply in_flat_map in Hin as ([r [k' vals]] & Hin1 & Hin2).
      destruct (Lg _ _ Hin1) as [H0|(p & Hle & Hn & Hj)]; [destruct H0|].
      destruct Hj as (_ & Hmark & ai & ns & Ha & Hnames & Hvals). cbn [fst snd] in *. rewrite Z.sub_0_r in Hn.
      apply in_map_iff in Hin2 as ([m v] & Heq & Hinv). injection Heq as <- <-.
      unfold allowed_at. rewrite Hn. apply marked_allowed.
      apply (marked_intro p m r ai m Hmark Ha); [|reflexivity]. unfold names_of. rewrite Hnames. apply in_or_app. right.
      rewrite <- Hvals. apply in_map_iff. exists (m, v). split; [reflexivity|exact Hinv].
    - apply in_concat in Hin as (l & Hl & Hin). apply in_map_iff in Hl as ([k' sp] & <- & Hc).
      apply in_map_iff in Hin as ([m e] & Heq & Hine). injection Heq as <- <-.
      apply combine_seq_nthZ in Hc as [_ Hn]. rewrite Nat.sub_0_r in Hn.
      destruct (Forall2_nthZ _ _ _ LF _ _ Hn) as (p & Hp & Hm).
      unfold allowed_at. rewrite Hp. apply marked_allowed. exact (Hm _ _ Hine).
  Qed.

  (* ---- W3C ---- *)
  Context (Hzip : pf_w3c_zip pc = true) (Hgrp : pf_group_reveal pc = true).

  Definition subj_marked (p : present) (s : list (string * attr_value)) : Prop :=
    forall k v, In (k, v) s -> (exists b, v = VBool b) \/ marked p k.

  Lemma subj_add_marked p k v s : subj_marked p s -> marked p k -> subj_marked p (subj_add k v s).
  Proof.
    intros Hs Hk k' v' [Heq|Hin]; [injection Heq as <- <-; right; exact Hk|].
    apply filter_In in Hin as [Hin _]. exact (Hs _ _ Hin).
  Qed.

  Lemma get_ci_cv c n kv : get_ci c n = Some kv -> In kv (wc_subject c) /\ cv (fst kv) = cv n.
  Proof.
    unfold get_ci. intros H. apply find_some in H as [Hin He]. split; [exact Hin|]. apply String.eqb_eq. exact He.
  Qed.

  Lemma subj_attr_marked p s x s' : In x (pr_attrs p) -> subj_marked p s -> subj_attr pc R (pr_cred p) s x = ROk s' -> subj_marked p s'.
  Proof.
    destruct x as [r reveal]. intros Hin Hs H. unfold subj_attr in H.
    apply bind_ok in H as (ai & Hai & H). apply of_opt_ok in Hai. apply bind_ok in H as (s1 & H1 & H).
    assert (Hs1 : subj_marked p s1).
    { destruct (ai_name ai) as [n|] eqn:En; [|injection H1 as <-; exact Hs].
      apply bind_ok in H1 as (kv & Hkv & H1). apply of_opt_ok in Hkv. injection H1 as <-.
      destruct reveal; [|exact Hs]. apply subj_add_marked; [exact Hs|].
      apply get_ci_cv in Hkv as [_ Hcv].
      apply (marked_intro p (fst kv) r ai n Hin Hai); [unfold names_of; rewrite En; left; reflexivity|symmetry; exact Hcv]. }
    destruct (ai_names ai) as [ns|] eqn:Ens; [|injection H as <-; exact Hs1].
    assert (Hgen : forall l acc s2, (forall m, In m l -> In m ns) -> (forall sa, acc = ROk sa -> subj_marked p sa) ->
              fold_left (fun a n => s' <- a ;; kv <- of_opt (get_ci (as_w3c (pr_cred p)) n) ;;
                                    ROk (if reveal || negb (pf_group_reveal pc) then subj_add (fst kv) (snd kv) s' else s')) l acc = ROk s2 ->
              subj_marked p s2).
    { induction l as [|m l IHl]; intros acc s2 Hsub Hacc Hf; cbn [fold_left] in Hf; [exact (Hacc _ Hf)|].
      apply (IHl _ _ (fun m' Hm' => Hsub m' (or_intror Hm'))) in Hf; [exact Hf|].
      intros sa Hsa. apply bind_ok in Hsa as (s0 & H0 & Hsa). apply bind_ok in Hsa as (kv & Hkv & Hsa). apply of_opt_ok in Hkv.
      injection Hsa as <-. rewrite Hgrp. cbn [negb]. rewrite orb_false_r.
      destruct reveal; [|exact (Hacc _ H0)]. apply subj_add_marked; [exact (Hacc _ H0)|].
      apply get_ci_cv in Hkv as [_ Hcv].
      apply (marked_intro p (fst kv) r ai m Hin Hai); [unfold names_of; rewrite Ens; apply in_or_app; right; apply Hsub; left; reflexivity|symmetry; exact Hcv]. }
    apply (Hgen ns (ROk s1) s' (fun m Hm => Hm)); [|exact H]. intros sa Hsa. injection Hsa as <-. exact Hs1.
  Qed.

  Lemma foldR_inv {A S} (f : S -> A -> res S) (Inv : S -> Prop) l :
    (forall s x s', In x l -> Inv s -> f s x = ROk s' -> Inv s') -> forall s s', Inv s -> foldR f l s = ROk s' -> Inv s'.
  Proof.
    induction l as [|x l IH]; intros Hstep s s' Hi H; cbn [foldR] in H; [injection H as <-; exact Hi|].
    apply bind_ok in H as (s1 & H1 & H). apply (IH (fun s0 x0 s0' Hx => Hstep s0 x0 s0' (or_intror Hx)) s1 s'); [|exact H].
    exact (Hstep _ _ _ (or_introl eq_refl) Hi H1).
  Qed.

  Lemma build_subject_marked p s : build_subject pc R p = ROk s -> subj_marked p s.
  Proof.
    unfold build_subject. intros H. apply bind_ok in H as (s1 & H1 & H).
    assert (Hs1 : subj_marked p s1).
    { apply (foldR_inv (subj_attr pc R (pr_cred p)) (subj_marked p) (pr_attrs p)) with (s := []); [|intros k v []|exact H1].
      intros s0 x s0' Hx Hi Hf. exact (subj_attr_marked p s0 x s0' Hx Hi Hf). }
    apply (foldR_inv (subj_pred R (pr_cred p)) (subj_marked p) (pr_preds p)) with (s := s1); [|exact Hs1|exact H].
    intros s0 r s0' _ Hi Hf. unfold subj_pred in Hf.
    apply bind_ok in Hf as (pi & _ & Hf). apply bind_ok in Hf as (kv & _ & Hf).
    destruct (assoc (fst kv) s0) as [[| |b]|]; try discriminate Hf; try (injection Hf as <-; exact Hi).
    injection Hf as <-. intros k v [Heq|Hin]; [injection Heq as <- <-; left; eauto|exact (Hi _ _ Hin)].
  Qed.

  Lemma w3c_subs_spec : forall ps k0 sps, w3c_subs pc R cx link ps k0 = ROk sps -> Forall2 sp_marked (nonempty ps) sps.
  Proof.
    induction ps as [|p ps IH]; intros k0 sps H; cbn [w3c_subs] in H; [injection H as <-; constructor|].
    unfold nonempty. cbn [List.filter]. destruct (pr_empty p); cbn [negb]; [exact (IH _ _ H)|].
    apply bind_ok in H as (fed & _ & H). apply bind_ok in H as (sp & Hsp & H). apply bind_ok in H as (sps' & Hr & H). injection H as <-.
    constructor; [|exact (IH _ _ Hr)]. intros n e Hin. exact (prover_sub_proof_marked _ _ _ _ Hsp n e Hin).
  Qed.

  Theorem c07_w3c_model ps P :
    create_w3c pc R cx link ps = ROk P ->
    forall k n, In (k, n) (disclosed_w3c P) -> allowed_at R ps k n = true.
  Proof.
    unfold create_w3c. intros H k n Hin.
    apply bind_ok in H as (_ & _ & H). apply bind_ok in H as (_ & _ & H).
    apply bind_ok in H as (sps & Hsps & H). apply bind_ok in H as (creds & Hcreds & H). injection H as <-.
    rewrite Hzip in Hcreds. apply w3c_subs_spec in Hsps. fold (nonempty ps) in Hcreds.
    unfold disclosed_w3c in Hin. cbn [wp_creds] in Hin.
    apply in_concat in Hin as (l & Hl & Hin). apply in_map_iff in Hl as ([k' c] & <- & Hc).
    apply combine_seq_nthZ in Hc as [_ Hn]. rewrite Nat.sub_0_r in Hn.
    apply mapR_ok in Hcreds.
    destruct (Forall2_nthZ _ _ _ Hcreds _ _ Hn) as ([p sp] & Hpsp & Hmk).
    apply bind_ok in Hmk as (subj & Hsubj & Hmk). injection Hmk as <-.
    assert (Hp : nthZ (nonempty ps) (Z.of_nat k') = Some p /\ nthZ sps (Z.of_nat k') = Some sp).
    { clear -Hpsp. revert Hpsp. generalize (Z.of_nat k'). generalize (nonempty ps) as l1. intros l1. revert sps.
      induction l1 as [|x l1 IH]; intros [|y l2] z H; cbn in H; try discriminate.
      cbn [nthZ]. destruct (z =? 0); [injection H as <- <-; split; reflexivity|].
      destruct (z <? 0); [discriminate|]. exact (IH _ _ H). }
    destruct Hp as [Hp Hsp]. unfold allowed_at. cbn [wc_subject wc_pv] in Hin.
    apply in_app_or in Hin as [Hin|Hin].
    - apply in_flat_map in Hin as ([m v] & Hmv & Hin).
      destruct (build_subject_marked _ _ Hsubj _ _ Hmv) as [[b ->]|Hm]; [destruct Hin|].
      assert (Heq : (k, n) = (Z.of_nat k', m)) by (destruct v; cbn in Hin; [destruct Hin as [Heq|[]]; symmetry; exact Heq|destruct Hin as [Heq|[]]; symmetry; exact Heq|destruct Hin]).
      injection Heq as -> ->. rewrite Hp. apply marked_allowed. exact Hm.
    - apply in_map_iff in Hin as ([m e] & Heq & Hine). injection Heq as <- <-. rewrite Hp. apply marked_allowed.
      destruct (Forall2_nthZ _ _ _ Hsps _ _ Hsp) as (p' & Hp' & Hm). rewrite Hp in Hp'. injection Hp' as <-. exact (Hm _ _ Hine).
  Qed.
End WithRequest.

(* the code before the fix commit e469f10 (group values added regardless of the reveal flag) *)
Definition pcfg_no_group_reveal : pcfg := {| pf_w3c_zip := true; pf_group_reveal := false; pf_unrev_intervals := true |}.
Definition w_src := {| src_key := 1; src_attrs := ["name"; "age"]; src_values := [("name", encode "Alex"); ("age", "28")];
                       src_cred_link := 7; src_used_link := 0; src_pos := 0; src_altered := false |}.
Definition w_cred := {| hc_schema := "schema:one"; hc_creddef := "creddef:one"; hc_revreg := None; hc_issuer := "issuer:one";
                        hc_values := [("name", ("Alex", encode "Alex")); ("age", ("28", "28"))];
                        hc_subject := [("name", VStr "Alex"); ("age", VNum 28)]; hc_src := w_src |}.
Definition w_cx := {| cx_schemas := [("schema:one", {| sc_name := "s"; sc_version := "1.0"; sc_issuer := "issuer:one"; sc_attrs := ["name"; "age"] |})];
                      cx_creddefs := [("creddef:one", {| cd_schema_id := "schema:one"; cd_issuer := "issuer:one"; cd_key := 1; cd_revkey := None |})];
                      cx_regdefs := None; cx_lists := None; cx_override := None |}.
Definition w_req := {| rq_nonce := 5; rq_attrs := [("g1", {| ai_name := None; ai_names := Some ["name"; "age"]; ai_restr := None; ai_nr := None |})];
                       rq_preds := []; rq_nr := None |}.
Definition w_sel := [{| pr_cred := w_cred; pr_ts := None; pr_state := None; pr_attrs := [("g1", false)]; pr_preds := [] |}].

Lemma c07_unfixed_refuted :
  exists P k n, create_w3c pcfg_no_group_reveal w_req w_cx 7 w_sel = ROk P /\ In (k, n) (disclosed_w3c P) /\ allowed_at w_req w_sel k n = false.
Proof. eexists; exists 0, "age". split; [vm_compute; reflexivity|]. split; [vm_compute; tauto|vm_compute; reflexivity]. Qed.

(* non-vacuity: on the same selection the repaired model builds a presentation, and it shows nothing *)
Example c07_fixed_on_witness :
  exists P, create_w3c pcfg_fixed w_req w_cx 7 w_sel = ROk P /\ disclosed_w3c P = [].
Proof. eexists. split; vm_compute; reflexivity. Qed.

(* the boolean form used by the correspondence run, on the model's own output *)
Lemma c07_current c :
  match create_legacy pcfg_current (pc_req c) (pc_cx c) (pc_link c) (pc_sel c) (pc_self c) with
  | ROk P => ok_C07 c (PLegacy P) [] [] = true | _ => True end
  /\ match create_w3c pcfg_current (pc_req c) (pc_cx c) (pc_link c) (pc_sel c) with
     | ROk P => ok_C07 c (PW3C P) [] [] = true | _ => True end.
Proof.
  split.
  - destruct (create_legacy _ _ _ _ _ _) as [P| |] eqn:E; [|exact I|exact I].
    unfold ok_C07. rewrite andb_true_r, app_nil_r. apply forallb_forall. intros [k n] Hin.
    exact (c07_legacy_model _ _ _ _ _ _ _ E k n Hin).
  - destruct (create_w3c _ _ _ _ _) as [P| |] eqn:E; [|exact I|exact I].
    unfold ok_C07. rewrite andb_true_r, app_nil_r. apply forallb_forall. intros [k n] Hin.
    exact (c07_w3c_model pcfg_current _ _ _ eq_refl eq_refl _ _ E k n Hin).
Qed.
