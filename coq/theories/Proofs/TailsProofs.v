(* C19: read-back of tails, and atomic publication with the exact characterisation of when a
   temp file can survive an error *)
From Coq Require Import List NArith Arith Bool Lia.
From AV Require Import Model.Sha256 Model.Tails.
Import ListNotations.
Local Open Scope nat_scope.

Lemma skipn_concat_chunks (S0 : nat) (tails : list (list N)) k :
  Forall (fun t => List.length t = S0) tails -> skipn (S0 * k) (List.concat tails) = List.concat (skipn k tails).
Proof.
  intros H. revert k. induction H as [|t r Ht Hr IH]; intros k.
  - rewrite !skipn_nil. reflexivity.
  - destruct k as [|k]; [rewrite Nat.mul_0_r; reflexivity|].
    cbn [concat skipn]. replace (S0 * S k) with (List.length t + S0 * k) by lia.
    rewrite skipn_app. rewrite skipn_all2 by lia. replace (List.length t + S0 * k - List.length t) with (S0 * k) by lia.
    cbn [app]. apply IH.
Qed.

Lemma concat_length_chunks (S0 : nat) (tails : list (list N)) :
  Forall (fun t => List.length t = S0) tails -> List.length (List.concat tails) = S0 * List.length tails.
Proof. induction 1 as [|t r Ht Hr IH]; cbn [concat List.length]; [lia|]. rewrite app_length, IH, Ht. lia. Qed.

(* reading tail k back yields the k-th generated tail; past the end the read fails *)
Theorem read_back tails (k : N) :
  Forall (fun t => List.length t = tail_size) tails ->
  read_tail k (content tails) =
  if (k <? N.of_nat (List.length tails))%N then Some (nth (N.to_nat k) tails []) else None.
Proof.
  intros H. unfold read_tail, content. rewrite app_length, (concat_length_chunks tail_size tails H).
  destruct (N.ltb_spec k (N.of_nat (List.length tails))) as [Hk|Hk].
  - assert (Hk' : N.to_nat k < List.length tails) by lia.
    destruct (N.leb_spec (N.of_nat tail_size * k + N.of_nat (List.length version_tag) + N.of_nat tail_size)
                         (N.of_nat (List.length version_tag + tail_size * List.length tails))) as [_|Hc];
      [|exfalso; unfold tail_size in *; cbn [List.length version_tag] in *; nia].
    f_equal.
    replace (N.to_nat (N.of_nat tail_size * k + N.of_nat (List.length version_tag)))
      with (List.length version_tag + tail_size * N.to_nat k) by lia.
    rewrite skipn_app. rewrite skipn_all2 by lia.
    replace (List.length version_tag + tail_size * N.to_nat k - List.length version_tag) with (tail_size * N.to_nat k) by lia.
    cbn [app]. rewrite (skipn_concat_chunks tail_size tails (N.to_nat k) H).
    destruct (skipn (N.to_nat k) tails) as [|t r] eqn:E.
    + exfalso. assert (Hl : List.length (skipn (N.to_nat k) tails) = List.length tails - N.to_nat k) by apply skipn_length. rewrite E in Hl. cbn in Hl. lia.
    + assert (Ht : nth (N.to_nat k) tails [] = t).
      { rewrite <- (firstn_skipn (N.to_nat k) tails) at 1. rewrite E. rewrite app_nth2; rewrite firstn_length_le by lia; [|lia]. rewrite Nat.sub_diag. reflexivity. }
      rewrite Ht. cbn [concat].
      assert (Hl : List.length t = tail_size).
      { rewrite Forall_forall in H. apply H. rewrite <- Ht. apply nth_In. exact Hk'. }
      rewrite firstn_app. rewrite Hl, Nat.sub_diag. cbn [firstn]. rewrite app_nil_r. rewrite <- Hl. apply firstn_all.
  - destruct (N.leb_spec (N.of_nat tail_size * k + N.of_nat (List.length version_tag) + N.of_nat tail_size)
                         (N.of_nat (List.length version_tag + tail_size * List.length tails))) as [Hc|_];
      [exfalso; unfold tail_size in *; cbn [List.length version_tag] in *; nia|reflexivity].
Qed.

Section WriterProofs.
  Context (cap : nat) (disarm : bool).
  Notation ok_step := (ok_step cap).
  Notation err_step := (err_step disarm).
  Notation run := (run cap disarm).

  Definition full (ver : list N) (tails : list (list N)) : list N := ver ++ concat tails.

  (* invariant while writing: everything written so far = disk ++ buffer = hasher input *)
  Definition Inv (w : list N) (s : st) : Prop :=
    exists d, tmp s = Some d /\ d ++ buf s = w /\ hashed s = w /\ final s = None /\ guard s = true.

  Lemma write_inv w s c : Inv w s -> Inv (w ++ c) (ok_step s (Write c)).
  Proof.
    intros (d & Ht & Hd & Hh & Hf & Hg). unfold Tails.ok_step.
    destruct (Nat.leb (List.length (buf s) + List.length c) cap); [|destruct (Nat.ltb (List.length c) cap)]; rewrite Ht; cbn [option_map tmp buf hashed final guard].
    - exists d. cbn [tmp buf hashed final guard]. split; [reflexivity|]. split; [rewrite app_assoc, Hd; reflexivity|]. split; [rewrite Hh; reflexivity|]. split; assumption.
    - exists (d ++ buf s). cbn [tmp buf hashed final guard]. split; [reflexivity|]. split; [rewrite Hd; reflexivity|]. split; [rewrite Hh; reflexivity|]. split; assumption.
    - exists (d ++ buf s ++ c). cbn [tmp buf hashed final guard]. split; [reflexivity|]. split; [rewrite app_nil_r, app_assoc, Hd; reflexivity|]. split; [rewrite Hh; reflexivity|]. split; assumption.
  Qed.

  Lemma writes_then_publish cs : forall w s k f F,
    Inv w s -> F = w ++ concat cs ->
    let s' := run s (map Write cs ++ [Flush; Rename]) k f in
    (final s' = None \/ final s' = Some (F, F)) /\
    (f = NoFault -> final s' = Some (F, F) /\ tmp s' = None) /\
    (forall j, f = ErrorAt j -> tmp s' <> None -> disarm = true /\ j = k + List.length cs + 1) /\
    (forall d, tmp s' = Some d -> exists rest, F = d ++ rest).
  Proof.
    induction cs as [|c cs IH]; intros w s k f F HI HF.
    - cbn [concat] in HF. rewrite app_nil_r in HF. subst F. cbn [map app List.length]. destruct HI as (d & Ht & Hd & Hh & Hf & Hg).
      cbn [Tails.run]. destruct f as [|j|j].
      + cbn [Tails.run Tails.ok_step tmp buf hashed final guard]. rewrite Ht. cbn [option_map]. rewrite Hd, Hh.
        split; [right; reflexivity|]. split; [intros _; split; reflexivity|]. split; [intros j Hj; discriminate|intros d' Hd'; discriminate].
      + destruct (Nat.eqb j k) eqn:E1.
        { cbn [Tails.err_step tmp final guard]. rewrite Hg, Hf. split; [left; reflexivity|]. split; [discriminate|].
          split; [intros j' _ Hn; exfalso; apply Hn; reflexivity|intros d' Hd'; discriminate]. }
        cbn [Tails.run]. destruct (Nat.eqb j (S k)) eqn:E2.
        { unfold Tails.err_step. cbn [Tails.ok_step tmp buf hashed final guard]. rewrite Hf. split; [left; reflexivity|]. split; [discriminate|].
          split.
          - intros j' Hj' Hn. inversion Hj'; subst j'. apply Nat.eqb_eq in E2. destruct disarm; cbn [negb] in *; [split; [reflexivity|lia]|exfalso; apply Hn; reflexivity].
          - destruct disarm; cbn [negb]; [|intros d' Hd'; discriminate]. rewrite Ht. cbn [option_map]. intros d' Hd'. inversion Hd'; subst d'. exists []. rewrite app_nil_r. symmetry. exact Hd. }
        cbn [Tails.run Tails.ok_step tmp buf hashed final guard]. rewrite Ht. cbn [option_map]. rewrite Hd, Hh.
        split; [right; reflexivity|]. split; [discriminate|]. split; [intros j' _ Hn; exfalso; apply Hn; reflexivity|intros d' Hd'; discriminate].
      + destruct (Nat.eqb j k) eqn:E1.
        { cbn [final tmp]. rewrite Hf. split; [left; reflexivity|]. split; [discriminate|]. split; [discriminate|].
          rewrite Ht. intros d' Hd'. inversion Hd'; subst d'. exists (buf s). symmetry. exact Hd. }
        cbn [Tails.run]. destruct (Nat.eqb j (S k)) eqn:E2.
        { cbn [Tails.ok_step final tmp]. rewrite Hf. split; [left; reflexivity|]. split; [discriminate|]. split; [discriminate|].
          rewrite Ht. cbn [option_map]. intros d' Hd'. inversion Hd'; subst d'. exists []. rewrite app_nil_r. symmetry. exact Hd. }
        cbn [Tails.run Tails.ok_step tmp buf hashed final guard]. rewrite Ht. cbn [option_map]. rewrite Hd, Hh.
        split; [right; reflexivity|]. split; [discriminate|]. split; [discriminate|intros d' Hd'; discriminate].
    - cbn [concat] in HF. rewrite app_assoc in HF. cbn [map app List.length].
      pose proof (write_inv w s c HI) as HI'.
      assert (Hstep : forall f', (match f' with ErrorAt j | AbortAt j => Nat.eqb j k = false | NoFault => True end) ->
                run s (Write c :: map Write cs ++ [Flush; Rename]) k f' = run (ok_step s (Write c)) (map Write cs ++ [Flush; Rename]) (S k) f').
      { intros f' Hf'. cbn [Tails.run]. destruct f'; [reflexivity|rewrite Hf'; reflexivity|rewrite Hf'; reflexivity]. }
      destruct f as [|j|j].
      + rewrite (Hstep NoFault I). destruct (IH (w ++ c) _ (S k) NoFault F HI' HF) as (A & B & C & D).
        split; [exact A|]. split; [exact B|]. split; [intros j Hj; discriminate|exact D].
      + destruct (Nat.eqb j k) eqn:E1.
        { cbn [Tails.run]. rewrite E1. destruct HI as (d & Ht & Hd & Hh & Hf & Hg). cbn [Tails.err_step tmp final guard]. rewrite Hg, Hf.
          split; [left; reflexivity|]. split; [discriminate|]. split; [intros j' _ Hn; exfalso; apply Hn; reflexivity|intros d' Hd'; discriminate]. }
        rewrite (Hstep (ErrorAt j) E1). destruct (IH (w ++ c) _ (S k) (ErrorAt j) F HI' HF) as (A & B & C & D).
        split; [exact A|]. split; [exact B|]. split; [|exact D]. intros j' Hj' Hn. destruct (C j' Hj' Hn) as [C1 C2]. split; [exact C1|]. lia.
      + destruct (Nat.eqb j k) eqn:E1.
        { cbn [Tails.run]. rewrite E1. destruct HI as (d & Ht & Hd & Hh & Hf & Hg). cbn [final tmp]. rewrite Hf.
          split; [left; reflexivity|]. split; [discriminate|]. split; [discriminate|].
          rewrite Ht. intros d' Hd'. inversion Hd'; subst d'. exists (buf s ++ c ++ concat cs). rewrite HF, <- Hd, <- !app_assoc. reflexivity. }
        rewrite (Hstep (AbortAt j) E1). destruct (IH (w ++ c) _ (S k) (AbortAt j) F HI' HF) as (A & B & C & D).
        split; [exact A|]. split; [exact B|]. split; [intros j' Hj'; discriminate|exact D].
  Qed.

  (* the whole program, for every buffer capacity, every list of tails and every fault:
     (1) the final name is absent or holds the full content, named by the full content;
     (2) without a fault it is published and no temp file remains;
     (3) a temp file survives an ERROR only if the guard is defused before the rename and the
         failing step is the rename itself;
     (4) whatever is in a surviving temp file is a prefix of the full content *)
  Theorem atomic_publish ver tails f :
    let s' := run init (program ver tails) 0 f in
    (final s' = None \/ final s' = Some (full ver tails, full ver tails)) /\
    (f = NoFault -> final s' = Some (full ver tails, full ver tails) /\ tmp s' = None) /\
    (forall j, f = ErrorAt j -> tmp s' <> None -> disarm = true /\ j = List.length tails + 3) /\
    (forall d, tmp s' = Some d -> exists rest, full ver tails = d ++ rest).
  Proof.
    unfold program, full. cbn [Tails.run].
    assert (I0 : Inv [] (ok_step init Create)) by (exists []; cbn; repeat split; reflexivity).
    assert (I1 : Inv ver (ok_step (ok_step init Create) (Write ver))) by (apply (write_inv [] _ ver I0)).
    destruct f as [|j|j].
    - destruct (writes_then_publish tails ver _ 2 NoFault _ I1 eq_refl) as (A & B & C & D).
      split; [exact A|]. split; [exact B|]. split; [intros j Hj; discriminate|exact D].
    - destruct (Nat.eqb j 0) eqn:E0.
      { cbn. split; [left; reflexivity|]. split; [discriminate|]. split; [intros j' _ Hn; exfalso; apply Hn; reflexivity|intros d Hd; discriminate]. }
      cbn [Tails.run]. destruct (Nat.eqb j 1) eqn:E1.
      { cbn. split; [left; reflexivity|]. split; [discriminate|]. split; [intros j' _ Hn; exfalso; apply Hn; reflexivity|intros d Hd; discriminate]. }
      destruct (writes_then_publish tails ver _ 2 (ErrorAt j) _ I1 eq_refl) as (A & B & C & D).
      split; [exact A|]. split; [exact B|]. split; [|exact D]. intros j' Hj' Hn. destruct (C j' Hj' Hn) as [C1 C2]. split; [exact C1|lia].
    - destruct (Nat.eqb j 0) eqn:E0.
      { cbn. split; [left; reflexivity|]. split; [discriminate|]. split; [discriminate|intros d Hd; discriminate]. }
      cbn [Tails.run]. destruct (Nat.eqb j 1) eqn:E1.
      { cbn. split; [left; reflexivity|]. split; [discriminate|]. split; [discriminate|].
        intros d Hd. inversion Hd; subst d. exists (ver ++ concat tails). reflexivity. }
      destruct (writes_then_publish tails ver _ 2 (AbortAt j) _ I1 eq_refl) as (A & B & C & D).
      split; [exact A|]. split; [exact B|]. split; [intros j' Hj'; discriminate|exact D].
  Qed.
End WriterProofs.

(* ---- instantiation at the code's parameters ---- *)
Lemma disarm_pin : disarm_before_rename = false.
Proof. reflexivity. Qed.

(* before the fix commit (guard defused before the rename) the statement "an error leaves no
   temporary file" was refuted, exactly at the rename step: *)
Lemma unfixed_leaks_on_rename_error :
  exists tails j, tmp (run buf_capacity true init (program version_tag tails) 0 (ErrorAt j)) <> None.
Proof. exists [[1%N]], 4. vm_compute. discriminate. Qed.

Theorem write_tails_spec tails f :
  let s' := write_tails tails f in
  (final s' = None \/ final s' = Some (content tails, content tails)) /\
  (f = NoFault -> final s' = Some (content tails, content tails) /\ tmp s' = None) /\
  (forall j, f = ErrorAt j -> tmp s' = None) /\
  (forall d, tmp s' = Some d -> exists rest, content tails = d ++ rest).
Proof.
  unfold write_tails. destruct (atomic_publish buf_capacity disarm_before_rename version_tag tails f) as (A & B & C & D).
  split; [exact A|]. split; [exact B|]. split; [|exact D].
  intros j Hj. destruct (tmp _) eqn:E; [|reflexivity]. exfalso.
  assert (Hne : Some l <> None) by discriminate.
  destruct (C j Hj Hne) as [Hd _]. rewrite disarm_pin in Hd. discriminate.
Qed.

(* non-vacuity: a run that publishes, one that fails at the rename, one that aborts mid-way *)
Example write_examples :
  let t := [repeat 7%N 128; repeat 9%N 128] in
  final (write_tails t NoFault) = Some (content t, content t) /\
  final (write_tails t (ErrorAt 5)) = None /\ tmp (write_tails t (ErrorAt 5)) = None /\
  final (write_tails t (AbortAt 3)) = None /\ tmp (write_tails t (AbortAt 3)) = Some [] /\
  read_tail 1 (content t) = Some (repeat 9%N 128) /\ read_tail 2 (content t) = None.
Proof. vm_compute. repeat split; reflexivity. Qed.
