From Coq Require Import List String Ascii ZArith NArith Bool Lia.
From AV Require Import Model.Str Model.Encode Model.Query Model.VTypes Model.Interval Model.Eval Model.CL Model.VerifierLegacy Model.VerifierW3C
  Model.VCfg Model.Prover Model.PProps Proofs.VMonad Proofs.C07Proofs Proofs.C04Proofs.
From AV Require Import Proofs.C04F1 Proofs.C04F2 Proofs.C04F3 Proofs.C04F4 Proofs.C04F5 Proofs.C04F6.
Import ListNotations.
Local Open Scope string_scope.
Local Open Scope list_scope.
Local Open Scope Z_scope.

Lemma NoDup_length_dedup l : NoDup l -> dedup_s l = l.
Proof.
  induction l as [|x r IH]; intros H; [reflexivity|]. inversion H; subst. cbn [dedup_s].
  destruct (mem x r) eqn:M; [apply mem_In in M; contradiction|]. rewrite IH by assumption. reflexivity.
Qed.
Lemma mapR_find_keys (f : string -> option (string * string)) ns vals :
  mapR (fun n => v0 <- of_opt (f n) ;; ROk (n, v0)) ns = ROk vals -> map fst vals = ns /\ forall n v, In (n, v) vals -> f n = Some v.
Proof.
  revert vals. induction ns as [|x r IH]; intros vals H; cbn [mapR] in H.
  - injection H as <-. split; [reflexivity|intros n v []].
  - apply bind_ok in H as ([x' v] & Hx & H). apply bind_ok in H as (rest & Hr & H). injection H as <-.
    apply bind_ok in Hx as (v' & Hv & Hx). apply of_opt_ok in Hv. injection Hx as <- <-. destruct (IH _ Hr) as [I1 I2].
    split; [cbn; rewrite I1; reflexivity|]. intros n v0 [Heq|Hin]; [injection Heq as <- <-; exact Hv|exact (I2 _ _ Hin)].
Qed.

Section Plain4.
  Context (R : request) (cx : ctx) (link : N) (ps : list present) (self : list (string * string)) (P : presentation).
  Notation E := (nonempty ps).
  Context (Hcreate : create_legacy pcfg_fixed R cx link ps self = ROk P).
  Context (Hcov : coverage (mk_case R cx link ps self) = true).
  Context (Hgroups : forall r ai ns, In (r, ai) (rq_attrs R) -> ai_names ai = Some ns -> NoDup ns).
  Context (Hcanon : forall p n raw e, In p E -> In (n, (raw, e)) (hc_values (pr_cred p)) -> normalize_encoded e = e).
  Context (Hnorm : forall p k sp n e, at_idx E 0 k p -> nthZ (p_proofs P) k = Some sp -> In (n, e) (sp_revealed sp) -> cv n = n).

  Let BF := build_facts R cx link ps self P Hcreate.

  (* the verifier's comparison of one shown value with the sub-proof *)
  Lemma verify_value_ok k p q ai n raw e sp : at_idx E 0 k p -> In (q, true) (pr_attrs p) -> assoc q (rq_attrs R) = Some ai ->
    In n (names_of ai) -> find_value (pr_cred p) n = Some (raw, e) -> nthZ (p_proofs P) k = Some sp ->
    verify_value n sp e = ROk tt.
  Proof.
    intros Hat Hq Ha Hn Hf Hsp.
    destruct (revealed_found R cx link ps self P Hcreate k p q ai n Hat Hq Ha Hn) as (sp' & raw' & e' & Hsp' & Hf' & Hin & Hfed).
    rewrite Hsp in Hsp'. injection Hsp' as <-. rewrite Hf in Hf'. injection Hf' as <- <-.
    unfold verify_value.
    destruct (find (fun kv => String.eqb (cv n) (cv (fst kv))) (sp_revealed sp)) as [[n' v]|] eqn:Ef.
    - apply find_some in Ef as [Hin' He]. cbn [fst] in He. apply String.eqb_eq in He.
      rewrite (Hnorm p k sp n' v Hat Hsp Hin') in He. subst n'.
      (* both entries are the fed value of cv n *)
      destruct (sub_at R cx link ps self P Hcreate k p Hat) as (sp2 & Hsp2 & Hpr). rewrite Hsp in Hsp2. injection Hsp2 as <-.
      destruct (sub_inv R cx link k p sp Hpr) as (sc & cd & ais & uis & pis & _ & _ & _ & _ & _ & nrpo & Hnone & Hpv).
      destruct (pv_rev_out _ _ _ _ _ _ _ _ _ Hpv _ _ Hin') as [_ Hv]. rewrite Hfed in Hv. injection Hv as <-.
      apply guard_true. apply String.eqb_eq.
      destruct (find_value_in _ _ _ _ Hf) as (m & Hm & _). exact (Hcanon p m raw e (at_idx_in _ _ _ Hat) Hm).
    - exfalso. apply (find_none _ _ Ef) in Hin. cbn [fst] in Hin. rewrite cv_idem, String.eqb_refl in Hin. discriminate.
  Qed.

  (* ---- stage 3: every shown value is the one the sub-proof reveals ---- *)
  Lemma stage_values : check_revealed_values cfg_fixed R P = ROk tt.
  Proof.
    destruct BF as [_ Br Bg _ _ _ _ _ _]. unfold check_revealed_values.
    rewrite iter_total; [cbn [bind]|].
    - apply iter_total. intros [r [i vals]] Hin. apply Bg in Hin as (k & p & Hat & (Hq & ai & ns & vals' & Ha & Hn & Hns & Hm & Hv)).
      injection Hv as -> ->.
      destruct (sub_at R cx link ps self P Hcreate k p Hat) as (sp & Hsp & _). rewrite Hsp, Ha. cbn [of_opt bind]. rewrite Hns. cbn [of_opt bind].
      destruct (mapR_find_keys _ _ _ Hm) as [Hk Hfv].
      pose proof (Hgroups r ai ns (assoc_In _ _ _ Ha) Hns) as Hnd.
      cbn [f_group_keys cfg_fixed]. rewrite (NoDup_length_dedup _ Hnd).
      assert (Hlen : Nat.eqb (List.length vals') (List.length ns) = true) by (rewrite <- Hk, map_length; apply Nat.eqb_refl).
      rewrite Hlen. cbn [andb].
      assert (Hmem : forallb (fun kv : string * (string * string) => mem (fst kv) ns) vals' = true).
      { apply forallb_forall. intros [n v] Hinv. apply mem_In. rewrite <- Hk. apply in_map_iff. exists (n, v). auto. }
      rewrite Hmem. cbn [guard bind].
      apply iter_total. intros n Hn'.
      assert (Hex : exists v, In (n, v) vals') by (rewrite <- Hk in Hn'; apply in_map_iff in Hn' as ([n2 v] & <- & Hx); exists v; exact Hx).
      destruct Hex as [[raw e] Hinv].
      assert (Has : assoc n vals' = Some (raw, e)).
      { apply assoc_functional; [exact Hinv|]. intros v' Hv'. pose proof (Hfv _ _ Hv') as A. pose proof (Hfv _ _ Hinv) as B. congruence. }
      rewrite Has. cbn [of_opt bind snd].
      apply (verify_value_ok k p r ai n raw e sp Hat Hq Ha); [unfold names_of; rewrite Hn, Hns; exact Hn'|exact (Hfv _ _ Hinv)|exact Hsp].
    - intros [r [[i raw] enc]] Hin. apply Br in Hin as (k & p & Hat & (Hq & ai & n & raw' & enc' & Ha & Hn & Hf & Hv)). injection Hv as -> -> ->.
      rewrite Ha. cbn [of_opt bind]. rewrite Hn. cbn [of_opt bind].
      destruct (sub_at R cx link ps self P Hcreate k p Hat) as (sp & Hsp & _). rewrite Hsp. cbn [of_opt bind].
      apply (verify_value_ok k p r ai n raw' enc' sp Hat Hq Ha); [unfold names_of; rewrite Hn; left; reflexivity|exact Hf|exact Hsp].
  Qed.
End Plain4.
