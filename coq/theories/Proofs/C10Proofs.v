(* C10: revocation states track the status list. *)
From Coq Require Import List ZArith Bool Lia.
From AV Require Import Model.RevList Model.Witness Proofs.RevListProofs.
Import ListNotations.
Open Scope Z_scope.

(* ---- a valid witness is unique: all valid derivations yield the same witness ---- *)
Theorem c10_valid_unique n i A w1 w2 : wvalid n i A w1 -> wvalid n i A w2 -> forall x, w1 x = w2 x.
Proof. intros H1 H2 x. specialize (H1 x). specialize (H2 x). lia. Qed.

(* ---- the issuer-supplied witness is valid for the accumulator the credential embeds, hence for
        every list whose accumulator is still that one ---- *)
Theorem c10_issuer_valid n i a : wvalid n i a (issuer_wit n i a).
Proof. intros x. unfold issuer_wit, gsub, shift. lia. Qed.
Theorem c10_issuer_valid_unchanged n i a A : (forall x, A x = a x) -> wvalid n i A (issuer_wit n i a).
Proof. intros H x. rewrite H. apply c10_issuer_valid. Qed.

(* ---- sums over shifted exponents ---- *)
Lemma gsum_shifted n i l x : NoDup l -> gsum (fun j => n + 1 - j + i) l x = gsum (fun j => n + 1 - j) l (x - i).
Proof.
  intros ND. rewrite (gsum_nodup (fun j => n + 1 - j + i) (fun y => n + 1 + i - y) l x) by (auto; intros j; lia).
  rewrite gsum_idx by exact ND. replace (n + 1 - (x - i)) with (n + 1 + i - x) by lia. reflexivity.
Qed.
Lemma NoDup_filter_range p lo m : NoDup (filter p (rangeZ lo m)).
Proof. apply NoDup_filter, rangeZ_NoDup. Qed.

(* the difference of the accumulators of two lists of one registry is the sum over the delta *)
Lemma acc_delta old new n : lenZ old = n -> lenZ new = n -> forall x,
  acc_of_bits new x - acc_of_bits old x
  = gsum (fun j => n + 1 - j) (delta_issued old new) x - gsum (fun j => n + 1 - j) (delta_revoked old new) x.
Proof.
  intros Ho Hn x. unfold delta_issued, delta_revoked.
  rewrite !gsum_idx by apply NoDup_filter_range. rewrite !memZ_filter.
  unfold acc_of_bits. rewrite Ho, Hn. set (j := n + 1 - x).
  destruct (nthZ new j) as [w|] eqn:En.
  - assert (Hr : 0 <= j < lenZ new) by (apply nthZ_range; eauto).
    assert (Ho' : exists o, nthZ old j = Some o) by (apply nthZ_range; lia). destruct Ho' as [o Eo]. rewrite Eo.
    assert (Hm : memZ j (rangeZ 0 (length new)) = true).
    { apply memZ_In, rangeZ_In. unfold lenZ in Hr. lia. }
    rewrite Hm. cbn [andb]. destruct o, w; cbn; lia.
  - assert (Eo : nthZ old j = None).
    { apply nthZ_none. intros Hr. assert (Hex : exists v, nthZ new j = Some v) by (apply nthZ_range; lia). destruct Hex as [v Hv]. congruence. }
    rewrite Eo, !andb_false_r. reflexivity.
Qed.

Lemma memZ_filter_ne i l j : memZ j (filter (fun k => negb (k =? i)) l) = memZ j l && negb (j =? i).
Proof. apply memZ_filter. Qed.

(* ---- incremental derivation: a valid state for an older list is carried to a valid state for
        any later list of the registry in which the holder's own entry is unchanged ---- *)
Theorem c10_incremental_valid n bd i old new w :
  lenZ old = n -> lenZ new = n -> nthZ old i = nthZ new i ->
  wvalid n i (list_acc n bd old) w -> wvalid n i (list_acc n bd new) (inc_wit n i old new w).
Proof.
  intros Ho Hn Hi Hv x. specialize (Hv x). unfold inc_wit, list_acc, gadd, gsub in *.
  rewrite !gsum_shifted by (apply NoDup_filter, NoDup_filter_range).
  rewrite !gsum_idx by (apply NoDup_filter, NoDup_filter_range). rewrite !memZ_filter_ne.
  pose proof (acc_delta old new n Ho Hn (x - i)) as Hd.
  rewrite !gsum_idx in Hd by apply NoDup_filter_range.
  set (j := n + 1 - (x - i)) in *.
  (* the holder's own index is in neither delta *)
  assert (Hi1 : j = i -> memZ j (delta_issued old new) = false /\ memZ j (delta_revoked old new) = false).
  { intros ->. unfold delta_issued, delta_revoked. rewrite !memZ_filter, Hi.
    destruct (nthZ new i) as [b|]; [destruct b; cbn; rewrite !andb_false_r; auto|rewrite !andb_false_r; auto]. }
  destruct (Z.eqb_spec j i) as [E|E]; cbn [negb].
  - destruct (Hi1 E) as [H1 H2]. rewrite H1, H2 in *. cbn [andb]. lia.
  - rewrite !andb_true_r. lia.
Qed.

(* ---- from scratch: valid for by-default registries as long as list index 0 is untouched ---- *)
Lemma scratch_wit_at n i b x : scratch_wit n i b x = if memZ (n + 1 + i - x) (scratch_set n i b) then 1 else 0.
Proof.
  unfold scratch_wit. apply gsum_nodup; [intros j; lia|]. unfold scratch_set. apply NoDup_filter_range.
Qed.
Theorem c10_scratch_valid n i b : 0 <= n -> lenZ b = n -> 1 <= i < n ->
  nthZ b 0 = Some false -> nthZ b i = Some false ->
  wvalid n i (list_acc n true b) (scratch_wit n i b).
Proof.
  intros Hn Hl Hi H0 Hbi x. rewrite scratch_wit_at. unfold scratch_set. rewrite memZ_filter.
  unfold list_acc, gadd, mode_offset, gsub, acc_of_bits, e, revoked_at. rewrite Hl.
  set (j := n + 1 + i - x). replace (n + 1 - (x - i)) with j by lia.
  assert (Hm : memZ j (rangeZ 1 (Z.to_nat n)) = (1 <=? j) && (j <=? n)).
  { destruct (memZ j (rangeZ 1 (Z.to_nat n))) eqn:M.
    - apply memZ_In, rangeZ_In in M. rewrite Z2Nat.id in M by lia. symmetry. apply andb_true_intro. split; [apply Z.leb_le|apply Z.leb_le]; lia.
    - symmetry. apply andb_false_iff. destruct (Z.leb_spec 1 j); [|left; reflexivity]. destruct (Z.leb_spec j n); [|right; reflexivity].
      exfalso. assert (Hin : In j (rangeZ 1 (Z.to_nat n))) by (apply rangeZ_In; rewrite Z2Nat.id by lia; lia). apply memZ_In in Hin. congruence. }
  rewrite Hm.
  destruct (Z.eqb_spec j i) as [Ej|Ej].
  - (* the holder's own index: excluded on the left, its term cancels on the right *)
    rewrite Ej, Hbi. cbn [negb andb]. rewrite andb_false_r.
    destruct (Z.eqb_spec (x - i) 1), (Z.eqb_spec (x - i) (n + 1)), (Z.eqb_spec x (n + 1)); lia.
  - cbn [negb]. rewrite andb_true_l.
    destruct (nthZ b j) as [bj|] eqn:Eb.
    + assert (Hr : 0 <= j < lenZ b) by (apply nthZ_range; eauto).
      destruct (Z.eqb_spec j 0) as [Z0|Z0].
      * rewrite Z0 in Eb. rewrite H0 in Eb. inversion Eb; subst bj.
        destruct (Z.leb_spec 1 j); [lia|]. cbn [andb].
        destruct (Z.eqb_spec (x - i) 1), (Z.eqb_spec (x - i) (n + 1)), (Z.eqb_spec x (n + 1)); lia.
      * destruct (Z.leb_spec 1 j); [|lia]. destruct (Z.leb_spec j n); [|lia]. cbn [andb].
        destruct bj; cbn [negb]; destruct (Z.eqb_spec (x - i) 1), (Z.eqb_spec (x - i) (n + 1)), (Z.eqb_spec x (n + 1)); lia.
    + (* outside the list: only the crate's index n is counted, on both sides *)
      assert (Hr : ~ (0 <= j < lenZ b)) by (apply nthZ_none; exact Eb). cbn [negb]. rewrite andb_true_r.
      destruct (Z.leb_spec 1 j), (Z.leb_spec j n); cbn [andb];
        destruct (Z.eqb_spec (x - i) 1), (Z.eqb_spec (x - i) (n + 1)), (Z.eqb_spec x (n + 1)); lia.
Qed.

(* ---- a revoked index has no witness computable from the published tails ---- *)
Theorem c10_revoked_no_witness n bd i b w : lenZ b = n -> 1 <= i < n -> nthZ b i = Some true ->
  wvalid n i (list_acc n bd b) w -> computable n w -> False.
Proof.
  intros Hl Hi Hb Hv Hc. specialize (Hv (n + 1)). unfold computable in Hc. rewrite Hc in Hv.
  unfold list_acc, gadd, acc_of_bits, mode_offset, gsub, gzero, e in Hv. rewrite Hl in Hv.
  replace (n + 1 - (n + 1 - i)) with i in Hv by lia. rewrite Hb, Z.eqb_refl in Hv.
  destruct bd; destruct (Z.eqb_spec (n + 1 - i) 1), (Z.eqb_spec (n + 1 - i) (n + 1)); lia.
Qed.
(* and all three derivations are computable *)
Lemma c10_scratch_computable n i b : computable n (scratch_wit n i b).
Proof.
  unfold computable. rewrite scratch_wit_at. unfold scratch_set. rewrite memZ_filter.
  replace (n + 1 + i - (n + 1)) with i by lia. rewrite Z.eqb_refl. cbn [negb andb]. rewrite andb_false_r. reflexivity.
Qed.
Lemma c10_incremental_computable n i old new w : computable n w -> computable n (inc_wit n i old new w).
Proof.
  unfold computable, inc_wit, gsub, gadd. intros ->.
  rewrite !(gsum_nodup (fun j => n + 1 - j + i) (fun y => n + 1 + i - y)) by (try (intros j; lia); apply NoDup_filter, NoDup_filter_range).
  rewrite !memZ_filter_ne. replace (n + 1 + i - (n + 1)) with i by lia. rewrite Z.eqb_refl. cbn [negb]. rewrite !andb_false_r. reflexivity.
Qed.

(* ---- the two classes in which the from-scratch derivation fails (known findings) ---- *)
Example c10_scratch_refuted_on_demand :
  (* registry of size 3, on demand, indices 1 and 2 issued: the list is 1 0 0; scratch state for index 1 *)
  wvalid_b 3 1 (list_acc 3 false [true; false; false]) (scratch_wit 3 1 [true; false; false]) = false
  /\ wvalid_b 3 1 (list_acc 3 false [true; false; false]) (issuer_wit 3 1 (list_acc 3 false [true; false; false])) = true.
Proof. split; vm_compute; reflexivity. Qed.
Example c10_scratch_refuted_index0 :
  (* by default, index 0 revoked *)
  wvalid_b 3 1 (list_acc 3 true [true; false; false]) (scratch_wit 3 1 [true; false; false]) = false
  /\ wvalid_b 3 1 (list_acc 3 true [false; false; false]) (scratch_wit 3 1 [false; false; false]) = true
  /\ wvalid_b 3 1 (list_acc 3 true [true; false; false])
       (inc_wit 3 1 [false; false; false] [true; false; false] (scratch_wit 3 1 [false; false; false])) = true.
Proof. repeat split; vm_compute; reflexivity. Qed.
