From Coq Require Import List String ZArith NArith Bool Lia.
From AV Require Import Model.Str Model.Encode Model.Query Model.VTypes Model.Interval Model.Eval Model.CL
  Model.VerifierLegacy Model.VCfg Model.VProps Proofs.VMonad Proofs.VLegacyProofs Proofs.VLegacyStruct Proofs.VCLFacts Proofs.VLegacyMaster
  Proofs.C03Proofs Proofs.C06Proofs.
Import ListNotations.
Open Scope string_scope.
Open Scope list_scope.
Open Scope Z_scope.

(* keys of credential definitions and their public keys are distinct: the context is a map from ids to
   definitions, and two issuers do not share a key *)
Fixpoint nodup_N (l : list N) : bool := match l with [] => true | x :: r => negb (existsb (N.eqb x) r) && nodup_N r end.
Definition creddefs_distinct (cx : ctx) : bool :=
  nodup_keys (cx_creddefs cx) && nodup_N (map (fun kv => cd_key (snd kv)) (cx_creddefs cx)).

Lemma assoc_app {V} k (a b : list (string * V)) : assoc k (a ++ b) = match assoc k a with Some v => Some v | None => assoc k b end.
Proof. induction a as [|[x v] a IH]; [reflexivity|]. cbn [app assoc]. destruct (String.eqb x k); [reflexivity|exact IH]. Qed.

Lemma mapR_assoc_gen {V W} (f : string * V -> res (string * W)) (h : V -> option W) l l' :
  (forall k v y, f (k, v) = ROk y -> fst y = k /\ h v = Some (snd y)) -> mapR f l = ROk l' ->
  forall r, assoc r l' = match assoc r l with Some v => h v | None => None end.
Proof.
  intros Hf H r. apply mapR_ok in H. induction H as [|[k v] [k' w] l1 l2 Hab H IH]; [reflexivity|].
  destruct (Hf _ _ _ Hab) as [Hk Hh]. cbn [fst snd] in Hk, Hh. subst k'. cbn [assoc].
  destruct (String.eqb k r); [symmetry; exact Hh|exact IH].
Qed.

Lemma find_key_unique (l : list (string * creddef)) cid cd :
  nodup_N (map (fun kv => cd_key (snd kv)) l) = true -> In (cid, cd) l ->
  find (fun kv => N.eqb (cd_key (snd kv)) (cd_key cd)) l = Some (cid, cd).
Proof.
  induction l as [|[c0 d0] l IH]; intros Hnd Hin; [destruct Hin|]. cbn [map nodup_N snd] in Hnd. apply andb_prop in Hnd as [Hx Hnd].
  cbn [find snd]. destruct Hin as [E|Hin].
  - inversion E; subst. rewrite N.eqb_refl. reflexivity.
  - destruct (N.eqb_spec (cd_key d0) (cd_key cd)) as [E|_]; [|exact (IH Hnd Hin)].
    exfalso. apply negb_true_iff in Hx. apply (Bool.eq_true_false_abs _ (eq_refl true)). rewrite <- Hx. symmetry.
    apply existsb_exists. exists (cd_key cd). split; [apply in_map_iff; exists (cid, cd); auto|apply N.eqb_eq; exact E].
Qed.

Lemma concat_mapR {A B} (f : A -> res (list B)) (g : A -> list B) l l' :
  (forall x y, f x = ROk y -> y = g x) -> mapR f l = ROk l' -> List.concat l' = flat_map g l.
Proof.
  intros Hf H. apply mapR_ok in H. induction H as [|a b l1 l2 Hab H IH]; [reflexivity|].
  cbn [List.concat flat_map]. rewrite (Hf _ _ Hab), IH. reflexivity.
Qed.

Section Sound.
  Context (R : request) (P : presentation) (cx : ctx).
  Context (Hacc : verify_legacy cfg_fixed R P cx = Accept).
  Context (Hdist : creddefs_distinct cx = true).

  Let rp := p_rp P.
  Definition bound_of (r : string) : option Z :=
    match assoc r (rp_groups (p_rp P)) with Some (i, _) => Some i | None =>
    match assoc r (rp_revealed (p_rp P)) with Some (i, _, _) => Some i | None =>
    assoc r (rp_unrev (p_rp P)) end end.

  Lemma received_assoc a u p : received P = ROk (a, u, p) ->
    (forall r, assoc r (a ++ u) = match bound_of r with Some i => nthZ (p_ids P) i | None => None end) /\
    (forall r, assoc r p = match assoc r (rp_preds (p_rp P)) with Some i => nthZ (p_ids P) i | None => None end).
  Proof.
    unfold received, get_ident. intros H.
    apply bind_ok in H. destruct H as (rv & Hrv & H). apply bind_ok in H. destruct H as (rg & Hrg & H).
    apply bind_ok in H. destruct H as (un & Hun & H). apply bind_ok in H. destruct H as (pr & Hpr & H).
    inversion H; subst a u p. clear H.
    pose proof (fun Hf => mapR_assoc_gen _ (fun v : Z * string * string => nthZ (p_ids P) (fst (fst v))) _ _ Hf Hrv) as Arv.
    specialize (Arv ltac:(intros k [[i raw] enc] y Hy; apply bind_ok in Hy as (id & Hid & Hy); apply of_opt_ok in Hid; inversion Hy; subst; auto)).
    pose proof (fun Hf => mapR_assoc_gen _ (fun v : Z * list (string * (string * string)) => nthZ (p_ids P) (fst v)) _ _ Hf Hrg) as Arg.
    specialize (Arg ltac:(intros k [i g] y Hy; apply bind_ok in Hy as (id & Hid & Hy); apply of_opt_ok in Hid; inversion Hy; subst; auto)).
    pose proof (fun Hf => mapR_assoc_gen _ (fun v : Z => nthZ (p_ids P) v) _ _ Hf Hun) as Aun.
    specialize (Aun ltac:(intros k i y Hy; apply bind_ok in Hy as (id & Hid & Hy); apply of_opt_ok in Hid; inversion Hy; subst; auto)).
    pose proof (fun Hf => mapR_assoc_gen _ (fun v : Z => nthZ (p_ids P) v) _ _ Hf Hpr) as Apr.
    specialize (Apr ltac:(intros k i y Hy; apply bind_ok in Hy as (id & Hid & Hy); apply of_opt_ok in Hid; inversion Hy; subst; auto)).
    split; [|exact Apr].
    intros r. rewrite !assoc_app, Aun, Arg, Arv. unfold bound_of.
    destruct (assoc r (rp_groups (p_rp P))) as [[i g]|] eqn:E2.
    - cbn [fst]. destruct (nthZ (p_ids P) i) eqn:E; [reflexivity|].
      exfalso. apply mapR_ok in Hrg. apply assoc_In in E2.
      clear -Hrg E2 E. induction Hrg as [|x y l1 l2 Hxy HF IH]; [destruct E2|]. destruct E2 as [->|E2]; [|exact (IH E2)].
      cbn in Hxy. unfold get_ident in Hxy. rewrite E in Hxy. discriminate.
    - destruct (assoc r (rp_revealed (p_rp P))) as [[[i raw] enc]|] eqn:E3.
      + cbn [fst]. destruct (nthZ (p_ids P) i) eqn:E; [reflexivity|].
        exfalso. apply mapR_ok in Hrv. apply assoc_In in E3.
        clear -Hrv E3 E. induction Hrv as [|x y l1 l2 Hxy HF IH]; [destruct E3|]. destruct E3 as [->|E3]; [|exact (IH E3)].
        cbn in Hxy. unfold get_ident in Hxy. rewrite E in Hxy. discriminate.
      + destruct (assoc r (rp_unrev (p_rp P))) as [i|]; reflexivity.
  Qed.

  (* the filter the verifier evaluates on IS the filter of the credential that signed the bound sub-proof *)
  Lemma filter_is_signers i id f : nthZ (p_ids P) i = Some id -> gather_filter cfg_fixed cx id = ROk f ->
    exists sp, nthZ (p_proofs P) i = Some sp /\ filter_of cx sp = Some f.
  Proof.
    intros Hid Hf.
    destruct (accepted_pairs cfg_fixed R P cx Hacc) as (Hlen & _ & _ & _ & _ & Hpairs).
    assert (Hsp : exists sp, nthZ (p_proofs P) i = Some sp).
    { apply nthZ_some_iff. assert (0 <= i < lenZ (p_ids P)) by (apply nthZ_some_iff; eauto). lia. }
    destruct Hsp as [sp Hsp]. exists sp. split; [exact Hsp|].
    destruct (Hpairs _ _ _ Hid Hsp) as [sc cd reg rm x Hsc Hcd _ _ _ Hcl]. destruct Hcl as [_ Hkey _ _ _ _ _ _ _].
    destruct (gather_filter_bound cfg_fixed cx id f eq_refl Hf) as (sc' & cd' & Hsc' & Hcd' & Hbind & ->).
    rewrite Hsc in Hsc'. inversion Hsc'; subst sc'. rewrite Hcd in Hcd'. inversion Hcd'; subst cd'.
    unfold creddefs_distinct in Hdist. apply andb_prop in Hdist as [_ Hk].
    unfold filter_of. rewrite <- Hkey. rewrite (find_key_unique _ _ _ Hk (assoc_In _ _ _ Hcd)).
    rewrite Hbind, Hsc. reflexivity.
  Qed.
End Sound.
