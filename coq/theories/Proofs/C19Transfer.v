From Coq Require Import List String NArith Bool Arith ZArith.
From AV Require Import Model.Sexp Model.Sha256 Model.Tails Model.CaseC19 Generated.Consts.
Import ListNotations.
Local Open Scope list_scope.

(* pins: layout constants and the order of rename / guard defusing are those of the source *)
Lemma tails_pins :
  Z.of_nat (List.length version_tag) = gen_tails_blob_tag_sz /\
  map Z.of_N version_tag = gen_tails_version /\
  disarm_before_rename = gen_tails_disarm_before_rename.
Proof. repeat split; reflexivity. Qed.

Lemma bytes_eqb_eq a b : bytes_eqb a b = true -> a = b.
Proof.
  revert b. induction a as [|x a IH]; destruct b as [|y b]; simpl; try discriminate; auto.
  intros H. apply andb_prop in H. destruct H as [H1 H2]. apply N.eqb_eq in H1. f_equal; auto.
Qed.
Lemma is_prefix_spec p l : is_prefix p l = true -> exists r, l = p ++ r.
Proof.
  revert l. induction p as [|x p IH]; intros l H; [exists l; reflexivity|].
  destruct l as [|y l]; [discriminate|]. simpl in H. apply andb_prop in H. destruct H as [H1 H2].
  apply N.eqb_eq in H1. subst y. destruct (IH _ H2) as [r ->]. exists r. reflexivity.
Qed.

(* what a passing write case says about the directory the IMPLEMENTATION left behind *)
Lemma c19_transfer_write tails f r dir : ok_C19_write tails f r dir = true ->
  (forall n c, In (n, c) dir -> n <> "TMP"%string -> n = file_name (content tails) /\ c = content tails) /\
  (r = WErr -> forall n c, In (n, c) dir -> n <> "TMP"%string) /\
  (r = WDied -> forall c, In ("TMP"%string, c) dir -> exists rest, content tails = c ++ rest) /\
  (forall h p, r = WOk h p -> h = file_name (content tails) /\ p = h) /\
  r <> WPanic.
Proof.
  unfold ok_C19_write. intros H.
  apply andb_prop in H. destruct H as [H Hfire]. apply andb_prop in H. destruct H as [H Hr].
  apply andb_prop in H. destruct H as [H Ht1]. apply andb_prop in H. destruct H as [Hfin Hf1].
  rewrite forallb_forall in Hfin.
  assert (Hnt : forall n c, In (n, c) dir -> n <> "TMP"%string -> In (n, c) (filter (fun e => negb (is_tmp e)) dir)).
  { intros n c Hin Hn. apply filter_In. split; auto. unfold is_tmp. cbn [fst]. destruct (String.eqb_spec n "TMP"); [contradiction|reflexivity]. }
  split; [|split; [|split; [|split]]].
  - intros n c Hin Hn. specialize (Hfin _ (Hnt n c Hin Hn)). cbn [fst snd] in Hfin. apply andb_prop in Hfin.
    destruct Hfin as [E1 E2]. apply String.eqb_eq in E1. apply bytes_eqb_eq in E2. auto.
  - intros -> n c Hin Hn. subst n. apply Nat.eqb_eq in Hr.
    assert (Hin' : In ("TMP"%string, c) (filter is_tmp dir)) by (apply filter_In; split; auto).
    destruct (filter is_tmp dir); [destruct Hin'|discriminate].
  - intros -> c Hin. rewrite forallb_forall in Hr.
    assert (Hin' : In ("TMP"%string, c) (filter is_tmp dir)) by (apply filter_In; split; auto).
    specialize (Hr _ Hin'). cbn [snd] in Hr. apply is_prefix_spec in Hr. exact Hr.
  - intros h p ->. repeat (apply andb_prop in Hr; let X := fresh "E" in destruct Hr as [Hr X]).
    apply String.eqb_eq in Hr, E1. subst. auto.
  - intros ->. discriminate.
Qed.

Lemma c19_transfer_read tails reads : ok_C19_read tails reads = true ->
  forall k r, In (k, r) reads -> r = read_tail k (content tails).
Proof.
  unfold ok_C19_read. intros H k r Hin. rewrite forallb_forall in H. specialize (H _ Hin). cbn [fst snd] in H.
  destruct (read_tail k (content tails)) as [x|], r as [y|]; try discriminate; auto.
  apply andb_prop in H. destruct H as [H _]. apply bytes_eqb_eq in H. subst. reflexivity.
Qed.
