From Coq Require Import List String ZArith NArith Bool Lia.
From AV Require Import Model.Str Model.Encode Model.Query Model.VTypes Model.Interval Model.Eval Model.CL
  Model.VerifierLegacy Model.VCfg Model.VProps Proofs.VMonad Proofs.VLegacyProofs Proofs.VLegacyStruct Proofs.VCLFacts Proofs.VLegacyMaster
  Proofs.C03Proofs Proofs.C06Proofs.
From AV Require Import Proofs.C06S1.
Import ListNotations.
Open Scope string_scope.
Open Scope list_scope.
Open Scope Z_scope.

Theorem c06_legacy_sound R P cx : creddefs_distinct cx = true ->
  verify_legacy cfg_fixed R P cx = Accept -> restr_true_legacy R P cx = true.
Proof.
  intros Hdist Hacc. pose proof (verify_legacy_accept cfg_fixed _ _ _ Hacc) as A.
  destruct A as [aids uids pids regmap subs Hrec _ _ Hrestr _ _ _ _].
  destruct (received_assoc P aids uids pids Hrec) as [Aattr Apred].
  cbn [f_restr_revealed_first cfg_fixed] in Hrestr. unfold check_restrictions in Hrestr.
  apply bind_ok in Hrestr. destruct Hrestr as (g1 & _ & Hrestr). apply bind_ok in Hrestr. destruct Hrestr as (g2 & _ & Hrestr).
  apply bind_ok in Hrestr. destruct Hrestr as (g3 & Hit & Hip).
  unfold restr_true_legacy. apply andb_true_iff. split.
  - apply forallb_forall. intros [r ai] Hin. destruct (ai_restr ai) as [q|] eqn:Hq; [|reflexivity].
    destruct (is_self_attested P r ai) eqn:Hsa; [reflexivity|].
    assert (Hreqd : In (r, ai) (List.filter (fun '(r0, ai0) => negb (is_self_attested P r0 ai0)) (rq_attrs R))).
    { apply filter_In. split; [exact Hin|]. rewrite Hsa. reflexivity. }
    destruct (iter_ok _ _ _ Hit _ Hreqd) as (u' & Hx). cbn beta iota in Hx. rewrite Hq in Hx.
    apply bind_ok in Hx. destruct Hx as (id & Hid & Hx). apply of_opt_ok in Hid.
    apply bind_ok in Hx. destruct Hx as (f & Hf & Hx). apply bind_ok in Hx. destruct Hx as (m & Hm & Hx). apply guard_ok in Hx.
    rewrite Aattr in Hid. fold (bound_of P r). destruct (bound_of P r) as [i|]; [|discriminate].
    destruct (filter_is_signers R P cx Hacc Hdist i id f Hid Hf) as (sp & Hsp & Hfo). rewrite Hsp, Hfo.
    unfold sem. cbn [f_w3c_norm_keys cfg_fixed tagkey] in Hm. unfold tagkey in Hm. cbn [f_w3c_norm_keys cfg_fixed] in Hm.
    destruct (ai_name ai) as [n|].
    + inversion Hm; subst m. exact Hx.
    + destruct (ai_names ai) as [ns|]; [|discriminate].
      destruct (assoc r (rp_groups (p_rp P))) as [g|].
      * inversion Hm; subst m. exact Hx.
      * cbn [f_group_unrevealed cfg_fixed] in Hm. inversion Hm; subst m. exact Hx.
  - apply forallb_forall. intros [r pi] Hin. destruct (pi_restr pi) as [q|] eqn:Hq; [|reflexivity].
    destruct (iter_ok _ _ _ Hip _ Hin) as (u' & Hx). cbn beta iota in Hx. rewrite Hq in Hx.
    apply bind_ok in Hx. destruct Hx as (id & Hid & Hx). apply of_opt_ok in Hid. apply bind_ok in Hx. destruct Hx as (f & Hf & Hx).
    apply bind_ok in Hx. destruct Hx as (idx & Hidx & Hx). apply of_opt_panic_ok in Hidx.
    apply bind_ok in Hx. destruct Hx as (rv & Hrv & Hx). apply guard_ok in Hx.
    rewrite Apred, Hidx in Hid. rewrite Hidx.
    destruct (filter_is_signers R P cx Hacc Hdist idx id f Hid Hf) as (sp & Hsp & Hfo). rewrite Hsp, Hfo.
    unfold sem. unfold tagkey in Hx, Hrv. cbn [f_w3c_norm_keys f_no_unwrap_panic cfg_fixed] in Hx, Hrv.
    assert (Hc : List.concat rv = flat_map (fun '(ar, (j, raw, _)) => if j =? idx then match assoc ar (List.filter (fun '(r0, ai0) => negb (is_self_attested P r0 ai0)) (rq_attrs R)) with
                                     | Some ai => match ai_name ai with Some n => [(cv n, Some raw)] | None => [] end
                                     | None => [] end else []) (rp_revealed (p_rp P))).
    { eapply concat_mapR; [|exact Hrv]. intros [ar [[j raw] enc]] y Hy. destruct (j =? idx); [|inversion Hy; reflexivity].
      destruct (assoc ar _) as [ai|]; inversion Hy; reflexivity. }
    rewrite Hc in Hx. exact Hx.
Qed.
