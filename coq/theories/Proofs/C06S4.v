From Coq Require Import List String ZArith NArith Bool Lia.
From AV Require Import Model.Str Model.Encode Model.Query Model.VTypes Model.Interval Model.Eval Model.CL
  Model.VerifierLegacy Model.VCfg Model.VProps Proofs.VMonad.
Import ListNotations.
Open Scope string_scope.
Open Scope list_scope.
Open Scope Z_scope.

(* the same request with every restriction removed *)
Definition strip_ai (ai : attr_info) : attr_info := {| ai_name := ai_name ai; ai_names := ai_names ai; ai_restr := None; ai_nr := ai_nr ai |}.
Definition strip_pi (pi : pred_info) : pred_info :=
  {| pi_name := pi_name pi; pi_type := pi_type pi; pi_value := pi_value pi; pi_restr := None; pi_nr := pi_nr pi |}.
Definition strip_req (R : request) : request :=
  {| rq_nonce := rq_nonce R; rq_attrs := map (fun x => (fst x, strip_ai (snd x))) (rq_attrs R);
     rq_preds := map (fun x => (fst x, strip_pi (snd x))) (rq_preds R); rq_nr := rq_nr R |}.

Lemma assoc_map {V W} (g : V -> W) k (l : list (string * V)) : assoc k (map (fun x => (fst x, g (snd x))) l) = option_map g (assoc k l).
Proof. induction l as [|[a v] l IH]; [reflexivity|]. cbn [map assoc fst snd]. destruct (String.eqb a k); [reflexivity|exact IH]. Qed.
Lemma keys_map {V W} (g : V -> W) (l : list (string * V)) : keys (map (fun x => (fst x, g (snd x))) l) = keys l.
Proof. unfold keys. rewrite map_map. reflexivity. Qed.
Lemma iter_ext {A} (f g : A -> res unit) l : (forall x, In x l -> f x = g x) -> iter f l = iter g l.
Proof. induction l as [|x r IH]; intros H; [reflexivity|]. cbn [iter]. rewrite (H x (or_introl eq_refl)), IH; [reflexivity|]. intros y Hy. apply H. right. exact Hy. Qed.
Lemma mapR_ext {A B} (f g : A -> res B) l : (forall x, In x l -> f x = g x) -> mapR f l = mapR g l.
Proof. induction l as [|x r IH]; intros H; [reflexivity|]. cbn [mapR]. rewrite (H x (or_introl eq_refl)), IH; [reflexivity|]. intros y Hy. apply H. right. exact Hy. Qed.

Lemma bind_ext {A B} (a a' : res A) (k k' : A -> res B) : a = a' -> (forall x, k x = k' x) -> bind a k = bind a' k'.
Proof. intros -> H. destruct a'; cbn [bind]; auto. Qed.

Section Strip.
  Context (cfg : vcfg) (R : request) (P : presentation) (cx : ctx).

  Lemma strip_compare : compare_referents (strip_req R) P = compare_referents R P.
  Proof. unfold compare_referents, strip_req. cbn [rq_attrs rq_preds]. rewrite !keys_map. reflexivity. Qed.

  Lemma strip_values : check_revealed_values cfg (strip_req R) P = check_revealed_values cfg R P.
  Proof.
    unfold check_revealed_values, strip_req. cbn [rq_attrs]. apply bind_ext; [|intros _].
    - apply iter_ext. intros [r [[i raw] enc]] _. rewrite assoc_map. destruct (assoc r (rq_attrs R)); reflexivity.
    - apply iter_ext. intros [r [i vals]] _. apply bind_ext; [reflexivity|intros sp]. rewrite assoc_map. destruct (assoc r (rq_attrs R)); reflexivity.
  Qed.

  Lemma strip_local i : local_interval cfg (strip_req R) P i = local_interval cfg R P i.
  Proof.
    unfold local_interval, strip_req. cbn [rq_attrs rq_preds].
    assert (Ha : forall l, mapR (fun r => of_opt (assoc r (map (fun x => (fst x, strip_ai (snd x))) (rq_attrs R)))) l
                          = match mapR (fun r => of_opt (assoc r (rq_attrs R))) l with ROk ais => ROk (map strip_ai ais) | RErr => RErr | RPanic => RPanic end).
    { induction l as [|r l IH]; [reflexivity|]. cbn [mapR]. rewrite assoc_map, IH. destruct (assoc r (rq_attrs R)); cbn [option_map of_opt bind]; [|reflexivity].
      destruct (mapR (fun r0 => of_opt (assoc r0 (rq_attrs R))) l); reflexivity. }
    assert (Hp : forall l, mapR (fun r => of_opt (assoc r (map (fun x => (fst x, strip_pi (snd x))) (rq_preds R)))) l
                          = match mapR (fun r => of_opt (assoc r (rq_preds R))) l with ROk pis => ROk (map strip_pi pis) | RErr => RErr | RPanic => RPanic end).
    { induction l as [|r l IH]; [reflexivity|]. cbn [mapR]. rewrite assoc_map, IH. destruct (assoc r (rq_preds R)); cbn [option_map of_opt bind]; [|reflexivity].
      destruct (mapR (fun r0 => of_opt (assoc r0 (rq_preds R))) l); reflexivity. }
    rewrite Ha, Hp.
    destruct (mapR _ (served_attr_refs cfg P i)) as [ais| |]; cbn [bind]; try reflexivity.
    destruct (mapR _ (served_pred_refs P i)) as [pis| |]; cbn [bind]; try reflexivity.
    f_equal. f_equal.
    - generalize (@None interval). induction ais as [|a ais IH]; intros acc; [reflexivity|]. cbn [map fold_left]. rewrite IH. reflexivity.
    - generalize (@None interval). induction pis as [|a pis IH]; intros acc; [reflexivity|]. cbn [map fold_left]. rewrite IH. reflexivity.
  Qed.

  Lemma strip_preds i sp : check_requested_preds cfg (strip_req R) P i sp = check_requested_preds cfg R P i sp.
  Proof.
    unfold check_requested_preds, strip_req. cbn [rq_preds]. destruct (f_check_preds cfg); [|reflexivity].
    apply iter_ext. intros r _. rewrite assoc_map. destruct (assoc r (rq_preds R)); reflexivity.
  Qed.

  Lemma strip_unrev i id : check_unrevealed_names cfg (strip_req R) P cx i id = check_unrevealed_names cfg R P cx i id.
  Proof.
    unfold check_unrevealed_names, strip_req. cbn [rq_attrs]. destruct (f_unrev_in_schema cfg); [|reflexivity].
    apply bind_ext; [reflexivity|intros sc]. apply iter_ext. intros [r j] _. destruct (j =? i); [|reflexivity].
    rewrite assoc_map. destruct (assoc r (rq_attrs R)); reflexivity.
  Qed.

  Lemma strip_interval cd local id : interval_check cfg (strip_req R) cx cd local id = interval_check cfg R cx cd local id.
  Proof. reflexivity. Qed.

  Lemma strip_loop regmap ids : forall i, loop_ids cfg (strip_req R) P cx regmap ids i = loop_ids cfg R P cx regmap ids i.
  Proof.
    induction ids as [|id r IH]; intros i; [reflexivity|]. cbn [loop_ids]. rewrite strip_local.
    apply bind_ext; [reflexivity|intros local]. apply bind_ext; [reflexivity|intros cd]. apply bind_ext; [apply strip_interval|intros needed].
    apply bind_ext; [reflexivity|intros sp]. apply bind_ext; [reflexivity|intros u1]. apply bind_ext; [apply strip_preds|intros u2].
    apply bind_ext; [apply strip_unrev|intros u3]. apply bind_ext; [reflexivity|intros x]. rewrite IH. reflexivity.
  Qed.
End Strip.
