(* inversion lemmas for the result monad of the verifier / prover models *)
From Coq Require Import List String ZArith Bool Lia.
From AV Require Import Model.VTypes.
Import ListNotations.
Open Scope Z_scope.

Lemma bind_ok {A B} (x : res A) (f : A -> res B) b : bind x f = ROk b -> exists a, x = ROk a /\ f a = ROk b.
Proof. destruct x; cbn; intros H; try discriminate. eauto. Qed.
Lemma bind_not_panic {A B} (x : res A) (f : A -> res B) :
  x <> RPanic -> (forall a, x = ROk a -> f a <> RPanic) -> bind x f <> RPanic.
Proof. destruct x; cbn; intros H1 H2; auto. discriminate. Qed.
Lemma guard_ok b u : guard b = ROk u -> b = true.
Proof. destruct b; cbn; [reflexivity|discriminate]. Qed.
Lemma guard_not_panic b : guard b <> RPanic.
Proof. destruct b; discriminate. Qed.
Lemma of_opt_ok {A} (o : option A) a : of_opt o = ROk a -> o = Some a.
Proof. destruct o; cbn; intros H; inversion H; reflexivity. Qed.
Lemma of_opt_not_panic {A} (o : option A) : of_opt o <> RPanic.
Proof. destruct o; discriminate. Qed.
Lemma of_opt_panic_ok {A} (o : option A) a : of_opt_panic o = ROk a -> o = Some a.
Proof. destruct o; cbn; intros H; inversion H; reflexivity. Qed.

Lemma iter_ok {A} (f : A -> res unit) l u : iter f l = ROk u -> forall x, In x l -> exists u', f x = ROk u'.
Proof.
  revert u. induction l as [|y r IH]; intros u H x Hin; [destruct Hin|].
  cbn [iter] in H. apply bind_ok in H. destruct H as (u1 & H1 & H2).
  destruct Hin as [<-|Hin]; [eauto|eapply IH; eauto].
Qed.
Lemma iter_not_panic {A} (f : A -> res unit) l : (forall x, In x l -> f x <> RPanic) -> iter f l <> RPanic.
Proof.
  induction l as [|y r IH]; intros H; cbn [iter]; [discriminate|].
  apply bind_not_panic; [apply H; left; reflexivity|]. intros _ _. apply IH. intros x Hx. apply H. right. exact Hx.
Qed.
Lemma mapR_ok {A B} (f : A -> res B) l l' : mapR f l = ROk l' -> Forall2 (fun x y => f x = ROk y) l l'.
Proof.
  revert l'. induction l as [|x r IH]; intros l' H; cbn [mapR] in H.
  - inversion H. constructor.
  - apply bind_ok in H. destruct H as (y & Hy & H). apply bind_ok in H. destruct H as (ys & Hys & H).
    inversion H; subst. constructor; auto.
Qed.
Lemma mapR_not_panic {A B} (f : A -> res B) l : (forall x, In x l -> f x <> RPanic) -> mapR f l <> RPanic.
Proof.
  induction l as [|y r IH]; intros H; cbn [mapR]; [discriminate|].
  apply bind_not_panic; [apply H; left; reflexivity|]. intros b _.
  apply bind_not_panic; [apply IH; intros x Hx; apply H; right; exact Hx|]. intros; discriminate.
Qed.
Lemma mapR_length {A B} (f : A -> res B) l l' : mapR f l = ROk l' -> List.length l' = List.length l.
Proof. intros H. apply mapR_ok in H. induction H; cbn; congruence. Qed.

(* association lists and Z-indexed access *)
Lemma assoc_In {V} k (m : list (string * V)) v : assoc k m = Some v -> In (k, v) m.
Proof.
  induction m as [|[a w] r IH]; cbn [assoc]; [discriminate|].
  destruct (String.eqb_spec a k) as [->|Hne]; [intros H; inversion H; left; reflexivity|intros H; right; auto].
Qed.
Lemma mem_In s l : mem s l = true <-> In s l.
Proof.
  unfold mem. rewrite existsb_exists. split.
  - intros (x & Hx & E). apply String.eqb_eq in E. subst. exact Hx.
  - intros H. exists s. split; auto. apply String.eqb_refl.
Qed.
Lemma subset_spec a b : subset a b = true <-> forall x, In x a -> In x b.
Proof.
  unfold subset. rewrite forallb_forall. split; intros H x Hx.
  - apply mem_In. auto.
  - apply mem_In. auto.
Qed.
Lemma assoc_some_of_key {V} k (m : list (string * V)) : In k (keys m) -> exists v, assoc k m = Some v.
Proof.
  unfold keys. induction m as [|[a w] r IH]; cbn [map assoc In fst]; [intros []|].
  destruct (String.eqb_spec a k) as [->|Hne]; [eauto|]. intros [H|H]; [congruence|auto].
Qed.
Lemma nthZ_In {A} (l : list A) i x : nthZ l i = Some x -> In x l.
Proof.
  revert i. induction l as [|y r IH]; intros i; cbn [nthZ]; [discriminate|].
  destruct (i =? 0); [intros H; inversion H; left; reflexivity|].
  destruct (i <? 0); [discriminate|]. intros H. right. eapply IH; eauto.
Qed.
Lemma nthZ_shift {A} (y : A) (r : list A) i : 0 <= i -> nthZ (y :: r) (i + 1) = nthZ r i.
Proof.
  intros H. cbn [nthZ]. destruct (Z.eqb_spec (i + 1) 0); [lia|]. destruct (Z.ltb_spec (i + 1) 0); [lia|].
  f_equal. lia.
Qed.

(* ---- more about Z-indexed lists ---- *)
Lemma nthZ_neg {A} (l : list A) i : i < 0 -> nthZ l i = None.
Proof.
  revert i. induction l as [|x r IH]; intros i H; cbn [nthZ]; auto.
  destruct (Z.eqb_spec i 0); [lia|]. destruct (Z.ltb_spec i 0); [reflexivity|lia].
Qed.
Lemma nthZ_some_iff {A} (l : list A) i : (exists v, nthZ l i = Some v) <-> 0 <= i < lenZ l.
Proof.
  unfold lenZ. revert i. induction l as [|x r IH]; intros i; cbn [nthZ List.length].
  - split; [intros [v Hv]; discriminate|lia].
  - destruct (Z.eqb_spec i 0); [subst; split; [lia|eauto]|].
    destruct (Z.ltb_spec i 0); [split; [intros [v Hv]; discriminate|lia]|].
    rewrite IH. lia.
Qed.
Lemma nthZ_ext {A} (l1 l2 : list A) : (forall k, nthZ l1 k = nthZ l2 k) -> l1 = l2.
Proof.
  revert l2. induction l1 as [|x r IH]; intros [|y s] H.
  - reflexivity.
  - specialize (H 0). discriminate.
  - specialize (H 0). discriminate.
  - pose proof (H 0) as H0. cbn in H0. inversion H0; subst. f_equal. apply IH. intros k.
    destruct (Z.ltb_spec k 0); [rewrite !nthZ_neg by lia; reflexivity|].
    specialize (H (k + 1)). rewrite !nthZ_shift in H by lia. exact H.
Qed.
Lemma nthZ_map {A B} (g : A -> B) (l : list A) k : nthZ (map g l) k = option_map g (nthZ l k).
Proof.
  revert k. induction l as [|x r IH]; intros k; cbn [map nthZ option_map]; auto.
  destruct (k =? 0); [reflexivity|]. destruct (k <? 0); [reflexivity|]. apply IH.
Qed.
Lemma lenZ_map {A B} (g : A -> B) (l : list A) : lenZ (map g l) = lenZ l.
Proof. unfold lenZ. rewrite map_length. reflexivity. Qed.
Lemma lenZ_nonneg {A} (l : list A) : 0 <= lenZ l. Proof. unfold lenZ. lia. Qed.
Lemma nthZ_cons_pos {A} (y : A) (r : list A) k : 0 < k -> nthZ (y :: r) k = nthZ r (k - 1).
Proof.
  intros H. cbn [nthZ]. destruct (Z.eqb_spec k 0); [lia|]. destruct (Z.ltb_spec k 0); [lia|]. reflexivity.
Qed.
Lemma nthZ_combine {A B} (a : list A) (b : list B) k x y :
  nthZ (combine a b) k = Some (x, y) -> nthZ a k = Some x /\ nthZ b k = Some y.
Proof.
  revert b k. induction a as [|p a IH]; intros [|q b] k; cbn [combine]; try (cbn [nthZ]; discriminate).
  cbn [nthZ]. destruct (k =? 0); [intros H; inversion H; auto|]. destruct (k <? 0); [discriminate|]. apply IH.
Qed.
Lemma In_nthZ {A} (l : list A) x : In x l -> exists k, nthZ l k = Some x.
Proof.
  induction l as [|y r IH]; [intros []|]. intros [<-|H]; [exists 0; reflexivity|].
  destruct (IH H) as [k Hk]. assert (0 <= k).
  { destruct (Z.ltb_spec k 0); [rewrite nthZ_neg in Hk by lia; discriminate|lia]. }
  exists (k + 1). rewrite nthZ_shift by lia. exact Hk.
Qed.

Lemma Forall2_app_r {A B} (Rel : A -> B -> Prop) l1 l2 x y : Forall2 Rel l1 l2 -> Rel x y -> Forall2 Rel (l1 ++ [x]) (l2 ++ [y]).
Proof. induction 1; cbn; [intros; repeat constructor; auto|intros; constructor; auto]. Qed.
Lemma Forall2_rev' {A B} (Rel : A -> B -> Prop) l1 l2 : Forall2 Rel l1 l2 -> Forall2 Rel (rev l1) (rev l2).
Proof. induction 1; cbn [rev]; [constructor|apply Forall2_app_r; auto]. Qed.
