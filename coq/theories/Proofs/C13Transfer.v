From Coq Require Import List String Ascii ZArith NArith Bool.
From AV Require Import Model.Str Model.Sha256 Model.Encode Model.CaseC13 Proofs.I32 Proofs.EncodeProofs.
Import ListNotations.
Open Scope string_scope.

Lemma c13_transfer input outs : ok_C13 input outs = true ->
  outs <> [] /\ forall site o, In (site, o) outs -> o = Some (encode_spec_fn input).
Proof.
  unfold ok_C13. intros H. destruct outs as [|x r]; [discriminate|].
  split; [discriminate|]. intros site o Hin.
  rewrite forallb_forall in H. specialize (H _ Hin). cbn [snd] in H.
  destruct o as [v|]; [|discriminate]. apply String.eqb_eq in H. subst v.
  rewrite encode_spec. reflexivity.
Qed.

(* non-vacuity: a concrete case meeting ok_C13 *)
Example c13_ok_example : ok_C13 "+5" [("add_raw", Some "5"); ("ffi", Some "5")] = true.
Proof. vm_compute. reflexivity. Qed.
Example c13_bad_example : ok_C13 "+5" [("add_raw", Some "+5")] = false.
Proof. vm_compute. reflexivity. Qed.
