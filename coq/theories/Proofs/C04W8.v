(* part 8: the W3C half of the full statement of C04, from the decidable honesty predicate *)
From Coq Require Import List String Ascii ZArith NArith Bool Lia.
From AV Require Import Model.Str Model.Encode Model.Query Model.VTypes Model.Interval Model.Eval Model.CL Model.VerifierLegacy Model.VerifierW3C
  Model.VCfg Model.VProps Model.Prover Model.PProps Proofs.VMonad Proofs.C04F4 Proofs.C04Proofs Proofs.VW3CC2.
From AV Require Import Proofs.C04W1 Proofs.C04W4c Proofs.C04W6 Proofs.C04W7.
Import ListNotations.
Local Open Scope string_scope.
Local Open Scope list_scope.
Local Open Scope Z_scope.

(* every honest W3C case (honest_w3c: correctly issued credentials of this holder, selection covering the request with
   credentials that hold what they serve, restrictions met, revocation data valid for a status list the verifier holds inside
   every interval that applies) whose credential subjects are plain (text and 32-bit numbers) and whose context lists
   well-formed status lists: if the prover model builds a presentation, the verifier model accepts it *)
Theorem c04_w3c_honest c : honest_w3c cfg_fixed pcfg_fixed c = true -> subjects_plain c = true -> is_ok (build_regmap (pc_cx c)) = true ->
  forall o, flow_w3c cfg_fixed pcfg_fixed c = Some o -> o = Accept.
Proof.
  intros Hh Hpl Hreg o Hflow. unfold flow_w3c in Hflow.
  destruct (create_w3c pcfg_fixed (pc_req c) (pc_cx c) (pc_link c) (pc_sel c)) as [P| |] eqn:Hcreate; try discriminate.
  inversion Hflow; subst o. clear Hflow.
  unfold honest_w3c in Hh. rewrite !andb_true_iff in Hh. destruct Hh as [[Hcommon Hself] Hent].
  unfold honest_common in Hcommon. rewrite andb_true_iff in Hcommon. destruct Hcommon as [Hcov Hce].
  rewrite forallb_forall in Hce, Hent. unfold subjects_plain in Hpl. rewrite forallb_forall in Hpl.
  assert (Hclass : w3c_rev_r c = true).
  { unfold w3c_rev_r. rewrite Hcov, Hself, Hreg. cbn [andb]. rewrite andb_true_r. apply forallb_forall. intros p Hp.
    unfold w3c_rev_entry. specialize (Hce p Hp). rewrite andb_true_iff in Hce. destruct Hce as [A B]. rewrite A, B, (Hpl p Hp). cbn [andb].
    specialize (Hent p Hp). rewrite andb_true_iff in Hent. exact (proj1 Hent). }
  apply (c04_w3c_rev_c c P Hclass); [| |exact Hcreate].
  - intros p subj sp r b ai Hp Hrb Has Hsub. specialize (Hent p Hp). rewrite andb_true_iff in Hent. destruct Hent as [_ Hr]. rewrite Hsub in Hr.
    unfold restr_met_w3c in Hr. destruct (gather_filter cfg_fixed (pc_cx c) (ident_of p)) as [f| |] eqn:Ef; try discriminate.
    rewrite andb_true_iff in Hr. destruct Hr as [Ha _]. rewrite forallb_forall in Ha. specialize (Ha _ Hrb). cbn beta iota in Ha. rewrite Has in Ha.
    unfold restriction_true. destruct (ai_restr ai) as [q|]; [|exact I]. exists f. split; [exact Ef|]. cbn [entry_of wc_subject]. exact Ha.
  - intros p subj sp r pi Hp Hr0 Has Hsub. specialize (Hent p Hp). rewrite andb_true_iff in Hent. destruct Hent as [_ Hr]. rewrite Hsub in Hr.
    unfold restr_met_w3c in Hr. destruct (gather_filter cfg_fixed (pc_cx c) (ident_of p)) as [f| |] eqn:Ef; try discriminate.
    rewrite andb_true_iff in Hr. destruct Hr as [_ Hpr]. rewrite forallb_forall in Hpr. specialize (Hpr _ Hr0). cbn beta iota in Hpr. rewrite Has in Hpr.
    unfold restriction_true. destruct (pi_restr pi) as [q|]; [|exact I]. exists f. split; [exact Ef|]. cbn [entry_of wc_subject]. exact Hpr.
Qed.
(* the two side conditions hold of the witnesses used elsewhere in this development, and the honesty predicate is met by them *)
Example c04_w3c_honest_nonvacuous :
  honest_w3c cfg_fixed pcfg_fixed r_case = true /\ subjects_plain r_case = true /\ is_ok (build_regmap (pc_cx r_case)) = true /\
  flow_w3c cfg_fixed pcfg_fixed r_case = Some Accept /\
  honest_w3c cfg_fixed pcfg_fixed (mk_case w_req_r z_cx 7 w_sel []) = true /\ flow_w3c cfg_fixed pcfg_fixed (mk_case w_req_r z_cx 7 w_sel []) = Some Accept.
Proof. repeat split; vm_compute; reflexivity. Qed.
Print Assumptions c04_w3c_honest.
