(* Structure of an accepting run of the W3C verifier model. *)
From Coq Require Import List String ZArith NArith Bool Lia.
From AV Require Import Model.Str Model.Encode Model.Query Model.VTypes Model.Interval Model.Eval Model.CL
  Model.VerifierLegacy Model.VerifierW3C Model.VCfg Model.VProps
  Proofs.VMonad Proofs.VLegacyProofs Proofs.VLegacyStruct Proofs.VCLFacts Proofs.VLegacyMaster.
Import ListNotations.
Open Scope string_scope.
Open Scope list_scope.
Open Scope Z_scope.

Notation wcase := (w3c_cred * (identifier * subproof))%type.

Section W.
  Context (cfg : vcfg).

  Lemma add_all_spec cx regmap needs cs : forall i subs, add_all cfg cx regmap needs i cs = ROk subs ->
    Forall2 (fun (kc : Z * wcase) x =>
               require_nrp cfg (existsb (Z.eqb (fst kc)) needs) (snd (snd (snd kc))) = ROk tt /\
               add_sub_proof cfg cx regmap (snd (snd (snd kc))) (fst (snd (snd kc))) = ROk x)
            (indexed i cs) subs.
  Proof.
    induction cs as [|[c [id sp]] r IH]; intros i subs H; cbn [add_all indexed] in *.
    - inversion H. constructor.
    - apply bind_ok in H. destruct H as (u & Hu & H). rewrite (unit_eta u) in Hu.
      apply bind_ok in H. destruct H as (x & Hx & H). apply bind_ok in H. destruct H as (xs & Hxs & H).
      inversion H; subst subs. constructor; [cbn [fst snd]; auto|apply IH; exact Hxs].
  Qed.

  Lemma decode_all P cs : mapR (fun c => pv <- of_opt (wc_pv c) ;; ROk (c, pv)) (wp_creds P) = ROk cs ->
    map fst cs = wp_creds P /\ flat_map (fun w => opt_list (wc_pv w)) (wp_creds P) = map snd cs /\
    Forall (fun x : wcase => wc_pv (fst x) = Some (snd x)) cs.
  Proof.
    generalize (wp_creds P). intros l. revert cs. induction l as [|w r IH]; intros cs H; cbn [mapR] in H.
    - inversion H. repeat split; constructor.
    - apply bind_ok in H. destruct H as ([c pv] & Hc & H). apply bind_ok in H. destruct H as (rest & Hr & H).
      inversion H; subst cs. apply bind_ok in Hc. destruct Hc as (pv' & Hpv & Hc). apply of_opt_ok in Hpv.
      inversion Hc; subst. destruct (IH _ Hr) as (A & B & C). cbn [map flat_map fst snd]. rewrite Hpv. cbn [opt_list app].
      repeat split; [f_equal; exact A|f_equal; exact B|constructor; auto].
  Qed.

  Inductive w3c_pair_facts (R : request) (cx : ctx) (link0 : N) (needs : list Z) (k : Z) (c : w3c_cred) (id : identifier) (sp : subproof) : Prop :=
  | W3CPairFacts (sc : schema) (cd : creddef) (reg : option (N * N)) (regmap : option (list (string * Z * N)))
      (wf_schema : assoc (id_schema id) (cx_schemas cx) = Some sc)
      (wf_creddef : assoc (id_creddef id) (cx_creddefs cx) = Some cd)
      (wf_regmap : build_regmap cx = ROk regmap)
      (wf_add : add_sub_proof cfg cx regmap sp id = ROk (sp, cd_key cd, map cv (sc_attrs sc), reg))
      (wf_nrp : require_nrp cfg (existsb (Z.eqb k) needs) sp = ROk tt)
      (wf_cl : sub_facts (f_common_link cfg) link0 k sp (cd_key cd) (map cv (sc_attrs sc)) reg).

  Inductive w3c_accepted (R : request) (P : w3c_pres) (cx : ctx) : Prop :=
  | W3CAccepted (cs : list wcase) (a : agg) (needs : list Z)
      (wa_shape : wp_shape_ok P = true)
      (wa_creds : map fst cs = wp_creds P)
      (wa_subs : case_subs (CW3C R P cx) = map snd cs)
      (wa_pv : Forall (fun x : wcase => wc_pv (fst x) = Some (snd x)) cs)
      (wa_data : check_request_data cfg R cx cs = ROk needs)
      (wa_subject : f_w3c_strict_subject cfg = true -> forall c id sp, In (c, (id, sp)) cs -> subject_matches c sp = true)
      (wa_agg : wp_agg P = Some a)
      (wa_count : lenZ cs = ag_count a) (wa_unaltered : ag_altered a = false) (wa_nonce : ag_nonce a = rq_nonce R)
      (wa_pairs : forall k c id sp, nthZ cs k = Some (c, (id, sp)) ->
                    w3c_pair_facts R cx (link0_of (map (fun x : wcase => snd (snd x)) cs)) needs k c id sp).

  Theorem verify_w3c_accept R P cx : verify_w3c cfg R P cx = Accept -> w3c_accepted R P cx.
  Proof.
    unfold verify_w3c. intros H.
    destruct (bind (guard (wp_shape_ok P)) _) as [[subs a]| |] eqn:E; try discriminate.
    apply bind_ok in E. destruct E as (u0 & Hshape & E). apply guard_ok in Hshape.
    apply bind_ok in E. destruct E as (cs & Hcs & E).
    apply bind_ok in E. destruct E as (needs & Hdata & E).
    apply bind_ok in E. destruct E as (u1 & Hsubj & E). apply guard_ok in Hsubj.
    apply bind_ok in E. destruct E as (a' & Hagg & E). apply of_opt_ok in Hagg.
    apply bind_ok in E. destruct E as (regmap & Hreg & E).
    apply bind_ok in E. destruct E as (subs' & Hadd & E). inversion E; subst subs' a'. clear E.
    destruct (decode_all P cs Hcs) as (Hfst & Hflat & Hpv).
    apply cl_verify_accept in H. destruct H as (Hc & Halt & Hnonce & Hsubs & _).
    apply add_all_spec in Hadd. apply Forall2_nthZ in Hadd. destruct Hadd as [Hlen Hn]. rewrite indexed_len in Hlen.
    (* the sub-proof component of the k-th sub is the k-th credential's sub-proof *)
    assert (Hshape_k : forall k c id sp, nthZ cs k = Some (c, (id, sp)) ->
              exists x, nthZ subs k = Some x /\ require_nrp cfg (existsb (Z.eqb k) needs) sp = ROk tt /\ add_sub_proof cfg cx regmap sp id = ROk x).
    { intros k c id sp Hk. assert (0 <= k). { destruct (Z.ltb_spec k 0); [rewrite nthZ_neg in Hk by lia; discriminate|lia]. }
      pose proof (indexed_nth cs 0 k _ H Hk) as Hi. destruct (Hn _ _ Hi) as (x & Hx & Hr & Ha).
      cbn [fst snd] in Hr, Ha. replace (0 + k) with k in Hr by lia. eauto. }
    assert (Hl0 : (match subs with (sp0, _, _, _) :: _ => src_used_link (sp_src sp0) | [] => 0%N end)
                  = link0_of (map (fun x : wcase => snd (snd x)) cs)).
    { destruct cs as [|[c0 [id0 sp0]] rest]; destruct subs as [|[[[s0 k0] a0] r0] srest]; cbn [map link0_of snd]; auto.
      - unfold lenZ in Hlen. cbn in Hlen. lia.
      - unfold lenZ in Hlen. cbn in Hlen. lia.
      - destruct (Hshape_k 0 c0 id0 sp0 eq_refl) as (x & Hx & _ & Ha). cbn in Hx. inversion Hx; subst x.
        apply (add_sub_proof_shape cfg) in Ha. destruct Ha as (_ & _ & _ & _ & Hsp & _). unfold sub_sp in Hsp. cbn in Hsp. subst. reflexivity. }
    rewrite Hl0 in Hsubs.
    assert (Hpairs : forall k c id sp, nthZ cs k = Some (c, (id, sp)) ->
              w3c_pair_facts R cx (link0_of (map (fun x : wcase => snd (snd x)) cs)) needs k c id sp).
    { intros k c id sp Hk. destruct (Hshape_k _ _ _ _ Hk) as (x & Hx & Hr & Ha).
      pose proof (add_sub_proof_shape cfg _ _ _ _ _ Ha) as (sc & cd & Hsc & Hcd & Hsp & Hkey & Hattrs & _).
      destruct x as [[[xs xk] xa] xr]. unfold sub_sp, sub_key, sub_attrs in *. cbn [fst snd] in *. subst xs xk xa.
      pose proof (subs_ok_spec _ _ _ _ Hsubs _ _ Hx) as Hok. replace (0 + k) with k in Hok by lia. apply sub_ok_facts in Hok.
      exact (W3CPairFacts R cx _ needs k c id sp sc cd xr regmap Hsc Hcd Hreg Ha Hr Hok). }
    assert (Hsubject : f_w3c_strict_subject cfg = true -> forall c id sp, In (c, (id, sp)) cs -> subject_matches c sp = true).
    { intros Hs c id sp Hin. rewrite Hs in Hsubj. cbn [negb orb] in Hsubj. rewrite forallb_forall in Hsubj. exact (Hsubj _ Hin). }
    assert (Hcount : lenZ cs = ag_count a) by lia.
    exact (W3CAccepted R P cx cs a needs Hshape Hfst Hflat Hpv Hdata Hsubject Hagg Hcount Halt Hnonce Hpairs).
  Qed.
End W.
