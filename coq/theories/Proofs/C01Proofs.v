(* C01: an accepted presentation proves exactly the requested predicates and attributes, by a
   genuine proof over issuer-signed credentials. *)
From Coq Require Import List String ZArith NArith Bool Lia.
From AV Require Import Model.Str Model.Encode Model.Query Model.VTypes Model.Interval Model.Eval Model.CL
  Model.VerifierLegacy Model.VerifierW3C Model.VCfg Model.VProps
  Proofs.VMonad Proofs.VLegacyProofs Proofs.VLegacyStruct Proofs.VCLFacts Proofs.VLegacyMaster Proofs.VW3CMaster Proofs.VW3CSearch
  Proofs.C03Proofs Proofs.C05Proofs.
Import ListNotations.
Open Scope string_scope.
Open Scope list_scope.
Open Scope Z_scope.

Lemma sub_genuine_of_facts common link0 k sp key attrs reg :
  sub_facts common link0 k sp key attrs reg -> sub_genuine k sp = true.
Proof.
  intros [Hun _ Hlink Hpos _ Hrev Hpreds _ _]. unfold sub_genuine.
  rewrite Hun, Hlink, N.eqb_refl, Hpos, Z.eqb_refl. cbn [negb andb].
  apply andb_true_intro. split.
  - apply forallb_forall. intros [n v] Hin. rewrite (Hrev _ _ Hin). apply String.eqb_refl.
  - apply forallb_forall. exact Hpreds.
Qed.

Lemma subs_genuine_of_nth l : forall pos,
  (forall k sp, nthZ l k = Some sp -> sub_genuine (pos + k) sp = true) -> subs_genuine pos l = true.
Proof.
  induction l as [|sp r IH]; intros pos H; [reflexivity|]. cbn [subs_genuine].
  apply andb_true_intro. split.
  - specialize (H 0 sp eq_refl). replace (pos + 0) with pos in H by lia. exact H.
  - apply IH. intros k sp' Hk. assert (0 <= k). { destruct (Z.ltb_spec k 0); [rewrite nthZ_neg in Hk by lia; discriminate|lia]. }
    specialize (H (k + 1) sp'). rewrite nthZ_shift in H by lia. replace (pos + 1 + k) with (pos + (k + 1)) by lia. auto.
Qed.

Lemma pred_eqb_sym a b : pred_eqb a b = pred_eqb b a.
Proof.
  destruct a as [[n1 t1] v1], b as [[n2 t2] v2]. unfold pred_eqb.
  rewrite (String.eqb_sym n1 n2), (Z.eqb_sym v1 v2). f_equal. f_equal. destruct t1, t2; reflexivity.
Qed.

Lemma set_eqb_mem a b x : set_eqb a b = true -> mem x a = true -> mem x b = true.
Proof.
  unfold set_eqb. intros H Hx. apply andb_prop in H. destruct H as [H _]. rewrite subset_spec in H.
  apply mem_In. apply H. apply mem_In. exact Hx.
Qed.

Lemma reveals_of_verified sp name enc u : sp_names_normalised sp = true ->
  verify_value name sp enc = ROk u -> reveals sp name = true.
Proof.
  intros Hn Hv. apply verify_value_ok in Hv. destruct Hv as (k & v & Hin & Hcv & _).
  unfold reveals. apply mem_In. unfold sp_names_normalised in Hn. rewrite forallb_forall in Hn.
  specialize (Hn _ Hin). cbn [fst] in Hn. apply String.eqb_eq in Hn. rewrite Hcv, Hn.
  unfold keys. apply in_map_iff. exists (k, v). auto.
Qed.

Section C01.
  Context (cfg : vcfg).

  (* ---- genuine: both formats ---- *)
  Lemma genuine_legacy R P cx : verify_legacy cfg R P cx = Accept -> genuine (CLegacy R P cx) = true.
  Proof.
    intros H. apply (accepted_pairs cfg) in H. destruct H as (Hlen & Hcount & Halt & Hnonce & _ & Hpairs).
    unfold genuine. cbn [case_agg case_request case_subs]. rewrite (combine_snd _ _ (lenZ_inj _ _ Hlen)).
    rewrite Halt, Hnonce, N.eqb_refl. cbn [negb andb].
    assert (Hcl : lenZ (combine (p_ids P) (p_proofs P)) = lenZ (p_proofs P)).
    { unfold lenZ in *. rewrite combine_length. lia. }
    rewrite Hcl, Hcount, Z.eqb_refl. cbn [andb]. apply subs_genuine_of_nth. intros k sp Hk. replace (0 + k) with k by lia.
    assert (0 <= k < lenZ (p_proofs P)) by (apply nthZ_some_iff; eauto).
    assert (Hid : exists id, nthZ (p_ids P) k = Some id) by (apply nthZ_some_iff; lia). destruct Hid as [id Hid].
    destruct (Hpairs _ _ _ Hid Hk) as [sc cd reg rm x _ _ _ _ _ Hf]. eapply sub_genuine_of_facts; eauto.
  Qed.

  Lemma genuine_w3c R P cx : verify_w3c cfg R P cx = Accept -> genuine (CW3C R P cx) = true.
  Proof.
    intros H. apply (verify_w3c_accept cfg) in H. destruct H as [cs a needs _ _ Hsubs _ _ _ Hagg Hcount Halt Hnonce Hpairs].
    unfold genuine. cbn [case_agg case_request]. rewrite Hagg, Hsubs, Halt, Hnonce, N.eqb_refl. cbn [negb andb].
    rewrite lenZ_map, Hcount, Z.eqb_refl. cbn [andb]. apply subs_genuine_of_nth. intros k sp Hk. replace (0 + k) with k by lia.
    rewrite map_map, nthZ_map in Hk. destruct (nthZ cs k) as [[c [id sp']]|] eqn:Ek; [|discriminate]. cbn in Hk. inversion Hk; subst sp'.
    destruct (Hpairs _ _ _ _ Ek) as [sc cd reg rm _ _ _ _ _ Hf]. eapply sub_genuine_of_facts; eauto.
  Qed.

  (* ---- legacy: predicates ---- *)
  Lemma mapR_in {A B} (f : A -> res B) l l' x : mapR f l = ROk l' -> In x l -> exists y, f x = ROk y.
  Proof.
    intros H Hin. apply mapR_ok in H. induction H as [|a b l1 l2 Hab H IH]; [destruct Hin|].
    destruct Hin as [<-|Hin]; eauto.
  Qed.

  Lemma received_ranges P a u p : received P = ROk (a, u, p) ->
    (forall r i raw enc, In (r, (i, raw, enc)) (rp_revealed (p_rp P)) -> exists id, nthZ (p_ids P) i = Some id) /\
    (forall r i vals, In (r, (i, vals)) (rp_groups (p_rp P)) -> exists id, nthZ (p_ids P) i = Some id) /\
    (forall r i, In (r, i) (rp_unrev (p_rp P)) -> exists id, nthZ (p_ids P) i = Some id) /\
    (forall r i, In (r, i) (rp_preds (p_rp P)) -> exists id, nthZ (p_ids P) i = Some id).
  Proof.
    unfold received, get_ident. intros H.
    apply bind_ok in H. destruct H as (rv & Hrv & H). apply bind_ok in H. destruct H as (rg & Hrg & H).
    apply bind_ok in H. destruct H as (un & Hun & H). apply bind_ok in H. destruct H as (pr & Hpr & _).
    repeat split.
    - intros r i raw enc Hin. destruct (mapR_in _ _ _ _ Hrv Hin) as (y & Hy). cbn in Hy.
      apply bind_ok in Hy. destruct Hy as (id & Hid & _). apply of_opt_ok in Hid. eauto.
    - intros r i vals Hin. destruct (mapR_in _ _ _ _ Hrg Hin) as (y & Hy). cbn in Hy.
      apply bind_ok in Hy. destruct Hy as (id & Hid & _). apply of_opt_ok in Hid. eauto.
    - intros r i Hin. destruct (mapR_in _ _ _ _ Hun Hin) as (y & Hy). cbn in Hy.
      apply bind_ok in Hy. destruct Hy as (id & Hid & _). apply of_opt_ok in Hid. eauto.
    - intros r i Hin. destruct (mapR_in _ _ _ _ Hpr Hin) as (y & Hy). cbn in Hy.
      apply bind_ok in Hy. destruct Hy as (id & Hid & _). apply of_opt_ok in Hid. eauto.
  Qed.

  Lemma compare_keys R P u : compare_referents R P = ROk u ->
    (forall r, In r (keys (rq_attrs R)) ->
       In r (keys (rp_revealed (p_rp P)) ++ keys (rp_groups (p_rp P)) ++ keys (rp_unrev (p_rp P)) ++ keys (rp_self (p_rp P)))) /\
    (forall r, In r (keys (rq_preds R)) -> In r (keys (rp_preds (p_rp P)))).
  Proof.
    unfold compare_referents. intros H. apply bind_ok in H. destruct H as (u1 & H1 & H2).
    apply guard_ok in H1. apply guard_ok in H2. unfold set_eqb in *.
    apply andb_prop in H1. destruct H1 as [H1 _]. apply andb_prop in H2. destruct H2 as [H2 _].
    rewrite subset_spec in H1, H2. auto.
  Qed.

  Lemma in_keys {V} (m : list (string * V)) k v : In (k, v) m -> In k (keys m).
  Proof. intros H. unfold keys. apply in_map_iff. exists (k, v). auto. Qed.

  Theorem c01_legacy_preds R P cx : f_check_preds cfg = true -> case_wf1 (CLegacy R P cx) = true ->
    verify_legacy cfg R P cx = Accept ->
    forallb (fun '(r, pi) => match assoc r (rp_preds (p_rp P)) with
                             | Some i => match nthZ (p_proofs P) i with Some sp => proves_pred sp pi | None => false end
                             | None => false end) (rq_preds R) = true.
  Proof.
    intros Hflag Hwf H. pose proof (verify_legacy_accept cfg _ _ _ H) as Hacc.
    destruct Hacc as [aids uids pids regmap subs Hrec Hcmp _ _ _ _ _ _].
    apply (accepted_pairs cfg) in H. destruct H as (Hlen & _ & _ & _ & _ & Hpairs).
    unfold case_wf1 in Hwf. cbn [case_request] in Hwf. apply andb_prop in Hwf. destruct Hwf as [Hwf Hrpwf].
    apply andb_prop in Hwf. destruct Hwf as [_ Hreq]. unfold req_wf in Hreq. apply andb_prop in Hreq. destruct Hreq as [_ Hndp].
    destruct (compare_keys _ _ _ Hcmp) as [_ Hpk]. destruct (received_ranges _ _ _ _ Hrec) as (_ & _ & _ & Hpr).
    apply forallb_forall. intros [r pi] Hin.
    destruct (assoc_some_of_key _ _ (Hpk _ (in_keys _ _ _ Hin))) as [i Hi]. rewrite Hi.
    pose proof (assoc_In _ _ _ Hi) as Hri. destruct (Hpr _ _ Hri) as [id Hid].
    assert (Hsp : exists sp, nthZ (p_proofs P) i = Some sp).
    { apply nthZ_some_iff. assert (0 <= i < lenZ (p_ids P)) by (apply nthZ_some_iff; eauto). lia. }
    destruct Hsp as [sp Hsp]. rewrite Hsp.
    destruct (Hpairs _ _ _ Hid Hsp) as [sc cd reg rm x _ _ _ Hloop _ _].
    destruct Hloop as [sp' cd' local needed Hnth _ _ _ _ Hcp _ _]. assert (sp' = sp) by congruence. subst sp'.
    unfold check_requested_preds in Hcp. rewrite Hflag in Hcp.
    assert (Hserved : In r (served_pred_refs P i)).
    { unfold served_pred_refs. apply in_map_iff. exists (r, i). split; [reflexivity|]. apply filter_In. split; [exact Hri|apply Z.eqb_refl]. }
    destruct (iter_ok _ _ _ Hcp _ Hserved) as (u' & Hx). cbn beta in Hx.
    apply bind_ok in Hx. destruct Hx as (pi' & Hpi & Hx). apply of_opt_ok in Hpi. apply guard_ok in Hx.
    rewrite (assoc_nodup _ _ _ Hndp Hin) in Hpi. inversion Hpi; subst pi'. exact Hx.
  Qed.

  (* ---- legacy: attributes ---- *)
  Lemma mapR_keys {V W} (f : string * V -> res (string * W)) l l' :
    (forall x y, f x = ROk y -> fst y = fst x) -> mapR f l = ROk l' -> keys l' = keys l.
  Proof.
    intros Hf H. apply mapR_ok in H. unfold keys. induction H as [|a b l1 l2 Hab H IH]; [reflexivity|].
    cbn [map]. rewrite (Hf _ _ Hab), IH. reflexivity.
  Qed.

  Lemma received_keys P a u p : received P = ROk (a, u, p) ->
    keys a = keys (rp_groups (p_rp P)) ++ keys (rp_revealed (p_rp P)) /\ keys u = keys (rp_unrev (p_rp P)).
  Proof.
    unfold received. intros H.
    apply bind_ok in H. destruct H as (rv & Hrv & H). apply bind_ok in H. destruct H as (rg & Hrg & H).
    apply bind_ok in H. destruct H as (un & Hun & H). apply bind_ok in H. destruct H as (pr & Hpr & H).
    inversion H; subst a u p. split.
    - unfold keys at 1. rewrite map_app. fold (keys rg) (keys rv). f_equal.
      + eapply mapR_keys; [|exact Hrg]. intros [r [i g]] y Hy. apply bind_ok in Hy. destruct Hy as (id & _ & Hy). inversion Hy; reflexivity.
      + eapply mapR_keys; [|exact Hrv]. intros [r [[i raw] enc]] y Hy. apply bind_ok in Hy. destruct Hy as (id & _ & Hy). inversion Hy; reflexivity.
    - eapply mapR_keys; [|exact Hun]. intros [r i] y Hy. apply bind_ok in Hy. destruct Hy as (id & _ & Hy). inversion Hy; reflexivity.
  Qed.

  Lemma assoc_none_not_key {V} k (m : list (string * V)) : assoc k m = None -> ~ In k (keys m).
  Proof. intros H Hin. destruct (assoc_some_of_key _ _ Hin) as [v Hv]. congruence. Qed.
  Lemma keys_app {V} (a b : list (string * V)) : keys (a ++ b) = keys a ++ keys b.
  Proof. unfold keys. apply map_app. Qed.

  Theorem c01_legacy_attrs R P cx : f_unrev_in_schema cfg = true -> case_wf1 (CLegacy R P cx) = true ->
    verify_legacy cfg R P cx = Accept ->
    forallb (fun '(r, ai) => attr_served_legacy P r ai) (rq_attrs R) = true.
  Proof.
    intros Hflag Hwf H. pose proof (verify_legacy_accept cfg _ _ _ H) as Hacc.
    destruct Hacc as [aids uids pids regmap subs Hrec Hcmp Hvals Hrestr _ _ _ _].
    apply (accepted_pairs cfg) in H. destruct H as (Hlen & _ & _ & _ & _ & Hpairs).
    unfold case_wf1 in Hwf. cbn [case_request] in Hwf. apply andb_prop in Hwf. destruct Hwf as [Hwf Hrpwf].
    apply andb_prop in Hwf. destruct Hwf as [Hcwf Hreq]. unfold req_wf in Hreq. apply andb_prop in Hreq. destruct Hreq as [Hnda _].
    unfold rp_wf in Hrpwf. apply andb_prop in Hrpwf. destruct Hrpwf as [Hrpwf _]. apply andb_prop in Hrpwf. destruct Hrpwf as [Hrpwf Hndu].
    apply andb_prop in Hrpwf. destruct Hrpwf as [Hndr Hndg].
    unfold case_wf in Hcwf. cbn [case_subs] in Hcwf. apply andb_prop in Hcwf. destruct Hcwf as [Hnorm _]. rewrite forallb_forall in Hnorm.
    assert (Hnormsp : forall i sp, nthZ (p_proofs P) i = Some sp -> sp_names_normalised sp = true).
    { intros i sp Hi. destruct (in_combine_snd (p_ids P) (p_proofs P) sp) as [id' Hc]; [unfold lenZ in Hlen; lia|eapply nthZ_In; eauto|].
      exact (Hnorm _ Hc). }
    destruct (compare_keys _ _ _ Hcmp) as [Hak _]. destruct (received_ranges _ _ _ _ Hrec) as (_ & _ & Hur & _).
    destruct (received_keys _ _ _ _ Hrec) as [Hka Hku].
    unfold check_revealed_values in Hvals. apply bind_ok in Hvals. destruct Hvals as (u1 & Hv1 & Hv2).
    apply forallb_forall. intros [r ai] Hin. unfold attr_served_legacy.
    destruct (assoc r (rp_revealed (p_rp P))) as [[[i raw] enc]|] eqn:Erev.
    { (* revealed *)
      pose proof (assoc_In _ _ _ Erev) as Hri. destruct (iter_ok _ _ _ Hv1 _ Hri) as (u' & Hx). cbn beta iota in Hx.
      apply bind_ok in Hx. destruct Hx as (ai' & Ha & Hx). apply of_opt_ok in Ha.
      rewrite (assoc_nodup _ _ _ Hnda Hin) in Ha. inversion Ha; subst ai'.
      apply bind_ok in Hx. destruct Hx as (name & Hn & Hx). apply of_opt_ok in Hn.
      apply bind_ok in Hx. destruct Hx as (sp & Hs & Hx). apply of_opt_ok in Hs.
      rewrite Hs, Hn, (reveals_of_verified _ _ _ _ (Hnormsp _ _ Hs) Hx). reflexivity. }
    destruct (assoc r (rp_groups (p_rp P))) as [[i vals]|] eqn:Egr.
    { (* revealed group *)
      pose proof (assoc_In _ _ _ Egr) as Hri. destruct (iter_ok _ _ _ Hv2 _ Hri) as (u' & Hx). cbn beta iota in Hx.
      apply bind_ok in Hx. destruct Hx as (sp & Hs & Hx). apply of_opt_ok in Hs.
      apply bind_ok in Hx. destruct Hx as (ai' & Ha & Hx). apply of_opt_ok in Ha.
      rewrite (assoc_nodup _ _ _ Hnda Hin) in Ha. inversion Ha; subst ai'.
      apply bind_ok in Hx. destruct Hx as (ns & Hns & Hx). apply of_opt_ok in Hns.
      apply bind_ok in Hx. destruct Hx as (u2 & _ & Hx).
      rewrite Hs, Hns. cbn [orb].
      assert (Hall : forallb (reveals sp) ns = true).
      { apply forallb_forall. intros n Hnin. destruct (iter_ok _ _ _ Hx _ Hnin) as (u3 & Hy). cbn beta in Hy.
        apply bind_ok in Hy. destruct Hy as (v' & _ & Hy). eapply reveals_of_verified; eauto. }
      rewrite Hall. reflexivity. }
    destruct (assoc r (rp_unrev (p_rp P))) as [i|] eqn:Eun.
    { (* unrevealed: the names are attributes of the signed credential *)
      pose proof (assoc_In _ _ _ Eun) as Hri. destruct (Hur _ _ Hri) as [id Hid].
      assert (Hsp : exists sp, nthZ (p_proofs P) i = Some sp).
      { apply nthZ_some_iff. assert (0 <= i < lenZ (p_ids P)) by (apply nthZ_some_iff; eauto). lia. }
      destruct Hsp as [sp Hsp]. rewrite Hsp. cbn [orb].
      destruct (Hpairs _ _ _ Hid Hsp) as [sc cd reg rm x Hsc _ _ Hloop _ Hcl].
      destruct Hloop as [sp' cd' local needed _ _ _ _ _ _ Hun _]. destruct Hcl as [_ _ _ _ Hattrs _ _ _ _].
      unfold check_unrevealed_names in Hun. rewrite Hflag in Hun.
      apply bind_ok in Hun. destruct Hun as (sc' & Hsc' & Hun). apply of_opt_ok in Hsc'. rewrite Hsc in Hsc'. inversion Hsc'; subst sc'.
      destruct (iter_ok _ _ _ Hun _ Hri) as (u' & Hx). cbn beta iota in Hx. rewrite Z.eqb_refl in Hx.
      apply bind_ok in Hx. destruct Hx as (ai' & Ha & Hx). apply of_opt_ok in Ha.
      rewrite (assoc_nodup _ _ _ Hnda Hin) in Ha. inversion Ha; subst ai'. apply guard_ok in Hx.
      assert (Hall : forallb (holds_attr sp) (names_of ai) = true).
      { unfold names_of. rewrite forallb_forall in Hx. apply forallb_forall. intros n Hn. unfold holds_attr.
        eapply set_eqb_mem; [exact Hattrs|]. apply Hx. exact Hn. }
      rewrite Hall. reflexivity. }
    (* only self-attested: then it carries no restriction *)
    cbn [orb].
    assert (Hself : In r (keys (rp_self (p_rp P)))).
    { pose proof (Hak _ (in_keys _ _ _ Hin)) as Hu. apply in_app_or in Hu.
      destruct Hu as [Hu|Hu]; [exfalso; exact (assoc_none_not_key _ _ Erev Hu)|]. apply in_app_or in Hu.
      destruct Hu as [Hu|Hu]; [exfalso; exact (assoc_none_not_key _ _ Egr Hu)|]. apply in_app_or in Hu.
      destruct Hu as [Hu|Hu]; [exfalso; exact (assoc_none_not_key _ _ Eun Hu)|exact Hu]. }
    assert (Hm : mem r (keys (rp_self (p_rp P))) = true) by (apply mem_In; exact Hself). rewrite Hm. cbn [andb].
    destruct (unrestricted (ai_restr ai)) eqn:Eu; [reflexivity|exfalso].
    unfold check_restrictions in Hrestr.
    apply bind_ok in Hrestr. destruct Hrestr as (g1 & _ & Hrestr). apply bind_ok in Hrestr. destruct Hrestr as (g2 & _ & Hrestr).
    apply bind_ok in Hrestr. destruct Hrestr as (g3 & Hit & _).
    assert (Hreqd : In (r, ai) (List.filter (fun '(r0, ai0) => negb (is_self_attested P r0 ai0)) (rq_attrs R))).
    { apply filter_In. split; [exact Hin|]. unfold is_self_attested. rewrite Eu. reflexivity. }
    destruct (iter_ok _ _ _ Hit _ Hreqd) as (u' & Hx). cbn beta iota in Hx.
    destruct (ai_restr ai) as [q|] eqn:Eq; [|discriminate Eu].
    apply bind_ok in Hx. destruct Hx as (id & Hid & _). apply of_opt_ok in Hid.
    apply assoc_In in Hid. apply in_keys in Hid.
    assert (Hid' : In r (keys uids) \/ In r (keys aids)) by (destruct (f_restr_revealed_first cfg); rewrite keys_app in Hid; apply in_app_or in Hid; tauto).
    clear Hid. rewrite Hka, Hku in Hid'. destruct Hid' as [Hid|Hid]; [exact (assoc_none_not_key _ _ Eun Hid)|].
    apply in_app_or in Hid. destruct Hid as [Hid|Hid]; [exact (assoc_none_not_key _ _ Egr Hid)|exact (assoc_none_not_key _ _ Erev Hid)].
  Qed.

  Theorem c01_legacy R P cx : f_check_preds cfg = true -> f_unrev_in_schema cfg = true ->
    case_wf1 (CLegacy R P cx) = true -> verify_legacy cfg R P cx = Accept -> ok_C01 (CLegacy R P cx) Accept = true.
  Proof.
    intros H1 H2 Hwf H. unfold ok_C01. cbn [is_accept negb orb].
    rewrite (genuine_legacy _ _ _ H), (c01_legacy_preds _ _ _ H1 Hwf H), (c01_legacy_attrs _ _ _ H2 Hwf H). reflexivity.
  Qed.

  (* ---- W3C ---- *)
  Lemma get_ci_cv c name k v : get_ci c name = Some (k, v) -> In (k, v) (wc_subject c) /\ cv k = cv name.
  Proof. unfold get_ci. intros H. apply find_some in H. destruct H as [H1 H2]. cbn [fst] in H2. apply String.eqb_eq in H2. auto. Qed.

  Lemma check_predicate_ok R cx pi cs l : check_predicate cfg R cx pi cs = ROk l ->
    exists c id sp k, In (c, (id, sp)) cs /\ get_predicate c (pi_name pi) = Some k /\
      existsb (fun p => pred_eqb p ((if f_w3c_pred_cv cfg then cv k else k), pi_type pi, pi_value pi)) (sp_preds sp) = true.
  Proof.
    intros H. destruct (check_predicate_cases _ _ _ _ _ _ H) as [st Hf].
    destruct (find_predicate_idx _ _ _ _ _ _ _ _ Hf) as (j & c & id & sp & k & b & Hj & _ & Hg & He & _).
    exists c, id, sp, k. split; [exact (nthZ_In _ _ _ Hj)|auto].
  Qed.
  Lemma find_revealed_ok st R cx name q nr cs l : find_revealed cfg st R cx name q nr 0 cs = Some l ->
    exists c id sp k v u, In (c, (id, sp)) cs /\ get_attribute c name = Some (k, v) /\
      verify_value k sp (encode (value_to_string v)) = ROk u.
  Proof.
    intros H. destruct (find_revealed_idx _ _ _ _ _ _ _ _ _ _ H) as (j & c & id & sp & k & v & u & b & Hj & _ & Hg & Hv & _).
    exists c, id, sp, k, v, u. split; [exact (nthZ_In _ _ _ Hj)|auto].
  Qed.
  Lemma find_unrevealed_ok st R cx name q nr cs l : find_unrevealed cfg st R cx name q nr 0 cs = ROk (Some l) ->
    exists c id sp sc, In (c, (id, sp)) cs /\ assoc (id_schema id) (cx_schemas cx) = Some sc /\
      existsb (fun a => String.eqb (cv a) (cv name)) (sc_attrs sc) = true.
  Proof.
    intros H. destruct (find_unrevealed_idx _ _ _ _ _ _ _ _ _ _ H) as (j & c & id & sp & sc & b & Hj & _ & Hsc & He & _).
    exists c, id, sp, sc. split; [exact (nthZ_In _ _ _ Hj)|auto].
  Qed.

  Theorem c01_w3c R P cx : f_w3c_pred_cv cfg = true -> case_wf1 (CW3C R P cx) = true ->
    verify_w3c cfg R P cx = Accept -> ok_C01 (CW3C R P cx) Accept = true.
  Proof.
    intros Hflag Hwf H. pose proof (genuine_w3c _ _ _ H) as Hgen. apply (verify_w3c_accept cfg) in H.
    destruct H as [cs a needs _ _ Hsubs _ Hdata _ _ _ _ _ Hpairs].
    unfold ok_C01. cbn [is_accept negb orb]. rewrite Hgen. cbn [andb]. rewrite Hsubs.
    unfold case_wf1 in Hwf. apply andb_prop in Hwf. destruct Hwf as [Hwf _]. apply andb_prop in Hwf. destruct Hwf as [Hcwf _].
    unfold case_wf in Hcwf. rewrite Hsubs, andb_true_r in Hcwf. rewrite forallb_forall in Hcwf.
    assert (Hnormsp : forall c id sp, In (c, (id, sp)) cs -> sp_names_normalised sp = true).
    { intros c id sp Hin. apply (Hcwf (id, sp)). apply in_map_iff. exists (c, (id, sp)). auto. }
    assert (Hinsps : forall c id sp, In (c, (id, sp)) cs -> In sp (map snd (map snd cs))).
    { intros c id sp Hin. apply in_map_iff. exists (id, sp). split; [reflexivity|]. apply in_map_iff. exists (c, (id, sp)). auto. }
    unfold check_request_data in Hdata.
    apply bind_ok in Hdata. destruct Hdata as (na & Hna & Hdata). apply bind_ok in Hdata. destruct Hdata as (np & Hnp & _).
    (* what a successful attribute check means *)
    assert (Hattr : forall name q nr l, check_attribute cfg R cx cs name q nr = ROk l ->
              existsb (fun sp => reveals sp name || holds_attr sp name) (map snd (map snd cs)) = true).
    { intros name q nr l Hc. apply existsb_exists.
      destruct (check_attribute_cases _ _ _ _ _ _ _ _ Hc) as [[st Ef]|[st Eu]].
      - destruct (find_revealed_ok _ _ _ _ _ _ _ _ Ef) as (c & id & sp & k & v & u & Hin & Hg & Hv).
        exists sp. split; [eapply Hinsps; eauto|]. apply orb_true_intro. left.
        assert (Hcv : cv k = cv name).
        { unfold get_attribute in Hg. destruct (get_ci c name) as [[k' v']|] eqn:Eci; [|discriminate].
          destruct (get_ci_cv _ _ _ _ Eci) as [_ Hc']. destruct v'; inversion Hg; subst; auto. }
        pose proof (reveals_of_verified _ _ _ _ (Hnormsp _ _ _ Hin) Hv) as Hr. unfold reveals in *. rewrite <- Hcv. exact Hr.
      - destruct (find_unrevealed_ok _ _ _ _ _ _ _ _ Eu) as (c & id & sp & sc & Hin & Hsc & He).
        exists sp. split; [eapply Hinsps; eauto|]. apply orb_true_intro. right.
        destruct (In_nthZ _ _ Hin) as [k Hk]. destruct (Hpairs _ _ _ _ Hk) as [sc' cd reg rm Hsc' _ _ _ _ Hcl].
        rewrite Hsc in Hsc'. inversion Hsc'; subst sc'. destruct Hcl as [_ _ _ _ Hattrs _ _ _ _].
        unfold holds_attr. eapply set_eqb_mem; [exact Hattrs|]. apply existsb_exists in He. destruct He as (a0 & Ha0 & Heq).
        apply String.eqb_eq in Heq. apply mem_In. rewrite <- Heq. apply in_map. exact Ha0. }
    apply andb_true_intro. split.
    - apply forallb_forall. intros [r pi] Hin. destruct (mapR_in _ _ _ _ Hnp Hin) as (l & Hl). cbn beta iota in Hl.
      destruct (check_predicate_ok _ _ _ _ _ Hl) as (c & id & sp & k & Hcin & Hg & He). rewrite Hflag in He.
      apply existsb_exists. exists sp. split; [eapply Hinsps; eauto|].
      unfold proves_pred. apply existsb_exists in He. destruct He as (p & Hp & Hpe). apply existsb_exists. exists p. split; [exact Hp|].
      rewrite pred_eqb_sym.
      assert (Hcv : cv k = cv (pi_name pi)).
      { unfold get_predicate in Hg. destruct (get_ci c (pi_name pi)) as [[k' v']|] eqn:Eci; [|discriminate].
        destruct (get_ci_cv _ _ _ _ Eci) as [_ Hc']. destruct v'; inversion Hg; subst; auto. }
      rewrite <- Hcv. exact Hpe.
    - apply forallb_forall. intros [r ai] Hin. destruct (mapR_in _ _ _ _ Hna Hin) as (l & Hl). cbn beta iota in Hl.
      apply bind_ok in Hl. destruct Hl as (l1 & Hl1 & Hl). apply bind_ok in Hl. destruct Hl as (l2 & Hl2 & _).
      unfold names_of. apply forallb_forall. intros n Hn. apply in_app_or in Hn. destruct Hn as [Hn|Hn].
      + destruct (ai_name ai) as [n0|]; [|destruct Hn]. destruct Hn as [<-|[]]. eapply Hattr; eauto.
      + destruct (ai_names ai) as [ns|]; [|destruct Hn]. apply bind_ok in Hl2. destruct Hl2 as (ls & Hls & _).
        destruct (mapR_in _ _ _ _ Hls Hn) as (l' & Hl'). eapply Hattr; eauto.
  Qed.

  Theorem c01_model c : f_check_preds cfg = true -> f_unrev_in_schema cfg = true -> f_w3c_pred_cv cfg = true ->
    case_wf1 c = true -> ok_C01 c (run_model cfg c) = true.
  Proof.
    intros H1 H2 H3 Hwf. destruct c as [R P cx|R P cx]; cbn [run_model].
    - destruct (verify_legacy cfg R P cx) eqn:E; try reflexivity. apply c01_legacy; auto.
    - destruct (verify_w3c cfg R P cx) eqn:E; try reflexivity. apply c01_w3c; auto.
  Qed.
End C01.
