From Coq Require Import List String Ascii ZArith NArith Bool Lia.
From AV Require Import Model.Sexp Model.Str Model.Sha256 Model.Encode Proofs.I32.
Import ListNotations.
Open Scope string_scope.
Open Scope Z_scope.

Lemma encode_spec s : encode s = encode_spec_fn s.
Proof. unfold encode, encode_spec_fn, encode_hash. rewrite parse_i32_spec. reflexivity. Qed.

Lemma encode_numeric s v : i32_literal s = Some v -> encode s = z_to_string v.
Proof. intros H. rewrite encode_spec. unfold encode_spec_fn. rewrite H. reflexivity. Qed.

Lemma encode_hashed s : i32_literal s = None ->
  encode s = dec_of_N (be_nat (sha256 (bytes_of_string s))).
Proof. intros H. rewrite encode_spec. unfold encode_spec_fn. rewrite H. reflexivity. Qed.

Lemma encode_idempotent_numeric s v : parse_i32 s = Some v -> encode (encode s) = encode s.
Proof.
  intros H. assert (E : encode s = z_to_string v) by (unfold encode; rewrite H; reflexivity).
  rewrite E. unfold encode.
  rewrite parse_print_roundtrip by (eapply parse_i32_range; eauto). reflexivity.
Qed.

(* normalisation of an encoded value is the identity on everything encode produces *)
Lemma normalize_encode s : normalize_encoded (encode s) = encode s.
Proof.
  unfold encode. destruct (parse_i32 s) as [v|] eqn:E.
  - unfold normalize_encoded. rewrite parse_print_roundtrip by (eapply parse_i32_range; eauto). reflexivity.
  - unfold normalize_encoded, encode_hash. rewrite parse_dec_of_N.
    destruct (_ <=? i32_max) eqn:E2; [|reflexivity].
    unfold z_to_string. destruct (Z.of_N _ <? 0) eqn:E3; [apply Z.ltb_lt in E3; lia|].
    rewrite N2Z.id. reflexivity.
Qed.

Lemma normalize_idempotent s : normalize_encoded (normalize_encoded s) = normalize_encoded s.
Proof.
  destruct (parse_i32 s) as [v|] eqn:E.
  - assert (N1 : normalize_encoded s = z_to_string v) by (unfold normalize_encoded; rewrite E; reflexivity).
    rewrite N1. unfold normalize_encoded.
    rewrite parse_print_roundtrip by (eapply parse_i32_range; eauto). reflexivity.
  - assert (N1 : normalize_encoded s = s) by (unfold normalize_encoded; rewrite E; reflexivity).
    rewrite N1. exact N1.
Qed.

(* two numeric literals encode equally iff they denote the same integer *)
Lemma z_to_string_inj a b : z_to_string a = z_to_string b -> in_i32 a = true -> in_i32 b = true -> a = b.
Proof.
  intros H Ha Hb. pose proof (parse_print_roundtrip a Ha) as Pa. pose proof (parse_print_roundtrip b Hb) as Pb.
  rewrite H in Pa. rewrite Pa in Pb. inversion Pb. reflexivity.
Qed.

Lemma encode_numeric_inj s t v w :
  i32_literal s = Some v -> i32_literal t = Some w -> encode s = encode t -> v = w.
Proof.
  intros Hs Ht H. rewrite (encode_numeric _ _ Hs), (encode_numeric _ _ Ht) in H.
  rewrite <- parse_i32_spec in Hs, Ht.
  eapply z_to_string_inj; eauto using parse_i32_range.
Qed.

(* SHA-256 known-answer tests: a TEST of Model/Sha256.v, not a proof about the crate *)
Definition hex (bs : list N) : string :=
  string_of_list_ascii (flat_map (fun b => [Sexp.hexd (b / 16)%N; Sexp.hexd (b mod 16)%N]) bs).
Example sha_empty : hex (sha256 []) = "e3b0c44298fc1c149afbf4c8996fb92427ae41e4649b934ca495991b7852b855".
Proof. vm_compute. reflexivity. Qed.
Example sha_abc : hex (sha256 (bytes_of_string "abc")) = "ba7816bf8f01cfea414140de5dae2223b00361a396177a9cb410ff61f20015ad".
Proof. vm_compute. reflexivity. Qed.
Example sha_2blocks : hex (sha256 (bytes_of_string "abcdbcdecdefdefgefghfghighijhijkijkljklmklmnlmnomnopnopq")) = "248d6a61d20638b8e5c026930c3e6039a33ce45964ff2167f6ecedd419db06c1".
Proof. vm_compute. reflexivity. Qed.
Example enc_SLC : encode "SLC" = "101327353979588246869873249766058188995681113722618593621043638294296500696424".
Proof. vm_compute. reflexivity. Qed.
Example enc_wilson : encode "101 Wilson Lane" = "68086943237164982734333428280784300550565381723532936263016368251445461241953".
Proof. vm_compute. reflexivity. Qed.
Example enc_edge : map encode ["+5"; "-0"; "007"; "2147483647"; "-2147483648"] = ["5"; "0"; "7"; "2147483647"; "-2147483648"].
Proof. vm_compute. reflexivity. Qed.
