(* C15: the hand-written codecs are inverse to each other on what the library writes. *)
From Coq Require Import List String Ascii ZArith Bool Lia.
From AV Require Import Model.Str Model.Json Model.Codec Proofs.I32.
Import ListNotations.
Local Open Scope string_scope.

Theorem c15_nonce_roundtrip s : nonce_valid s = true -> nonce_de (nonce_ser s) = DOk s.
Proof. intros H. unfold nonce_de, nonce_ser. rewrite H. reflexivity. Qed.
(* whatever document is accepted, the object it yields re-serialises to a document that yields
   the same object, and that document is stable *)
Lemma nonce_valid_of_nat z : (0 <= z)%Z -> nonce_valid (z_to_string z) = true.
Proof.
  intros Hz. unfold z_to_string. destruct (z <? 0)%Z eqn:E; [apply Z.ltb_lt in E; lia|].
  unfold nonce_valid. destruct (dec_of_N_digits (Z.to_N z)) as [Hd _]. rewrite Hd, andb_true_r.
  destruct (String.eqb_spec (dec_of_N (Z.to_N z)) ""); [exfalso; eapply dec_of_N_nonempty; eauto|reflexivity].
Qed.
Theorem c15_nonce_stable j s : nonce_de j = DOk s -> nonce_valid s = true /\ nonce_de (nonce_ser s) = DOk s.
Proof.
  destruct j as [| | z | | t | |]; cbn [nonce_de]; try discriminate.
  - destruct (0 <=? z)%Z eqn:E; [|discriminate]. intros H. injection H as <-. apply Z.leb_le in E.
    pose proof (nonce_valid_of_nat z E) as Hv. split; [exact Hv|apply c15_nonce_roundtrip; exact Hv].
  - destruct (nonce_valid t) eqn:E; [|discriminate]. intros H. injection H as <-. split; [exact E|apply c15_nonce_roundtrip; exact E].
Qed.

Theorem c15_bits_roundtrip b : bits_de (bits_ser b) = Some b.
Proof.
  unfold bits_de, bits_ser. induction b as [|x r IH]; [reflexivity|]. cbn [map bits_de_list].
  destruct x; cbn; rewrite IH; reflexivity.
Qed.
Theorem c15_bits_stable j b : bits_de j = Some b -> bits_ser b = j.
Proof.
  destruct j as [| | | | |l|]; cbn [bits_de]; try discriminate. revert b.
  induction l as [|x r IH]; intros b H; cbn [bits_de_list] in H; [injection H as <-; reflexivity|].
  destruct x as [| | z | | | |]; try discriminate.
  destruct (Z.eqb_spec z 0) as [->|N0].
  - destruct (bits_de_list r) as [b'|] eqn:E; [|discriminate]. injection H as <-. unfold bits_ser in *. cbn [map].
    specialize (IH b' eq_refl). injection IH as IH. rewrite IH. reflexivity.
  - destruct (Z.eqb_spec z 1) as [->|N1]; [|discriminate].
    destruct (bits_de_list r) as [b'|] eqn:E; [|discriminate]. injection H as <-. unfold bits_ser in *. cbn [map].
    specialize (IH b' eq_refl). injection IH as IH. rewrite IH. reflexivity.
Qed.

Theorem c15_ver_roundtrip v payload : ver_de (ver_ser v payload) = Some v.
Proof. unfold ver_de, ver_ser. cbn [jassoc]. rewrite String.eqb_refl. destruct v; reflexivity. Qed.
(* a request without "ver" is version 1 and is written back with "ver": "1.0" *)
Theorem c15_ver_absent m : jassoc "ver" m = None -> ver_de (JObj m) = Some false.
Proof. intros H. unfold ver_de. rewrite H. reflexivity. Qed.

Theorem c15_pvalue_roundtrip k p : pvalue_de (pvalue_ser k p) = Some (k, p).
Proof. destruct k; reflexivity. Qed.
Theorem c15_pvalue_stable j k p : pvalue_de j = Some (k, p) -> pvalue_ser k p = j.
Proof.
  destruct j as [| | | | |l|]; cbn [pvalue_de]; try discriminate.
  destruct l as [|[| | t | | | |] [|p' [|x r]]]; try discriminate.
  destruct (Z.eqb_spec t 1) as [->|N1]; [intros H; injection H as <- <-; reflexivity|].
  destruct (Z.eqb_spec t 2) as [->|N2]; [intros H; injection H as <- <-; reflexivity|].
  destruct (Z.eqb_spec t 3) as [->|N3]; [intros H; injection H as <- <-; reflexivity|discriminate].
Qed.

Section Multibase.
  Context {bytes : Type} (b64e : bytes -> string) (b64d : string -> option bytes).
  Context (b64_roundtrip : forall b, b64d (b64e b) = Some b).
  Theorem c15_multibase_roundtrip b : multibase_de b64d (multibase_ser b64e b) = Some b.
  Proof. unfold multibase_de, multibase_ser. cbn. apply b64_roundtrip. Qed.
  (* any other first character is refused, whatever follows, and so is the empty string *)
  Theorem c15_multibase_header a r : Ascii.eqb a "u" = false -> multibase_de b64d (String a r) = None.
  Proof. intros H. unfold multibase_de. rewrite H. reflexivity. Qed.
End Multibase.
