(* C14: legacy and W3C credential forms are interchangeable. *)
From Coq Require Import List String Ascii ZArith NArith Bool Lia.
From AV Require Import Model.Str Model.Encode Model.VTypes Model.Prover Model.Issuance Proofs.VMonad Proofs.I32 Proofs.EncodeProofs.
Import ListNotations.
Local Open Scope string_scope.
Local Open Scope list_scope.

(* one attribute: the W3C value built from a raw value encodes to the canonical encoding of that raw value *)
Lemma subject_value_encodes raw : exists raw', encode_value (subject_value raw) = ROk (raw', encode raw).
Proof.
  unfold subject_value, encode. destruct (parse_i32 raw) as [n|] eqn:E; cbn [encode_value].
  - eexists. reflexivity.
  - exists raw. unfold encode. rewrite E. reflexivity.
Qed.

(* legacy -> W3C -> legacy: names, order and every encoded value are preserved *)
Theorem c14_legacy_roundtrip vals : canonical vals = true ->
  exists vals', from_subject (to_subject vals) = ROk vals' /\ enc_of vals' = enc_of vals.
Proof.
  unfold from_subject, to_subject. induction vals as [|[n [raw e]] vals IH]; intros Hc; cbn [map mapR].
  - exists []. split; reflexivity.
  - cbn [canonical forallb] in Hc. apply andb_prop in Hc as [He Hc]. apply String.eqb_eq in He.
    destruct (IH Hc) as (vals' & Hf & Henc). destruct (subject_value_encodes raw) as (raw' & Hv).
    rewrite Hv. cbn [bind]. rewrite Hf. cbn [bind]. eexists. split; [reflexivity|].
    cbn [enc_of map]. f_equal; [rewrite He; reflexivity|exact Henc].
Qed.

(* and a second conversion gives the same subject again *)
Lemma subject_value_stable raw raw' e : encode_value (subject_value raw) = ROk (raw', e) -> subject_value raw' = subject_value raw.
Proof.
  unfold subject_value. destruct (parse_i32 raw) as [n|] eqn:E; cbn [encode_value]; intros H; injection H as <- _.
  - rewrite (parse_print_roundtrip n (parse_i32_range _ _ E)). reflexivity.
  - rewrite E. reflexivity.
Qed.
Theorem c14_subject_stable vals vals' : from_subject (to_subject vals) = ROk vals' -> to_subject vals' = to_subject vals.
Proof.
  unfold from_subject, to_subject. revert vals'. induction vals as [|[n [raw e]] vals IH]; intros vals' H; cbn [map mapR] in H.
  - injection H as <-. reflexivity.
  - apply bind_ok in H as ([n' [raw' e']] & H1 & H). apply bind_ok in H as (rest & H2 & H). injection H as <-.
    apply bind_ok in H1 as ([raw'' e''] & Hv & H1). injection H1 as <- <- <-.
    cbn [map]. rewrite (IH _ H2). f_equal. f_equal. exact (subject_value_stable _ _ _ Hv).
Qed.

(* W3C -> legacy: what the conversion produces is canonically encoded, so the theorems above
   apply to it: W3C -> legacy -> W3C -> legacy preserves every encoded value. A W3C number is an
   i32 in the code (CredentialAttributeValue::Number(i32)); serde refuses any other. *)
Definition subject_wf (subj : list (string * attr_value)) : bool :=
  forallb (fun '(_, v) => match v with VNum z => in_i32 z | _ => true end) subj.
Lemma encode_value_canonical v raw e : match v with VNum z => in_i32 z = true | _ => True end ->
  encode_value v = ROk (raw, e) -> e = encode raw.
Proof.
  destruct v as [s|z|b]; cbn [encode_value]; intros Hr H; [injection H as <- <-; reflexivity| |discriminate].
  injection H as <- <-. unfold encode. rewrite (parse_print_roundtrip z Hr). reflexivity.
Qed.
Theorem c14_from_subject_canonical subj vals : subject_wf subj = true -> from_subject subj = ROk vals -> canonical vals = true.
Proof.
  unfold from_subject, subject_wf. revert vals. induction subj as [|[n v] subj IH]; intros vals Hwf H; cbn [mapR] in H.
  - injection H as <-. reflexivity.
  - cbn [forallb] in Hwf. apply andb_prop in Hwf as [Hv Hwf].
    apply bind_ok in H as ([n' [raw e]] & H1 & H). apply bind_ok in H as (rest & H2 & H). injection H as <-.
    apply bind_ok in H1 as ([raw' e'] & Hev & H1). injection H1 as <- <- <-.
    unfold canonical. cbn [forallb]. fold (canonical rest). rewrite (IH _ Hwf H2). rewrite andb_true_r. apply String.eqb_eq.
    apply (encode_value_canonical v); [destruct v; [exact I|exact Hv|exact I]|exact Hev].
Qed.
Theorem c14_w3c_roundtrip subj vals : subject_wf subj = true -> from_subject subj = ROk vals ->
  exists vals', from_subject (to_subject vals) = ROk vals' /\ enc_of vals' = enc_of vals.
Proof. intros Hwf H. exact (c14_legacy_roundtrip vals (c14_from_subject_canonical _ _ Hwf H)). Qed.

(* a boolean (predicate marker) in the subject is not a credential value: refused *)
Theorem c14_bool_refused subj n b : In (n, VBool b) subj -> from_subject subj = RErr \/ from_subject subj = RPanic.
Proof.
  unfold from_subject. induction subj as [|[m v] subj IH]; intros Hin; [destruct Hin|]. cbn [mapR].
  destruct Hin as [Heq|Hin].
  - injection Heq as -> ->. left. reflexivity.
  - destruct (encode_value v) as [[raw e]| |]; cbn [bind]; [|left; reflexivity|right; reflexivity].
    destruct (IH Hin) as [-> | ->]; [left|right]; reflexivity.
Qed.

(* identifiers, signature material and revocation data are carried over unchanged, and anything
   that is not a well-formed credential of the source form is refused *)
Theorem c14_to_w3c_rest vals r subj r' : credential_to_w3c vals r = ROk (subj, r') -> r' = r /\ subj = to_subject vals /\ legacy_valid r = true.
Proof. unfold credential_to_w3c. intros H. apply bind_ok in H as (u & Hg & H). apply guard_ok in Hg. injection H as <- <-. auto. Qed.
Theorem c14_from_w3c_rest sh subj r vals r' : credential_from_w3c sh subj r = ROk (vals, r') ->
  r' = r /\ from_subject subj = ROk vals /\ w3c_valid sh = true.
Proof.
  unfold credential_from_w3c. intros H. apply bind_ok in H as (u & Hg & H). apply guard_ok in Hg.
  apply bind_ok in H as (v & Hv & H). injection H as <- <-. auto.
Qed.
Theorem c14_refused_legacy vals r : legacy_valid r = false -> credential_to_w3c vals r = RErr.
Proof. unfold credential_to_w3c. intros ->. reflexivity. Qed.
Theorem c14_refused_w3c sh subj r : w3c_valid sh = false -> credential_from_w3c sh subj r = RErr.
Proof. unfold credential_from_w3c. intros ->. reflexivity. Qed.

(* the whole round trip, legacy first *)
Theorem c14_roundtrip_legacy vals r sh : canonical vals = true -> legacy_valid r = true -> w3c_valid sh = true ->
  exists subj vals', credential_to_w3c vals r = ROk (subj, r) /\ credential_from_w3c sh subj r = ROk (vals', r) /\ enc_of vals' = enc_of vals.
Proof.
  intros Hc Hl Hw. destruct (c14_legacy_roundtrip vals Hc) as (vals' & Hf & He).
  exists (to_subject vals), vals'. unfold credential_to_w3c, credential_from_w3c. rewrite Hl, Hw. cbn [guard bind]. rewrite Hf. cbn [bind]. auto.
Qed.

Example c14_example :
  from_subject (to_subject [("name", ("Alex", encode "Alex")); ("age", ("028", "28")); ("zip", ("+7", "7")); ("big", ("2147483648", encode "2147483648"))])
  = ROk [("name", ("Alex", encode "Alex")); ("age", ("28", "28")); ("zip", ("7", "7")); ("big", ("2147483648", encode "2147483648"))].
Proof. vm_compute. reflexivity. Qed.
