(* C09: the status list is a faithful state machine; the accumulator is a function of the entries *)
From Coq Require Import List ZArith Bool Lia.
From AV Require Import Model.RevList.
Import ListNotations.
Open Scope Z_scope.

(* ---- lists indexed by Z ---- *)
Lemma nthZ_neg {A} (l : list A) i : i < 0 -> nthZ l i = None.
Proof.
  revert i. induction l as [|x r IH]; intros i H; cbn [nthZ]; auto.
  destruct (Z.eqb_spec i 0); [lia|]. destruct (Z.ltb_spec i 0); [reflexivity|lia].
Qed.
Lemma nthZ_range {A} (l : list A) i : (exists v, nthZ l i = Some v) <-> 0 <= i < lenZ l.
Proof.
  unfold lenZ. revert i. induction l as [|x r IH]; intros i; cbn [nthZ List.length].
  - split; [intros [v H]; discriminate|lia].
  - destruct (Z.eqb_spec i 0); [subst; split; [lia|eauto]|].
    destruct (Z.ltb_spec i 0); [split; [intros [v Hv]; discriminate|lia]|].
    rewrite IH. lia.
Qed.
Lemma nthZ_none {A} (l : list A) i : nthZ l i = None <-> ~ (0 <= i < lenZ l).
Proof.
  rewrite <- nthZ_range. destruct (nthZ l i); split; intros H; try congruence; try (intros [v Hv]; discriminate).
  exfalso. apply H. eauto.
Qed.
Lemma setZ_len {A} (l : list A) i v : lenZ (setZ l i v) = lenZ l.
Proof.
  unfold lenZ. revert i. induction l as [|x r IH]; intros i; cbn [setZ]; auto.
  destruct (i =? 0); [reflexivity|]. destruct (i <? 0); [reflexivity|]. cbn [List.length]. specialize (IH (i - 1)). lia.
Qed.
Lemma nthZ_setZ {A} (l : list A) i j v :
  nthZ (setZ l i v) j = match nthZ l j with Some x => Some (if j =? i then v else x) | None => None end.
Proof.
  revert i j. induction l as [|x r IH]; intros i j; cbn [setZ nthZ]; auto.
  destruct (Z.eqb_spec i 0) as [->|Hi].
  - cbn [nthZ]. destruct (Z.eqb_spec j 0) as [->|Hj]; [reflexivity|].
    destruct (Z.ltb_spec j 0); [reflexivity|]. destruct (nthZ r (j - 1)); reflexivity.
  - destruct (Z.ltb_spec i 0).
    + cbn [nthZ]. destruct (Z.eqb_spec j 0) as [->|Hj].
      * destruct (Z.eqb_spec 0 i); [lia|reflexivity].
      * destruct (Z.ltb_spec j 0); [reflexivity|]. destruct (nthZ r (j - 1)); auto.
        destruct (Z.eqb_spec j i); [lia|reflexivity].
    + cbn [nthZ]. destruct (Z.eqb_spec j 0) as [->|Hj].
      * destruct (Z.eqb_spec 0 i); [lia|reflexivity].
      * destruct (Z.ltb_spec j 0); [reflexivity|]. rewrite IH. destruct (nthZ r (j - 1)); auto.
        destruct (Z.eqb_spec (j - 1) (i - 1)), (Z.eqb_spec j i); try lia; reflexivity.
Qed.

Lemma set_all_len v l b : lenZ (set_all v l b) = lenZ b.
Proof. unfold set_all. revert b. induction l as [|i r IH]; intros b; cbn [fold_left]; auto. rewrite IH, setZ_len. reflexivity. Qed.
Lemma nthZ_set_all v l b j :
  nthZ (set_all v l b) j = match nthZ b j with Some x => Some (if memZ j l then v else x) | None => None end.
Proof.
  unfold set_all. revert b. induction l as [|i r IH]; intros b; cbn [fold_left memZ existsb].
  - destruct (nthZ b j); reflexivity.
  - rewrite IH, nthZ_setZ. destruct (nthZ b j); auto. fold (memZ j r).
    destruct (Z.eqb_spec j i); cbn [orb]; [|reflexivity]. destruct (memZ j r); reflexivity.
Qed.

(* ---- membership ---- *)
Lemma memZ_In x l : memZ x l = true <-> In x l.
Proof.
  unfold memZ. rewrite existsb_exists. split.
  - intros (y & Hy & E). apply Z.eqb_eq in E. subst. exact Hy.
  - intros H. exists x. split; auto. apply Z.eqb_refl.
Qed.
Lemma memZ_filter x p l : memZ x (filter p l) = memZ x l && p x.
Proof.
  destruct (memZ x (filter p l)) eqn:E.
  - apply memZ_In in E. apply filter_In in E. destruct E as [E1 E2]. apply memZ_In in E1. rewrite E1, E2. reflexivity.
  - destruct (memZ x l) eqn:E1; [|reflexivity]. destruct (p x) eqn:E2; [|reflexivity].
    apply memZ_In in E1. assert (In x (filter p l)) by (apply filter_In; auto). apply memZ_In in H. congruence.
Qed.
Lemma memZ_dedup x l : memZ x (dedup l) = memZ x l.
Proof.
  induction l as [|y r IH]; [reflexivity|]. cbn [dedup].
  destruct (memZ y r) eqn:E.
  - rewrite IH. cbn [memZ existsb]. fold (memZ x r). destruct (Z.eqb_spec x y); [subst; rewrite E; reflexivity|reflexivity].
  - cbn [memZ existsb]. fold (memZ x (dedup r)) (memZ x r). rewrite IH. reflexivity.
Qed.
Lemma NoDup_dedup l : NoDup (dedup l).
Proof.
  induction l as [|y r IH]; [constructor|]. cbn [dedup]. destruct (memZ y r) eqn:E; auto.
  constructor; auto. intros H. apply memZ_In in H. rewrite memZ_dedup in H. congruence.
Qed.

(* ---- sums of generators ---- *)
Lemma gsum_nodup (f : Z -> Z) (g : Z -> Z) l x :
  (forall j, f j = x <-> j = g x) -> NoDup l -> gsum f l x = if memZ (g x) l then 1 else 0.
Proof.
  intros Hf ND. induction ND as [|a r Ha ND IH]; [reflexivity|].
  cbn [gsum fold_right]. unfold gadd at 1. fold (gsum f r). rewrite IH. unfold e.
  cbn [memZ existsb]. fold (memZ (g x) r).
  destruct (Z.eqb_spec x (f a)) as [E|E].
  - assert (a = g x) by (apply Hf; auto). subst a. rewrite Z.eqb_refl. cbn [orb].
    destruct (memZ (g x) r) eqn:M; [apply memZ_In in M; contradiction|reflexivity].
  - destruct (Z.eqb_spec (g x) a) as [E'|E']; [exfalso; apply E; symmetry; apply Hf; auto|]. cbn [orb].
    destruct (memZ (g x) r); reflexivity.
Qed.
Lemma gsum_idx n l x : NoDup l -> gsum (fun i => n + 1 - i) l x = if memZ (n + 1 - x) l then 1 else 0.
Proof. apply gsum_nodup. intros j. lia. Qed.

Lemma rangeZ_In lo n x : In x (rangeZ lo n) <-> lo <= x < lo + Z.of_nat n.
Proof.
  revert lo. induction n as [|m IH]; intros lo; cbn [rangeZ].
  - cbn [In]. lia.
  - cbn [In]. rewrite IH. lia.
Qed.
Lemma rangeZ_NoDup lo n : NoDup (rangeZ lo n).
Proof.
  revert lo. induction n as [|m IH]; intros lo; cbn [rangeZ]; constructor; auto.
  rewrite rangeZ_In. lia.
Qed.
Lemma nthZ_repeat {A} (v : A) n i : nthZ (repeat v n) i = if (0 <=? i) && (i <? Z.of_nat n) then Some v else None.
Proof.
  revert i. induction n as [|m IH]; intros i; cbn [repeat nthZ].
  - destruct (Z.leb_spec 0 i), (Z.ltb_spec i (Z.of_nat 0)); cbn [andb]; try reflexivity; lia.
  - destruct (Z.eqb_spec i 0) as [->|Hi].
    + destruct (Z.ltb_spec 0 (Z.of_nat (S m))); [reflexivity|lia].
    + destruct (Z.ltb_spec i 0).
      * destruct (Z.leb_spec 0 i); [lia|reflexivity].
      * rewrite IH. destruct (Z.leb_spec 0 (i - 1)), (Z.leb_spec 0 i), (Z.ltb_spec (i - 1) (Z.of_nat m)), (Z.ltb_spec i (Z.of_nat (S m))); try reflexivity; lia.
Qed.
Lemma lenZ_repeat {A} (v : A) n : lenZ (repeat v n) = Z.of_nat n.
Proof. unfold lenZ. rewrite repeat_length. reflexivity. Qed.

(* ---- one update ---- *)
Lemma update_len s iss rev t : lenZ (bits (rsl_update s iss rev t)) = lenZ (bits s).
Proof. cbn [rsl_update bits]. rewrite !set_all_len. reflexivity. Qed.

Lemma update_bit s iss rev t i :
  nthZ (bits (rsl_update s iss rev t)) i = option_map (fun b => spec_bit b iss rev i) (nthZ (bits s) i).
Proof.
  cbn [rsl_update bits]. rewrite !nthZ_set_all. unfold eff_issued, eff_revoked.
  rewrite !memZ_filter, !memZ_dedup. destruct (nthZ (bits s) i) as [b|]; [|reflexivity].
  cbn [option_map]. unfold spec_bit. destruct b; cbn [negb andb]; rewrite ?andb_true_r, ?andb_false_r.
  - destruct (memZ i iss); reflexivity.
  - destruct (memZ i rev); reflexivity.
Qed.

Lemma update_ts s iss rev t : ts (rsl_update s iss rev t) = match t with Some x => Some x | None => ts s end.
Proof. reflexivity. Qed.

Lemma update_acc_inv s iss rev t (off : G) :
  (forall x, acc s x = acc_of_bits (bits s) x + off x) ->
  forall x, acc (rsl_update s iss rev t) x = acc_of_bits (bits (rsl_update s iss rev t)) x + off x.
Proof.
  intros H x. unfold acc_of_bits. rewrite update_len, update_bit.
  cbn [rsl_update acc]. unfold gsub, gadd. rewrite H. unfold acc_of_bits.
  rewrite !gsum_idx by (apply NoDup_filter, NoDup_dedup).
  unfold eff_issued, eff_revoked. rewrite !memZ_filter, !memZ_dedup.
  set (i := lenZ (bits s) + 1 - x). destruct (nthZ (bits s) i) as [b|]; cbn [option_map]; rewrite ?andb_false_r; [|lia].
  unfold spec_bit. destruct b; cbn [negb andb]; rewrite ?andb_true_r, ?andb_false_r.
  - destruct (memZ i iss); cbn [negb]; lia.
  - destruct (memZ i rev); lia.
Qed.

(* ---- histories ---- *)
Definition spec_step (i : Z) (b : bool) (u : upd) : bool :=
  match u with Upd iss rev _ => spec_bit b iss rev i | Touch _ => b end.
Definition spec_run (i : Z) (b : bool) (h : list upd) : bool := fold_left (spec_step i) h b.

Lemma step_bit s u i : nthZ (bits (rsl_step s u)) i = option_map (fun b => spec_step i b u) (nthZ (bits s) i).
Proof. destruct u; cbn [rsl_step spec_step]; [apply update_bit|]. cbn [rsl_touch bits]. destruct (nthZ (bits s) i); reflexivity. Qed.

Theorem bits_spec s h i :
  nthZ (bits (rsl_run s h)) i = option_map (fun b => spec_run i b h) (nthZ (bits s) i).
Proof.
  unfold rsl_run, spec_run. revert s. induction h as [|u r IH]; intros s; cbn [fold_left].
  - destruct (nthZ (bits s) i); reflexivity.
  - rewrite IH, step_bit. destruct (nthZ (bits s) i); reflexivity.
Qed.

Lemma step_acc_inv s u off :
  (forall x, acc s x = acc_of_bits (bits s) x + off x) ->
  forall x, acc (rsl_step s u) x = acc_of_bits (bits (rsl_step s u)) x + off x.
Proof. destruct u; cbn [rsl_step]; [apply update_acc_inv|]. cbn [rsl_touch acc bits]. auto. Qed.

Lemma create_acc_inv n bd t : 0 <= n ->
  forall x, acc (rsl_create n bd t) x = acc_of_bits (bits (rsl_create n bd t)) x + mode_offset n bd x.
Proof.
  intros Hn x. unfold acc_of_bits. cbn [rsl_create acc bits]. rewrite lenZ_repeat, nthZ_repeat, Z2Nat.id by lia.
  unfold mode_offset. destruct bd; cbn [negb].
  - rewrite gsum_idx by apply rangeZ_NoDup. unfold gsub, e.
    destruct (memZ (n + 1 - x) (rangeZ 1 (Z.to_nat n))) eqn:M.
    + apply memZ_In, rangeZ_In in M. rewrite Z2Nat.id in M by lia.
      destruct (Z.leb_spec 0 (n + 1 - x)), (Z.ltb_spec (n + 1 - x) n), (Z.eqb_spec x 1), (Z.eqb_spec x (n + 1)); cbn [andb]; lia.
    + assert (~ (1 <= n + 1 - x < 1 + n)).
      { intros H. assert (In (n + 1 - x) (rangeZ 1 (Z.to_nat n))) by (apply rangeZ_In; rewrite Z2Nat.id by lia; lia).
        apply memZ_In in H0. congruence. }
      destruct (Z.leb_spec 0 (n + 1 - x)), (Z.ltb_spec (n + 1 - x) n), (Z.eqb_spec x 1), (Z.eqb_spec x (n + 1)); cbn [andb]; lia.
  - unfold gzero. destruct ((0 <=? n + 1 - x) && (n + 1 - x <? n)); reflexivity.
Qed.

(* after ANY history the accumulator is the function [acc_of_bits] of the entries, plus a
   constant that depends only on the registry size and issuance mode *)
Theorem acc_invariant n bd t h : 0 <= n ->
  forall x, acc (rsl_run (rsl_create n bd t) h) x =
            acc_of_bits (bits (rsl_run (rsl_create n bd t) h)) x + mode_offset n bd x.
Proof.
  intros Hn. unfold rsl_run. generalize (create_acc_inv n bd t Hn). generalize (rsl_create n bd t).
  induction h as [|u r IH]; intros s Hs; cbn [fold_left]; auto. apply IH. apply step_acc_inv. exact Hs.
Qed.

(* hence: path, repetitions and no-op requests do not matter *)
Theorem acc_path_independent n bd t1 t2 h1 h2 : 0 <= n ->
  bits (rsl_run (rsl_create n bd t1) h1) = bits (rsl_run (rsl_create n bd t2) h2) ->
  forall x, acc (rsl_run (rsl_create n bd t1) h1) x = acc (rsl_run (rsl_create n bd t2) h2) x.
Proof. intros Hn Hb x. rewrite !acc_invariant by exact Hn. rewrite Hb. reflexivity. Qed.

(* timestamps change only when one is supplied *)
Theorem ts_spec s u :
  ts (rsl_step s u) = match u with Upd _ _ (Some t) => Some t | Upd _ _ None => ts s | Touch t => Some t end.
Proof. destruct u as [i r [t|]|t]; reflexivity. Qed.
Theorem touch_only_ts s t : bits (rsl_touch s t) = bits s /\ acc (rsl_touch s t) = acc s.
Proof. split; reflexivity. Qed.

(* a credential issued against a list embeds the accumulator the list has after the matching
   issue update *)
Theorem issue_embeds_acc s i a : issue_acc s i = Some a ->
  forall x, a x = acc (rsl_update s [i] [] None) x.
Proof.
  unfold issue_acc. destruct (nthZ (bits s) i) as [b|] eqn:E; [|discriminate].
  destruct ((i =? 0) || (lenZ (bits s) <? i)); [discriminate|]. intros H x. inversion H; subst a; clear H.
  cbn [rsl_update acc]. unfold eff_issued, eff_revoked. cbn [dedup memZ existsb filter]. rewrite E.
  unfold gsub, gadd. destruct b; cbn [gsum fold_right]; unfold gadd, gzero; lia.
Qed.
Theorem issue_refused_iff s i : issue_acc s i = None <-> ~ (1 <= i < lenZ (bits s)).
Proof.
  unfold issue_acc. destruct (nthZ (bits s) i) as [b|] eqn:E.
  - assert (0 <= i < lenZ (bits s)) by (apply nthZ_range; eauto).
    destruct (Z.eqb_spec i 0), (Z.ltb_spec (lenZ (bits s)) i); cbn [orb]; split; intros; try discriminate; try lia; reflexivity.
  - apply nthZ_none in E. split; [lia|reflexivity].
Qed.

(* non-vacuity: a by-default registry of size 5, revoke 2 and 3, re-issue 2 by two paths *)
Example rsl_example :
  let s0 := rsl_create 5 true (Some 10) in
  let a := rsl_run s0 [Upd [] [2; 3] (Some 20); Upd [2] [] None] in
  let b := rsl_run s0 [Upd [] [3; 3; 9] None; Touch 7; Upd [3] [2; 3] None; Upd [2; 2] [3] (Some 20)] in
  bits a = [false; false; false; true; false] /\ bits a = bits b /\ g_eqb 5 (acc a) (acc b) = true /\
  ts a = Some 20 /\ g_eqb 5 (acc a) (acc s0) = false.
Proof. vm_compute. repeat split; reflexivity. Qed.
