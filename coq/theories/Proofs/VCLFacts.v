(* What an accepting answer of the ideal CL functionality implies about each sub-proof. *)
From Coq Require Import List String ZArith NArith Bool Lia.
From AV Require Import Model.Str Model.VTypes Model.CL Proofs.VMonad.
Import ListNotations.
Open Scope string_scope.
Open Scope list_scope.
Open Scope Z_scope.

Lemma cl_verify_accept common subs a nonce : cl_verify common subs a nonce = Accept ->
  lenZ subs = ag_count a /\ ag_altered a = false /\ ag_nonce a = nonce /\
  subs_ok common (match subs with (sp, _, _, _) :: _ => src_used_link (sp_src sp) | [] => 0%N end) 0 subs = true /\
  (common = true -> ag_common a = true).
Proof.
  unfold cl_verify. destruct (Z.eqb_spec (lenZ subs) (ag_count a)) as [El|]; cbn [negb]; [|discriminate].
  match goal with |- context [existsb ?f subs] => destruct (existsb f subs) end; [discriminate|].
  match goal with |- (if ?c then _ else _) = _ -> _ => destruct c eqn:E end; [|discriminate]. intros _.
  apply andb_prop in E. destruct E as [E Hc]. apply andb_prop in E. destruct E as [E Hs].
  apply andb_prop in E. destruct E as [Ha Hn]. apply negb_true_iff in Ha. apply N.eqb_eq in Hn.
  repeat split; auto. intros ->. cbn [negb orb] in Hc. exact Hc.
Qed.

Lemma subs_ok_spec common link0 l : forall pos, subs_ok common link0 pos l = true ->
  forall k x, nthZ l k = Some x -> sub_ok common link0 (pos + k) x = true.
Proof.
  induction l as [|y r IH]; intros pos H k x Hk; [discriminate|].
  cbn [subs_ok] in H. apply andb_prop in H. destruct H as [H1 H2].
  destruct (Z.eqb_spec k 0) as [->|Hne].
  - cbn in Hk. inversion Hk; subst. replace (pos + 0) with pos by lia. exact H1.
  - destruct (Z.ltb_spec k 0); [rewrite nthZ_neg in Hk by lia; discriminate|].
    rewrite nthZ_cons_pos in Hk by lia. specialize (IH _ H2 _ _ Hk). replace (pos + k) with (pos + 1 + (k - 1)) by lia. exact IH.
Qed.

(* the conjuncts of sub_ok, named *)
Inductive sub_facts (common : bool) (link0 : N) (pos : Z) (sp : subproof) (key : N) (attrs : list string) (reg : option (N * N)) : Prop :=
| SubFacts
    (sf_unaltered : src_altered (sp_src sp) = false)
    (sf_key : key = src_key (sp_src sp))
    (sf_link : src_cred_link (sp_src sp) = src_used_link (sp_src sp))
    (sf_pos : src_pos (sp_src sp) = pos)
    (sf_attrs : set_eqb attrs (src_attrs (sp_src sp)) = true)
    (sf_revealed : forall k v, In (k, v) (sp_revealed sp) -> assoc k (src_values (sp_src sp)) = Some v)
    (sf_preds : forall p, In p (sp_preds sp) -> pred_holds (src_values (sp_src sp)) p = true)
    (sf_nrp : match sp_nrp sp, reg with
              | Some n, Some (rk, acc) => nrp_valid n = true /\ nrp_regkey n = rk /\ nrp_acc n = acc
              | Some _, None => False
              | None, _ => True end)
    (sf_common : common = true -> src_used_link (sp_src sp) = link0).

Lemma sub_ok_facts common link0 pos sp key attrs reg :
  sub_ok common link0 pos (sp, key, attrs, reg) = true -> sub_facts common link0 pos sp key attrs reg.
Proof.
  unfold sub_ok. intros H.
  repeat (apply andb_prop in H; let X := fresh "C" in destruct H as [H X]).
  apply negb_true_iff in H. apply N.eqb_eq in C6, C5. apply Z.eqb_eq in C4.
  constructor; auto.
  - intros k v Hin. rewrite forallb_forall in C2. specialize (C2 _ Hin). cbn in C2.
    destruct (assoc k _) as [e|]; [|discriminate]. apply String.eqb_eq in C2. subst. reflexivity.
  - intros p Hin. rewrite forallb_forall in C1. auto.
  - destruct (sp_nrp sp) as [n|]; [|exact I]. destruct reg as [[rk acc]|]; [|discriminate].
    apply andb_prop in C0. destruct C0 as [C0 Ca]. apply andb_prop in C0. destruct C0 as [Cv Ck].
    apply N.eqb_eq in Ca, Ck. auto.
  - intros ->. cbn [negb orb] in C. apply N.eqb_eq in C. exact C.
Qed.
