(* C03: every value an accepted presentation reveals is the value the issuer signed. *)
From Coq Require Import List String ZArith NArith Bool Lia.
From AV Require Import Model.Str Model.Encode Model.Query Model.VTypes Model.Interval Model.Eval Model.CL
  Model.VerifierLegacy Model.VerifierW3C Model.VCfg Model.VProps
  Proofs.VMonad Proofs.VLegacyProofs Proofs.VLegacyStruct Proofs.VCLFacts Proofs.VLegacyMaster Proofs.VW3CMaster
  Proofs.EncodeProofs.
Import ListNotations.
Open Scope string_scope.
Open Scope list_scope.
Open Scope Z_scope.

Lemma assoc_nodup {V} (m : list (string * V)) k v : nodup_keys m = true -> In (k, v) m -> assoc k m = Some v.
Proof.
  induction m as [|[a w] r IH]; [intros _ []|]. cbn [nodup_keys assoc]. intros H Hin.
  apply andb_prop in H. destruct H as [Hn Hr]. apply negb_true_iff in Hn.
  destruct Hin as [E|Hin].
  - inversion E; subst. rewrite String.eqb_refl. reflexivity.
  - destruct (String.eqb_spec a k) as [->|Hne]; [|auto].
    exfalso. assert (mem k (keys r) = true). { apply mem_In. unfold keys. apply in_map_iff. exists (k, v). auto. } congruence.
Qed.

Lemma verify_value_ok name sp enc u : verify_value name sp enc = ROk u ->
  exists k v, In (k, v) (sp_revealed sp) /\ cv name = cv k /\ normalize_encoded enc = v.
Proof.
  unfold verify_value. destruct (find _ (sp_revealed sp)) as [[k v]|] eqn:E; [|discriminate].
  intros H. apply guard_ok in H. apply find_some in E. destruct E as [Hin Heq]. cbn [fst] in Heq.
  exists k, v. repeat split; [exact Hin|apply String.eqb_eq; exact Heq|apply String.eqb_eq; exact H].
Qed.

Lemma signed_of_verified sp name enc u :
  sp_names_normalised sp = true ->
  (forall k v, In (k, v) (sp_revealed sp) -> assoc k (src_values (sp_src sp)) = Some v) ->
  verify_value name sp enc = ROk u -> signed_value sp name = Some (normalize_encoded enc).
Proof.
  intros Hn Hs Hv. apply verify_value_ok in Hv. destruct Hv as (k & v & Hin & Hcv & Hnv).
  unfold signed_value. unfold sp_names_normalised in Hn. rewrite forallb_forall in Hn.
  specialize (Hn _ Hin). cbn [fst] in Hn. apply String.eqb_eq in Hn. rewrite Hcv, Hn, (Hs _ _ Hin), Hnv. reflexivity.
Qed.

Section C03.
  Context (cfg : vcfg).

  Lemma in_combine_snd {A B} (a : list A) (b : list B) y : List.length a = List.length b -> In y b -> exists x, In (x, y) (combine a b).
  Proof.
    revert b. induction a as [|p a IH]; intros [|q b] Hl Hin; cbn in *; try congruence; try contradiction.
    destruct Hin as [<-|Hin]; [eauto|]. destruct (IH b) as [x Hx]; [congruence|auto|]. eauto.
  Qed.

  Theorem c03_legacy R P cx : f_group_keys cfg = true -> case_wf (CLegacy R P cx) = true ->
    verify_legacy cfg R P cx = Accept -> ok_C03 (CLegacy R P cx) Accept = true.
  Proof.
    intros Hgk Hwf H. pose proof (verify_legacy_accept cfg _ _ _ H) as Hacc.
    destruct Hacc as [aids uids pids regmap subs _ _ Hvals _ _ _ _ _].
    apply (accepted_pairs cfg) in H. destruct H as (Hlen & _ & _ & _ & _ & Hpairs).
    unfold case_wf in Hwf. cbn [case_subs] in Hwf. apply andb_prop in Hwf. destruct Hwf as [Hwf Hgroups].
    rewrite forallb_forall in Hwf. rewrite forallb_forall in Hgroups.
    assert (Hsp : forall i sp, nthZ (p_proofs P) i = Some sp ->
              sp_names_normalised sp = true /\ forall k v, In (k, v) (sp_revealed sp) -> assoc k (src_values (sp_src sp)) = Some v).
    { intros i sp Hi. assert (0 <= i < lenZ (p_proofs P)) by (apply nthZ_some_iff; eauto).
      assert (Hid : exists id, nthZ (p_ids P) i = Some id) by (apply nthZ_some_iff; lia). destruct Hid as [id Hid].
      destruct (Hpairs _ _ _ Hid Hi) as [sc cd reg rm x _ _ _ _ _ Hcl]. destruct Hcl as [_ _ _ _ _ Hrev _ _ _]. split; [|exact Hrev].
      destruct (in_combine_snd (p_ids P) (p_proofs P) sp) as [id' Hc]; [unfold lenZ in Hlen; lia|eapply nthZ_In; eauto|].
      exact (Hwf _ Hc). }
    unfold check_revealed_values in Hvals. apply bind_ok in Hvals. destruct Hvals as (u1 & Hv1 & Hv2).
    unfold ok_C03. cbn [is_accept negb orb]. apply andb_true_intro. split.
    - apply forallb_forall. intros [r [[i raw] enc]] Hin.
      destruct (iter_ok _ _ _ Hv1 _ Hin) as (u' & Hx). cbn beta iota in Hx.
      apply bind_ok in Hx. destruct Hx as (ai & Ha & Hx). apply of_opt_ok in Ha.
      apply bind_ok in Hx. destruct Hx as (name & Hn & Hx). apply of_opt_ok in Hn.
      apply bind_ok in Hx. destruct Hx as (sp & Hs & Hx). apply of_opt_ok in Hs.
      rewrite Hs, Ha, Hn. destruct (Hsp _ _ Hs) as [Hnorm Hrev].
      rewrite (signed_of_verified _ _ _ _ Hnorm Hrev Hx). apply String.eqb_refl.
    - apply forallb_forall. intros [r [i vals]] Hin.
      destruct (iter_ok _ _ _ Hv2 _ Hin) as (u' & Hx). cbn beta iota in Hx.
      apply bind_ok in Hx. destruct Hx as (sp & Hs & Hx). apply of_opt_ok in Hs.
      apply bind_ok in Hx. destruct Hx as (ai & Ha & Hx).
      apply bind_ok in Hx. destruct Hx as (ns & Hns & Hx). apply of_opt_ok in Hns.
      apply bind_ok in Hx. destruct Hx as (u2 & Hl & Hx). apply guard_ok in Hl. rewrite Hgk in Hl.
      apply andb_prop in Hl. destruct Hl as [_ Hkeys]. rewrite forallb_forall in Hkeys.
      rewrite Hs. destruct (Hsp _ _ Hs) as [Hnorm Hrev].
      pose proof (Hgroups _ Hin) as Hnd. cbn [snd] in Hnd.
      apply forallb_forall. intros [n [raw enc]] Hv.
      pose proof (Hkeys _ Hv) as Hmem. cbn [fst] in Hmem. apply mem_In in Hmem.
      destruct (iter_ok _ _ _ Hx _ Hmem) as (u3 & Hy). cbn beta in Hy.
      apply bind_ok in Hy. destruct Hy as (v' & Hv' & Hy). apply of_opt_ok in Hv'.
      rewrite (assoc_nodup _ _ _ Hnd Hv) in Hv'. inversion Hv'; subst v'. cbn [snd] in Hy.
      rewrite (signed_of_verified _ _ _ _ Hnorm Hrev Hy). apply String.eqb_refl.
  Qed.

  (* the final issuer / verification-method loop of check_request_data *)
  Lemma check_request_data_issuer R cx cs needs : check_request_data cfg R cx cs = ROk needs ->
    forall c id sp, In (c, (id, sp)) cs ->
      exists cd, assoc (id_creddef id) (cx_creddefs cx) = Some cd /\ cd_issuer cd = wc_issuer c /\ wc_method c = id_creddef id.
  Proof.
    unfold check_request_data. intros H c id sp Hin.
    apply bind_ok in H. destruct H as (na & _ & H). apply bind_ok in H. destruct H as (np & _ & H).
    apply bind_ok in H. destruct H as (u & Hit & _).
    destruct (iter_ok _ _ _ Hit _ Hin) as (u' & Hx). cbn beta iota in Hx.
    apply bind_ok in Hx. destruct Hx as (cd & Hcd & Hx). apply of_opt_ok in Hcd.
    apply bind_ok in Hx. destruct Hx as (u1 & Hi & Hm). apply guard_ok in Hi. apply guard_ok in Hm.
    apply String.eqb_eq in Hi. apply String.eqb_eq in Hm. eauto.
  Qed.

  Theorem c03_w3c R P cx : f_w3c_strict_subject cfg = true -> case_wf (CW3C R P cx) = true ->
    verify_w3c cfg R P cx = Accept -> ok_C03 (CW3C R P cx) Accept = true.
  Proof.
    intros Hstrict Hwf H. apply (verify_w3c_accept cfg) in H.
    destruct H as [cs a needs _ Hcreds Hsubs Hpv Hdata Hsubject _ _ _ _ Hpairs].
    unfold case_wf in Hwf. rewrite Hsubs in Hwf. rewrite andb_true_r in Hwf. rewrite forallb_forall in Hwf.
    unfold ok_C03. cbn [is_accept negb orb]. apply forallb_forall. intros w Hw.
    rewrite <- Hcreds in Hw. apply in_map_iff in Hw. destruct Hw as ([c [id sp]] & Ec & Hin). cbn [fst] in Ec. subst c.
    rewrite Forall_forall in Hpv. pose proof (Hpv _ Hin) as Hpvw. cbn [fst snd] in Hpvw. rewrite Hpvw.
    destruct (In_nthZ _ _ Hin) as [k Hk].
    destruct (Hpairs _ _ _ _ Hk) as [sc cd reg regmap _ Hcd _ _ _ Hcl]. destruct Hcl as [_ Hkey _ _ _ Hrev _ _ _].
    assert (Hnorm : sp_names_normalised sp = true).
    { apply (Hwf (id, sp)). apply in_map_iff. exists (w, (id, sp)). auto. }
    apply andb_true_intro. split.
    - pose proof (Hsubject Hstrict _ _ _ Hin) as Hm. unfold subject_matches in Hm. apply andb_prop in Hm. destruct Hm as [Hm _].
      rewrite forallb_forall in Hm. apply forallb_forall. intros [key v] Hkv. specialize (Hm _ Hkv). cbn beta iota in Hm.
      destruct v as [s0|z|b]; [| |reflexivity].
      + destruct (verify_value key sp _) as [u| |] eqn:Ev; try discriminate.
        rewrite (signed_of_verified _ _ _ _ Hnorm Hrev Ev), normalize_encode. apply String.eqb_refl.
      + destruct (verify_value key sp _) as [u| |] eqn:Ev; try discriminate.
        rewrite (signed_of_verified _ _ _ _ Hnorm Hrev Ev), normalize_encode. apply String.eqb_refl.
    - destruct (check_request_data_issuer _ _ _ _ Hdata _ _ _ Hin) as (cd' & Hcd' & Hiss & Hmeth).
      rewrite Hcd in Hcd'. inversion Hcd'; subst cd'. rewrite Hcd, Hkey, Hiss, Hmeth, N.eqb_refl, !String.eqb_refl. reflexivity.
  Qed.

  Theorem c03_model c : f_group_keys cfg = true -> f_w3c_strict_subject cfg = true -> case_wf c = true ->
    ok_C03 c (run_model cfg c) = true.
  Proof.
    intros H1 H2 Hwf. destruct c as [R P cx|R P cx]; cbn [run_model].
    - destruct (verify_legacy cfg R P cx) eqn:E; try reflexivity. apply c03_legacy; auto.
    - destruct (verify_w3c cfg R P cx) eqn:E; try reflexivity. apply c03_w3c; auto.
  Qed.
End C03.
