From Coq Require Import List String Ascii ZArith NArith Bool Lia.
From AV Require Import Model.Str Model.Encode Model.Query Model.VTypes Model.Interval Model.Eval Model.CL Model.VerifierLegacy Model.VerifierW3C
  Model.VCfg Model.Prover Model.PProps Proofs.VMonad Proofs.C07Proofs Proofs.C04Proofs Proofs.IntervalProofs.
From AV Require Import Proofs.C04F1 Proofs.C04F2 Proofs.C04F3 Proofs.C04F4 Proofs.C04F5 Proofs.C04F6 Proofs.C04F7 Proofs.C04F8.
From AV Require Import Proofs.C04G1 Proofs.C04G2.
Import ListNotations.
Local Open Scope string_scope.
Local Open Scope list_scope.
Local Open Scope Z_scope.

Definition pick_iv (local global : option interval) : option interval := match local with Some l => Some l | None => global end.

Section Rev2.
  Context (R : request) (cx : ctx) (link : N) (ps : list present) (self : list (string * string)) (P : presentation).
  Notation E := (nonempty ps).
  Context (Hcreate : create_legacy pcfg_fixed R cx link ps self = ROk P).
  Context (Hcov : coverage (mk_case R cx link ps self) = true).
  Context (Hwf_a : forall r ai, In (r, ai) (rq_attrs R) -> wf_opt (ai_nr ai)).
  Context (Hwf_p : forall r pi, In (r, pi) (rq_preds R) -> wf_opt (pi_nr pi)).

  (* the verifier's list of parts for sub-proof k *)
  Lemma verifier_parts k p lais lpis : at_idx E 0 k p ->
    Forall2 (fun r ai => In (r, ai) (rq_attrs R)) (served_attr_refs cfg_fixed P k) lais ->
    Forall2 (fun r pi => In (r, pi) (rq_preds R)) (served_pred_refs P k) lpis ->
    forall o, In o (map ai_nr lais ++ map pi_nr lpis) <-> In o (entry_infos R p).
  Proof.
    intros Hat Fa Fp o. pose proof (at_idx_in _ _ _ Hat) as Hp.
    rewrite (entry_infos_char R cx link ps self Hcov p o Hp), in_app_iff, !in_map_iff. split.
    - intros [(ai & <- & Hai)|(pi & <- & Hpi)].
      + destruct (Forall2_in_r _ _ _ _ Fa Hai) as (r & Hr & Hin). apply (served_attrs_char R cx link ps self P Hcreate Hcov k p Hat) in Hr as [b Hb]. left. eauto 7.
      + destruct (Forall2_in_r _ _ _ _ Fp Hpi) as (r & Hr & Hin). apply (served_preds_char R cx link ps self P Hcreate k p Hat) in Hr. right. eauto 6.
    - intros [(r & b & ai & Hb & Hin & ->)|(r & pi & Hr & Hin & ->)].
      + assert (Hs : In r (served_attr_refs cfg_fixed P k)) by (apply (served_attrs_char R cx link ps self P Hcreate Hcov k p Hat); eauto).
        destruct (Forall2_in_l _ _ _ _ Fa Hs) as (ai' & Hai' & Hin'). left. exists ai'. split; [|exact Hai'].
        pose proof (assoc_in_nodup r _ ai (cov_nodup_attrs R cx link ps self Hcov) Hin) as A1.
        pose proof (assoc_in_nodup r _ ai' (cov_nodup_attrs R cx link ps self Hcov) Hin') as A2. congruence.
      + assert (Hs : In r (served_pred_refs P k)) by (apply (served_preds_char R cx link ps self P Hcreate k p Hat); exact Hr).
        destruct (Forall2_in_l _ _ _ _ Fp Hs) as (pi' & Hpi' & Hin'). right. exists pi'. split; [|exact Hpi'].
        pose proof (assoc_in_nodup r _ pi (cov_nodup_preds R cx link ps self Hcov) Hin) as A1.
        pose proof (assoc_in_nodup r _ pi' (cov_nodup_preds R cx link ps self Hcov) Hin') as A2. congruence.
  Qed.

  (* the prover's list of parts for entry p *)
  Lemma prover_parts p ais uis pis : In p E ->
    Forall2 (fun r ai => assoc r (rq_attrs R) = Some ai) (map fst (List.filter snd (pr_attrs p))) ais ->
    Forall2 (fun r ai => assoc r (rq_attrs R) = Some ai) (map fst (List.filter (fun x => negb (snd x)) (pr_attrs p))) uis ->
    Forall2 (fun r pi => assoc r (rq_preds R) = Some pi) (pr_preds p) pis ->
    forall o, In o (map ai_nr ais ++ map ai_nr uis ++ map pi_nr pis) <-> In o (entry_infos R p).
  Proof.
    intros Hp Fa Fu Fp o. rewrite (entry_infos_char R cx link ps self Hcov p o Hp), !in_app_iff, !in_map_iff. split.
    - intros [(ai & <- & Hai)|[(ai & <- & Hai)|(pi & <- & Hpi)]].
      + destruct (Forall2_in_r _ _ _ _ Fa Hai) as (r & Hr & Has). apply in_map_iff in Hr as ([r' b] & <- & Hf). apply filter_In in Hf as [Hb _].
        left. exists r', b, ai. split; [exact Hb|]. split; [exact (assoc_In _ _ _ Has)|reflexivity].
      + destruct (Forall2_in_r _ _ _ _ Fu Hai) as (r & Hr & Has). apply in_map_iff in Hr as ([r' b] & <- & Hf). apply filter_In in Hf as [Hb _].
        left. exists r', b, ai. split; [exact Hb|]. split; [exact (assoc_In _ _ _ Has)|reflexivity].
      + destruct (Forall2_in_r _ _ _ _ Fp Hpi) as (r & Hr & Has). right. exists r, pi. split; [exact Hr|]. split; [exact (assoc_In _ _ _ Has)|reflexivity].
    - intros [(r & b & ai & Hb & Hin & ->)|(r & pi & Hr & Hin & ->)].
      + pose proof (assoc_in_nodup r _ ai (cov_nodup_attrs R cx link ps self Hcov) Hin) as A1. destruct b.
        * assert (Hs : In r (map fst (List.filter snd (pr_attrs p)))) by (apply in_map_iff; exists (r, true); split; [reflexivity|apply filter_In; auto]).
          destruct (Forall2_in_l _ _ _ _ Fa Hs) as (ai' & Hai' & Has). left. exists ai'. split; [congruence|exact Hai'].
        * assert (Hs : In r (map fst (List.filter (fun x => negb (snd x)) (pr_attrs p)))) by (apply in_map_iff; exists (r, false); split; [reflexivity|apply filter_In; auto]).
          destruct (Forall2_in_l _ _ _ _ Fu Hs) as (ai' & Hai' & Has). right. left. exists ai'. split; [congruence|exact Hai'].
      + pose proof (assoc_in_nodup r _ pi (cov_nodup_preds R cx link ps self Hcov) Hin) as A1.
        destruct (Forall2_in_l _ _ _ _ Fp Hr) as (pi' & Hpi' & Has). right. right. exists pi'. split; [congruence|exact Hpi'].
  Qed.

  Lemma entry_infos_wf p o : In p E -> In o (entry_infos R p) -> wf_opt o.
  Proof.
    intros Hp Ho. apply (entry_infos_char R cx link ps self Hcov p o Hp) in Ho as [(r & b & ai & _ & Hin & ->)|(r & pi & _ & Hin & ->)]; [exact (Hwf_a r ai Hin)|exact (Hwf_p r pi Hin)].
  Qed.

  (* any list with the same members as the entry's parts selects an interval of the same presence and the same validity *)
  Lemma same_interval p l t : In p E -> u64 t -> (forall o, In o l <-> In o (entry_infos R p)) ->
    match pick_iv (fold_left merge_opt l None) (rq_nr R), entry_interval R p with
    | None, None => True
    | Some i1, Some i2 => is_valid i1 t = is_valid i2 t
    | _, _ => False end.
  Proof.
    intros Hp Ht Hs. unfold entry_interval, pick_iv.
    assert (W : forall o, In o l -> wf_opt o) by (intros o Ho; apply (entry_infos_wf p o Hp); apply Hs; exact Ho).
    pose proof (fold_opt_same_set t l (entry_infos R p) Ht Hs W) as H.
    destruct (fold_left merge_opt l None) as [i1|], (fold_left merge_opt (entry_infos R p) None) as [i2|]; try exact H; try (destruct H).
    destruct (rq_nr R); [reflexivity|exact I].
  Qed.
End Rev2.
