(* The credential searches of the W3C verifier model never miss an eligible credential (the converse of
   VW3CSearch.v), and the interval stage of one candidate passes exactly when the referent's demand is met. *)
From Coq Require Import List String ZArith NArith Bool Lia.
From AV Require Import Model.Str Model.Encode Model.Query Model.VTypes Model.Interval Model.Eval Model.CL
  Model.VerifierLegacy Model.VerifierW3C Model.VProps Proofs.VMonad.
Import ListNotations.
Local Open Scope string_scope.
Local Open Scope list_scope.
Local Open Scope Z_scope.

Section Complete.
  Context (cfg : vcfg).
  Notation wcase := (w3c_cred * (identifier * subproof))%type.

  (* what makes an entry of the presentation eligible for a referent; Some b: eligible, b = it must carry a
     non-revocation proof *)
  Definition rev_candidate (R : request) (cx : ctx) (name : string) (q : option query) (nr : option interval) (w : wcase) : option bool :=
    let '(c, (id, sp)) := w in
    match get_attribute c name with
    | Some (k, v) => if is_ok (verify_value k sp (encode (value_to_string v))) then cred_conditions cfg R cx c id q nr else None
    | None => None
    end.
  Definition unrev_candidate (R : request) (cx : ctx) (name : string) (q : option query) (nr : option interval) (w : wcase) : option bool :=
    let '(c, (id, sp)) := w in
    match assoc (id_schema id) (cx_schemas cx) with
    | Some sc => if existsb (fun a => String.eqb (cv a) (cv name)) (sc_attrs sc) then cred_conditions cfg R cx c id q nr else None
    | None => None
    end.
  Definition pred_candidate (R : request) (cx : ctx) (pi : pred_info) (w : wcase) : option bool :=
    let '(c, (id, sp)) := w in
    match get_predicate c (pi_name pi) with
    | Some k => if existsb (fun p => pred_eqb p ((if f_w3c_pred_cv cfg then cv k else k), pi_type pi, pi_value pi)) (sp_preds sp)
                then cred_conditions cfg R cx c id (pi_restr pi) (pi_nr pi) else None
    | None => None
    end.
  Definition usable_w (strict : bool) (w : wcase) (b : bool) : bool := usable strict b (snd (snd w)).

  Lemma find_revealed_none strict R cx name q nr cs : forall i,
    find_revealed cfg strict R cx name q nr i cs = None <->
    (forall w, In w cs -> match rev_candidate R cx name q nr w with Some b => usable_w strict w b = false | None => True end).
  Proof.
    induction cs as [|[c [id sp]] r IH]; intros i; cbn [find_revealed].
    - split; [intros _ w []|reflexivity].
    - split.
      + intros H w [<-|Hin].
        * unfold rev_candidate. destruct (get_attribute c name) as [[k v]|]; [|exact I].
          destruct (is_ok (verify_value k sp (encode (value_to_string v)))); [|exact I].
          destruct (cred_conditions cfg R cx c id q nr) as [b|]; [|exact I].
          unfold usable_w. cbn [snd]. destruct (usable strict b sp); [discriminate|reflexivity].
        * revert w Hin. apply (IH (i + 1)).
          destruct (get_attribute c name) as [[k v]|]; [|exact H].
          destruct (is_ok (verify_value k sp (encode (value_to_string v)))); [|exact H].
          destruct (cred_conditions cfg R cx c id q nr) as [b|]; [|exact H].
          destruct (usable strict b sp); [discriminate|exact H].
      + intros H. pose proof (H _ (or_introl eq_refl)) as H0. unfold rev_candidate in H0.
        assert (Hr : find_revealed cfg strict R cx name q nr (i + 1) r = None) by (apply IH; intros w Hw; apply H; right; exact Hw).
        destruct (get_attribute c name) as [[k v]|]; [|exact Hr].
        destruct (is_ok (verify_value k sp (encode (value_to_string v)))); [|exact Hr].
        destruct (cred_conditions cfg R cx c id q nr) as [b|]; [|exact Hr].
        unfold usable_w in H0. cbn [snd] in H0. rewrite H0. exact Hr.
  Qed.

  Definition schemas_present (cx : ctx) (cs : list wcase) : Prop :=
    forall w, In w cs -> assoc (id_schema (fst (snd w))) (cx_schemas cx) <> None.

  Lemma find_unrevealed_total strict R cx name q nr cs : schemas_present cx cs -> forall i,
    exists u, find_unrevealed cfg strict R cx name q nr i cs = ROk u.
  Proof.
    induction cs as [|[c [id sp]] r IH]; intros Hs i; cbn [find_unrevealed]; [eauto|].
    assert (Hr : schemas_present cx r) by (intros w Hw; apply Hs; right; exact Hw).
    pose proof (Hs _ (or_introl eq_refl)) as H0. cbn [fst snd] in H0.
    destruct (assoc (id_schema id) (cx_schemas cx)) as [sc|]; [|congruence]. cbn [of_opt bind].
    destruct (existsb _ (sc_attrs sc)); [|apply IH; exact Hr].
    destruct (cred_conditions cfg R cx c id q nr) as [b|]; [|apply IH; exact Hr].
    destruct (usable strict b sp); [eauto|apply IH; exact Hr].
  Qed.
  Lemma find_unrevealed_none strict R cx name q nr cs : schemas_present cx cs -> forall i,
    find_unrevealed cfg strict R cx name q nr i cs = ROk None <->
    (forall w, In w cs -> match unrev_candidate R cx name q nr w with Some b => usable_w strict w b = false | None => True end).
  Proof.
    induction cs as [|[c [id sp]] r IH]; intros Hs i; cbn [find_unrevealed].
    - split; [intros _ w []|reflexivity].
    - assert (Hr : schemas_present cx r) by (intros w Hw; apply Hs; right; exact Hw).
      pose proof (Hs _ (or_introl eq_refl)) as H0. cbn [fst snd] in H0.
      destruct (assoc (id_schema id) (cx_schemas cx)) as [sc|] eqn:Esc; [|congruence]. cbn [of_opt bind].
      split.
      + intros H w [<-|Hin].
        * unfold unrev_candidate. rewrite Esc.
          destruct (existsb _ (sc_attrs sc)); [|exact I].
          destruct (cred_conditions cfg R cx c id q nr) as [b|]; [|exact I].
          unfold usable_w. cbn [snd]. destruct (usable strict b sp); [discriminate|reflexivity].
        * revert w Hin. apply (IH Hr (i + 1)).
          destruct (existsb _ (sc_attrs sc)); [|exact H].
          destruct (cred_conditions cfg R cx c id q nr) as [b|]; [|exact H].
          destruct (usable strict b sp); [discriminate|exact H].
      + intros H. pose proof (H _ (or_introl eq_refl)) as H1. unfold unrev_candidate in H1. rewrite Esc in H1.
        assert (Hrr : find_unrevealed cfg strict R cx name q nr (i + 1) r = ROk None) by (apply (IH Hr); intros w Hw; apply H; right; exact Hw).
        destruct (existsb _ (sc_attrs sc)); [|exact Hrr].
        destruct (cred_conditions cfg R cx c id q nr) as [b|]; [|exact Hrr].
        unfold usable_w in H1. cbn [snd] in H1. rewrite H1. exact Hrr.
  Qed.

  Lemma find_predicate_none strict R cx pi cs : forall i,
    find_predicate cfg strict R cx pi i cs = None <->
    (forall w, In w cs -> match pred_candidate R cx pi w with Some b => usable_w strict w b = false | None => True end).
  Proof.
    induction cs as [|[c [id sp]] r IH]; intros i; cbn [find_predicate].
    - split; [intros _ w []|reflexivity].
    - split.
      + intros H w [<-|Hin].
        * unfold pred_candidate. destruct (get_predicate c (pi_name pi)) as [k|]; [|exact I].
          destruct (existsb _ (sp_preds sp)); [|exact I].
          destruct (cred_conditions cfg R cx c id (pi_restr pi) (pi_nr pi)) as [b|]; [|exact I].
          unfold usable_w. cbn [snd]. destruct (usable strict b sp); [discriminate|reflexivity].
        * revert w Hin. apply (IH (i + 1)).
          destruct (get_predicate c (pi_name pi)) as [k|]; [|exact H].
          destruct (existsb _ (sp_preds sp)); [|exact H].
          destruct (cred_conditions cfg R cx c id (pi_restr pi) (pi_nr pi)) as [b|]; [|exact H].
          destruct (usable strict b sp); [discriminate|exact H].
      + intros H. pose proof (H _ (or_introl eq_refl)) as H0. unfold pred_candidate in H0.
        assert (Hr : find_predicate cfg strict R cx pi (i + 1) r = None) by (apply IH; intros w Hw; apply H; right; exact Hw).
        destruct (get_predicate c (pi_name pi)) as [k|]; [|exact Hr].
        destruct (existsb _ (sp_preds sp)); [|exact Hr].
        destruct (cred_conditions cfg R cx c id (pi_restr pi) (pi_nr pi)) as [b|]; [|exact Hr].
        unfold usable_w in H0. cbn [snd] in H0. rewrite H0. exact Hr.
  Qed.

  Lemma usable_false w b : usable_w false w b = true.
  Proof. reflexivity. Qed.

  (* an attribute referent: some entry is eligible (shows the value the sub-proof reveals, or its schema holds the
     attribute) and meets restriction and interval => the search succeeds, whichever pass finds it *)
  Theorem check_attribute_complete R cx cs name q nr :
    schemas_present cx cs ->
    (exists w b, In w cs /\ (rev_candidate R cx name q nr w = Some b \/ unrev_candidate R cx name q nr w = Some b)) ->
    exists l, check_attribute cfg R cx cs name q nr = ROk l.
  Proof.
    intros Hs (w & b & Hin & Hc). unfold check_attribute.
    assert (Hlast : exists l, match find_revealed cfg false R cx name q nr 0 cs with
                              | Some l => ROk l
                              | None => bind (find_unrevealed cfg false R cx name q nr 0 cs) of_opt end = ROk l).
    { destruct (find_revealed cfg false R cx name q nr 0 cs) as [l|] eqn:E1; [eauto|].
      destruct (find_unrevealed_total false R cx name q nr cs Hs 0) as [u Hu]. rewrite Hu. cbn [bind].
      destruct u as [l|]; [cbn; eauto|]. exfalso.
      pose proof (proj1 (find_revealed_none false R cx name q nr cs 0) E1 w Hin) as H1.
      pose proof (proj1 (find_unrevealed_none false R cx name q nr cs Hs 0) Hu w Hin) as H2.
      destruct Hc as [Hc|Hc]; [rewrite Hc in H1; discriminate|rewrite Hc in H2; discriminate]. }
    destruct (f_w3c_nrp_search cfg).
    - destruct (find_revealed cfg true R cx name q nr 0 cs) as [l|]; [eauto|].
      destruct (find_unrevealed_total true R cx name q nr cs Hs 0) as [u Hu]. rewrite Hu. cbn [bind].
      destruct u as [l|]; [eauto|]. exact Hlast.
    - destruct (find_revealed cfg false R cx name q nr 0 cs) as [l|] eqn:E1; [eauto|].
      destruct (find_unrevealed_total false R cx name q nr cs Hs 0) as [u Hu]. rewrite Hu in *. cbn [bind] in *.
      destruct u as [l|]; [eauto|]. destruct Hlast as [l Hl]. discriminate.
  Qed.
  Theorem check_predicate_complete R cx cs pi :
    (exists w b, In w cs /\ pred_candidate R cx pi w = Some b) ->
    exists l, check_predicate cfg R cx pi cs = ROk l.
  Proof.
    intros (w & b & Hin & Hc). unfold check_predicate.
    assert (Hlast : exists l, find_predicate cfg false R cx pi 0 cs = Some l).
    { destruct (find_predicate cfg false R cx pi 0 cs) as [l|] eqn:E; [eauto|]. exfalso.
      pose proof (proj1 (find_predicate_none false R cx pi cs 0) E w Hin) as H1. rewrite Hc in H1. discriminate. }
    destruct Hlast as [l Hl].
    destruct (f_w3c_nrp_search cfg).
    - destruct (find_predicate cfg true R cx pi 0 cs) as [l1|]; [eauto|]. rewrite Hl. cbn. eauto.
    - rewrite Hl. eauto.
  Qed.
  (* and conversely a search that fails had no eligible entry *)
  Theorem check_predicate_fails_only_without_candidate R cx cs pi :
    (forall l, check_predicate cfg R cx pi cs <> ROk l) -> forall w, In w cs -> pred_candidate R cx pi w = None.
  Proof.
    intros H w Hin. destruct (pred_candidate R cx pi w) as [b|] eqn:E; [|reflexivity].
    destruct (check_predicate_complete R cx cs pi) as [l Hl]; [eauto|]. elim (H l Hl).
  Qed.
End Complete.
