(* soundness of the boolean equalities used by the case checkers *)
From Coq Require Import List String ZArith Bool.
From AV Require Import Model.Json Model.Query Proofs.QueryProofs.
Import ListNotations.
Open Scope string_scope.

Lemma list_eqb_eq {T} (e : T -> T -> bool) (He : forall x y, e x y = true -> x = y) a b :
  list_eqb e a b = true -> a = b.
Proof.
  revert b; induction a as [|x a IH]; destruct b as [|y b]; simpl; try discriminate; auto.
  intros H. apply andb_prop in H. destruct H as [H1 H2]. f_equal; auto.
Qed.

Lemma str_eqb_eq x y : String.eqb x y = true -> x = y.
Proof. apply String.eqb_eq. Qed.

Lemma jv_eqb_eq a : forall c, jv_eqb a c = true -> a = c.
Proof.
  induction a as [|b0|z0| |s0|l IH|m IH] using jv_ind'; intros c H; destruct c; simpl in H; try discriminate; auto.
  - f_equal. apply Bool.eqb_prop. exact H.
  - f_equal. apply Z.eqb_eq. exact H.
  - f_equal. apply String.eqb_eq. exact H.
  - f_equal. revert l0 H. induction IH as [|x r Hx Hr IHr]; intros [|y l0] H; try discriminate; auto.
    apply andb_prop in H. destruct H as [H1 H2]. f_equal; auto.
  - f_equal. revert m0 H. induction IH as [|[k x] r Hx Hr IHr]; intros [|[k' y] m0] H; try discriminate; auto.
    apply andb_prop in H. destruct H as [H1 H2]. apply andb_prop in H1. destruct H1 as [Hk Hv].
    apply String.eqb_eq in Hk. cbn [snd] in Hx. f_equal; auto. f_equal; auto.
Qed.

Lemma query_eqb_eq a : forall b, query_eqb a b = true -> a = b.
Proof.
  induction a as [l IH|l IH|q IH|q Hq] using query_ind'; intros b H.
  - destruct b; simpl in H; try discriminate. f_equal.
    revert l0 H. induction IH as [|x r Hx Hr IHr]; intros [|y l0] H; try discriminate; auto.
    apply andb_prop in H. destruct H as [H1 H2]. f_equal; auto.
  - destruct b; simpl in H; try discriminate. f_equal.
    revert l0 H. induction IH as [|x r Hx Hr IHr]; intros [|y l0] H; try discriminate; auto.
    apply andb_prop in H. destruct H as [H1 H2]. f_equal; auto.
  - destruct b; simpl in H; try discriminate. f_equal. auto.
  - destruct q; try contradiction; destruct b; simpl in H; try discriminate;
      try (apply andb_prop in H; destruct H as [H1 H2]; apply String.eqb_eq in H1; subst;
           first [apply String.eqb_eq in H2; subst; reflexivity
                 | apply (list_eqb_eq _ str_eqb_eq) in H2; subst; reflexivity]).
    apply (list_eqb_eq _ str_eqb_eq) in H. subst. reflexivity.
Qed.
