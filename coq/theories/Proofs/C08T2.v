From Coq Require Import List String ZArith NArith Bool Lia.
From AV Require Import Model.Str Model.Encode Model.Query Model.VTypes Model.Interval Model.Eval Model.CL
  Model.VerifierLegacy Model.VCfg Model.VProps Proofs.VMonad Proofs.VLegacyProofs Proofs.VLegacyStruct Proofs.IntervalProofs
  Proofs.C02Proofs Proofs.C08Proofs Proofs.C06S4.
From AV Require Import Proofs.C08T1.
Import ListNotations.
Open Scope string_scope.
Open Scope list_scope.
Open Scope Z_scope.

(* the premise of the completeness half of ok_C08 for one sub-proof (legacy format) *)
Definition demand_met_at (R : request) (P : presentation) (cx : ctx) (i : Z) (id : identifier) (sp : subproof) : bool :=
  let c := CLegacy R P cx in
  negb (revocable cx id) || negb (applies_gen true c i) ||
  match id_ts id, list_at cx (id_revreg id) (id_ts id), sp_nrp sp, regkey_at cx (id_revreg id) with
  | Some t, Some acc, Some n, Some rk =>
      all_demands_met R cx (id_revreg id) (sub_locals_over c i) t && nrp_valid n && N.eqb (nrp_acc n) acc && N.eqb (nrp_regkey n) rk
  | _, _, _, _ => false end.
Definition demands_ok (R : request) (P : presentation) (cx : ctx) : bool :=
  forallb (fun '(i, (id, sp)) => demand_met_at R P cx i id sp) (indexed 0 (case_subs (CLegacy R P cx))).
(* every sub-proof of a revocable credential serves at least one referent (the prover emits no others) *)
Definition served_nonempty (R : request) (P : presentation) (cx : ctx) : bool :=
  forallb (fun '(i, (id, _)) => negb (revocable cx id) || match demands_legacy R P i with [] => false | _ => true end)
          (indexed 0 (case_subs (CLegacy R P cx))).

Lemma in_indexed_combine {A B} (a : list A) (b : list B) k x y : nthZ a k = Some x -> nthZ b k = Some y -> In (k, (x, y)) (indexed 0 (combine a b)).
Proof.
  intros Ha Hb.
  assert (Hc : nthZ (combine a b) k = Some (x, y)).
  { revert b k Ha Hb. induction a as [|p a IH]; intros [|q b] k Ha Hb; cbn [nthZ combine] in *; try discriminate.
    destruct (k =? 0); [inversion Ha; inversion Hb; reflexivity|]. destruct (k <? 0); [discriminate|]. apply IH; assumption. }
  assert (0 <= k) by (destruct (Z_lt_le_dec k 0); [rewrite nthZ_neg in Ha by lia; discriminate|lia]).
  pose proof (indexed_nth (combine a b) 0 k _ H Hc) as Hi. rewrite Z.add_0_l in Hi. exact (nthZ_In _ _ _ Hi).
Qed.

Section Complete.
  Context (R : request) (P : presentation) (cx : ctx).
  Context (Hbase : verify_legacy cfg_fixed (nonr_req R) P cx = Accept).
  Context (Hok : demands_ok R P cx = true) (Hserved : served_nonempty R P cx = true).

  Lemma nonr_local_ok i l0 : local_interval cfg_fixed (nonr_req R) P i = ROk l0 -> exists local, local_interval cfg_fixed R P i = ROk local.
  Proof.
    unfold local_interval, nonr_req. cbn [rq_attrs rq_preds].
    assert (Ha : forall l, mapR (fun r => of_opt (assoc r (map (fun x => (fst x, nonr_ai (snd x))) (rq_attrs R)))) l
                          = match mapR (fun r => of_opt (assoc r (rq_attrs R))) l with ROk ais => ROk (map nonr_ai ais) | RErr => RErr | RPanic => RPanic end).
    { induction l as [|r l IH]; [reflexivity|]. cbn [mapR]. rewrite assoc_map, IH. destruct (assoc r (rq_attrs R)); cbn [option_map of_opt bind]; [|reflexivity].
      destruct (mapR (fun r0 => of_opt (assoc r0 (rq_attrs R))) l); reflexivity. }
    assert (Hp : forall l, mapR (fun r => of_opt (assoc r (map (fun x => (fst x, nonr_pi (snd x))) (rq_preds R)))) l
                          = match mapR (fun r => of_opt (assoc r (rq_preds R))) l with ROk pis => ROk (map nonr_pi pis) | RErr => RErr | RPanic => RPanic end).
    { induction l as [|r l IH]; [reflexivity|]. cbn [mapR]. rewrite assoc_map, IH. destruct (assoc r (rq_preds R)); cbn [option_map of_opt bind]; [|reflexivity].
      destruct (mapR (fun r0 => of_opt (assoc r0 (rq_preds R))) l); reflexivity. }
    rewrite Ha, Hp.
    destruct (mapR _ (served_attr_refs cfg_fixed P i)) as [ais| |]; cbn [bind]; try discriminate.
    destruct (mapR _ (served_pred_refs P i)) as [pis| |]; cbn [bind]; try discriminate.
    intros _. eauto.
  Qed.

  Lemma step_interval i id sp cd local : nthZ (p_ids P) i = Some id -> nthZ (p_proofs P) i = Some sp ->
    assoc (id_creddef id) (cx_creddefs cx) = Some cd -> local_interval cfg_fixed R P i = ROk local ->
    exists b, interval_check cfg_fixed R cx cd local id = ROk b /\ require_nrp cfg_fixed b sp = ROk tt.
  Proof.
    intros Hid Hsp Hcd Hloc.
    pose proof (in_indexed_combine _ _ _ _ _ Hid Hsp) as Hin.
    unfold demands_ok in Hok. rewrite forallb_forall in Hok. specialize (Hok _ Hin). cbn beta iota in Hok.
    unfold served_nonempty in Hserved. rewrite forallb_forall in Hserved. specialize (Hserved _ Hin). cbn beta iota in Hserved.
    unfold demand_met_at in Hok. unfold revocable in Hok, Hserved. rewrite Hcd in Hok, Hserved.
    destruct (cd_revkey cd) as [rk0|] eqn:Erk.
    2:{ exists false. split; [unfold interval_check; rewrite Erk; reflexivity|reflexivity]. }
    cbn [negb orb] in Hok, Hserved.
    pose proof (local_is_tightest cfg_fixed R P i local eq_refl Hloc) as Hl.
    unfold applies_gen in Hok. cbn [case_request sub_locals_gen sub_locals_over] in Hok. rewrite andb_true_r in Hok.
    unfold some_interval_applies, tightest in Hok. rewrite <- Hl in Hok.
    destruct (match local with Some m => Some m | None => rq_nr R end) as [iv0|] eqn:Eiv.
    - cbn [negb orb] in Hok.
      destruct (id_ts id) as [t|] eqn:Et; [|discriminate].
      destruct (list_at cx (id_revreg id) (Some t)) as [acc|] eqn:Ela; [|discriminate].
      destruct (sp_nrp sp) as [n|] eqn:En; [|discriminate].
      destruct (regkey_at cx (id_revreg id)) as [rk|]; [|discriminate].
      destruct (id_revreg id) as [rid|] eqn:Erid; [|discriminate].
      rewrite !andb_true_iff in Hok. destruct Hok as [[[Hall _] _] _].
      destruct (demands_met_stage_passes cfg_fixed R P cx cd i id rid t local eq_refl eq_refl Hloc Erid Et Hall) as [b Hb].
      { intros E. rewrite E in Hserved. discriminate. }
      exists b. split; [exact Hb|]. unfold require_nrp. rewrite En. destruct b; reflexivity.
    - exists false. split; [|reflexivity]. unfold interval_check. rewrite Erk. cbn [f_gate_on_creddef cfg_fixed]. rewrite Eiv. reflexivity.
  Qed.

  Lemma loop_transfer regmap : forall ids i subs, 0 <= i ->
    (forall k id, nthZ ids k = Some id -> nthZ (p_ids P) (i + k) = Some id) ->
    loop_ids cfg_fixed (nonr_req R) P cx regmap ids i = ROk subs -> loop_ids cfg_fixed R P cx regmap ids i = ROk subs.
  Proof.
    induction ids as [|id r IH]; intros i subs Hi Hids H; cbn [loop_ids] in *; [exact H|].
    apply bind_ok in H. destruct H as (l0 & Hl0 & H).
    apply bind_ok in H. destruct H as (cd & Hcd & H).
    apply bind_ok in H. destruct H as (needed & _ & H).
    apply bind_ok in H. destruct H as (sp & Hsp & H).
    apply bind_ok in H. destruct H as (u1 & _ & H).
    apply bind_ok in H. destruct H as (u2 & Hp & H). rewrite nonr_preds in Hp.
    apply bind_ok in H. destruct H as (u3 & Hu & H). rewrite nonr_unrev in Hu.
    apply bind_ok in H. destruct H as (x & Hx & H).
    apply bind_ok in H. destruct H as (xs & Hxs & H). inversion H; subst subs.
    destruct (nonr_local_ok i l0 Hl0) as [local Hloc]. rewrite Hloc. cbn [bind]. rewrite Hcd. cbn [bind].
    assert (Hid : nthZ (p_ids P) i = Some id) by (rewrite <- (Z.add_0_r i); apply Hids; reflexivity).
    pose proof Hsp as Hsp'. cbn [f_no_index_panic cfg_fixed] in Hsp'. apply of_opt_ok in Hsp'. apply of_opt_ok in Hcd.
    destruct (step_interval i id sp cd local Hid Hsp' Hcd Hloc) as (b & Hb & Hn). rewrite Hb. cbn [bind]. rewrite Hsp. cbn [bind].
    rewrite Hn. cbn [bind]. rewrite Hp. cbn [bind]. rewrite Hu. cbn [bind]. rewrite Hx. cbn [bind].
    rewrite (IH (i + 1) xs ltac:(lia)); [reflexivity| |exact Hxs].
    intros k id' Hk. replace (i + 1 + k) with (i + (k + 1)) by lia. apply Hids.
    assert (0 <= k) by (destruct (Z_lt_le_dec k 0); [rewrite nthZ_neg in Hk by lia; discriminate|lia]).
    rewrite nthZ_shift by lia. exact Hk.
  Qed.

  Theorem c08_legacy_complete_sec : verify_legacy cfg_fixed R P cx = Accept.
  Proof.
    pose proof (verify_legacy_accept cfg_fixed _ _ _ Hbase) as A.
    destruct A as [aids uids pids regmap subs Hrec Hcmp Hval Hrestr Hreg Hloop Hlen Hcl].
    rewrite nonr_compare in Hcmp. rewrite nonr_values in Hval. rewrite nonr_restrictions in Hrestr.
    apply loop_transfer in Hloop; [|lia|intros k id Hk; rewrite Z.add_0_l; exact Hk].
    unfold verify_legacy. rewrite Hrec. cbn [bind]. rewrite Hcmp. cbn [bind]. rewrite Hval. cbn [bind].
    rewrite Hrestr. cbn [bind]. rewrite Hreg. cbn [bind]. rewrite Hloop. cbn [bind].
    rewrite Hlen, Z.eqb_refl. cbn [guard bind]. exact Hcl.
  Qed.
End Complete.
