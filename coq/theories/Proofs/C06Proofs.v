(* C06: Boolean WQL semantics of the restriction evaluator, and what the restriction stage of an
   accepting run established. *)
From Coq Require Import List String Ascii ZArith NArith Bool Lia.
From AV Require Import Model.Str Model.Encode Model.Query Model.Ident Model.VTypes Model.Interval Model.Eval Model.CL
  Model.VerifierLegacy Model.VerifierW3C Model.VCfg Model.VProps
  Proofs.VMonad Proofs.VLegacyProofs.
Import ListNotations.
Open Scope string_scope.
Open Scope list_scope.

Section Sem.
  Context (cfg : vcfg) (m : list (string * option string)) (f : filter).

  (* $and / $or / $not / $in / $neq have their Boolean meaning over the equality test *)
  Lemma eval_eq k v : eval cfg m f (Eq k v) = process_filter cfg m k v f. Proof. reflexivity. Qed.
  Lemma eval_neq k v : eval cfg m f (Neq k v) = negb (eval cfg m f (Eq k v)). Proof. reflexivity. Qed.
  Lemma eval_in k vs : eval cfg m f (QIn k vs) = existsb (fun v => eval cfg m f (Eq k v)) vs.
  Proof. cbn [eval]. induction vs as [|v r IH]; cbn [anyb existsb]; [reflexivity|]. rewrite IH. reflexivity. Qed.
  Lemma eval_and l : eval cfg m f (And l) = forallb (eval cfg m f) l.
  Proof. cbn [eval]. induction l as [|q r IH]; cbn [allb forallb]; [reflexivity|]. rewrite IH. reflexivity. Qed.
  Lemma eval_or l : eval cfg m f (Or l) = existsb (eval cfg m f) l.
  Proof. cbn [eval]. induction l as [|q r IH]; cbn [anyb existsb]; [reflexivity|]. rewrite IH. reflexivity. Qed.
  Lemma eval_not q : eval cfg m f (Not q) = negb (eval cfg m f q). Proof. reflexivity. Qed.
  Lemma eval_empty_and : eval cfg m f (And []) = true. Proof. reflexivity. Qed.

  (* comparison, $like and $exist operators are never satisfied *)
  Lemma eval_comparisons k v ks :
    eval cfg m f (Gt k v) = false /\ eval cfg m f (Gte k v) = false /\ eval cfg m f (Lt k v) = false /\
    eval cfg m f (Lte k v) = false /\ eval cfg m f (Like k v) = false /\ eval cfg m f (Exist ks) = false.
  Proof. repeat split; reflexivity. Qed.

  (* equality tests on schema id, name, version and issuer, credential-definition id, issuer *)
  Lemma tag_schema_id v : process_filter cfg m "schema_id" v f = String.eqb (f_schema_id f) v. Proof. reflexivity. Qed.
  Lemma tag_schema_name v : process_filter cfg m "schema_name" v f = String.eqb (f_schema_name f) v. Proof. reflexivity. Qed.
  Lemma tag_schema_version v : process_filter cfg m "schema_version" v f = String.eqb (f_schema_version f) v. Proof. reflexivity. Qed.
  Lemma tag_schema_issuer_id v : process_filter cfg m "schema_issuer_id" v f = String.eqb (f_schema_issuer f) v. Proof. reflexivity. Qed.
  Lemma tag_cred_def_id v : process_filter cfg m "cred_def_id" v f = String.eqb (f_cred_def_id f) v. Proof. reflexivity. Qed.
  Lemma tag_issuer_id v : process_filter cfg m "issuer_id" v f = String.eqb (f_issuer f) v. Proof. reflexivity. Qed.
  (* the legacy *_did tags match only legacy identifiers *)
  Lemma tag_issuer_did v : process_filter cfg m "issuer_did" v f = is_legacy_did (f_issuer f) && String.eqb (f_issuer f) v.
  Proof. reflexivity. Qed.
  Lemma tag_schema_issuer_did v :
    process_filter cfg m "schema_issuer_did" v f = is_legacy_did (f_schema_issuer f) && String.eqb (f_schema_issuer f) v.
  Proof. reflexivity. Qed.
End Sem.

Lemma prefix_attr y : String.prefix "attr::" ("attr::" ++ y) = true.
Proof. destruct y; reflexivity. Qed.

(* values of attributes revealed under the referent; marker tags; unknown tags *)
Lemma value_tag_revealed cfg m f name revealed v :
  internal_tag ("attr::" ++ name ++ "::value") = Some (name, false) ->
  assoc (tagkey cfg name) m = Some (Some revealed) ->
  process_filter cfg m ("attr::" ++ name ++ "::value") v f = String.eqb revealed v.
Proof.
  intros Hi Ha. unfold process_filter.
  assert (Hne : forall lit, String.prefix "attr::" lit = false -> String.eqb ("attr::" ++ name ++ "::value") lit = false).
  { intros lit Hp. destruct (String.eqb_spec ("attr::" ++ name ++ "::value") lit) as [<-|]; [|reflexivity]. rewrite prefix_attr in Hp. discriminate. }
  rewrite !Hne by reflexivity. rewrite Hi, Ha. destruct (f_marker cfg); reflexivity.
Qed.
Lemma ends_with_app suf pre : ends_with suf (pre ++ suf) = true.
Proof.
  induction pre as [|a r IH]; cbn [append].
  - destruct suf; cbn [ends_with]; rewrite String.eqb_refl; reflexivity.
  - cbn [ends_with]. rewrite IH. apply orb_true_r.
Qed.
Lemma ends_with_app3 suf a b : ends_with suf (a ++ (b ++ suf))%string = true.
Proof.
  induction a as [|c r IH]; cbn [append]; [apply ends_with_app|].
  cbn [ends_with]. rewrite IH. apply orb_true_r.
Qed.
Lemma marker_tag_true cfg m f name v : f_marker cfg = true ->
  internal_tag ("attr::" ++ name ++ "::marker") = Some (name, true) ->
  process_filter cfg m ("attr::" ++ name ++ "::marker") v f = true.
Proof.
  intros Hm Hi. unfold process_filter.
  assert (Hne : forall lit, String.prefix "attr::" lit = false -> String.eqb ("attr::" ++ name ++ "::marker") lit = false).
  { intros lit Hp. destruct (String.eqb_spec ("attr::" ++ name ++ "::marker") lit) as [<-|]; [|reflexivity]. rewrite prefix_attr in Hp. discriminate. }
  rewrite !Hne by reflexivity. rewrite Hi, Hm.
  destruct (assoc (tagkey cfg name) m) as [[r|]|]; try reflexivity.
  unfold is_attr_operator. apply andb_true_intro. split; [apply prefix_attr|apply ends_with_app3].
Qed.

(* a restricted referent cannot be met by self-attestation *)
Lemma self_attested_needs_unrestricted P r ai : is_self_attested P r ai = true -> unrestricted (ai_restr ai) = true.
Proof. unfold is_self_attested. intros H. apply andb_prop in H. tauto. Qed.

Section Stage.
  Context (cfg : vcfg).

  (* the filter a restriction is evaluated on is built from the credential definition the identifier
     names and from THAT definition's schema *)
  Lemma gather_filter_bound cx id f : f_bind_schema cfg = true -> gather_filter cfg cx id = ROk f ->
    exists sc cd, assoc (id_schema id) (cx_schemas cx) = Some sc /\ assoc (id_creddef id) (cx_creddefs cx) = Some cd /\
      cd_schema_id cd = id_schema id /\
      f = {| f_schema_id := cd_schema_id cd; f_schema_issuer := sc_issuer sc; f_schema_name := sc_name sc;
             f_schema_version := sc_version sc; f_issuer := cd_issuer cd; f_cred_def_id := id_creddef id |}.
  Proof.
    intros Hb. unfold gather_filter. intros H.
    apply bind_ok in H. destruct H as (sc & Hsc & H). apply of_opt_ok in Hsc.
    apply bind_ok in H. destruct H as (cd & Hcd & H). apply of_opt_ok in Hcd.
    apply bind_ok in H. destruct H as (u & Hg & H). apply guard_ok in Hg. rewrite Hb in Hg. cbn [negb orb] in Hg.
    apply String.eqb_eq in Hg. inversion H. exists sc, cd. rewrite Hg. auto.
  Qed.

  (* what the restriction stage of an accepting legacy run established for every restricted,
     non-self-attested attribute referent, and for every restricted predicate referent *)
  Theorem legacy_restrictions_checked R P cx : verify_legacy cfg R P cx = Accept ->
    (forall r ai q, In (r, ai) (rq_attrs R) -> ai_restr ai = Some q -> is_self_attested P r ai = false ->
       exists id f m, gather_filter cfg cx id = ROk f /\ eval cfg m f q = true) /\
    (forall r pi q, In (r, pi) (rq_preds R) -> pi_restr pi = Some q ->
       exists id f m, gather_filter cfg cx id = ROk f /\ eval cfg m f q = true).
  Proof.
    intros H. apply (verify_legacy_accept cfg) in H.
    destruct H as [aids uids pids regmap subs _ _ _ Hrestr _ _ _ _].
    unfold check_restrictions in Hrestr.
    apply bind_ok in Hrestr. destruct Hrestr as (g1 & _ & Hrestr). apply bind_ok in Hrestr. destruct Hrestr as (g2 & _ & Hrestr).
    apply bind_ok in Hrestr. destruct Hrestr as (g3 & Hit & Hip). split.
    - intros r ai q Hin Hq Hsa.
      assert (Hreqd : In (r, ai) (List.filter (fun '(r0, ai0) => negb (is_self_attested P r0 ai0)) (rq_attrs R))).
      { apply filter_In. split; [exact Hin|]. rewrite Hsa. reflexivity. }
      destruct (iter_ok _ _ _ Hit _ Hreqd) as (u' & Hx). cbn beta iota in Hx. rewrite Hq in Hx.
      apply bind_ok in Hx. destruct Hx as (id & _ & Hx).
      apply bind_ok in Hx. destruct Hx as (f & Hf & Hx). apply bind_ok in Hx. destruct Hx as (m & _ & Hx). apply guard_ok in Hx.
      exists id, f, m. auto.
    - intros r pi q Hin Hq. destruct (iter_ok _ _ _ Hip _ Hin) as (u' & Hx). cbn beta iota in Hx. rewrite Hq in Hx.
      apply bind_ok in Hx. destruct Hx as (id & _ & Hx). apply bind_ok in Hx. destruct Hx as (f & Hf & Hx).
      apply bind_ok in Hx. destruct Hx as (idx & _ & Hx). apply bind_ok in Hx. destruct Hx as (rv & _ & Hx). apply guard_ok in Hx.
      eexists id, f, _. split; [exact Hf|exact Hx].
  Qed.
End Stage.
