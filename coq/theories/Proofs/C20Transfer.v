From Coq Require Import List String Bool.
From AV Require Import Model.Sexp Model.Ident Model.CaseC20.
Import ListNotations.
Open Scope string_scope.

Lemma c20_transfer_id k s outs flags : ok_C20_id k s outs flags = true ->
  outs <> [] /\ (forall o, In o outs -> o = validate_id k s) /\
  flags = [is_uri s; is_legacy_did s; is_legacy_schema_id s; is_legacy_cred_def_id s; is_legacy_rev_reg_id s].
Proof.
  unfold ok_C20_id. intros H. apply andb_prop in H. destruct H as [H Hf]. apply andb_prop in H. destruct H as [Hn Ho].
  split; [destruct outs; [discriminate|discriminate]|]. split.
  - intros o Hin. rewrite forallb_forall in Ho. specialize (Ho _ Hin). apply Bool.eqb_prop in Ho. auto.
  - destruct flags as [|u [|d [|sc [|cd [|rr [|x r]]]]]]; try discriminate.
    repeat (apply andb_prop in Hf; let X := fresh "E" in destruct Hf as [Hf X]).
    apply Bool.eqb_prop in Hf, E, E0, E1, E2. subst. reflexivity.
Qed.

Lemma c20_transfer_schema i a c v : ok_C20_schema i a c v = true -> c = schema_valid i a /\ v = schema_valid i a.
Proof. unfold ok_C20_schema. intros H. apply andb_prop in H. destruct H as [H1 H2]. apply Bool.eqb_prop in H1, H2. auto. Qed.

Lemma c20_transfer_req e d cd v n : ok_C20_req e d cd v n = true ->
  v = cred_request_valid e d cd /\ (forall b, n = Some b -> b = cred_request_valid e d cd).
Proof.
  unfold ok_C20_req. intros H. apply andb_prop in H. destruct H as [H1 H2]. apply Bool.eqb_prop in H1. split; auto.
  intros b ->. apply Bool.eqb_prop in H2. auto.
Qed.

(* issuer outputs: identifiers are copied from validated inputs, hence pass validation *)
Lemma c20_transfer_out ins outs : ok_C20_out ins outs = true ->
  outs <> [] /\ forall k s, In (k, s) outs -> validate_id k s = true /\ exists k', In (k', s) ins /\ kind_eqb k' k = true.
Proof.
  unfold ok_C20_out. intros H. apply andb_prop in H. destruct H as [H Ho]. apply andb_prop in H. destruct H as [Hn Hi].
  split; [destruct outs; discriminate|]. intros k s Hin. rewrite forallb_forall in Ho. specialize (Ho _ Hin).
  cbn [fst snd] in Ho. apply andb_prop in Ho. destruct Ho as [He Hv]. split; auto.
  apply existsb_exists in He. destruct He as ([k' s'] & Hin' & E). cbn [fst snd] in E. apply andb_prop in E.
  destruct E as [E1 E2]. apply String.eqb_eq in E2. subst. eauto.
Qed.

Lemma copied_ids_validate ins outs :
  forallb (fun i => validate_id (fst i) (snd i)) ins = true ->
  (forall o, In o outs -> In o ins) ->
  forallb (fun o => validate_id (fst o) (snd o)) outs = true.
Proof. intros Hi Hsub. apply forallb_forall. intros o Ho. rewrite forallb_forall in Hi. auto. Qed.
