(* C16: request validation by version (pres_request.rs _process_operator / _check_restriction) *)
From Coq Require Import List String Bool.
From AV Require Import Model.Json Model.Query Model.QueryValidate Model.Ident Model.CaseC16 Generated.Consts Proofs.QueryProofs Proofs.EqbProofs.
Import ListNotations.
Open Scope string_scope.

(* pin: the model's tag list is the one in the source (regenerated on every run) *)
Lemma qualifiable_tags_pin : qualifiable_tags = gen_qualifiable_tags.
Proof. reflexivity. Qed.

Definition offending (kv : string * string) : bool :=
  mem_str (fst kv) qualifiable_tags && is_uri (snd kv).

Lemma check_restriction_spec v1 k v : check_restriction v1 k v = negb (v1 && offending (k, v)).
Proof. unfold check_restriction, offending. cbn [fst snd]. rewrite andb_assoc. reflexivity. Qed.

Lemma empty_not_uri : is_uri "" = false. Proof. reflexivity. Qed.

Lemma forallb_flat_map {A B} (f : A -> list B) p l :
  forallb p (flat_map f l) = forallb (fun x => forallb p (f x)) l.
Proof. induction l as [|x r IH]; simpl; auto. rewrite forallb_app, IH. reflexivity. Qed.

Lemma forallb_ext {A} (p q : A -> bool) l : (forall x, p x = q x) -> forallb p l = forallb q l.
Proof. intros H. induction l as [|x r IH]; simpl; auto. rewrite H, IH. reflexivity. Qed.

Lemma forallb_map {A B} (f : A -> B) p l : forallb p (map f l) = forallb (fun x => p (f x)) l.
Proof. induction l as [|x r IH]; simpl; auto. rewrite IH. reflexivity. Qed.


(* validation = no tested (tag, value) pair has a qualifiable tag with a URI value, under v1 *)
Theorem validate_query_spec v1 q :
  validate_query v1 q = forallb (fun kv => negb (v1 && offending kv)) (leaves q).
Proof.
  induction q as [l H|l H|q IH|q Hq] using query_ind'.
  - cbn [validate_query leaves]. rewrite forallb_flat_map.
    induction H as [|x r Hx Hr IH]; simpl; auto. rewrite Hx, IH. reflexivity.
  - cbn [validate_query leaves]. rewrite forallb_flat_map.
    induction H as [|x r Hx Hr IH]; simpl; auto. rewrite Hx, IH. reflexivity.
  - exact IH.
  - destruct q; try contradiction; cbn [validate_query leaves forallb];
      rewrite ?check_restriction_spec, ?andb_true_r; try reflexivity.
    + rewrite forallb_map. apply forallb_ext. intros v. apply check_restriction_spec.
    + rewrite forallb_map. apply forallb_ext. intros k. apply check_restriction_spec.
Qed.

Theorem v2_accepts_everything q : validate_query false q = true.
Proof. rewrite validate_query_spec. apply forallb_forall. reflexivity. Qed.

Lemma forallb_false_ex {A} (p : A -> bool) l : forallb p l = false -> exists x, In x l /\ p x = false.
Proof.
  induction l as [|x r IH]; simpl; [discriminate|]. destruct (p x) eqn:E.
  - intros H. destruct (IH H) as (y & Hy & Hp). eauto.
  - eauto.
Qed.

Theorem v1_rejects_qualified q :
  validate_query true q = false <->
  exists k v, In (k, v) (leaves q) /\ mem_str k qualifiable_tags = true /\ is_uri v = true.
Proof.
  rewrite validate_query_spec. split.
  - intros H. apply forallb_false_ex in H. destruct H as ([k v] & Hin & Hp).
    exists k, v. split; auto. cbn [andb] in Hp. apply negb_false_iff in Hp.
    unfold offending in Hp. cbn [fst snd] in Hp. apply andb_prop in Hp. exact Hp.
  - intros (k & v & Hin & Ht & Hu).
    destruct (forallb _ (leaves q)) eqn:E; auto.
    rewrite forallb_forall in E. specialize (E _ Hin). unfold offending in E. cbn [fst snd andb] in E.
    rewrite Ht, Hu in E. discriminate.
Qed.

(* ---- transfer: what a passing case says about the implementation's outcome ---- *)
Lemma c16_transfer_parse j o : ok_C16_parse j o = true ->
  match o with
  | POk q printed rt => parse_restriction j = Some q /\ printed = tv q /\ rt = true
  | PErr => parse_restriction j = None
  | PPanic => False
  end.
Proof.
  unfold ok_C16_parse. destruct (parse_restriction j) as [q|] eqn:E, o as [q' pr rt| |]; try discriminate; auto.
  intros H. apply andb_prop in H. destruct H as [H Hrt]. apply andb_prop in H. destruct H as [Hq Hj].
  apply query_eqb_eq in Hq. apply jv_eqb_eq in Hj. subst. auto.
Qed.

Lemma c16_transfer_validate v1 q o : ok_C16_validate v1 q o = true ->
  match o with
  | VValid same rt => validate_query v1 q = true /\ same = true /\ rt = true
  | VInvalid same rt => validate_query v1 q = false /\ same = true /\ rt = true
  | VDeserErr => False
  end.
Proof.
  unfold ok_C16_validate. destruct o as [s r|s r|]; try discriminate; intros H;
    apply andb_prop in H; destruct H as [H Hr]; apply andb_prop in H; destruct H as [Hv Hs]; subst;
    repeat split; auto. apply negb_true_iff in Hv. exact Hv.
Qed.

Example c16_nonvacuous :
  ok_C16_parse (JObj [("schema_id", JStr "x")]) (POk (Eq "schema_id" "x") (JObj [("schema_id", JStr "x")]) true) = true
  /\ validate_query true (Eq "schema_id" "did:sov:abc") = false
  /\ validate_query true (Eq "issuer_did" "NcYxiDXkpYi6ov5FcYDi1e") = true.
Proof. vm_compute. repeat split; reflexivity. Qed.
