(* option-interval folds: what the merged interval demands depends only on the set of its parts *)
From Coq Require Import List String ZArith Bool Lia.
From AV Require Import Model.VTypes Model.Interval Proofs.IntervalProofs.
Import ListNotations.
Local Open Scope Z_scope.

Definition valid_opt (t : Z) (o : option interval) : bool := match o with Some i => is_valid i t | None => true end.
Definition wf_opt (o : option interval) : Prop := match o with Some i => wf i | None => True end.

Lemma fold_opt_none l : fold_left merge_opt l None = None <-> forall o, In o l -> o = None.
Proof.
  split.
  - intros H. assert (G : forall l acc, fold_left merge_opt l acc = None -> acc = None /\ forall o, In o l -> o = None).
    { clear. induction l as [|x r IH]; intros acc H; cbn [fold_left] in H; [split; [exact H|intros o []]|].
      destruct (IH _ H) as [Ha Hr]. destruct acc as [a|], x as [y|]; cbn [merge_opt] in Ha; try discriminate.
      split; [reflexivity|]. intros o [<-|Ho]; [reflexivity|exact (Hr o Ho)]. }
    exact (proj2 (G l None H)).
  - intros H. induction l as [|x r IH]; [reflexivity|]. cbn [fold_left]. rewrite (H x (or_introl eq_refl)). cbn [merge_opt]. apply IH. intros o Ho. apply H. right. exact Ho.
Qed.

Lemma fold_opt_valid t : u64 t -> forall l acc i, wf_opt acc -> (forall o, In o l -> wf_opt o) ->
  fold_left merge_opt l acc = Some i -> wf i /\ is_valid i t = valid_opt t acc && forallb (valid_opt t) l.
Proof.
  intros Ht. induction l as [|x r IH]; intros acc i Wa Wl H; cbn [fold_left forallb] in *.
  - subst acc. cbn [valid_opt]. split; [exact Wa|]. rewrite andb_true_r. reflexivity.
  - assert (Wx : wf_opt x) by (apply Wl; left; reflexivity).
    assert (Wr : forall o, In o r -> wf_opt o) by (intros o Ho; apply Wl; right; exact Ho).
    destruct acc as [a|], x as [y|]; cbn [merge_opt] in H.
    + destruct (IH (Some (merge a y)) i (merge_wf a y Wa Wx) Wr H) as [Wi Hv]. split; [exact Wi|].
      rewrite Hv. cbn [valid_opt]. rewrite (merge_meet a y t Wa Wx Ht). rewrite andb_assoc. reflexivity.
    + destruct (IH (Some a) i Wa Wr H) as [Wi Hv]. split; [exact Wi|]. rewrite Hv. cbn [valid_opt andb]. reflexivity.
    + destruct (IH (Some y) i Wx Wr H) as [Wi Hv]. split; [exact Wi|]. rewrite Hv. cbn [valid_opt andb]. reflexivity.
    + destruct (IH None i I Wr H) as [Wi Hv]. split; [exact Wi|]. rewrite Hv. cbn [valid_opt andb]. reflexivity.
Qed.

Lemma forallb_same_set {A} (f : A -> bool) l1 l2 : (forall x, In x l1 <-> In x l2) -> forallb f l1 = forallb f l2.
Proof.
  intros H. destruct (forallb f l1) eqn:E1, (forallb f l2) eqn:E2; try reflexivity.
  - rewrite forallb_forall in E1. assert (forallb f l2 = true) by (apply forallb_forall; intros x Hx; apply E1; apply H; exact Hx). congruence.
  - rewrite forallb_forall in E2. assert (forallb f l1 = true) by (apply forallb_forall; intros x Hx; apply E2; apply H; exact Hx). congruence.
Qed.

(* two folds over the same set of parts: both absent or both present with the same members *)
Theorem fold_opt_same_set t l1 l2 : u64 t -> (forall o, In o l1 <-> In o l2) -> (forall o, In o l1 -> wf_opt o) ->
  match fold_left merge_opt l1 None, fold_left merge_opt l2 None with
  | None, None => True
  | Some i1, Some i2 => is_valid i1 t = is_valid i2 t
  | _, _ => False
  end.
Proof.
  intros Ht Hs W1. assert (W2 : forall o, In o l2 -> wf_opt o) by (intros o Ho; apply W1; apply Hs; exact Ho).
  destruct (fold_left merge_opt l1 None) as [i1|] eqn:E1, (fold_left merge_opt l2 None) as [i2|] eqn:E2.
  - destruct (fold_opt_valid t Ht l1 None i1 I W1 E1) as [_ V1]. destruct (fold_opt_valid t Ht l2 None i2 I W2 E2) as [_ V2].
    rewrite V1, V2. cbn [valid_opt andb]. apply forallb_same_set. exact Hs.
  - pose proof (proj1 (fold_opt_none l2) E2) as N2. assert (fold_left merge_opt l1 None = None) by (apply fold_opt_none; intros o Ho; apply N2; apply Hs; exact Ho). congruence.
  - pose proof (proj1 (fold_opt_none l1) E1) as N1. assert (fold_left merge_opt l2 None = None) by (apply fold_opt_none; intros o Ho; apply N1; apply Hs; exact Ho). congruence.
  - exact I.
Qed.
