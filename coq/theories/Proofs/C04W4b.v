(* part 4b (revocation class): non-revocation parts are present where the searches need them; every referent is served;
   the searches settle on entries that carry the non-revocation part they call for *)
From Coq Require Import List String Ascii ZArith NArith Bool Lia.
From AV Require Import Model.Str Model.Encode Model.Query Model.VTypes Model.Interval Model.Eval Model.CL Model.VerifierLegacy Model.VerifierW3C
  Model.VCfg Model.VProps Model.Prover Model.PProps Proofs.VMonad Proofs.C04F1 Proofs.C04F3 Proofs.C04F4 Proofs.C04F5 Proofs.C04F6 Proofs.C04F8 Proofs.C07Proofs
  Proofs.VW3CSearch Proofs.VW3CC1 Proofs.VW3CC2 Proofs.VW3CC3.
From AV Require Import Proofs.C04W1 Proofs.C04W2 Proofs.C04W3 Proofs.C04W4.
Import ListNotations.
Local Open Scope string_scope.
Local Open Scope list_scope.
Local Open Scope Z_scope.

(* the searches, with the usability of what they return *)
Section SearchU.
  Context (cfg : vcfg).
  Notation wcase := (w3c_cred * (identifier * subproof))%type.
  Lemma find_revealed_u strict R cx name q nr cs : forall i l, find_revealed cfg strict R cx name q nr i cs = Some l ->
    exists j c id sp b, nthZ cs (j - i) = Some (c, (id, sp)) /\ i <= j /\ usable strict b sp = true /\ l = need j b.
  Proof.
    induction cs as [|[c [id sp]] r IH]; intros i l H; cbn [find_revealed] in H; [discriminate|].
    assert (Hrec : forall l', find_revealed cfg strict R cx name q nr (i + 1) r = Some l' ->
              exists j c0 id0 sp0 b, nthZ ((c, (id, sp)) :: r) (j - i) = Some (c0, (id0, sp0)) /\ i <= j /\ usable strict b sp0 = true /\ l' = need j b).
    { intros l' Hl'. destruct (IH _ _ Hl') as (j & c0 & id0 & sp0 & b & Hn & Hle & Hr).
      exists j, c0, id0, sp0, b. split; [|split; [lia|exact Hr]].
      rewrite nthZ_cons_pos by lia. replace (j - i - 1) with (j - (i + 1)) by lia. exact Hn. }
    destruct (get_attribute c name) as [[k v]|] eqn:Eg; [|apply Hrec; exact H].
    destruct (verify_value k sp _) as [u| |] eqn:Ev; cbn [is_ok] in H; try (apply Hrec; exact H).
    destruct (cred_conditions cfg R cx c id q nr) as [b|] eqn:Ec; [|apply Hrec; exact H].
    destruct (usable strict b sp) eqn:Eu; [|apply Hrec; exact H].
    inversion H; subst l. exists i, c, id, sp, b. replace (i - i) with 0 by lia. repeat split; auto. lia.
  Qed.
  Lemma find_unrevealed_u strict R cx name q nr cs : forall i l, find_unrevealed cfg strict R cx name q nr i cs = ROk (Some l) ->
    exists j c id sp b, nthZ cs (j - i) = Some (c, (id, sp)) /\ i <= j /\ usable strict b sp = true /\ l = need j b.
  Proof.
    induction cs as [|[c [id sp]] r IH]; intros i l H; cbn [find_unrevealed] in H; [discriminate|].
    apply bind_ok in H. destruct H as (sc & Hsc & H).
    assert (Hrec : forall l', find_unrevealed cfg strict R cx name q nr (i + 1) r = ROk (Some l') ->
              exists j c0 id0 sp0 b, nthZ ((c, (id, sp)) :: r) (j - i) = Some (c0, (id0, sp0)) /\ i <= j /\ usable strict b sp0 = true /\ l' = need j b).
    { intros l' Hl'. destruct (IH _ _ Hl') as (j & c0 & id0 & sp0 & b & Hn & Hle & Hr).
      exists j, c0, id0, sp0, b. split; [|split; [lia|exact Hr]].
      rewrite nthZ_cons_pos by lia. replace (j - i - 1) with (j - (i + 1)) by lia. exact Hn. }
    destruct (existsb _ (sc_attrs sc)) eqn:Ee; [|apply Hrec; exact H].
    destruct (cred_conditions cfg R cx c id q nr) as [b|] eqn:Ec; [|apply Hrec; exact H].
    destruct (usable strict b sp) eqn:Eu; [|apply Hrec; exact H].
    inversion H; subst l. exists i, c, id, sp, b. replace (i - i) with 0 by lia. repeat split; auto. lia.
  Qed.
  Lemma find_predicate_u strict R cx pi cs : forall i l, find_predicate cfg strict R cx pi i cs = Some l ->
    exists j c id sp b, nthZ cs (j - i) = Some (c, (id, sp)) /\ i <= j /\ usable strict b sp = true /\ l = need j b.
  Proof.
    induction cs as [|[c [id sp]] r IH]; intros i l H; cbn [find_predicate] in H; [discriminate|].
    assert (Hrec : forall l', find_predicate cfg strict R cx pi (i + 1) r = Some l' ->
              exists j c0 id0 sp0 b, nthZ ((c, (id, sp)) :: r) (j - i) = Some (c0, (id0, sp0)) /\ i <= j /\ usable strict b sp0 = true /\ l' = need j b).
    { intros l' Hl'. destruct (IH _ _ Hl') as (j & c0 & id0 & sp0 & b & Hn & Hle & Hr).
      exists j, c0, id0, sp0, b. split; [|split; [lia|exact Hr]].
      rewrite nthZ_cons_pos by lia. replace (j - i - 1) with (j - (i + 1)) by lia. exact Hn. }
    destruct (get_predicate c (pi_name pi)) as [k|] eqn:Eg; [|apply Hrec; exact H].
    destruct (existsb _ (sp_preds sp)) eqn:Ee; [|apply Hrec; exact H].
    destruct (cred_conditions cfg R cx c id (pi_restr pi) (pi_nr pi)) as [b|] eqn:Ec; [|apply Hrec; exact H].
    destruct (usable strict b sp) eqn:Eu; [|apply Hrec; exact H].
    inversion H; subst l. exists i, c, id, sp, b. replace (i - i) with 0 by lia. repeat split; auto. lia.
  Qed.
End SearchU.

(* what a strict search returns names only entries that carry a non-revocation part *)
Definition carries (cs : list (w3c_cred * (identifier * subproof))) (l : list Z) : Prop :=
  forall j, In j l -> exists c id sp, nthZ cs j = Some (c, (id, sp)) /\ has_nrp sp = true.
Lemma need_carries cs j b c id sp : nthZ cs j = Some (c, (id, sp)) -> usable true b sp = true -> carries cs (need j b).
Proof.
  intros Hn Hu j' Hin. destruct b; cbn [need] in Hin; [|destruct Hin]. destruct Hin as [<-|[]].
  exists c, id, sp. split; [exact Hn|]. unfold usable in Hu. cbn [negb orb] in Hu. exact Hu.
Qed.

Section Rev2.
  Context (R : request) (cx : ctx) (link : N) (ps : list present).
  Notation E := (nonempty ps).
  Notation c0 := (mk_case R cx link ps []).
  Context (Hclass : w3c_rev_r c0 = true).

  (* whenever some demand applies to an entry of a revocable definition, its sub-proof carries the holder's state *)
  Lemma nrp_present p j fed sp rid : In p E -> prover_sub_proof pcfg_fixed R cx link j p fed = ROk sp ->
    hc_revreg (pr_cred p) = Some rid -> entry_intervals_w3c R p <> [] -> sp_nrp sp = pr_state p.
  Proof.
    intros Hp Hs Hrid Hne. destruct (sub_inv_nrp R cx link j p fed sp Hs) as (ais & uis & pis & Hais & Huis & Hpis & Hn).
    rewrite Hn, Hrid.
    assert (Hx : match merge_opt (merge_opt (fold_left (fun acc ai => merge_opt acc (ai_nr ai)) ais None) (fold_left (fun acc ai => merge_opt acc (ai_nr ai)) uis None))
                                 (fold_left (fun acc pi => merge_opt acc (pi_nr pi)) pis None) with Some l => Some l | None => rq_nr R end <> None).
    { destruct (entry_intervals_w3c R p) as [|iv ivs] eqn:Ed; [elim Hne; reflexivity|].
      assert (Hin : In iv (entry_intervals_w3c R p)) by (rewrite Ed; left; reflexivity).
      unfold entry_intervals_w3c in Hin. apply in_flat_map in Hin as (o & Ho & Hiv).
      destruct o as [l|].
      - (* a referent of p with an interval of its own *)
        assert (Hm : merge_opt (merge_opt (fold_left (fun acc ai => merge_opt acc (ai_nr ai)) ais None) (fold_left (fun acc ai => merge_opt acc (ai_nr ai)) uis None))
                               (fold_left (fun acc pi => merge_opt acc (pi_nr pi)) pis None) <> None).
        { unfold entry_infos in Ho. apply in_app_or in Ho as [Ho|Ho].
          - apply in_flat_map in Ho as ([r b] & Hrb & Ho). destruct (assoc r (rq_attrs R)) as [ai|] eqn:Has; [|destruct Ho]. destruct Ho as [Ho|[]].
            destruct b.
            + assert (Hq : In r (map fst (List.filter snd (pr_attrs p)))) by (apply in_map_iff; exists (r, true); split; [reflexivity|apply filter_In; auto]).
              destruct (Forall2_in_l _ _ _ _ Hais Hq) as (ai' & Hai' & Ha'). rewrite Has in Ha'. inversion Ha'; subst ai'.
              assert (F : fold_left (fun acc ai0 => merge_opt acc (ai_nr ai0)) ais None <> None).
              { apply fold_merge_some. right. exists ai. split; [exact Hai'|]. rewrite Ho. discriminate. }
              destruct (fold_left (fun acc ai0 => merge_opt acc (ai_nr ai0)) ais None); [|elim F; reflexivity].
              destruct (fold_left (fun acc ai0 => merge_opt acc (ai_nr ai0)) uis None), (fold_left (fun acc pi => merge_opt acc (pi_nr pi)) pis None); discriminate.
            + assert (Hq : In r (map fst (List.filter (fun x => negb (snd x)) (pr_attrs p)))) by (apply in_map_iff; exists (r, false); split; [reflexivity|apply filter_In; auto]).
              destruct (Forall2_in_l _ _ _ _ Huis Hq) as (ai' & Hai' & Ha'). rewrite Has in Ha'. inversion Ha'; subst ai'.
              assert (F : fold_left (fun acc ai0 => merge_opt acc (ai_nr ai0)) uis None <> None).
              { apply fold_merge_some. right. exists ai. split; [exact Hai'|]. rewrite Ho. discriminate. }
              destruct (fold_left (fun acc ai0 => merge_opt acc (ai_nr ai0)) uis None); [|elim F; reflexivity].
              destruct (fold_left (fun acc ai0 => merge_opt acc (ai_nr ai0)) ais None), (fold_left (fun acc pi => merge_opt acc (pi_nr pi)) pis None); discriminate.
          - apply in_flat_map in Ho as (r & Hr & Ho). destruct (assoc r (rq_preds R)) as [pi|] eqn:Has; [|destruct Ho]. destruct Ho as [Ho|[]].
            destruct (Forall2_in_l _ _ _ _ Hpis Hr) as (pi' & Hpi' & Ha'). rewrite Has in Ha'. inversion Ha'; subst pi'.
            assert (F : fold_left (fun acc pi0 => merge_opt acc (pi_nr pi0)) pis None <> None).
            { apply fold_merge_some. right. exists pi. split; [exact Hpi'|]. rewrite Ho. discriminate. }
            destruct (fold_left (fun acc pi0 => merge_opt acc (pi_nr pi0)) pis None); [|elim F; reflexivity].
            destruct (merge_opt (fold_left (fun acc ai0 => merge_opt acc (ai_nr ai0)) ais None) (fold_left (fun acc ai0 => merge_opt acc (ai_nr ai0)) uis None)); discriminate. }
        destruct (merge_opt _ _); [discriminate|elim Hm; reflexivity].
      - (* a referent under the request-wide interval *)
        cbn [opt_list] in Hiv. destruct (rq_nr R) as [g|]; [|destruct Hiv]. destruct (merge_opt _ _); discriminate. }
    destruct (match merge_opt _ _ with Some l => Some l | None => rq_nr R end); [reflexivity|elim Hx; reflexivity].
  Qed.
End Rev2.
