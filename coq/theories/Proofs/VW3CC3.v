(* check_request_data of the W3C verifier model succeeds when every referent is served by some entry and every entry
   names the issuer and credential definition the verifier knows for it. *)
From Coq Require Import List String ZArith NArith Bool Lia.
From AV Require Import Model.Str Model.Encode Model.Query Model.VTypes Model.Interval Model.Eval Model.CL
  Model.VerifierLegacy Model.VerifierW3C Model.VProps Proofs.VMonad Proofs.C04F1 Proofs.C04F6.
From AV Require Import Proofs.VW3CC1 Proofs.VW3CC2.
Import ListNotations.
Local Open Scope string_scope.
Local Open Scope list_scope.
Local Open Scope Z_scope.

Section Data.
  Context (cfg : vcfg).
  Notation wcase := (w3c_cred * (identifier * subproof))%type.

  Definition entries_named (cx : ctx) (cs : list wcase) : Prop :=
    forall c id sp, In (c, (id, sp)) cs ->
      exists cd, assoc (id_creddef id) (cx_creddefs cx) = Some cd /\ cd_issuer cd = wc_issuer c /\ wc_method c = id_creddef id.

  Theorem check_request_data_complete R cx cs :
    (forall r ai n, In (r, ai) (rq_attrs R) -> In n (names_of ai) -> exists l, check_attribute cfg R cx cs n (ai_restr ai) (ai_nr ai) = ROk l) ->
    (forall r pi, In (r, pi) (rq_preds R) -> exists l, check_predicate cfg R cx pi cs = ROk l) ->
    entries_named cx cs ->
    exists needs, check_request_data cfg R cx cs = ROk needs.
  Proof.
    intros Ha Hp Hn. unfold check_request_data.
    match goal with |- context [bind (mapR ?f (rq_attrs R)) _] => destruct (mapR_total f (rq_attrs R)) as [na Hna] end.
    { intros [r ai] Hin.
      assert (H1 : exists l1, match ai_name ai with Some n => check_attribute cfg R cx cs n (ai_restr ai) (ai_nr ai) | None => ROk [] end = ROk l1).
      { destruct (ai_name ai) as [n|] eqn:En; [|eauto]. apply (Ha r ai n Hin). unfold names_of. rewrite En. left. reflexivity. }
      destruct H1 as [l1 H1]. rewrite H1. cbn [bind].
      assert (H2 : exists l2, match ai_names ai with
                              | Some ns => bind (mapR (fun n => check_attribute cfg R cx cs n (ai_restr ai) (ai_nr ai)) ns) (fun ls => ROk (List.concat ls))
                              | None => ROk [] end = ROk l2).
      { destruct (ai_names ai) as [ns|] eqn:En; [|eauto].
        destruct (mapR_total (fun n => check_attribute cfg R cx cs n (ai_restr ai) (ai_nr ai)) ns) as [ls Hls].
        - intros n Hin'. apply (Ha r ai n Hin). unfold names_of. rewrite En. apply in_or_app. right. exact Hin'.
        - rewrite Hls. cbn [bind]. eauto. }
      destruct H2 as [l2 H2]. rewrite H2. cbn [bind]. eauto. }
    rewrite Hna. cbn [bind].
    destruct (mapR_total (fun '(_, pi) => check_predicate cfg R cx pi cs) (rq_preds R)) as [np Hnp].
    { intros [r pi] Hin. exact (Hp r pi Hin). }
    rewrite Hnp. cbn [bind].
    rewrite iter_total; [cbn [bind]; eauto|].
    intros [c [id sp]] Hin. destruct (Hn c id sp Hin) as (cd & Hcd & Hi & Hm).
    rewrite Hcd. cbn [of_opt bind]. rewrite Hi, String.eqb_refl. cbn [guard bind]. rewrite Hm, String.eqb_refl. reflexivity.
  Qed.

  (* with the stage theorems: every name of every attribute referent shown (with the revealed value) or held by the
     schema of an entry whose restriction is true and whose demand is met; every predicate proved by such an entry *)
  Context (Hgate : f_gate_on_creddef cfg = true).
  Definition attr_name_served (R : request) (cx : ctx) (cs : list wcase) (ai : attr_info) (n : string) : Prop :=
    exists c id sp, In (c, (id, sp)) cs /\ restriction_true cfg cx c id (ai_restr ai) /\ demand_met R cx id (ai_nr ai) /\
      ((exists k v, get_attribute c n = Some (k, v) /\ is_ok (verify_value k sp (encode (value_to_string v))) = true)
       \/ (exists sc, assoc (id_schema id) (cx_schemas cx) = Some sc /\ existsb (fun a => String.eqb (cv a) (cv n)) (sc_attrs sc) = true)).
  Definition pred_served (R : request) (cx : ctx) (cs : list wcase) (pi : pred_info) : Prop :=
    exists c id sp k, In (c, (id, sp)) cs /\ restriction_true cfg cx c id (pi_restr pi) /\ demand_met R cx id (pi_nr pi) /\
      get_predicate c (pi_name pi) = Some k /\
      existsb (fun p => pred_eqb p ((if f_w3c_pred_cv cfg then cv k else k), pi_type pi, pi_value pi)) (sp_preds sp) = true.

  Theorem w3c_request_data_complete R cx cs :
    schemas_present cx cs -> entries_named cx cs ->
    (forall r ai n, In (r, ai) (rq_attrs R) -> In n (names_of ai) -> attr_name_served R cx cs ai n) ->
    (forall r pi, In (r, pi) (rq_preds R) -> pred_served R cx cs pi) ->
    exists needs, check_request_data cfg R cx cs = ROk needs.
  Proof.
    intros Hs Hn Ha Hp. apply check_request_data_complete; [| |exact Hn].
    - intros r ai n Hin Hnm. destruct (Ha r ai n Hin Hnm) as (c & id & sp & Hc & Hr & Hd & [(k & v & Hg & Hv)|(sc & Hsc & Hex)]).
      + exact (w3c_attribute_served cfg Hgate R cx cs n _ _ c id sp k v Hs Hc Hg Hv Hr Hd).
      + exact (w3c_unrevealed_attribute_served cfg Hgate R cx cs n _ _ c id sp sc Hs Hc Hsc Hex Hr Hd).
    - intros r pi Hin. destruct (Hp r pi Hin) as (c & id & sp & k & Hc & Hr & Hd & Hg & Hpe).
      exact (w3c_predicate_served cfg Hgate R cx cs pi c id sp k Hc Hg Hpe Hr Hd).
  Qed.
End Data.
