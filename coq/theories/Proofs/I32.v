(* Rust's str::parse::<i32> equals the declarative literal grammar; printing is canonical. *)
From Coq Require Import List String Ascii ZArith NArith Bool Lia DecimalString Decimal DecimalN DecimalPos.
From AV Require Import Model.Str.
Import ListNotations.
Open Scope string_scope.
Open Scope Z_scope.

Ltac zl := unfold i32_max, i32_min in *;
  repeat match goal with H : context [i32_loop] |- _ => clear H end; lia.

Lemma digit_range a d : digit_of a = Some d -> 0 <= d <= 9.
Proof.
  unfold digit_of. destruct (_ && _) eqn:E; [|discriminate]. intros H; inversion H; subst.
  apply andb_prop in E. destruct E as [E1 E2]. apply Z.leb_le in E1, E2. lia.
Qed.

Lemma value_from_mono acc s : 0 <= acc -> acc <= value_from acc s.
Proof.
  revert acc. induction s as [|a r IH]; simpl; intros acc H; [lia|].
  destruct (digit_of a) eqn:E.
  - pose proof (digit_range _ _ E). specialize (IH (acc*10+z)). lia.
  - specialize (IH (acc*10+0)). lia.
Qed.

Lemma loop_pos acc s : 0 <= acc <= i32_max ->
  i32_loop false acc s =
  (if all_digits s && (value_from acc s <=? i32_max) then Some (value_from acc s) else None).
Proof.
  revert acc. induction s as [|a r IH]; intros acc Hacc.
  - cbn [i32_loop all_digits value_from andb].
    destruct (acc <=? i32_max) eqn:E; [reflexivity|apply Z.leb_gt in E; zl].
  - cbn [i32_loop all_digits value_from]. destruct (digit_of a) as [d|] eqn:Ed; [|reflexivity].
    pose proof (digit_range _ _ Ed) as Hd.
    unfold in_i32 at 1. destruct ((i32_min <=? acc * 10) && (acc * 10 <=? i32_max)) eqn:E1.
    + apply andb_prop in E1. destruct E1 as [_ E1]. apply Z.leb_le in E1.
      unfold in_i32. destruct ((i32_min <=? acc * 10 + d) && (acc * 10 + d <=? i32_max)) eqn:E2.
      * apply andb_prop in E2. destruct E2 as [_ E2]. apply Z.leb_le in E2. apply IH. zl.
      * assert (acc*10+d > i32_max).
        { apply andb_false_iff in E2. destruct E2 as [E2|E2]; [apply Z.leb_gt in E2; zl | apply Z.leb_gt in E2; zl]. }
        pose proof (value_from_mono (acc*10+d) r ltac:(zl)).
        destruct (all_digits r); cbn [andb]; [|reflexivity].
        destruct (value_from (acc * 10 + d) r <=? i32_max) eqn:E3; [apply Z.leb_le in E3; zl|reflexivity].
    + assert (acc*10 > i32_max).
      { apply andb_false_iff in E1. destruct E1 as [E1|E1]; [apply Z.leb_gt in E1; zl | apply Z.leb_gt in E1; zl]. }
      pose proof (value_from_mono (acc*10+d) r ltac:(zl)).
      destruct (all_digits r); cbn [andb]; [|reflexivity].
      destruct (value_from (acc * 10 + d) r <=? i32_max) eqn:E3; [apply Z.leb_le in E3; zl|reflexivity].
Qed.

Fixpoint nvalue_from (acc : Z) (s : string) : Z :=
  match s with
  | EmptyString => acc
  | String a r => nvalue_from (acc * 10 - match digit_of a with Some d => d | None => 0 end) r
  end.

Lemma nvalue_from_mono acc s : acc <= 0 -> nvalue_from acc s <= acc.
Proof.
  revert acc. induction s as [|a r IH]; simpl; intros acc H; [zl|].
  destruct (digit_of a) eqn:E.
  - pose proof (digit_range _ _ E). specialize (IH (acc*10-z)). zl.
  - specialize (IH (acc*10-0)). zl.
Qed.

Lemma nvalue_neg acc s : nvalue_from acc s = - value_from (- acc) s.
Proof.
  revert acc. induction s as [|a r IH]; simpl; intros acc; [zl|].
  rewrite IH. f_equal. f_equal. zl.
Qed.

Lemma loop_neg acc s : i32_min <= acc <= 0 ->
  i32_loop true acc s =
  (if all_digits s && (i32_min <=? nvalue_from acc s) then Some (nvalue_from acc s) else None).
Proof.
  revert acc. induction s as [|a r IH]; intros acc Hacc.
  - cbn [i32_loop all_digits nvalue_from andb].
    destruct (i32_min <=? acc) eqn:E; [reflexivity|apply Z.leb_gt in E; zl].
  - cbn [i32_loop all_digits nvalue_from]. destruct (digit_of a) as [d|] eqn:Ed; [|reflexivity].
    pose proof (digit_range _ _ Ed) as Hd.
    unfold in_i32 at 1. destruct ((i32_min <=? acc * 10) && (acc * 10 <=? i32_max)) eqn:E1.
    + apply andb_prop in E1. destruct E1 as [E1 _]. apply Z.leb_le in E1.
      unfold in_i32. destruct ((i32_min <=? acc * 10 - d) && (acc * 10 - d <=? i32_max)) eqn:E2.
      * apply andb_prop in E2. destruct E2 as [E2 _]. apply Z.leb_le in E2. apply IH. zl.
      * assert (acc*10-d < i32_min).
        { apply andb_false_iff in E2. destruct E2 as [E2|E2]; [apply Z.leb_gt in E2; zl | apply Z.leb_gt in E2; zl]. }
        pose proof (nvalue_from_mono (acc*10-d) r ltac:(zl)).
        destruct (all_digits r); cbn [andb]; [|reflexivity].
        destruct (i32_min <=? nvalue_from (acc * 10 - d) r) eqn:E3; [apply Z.leb_le in E3; zl|reflexivity].
    + assert (acc*10 < i32_min).
      { apply andb_false_iff in E1. destruct E1 as [E1|E1]; [apply Z.leb_gt in E1; zl | apply Z.leb_gt in E1; zl]. }
      pose proof (nvalue_from_mono (acc*10-d) r ltac:(zl)).
      destruct (all_digits r); cbn [andb]; [|reflexivity].
      destruct (i32_min <=? nvalue_from (acc * 10 - d) r) eqn:E3; [apply Z.leb_le in E3; zl|reflexivity].
Qed.

Lemma value_nonneg t : 0 <= value t.
Proof. unfold value. apply (value_from_mono 0 t). lia. Qed.

Theorem parse_i32_spec s : parse_i32 s = i32_literal s.
Proof.
  destruct s as [|a r]; [reflexivity|]. unfold parse_i32, i32_literal.
  destruct (Ascii.eqb a "+"%char) eqn:Ep.
  { destruct r as [|b r']; [reflexivity|]. rewrite loop_pos by zl. fold (value (String b r')).
    destruct (all_digits (String b r')); [|reflexivity]. cbn [andb]. unfold in_i32.
    pose proof (value_nonneg (String b r')).
    destruct (value (String b r') <=? i32_max) eqn:E; destruct (i32_min <=? value (String b r')) eqn:E'; try reflexivity.
    apply Z.leb_gt in E'. unfold i32_min in *. zl. }
  destruct (Ascii.eqb a "-"%char) eqn:Em.
  { destruct r as [|b r']; [reflexivity|]. rewrite loop_neg by zl. rewrite nvalue_neg. change (- 0) with 0.
    fold (value (String b r')).
    destruct (all_digits (String b r')); [|reflexivity]. cbn [andb]. unfold in_i32.
    pose proof (value_nonneg (String b r')).
    destruct (i32_min <=? - value (String b r')) eqn:E; destruct (- value (String b r') <=? i32_max) eqn:E'; try reflexivity.
    apply Z.leb_gt in E'. unfold i32_max in *. zl. }
  rewrite loop_pos by zl. fold (value (String a r)).
  destruct (all_digits (String a r)); [|reflexivity]. cbn [andb]. unfold in_i32.
  pose proof (value_nonneg (String a r)).
  destruct (value (String a r) <=? i32_max) eqn:E; destruct (i32_min <=? value (String a r)) eqn:E'; try reflexivity.
  apply Z.leb_gt in E'. unfold i32_min in *. zl.
Qed.

(* ---- printing: the decimal string of n is all digits and has value n ---- *)

Fixpoint uval (acc : N) (d : uint) : N :=
  match d with
  | Nil => acc
  | D0 l => uval (acc * 10) l
  | D1 l => uval (acc * 10 + 1) l
  | D2 l => uval (acc * 10 + 2) l
  | D3 l => uval (acc * 10 + 3) l
  | D4 l => uval (acc * 10 + 4) l
  | D5 l => uval (acc * 10 + 5) l
  | D6 l => uval (acc * 10 + 6) l
  | D7 l => uval (acc * 10 + 7) l
  | D8 l => uval (acc * 10 + 8) l
  | D9 l => uval (acc * 10 + 9) l
  end%N.

Lemma uval_acc d acc : uval (Npos acc) d = Npos (Pos.of_uint_acc d acc).
Proof.
  revert acc. induction d; intros acc; cbn [uval Pos.of_uint_acc]; try reflexivity;
    rewrite <- IHd; f_equal; lia.
Qed.

Lemma uval_of_uint d : uval 0 d = N.of_uint d.
Proof.
  unfold N.of_uint.
  induction d; cbn [uval Pos.of_uint]; try reflexivity; try exact IHd;
    change (0 * 10 + _)%N with (Npos 1) || change (0 * 10 + 2)%N with (Npos 2) || idtac;
    try (rewrite <- uval_acc; reflexivity).
Qed.

Lemma digits_of_uint d acc :
  all_digits (NilEmpty.string_of_uint d) = true /\
  value_from (Z.of_N acc) (NilEmpty.string_of_uint d) = Z.of_N (uval acc d).
Proof.
  revert acc. induction d; intros acc; cbn [NilEmpty.string_of_uint uval];
    [ split; reflexivity | .. ];
    cbn [all_digits value_from];
    match goal with |- context [digit_of ?c] =>
      let v := eval vm_compute in (digit_of c) in change (digit_of c) with v end; cbv iota;
    match goal with |- _ /\ value_from ?x _ = Z.of_N (uval ?y _) =>
      replace x with (Z.of_N y) by lia end; apply IHd.
Qed.

Lemma dec_of_N_digits n : all_digits (dec_of_N n) = true /\ value (dec_of_N n) = Z.of_N n.
Proof.
  unfold dec_of_N, value, NilZero.string_of_uint.
  destruct (N.to_uint n) eqn:E;
    try (rewrite <- E; pose proof (digits_of_uint (N.to_uint n) 0) as [H1 H2]; split; [exact H1|];
         change 0 with (Z.of_N 0); rewrite H2, uval_of_uint, DecimalN.Unsigned.of_to; reflexivity).
  (* Nil: impossible for N.to_uint, but the statement still holds when n = 0 *)
  assert (n = 0%N) as ->.
  { apply DecimalN.Unsigned.to_uint_inj. rewrite E.
    pose proof (DecimalN.Unsigned.of_to n) as H. rewrite E in H. cbn in H. subst n. cbn in E. discriminate. }
  split; reflexivity.
Qed.

Lemma dec_of_N_nonempty n : dec_of_N n <> EmptyString.
Proof.
  unfold dec_of_N, NilZero.string_of_uint. destruct (N.to_uint n); cbn; discriminate.
Qed.

Lemma dec_of_N_head n : exists a r, dec_of_N n = String a r /\ Ascii.eqb a "+"%char = false /\ Ascii.eqb a "-"%char = false.
Proof.
  unfold dec_of_N, NilZero.string_of_uint. destruct (N.to_uint n); cbn [NilEmpty.string_of_uint];
    eexists; eexists; (split; [reflexivity|split; reflexivity]).
Qed.

Theorem parse_print_roundtrip v : in_i32 v = true -> parse_i32 (z_to_string v) = Some v.
Proof.
  intros Hv. rewrite parse_i32_spec. unfold z_to_string.
  unfold in_i32 in Hv. apply andb_prop in Hv. destruct Hv as [H1 H2]. apply Z.leb_le in H1, H2.
  destruct (v <? 0) eqn:Eneg.
  - apply Z.ltb_lt in Eneg. unfold i32_literal. cbn [Ascii.eqb Bool.eqb].
    change (Ascii.eqb "-"%char "+"%char) with false. change (Ascii.eqb "-"%char "-"%char) with true. cbv iota.
    destruct (dec_of_N_digits (Z.to_N (- v))) as [Hd Hval].
    destruct (dec_of_N (Z.to_N (- v))) eqn:E; [exfalso; eapply dec_of_N_nonempty; eauto|].
    rewrite Hd, Hval. rewrite Z2N.id by lia. replace (- - v) with v by lia.
    unfold in_i32. destruct (i32_min <=? v) eqn:A1; destruct (v <=? i32_max) eqn:A2; try reflexivity;
      try apply Z.leb_gt in A1; try apply Z.leb_gt in A2; lia.
  - apply Z.ltb_ge in Eneg.
    destruct (dec_of_N_head (Z.to_N v)) as (a & r & E & Ea & Eb).
    destruct (dec_of_N_digits (Z.to_N v)) as [Hd Hval].
    rewrite E in *. unfold i32_literal. rewrite Ea, Eb. rewrite Hd, Hval. rewrite Z2N.id by lia.
    unfold in_i32. destruct (i32_min <=? v) eqn:A1; destruct (v <=? i32_max) eqn:A2; try reflexivity;
      try apply Z.leb_gt in A1; try apply Z.leb_gt in A2; lia.
Qed.

Lemma parse_i32_range s v : parse_i32 s = Some v -> in_i32 v = true.
Proof.
  rewrite parse_i32_spec. unfold i32_literal. destruct s as [|a r]; [discriminate|].
  destruct (if Ascii.eqb a "+"%char then (false, r) else if Ascii.eqb a "-"%char then (true, r) else (false, String a r)) as [neg ds].
  destruct ds; [discriminate|]. destruct (all_digits _); [|discriminate].
  destruct (in_i32 _) eqn:E; [|discriminate]. intros H; inversion H; subst; exact E.
Qed.

(* parsing the canonical decimal print of any natural number *)
Lemma parse_dec_of_N n : parse_i32 (dec_of_N n) = if (Z.of_N n <=? i32_max) then Some (Z.of_N n) else None.
Proof.
  rewrite parse_i32_spec.
  destruct (dec_of_N_head n) as (a & r & E & Ea & Eb).
  destruct (dec_of_N_digits n) as [Hd Hval].
  rewrite E in *. unfold i32_literal. rewrite Ea, Eb, Hd, Hval.
  unfold in_i32. destruct (Z.of_N n <=? i32_max) eqn:A2; destruct (i32_min <=? Z.of_N n) eqn:A1; try reflexivity.
  apply Z.leb_gt in A1. unfold i32_min in A1. lia.
Qed.
