From Coq Require Import List NArith String.
From AV Require Import Model.Sha256 Model.Tails.
Import ListNotations.
(* base58 test vectors (a test of the model of bs58, labelled as such) *)
Example b58_vectors :
  b58_encode [] = ""%string /\ b58_encode [0; 0; 1]%N = "112"%string /\
  b58_encode (bytes_of_string "Hello World!") = "2NEpo7TZRRrLZSi2U"%string.
Proof. vm_compute. repeat split; reflexivity. Qed.
