(* part 2: the derived subject of an entry *)
From Coq Require Import List String Ascii ZArith NArith Bool Lia.
From AV Require Import Model.Str Model.Encode Model.Query Model.VTypes Model.Interval Model.Eval Model.CL Model.VerifierLegacy Model.VerifierW3C
  Model.VCfg Model.Prover Model.PProps Proofs.VMonad Proofs.C04F1 Proofs.C04F6 Proofs.C07Proofs Proofs.I32 Proofs.EncodeProofs.
From AV Require Import Proofs.C04W1.
Import ListNotations.
Local Open Scope string_scope.
Local Open Scope list_scope.
Local Open Scope Z_scope.

Lemma find_some_iff {A} (f : A -> bool) l : (exists x, In x l /\ f x = true) -> exists y, find f l = Some y.
Proof.
  induction l as [|a r IH]; intros (x & Hin & Hf); [destruct Hin|]. cbn [find]. destruct (f a) eqn:Ea; [eauto|].
  destruct Hin as [->|Hin]; [congruence|]. apply IH. eauto.
Qed.
Lemma find_ext {A} (f g : A -> bool) l : (forall x, f x = g x) -> find f l = find g l.
Proof. intros H. induction l as [|a r IH]; [reflexivity|]. cbn [find]. rewrite H, IH. reflexivity. Qed.

Lemma get_ci_key c n k v : get_ci c n = Some (k, v) -> cv k = cv n /\ In (k, v) (wc_subject c).
Proof.
  unfold get_ci. intros H. apply find_some in H. destruct H as [Hin Hk]. cbn [fst] in Hk. apply String.eqb_eq in Hk. split; assumption.
Qed.
Lemma get_ci_same c n n' : cv n = cv n' -> get_ci c n = get_ci c n'.
Proof. intros H. unfold get_ci. apply find_ext. intros x. rewrite H. reflexivity. Qed.

Section Subject.
  Context (R : request) (c : hcred).
  Notation W := (as_w3c c).

  (* every entry of a derived subject is a first match of the credential's subject *)
  Definition firsts (s : list (string * attr_value)) : Prop := forall k v, In (k, v) s -> get_ci W k = Some (k, v).
  Lemma get_ci_first n k v : get_ci W n = Some (k, v) -> get_ci W k = Some (k, v).
  Proof. intros H. destruct (get_ci_key _ _ _ _ H) as [Hk _]. rewrite (get_ci_same W k n Hk). exact H. Qed.
  Lemma subj_add_firsts k v s : get_ci W k = Some (k, v) -> firsts s -> firsts (subj_add k v s).
  Proof.
    intros Hk Hs k' v' [E|Hin]; [inversion E; subst; exact Hk|]. apply filter_In in Hin. destruct Hin as [Hin _]. exact (Hs _ _ Hin).
  Qed.
  (* a pair already present stays present when another is added *)
  Lemma subj_add_keeps k v s k' v' : firsts s -> get_ci W k = Some (k, v) -> In (k', v') s -> In (k', v') (subj_add k v s).
  Proof.
    intros Hs Hk Hin. destruct (String.eqb_spec k' k) as [->|N].
    - pose proof (Hs _ _ Hin) as H'. rewrite Hk in H'. inversion H'; subst. left. reflexivity.
    - right. apply filter_In. split; [exact Hin|]. cbn [fst]. apply negb_true_iff. apply String.eqb_neq. exact N.
  Qed.

  Lemma subj_add_nodup k v s : NoDup (keys s) -> NoDup (keys (subj_add k v s)).
  Proof.
    intros H. unfold subj_add. cbn [keys map fst]. constructor.
    - intros Hin. apply in_map_iff in Hin as ([k' v'] & Hk & Hf). cbn [fst] in Hk. subst k'. apply filter_In in Hf as [_ Hf]. cbn [fst] in Hf.
      rewrite String.eqb_refl in Hf. discriminate.
    - clear -H. induction s as [|[a b] r IH]; [constructor|]. cbn [List.filter fst]. cbn [keys map fst] in H. inversion H as [|x l Hx Hnd]; subst.
      destruct (negb (String.eqb a k)); [|exact (IH Hnd)]. cbn [keys map fst]. constructor; [|exact (IH Hnd)].
      intros Hin. apply Hx. apply in_map_iff in Hin as (y & Hy & Hf). apply filter_In in Hf as [Hf _]. apply in_map_iff. exists y. auto.
  Qed.
  (* the inner fold over the names of a group *)
  Definition name_step (reveal : bool) (a : res (list (string * attr_value))) (n : string) : res (list (string * attr_value)) :=
    bind a (fun s' => bind (of_opt (get_ci W n)) (fun kv => ROk (if reveal || negb (pf_group_reveal pcfg_fixed) then subj_add (fst kv) (snd kv) s' else s'))).
  Lemma fold_names_err reveal ns : forall a, (forall s, a <> ROk s) -> forall s', fold_left (name_step reveal) ns a <> ROk s'.
  Proof.
    induction ns as [|n ns IH]; intros a Ha s'; cbn [fold_left]; [apply Ha|]. apply IH. intros s. unfold name_step. destruct a as [s0| |]; [elim (Ha s0); reflexivity|discriminate|discriminate].
  Qed.
  Lemma fold_names_inv reveal ns : forall s s', firsts s -> fold_left (name_step reveal) ns (ROk s) = ROk s' ->
    firsts s' /\ (forall kv, In kv s -> In kv s') /\
    (forall kv, In kv s' -> In kv s \/ (reveal = true /\ exists n, In n ns /\ get_ci W n = Some kv)) /\
    (reveal = true -> forall n, In n ns -> exists kv, get_ci W n = Some kv /\ In kv s') /\
    (NoDup (keys s) -> NoDup (keys s')).
  Proof.
    induction ns as [|n ns IH]; intros s s' Hs H; cbn [fold_left] in H.
    - inversion H; subst s'. split; [exact Hs|]. split; [auto|]. split; [auto|]. split; [intros _ n []|auto].
    - destruct (name_step reveal (ROk s) n) as [s1| |] eqn:E1; try (exfalso; eapply (fold_names_err reveal ns); [|exact H]; intros s0; discriminate).
      unfold name_step in E1. cbn [bind] in E1. apply bind_ok in E1 as ([k v] & Hkv & E1). apply of_opt_ok in Hkv. cbn [fst snd pf_group_reveal pcfg_fixed negb] in E1.
      rewrite orb_false_r in E1. inversion E1; subst s1. clear E1. pose proof (get_ci_first _ _ _ Hkv) as Hf.
      destruct reveal.
      + destruct (IH _ _ (subj_add_firsts k v s Hf Hs) H) as (F2 & K2 & O2 & N2 & D2). split; [exact F2|]. split; [|split; [|split]].
        * intros kv Hin. apply K2. destruct kv as [k' v']. apply subj_add_keeps; assumption.
        * intros kv Hin. destruct (O2 kv Hin) as [Hin1|(_ & n' & Hn' & Hg')]; [|right; split; [reflexivity|]; exists n'; split; [right; exact Hn'|exact Hg']].
          destruct Hin1 as [E|Hin1]; [right; split; [reflexivity|]; exists n; subst kv; split; [left; reflexivity|exact Hkv]|left; apply filter_In in Hin1; tauto].
        * intros _ n' [<-|Hn']; [exists (k, v); split; [exact Hkv|apply K2; left; reflexivity]|exact (N2 eq_refl n' Hn')].
        * intros Hd. apply D2. apply subj_add_nodup. exact Hd.
      + destruct (IH _ _ Hs H) as (F2 & K2 & O2 & N2 & D2). split; [exact F2|]. split; [exact K2|]. split; [|split; [intros Hx; discriminate|exact D2]].
        intros kv Hin. destruct (O2 kv Hin) as [Hin1|(Hx & _)]; [left; exact Hin1|discriminate].
  Qed.

  Lemma subj_attr_inv s x s' : firsts s -> subj_attr pcfg_fixed R c s x = ROk s' ->
    firsts s' /\ (forall kv, In kv s -> In kv s') /\
    (forall kv, In kv s' -> In kv s \/ (snd x = true /\ exists ai n, assoc (fst x) (rq_attrs R) = Some ai /\ In n (names_of ai) /\ get_ci W n = Some kv)) /\
    (snd x = true -> forall ai n, assoc (fst x) (rq_attrs R) = Some ai -> In n (names_of ai) -> exists kv, get_ci W n = Some kv /\ In kv s') /\
    (NoDup (keys s) -> NoDup (keys s')).
  Proof.
    destruct x as [r reveal]. unfold subj_attr. intros Hs H.
    apply bind_ok in H as (ai & Hai & H). apply of_opt_ok in Hai.
    apply bind_ok in H as (s1 & H1 & H). cbn [fst snd].
    (* the single name *)
    assert (A1 : firsts s1 /\ (forall kv, In kv s -> In kv s1) /\
                 (forall kv, In kv s1 -> In kv s \/ (reveal = true /\ exists n, ai_name ai = Some n /\ get_ci W n = Some kv)) /\
                 (reveal = true -> forall n, ai_name ai = Some n -> exists kv, get_ci W n = Some kv /\ In kv s1) /\
                 (NoDup (keys s) -> NoDup (keys s1))).
    { destruct (ai_name ai) as [n|] eqn:En.
      - apply bind_ok in H1 as ([k v] & Hkv & H1). apply of_opt_ok in Hkv. cbn [fst snd] in H1. inversion H1; subst s1. clear H1.
        pose proof (get_ci_first _ _ _ Hkv) as Hf. destruct reveal.
        + split; [apply subj_add_firsts; assumption|]. split; [intros [k' v'] Hin; apply subj_add_keeps; assumption|]. split; [|split].
          * intros kv [E|Hin]; [right; split; [reflexivity|]; exists n; subst kv; auto|left; apply filter_In in Hin; tauto].
          * intros _ n' Hn'. inversion Hn'; subst n'. exists (k, v). split; [exact Hkv|left; reflexivity].
          * apply subj_add_nodup.
        + split; [exact Hs|]. split; [auto|]. split; [auto|]. split; [intros Hx; discriminate|auto].
      - inversion H1; subst s1. split; [exact Hs|]. split; [auto|]. split; [auto|]. split; [intros _ n Hn; discriminate|auto]. }
    destruct A1 as (F1 & K1 & O1 & N1 & D1).
    destruct (ai_names ai) as [ns|] eqn:Ens.
    - change (fold_left (name_step reveal) ns (ROk s1) = ROk s') in H.
      destruct (fold_names_inv reveal ns s1 s' F1 H) as (F2 & K2 & O2 & N2 & D2). split; [exact F2|]. split; [auto|]. split; [|split].
      + intros kv Hin. destruct (O2 kv Hin) as [Hin1|(Hr & n & Hn & Hg)].
        * destruct (O1 kv Hin1) as [Hin0|(Hr & n & Hn & Hg)]; [left; exact Hin0|].
          right. split; [exact Hr|]. exists ai, n. split; [exact Hai|]. split; [unfold names_of; rewrite Hn; left; reflexivity|exact Hg].
        * right. split; [exact Hr|]. exists ai, n. split; [exact Hai|]. split; [unfold names_of; rewrite Ens; apply in_or_app; right; exact Hn|exact Hg].
      + intros Hr ai' n Hai' Hn. rewrite Hai in Hai'. inversion Hai'; subst ai'. unfold names_of in Hn. rewrite Ens in Hn. apply in_app_or in Hn as [Hn|Hn].
        * destruct (ai_name ai) as [n0|] eqn:En0; [|destruct Hn]. destruct Hn as [<-|[]]. destruct (N1 Hr n0 eq_refl) as (kv & A & B). exists kv. split; [exact A|apply K2; exact B].
        * exact (N2 Hr n Hn).
      + intros Hd. exact (D2 (D1 Hd)).
    - inversion H; subst s'. split; [exact F1|]. split; [exact K1|]. split; [|split].
      + intros kv Hin. destruct (O1 kv Hin) as [Hin0|(Hr & n & Hn & Hg)]; [left; exact Hin0|].
        right. split; [exact Hr|]. exists ai, n. split; [exact Hai|]. split; [unfold names_of; rewrite Hn; left; reflexivity|exact Hg].
      + intros Hr ai' n Hai' Hn. rewrite Hai in Hai'. inversion Hai'; subst ai'. unfold names_of in Hn. rewrite Ens, app_nil_r in Hn.
        destruct (ai_name ai) as [n0|] eqn:En0; [|destruct Hn]. destruct Hn as [<-|[]]. exact (N1 Hr n0 eq_refl).
      + exact D1.
  Qed.

  Lemma foldR_attr_inv l : forall s s', firsts s -> foldR (subj_attr pcfg_fixed R c) l s = ROk s' ->
    firsts s' /\ (forall kv, In kv s -> In kv s') /\
    (forall kv, In kv s' -> In kv s \/ exists r ai n, In (r, true) l /\ assoc r (rq_attrs R) = Some ai /\ In n (names_of ai) /\ get_ci W n = Some kv) /\
    (forall r ai n, In (r, true) l -> assoc r (rq_attrs R) = Some ai -> In n (names_of ai) -> exists kv, get_ci W n = Some kv /\ In kv s') /\
    (NoDup (keys s) -> NoDup (keys s')).
  Proof.
    induction l as [|x l IH]; intros s s' Hs H; cbn [foldR] in H.
    - inversion H; subst s'. split; [exact Hs|]. split; [auto|]. split; [auto|]. split; [intros r ai n []|auto].
    - apply bind_ok in H as (s1 & H1 & H). destruct (subj_attr_inv s x s1 Hs H1) as (F1 & K1 & O1 & N1 & D1).
      destruct (IH s1 s' F1 H) as (F2 & K2 & O2 & N2 & D2). split; [exact F2|]. split; [auto|]. split; [|split].
      + intros kv Hin. destruct (O2 kv Hin) as [Hin1|(r & ai & n & Hr & Hr')]; [|right; exists r, ai, n; split; [right; exact Hr|exact Hr']].
        destruct (O1 kv Hin1) as [Hin0|(Hx & ai & n & A & B & C)]; [left; exact Hin0|].
        right. exists (fst x), ai, n. split; [left; destruct x as [r b]; cbn [fst snd] in *; subst b; reflexivity|auto].
      + intros r ai n [E|Hin] Hai Hn.
        * subst x. cbn [fst snd] in N1. destruct (N1 eq_refl ai n Hai Hn) as (kv & A & B). exists kv. split; [exact A|apply K2; exact B].
        * exact (N2 r ai n Hin Hai Hn).
      + intros Hd. exact (D2 (D1 Hd)).
  Qed.
  (* the predicate steps: a marker under the credential's own key for every predicate attribute; nothing else changes *)
  Definition fkeys (s : list (string * attr_value)) : Prop := forall k v, In (k, v) s -> exists v0, get_ci W k = Some (k, v0).
  Lemma firsts_fkeys s : firsts s -> fkeys s.
  Proof. intros H k v Hin. exists v. exact (H _ _ Hin). Qed.
  Lemma subj_pred_inv s r s' : fkeys s -> NoDup (keys s) -> subj_pred R c s r = ROk s' ->
    fkeys s' /\ NoDup (keys s') /\ (forall kv, In kv s -> In kv s') /\
    (forall k v, In (k, v) s' -> In (k, v) s \/ v = VBool true) /\
    (forall pi, assoc r (rq_preds R) = Some pi -> exists k v0 b, get_ci W (pi_name pi) = Some (k, v0) /\ In (k, VBool b) s').
  Proof.
    unfold subj_pred. intros Hf Hn H. apply bind_ok in H as (pi & Hpi & H). apply of_opt_ok in Hpi.
    apply bind_ok in H as ([k v0] & Hkv & H). apply of_opt_ok in Hkv. cbn [fst] in H.
    destruct (assoc k s) as [[s0|z|b]|] eqn:Ea; try discriminate.
    - inversion H; subst s'. split; [exact Hf|]. split; [exact Hn|]. split; [auto|]. split; [auto|].
      intros pi' Hpi'. rewrite Hpi in Hpi'. inversion Hpi'; subst pi'. exists k, v0, b. split; [exact Hkv|exact (assoc_In _ _ _ Ea)].
    - inversion H; subst s'. split; [|split; [|split; [|split]]].
      + intros k' v' [E|Hin]; [inversion E; subst; exists v0; exact (get_ci_first _ _ _ Hkv)|exact (Hf _ _ Hin)].
      + cbn [keys map fst]. constructor; [|exact Hn]. intros Hin. apply in_map_iff in Hin as ([k' v'] & Hk & Hin). cbn [fst] in Hk. subst k'.
        assert (Hc : assoc k s <> None).
        { clear -Hin. induction s as [|[a b] r0 IH]; [destruct Hin|]. cbn [assoc]. destruct (String.eqb_spec a k); [discriminate|]. destruct Hin as [E|Hin]; [inversion E; congruence|exact (IH Hin)]. }
        contradiction.
      + intros kv Hin. right. exact Hin.
      + intros k' v' [E|Hin]; [inversion E; subst; right; reflexivity|left; exact Hin].
      + intros pi' Hpi'. rewrite Hpi in Hpi'. inversion Hpi'; subst pi'. exists k, v0, true. split; [exact Hkv|left; reflexivity].
  Qed.
  Lemma foldR_pred_inv l : forall s s', fkeys s -> NoDup (keys s) -> foldR (subj_pred R c) l s = ROk s' ->
    fkeys s' /\ NoDup (keys s') /\ (forall kv, In kv s -> In kv s') /\
    (forall k v, In (k, v) s' -> In (k, v) s \/ v = VBool true) /\
    (forall r pi, In r l -> assoc r (rq_preds R) = Some pi -> exists k v0 b, get_ci W (pi_name pi) = Some (k, v0) /\ In (k, VBool b) s').
  Proof.
    induction l as [|r l IH]; intros s s' Hf Hn H; cbn [foldR] in H.
    - inversion H; subst s'. split; [exact Hf|]. split; [exact Hn|]. split; [auto|]. split; [auto|]. intros r pi [].
    - apply bind_ok in H as (s1 & H1 & H). destruct (subj_pred_inv s r s1 Hf Hn H1) as (F1 & N1 & K1 & O1 & P1).
      destruct (IH s1 s' F1 N1 H) as (F2 & N2 & K2 & O2 & P2). split; [exact F2|]. split; [exact N2|]. split; [auto|]. split.
      + intros k v Hin. destruct (O2 k v Hin) as [Hin1|Hv]; [|right; exact Hv]. exact (O1 k v Hin1).
      + intros r' pi [E|Hin] Hpi.
        * subst r'. destruct (P1 pi Hpi) as (k & v0 & b & Hg & Hin1). exists k, v0, b. split; [exact Hg|apply K2; exact Hin1].
        * exact (P2 r' pi Hin Hpi).
  Qed.
End Subject.
