From Coq Require Import List String Ascii ZArith NArith Bool Lia.
From AV Require Import Model.Str Model.Encode Model.Query Model.VTypes Model.Interval Model.Eval Model.CL Model.VerifierLegacy Model.VerifierW3C
  Model.VCfg Model.Prover Model.PProps Proofs.VMonad Proofs.C07Proofs Proofs.C04Proofs.
From AV Require Import Proofs.C04F1 Proofs.C04F2 Proofs.C04F3 Proofs.C04F4 Proofs.C04F5 Proofs.C04F6 Proofs.C04F7.
Import ListNotations.
Local Open Scope string_scope.
Local Open Scope list_scope.
Local Open Scope Z_scope.

Lemma fold_merge_none {A} (f : A -> option interval) l : (forall x, In x l -> f x = None) ->
  fold_left (fun acc x => merge_opt acc (f x)) l None = None.
Proof. induction l as [|x r IH]; intros H; [reflexivity|]. cbn [fold_left]. rewrite (H x (or_introl eq_refl)). cbn [merge_opt]. apply IH. intros y Hy. apply H. right. exact Hy. Qed.
Lemma mapR_assoc_total {V} (m : list (string * V)) l : (forall r, In r l -> In r (keys m)) ->
  exists l', mapR (fun r => of_opt (assoc r m)) l = ROk l' /\ Forall2 (fun r v => In (r, v) m) l l'.
Proof.
  induction l as [|x r IH]; intros H; [exists []; split; [reflexivity|constructor]|]. cbn [mapR].
  destruct (assoc_some_of_key x m (H x (or_introl eq_refl))) as [v Hv]. rewrite Hv. cbn [of_opt bind].
  destruct (IH (fun y Hy => H y (or_intror Hy))) as (l' & Hl' & HF). rewrite Hl'. cbn [bind].
  exists (v :: l'). split; [reflexivity|]. constructor; [exact (assoc_In _ _ _ Hv)|exact HF].
Qed.
Lemma set_eqb_sym a b : set_eqb a b = set_eqb b a.
Proof. unfold set_eqb. apply andb_comm. Qed.
Lemma pred_eqb_refl p : pred_eqb p p = true.
Proof. destruct p as [[n t] v]. unfold pred_eqb. rewrite String.eqb_refl, Z.eqb_refl. destruct t; reflexivity. Qed.

Lemma flat_map_nil_all {A B} (f : A -> list B) l : (forall x, In x l -> f x = []) -> flat_map f l = [].
Proof. induction l as [|x r IH]; intros H; [reflexivity|]. cbn [flat_map]. rewrite (H x (or_introl eq_refl)). apply IH. intros y Hy. apply H. right. exact Hy. Qed.

Section Plain5.
  Context (R : request) (cx : ctx) (link : N) (ps : list present) (self : list (string * string)) (P : presentation).
  Notation E := (nonempty ps).
  Context (Hcreate : create_legacy pcfg_fixed R cx link ps self = ROk P).
  Context (Hcov : coverage (mk_case R cx link ps self) = true).
  Context (Hcred : forall p, In p E -> cred_honest cx link (pr_cred p) = true).
  Context (Hplain_a : forall r ai, In (r, ai) (rq_attrs R) -> ai_restr ai = None /\ ai_nr ai = None).
  Context (Hplain_p : forall r pi, In (r, pi) (rq_preds R) -> pi_restr pi = None /\ pi_nr pi = None).
  Context (Hnr : rq_nr R = None).
  Context (Hnorev : forall p, In p E -> hc_revreg (pr_cred p) = None).
  Context (Hunrev_names : forall p r ai n, In p E -> In (r, false) (pr_attrs p) -> assoc r (rq_attrs R) = Some ai -> In n (names_of ai) ->
                            In (cv n) (keys (fed_legacy (pr_cred p)))).

  Let BF := build_facts R cx link ps self P Hcreate.

  (* ---- stage 4: no restrictions, nothing to evaluate ---- *)
  Lemma stage_restrictions a b : check_restrictions cfg_fixed R P cx a b = ROk tt.
  Proof.
    unfold check_restrictions.
    assert (T1 : flat_map (fun '(_, ai) => flat_map names (opt_list (ai_restr ai))) (rq_attrs R) = []).
    { apply flat_map_nil_all. intros [r ai] Hin. destruct (Hplain_a r ai Hin) as [-> _]. reflexivity. }
    assert (T2 : flat_map (fun '(_, pi) => flat_map names (opt_list (pi_restr pi))) (rq_preds R) = []).
    { apply flat_map_nil_all. intros [r pi] Hin. destruct (Hplain_p r pi Hin) as [-> _]. reflexivity. }
    rewrite T1, T2. cbn [app mem existsb andb negb guard bind].
    rewrite iter_total; [cbn [bind]|].
    - apply iter_total. intros [r pi] Hin. destruct (Hplain_p r pi Hin) as [-> _]. reflexivity.
    - intros [r ai] Hin. apply filter_In in Hin as [Hin _]. destruct (Hplain_a r ai Hin) as [-> _]. reflexivity.
  Qed.

  (* ---- stage 5: one identifier ---- *)
  Lemma entry_facts p : In p E -> exists sc cd,
    assoc (hc_schema (pr_cred p)) (cx_schemas cx) = Some sc /\ assoc (hc_creddef (pr_cred p)) (cx_creddefs cx) = Some cd /\
    cd_revkey cd = None /\ cd_key cd = src_key (hc_src (pr_cred p)) /\ src_altered (hc_src (pr_cred p)) = false /\
    src_cred_link (hc_src (pr_cred p)) = link /\ values_agree (fed_legacy (pr_cred p)) (src_values (hc_src (pr_cred p))) = true /\
    set_eqb (map cv (sc_attrs sc)) (src_attrs (hc_src (pr_cred p))) = true.
  Proof.
    intros Hp. pose proof (Hcred p Hp) as H. unfold cred_honest in H. rewrite !andb_true_iff in H.
    destruct H as [[[[[Halt Hlink] Hcd] Hva] _] _].
    destruct (assoc (hc_creddef (pr_cred p)) (cx_creddefs cx)) as [cd|]; [|discriminate].
    destruct (assoc (hc_schema (pr_cred p)) (cx_schemas cx)) as [sc|]; [|discriminate].
    rewrite !andb_true_iff in Hcd. destruct Hcd as [[[[Hk _] _] Hattrs] Hrev].
    exists sc, cd. split; [reflexivity|]. split; [reflexivity|].
    rewrite (Hnorev p Hp) in Hrev. cbn in Hrev. split; [destruct (cd_revkey cd); [discriminate|reflexivity]|].
    split; [apply N.eqb_eq; exact Hk|]. split; [apply negb_true_iff; exact Halt|]. split; [apply N.eqb_eq; exact Hlink|].
    split; [exact Hva|]. rewrite set_eqb_sym. exact Hattrs.
  Qed.

  Definition sub_of (p : present) (sp : subproof) (x : cl_sub) : Prop :=
    exists sc cd, assoc (hc_schema (pr_cred p)) (cx_schemas cx) = Some sc /\ assoc (hc_creddef (pr_cred p)) (cx_creddefs cx) = Some cd /\
                  x = (sp, cd_key cd, map cv (sc_attrs sc), None).

  Lemma served_preds_char k p : at_idx E 0 k p -> forall r, In r (served_pred_refs P k) <-> In r (pr_preds p).
  Proof.
    intros Hat r. destruct BF as [_ _ _ _ Bp _ _ _ _]. unfold served_pred_refs. rewrite in_map_iff. split.
    - intros ([r' j] & <- & Hf). apply filter_In in Hf as [Hin Hj]. apply Z.eqb_eq in Hj. subst j. cbn [fst].
      apply Bp in Hin as (k' & p' & Hat' & Hr & Hk). subst k'. destruct Hat as [_ H1], Hat' as [_ H2]. rewrite H1 in H2. injection H2 as <-. exact Hr.
    - intros Hr. exists (r, k). split; [reflexivity|]. apply filter_In. split; [|apply Z.eqb_refl]. apply Bp. exists k, p. auto.
  Qed.

  Lemma step_ok regmap k p : at_idx E 0 k p -> exists sp x,
    nthZ (p_proofs P) k = Some sp /\ sub_of p sp x /\
    (local <- local_interval cfg_fixed R P k ;;
     cd <- of_opt (assoc (id_creddef (ident_of p)) (cx_creddefs cx)) ;;
     needed <- interval_check cfg_fixed R cx cd local (ident_of p) ;;
     sp' <- of_opt (nthZ (p_proofs P) k) ;;
     _ <- require_nrp cfg_fixed needed sp' ;;
     _ <- check_requested_preds cfg_fixed R P k sp' ;;
     _ <- check_unrevealed_names cfg_fixed R P cx k (ident_of p) ;;
     add_sub_proof cfg_fixed cx regmap sp' (ident_of p)) = ROk x.
  Proof.
    intros Hat. pose proof (at_idx_in _ _ _ Hat) as Hp.
    destruct BF as [_ Br Bg Bu Bp _ _ Bai _].
    destruct (entry_facts p Hp) as (sc & cd & Hsc & Hcd & Hrk & _).
    destruct (sub_at R cx link ps self P Hcreate k p Hat) as (sp & Hsp & Hpr).
    destruct (sub_inv R cx link k p sp Hpr) as (sc' & cd' & ais & uis & pis & Hsc' & Hcd' & Hais & Huis & Hpis & nrpo & Hnone & Hpv).
    rewrite Hsc in Hsc'. injection Hsc' as <-. rewrite Hcd in Hcd'. injection Hcd' as <-.
    exists sp, (sp, cd_key cd, map cv (sc_attrs sc), None). split; [exact Hsp|]. split; [exists sc, cd; auto|].
    (* local interval: every served referent is in the request, none carries an interval *)
    unfold local_interval.
    assert (Ha : forall r, In r (served_attr_refs cfg_fixed P k) -> In r (keys (rq_attrs R))).
    { intros r Hr. unfold served_attr_refs in Hr. cbn [f_unrev_intervals cfg_fixed] in Hr. rewrite !in_app_iff in Hr.
      apply (cov_attrs R cx link ps self Hcov). left. apply (sel_refs_E ps).
      destruct Hr as [Hr|[Hr|Hr]]; apply in_map_iff in Hr as ([r' v] & <- & Hf); apply filter_In in Hf as [Hin _]; cbn [fst].
      - apply Br in Hin as (k' & p' & Hat' & (Hb & _)). exists p', true. split; [exact (at_idx_in _ _ _ Hat')|exact Hb].
      - apply Bg in Hin as (k' & p' & Hat' & (Hb & _)). exists p', true. split; [exact (at_idx_in _ _ _ Hat')|exact Hb].
      - apply Bu in Hin as (k' & p' & Hat' & (Hb & _)). exists p', false. split; [exact (at_idx_in _ _ _ Hat')|exact Hb]. }
    destruct (mapR_assoc_total (rq_attrs R) _ Ha) as (lais & -> & HFa). cbn [bind].
    assert (Hpp : forall r, In r (served_pred_refs P k) -> In r (keys (rq_preds R))).
    { intros r Hr. apply (served_preds_char k p Hat) in Hr. apply (cov_preds R cx link ps self Hcov). apply (sel_preds_E ps). exists p. auto. }
    destruct (mapR_assoc_total (rq_preds R) _ Hpp) as (lpis & -> & HFp). cbn [bind].
    rewrite (fold_merge_none ai_nr lais), (fold_merge_none pi_nr lpis).
    2:{ intros pi Hin. destruct (Forall2_in_r _ _ _ _ HFp Hin) as (r & _ & Hr). exact (proj2 (Hplain_p r pi Hr)). }
    2:{ intros ai Hin. destruct (Forall2_in_r _ _ _ _ HFa Hin) as (r & _ & Hr). exact (proj2 (Hplain_a r ai Hr)). }
    cbn [merge_opt bind ident_of id_creddef]. rewrite Hcd. cbn [of_opt bind].
    unfold interval_check. rewrite Hrk. cbn [bind]. rewrite Hsp. cbn [of_opt bind].
    unfold require_nrp. cbn [negb orb guard bind].
    (* requested predicates are proven *)
    unfold check_requested_preds. cbn [f_check_preds cfg_fixed].
    rewrite iter_total; [cbn [bind]|].
    2:{ intros r Hr. apply (served_preds_char k p Hat) in Hr. destruct (Forall2_in_l _ _ _ _ Hpis Hr) as (pi & Hpi & Hassoc).
        rewrite Hassoc. cbn [of_opt bind]. apply guard_true. rewrite (pv_preds _ _ _ _ _ _ _ _ _ Hpv).
        apply existsb_exists. exists (cv (pi_name pi), pi_type pi, pi_value pi). split; [|apply pred_eqb_refl].
        apply in_map_iff. exists pi. auto. }
    (* unrevealed names belong to the schema *)
    unfold check_unrevealed_names. cbn [f_unrev_in_schema cfg_fixed ident_of id_schema]. rewrite Hsc. cbn [of_opt bind].
    rewrite iter_total; [cbn [bind]|].
    2:{ intros [r j] Hin. destruct (Z.eqb_spec j k) as [->|N]; [|reflexivity].
        apply Bu in Hin as (k' & p' & Hat' & (Hb & Hk)). subst k'.
        assert (p' = p) by (destruct Hat as [_ H1], Hat' as [_ H2]; rewrite H1 in H2; injection H2 as <-; reflexivity). subst p'.
        assert (Hrk' : In r (keys (rq_attrs R))).
        { apply (cov_attrs R cx link ps self Hcov). left. apply (sel_refs_E ps). exists p, false. auto. }
        destruct (assoc_some_of_key r _ Hrk') as [ai Hai]. rewrite Hai. cbn [of_opt bind]. apply guard_true.
        apply forallb_forall. intros n Hn. fold (names_of ai) in Hn.
        pose proof (Hunrev_names p r ai n Hp Hb Hai Hn) as Hk.
        apply mem_In. exact (proj1 (set_eqb_elim _ _ (pv_attrs _ _ _ _ _ _ _ _ _ Hpv) _) Hk). }
    (* the sub-proof is registered under the definition's key *)
    unfold add_sub_proof. cbn [ident_of id_schema id_creddef id_revreg id_ts]. rewrite Hsc, Hcd. cbn [of_opt bind].
    rewrite (Hnorev p Hp). cbn [bind].
    assert (G1 : subset (keys (sp_revealed sp)) (map cv (sc_attrs sc)) = true).
    { apply subset_spec. intros n Hn. apply in_keys in Hn as [e He].
      destruct (pv_rev_out _ _ _ _ _ _ _ _ _ Hpv _ _ He) as [_ Hassoc].
      apply (proj1 (set_eqb_elim _ _ (pv_attrs _ _ _ _ _ _ _ _ _ Hpv) _)). apply in_keys. exists e. exact (assoc_In _ _ _ Hassoc). }
    rewrite G1. cbn [guard bind].
    assert (G2 : subset (map (fun p0 : string * ptype * Z => fst (fst p0)) (sp_preds sp)) (map cv (sc_attrs sc)) = true).
    { apply subset_spec. intros n Hn. apply in_map_iff in Hn as (pr & <- & Hpr'). rewrite (pv_preds _ _ _ _ _ _ _ _ _ Hpv) in Hpr'.
      pose proof (pv_preds_in _ _ _ _ _ _ _ _ _ Hpv) as Hall. rewrite forallb_forall in Hall. specialize (Hall _ Hpr'). apply mem_In in Hall.
      exact (proj1 (set_eqb_elim _ _ (pv_attrs _ _ _ _ _ _ _ _ _ Hpv) _) Hall). }
    rewrite G2. cbn [guard bind].
    rewrite (pv_preds _ _ _ _ _ _ _ _ _ Hpv), (pv_no_overflow _ _ _ _ _ _ _ _ _ Hpv). cbn [f_pred_range cfg_fixed negb orb guard bind].
    rewrite Hrk. reflexivity.
  Qed.

  Lemma loop_ok regmap : forall (l : list present) k0, 0 <= k0 -> (forall j p, nthZ l j = Some p -> at_idx E 0 (k0 + j) p) ->
    exists subs, loop_ids cfg_fixed R P cx regmap (map ident_of l) k0 = ROk subs /\
                 Forall2 (fun kp x => exists sp, nthZ (p_proofs P) (fst kp) = Some sp /\ sub_of (snd kp) sp x) (idx_from k0 l) subs.
  Proof.
    induction l as [|p l IH]; intros k0 Hk Hl; cbn [map loop_ids idx_from]; [exists []; split; [reflexivity|constructor]|].
    assert (Hat : at_idx E 0 k0 p) by (rewrite <- (Z.add_0_r k0); apply Hl; reflexivity).
    destruct (step_ok regmap k0 p Hat) as (sp & x & Hsp & Hsub & Hstep).
    destruct (IH (k0 + 1) ltac:(lia)) as (subs & Hsubs & HF).
    { intros j q Hj. replace (k0 + 1 + j) with (k0 + (j + 1)) by lia. apply Hl.
      assert (0 <= j) by (destruct (Z_lt_le_dec j 0); [rewrite nthZ_neg in Hj by lia; discriminate|lia]).
      rewrite nthZ_shift by lia. exact Hj. }
    exists (x :: subs). split; [|constructor; [exists sp; auto|exact HF]].
    (* re-associate the binds of one loop step *)
    revert Hstep. cbn [ident_of id_creddef].
    destruct (local_interval cfg_fixed R P k0) as [local| |]; cbn [bind]; try discriminate.
    destruct (of_opt (assoc (hc_creddef (pr_cred p)) (cx_creddefs cx))) as [cd| |]; cbn [bind]; try discriminate.
    destruct (interval_check cfg_fixed R cx cd local _) as [needed| |]; cbn [bind]; try discriminate.
    cbn [f_no_index_panic cfg_fixed].
    destruct (of_opt (nthZ (p_proofs P) k0)) as [sp'| |]; cbn [bind]; try discriminate.
    destruct (require_nrp cfg_fixed needed sp') as [u1| |]; cbn [bind]; try discriminate.
    destruct (check_requested_preds cfg_fixed R P k0 sp') as [u2| |]; cbn [bind]; try discriminate.
    destruct (check_unrevealed_names cfg_fixed R P cx k0 _) as [u3| |]; cbn [bind]; try discriminate.
    intros ->. cbn [bind]. rewrite Hsubs. reflexivity.
  Qed.
End Plain5.
