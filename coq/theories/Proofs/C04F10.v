From Coq Require Import List String Ascii ZArith NArith Bool Lia.
From AV Require Import Model.Str Model.Encode Model.Query Model.VTypes Model.Interval Model.Eval Model.CL Model.VerifierLegacy Model.VerifierW3C
  Model.VCfg Model.Prover Model.PProps Proofs.VMonad Proofs.C07Proofs Proofs.C04Proofs.
From AV Require Import Proofs.C04F1 Proofs.C04F2 Proofs.C04F3 Proofs.C04F4 Proofs.C04F5 Proofs.C04F6 Proofs.C04F7 Proofs.C04F8 Proofs.C04F9.
Import ListNotations.
Local Open Scope string_scope.
Local Open Scope list_scope.
Local Open Scope Z_scope.

Theorem c04_legacy_plain_b c P : plain_b c = true ->
  create_legacy pcfg_fixed (pc_req c) (pc_cx c) (pc_link c) (pc_sel c) (pc_self c) = ROk P ->
  verify_legacy cfg_fixed (pc_req c) P (pc_cx c) = Accept.
Proof.
  destruct c as [R cx link ps self]. cbn [pc_req pc_cx pc_link pc_sel pc_self]. intros H Hcreate.
  unfold plain_b in H. cbn [pc_req pc_cx pc_link pc_sel pc_self] in H. rewrite !andb_true_iff in H.
  destruct H as [[[[[Hcov Hent] Hat] Hpr] Hnr] Hreg].
  rewrite forallb_forall in Hent, Hat, Hpr.
  apply (c04_legacy_plain R cx link ps self P Hcreate Hcov).
  - intros p Hp. specialize (Hent p Hp). unfold plain_entry in Hent. cbn [pc_cx pc_link] in Hent. rewrite !andb_true_iff in Hent. tauto.
  - intros r ai Hin. specialize (Hat _ Hin). cbn in Hat. rewrite !andb_true_iff in Hat. destruct Hat as [[A B] _].
    destruct (ai_restr ai), (ai_nr ai); try discriminate. auto.
  - intros r pi Hin. specialize (Hpr _ Hin). cbn in Hpr. rewrite !andb_true_iff in Hpr. destruct Hpr as [A B].
    destruct (pi_restr pi), (pi_nr pi); try discriminate. auto.
  - intros p Hp. specialize (Hent p Hp). unfold plain_entry in Hent. rewrite !andb_true_iff in Hent. destruct Hent as [[[_ A] _] _].
    destruct (hc_revreg (pr_cred p)); [discriminate|reflexivity].
  - intros p r ai n Hp Hb Ha Hn. specialize (Hent p Hp). unfold plain_entry in Hent. cbn [pc_req] in Hent. rewrite !andb_true_iff in Hent. destruct Hent as [[_ A] _].
    rewrite forallb_forall in A. specialize (A _ Hb). cbn [orb] in A. rewrite Ha in A. rewrite forallb_forall in A. apply mem_In. exact (A n Hn).
  - intros r ai ns Hin Hns. specialize (Hat _ Hin). cbn in Hat. rewrite !andb_true_iff in Hat. destruct Hat as [_ A]. rewrite Hns in A. exact (nodup_str_NoDup _ A).
  - intros p n raw e Hp Hin. specialize (Hent p Hp). unfold plain_entry in Hent. rewrite !andb_true_iff in Hent. destruct Hent as [_ A].
    rewrite forallb_forall in A. specialize (A _ Hin). cbn in A. apply String.eqb_eq. exact A.
  - destruct (build_regmap cx) as [m| |]; [eauto|discriminate|discriminate].
Qed.

(* non-vacuity: a two-credential case with a revealed attribute, a group, an unrevealed attribute, a
   predicate and a self-attested attribute is in the class, is built by the prover model, and (hence) verifies *)
Definition e_src1 := {| src_key := 1; src_attrs := ["name"; "age"; "zipcode"]; src_values := [("name", encode "Alex"); ("age", "28"); ("zipcode", "7")];
                        src_cred_link := 7; src_used_link := 0; src_pos := 0; src_altered := false |}.
Definition e_c1 := {| hc_schema := "schema:one"; hc_creddef := "creddef:one"; hc_revreg := None; hc_issuer := "issuer:one";
                      hc_values := [("Name", ("Alex", encode "Alex")); ("age", ("28", "28")); ("Zip Code", ("7", "7"))];
                      hc_subject := [("Name", VStr "Alex"); ("age", VNum 28); ("Zip Code", VNum 7)]; hc_src := e_src1 |}.
Definition e_src2 := {| src_key := 2; src_attrs := ["role"]; src_values := [("role", encode "dev")];
                        src_cred_link := 7; src_used_link := 0; src_pos := 0; src_altered := false |}.
Definition e_c2 := {| hc_schema := "schema:two"; hc_creddef := "creddef:two"; hc_revreg := None; hc_issuer := "issuer:two";
                      hc_values := [("role", ("dev", encode "dev"))]; hc_subject := [("role", VStr "dev")]; hc_src := e_src2 |}.
Definition e_cx := {| cx_schemas := [("schema:one", {| sc_name := "s"; sc_version := "1.0"; sc_issuer := "issuer:one"; sc_attrs := ["Name"; "age"; "Zip Code"] |});
                                    ("schema:two", {| sc_name := "t"; sc_version := "1.0"; sc_issuer := "issuer:two"; sc_attrs := ["role"] |})];
                      cx_creddefs := [("creddef:one", {| cd_schema_id := "schema:one"; cd_issuer := "issuer:one"; cd_key := 1; cd_revkey := None |});
                                     ("creddef:two", {| cd_schema_id := "schema:two"; cd_issuer := "issuer:two"; cd_key := 2; cd_revkey := None |})];
                      cx_regdefs := None; cx_lists := None; cx_override := None |}.
Definition e_ai n := {| ai_name := Some n; ai_names := None; ai_restr := None; ai_nr := None |}.
Definition e_req := {| rq_nonce := 5;
                       rq_attrs := [("a1", e_ai "NAME"); ("g1", {| ai_name := None; ai_names := Some ["name"; "zip code"]; ai_restr := None; ai_nr := None |});
                                    ("u1", e_ai "Role"); ("s1", e_ai "nickname")];
                       rq_preds := [("p1", {| pi_name := "AGE"; pi_type := GE; pi_value := 18; pi_restr := None; pi_nr := None |})]; rq_nr := None |}.
Definition e_case := {| pc_req := e_req; pc_cx := e_cx; pc_link := 7;
                        pc_sel := [{| pr_cred := e_c1; pr_ts := None; pr_state := None; pr_attrs := [("a1", true); ("g1", true)]; pr_preds := ["p1"] |};
                                   {| pr_cred := e_c2; pr_ts := None; pr_state := None; pr_attrs := [("u1", false)]; pr_preds := [] |}];
                        pc_self := [("s1", "Al")] |}.
Example c04_plain_nonvacuous :
  plain_b e_case = true /\ exists P, create_legacy pcfg_fixed (pc_req e_case) (pc_cx e_case) (pc_link e_case) (pc_sel e_case) (pc_self e_case) = ROk P.
Proof. split; [vm_compute; reflexivity|]. eexists. vm_compute. reflexivity. Qed.
