(* C12 (verifier half): with the three repaired behaviours, no request / presentation / context
   makes either verifier model panic. Panic is modelled at every index / unwrap / overflow site,
   so this is a statement about the code's panic sites, for ALL inputs. *)
From Coq Require Import List String ZArith NArith Bool Lia.
From AV Require Import Model.Str Model.Encode Model.Query Model.VTypes Model.Interval Model.Eval Model.CL
  Model.VerifierLegacy Model.VerifierW3C Model.VCfg Model.VProps Proofs.VMonad Proofs.VLegacyProofs.
Import ListNotations.
Open Scope string_scope.
Open Scope list_scope.
Open Scope Z_scope.

Definition no_panic_cfg (cfg : vcfg) : Prop :=
  f_no_index_panic cfg = true /\ f_no_unwrap_panic cfg = true /\ f_pred_range cfg = true.

Ltac np_step :=
  match goal with
  | |- guard _ <> RPanic => apply guard_not_panic
  | |- of_opt _ <> RPanic => apply of_opt_not_panic
  | |- ROk _ <> RPanic => discriminate
  | |- RErr <> RPanic => discriminate
  | |- bind _ _ <> RPanic => apply bind_not_panic; [|intros ? ?]
  | |- iter _ _ <> RPanic => apply iter_not_panic; intros ? ?
  | |- mapR _ _ <> RPanic => apply mapR_not_panic; intros ? ?
  | |- (let '(_, _) := ?x in _) <> RPanic => destruct x
  | |- (match ?x with _ => _ end) <> RPanic => destruct x eqn:?
  end.
Ltac np := repeat np_step.

Section NP.
  Context (cfg : vcfg) (Hcfg : no_panic_cfg cfg).

  Lemma received_np P : received P <> RPanic.
  Proof.
    unfold received, get_ident. np.
  Qed.

  Lemma compare_np R P : compare_referents R P <> RPanic.
  Proof.
    unfold compare_referents. np.
  Qed.

  Lemma verify_value_np n sp e : verify_value n sp e <> RPanic.
  Proof.
    unfold verify_value. np.
  Qed.

  Lemma values_np R P : check_revealed_values cfg R P <> RPanic.
  Proof.
    unfold check_revealed_values. np; apply verify_value_np.
  Qed.

  Lemma gather_np cx id : gather_filter cfg cx id <> RPanic.
  Proof.
    unfold gather_filter. np.
  Qed.

  (* the one lookup that is an unwrap in the code: safe once the referent sets were compared *)
  Lemma restrictions_np R P cx aids pids u :
    compare_referents R P = ROk u -> check_restrictions cfg R P cx aids pids <> RPanic.
  Proof.
    intros Hc. unfold compare_referents in Hc. apply bind_ok in Hc. destruct Hc as (u1 & _ & Hc).
    apply guard_ok in Hc. unfold set_eqb in Hc. apply andb_prop in Hc. destruct Hc as [Hsub _].
    rewrite subset_spec in Hsub. destruct Hcfg as (_ & Hun & _).
    unfold check_restrictions. rewrite Hun.
    repeat first [ apply gather_np
                 | match goal with
                   | Hin : In (?r, ?pi) (rq_preds R) |- of_opt_panic (assoc ?r _) <> RPanic =>
                       let Hk := fresh in
                       assert (Hk : In r (keys (rp_preds (p_rp P)))) by (apply Hsub; unfold keys; apply in_map_iff; exists (r, pi); auto);
                       destruct (assoc_some_of_key _ _ Hk) as [? ->]; discriminate
                   end
                 | np_step ].
  Qed.

  Lemma regmap_np cx : build_regmap cx <> RPanic.
  Proof.
    unfold build_regmap. np.
  Qed.

  Lemma interval_check_np R cx cd local id : interval_check cfg R cx cd local id <> RPanic.
  Proof.
    unfold interval_check. np.
  Qed.

  Lemma local_interval_np R P i : local_interval cfg R P i <> RPanic.
  Proof.
    unfold local_interval. np.
  Qed.

  Lemma add_sub_proof_np cx regmap sp id : add_sub_proof cfg cx regmap sp id <> RPanic.
  Proof.
    unfold add_sub_proof. np.
  Qed.

  Lemma add_sub_proof_range cx regmap sp id x :
    add_sub_proof cfg cx regmap sp id = ROk x -> existsb pred_overflows (sp_preds (fst (fst (fst x)))) = false.
  Proof.
    unfold add_sub_proof. intros H.
    apply bind_ok in H. destruct H as (sc & _ & H). apply bind_ok in H. destruct H as (cd & _ & H).
    apply bind_ok in H. destruct H as (reg & _ & H). apply bind_ok in H. destruct H as (u1 & _ & H).
    apply bind_ok in H. destruct H as (u2 & _ & H). apply bind_ok in H. destruct H as (u3 & Hg & H).
    apply guard_ok in Hg. destruct Hcfg as (_ & _ & Hr). rewrite Hr in Hg. cbn [negb orb] in Hg.
    inversion H; subst x. cbn [fst]. apply negb_true_iff in Hg. exact Hg.
  Qed.

  Lemma loop_np R P cx regmap ids : forall i, loop_ids cfg R P cx regmap ids i <> RPanic.
  Proof.
    destruct Hcfg as (Hidx & _ & _).
    induction ids as [|id r IH]; intros i; cbn [loop_ids]; [discriminate|]. rewrite Hidx.
    unfold require_nrp, check_requested_preds, check_unrevealed_names.
    repeat first [ apply local_interval_np | apply interval_check_np | apply add_sub_proof_np | apply IH | np_step ].
  Qed.

  Lemma cl_verify_np common subs a nonce :
    Forall (fun x : cl_sub => existsb pred_overflows (sp_preds (fst (fst (fst x)))) = false) subs ->
    cl_verify common subs a nonce <> Panic.
  Proof.
    intros H. unfold cl_verify. destruct (negb _); [discriminate|].
    assert (E : existsb (fun '(sp, _, _, _) => existsb pred_overflows (sp_preds sp)) subs = false).
    { induction H as [|[[[sp k] at'] rg] r Hx Hr IHr]; cbn [existsb]; auto. cbn [fst] in Hx. rewrite Hx, IHr. reflexivity. }
    rewrite E. destruct (_ && _); discriminate.
  Qed.

  Lemma loop_range R P cx regmap ids : forall i subs, loop_ids cfg R P cx regmap ids i = ROk subs ->
    Forall (fun x : cl_sub => existsb pred_overflows (sp_preds (fst (fst (fst x)))) = false) subs.
  Proof.
    intros i subs H. apply (loop_ids_spec cfg) in H. induction H as [|ki x l l' Hf Hr IH]; constructor; auto.
    destruct Hf. eapply add_sub_proof_range; eauto.
  Qed.

  Theorem legacy_no_panic R P cx : verify_legacy cfg R P cx <> Panic.
  Proof.
    unfold verify_legacy.
    destruct (bind (received P) _) as [subs| |] eqn:E; [|discriminate|exfalso].
    - apply bind_ok in E. destruct E as ([[ar un] pr] & _ & E).
      apply bind_ok in E. destruct E as (u1 & _ & E). apply bind_ok in E. destruct E as (u2 & _ & E).
      apply bind_ok in E. destruct E as (u3 & _ & E). apply bind_ok in E. destruct E as (regmap & _ & E).
      apply bind_ok in E. destruct E as (subs' & Hl & E). apply bind_ok in E. destruct E as (u4 & _ & E).
      inversion E; subst subs'. apply cl_verify_np. eapply loop_range; eauto.
    - revert E. apply bind_not_panic; [apply received_np|]. intros [[ar un] pr] _.
      apply bind_not_panic; [apply compare_np|]. intros u Hc.
      apply bind_not_panic; [apply values_np|]. intros _ _.
      apply bind_not_panic; [eapply restrictions_np; eauto|]. intros _ _.
      apply bind_not_panic; [apply regmap_np|]. intros regmap _.
      apply bind_not_panic; [apply loop_np|]. intros subs _. np.
  Qed.
  (* ---- W3C ---- *)
  Lemma find_unrevealed_np strict R cx name q nr cs : forall i, find_unrevealed cfg strict R cx name q nr i cs <> RPanic.
  Proof.
    induction cs as [|[c [id sp]] r IH]; intros i; cbn [find_unrevealed]; [discriminate|].
    repeat first [ apply IH | np_step ].
  Qed.
  Lemma check_attribute_np R cx cs name q nr : check_attribute cfg R cx cs name q nr <> RPanic.
  Proof.
    unfold check_attribute.
    repeat first [ apply find_unrevealed_np | np_step ].
  Qed.
  Lemma check_predicate_np R cx pi cs : check_predicate cfg R cx pi cs <> RPanic.
  Proof. unfold check_predicate. np. Qed.
  Lemma check_request_data_np R cx cs : check_request_data cfg R cx cs <> RPanic.
  Proof.
    unfold check_request_data.
    repeat first [ apply check_attribute_np | apply check_predicate_np | np_step ].
  Qed.
  Lemma add_all_np cx regmap needs cs : forall i, add_all cfg cx regmap needs i cs <> RPanic.
  Proof.
    induction cs as [|[c [id sp]] r IH]; intros i; cbn [add_all]; [discriminate|]. unfold require_nrp.
    repeat first [ apply add_sub_proof_np | apply IH | np_step ].
  Qed.
  Lemma add_all_range cx regmap needs cs : forall i subs, add_all cfg cx regmap needs i cs = ROk subs ->
    Forall (fun x : cl_sub => existsb pred_overflows (sp_preds (fst (fst (fst x)))) = false) subs.
  Proof.
    induction cs as [|[c [id sp]] r IH]; intros i subs H; cbn [add_all] in H.
    - inversion H. constructor.
    - apply bind_ok in H. destruct H as (u & _ & H). apply bind_ok in H. destruct H as (x & Hx & H).
      apply bind_ok in H. destruct H as (xs & Hxs & H). inversion H; subst subs.
      constructor; [eapply add_sub_proof_range; eauto|eapply IH; eauto].
  Qed.

  Theorem w3c_no_panic R P cx : verify_w3c cfg R P cx <> Panic.
  Proof.
    unfold verify_w3c.
    destruct (bind (guard (wp_shape_ok P)) _) as [[subs a]| |] eqn:E; [|discriminate|exfalso].
    - apply bind_ok in E. destruct E as (u0 & _ & E). apply bind_ok in E. destruct E as (cs & _ & E).
      apply bind_ok in E. destruct E as (needs & _ & E). apply bind_ok in E. destruct E as (u1 & _ & E).
      apply bind_ok in E. destruct E as (a' & _ & E). apply bind_ok in E. destruct E as (regmap & _ & E).
      apply bind_ok in E. destruct E as (subs' & Hs & E). inversion E; subst. apply cl_verify_np. eapply add_all_range; eauto.
    - revert E. match goal with |- ?x = RPanic -> False => change (x <> RPanic) end.
      repeat first [ apply check_request_data_np | apply regmap_np | apply add_all_np | np_step ].
  Qed.
End NP.
