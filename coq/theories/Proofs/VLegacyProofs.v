(* Structure of an accepting run of the legacy verifier model: what every stage established. *)
From Coq Require Import List String ZArith NArith Bool Lia.
From AV Require Import Model.Str Model.Encode Model.Query Model.VTypes Model.Interval Model.Eval Model.CL
  Model.VerifierLegacy Model.VCfg Model.VProps Proofs.VMonad.
Import ListNotations.
Open Scope string_scope.
Open Scope list_scope.
Open Scope Z_scope.

Section L.
  Context (cfg : vcfg).

  (* what the identifier loop established for position k *)
  Inductive loop_fact (R : request) (P : presentation) (cx : ctx) (regmap : option (list (string * Z * N)))
            (k : Z) (id : identifier) (x : cl_sub) : Prop :=
  | LoopFact (sp : subproof) (cd : creddef) (local : option interval) (needed : bool)
      (lf_nth : nthZ (p_proofs P) k = Some sp)
      (lf_cdef : assoc (id_creddef id) (cx_creddefs cx) = Some cd)
      (lf_loc : local_interval cfg R P k = ROk local)
      (lf_ivl : interval_check cfg R cx cd local id = ROk needed)
      (lf_nrp : require_nrp cfg needed sp = ROk tt)
      (lf_preds : check_requested_preds cfg R P k sp = ROk tt)
      (lf_unrev : check_unrevealed_names cfg R P cx k id = ROk tt)
      (lf_add : add_sub_proof cfg cx regmap sp id = ROk x).

  Lemma unit_eta (u : unit) : u = tt. Proof. destruct u; reflexivity. Qed.

  Lemma sp_lookup_ok P k sp :
    (if f_no_index_panic cfg then of_opt (nthZ (p_proofs P) k) else of_opt_panic (nthZ (p_proofs P) k)) = ROk sp ->
    nthZ (p_proofs P) k = Some sp.
  Proof. destruct (f_no_index_panic cfg); [apply of_opt_ok|apply of_opt_panic_ok]. Qed.

  Lemma loop_ids_spec R P cx regmap ids : forall i subs,
    loop_ids cfg R P cx regmap ids i = ROk subs ->
    Forall2 (fun ki x => loop_fact R P cx regmap (fst ki) (snd ki) x) (indexed i ids) subs.
  Proof.
    induction ids as [|id r IH]; intros i subs H; cbn [loop_ids indexed] in *.
    - inversion H. constructor.
    - apply bind_ok in H. destruct H as (local & Hloc & H).
      apply bind_ok in H. destruct H as (cd & Hcd & H). apply of_opt_ok in Hcd.
      apply bind_ok in H. destruct H as (needed & Hiv & H).
      apply bind_ok in H. destruct H as (sp & Hsp & H). apply sp_lookup_ok in Hsp.
      apply bind_ok in H. destruct H as (u1 & Hn & H). rewrite (unit_eta u1) in Hn.
      apply bind_ok in H. destruct H as (u2 & Hp & H). rewrite (unit_eta u2) in Hp.
      apply bind_ok in H. destruct H as (u3 & Hu & H). rewrite (unit_eta u3) in Hu.
      apply bind_ok in H. destruct H as (x & Hx & H).
      apply bind_ok in H. destruct H as (xs & Hxs & H). inversion H; subst subs.
      constructor; [|apply IH; exact Hxs].
      cbn [fst snd]. econstructor; eauto.
  Qed.

  (* the master inversion: an accepting run went through every stage *)
  Inductive accepted (R : request) (P : presentation) (cx : ctx) : Prop :=
  | Accepted (attr_ids unrev_ids pred_ids : list (string * identifier)) (regmap : option (list (string * Z * N)))
      (subs : list cl_sub)
      (ac_received : received P = ROk (attr_ids, unrev_ids, pred_ids))
      (ac_compare : compare_referents R P = ROk tt)
      (ac_values : check_revealed_values cfg R P = ROk tt)
      (ac_restr : check_restrictions cfg R P cx (if f_restr_revealed_first cfg then attr_ids ++ unrev_ids else unrev_ids ++ attr_ids) pred_ids = ROk tt)
      (ac_reg : build_regmap cx = ROk regmap)
      (ac_loop : loop_ids cfg R P cx regmap (p_ids P) 0 = ROk subs)
      (ac_len : lenZ (p_proofs P) = lenZ subs)
      (ac_cl : cl_verify (f_common_link cfg) subs (p_agg P) (rq_nonce R) = Accept).

  Theorem verify_legacy_accept R P cx : verify_legacy cfg R P cx = Accept -> accepted R P cx.
  Proof.
    unfold verify_legacy. intros H.
    destruct (bind (received P) _) as [subs| |] eqn:E; try discriminate.
    apply bind_ok in E. destruct E as ([[ar un] pr] & Hrec & E).
    apply bind_ok in E. destruct E as (u1 & Hc & E). rewrite (unit_eta u1) in Hc.
    apply bind_ok in E. destruct E as (u2 & Hv & E). rewrite (unit_eta u2) in Hv.
    apply bind_ok in E. destruct E as (u3 & Hr & E). rewrite (unit_eta u3) in Hr.
    apply bind_ok in E. destruct E as (regmap & Hreg & E).
    apply bind_ok in E. destruct E as (subs' & Hloop & E).
    apply bind_ok in E. destruct E as (u4 & Hlen & E). apply guard_ok in Hlen. apply Z.eqb_eq in Hlen.
    inversion E; subst subs'. econstructor; eauto.
  Qed.
End L.
