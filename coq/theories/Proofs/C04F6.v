From Coq Require Import List String Ascii ZArith NArith Bool Lia.
From AV Require Import Model.Str Model.Encode Model.Query Model.VTypes Model.Interval Model.Eval Model.CL Model.VerifierLegacy Model.VerifierW3C
  Model.VCfg Model.Prover Model.PProps Proofs.VMonad Proofs.C07Proofs Proofs.C04Proofs.
From AV Require Import Proofs.C04F1 Proofs.C04F2 Proofs.C04F3 Proofs.C04F4 Proofs.C04F5.
Import ListNotations.
Local Open Scope string_scope.
Local Open Scope list_scope.
Local Open Scope Z_scope.

Lemma Forall2_in_l {A B} (Rel : A -> B -> Prop) l l' x : Forall2 Rel l l' -> In x l -> exists y, In y l' /\ Rel x y.
Proof. induction 1 as [|a b l1 l2 Hab HF IH]; intros Hin; [destruct Hin|]. destruct Hin as [<-|Hin]; [exists b; split; [left; reflexivity|exact Hab]|]. destruct (IH Hin) as (y & Hy & Hr). exists y. split; [right; exact Hy|exact Hr]. Qed.
Lemma Forall2_in_r {A B} (Rel : A -> B -> Prop) l l' y : Forall2 Rel l l' -> In y l' -> exists x, In x l /\ Rel x y.
Proof. induction 1 as [|a b l1 l2 Hab HF IH]; intros Hin; [destruct Hin|]. destruct Hin as [<-|Hin]; [exists a; split; [left; reflexivity|exact Hab]|]. destruct (IH Hin) as (x & Hx & Hr). exists x. split; [right; exact Hx|exact Hr]. Qed.
Lemma set_eqb_intro a b : (forall x, In x a <-> In x b) -> set_eqb a b = true.
Proof. intros H. unfold set_eqb. apply andb_true_intro. split; apply subset_spec; intros x Hx; apply H; exact Hx. Qed.
Lemma set_eqb_elim a b : set_eqb a b = true -> forall x, In x a <-> In x b.
Proof. unfold set_eqb. intros H x. apply andb_prop in H as [H1 H2]. rewrite subset_spec in H1, H2. split; auto. Qed.
Lemma in_keys {V} k (m : list (string * V)) : In k (keys m) <-> exists v, In (k, v) m.
Proof. unfold keys. rewrite in_map_iff. split; [intros ([a v] & <- & H); exists v; exact H|intros (v & H); exists (k, v); auto]. Qed.
Lemma guard_true b : b = true -> guard b = ROk tt.
Proof. intros ->. reflexivity. Qed.

Section Plain3.
  Context (R : request) (cx : ctx) (link : N) (ps : list present) (self : list (string * string)) (P : presentation).
  Notation E := (nonempty ps).
  Context (Hcreate : create_legacy pcfg_fixed R cx link ps self = ROk P).
  Context (Hcov : coverage (mk_case R cx link ps self) = true).
  Context (Hgroups : forall r ai ns, In (r, ai) (rq_attrs R) -> ai_names ai = Some ns -> NoDup ns).
  Context (Hcanon : forall p n raw e, In p E -> In (n, (raw, e)) (hc_values (pr_cred p)) -> normalize_encoded e = e).

  Let BF := build_facts R cx link ps self P Hcreate.

  (* coverage, unfolded *)
  Lemma cov_attrs r : In r (keys (rq_attrs R)) <-> In r (sel_attr_refs ps) \/ In r (keys self).
  Proof.
    pose proof Hcov as H. unfold coverage in H. cbn [pc_req pc_sel pc_self mk_case] in H.
    rewrite !andb_true_iff in H. destruct H as [[[[[[H ?] ?] ?] ?] ?] ?]. rewrite (set_eqb_elim _ _ H r). apply in_app_iff.
  Qed.
  Lemma cov_preds r : In r (keys (rq_preds R)) <-> In r (flat_map pr_preds ps).
  Proof.
    pose proof Hcov as H. unfold coverage in H. cbn [pc_req pc_sel pc_self mk_case] in H.
    rewrite !andb_true_iff in H. destruct H as [[[[[[H ?] ?] ?] ?] ?] ?].
    match goal with Hx : set_eqb (keys (rq_preds R)) _ = true |- _ => exact (set_eqb_elim _ _ Hx r) end.
  Qed.
  Lemma cov_disjoint r : In r (sel_attr_refs ps) -> In r (keys self) -> False.
  Proof.
    pose proof Hcov as H. unfold coverage in H. cbn [pc_req pc_sel pc_self mk_case] in H.
    rewrite !andb_true_iff in H. destruct H as [[[[[[H ?] ?] ?] ?] ?] ?].
    match goal with Hx : nodup_str (sel_attr_refs ps ++ keys self) = true |- _ => apply nodup_str_NoDup in Hx; exact (NoDup_app_disj _ _ r Hx) end.
  Qed.
  Lemma cov_shape r ai : In (r, ai) (rq_attrs R) ->
    (exists n, ai_name ai = Some n /\ ai_names ai = None) \/ (ai_name ai = None /\ exists n ns, ai_names ai = Some (n :: ns)).
  Proof.
    pose proof Hcov as H. unfold coverage in H. cbn [pc_req pc_sel pc_self mk_case] in H.
    rewrite !andb_true_iff in H. destruct H as [[[[[[H ?] ?] ?] ?] ?] ?].
    match goal with Hx : forallb _ (rq_attrs R) = true |- _ => rewrite forallb_forall in Hx; intros Hin; specialize (Hx _ Hin); cbn in Hx end.
    destruct (ai_name ai) as [n|], (ai_names ai) as [[|m ns]|]; try discriminate; eauto 6.
  Qed.
  Lemma cov_nodup_attrs : NoDup (keys (rq_attrs R)).
  Proof.
    pose proof Hcov as H. unfold coverage in H. cbn [pc_req pc_sel pc_self mk_case] in H.
    rewrite !andb_true_iff in H. destruct H as [[[[[[H ?] ?] ?] ?] ?] ?].
    match goal with Hx : nodup_str (keys (rq_attrs R)) = true |- _ => exact (nodup_str_NoDup _ Hx) end.
  Qed.
  Lemma cov_nodup_preds : NoDup (keys (rq_preds R)).
  Proof.
    pose proof Hcov as H. unfold coverage in H. cbn [pc_req pc_sel pc_self mk_case] in H.
    rewrite !andb_true_iff in H. destruct H as [[[[[[H ?] ?] ?] ?] ?] ?].
    match goal with Hx : nodup_str (keys (rq_preds R)) = true |- _ => exact (nodup_str_NoDup _ Hx) end.
  Qed.
  Lemma sel_refs_E r : In r (sel_attr_refs ps) <-> exists p b, In p E /\ In (r, b) (pr_attrs p).
  Proof.
    unfold sel_attr_refs. rewrite in_flat_map. split.
    - intros (p & Hp & Hr). apply in_map_iff in Hr as ([r' b] & <- & Hb). exists p, b. split; [|exact Hb].
      apply in_E; [exact Hp|]. unfold pr_empty. destruct (pr_attrs p); [destruct Hb|reflexivity].
    - intros (p & b & Hp & Hb). exists p. split; [exact (E_in _ _ Hp)|]. apply in_map_iff. exists (r, b). auto.
  Qed.
  Lemma sel_preds_E r : In r (flat_map pr_preds ps) <-> exists p, In p E /\ In r (pr_preds p).
  Proof.
    rewrite in_flat_map. split.
    - intros (p & Hp & Hr). exists p. split; [|exact Hr]. apply in_E; [exact Hp|]. unfold pr_empty. destruct (pr_attrs p); [|reflexivity]. destruct (pr_preds p); [destruct Hr|reflexivity].
    - intros (p & Hp & Hr). exists p. split; [exact (E_in _ _ Hp)|exact Hr].
  Qed.

  (* a revealed referent's names are found in the credential and revealed by the sub-proof *)
  Lemma revealed_found k p q ai n : at_idx E 0 k p -> In (q, true) (pr_attrs p) -> assoc q (rq_attrs R) = Some ai -> In n (names_of ai) ->
    exists sp raw e, nthZ (p_proofs P) k = Some sp /\ find_value (pr_cred p) n = Some (raw, e) /\ In (cv n, e) (sp_revealed sp)
                     /\ assoc (cv n) (fed_legacy (pr_cred p)) = Some e.
  Proof.
    intros Hat Hq Ha Hn. destruct (sub_at R cx link ps self P Hcreate k p Hat) as (sp & Hsp & Hpr).
    destruct (sub_inv R cx link k p sp Hpr) as (sc & cd & ais & uis & pis & _ & _ & Hais & _ & _ & nrpo & Hnone & Hpv).
    assert (Hqin : In q (map fst (List.filter snd (pr_attrs p)))).
    { apply in_map_iff. exists (q, true). split; [reflexivity|]. apply filter_In. auto. }
    destruct (Forall2_in_l _ _ _ _ Hais Hqin) as (ai' & Hai' & Ha'). rewrite Ha in Ha'. injection Ha' as <-.
    assert (Hnames : In (cv n) (map cv (flat_map names_of ais))).
    { apply in_map. apply in_flat_map. exists ai. auto. }
    destruct (pv_rev_in _ _ _ _ _ _ _ _ _ Hpv _ Hnames) as (e & He & Hin).
    destruct (fed_assoc_find _ _ _ He) as (raw & Hf). exists sp, raw, e. auto.
  Qed.

  (* ---- stage 1: identifiers of all referents resolve ---- *)
  Lemma stage_received : exists x, received P = ROk x.
  Proof.
    destruct BF as [_ Br Bg Bu Bp _ _ _ _]. unfold received.
    assert (G1 : exists rv, mapR (fun '(r, (i, _, _)) => id <- get_ident P i ;; ROk (r, id)) (rp_revealed (p_rp P)) = ROk rv).
    { apply mapR_total. intros [r [[i raw] enc]] Hin. apply Br in Hin as (k & p & Hat & (_ & ai & n & raw' & enc' & _ & _ & _ & Hv)). injection Hv as -> _ _.
      unfold get_ident. rewrite (ident_at R cx link ps self P Hcreate k p Hat). cbn. eauto. }
    assert (G2 : exists rg, mapR (fun '(r, (i, _)) => id <- get_ident P i ;; ROk (r, id)) (rp_groups (p_rp P)) = ROk rg).
    { apply mapR_total. intros [r [i vals]] Hin. apply Bg in Hin as (k & p & Hat & (_ & ai & ns & vals' & _ & _ & _ & _ & Hv)). injection Hv as -> _.
      unfold get_ident. rewrite (ident_at R cx link ps self P Hcreate k p Hat). cbn. eauto. }
    assert (G3 : exists un, mapR (fun '(r, i) => id <- get_ident P i ;; ROk (r, id)) (rp_unrev (p_rp P)) = ROk un).
    { apply mapR_total. intros [r i] Hin. apply Bu in Hin as (k & p & Hat & (_ & ->)).
      unfold get_ident. rewrite (ident_at R cx link ps self P Hcreate k p Hat). cbn. eauto. }
    assert (G4 : exists pr, mapR (fun '(r, i) => id <- get_ident P i ;; ROk (r, id)) (rp_preds (p_rp P)) = ROk pr).
    { apply mapR_total. intros [r i] Hin. apply Bp in Hin as (k & p & Hat & _ & ->).
      unfold get_ident. rewrite (ident_at R cx link ps self P Hcreate k p Hat). cbn. eauto. }
    destruct G1 as [rv ->], G2 as [rg ->], G3 as [un ->], G4 as [pr ->]. cbn [bind]. eauto.
  Qed.

  (* ---- stage 2: the referents of the presentation are those of the request ---- *)
  Lemma stage_compare : compare_referents R P = ROk tt.
  Proof.
    destruct BF as [Bs Br Bg Bu Bp _ _ Bai _]. unfold compare_referents.
    assert (Ha : set_eqb (keys (rq_attrs R))
                   (keys (rp_revealed (p_rp P)) ++ keys (rp_groups (p_rp P)) ++ keys (rp_unrev (p_rp P)) ++ keys (rp_self (p_rp P))) = true).
    { apply set_eqb_intro. intros r. rewrite cov_attrs, !in_app_iff, Bs. split.
      - intros [Hsel|Hself]; [|auto]. apply sel_refs_E in Hsel as (p & b & Hp & Hb). destruct (in_at_idx _ _ Hp) as [k Hat].
        destruct b.
        + destruct (Bai p r Hp Hb) as [ai Hai]. destruct (cov_shape r ai (assoc_In _ _ _ Hai)) as [(n & Hn & _)|(Hn & m & ns & Hns)].
          * destruct (revealed_found k p r ai n Hat Hb Hai) as (sp & raw & e & _ & Hf & _); [unfold names_of; rewrite Hn; left; reflexivity|].
            left. apply in_keys. exists (k, raw, e). apply Br. exists k, p. split; [exact Hat|]. split; [exact Hb|]. exists ai, n, raw, e. auto.
          * right. left. apply in_keys.
            assert (Hm : exists vals, mapR (fun n => v0 <- of_opt (find_value (pr_cred p) n) ;; ROk (n, v0)) (m :: ns) = ROk vals).
            { apply mapR_total. intros n Hn'. destruct (revealed_found k p r ai n Hat Hb Hai) as (sp & raw & e & _ & Hf & _); [unfold names_of; rewrite Hn, Hns; exact Hn'|].
              rewrite Hf. cbn. eauto. }
            destruct Hm as [vals Hvals]. exists (k, vals). apply Bg. exists k, p. split; [exact Hat|]. split; [exact Hb|]. exists ai, (m :: ns), vals. auto 6.
        + right. right. left. apply in_keys. exists k. apply Bu. exists k, p. split; [exact Hat|]. split; [exact Hb|reflexivity].
      - intros [H|[H|[H|H]]]; [| | |right; exact H]; left; apply sel_refs_E; apply in_keys in H as [v H].
        + apply Br in H as (k & p & Hat & (Hb & _)). exists p, true. split; [exact (at_idx_in _ _ _ Hat)|exact Hb].
        + apply Bg in H as (k & p & Hat & (Hb & _)). exists p, true. split; [exact (at_idx_in _ _ _ Hat)|exact Hb].
        + apply Bu in H as (k & p & Hat & (Hb & _)). exists p, false. split; [exact (at_idx_in _ _ _ Hat)|exact Hb]. }
    rewrite Ha. cbn [guard bind].
    apply guard_true. apply set_eqb_intro. intros r. rewrite cov_preds, sel_preds_E, in_keys. split.
    - intros (p & Hp & Hr). destruct (in_at_idx _ _ Hp) as [k Hat]. exists k. apply Bp. exists k, p. auto.
    - intros (v & H). apply Bp in H as (k & p & Hat & Hr & _). exists p. split; [exact (at_idx_in _ _ _ Hat)|exact Hr].
  Qed.
End Plain3.
