From Coq Require Import List String ZArith NArith Bool Lia.
From AV Require Import Model.Str Model.Encode Model.Query Model.VTypes Model.Interval Model.Eval Model.CL
  Model.VerifierLegacy Model.VerifierW3C Model.VCfg Model.VProps Proofs.VMonad Proofs.VLegacyProofs Proofs.VLegacyStruct Proofs.VCLFacts Proofs.VLegacyMaster
  Proofs.VW3CMaster Proofs.VW3CSearch Proofs.C01Proofs Proofs.C03Proofs Proofs.C06Proofs.
From AV Require Import Proofs.C06S1.
Import ListNotations.
Open Scope string_scope.
Open Scope list_scope.
Open Scope Z_scope.

Lemma filter_from_key cx id f sp cd : creddefs_distinct cx = true -> gather_filter cfg_fixed cx id = ROk f ->
  assoc (id_creddef id) (cx_creddefs cx) = Some cd -> cd_key cd = src_key (sp_src sp) -> filter_of cx sp = Some f.
Proof.
  intros Hdist Hf Hcd Hkey.
  destruct (gather_filter_bound cfg_fixed cx id f eq_refl Hf) as (sc' & cd' & Hsc' & Hcd' & Hbind & ->).
  rewrite Hcd in Hcd'. inversion Hcd'; subst cd'.
  unfold creddefs_distinct in Hdist. apply andb_prop in Hdist as [_ Hk].
  unfold filter_of. rewrite <- Hkey. rewrite (find_key_unique _ _ _ Hk (assoc_In _ _ _ Hcd)).
  rewrite Hbind, Hsc'. reflexivity.
Qed.

Lemma spec_cs (l : list w3c_cred) (cs : list wcase) : map fst cs = l -> Forall (fun x : wcase => wc_pv (fst x) = Some (snd x)) cs ->
  flat_map (fun w => match wc_pv w with Some (id, sp) => [(w, sp)] | None => [] end) l = map (fun x : wcase => (fst x, snd (snd x))) cs.
Proof.
  intros <- HF. induction HF as [|[c [id sp]] r Hx HF IH]; [reflexivity|]. cbn [map flat_map fst snd] in *. rewrite Hx. cbn [app]. f_equal. exact IH.
Qed.

Theorem c06_w3c_sound R P cx : creddefs_distinct cx = true -> case_wf (CW3C R P cx) = true ->
  verify_w3c cfg_fixed R P cx = Accept -> restr_true_w3c R P cx = true.
Proof.
  intros Hdist Hcwf H. apply (verify_w3c_accept cfg_fixed) in H.
  destruct H as [cs a needs _ Hfst Hsubs Hpv Hdata _ _ _ _ _ Hpairs].
  unfold case_wf in Hcwf. rewrite Hsubs, andb_true_r in Hcwf. rewrite forallb_forall in Hcwf.
  assert (Hnormsp : forall c id sp, In (c, (id, sp)) cs -> sp_names_normalised sp = true).
  { intros c id sp Hin. apply (Hcwf (id, sp)). apply in_map_iff. exists (c, (id, sp)). auto. }
  unfold restr_true_w3c. rewrite (spec_cs _ cs Hfst Hpv).
  (* conditions met by a presented credential => the restriction is true of the credential that signed *)
  assert (Hcond : forall k c id sp q nr b, nthZ cs k = Some (c, (id, sp)) -> cred_conditions cfg_fixed R cx c id (Some q) nr = Some b ->
            match filter_of cx sp with
            | Some f => sem (rev (flat_map (fun '(k, v) => match v with VBool _ => [] | _ => [(cv k, Some (value_to_string v))] end) (wc_subject c))) f q
            | None => false end = true).
  { intros k c id sp q nr b Hk Hc. unfold cred_conditions in Hc.
    destruct (bind (cred_restrictions cfg_fixed cx c id (Some q)) _) as [b'| |] eqn:E; try discriminate.
    apply bind_ok in E as (u & Hr & _). unfold cred_restrictions in Hr. apply bind_ok in Hr as (f & Hf & Hg). apply guard_ok in Hg.
    destruct (Hpairs _ _ _ _ Hk) as [sc cd reg rm _ Hcd _ _ _ Hcl]. destruct Hcl as [_ Hkey _ _ _ _ _ _ _].
    rewrite (filter_from_key cx id f sp cd Hdist Hf Hcd Hkey). exact Hg. }
  unfold check_request_data in Hdata.
  apply bind_ok in Hdata. destruct Hdata as (na & Hna & Hdata). apply bind_ok in Hdata. destruct Hdata as (np & Hnp & _).
  assert (Hattr : forall name q nr l, check_attribute cfg_fixed R cx cs name (Some q) nr = ROk l ->
            existsb (fun '(w, sp) => (reveals sp name || holds_attr sp name) &&
                       match filter_of cx sp with
                       | Some f => sem (rev (flat_map (fun '(k, v) => match v with VBool _ => [] | _ => [(cv k, Some (value_to_string v))] end) (wc_subject w))) f q
                       | None => false end) (map (fun x : wcase => (fst x, snd (snd x))) cs) = true).
  { intros name q nr l Hc. apply existsb_exists.
    destruct (check_attribute_cases _ _ _ _ _ _ _ _ Hc) as [[st Ef]|[st Eu]].
    - destruct (find_revealed_idx _ _ _ _ _ _ _ _ _ _ Ef) as (j & c & id & sp & k & v & u & b & Hn & Hle & Hg & Hv & Hcc & _).
      rewrite Z.sub_0_r in Hn. pose proof (nthZ_In _ _ _ Hn) as Hin.
      exists (c, sp). split; [apply in_map_iff; exists (c, (id, sp)); auto|]. apply andb_true_iff. split; [|exact (Hcond _ _ _ _ _ _ _ Hn Hcc)].
      apply orb_true_intro. left.
      assert (Hcv : cv k = cv name).
      { unfold get_attribute in Hg. destruct (get_ci c name) as [[k' v']|] eqn:Eci; [|discriminate].
        destruct (get_ci_cv _ _ _ _ Eci) as [_ Hc']. destruct v'; inversion Hg; subst; auto. }
      pose proof (reveals_of_verified _ _ _ _ (Hnormsp _ _ _ Hin) Hv) as Hr. unfold reveals in *. rewrite <- Hcv. exact Hr.
    - destruct (find_unrevealed_idx _ _ _ _ _ _ _ _ _ _ Eu) as (j & c & id & sp & sc & b & Hn & Hle & Hsc & He & Hcc & _).
      rewrite Z.sub_0_r in Hn. pose proof (nthZ_In _ _ _ Hn) as Hin.
      exists (c, sp). split; [apply in_map_iff; exists (c, (id, sp)); auto|]. apply andb_true_iff. split; [|exact (Hcond _ _ _ _ _ _ _ Hn Hcc)].
      apply orb_true_intro. right.
      destruct (Hpairs _ _ _ _ Hn) as [sc' cd reg rm Hsc' _ _ _ _ Hcl].
      rewrite Hsc in Hsc'. inversion Hsc'; subst sc'. destruct Hcl as [_ _ _ _ Hattrs _ _ _ _].
      unfold holds_attr. eapply set_eqb_mem; [exact Hattrs|]. apply existsb_exists in He. destruct He as (a0 & Ha0 & Heq).
      apply String.eqb_eq in Heq. apply mem_In. rewrite <- Heq. apply in_map. exact Ha0. }
  apply andb_true_intro. split.
  - apply forallb_forall. intros [r ai] Hin. destruct (ai_restr ai) as [q|] eqn:Hq; [|reflexivity].
    destruct (mapR_in _ _ _ _ Hna Hin) as (l & Hl). cbn beta iota in Hl. rewrite Hq in Hl.
    apply bind_ok in Hl. destruct Hl as (l1 & Hl1 & Hl). apply bind_ok in Hl. destruct Hl as (l2 & Hl2 & _).
    unfold names_of. apply forallb_forall. intros n Hn. apply in_app_or in Hn. destruct Hn as [Hn|Hn].
    + destruct (ai_name ai) as [n0|]; [|destruct Hn]. destruct Hn as [<-|[]]. eapply Hattr; eauto.
    + destruct (ai_names ai) as [ns|]; [|destruct Hn]. apply bind_ok in Hl2. destruct Hl2 as (ls & Hls & _).
      destruct (mapR_in _ _ _ _ Hls Hn) as (l' & Hl'). eapply Hattr; eauto.
  - apply forallb_forall. intros [r pi] Hin. destruct (pi_restr pi) as [q|] eqn:Hq; [|reflexivity].
    destruct (mapR_in _ _ _ _ Hnp Hin) as (l & Hl). cbn beta iota in Hl.
    destruct (check_predicate_cases _ _ _ _ _ _ Hl) as [st Ef].
    destruct (find_predicate_idx _ _ _ _ _ _ _ _ Ef) as (j & c & id & sp & k & b & Hn & Hle & Hg & He & Hcc & _).
    rewrite Z.sub_0_r in Hn. pose proof (nthZ_In _ _ _ Hn) as Hcin. rewrite Hq in Hcc.
    apply existsb_exists. exists (c, sp). split; [apply in_map_iff; exists (c, (id, sp)); auto|].
    apply andb_true_iff. split; [|exact (Hcond _ _ _ _ _ _ _ Hn Hcc)].
    unfold proves_pred. cbn [f_w3c_pred_cv cfg_fixed] in He. apply existsb_exists in He. destruct He as (p & Hp & Hpe). apply existsb_exists. exists p. split; [exact Hp|].
    rewrite pred_eqb_sym.
    assert (Hcv : cv k = cv (pi_name pi)).
    { unfold get_predicate in Hg. destruct (get_ci c (pi_name pi)) as [[k' v']|] eqn:Eci; [|discriminate].
      destruct (get_ci_cv _ _ _ _ Eci) as [_ Hc']. destruct v'; inversion Hg; subst; auto. }
    rewrite <- Hcv. exact Hpe.
Qed.
